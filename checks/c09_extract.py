"""C09 translator: rusl syscall wrappers -> decode skeletons.

Scans /repo/rusl/src for every `fn` containing `syscall!(` and extracts what happens between the
kernel's return value and the function's return into a term of the tiny AST `Skel`
(lean/TinyVerif/Model/Wrap.lean).  Writes, only when the content changes,

  * lean/TinyVerif/Gen/Wrappers.lean   -- `Gen.cfg` (decode idioms + constants) and `Gen.wrappers`
  * harness/c09/src/gen_calls.rs       -- one call stub per callable wrapper (dummy arguments)

and returns the metadata the check needs.  A construct it does not recognise becomes
`Skel.custom "<normalised text>"`, which fails `chk` in Lean (a broken obligation), never a skip.
Python 3 stdlib only; regex + bracket matching on comment-stripped source.
"""
import glob
import json
import os
import re
import sys

REPO = os.environ.get("VERIF_REPO", "/repo")
VERIF = os.path.dirname(os.path.dirname(os.path.abspath(__file__)))
SRC = os.path.join(REPO, "rusl", "src")
GEN_LEAN = os.path.join(VERIF, "lean", "TinyVerif", "Gen", "Wrappers.lean")
GEN_RS = os.path.join(VERIF, "harness", "c09", "src", "gen_calls.rs")

# the build the harness makes: x86_64, default features (alloc), not(test)
CFG_TRUE = {'target_arch = "x86_64"', 'feature = "alloc"'}

PRIM = {"i32": "i32", "u32": "u32", "i64": "i64", "u64": "u64", "usize": "u64", "isize": "i64"}


# ------------------------------------------------------------------ lexical helpers

def strip_comments_and_strings(src):
    """remove // and /* */ comments; replace the *contents* of string literals by nothing (`""`)
    so that brackets / keywords inside messages cannot confuse the matcher.  Char literals kept."""
    out = []
    i, n = 0, len(src)
    while i < n:
        c = src[i]
        if src.startswith("//", i):
            j = src.find("\n", i)
            i = n if j < 0 else j
        elif src.startswith("/*", i):
            depth, i = 1, i + 2
            while i < n and depth:
                if src.startswith("/*", i):
                    depth, i = depth + 1, i + 2
                elif src.startswith("*/", i):
                    depth, i = depth - 1, i + 2
                else:
                    i += 1
        elif c == "#" and re.match(r"#\s*!?\[", src[i:i + 4]):
            # attributes are copied verbatim (their strings are cfg values, not messages)
            lb = src.index("[", i)
            j, depth, instr = lb, 0, False
            while j < n:
                ch = src[j]
                if instr:
                    if ch == "\\":
                        j += 1
                    elif ch == '"':
                        instr = False
                elif ch == '"':
                    instr = True
                elif ch == "[":
                    depth += 1
                elif ch == "]":
                    depth -= 1
                    if depth == 0:
                        break
                j += 1
            out.append(src[i:j + 1])
            i = j + 1
        elif c == '"':
            j = i + 1
            while j < n and src[j] != '"':
                j += 2 if src[j] == "\\" else 1
            out.append('""')
            i = j + 1
        elif c == "'" and i + 2 < n and (src[i + 2] == "'" or (src[i + 1] == "\\" and src.find("'", i + 2) in (i + 3, i + 4))):
            j = src.find("'", i + 2)
            out.append(src[i:j + 1])
            i = j + 1
        else:
            out.append(c)
            i += 1
    return "".join(out)


OPEN = {"(": ")", "[": "]", "{": "}"}
CLOSE = {v: k for k, v in OPEN.items()}


def match_close(s, i):
    """s[i] is an opening bracket; index of its partner (or -1)"""
    stack = []
    for j in range(i, len(s)):
        c = s[j]
        if c in OPEN:
            stack.append(OPEN[c])
        elif c in CLOSE:
            if not stack or stack.pop() != c:
                return -1
            if not stack:
                return j
    return -1


def ws(s):
    s = re.sub(r"\s+", " ", s).strip()
    s = re.sub(r"\(\s+", "(", s)
    s = re.sub(r",?\s+\)", ")", s)
    s = re.sub(r",\)", ")", s)
    s = re.sub(r"\s+;", ";", s)
    s = re.sub(r"\s+,", ",", s)
    s = re.sub(r"\s+\?", "?", s)
    return s


def cfg_holds(expr):
    """evaluate a cfg predicate for the harness build; unknown atoms are false"""
    expr = expr.strip()
    m = re.fullmatch(r"(all|any|not)\((.*)\)", expr, re.S)
    if m:
        parts, depth, cur = [], 0, ""
        for ch in m.group(2):
            if ch == "(":
                depth += 1
            if ch == ")":
                depth -= 1
            if ch == "," and depth == 0:
                parts.append(cur)
                cur = ""
            else:
                cur += ch
        if cur.strip():
            parts.append(cur)
        vals = [cfg_holds(p) for p in parts]
        return {"all": all(vals), "any": any(vals), "not": not vals[0] if vals else True}[m.group(1)]
    return ws(expr) in CFG_TRUE


ATTR_RE = re.compile(r"#\s*!?\[")


def drop_attrs_and_cfg(body):
    """inside a fn body: remove statements gated by a false cfg, then every other attribute"""
    while True:
        m = ATTR_RE.search(body)
        if not m:
            return body
        lb = body.index("[", m.start())
        rb = match_close(body, lb)
        attr = body[lb + 1:rb]
        cm = re.fullmatch(r"\s*cfg\((.*)\)\s*", attr, re.S)
        if cm and not cfg_holds(cm.group(1)):
            # drop the gated statement: up to the `;` at bracket depth 0
            j, depth = rb + 1, 0
            while j < len(body):
                ch = body[j]
                if ch in OPEN:
                    depth += 1
                elif ch in CLOSE:
                    depth -= 1
                elif ch == ";" and depth == 0:
                    break
                j += 1
            body = body[:m.start()] + body[j + 1:]
        else:
            body = body[:m.start()] + body[rb + 1:]


def lean_str(s):
    return '"' + s.replace("\\", "\\\\").replace('"', '\\"') + '"'


# ------------------------------------------------------------------ items

FN_RE = re.compile(r"\bfn\s+([A-Za-z_]\w*)\s*(<[^>(]*>)?\s*\(")


def remove_test_mods(src):
    """drop `#[cfg(test)] mod x { .. }` / `#[cfg(all(test, ..))] mod x;` items"""
    while True:
        m = re.search(r"#\[cfg\(([^\]]*\btest\b[^\]]*)\)\]\s*(?:pub\s+)?mod\s+\w+\s*([;{])", src)
        if not m:
            return src
        if m.group(2) == ";":
            src = src[:m.start()] + src[m.end():]
        else:
            e = match_close(src, m.end() - 1)
            src = src[:m.start()] + src[e + 1:]


def split_params(s):
    parts, depth, cur = [], 0, ""
    for ch in s:
        if ch in "([{<":
            depth += 1
        elif ch in ")]}>":
            depth -= 1
        if ch == "," and depth == 0:
            parts.append(cur)
            cur = ""
        else:
            cur += ch
    if cur.strip():
        parts.append(cur)
    return [ws(p) for p in parts]


def find_fns(path):
    raw = open(path).read()
    src = remove_test_mods(strip_comments_and_strings(raw))
    fns = []
    for m in FN_RE.finditer(src):
        lp = m.end() - 1
        rp = match_close(src, lp)
        if rp < 0:
            continue
        k = rp + 1
        while k < len(src) and src[k] not in "{;":
            k += 1
        if k >= len(src) or src[k] == ";":
            continue  # declaration without body (trait / extern)
        ret = ws(src[rp + 1:k])
        ret = ret[2:].strip() if ret.startswith("->") else ""
        be = match_close(src, k)
        # qualifiers + attributes before `fn`
        line_start = src.rfind("\n", 0, m.start()) + 1
        quals = src[line_start:m.start()]
        attrs = []
        p = line_start
        while True:
            # walk back over whitespace; an attribute ends with `]` and starts with `#[`
            q = p
            while q > 0 and src[q - 1].isspace():
                q -= 1
            if q == 0 or src[q - 1] != "]":
                break
            depth, j = 0, q - 1
            while j >= 0:
                if src[j] == "]":
                    depth += 1
                elif src[j] == "[":
                    depth -= 1
                    if depth == 0:
                        break
                j -= 1
            if j < 1 or src[j - 1] != "#":
                break
            attrs.append(ws(src[j - 1:q]))
            p = j - 1
        # is the fn nested in an `impl`/`trait` block?  (depth of braces before it > 0)
        depth = 0
        for ch in src[:m.start()]:
            if ch == "{":
                depth += 1
            elif ch == "}":
                depth -= 1
        lineno = raw.count("\n", 0, raw.find("fn " + m.group(1))) + 1 if ("fn " + m.group(1)) in raw else 0
        fns.append({
            "name": m.group(1), "generics": m.group(2) or "", "params": split_params(src[lp + 1:rp]), "ret": ret,
            "body": src[k + 1:be], "pub": bool(re.search(r"\bpub\b(?!\s*\()", quals)), "unsafe": "unsafe" in quals.split(),
            "extern": "extern" in quals, "attrs": attrs, "nested": depth > 0, "line": lineno,
        })
    return fns


# ------------------------------------------------------------------ continuation of one syscall site

def stmt_start(body, i):
    """index just after the previous `;`, `{` or `}` at the same nesting level as position i"""
    depth = 0
    j = i - 1
    while j >= 0:
        ch = body[j]
        if ch in CLOSE:
            depth += 1
        elif ch in OPEN:
            if depth == 0:
                return j + 1
            depth -= 1
        elif ch == ";" and depth == 0:
            return j + 1
        elif ch == "}" and depth == 0:
            return j + 1
        j -= 1
    return 0


def enclosing_open(body, i):
    """index of the `{` of the innermost block containing position i (or -1 = fn body)"""
    depth = 0
    j = i - 1
    while j >= 0:
        ch = body[j]
        if ch in CLOSE:
            depth += 1
        elif ch in OPEN:
            if depth == 0:
                return j if ch == "{" else enclosing_open(body, j)
            depth -= 1
        j -= 1
    return -1


def strip_unsafe_blocks(s):
    """`unsafe { E }` -> `E` when E has no `;` (an expression block)"""
    while True:
        m = re.search(r"\bunsafe\s*\{", s)
        if not m:
            return s
        e = match_close(s, m.end() - 1)
        inner = s[m.end():e]
        if ";" in inner:
            # keep it, but hide the keyword from the next search
            s = s[:m.start()] + "UNSAFE_BLOCK {" + s[m.end():]
        else:
            s = s[:m.start()] + " " + inner.strip() + " " + s[e + 1:]


def continuation(body, site):
    """-> (bound variable or None, normalised continuation text, in_loop) or ("custom", reason)"""
    end = match_close(body, body.index("(", site))
    a, b = site, end + 1
    # the value of `[unsafe] { syscall!(..) }` is the syscall's value
    while True:
        ob = enclosing_open(body, a)
        if ob < 0:
            break
        cb = match_close(body, ob)
        if body[ob + 1:a].strip() == "" and body[b:cb].strip() == "":
            a, b = ob, cb + 1
            m = re.search(r"\bunsafe\s*$", body[:a])
            if m:
                a = m.start()
        else:
            break
    s0 = stmt_start(body, a)
    head = body[s0:a].strip()
    rest_from = b
    nxt = body[b:].lstrip()[:1]
    m = re.fullmatch(r"let\s+(?:mut\s+)?([A-Za-z_]\w*)\s*(?::[^=]+)?=", head)
    if m and nxt == ";":
        var = m.group(1)
        rest_from = body.index(";", b) + 1
    elif head == "" and nxt == ";":
        var = None
        rest_from = body.index(";", b) + 1
    elif head == "" and nxt in ("}", ""):
        # the syscall's value is the tail expression of its block
        var = "res"
        body = body[:a] + "res" + body[b:]
        rest_from = a
    else:
        return ("custom", "syscall result used in: " + ws(body[s0:b])[:120])
    segs = []
    in_loop = False
    pos = rest_from
    while True:
        ob = enclosing_open(body, pos)
        cb = match_close(body, ob) if ob >= 0 else len(body)
        seg = body[pos:cb].strip()
        segs.append(seg)
        # does this segment end the function (tail expression or `return ..;`)?
        tail = seg
        depth = 0
        last_semi = -1
        for idx, ch in enumerate(seg):
            if ch in OPEN:
                depth += 1
            elif ch in CLOSE:
                depth -= 1
            elif ch == ";" and depth == 0:
                last_semi = idx
        tail = seg[last_semi + 1:].strip()
        last_stmt = seg[:last_semi].rsplit(";", 1)[-1].strip() if last_semi >= 0 else ""
        if ob < 0:
            break
        hs = stmt_start(body, ob)
        header = body[hs:ob].strip()
        if header == "loop":
            in_loop = True
            break
        if tail:
            # tail expression of an inner block: it is the function's value only if the block is in tail position
            after = body[cb + 1:].strip()
            if re.fullmatch(r"[}\s]*", after) and (header in ("unsafe", "") or header.startswith(("if ", "else"))):
                if header.startswith(("if ", "else")):
                    return ("custom", "branching tail: " + ws(header)[:80])
                break
            return ("custom", "inner block value used: " + ws(body[hs:cb + 1])[:120])
        if re.match(r"return\b", last_stmt):
            break
        if header == "unsafe" or header == "" or header.startswith("if ") or header == "else" or header.startswith("else if "):
            pos = cb + 1
            # skip `else ..` continuations of an if-chain
            while True:
                mm = re.match(r"\s*else\b[^{]*\{", body[pos:])
                if not mm:
                    break
                eb = match_close(body, pos + mm.end() - 1)
                pos = eb + 1
            # a block used as a statement may be followed by `;`
            mm = re.match(r"\s*;", body[pos:])
            if mm and header in ("unsafe", ""):
                pos += mm.end()
            continue
        return ("custom", "unsupported enclosing construct: " + ws(header)[:80])
    text = " ".join(s for s in segs if s)
    if var and var != "res":
        if re.search(r"\bres\b", text):
            return ("custom", "variable clash: " + ws(text)[:120])
        text = re.sub(r"\b%s\b" % re.escape(var), "res", text)
    text = ws(strip_unsafe_blocks(text)).replace('""', "_")
    return (var, text, in_loop)


# ------------------------------------------------------------------ skeleton recognition

class Env:
    def __init__(self):
        self.aliases = dict(PRIM)
        self.errno = {}
        self.notes = []


def resolve_ty(env, t):
    t = t.strip()
    seen = 0
    while t in env.aliases and env.aliases[t] != t and seen < 8:
        t = env.aliases[t]
        seen += 1
    return t if t in ("i32", "u32", "i64", "u64") else None


def proj_of(env, expr):
    """Ok(<expr>) -> Lean Proj term or None"""
    e = expr.strip()
    if e == "()":
        return ".unit"
    occ = list(re.finditer(r"\bres\b", e))
    if not occ:
        return ".mem"
    if len(occ) > 1:
        return None
    m = re.search(r"\bres\b(?:\s+as\s+([A-Za-z_]\w*))?", e)
    # the register may only flow into the payload directly or through one cast (struct field / tuple member allowed)
    before, after = e[:m.start()], e[m.end():]
    if re.search(r"[-+*/%&|^!<>]|\bas\b", after.split(",")[0].split("}")[0].split(")")[0]):
        return None
    if re.search(r"[-+*/%&|^!]\s*$", before):
        return None
    if m.group(1):
        t = resolve_ty(env, m.group(1))
        return "(.cast .%s)" % t if t else None
    return ".id"


def const_int(env, expr):
    """tiny constant folder: [-] [(] Errno::NAME.raw() [as T] [)]"""
    e = expr.strip()
    neg = False
    if e.startswith("-"):
        neg, e = True, e[1:].strip()
    while e.startswith("(") and match_close(e, 0) == len(e) - 1:
        e = e[1:-1].strip()
    e = re.sub(r"\s+as\s+(isize|i64|i32)$", "", e)
    m = re.fullmatch(r"Errno::([A-Z0-9_]+)\.raw\(\)", e)
    if m and m.group(1) in env.errno:
        v = env.errno[m.group(1)]
        return -v if neg else v
    m = re.fullmatch(r"-?\d+", e)
    if m:
        return -int(e) if neg else int(e)
    return None


def code_of(expr):
    e = ws(expr)
    if e in ("0 - res as i32", "0 - (res as i32)", "-(res as i32)"):
        return ".negI32"
    if e == "res as i32":
        return ".rawI32"
    return ".custom " + lean_str(e)


COERCE = r"(?:Fd|NonNegativeI32|crate::platform::Fd|crate::platform::NonNegativeI32)::coerce_from_register\(res, _\)"


def accessor_of(expr):
    """how the harness reaches the register-derived part of an `Ok(<expr>)` payload whose type it cannot name"""
    e = expr.strip()
    if not re.search(r"\bres\b", e):
        return ".map(|_| Mem)" if e != "()" else ""
    m = re.match(r"^[A-Za-z_][\w:]*\s*\{(.*)\}$", e, re.S)
    if m:
        for part in split_params(m.group(1)):
            fm = re.match(r"(\w+)\s*:\s*(.*)$", part, re.S)
            if fm and re.search(r"\bres\b", fm.group(2)):
                return ".map(|x| x.%s)" % fm.group(1)
            if re.fullmatch(r"res", part.strip()):
                return ".map(|x| x.res)"
    if e.startswith("(") and match_close(e, 0) == len(e) - 1:
        for i, part in enumerate(split_params(e[1:-1])):
            if re.search(r"\bres\b", part):
                return ".map(|x| x.%d)" % i
    return ""


def simple_skel(env, text):
    """loop-free continuation -> (Lean Skel term, harness accessor) or None"""
    t = text
    m = re.fullmatch(r"bail_on_below_zero!\(res, _\); (?:return )?Ok\((.*)\);?", t)
    if m:
        p = proj_of(env, m.group(1))
        return ("(.bail %s)" % p, accessor_of(m.group(1))) if p else None
    if re.fullmatch(COERCE, t):
        return (".coerceFd", "")
    if re.fullmatch(r"Ok\(\w+\(%s\?\)\)" % COERCE, t):
        return (".coerceFd", "")
    m = re.fullmatch(r"let (\w+) = %s\?; Ok\((.*)\)" % COERCE, t)
    if m and not re.search(r"\bres\b", m.group(2)) and re.match(r"\(\s*%s\s*," % m.group(1), m.group(2)):
        return (".coerceFd", ".map(|x| x.0)")
    m = re.fullmatch(r"Err\((?:crate::)?Error::with_code\(_, (.*)\)\)", t)
    if m:
        return ("(.errAlways %s)" % code_of(m.group(1)), "")
    return None


def skel_of(env, fn, var, text, in_loop):
    """-> (Lean Skel term, harness accessor)"""
    has_result = "Result" in fn["ret"]
    if fn["ret"] == "!":
        return (".noRet", "")
    if in_loop:
        m = re.fullmatch(r"if res(?: as (\w+))? == ([^{]+) \{ continue; \} (.*)", text)
        if m:
            t = resolve_ty(env, m.group(1)) if m.group(1) else "u64"
            v = const_int(env, m.group(2))
            k = simple_skel(env, m.group(3))
            if t and v is not None and k:
                return ("(.retryIfEq .%s (%d) %s)" % (t, v, k[0]), k[1])
        return (".custom " + lean_str("loop { " + text + " }"), "")
    if var is None:
        if not has_result and not re.search(r"\bres\b", text):
            return (".ignored", "")
        return (".custom " + lean_str("discarded; " + text), "")
    if not has_result:
        m = re.fullmatch(r"res(?: as (\w+))?", text)
        if m:
            if not m.group(1):
                return ("(.retRaw .id)", "")
            t = resolve_ty(env, m.group(1))
            if t:
                return ("(.retRaw (.cast .%s))" % t, "")
        return (".custom " + lean_str(text), "")
    k = simple_skel(env, text)
    return k if k else (".custom " + lean_str(text), "")


# ------------------------------------------------------------------ shared idioms and constants

def extract_cfg(env):
    """`Cfg` fields from platform/compat.rs, macros.rs, non_negative_i32.rs (+ Errno::EBUSY)"""
    cfg = {"resv": None, "strict": None, "bailCode": None, "coerceCode": None, "coerceOk": None, "ebusy": None}
    problems = []
    compat = strip_comments_and_strings(open(os.path.join(SRC, "platform", "compat.rs")).read())
    for m in re.finditer(r"pub type (\w+) = (\w+);", compat):
        env.aliases[m.group(1)] = m.group(2)
    consts = {m.group(1): ws(m.group(2)) for m in re.finditer(r"const (\w+): usize = ([^;]+);", compat)}
    m = re.search(r"pub const fn is_syscall_error\((\w+): usize\) -> bool \{([^}]*)\}", compat)
    if m:
        body = ws(m.group(2))
        mm = re.fullmatch(r"%s (>=|>) (\w+)" % m.group(1), body)
        if mm and mm.group(2) in consts:
            th = consts[mm.group(2)]
            m3 = re.fullmatch(r"usize::MAX - (\w+)", th)
            if m3:
                lit = consts.get(m3.group(1), m3.group(1)).replace("_", "")
                if re.fullmatch(r"\d+", lit):
                    cfg["resv"] = int(lit)
                    cfg["strict"] = mm.group(1) == ">"
    if cfg["resv"] is None:
        problems.append("is_syscall_error: shape not recognised")
    macros = strip_comments_and_strings(open(os.path.join(SRC, "macros.rs")).read())
    m = re.search(r"macro_rules! bail_on_below_zero \{(.*?)\n\}", macros, re.S)
    if m:
        body = ws(m.group(1))
        mm = re.fullmatch(r"\(\$res: expr, \$out_line: expr\) => \{ if \$crate::platform::is_syscall_error\(\$res\) \{ "
                          r"return Err\(\$crate::Error::with_code\(\$out_line, (.*)\)\); \} \};", body)
        if mm:
            cfg["bailCode"] = code_of(mm.group(1).replace("$res", "res"))
    if cfg["bailCode"] is None:
        cfg["bailCode"] = ".custom " + lean_str("bail_on_below_zero!: shape not recognised")
        problems.append("bail_on_below_zero!: shape not recognised")
    nn = strip_comments_and_strings(open(os.path.join(SRC, "platform", "numbers", "non_negative_i32.rs")).read())
    m = re.search(r"const fn coerce_from_register\(\s*(\w+): usize,\s*(\w+): &'static str,?\s*\) -> Result<Self, Error> \{", nn)
    if m:
        ob = m.end() - 1
        body = ws(nn[ob + 1:match_close(nn, ob)])
        v, msg = m.group(1), m.group(2)
        body = re.sub(r"\b%s\b" % v, "res", body)
        mm = re.fullmatch(r"if is_syscall_error\(res\) \{ let (\w+) = (res as i32); Err\(Error::with_code\(%s, (.*)\)\) \} "
                          r"else \{ Ok\(Self\(res as (\w+)\)\) \}" % msg, body)
        if mm:
            code = re.sub(r"\b%s\b" % mm.group(1), mm.group(2), mm.group(3))
            cfg["coerceCode"] = code_of(code)
            cfg["coerceOk"] = resolve_ty(env, mm.group(4))
        else:
            mm = re.fullmatch(r"if is_syscall_error\(res\) \{ Err\(Error::with_code\(%s, (.*)\)\) \} else \{ Ok\(Self\(res as (\w+)\)\) \}" % msg, body)
            if mm:
                cfg["coerceCode"] = code_of(mm.group(1))
                cfg["coerceOk"] = resolve_ty(env, mm.group(2))
    if cfg["coerceCode"] is None or cfg["coerceOk"] is None:
        cfg["coerceCode"] = ".custom " + lean_str("coerce_from_register: shape not recognised")
        cfg["coerceOk"] = cfg["coerceOk"] or "i32"
        problems.append("coerce_from_register: shape not recognised")
    # Errno values: rusl's Errno::NAME = linux_rust_bindings::errno::NAME (pinned registry crate)
    errno_rs = strip_comments_and_strings(open(os.path.join(SRC, "error", "errno.rs")).read())
    if "pub const $name: Self = Self(linux_rust_bindings::errno::$name);" in ws(errno_rs):
        cands = sorted(glob.glob(os.path.expanduser("~/.cargo/registry/src/*/linux-rust-bindings-*/src/errno/errno_x86.rs")))
        lock = open(os.path.join(REPO, "Cargo.lock")).read() if os.path.exists(os.path.join(REPO, "Cargo.lock")) else ""
        mver = re.search(r'name = "linux-rust-bindings"\nversion = "([^"]+)"', lock)
        if mver:
            cands = [c for c in cands if ("linux-rust-bindings-" + mver.group(1) + "/") in c] or cands
        if cands:
            for m in re.finditer(r"pub const (E[A-Z0-9]+): i32 = (\d+);", open(cands[-1]).read()):
                env.errno[m.group(1)] = int(m.group(2))
    if "EBUSY" in env.errno:
        cfg["ebusy"] = env.errno["EBUSY"]
    else:
        problems.append("Errno::EBUSY: value not found")
        cfg["ebusy"] = 0
    return cfg, problems


# ------------------------------------------------------------------ driver

def ret_category(env, ret):
    """payload category of the declared return type (used by the harness-independent spec oracle)"""
    m = re.fullmatch(r"(?:crate::|crate::error::)?Result<(.*?)(?:, Error)?>", ret)
    if not m:
        return "noresult" if ret != "!" else "noreturn"
    t = m.group(1).strip()
    if t == "()":
        return "unit"
    if t in ("Fd", "NonNegativeI32", "OpenFlags", "WaitPidResult") or re.match(r"\(Fd,", t):
        return "i32"
    r = resolve_ty(env, t)
    return r if r else "mem"


def extract():
    env = Env()
    cfg, problems = extract_cfg(env)
    wrappers = []
    skipped = []
    files = sorted(glob.glob(os.path.join(SRC, "**", "*.rs"), recursive=True))
    for path in files:
        rel = os.path.relpath(path, SRC)
        if os.path.basename(path) in ("test.rs", "tests.rs") or "/test/" in rel or rel.startswith("platform/"):
            continue
        text = open(path).read()
        if "syscall!(" not in text:
            continue
        fns = find_fns(path)
        top = rel.split("/")[0].replace(".rs", "")
        local = {}
        for fn in fns:
            if "syscall!(" not in fn["body"]:
                continue
            gated = [a for a in fn["attrs"] if re.match(r"#\[cfg\(", a)]
            if any(not cfg_holds(re.match(r"#\[cfg\((.*)\)\]$", a).group(1)) for a in gated):
                skipped.append({"name": top + "::" + fn["name"], "file": rel, "why": "cfg'd out of the x86_64 build: " + " ".join(gated)})
                continue
            body = drop_attrs_and_cfg(fn["body"])
            sites = [m.start() for m in re.finditer(r"\bsyscall!\(", body)]
            skels = []
            for s in sites:
                c = continuation(body, s)
                if c[0] == "custom":
                    skels.append((".custom " + lean_str(c[1]), ""))
                else:
                    skels.append(skel_of(env, fn, c[0], c[1], c[2]))
            if fn["nested"]:
                skels = [(".custom " + lean_str("syscall! inside an impl/trait/nested item"), "")]
            if len(set(skels)) == 1:
                skel, acc = skels[0]
            else:
                skel, acc = ".custom " + lean_str("syscall sites decode differently: " + " | ".join(k for k, _ in skels)), ""
            if fn["ret"] == "!":
                skel = ".noRet"
            w = {"name": top + "::" + fn["name"], "fn": fn["name"], "top": top, "file": rel, "line": fn["line"], "skel": skel,
                 "acc": acc, "sites": len(sites), "pub": fn["pub"], "unsafe": fn["unsafe"], "params": fn["params"], "ret": fn["ret"],
                 "cat": ret_category(env, fn["ret"]), "via": None,
                 "post_checks": bool(re.search(r"Ok\(.*\?", " ".join(continuation(body, s)[1] for s in sites if continuation(body, s)[0] != "custom")))
                 and "coerce_from_register" not in body}
            local[fn["name"]] = w
            wrappers.append(w)
        # delegates: fns of the same file whose whole body is one call of a wrapper (transitively)
        changed = True
        while changed:
            changed = False
            for fn in fns:
                if fn["name"] in local or fn["nested"]:
                    continue
                b = ws(drop_attrs_and_cfg(fn["body"]))
                m = re.fullmatch(r"(?:unsafe \{ )?([a-z_]\w*)\((.*)\)(?: \})?", b)
                if m and m.group(1) in local and local[m.group(1)]["ret"].replace("crate::", "") == fn["ret"].replace("crate::", ""):
                    callee = local[m.group(1)]
                    w = dict(callee)
                    w.update({"name": top + "::" + fn["name"], "fn": fn["name"], "line": fn["line"], "pub": fn["pub"], "unsafe": fn["unsafe"],
                              "params": fn["params"], "ret": fn["ret"], "via": callee["fn"], "cat": ret_category(env, fn["ret"])})
                    local[fn["name"]] = w
                    wrappers.append(w)
                    changed = True
    wrappers.sort(key=lambda w: w["name"])
    meta = {"cfg": cfg, "problems": problems, "wrappers": wrappers, "skipped": skipped}
    write_lean(meta)
    write_rs(meta)
    return meta


def write_if_changed(path, content):
    os.makedirs(os.path.dirname(path), exist_ok=True)
    if os.path.exists(path) and open(path).read() == content:
        return False
    with open(path, "w") as f:
        f.write(content)
    return True


def write_lean(meta):
    c = meta["cfg"]
    o = ["/- GENERATED by checks/c09_extract.py from %s/rusl/src on every run of `bin/check C09`.  Do not edit. -/" % REPO,
         "import TinyVerif.Model.Wrap", "namespace TinyVerif.Gen", "open TinyVerif.Wrap", ""]
    o.append("/-- decode idioms as they are in platform/compat.rs, macros.rs, platform/numbers/non_negative_i32.rs, error/errno.rs -/")
    o.append("def cfg : Cfg := { resv := %d, strict := %s, bailCode := %s, coerceCode := %s, coerceOk := .%s, ebusy := %d }"
             % (c["resv"] if c["resv"] is not None else 0, "true" if c["strict"] else "false", c["bailCode"], c["coerceCode"], c["coerceOk"], c["ebusy"]))
    o.append("")
    o.append("/-- constructs of the shared idioms the extractor could not translate (must be empty) -/")
    o.append("def problems : List String := [%s]" % ", ".join(lean_str(p) for p in meta["problems"]))
    o.append("")
    o.append("def wrappers : List Wrapper := [")
    rows = ["  { name := %s, file := %s, skel := %s }" % (lean_str(w["name"]), lean_str(w["file"]), w["skel"]) for w in meta["wrappers"]]
    o.append(",\n".join(rows))
    o.append("]")
    o.append("")
    o.append("end TinyVerif.Gen")
    return write_if_changed(GEN_LEAN, "\n".join(o) + "\n")


def callable_wrappers(meta):
    return [w for w in meta["wrappers"] if w["pub"] and w["ret"] != "!" and not w["skel"].startswith(".noRet")]


def write_rs(meta):
    o = ["// GENERATED by checks/c09_extract.py from %s/rusl/src.  Do not edit." % REPO,
         "// One stub per exported wrapper: dummy arguments come from `Dummy` impls selected by the parameter types.",
         "pub const WRAPPERS: &[(&str, fn() -> String)] = &["]
    for w in callable_wrappers(meta):
        args = ", ".join("d()" for _ in w["params"])
        o.append("    (%s, || unsafe { show(rusl::%s::%s(%s)%s) })," % (json.dumps(w["name"]), w["top"], w["fn"], args, w["acc"]))
    o.append("];")
    return write_if_changed(GEN_RS, "\n".join(o) + "\n")


if __name__ == "__main__":
    m = extract()
    if "--json" in sys.argv:
        json.dump(m, sys.stdout, indent=1)
    else:
        print("cfg", m["cfg"], "problems", m["problems"])
        for w in m["wrappers"]:
            print("%-34s %-5s %-8s %s%s" % (w["name"], "pub" if w["pub"] else "priv", w["cat"], w["skel"], (" via " + w["via"]) if w["via"] else ""))
        for s in m["skipped"]:
            print("skipped", s)
