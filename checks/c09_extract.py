"""C09 translator: rusl syscall wrappers -> decode skeletons (semantic extraction).

Scans /repo/rusl/src for every `fn` containing `syscall!(` (and every fn that calls such a fn of the same file) and
works out what happens between the kernel's return value and the function's return:

  * the source is tokenised and split into statements; expressions are parsed (Pratt parser for the Rust subset the
    wrappers use) only when they matter;
  * a small symbolic interpreter runs the function body with the return register as a symbol: `let` bindings and
    constants (`Errno::X.raw()`, `const`s, `usize::MAX`, `0usize.wrapping_sub(..)`) are resolved, `-x` / `0 - x`,
    inverted branches, early returns, `!=`/`==`, hoisted sub-expressions and cast chains are normalised; the result is a
    decision tree over the register (conditions: "is in the error range", "equals constant"; leaves: Ok / Err / retry);
  * the tree is matched against the skeleton forms of lean/TinyVerif/Model/Wrap.lean (`Skel`).

A body whose tree is not one of the skeleton forms (or that cannot be parsed) is marked OPAQUE: its row is
`Skel.custom "opaque: .."`, its name is listed in `Gen.opaqueRows`, the Lean table obligation ranges over the other rows, and
checks/c09.py decides the property for it from what the compiled code does under the scripted kernel, exhaustively
over the errno range, the success classes and all argument variants (and says so in the evidence).  A body that IS
understood but decodes differently (other retry constant, other error code expression, other error window) yields a
well-formed skeleton / Cfg that fails `chk` / `cfgOk` in Lean: a broken obligation, never a skip.

Writes, only when the content changes,
  * lean/TinyVerif/Gen/Wrappers.lean   -- `Gen.cfg`, `Gen.problems`, `Gen.observed`, `Gen.opaqueRows`, `Gen.wrappers`
  * harness/c09/src/gen_calls.rs       -- one call stub per exported wrapper, from the SIGNATURES only
Python 3 stdlib only.
"""
import glob
import json
import os
import re
import sys

sys.setrecursionlimit(max(sys.getrecursionlimit(), 20000))  # the interpreter is written in continuation-passing style
REPO = os.environ.get("VERIF_REPO", "/repo")
VERIF = os.path.dirname(os.path.dirname(os.path.abspath(__file__)))
SRC = os.path.join(REPO, "rusl", "src")
GEN_LEAN = os.path.join(VERIF, "lean", "TinyVerif", "Gen", "Wrappers.lean")
GEN_RS = os.path.join(VERIF, "harness", "c09", "src", "gen_calls.rs")

# the build the harness makes: x86_64, default features (alloc), not(test)
CFG_TRUE = {'target_arch = "x86_64"', 'feature = "alloc"', 'target_pointer_width = "64"', 'target_os = "linux"'}

PRIM = {"i32": "i32", "u32": "u32", "i64": "i64", "u64": "u64", "usize": "u64", "isize": "i64"}
M64 = 1 << 64
INT_TYPES = {"i8": (8, True), "u8": (8, False), "i16": (16, True), "u16": (16, False), "i32": (32, True), "u32": (32, False),
             "i64": (64, True), "u64": (64, False), "isize": (64, True), "usize": (64, False), "i128": (128, True), "u128": (128, False)}


# ------------------------------------------------------------------ lexical helpers

def strip_comments_and_strings(src):
    """remove // and /* */ comments; replace the *contents* of string literals by nothing (`""`)
    so that brackets / keywords inside messages cannot confuse the matcher.  Char literals kept."""
    out = []
    i, n = 0, len(src)
    while i < n:
        c = src[i]
        if src.startswith("//", i):
            j = src.find("\n", i)
            i = n if j < 0 else j
        elif src.startswith("/*", i):
            depth, i = 1, i + 2
            while i < n and depth:
                if src.startswith("/*", i):
                    depth, i = depth + 1, i + 2
                elif src.startswith("*/", i):
                    depth, i = depth - 1, i + 2
                else:
                    i += 1
        elif c == "#" and re.match(r"#\s*!?\[", src[i:i + 4]):
            # attributes are copied verbatim (their strings are cfg values, not messages)
            lb = src.index("[", i)
            j, depth, instr = lb, 0, False
            while j < n:
                ch = src[j]
                if instr:
                    if ch == "\\":
                        j += 1
                    elif ch == '"':
                        instr = False
                elif ch == '"':
                    instr = True
                elif ch == "[":
                    depth += 1
                elif ch == "]":
                    depth -= 1
                    if depth == 0:
                        break
                j += 1
            out.append(src[i:j + 1])
            i = j + 1
        elif c == '"':
            j = i + 1
            while j < n and src[j] != '"':
                j += 2 if src[j] == "\\" else 1
            out.append('""')
            i = j + 1
        elif c == "'" and i + 2 < n and (src[i + 2] == "'" or (src[i + 1] == "\\" and src.find("'", i + 2) in (i + 3, i + 4))):
            j = src.find("'", i + 2)
            out.append(src[i:j + 1])
            i = j + 1
        else:
            out.append(c)
            i += 1
    return "".join(out)


OPEN = {"(": ")", "[": "]", "{": "}"}
CLOSE = {v: k for k, v in OPEN.items()}


def match_close(s, i):
    """s[i] is an opening bracket (string or token list); index of its partner (or -1)"""
    stack = []
    for j in range(i, len(s)):
        c = s[j]
        if c in OPEN:
            stack.append(OPEN[c])
        elif c in CLOSE:
            if not stack or stack.pop() != c:
                return -1
            if not stack:
                return j
    return -1


def ws(s):
    s = re.sub(r"\s+", " ", s).strip()
    s = re.sub(r"\(\s+", "(", s)
    s = re.sub(r",?\s+\)", ")", s)
    s = re.sub(r",\)", ")", s)
    s = re.sub(r"\s+;", ";", s)
    s = re.sub(r"\s+,", ",", s)
    s = re.sub(r"\s+\?", "?", s)
    return s


def cfg_holds(expr):
    """evaluate a cfg predicate for the harness build; unknown atoms are false"""
    expr = expr.strip()
    m = re.fullmatch(r"(all|any|not)\s*\((.*)\)", expr, re.S)
    if m:
        parts, depth, cur = [], 0, ""
        for ch in m.group(2):
            if ch == "(":
                depth += 1
            if ch == ")":
                depth -= 1
            if ch == "," and depth == 0:
                parts.append(cur)
                cur = ""
            else:
                cur += ch
        if cur.strip():
            parts.append(cur)
        vals = [cfg_holds(p) for p in parts]
        return {"all": all(vals), "any": any(vals), "not": not vals[0] if vals else True}[m.group(1)]
    return ws(expr) in CFG_TRUE


def lean_str(s):
    return '"' + s.replace("\\", "\\\\").replace('"', '\\"') + '"'


# ------------------------------------------------------------------ tokens

TOK_RE = re.compile(r"""
   (?P<ws>\s+)
 | (?P<chr>'(?:\\(?:x[0-9a-fA-F]{2}|u\{[0-9a-fA-F]+\}|.)|[^'\\])')
 | (?P<life>'[A-Za-z_]\w*)
 | (?P<num>0[xX][0-9a-fA-F_]+\w*|0[bB][01_]+\w*|0[oO][0-7_]+\w*|\d[\d_]*(?:\.\d[\d_]*)?(?:[eE][+-]?\d[\d_]*)?\w*)
 | (?P<str>(?:b|c)?"(?:[^"\\]|\\.)*")
 | (?P<id>\$?(?:r\#)?[A-Za-z_]\w*)
 | (?P<p><<=|>>=|\.\.\.|\.\.=|::|->|=>|==|!=|<=|>=|&&|\|\||\+=|-=|\*=|/=|%=|\^=|&=|\|=|<<|>>|\.\.|[-+*/%^!&|=<>@.,;:\#$?~\[\]{}()])
""", re.X)


class ParseError(Exception):
    pass


def tokenize(src):
    """comment-stripped source -> list of token strings"""
    toks = []
    i, n = 0, len(src)
    while i < n:
        if toks and toks[-1] == "." and src[i].isdigit():
            m = re.compile(r"\d+").match(src, i)  # tuple index: `x.0.1` must not lex `0.1` as a float
            toks.append(m.group(0))
            i = m.end()
            continue
        m = TOK_RE.match(src, i)
        if not m:
            raise ParseError("cannot tokenise at: " + src[i:i + 20])
        if m.lastgroup != "ws":
            toks.append(m.group(0))
        i = m.end()
    return toks


def text_of(toks):
    out = ""
    for t in toks:
        if out and (out[-1].isalnum() or out[-1] in "_\"'") and (t[0].isalnum() or t[0] in "_\"'$"):
            out += " "
        elif out and t in ("{", "}", "=", "==", "!=", "<=", ">=", "&&", "||", "=>", "->", "+", "-", "*", "/", "<", ">", "as") or \
                (out and out[-1] in "{}=,;+*/<>|&" and not out.endswith("::") and t not in (")", "]", ",", ";", ".")):
            out += " "
        out += t
    return out.replace('""', "_")


def is_ident(t):
    return bool(re.fullmatch(r"\$?(?:r#)?[A-Za-z_]\w*", t))


def parse_int(tok):
    """integer literal token -> (value, suffix or None); None for floats / non-integers"""
    t = tok.replace("_", "")
    m = re.fullmatch(r"(0[xX][0-9a-fA-F]+|0[bB][01]+|0[oO][0-7]+|\d+)((?:[iu](?:8|16|32|64|128|size))?)", t)
    if not m:
        return None
    lit, suf = m.group(1), m.group(2) or None
    low = lit.lower()
    if low.startswith("0x"):
        v = int(low[2:], 16)
    elif low.startswith("0b"):
        v = int(low[2:], 2)
    elif low.startswith("0o"):
        v = int(low[2:], 8)
    else:
        v = int(lit)
    return v, suf


# ------------------------------------------------------------------ statement splitter

ITEM_KW = {"fn", "struct", "enum", "union", "use", "impl", "trait", "type", "mod", "static", "extern", "macro_rules", "pub"}
BLOCKLIKE = {"if", "match", "loop", "while", "for", "unsafe", "{"}


def find_at_depth0(toks, i, targets, end=None):
    """first index >= i of a token in `targets` at bracket depth 0 (or -1)"""
    depth = 0
    end = len(toks) if end is None else end
    j = i
    while j < end:
        t = toks[j]
        if depth == 0 and t in targets:
            return j
        if t in OPEN:
            depth += 1
        elif t in CLOSE:
            depth -= 1
            if depth < 0:
                return -1
        j += 1
    return -1


def end_of_blocklike(toks, i):
    """toks[i] starts a block-like expression in statement position; index of its last token"""
    t = toks[i]
    if t.startswith("'") and i + 2 < len(toks) and toks[i + 1] == ":":
        return end_of_blocklike(toks, i + 2)
    if t == "{":
        return match_close(toks, i)
    if t in ("unsafe", "loop", "const"):
        if toks[i + 1] != "{":
            raise ParseError("expected block after " + t)
        return match_close(toks, i + 1)
    if t in ("match", "while", "for"):
        ob = find_at_depth0(toks, i + 1, ("{",))
        if ob < 0:
            raise ParseError("no body for " + t)
        return match_close(toks, ob)
    if t == "if":
        ob = find_at_depth0(toks, i + 1, ("{",))
        if ob < 0:
            raise ParseError("no body for if")
        e = match_close(toks, ob)
        if e < 0:
            raise ParseError("unbalanced if")
        if e + 1 < len(toks) and toks[e + 1] == "else":
            if e + 2 < len(toks) and toks[e + 2] == "if":
                return end_of_blocklike(toks, e + 2)
            if e + 2 < len(toks) and toks[e + 2] == "{":
                return match_close(toks, e + 2)
            raise ParseError("bad else")
        return e
    raise ParseError("not block-like: " + t)


def starts_blocklike(toks, i):
    t = toks[i]
    if t in ("if", "match", "loop", "while", "for", "{"):
        return True
    if t == "unsafe" and i + 1 < len(toks) and toks[i + 1] == "{":
        return True
    if t.startswith("'") and len(t) > 1 and i + 2 < len(toks) and toks[i + 1] == ":" and toks[i + 2] in ("loop", "while", "for", "{"):
        return True
    return False


class Stmt:
    __slots__ = ("kind", "toks", "name", "mut", "rhs", "semi", "pat")

    def __init__(self, kind, toks, name=None, mut=False, rhs=None, semi=True, pat=None):
        self.kind, self.toks, self.name, self.mut, self.rhs, self.semi, self.pat = kind, toks, name, mut, rhs, semi, pat


def split_block(toks):
    """tokens between the braces of a block -> (list of Stmt, tail tokens or None).
    Statements gated by a cfg that is false in the harness build are dropped, other attributes ignored."""
    stmts = []
    tail = None
    i, n = 0, len(toks)
    while i < n:
        keep = True
        while i < n and toks[i] == "#":
            j = i + 1
            if j < n and toks[j] == "!":
                j += 1
            if j >= n or toks[j] != "[":
                raise ParseError("stray #")
            e = match_close(toks, j)
            if e < 0:
                raise ParseError("unbalanced attribute")
            attr = toks[j + 1:e]
            if attr and attr[0] == "cfg" and len(attr) > 2:
                keep = keep and cfg_holds(text_of_cfg(attr[2:-1]))
            i = e + 1
        if i >= n:
            break
        t = toks[i]
        if t == ";":
            i += 1
            continue
        if t == "let":
            e = find_at_depth0(toks, i, (";",))
            if e < 0:
                raise ParseError("let without ;")
            body = toks[i + 1:e]
            eq = find_at_depth0(body, 0, ("=",))
            pat = body[:eq] if eq >= 0 else body
            rhs = body[eq + 1:] if eq >= 0 else None
            colon = find_at_depth0(pat, 0, (":",))
            pat_only = pat[:colon] if colon >= 0 else pat
            mut = bool(pat_only) and pat_only[0] == "mut"
            core = pat_only[1:] if mut else pat_only
            name = core[0] if len(core) == 1 and is_ident(core[0]) else None
            st = Stmt("let", toks[i:e + 1], name=name, mut=mut, rhs=rhs, pat=pat_only)
            i = e + 1
        elif t == "const" and i + 1 < n and toks[i + 1] != "{":
            e = find_at_depth0(toks, i, (";",))
            if e < 0:
                raise ParseError("const without ;")
            body = toks[i + 1:e]
            eq = find_at_depth0(body, 0, ("=",))
            colon = find_at_depth0(body, 0, (":",))
            name = body[0] if body and is_ident(body[0]) else None
            ty = body[colon + 1:eq] if 0 <= colon < eq else None
            st = Stmt("const", toks[i:e + 1], name=name, rhs=body[eq + 1:] if eq >= 0 else None, pat=ty)
            i = e + 1
        elif t in ITEM_KW or (t == "unsafe" and i + 1 < n and toks[i + 1] in ("fn", "impl", "extern", "trait")) or \
                (t == "const" and i + 1 < n and toks[i + 1] in ("fn", "unsafe")):
            e = find_at_depth0(toks, i, (";", "{"))
            if e < 0:
                raise ParseError("item without end")
            if toks[e] == "{":
                e = match_close(toks, e)
            st = Stmt("item", toks[i:e + 1])
            i = e + 1
        elif starts_blocklike(toks, i):
            e = end_of_blocklike(toks, i)
            if e < 0:
                raise ParseError("unbalanced block")
            if e + 1 < n and toks[e + 1] in (".", "?"):
                # `unsafe { .. }?;` / `match x { .. }.foo();`: the expression goes on after the block
                e2 = find_at_depth0(toks, e + 1, (";",))
                if e2 < 0:
                    if keep:
                        tail = toks[i:]
                    i = n
                    continue
                if keep:
                    stmts.append(Stmt("expr", toks[i:e2], semi=True))
                i = e2 + 1
                continue
            semi = e + 1 < n and toks[e + 1] == ";"
            if e + 1 >= n:
                if keep:
                    tail = toks[i:e + 1]
                i = e + 1
                continue
            st = Stmt("expr", toks[i:e + 1], semi=semi)
            i = e + 2 if semi else e + 1
        else:
            e = find_at_depth0(toks, i, (";",))
            if e < 0:
                if keep:
                    tail = toks[i:]
                i = n
                continue
            st = Stmt("expr", toks[i:e], semi=True)
            i = e + 1
        if keep:
            stmts.append(st)
    return stmts, tail


def text_of_cfg(toks):
    out = ""
    for t in toks:
        if t == "=":
            out += " = "
        elif t == ",":
            out += ", "
        else:
            out += t
    return out


# ------------------------------------------------------------------ expression parser (the Rust subset the wrappers use)
#
# AST (tuples):
#   ("int", value, suffix|None)   ("lit", text)          ("path", [segments])        ("unit",)
#   ("un", op, e)                 ("bin", op, a, b)      ("cast", e, type-text)      ("assign", op, a, b)
#   ("call", f, [args])           ("mcall", recv, name, [args])                      ("field", recv, name)
#   ("index", recv, idx)          ("try", e)             ("tuple", [es])             ("struct", [segments], [(field, e)], base|None)
#   ("macro", name, [arg tokens]) ("if", cond, then-tokens, else-expr|None)          ("iflet", tokens, then-tokens, else-expr|None)
#   ("block", inner tokens)       ("loop", inner tokens) ("opaquectl", kind, tokens) ("closure", tokens)
#   ("return", e|None)            ("break", e|None)      ("continue",)               ("range", a, b)
#   ("array", tokens)

BIN_BP = {"||": 3, "&&": 4, "==": 5, "!=": 5, "<": 5, ">": 5, "<=": 5, ">=": 5, "|": 6, "^": 7, "&": 8, "<<": 9, ">>": 9,
          "+": 10, "-": 10, "*": 11, "/": 11, "%": 11}
ASSIGN_OPS = {"=", "+=", "-=", "*=", "/=", "%=", "^=", "&=", "|=", "<<=", ">>="}
EXPR_END = {")", "]", "}", ",", ";", "=>"}


class Parser:
    def __init__(self, toks):
        self.t = toks
        self.i = 0

    def peek(self, k=0):
        j = self.i + k
        return self.t[j] if j < len(self.t) else None

    def next(self):
        if self.i >= len(self.t):
            raise ParseError("unexpected end")
        tok = self.t[self.i]
        self.i += 1
        return tok

    def eat(self, tok):
        if self.peek() == tok:
            self.i += 1
            return True
        return False

    def expect(self, tok):
        if not self.eat(tok):
            raise ParseError("expected %s, found %s" % (tok, self.peek()))

    def done(self):
        return self.i >= len(self.t)

    # ---- types (only their extent and text matter)
    def skip_angles(self):
        """self.peek() == '<': consume through the matching '>' (handles '>>', ignores '->')"""
        depth = 0
        while True:
            tok = self.next()
            if tok == "<":
                depth += 1
            elif tok == "<<":
                depth += 2
            elif tok == ">":
                depth -= 1
            elif tok == ">>":
                depth -= 2
            elif tok in OPEN:
                self.i -= 1
                e = match_close(self.t, self.i)
                if e < 0:
                    raise ParseError("unbalanced in generics")
                self.i = e + 1
            if depth <= 0:
                return

    def parse_type(self):
        s = self.i
        tok = self.peek()
        if tok == "*":
            self.next()
            if self.peek() in ("const", "mut"):
                self.next()
            self.parse_type()
        elif tok in ("&", "&&"):
            self.next()
            if self.peek() and self.peek().startswith("'"):
                self.next()
            self.eat("mut")
            self.parse_type()
        elif tok in ("(", "["):
            e = match_close(self.t, self.i)
            if e < 0:
                raise ParseError("unbalanced type")
            self.i = e + 1
        elif tok == "<":
            self.skip_angles()
            while self.eat("::"):
                self.next()
                if self.peek() == "<":
                    self.skip_angles()
        elif tok in ("fn", "unsafe", "extern", "impl", "dyn", "for"):
            raise ParseError("unsupported type syntax")
        elif tok is not None and (is_ident(tok) or tok == "!"):
            self.next()
            while True:
                if self.peek() == "::":
                    self.next()
                    if self.peek() == "<":
                        self.skip_angles()
                    else:
                        self.next()
                elif self.peek() == "<":
                    self.skip_angles()
                else:
                    break
        else:
            raise ParseError("type expected, found %s" % tok)
        return text_of(self.t[s:self.i])

    # ---- expressions
    def parse_expr(self, min_bp=0, no_struct=False):
        tok = self.peek()
        if tok == "return":
            self.next()
            if self.done() or self.peek() in EXPR_END:
                return ("return", None)
            return ("return", self.parse_expr(0, no_struct))
        if tok == "break":
            self.next()
            if self.peek() and self.peek().startswith("'") and len(self.peek()) > 1 and not self.peek().endswith("'"):
                self.next()
            if self.done() or self.peek() in EXPR_END:
                return ("break", None)
            return ("break", self.parse_expr(0, no_struct))
        if tok == "continue":
            self.next()
            if self.peek() and self.peek().startswith("'") and len(self.peek()) > 1 and not self.peek().endswith("'"):
                self.next()
            return ("continue",)
        if tok in ("|", "||", "move"):
            s = self.i
            self.eat("move")
            if self.eat("||"):
                pass
            else:
                self.expect("|")
                e = find_at_depth0(self.t, self.i, ("|",))
                if e < 0:
                    raise ParseError("closure parameters")
                self.i = e + 1
            if self.eat("->"):
                self.parse_type()
            self.parse_expr(0, no_struct)
            return ("closure", self.t[s:self.i])
        if tok in ("..", "..="):
            self.next()
            if self.done() or self.peek() in EXPR_END:
                return ("range", None, None)
            return ("range", None, self.parse_expr(3, no_struct))
        lhs = self.parse_unary(no_struct)
        while True:
            op = self.peek()
            if op is None or op in EXPR_END:
                break
            if op == "as":
                if 12 < min_bp:
                    break
                self.next()
                lhs = ("cast", lhs, self.parse_type())
                continue
            if op in BIN_BP:
                bp = BIN_BP[op]
                if bp < min_bp:
                    break
                self.next()
                rhs = self.parse_expr(bp + 1, no_struct)
                lhs = ("bin", op, lhs, rhs)
                continue
            if op in ("..", "..="):
                if 2 < min_bp:
                    break
                self.next()
                if self.done() or self.peek() in EXPR_END or (no_struct and self.peek() == "{"):
                    lhs = ("range", lhs, None)
                else:
                    lhs = ("range", lhs, self.parse_expr(3, no_struct))
                continue
            if op in ASSIGN_OPS:
                if 1 < min_bp:
                    break
                self.next()
                rhs = self.parse_expr(1, no_struct)
                lhs = ("assign", op, lhs, rhs)
                continue
            break
        return lhs

    def parse_unary(self, no_struct):
        tok = self.peek()
        if tok in ("-", "!", "*"):
            self.next()
            return ("un", tok, self.parse_cast_operand(no_struct))
        if tok in ("&", "&&"):
            self.next()
            if self.peek() == "raw" and self.peek(1) in ("const", "mut"):
                self.next()
                self.next()
            else:
                self.eat("mut")
            return ("un", "&", self.parse_cast_operand(no_struct))
        return self.parse_postfix(no_struct)

    def parse_cast_operand(self, no_struct):
        # unary operators bind tighter than `as`:  `-x as T` is `(-x) as T`
        return self.parse_unary(no_struct)

    def parse_args(self):
        """after '(' : comma separated expressions through ')'"""
        args = []
        while not self.eat(")"):
            args.append(self.parse_expr(0, False))
            if not self.eat(","):
                self.expect(")")
                break
        return args

    def parse_postfix(self, no_struct):
        e = self.parse_primary(no_struct)
        while True:
            tok = self.peek()
            if tok == ".":
                self.next()
                name = self.next()
                if name == "await":
                    e = ("field", e, name)
                    continue
                if self.peek() == "::" and self.peek(1) == "<":
                    self.next()
                    self.skip_angles()
                if self.peek() == "(" and not name[0].isdigit():
                    self.next()
                    e = ("mcall", e, name, self.parse_args())
                else:
                    e = ("field", e, name)
            elif tok == "(":
                self.next()
                e = ("call", e, self.parse_args())
            elif tok == "[":
                self.next()
                idx = self.parse_expr(0, False)
                self.expect("]")
                e = ("index", e, idx)
            elif tok == "?":
                self.next()
                e = ("try", e)
            else:
                return e

    def block_tokens(self):
        """self.peek() == '{': return the inner tokens, position after '}'"""
        if self.peek() != "{":
            raise ParseError("block expected, found %s" % self.peek())
        e = match_close(self.t, self.i)
        if e < 0:
            raise ParseError("unbalanced block")
        inner = self.t[self.i + 1:e]
        self.i = e + 1
        return inner

    def parse_if(self):
        # 'if' already consumed
        if self.peek() == "let":
            ob = find_at_depth0(self.t, self.i, ("{",))
            if ob < 0:
                raise ParseError("if let without body")
            cond = ("letcond", self.t[self.i:ob])
            self.i = ob
        else:
            cond = self.parse_expr(0, True)
        then = self.block_tokens()
        els = None
        if self.eat("else"):
            if self.eat("if"):
                els = self.parse_if()
            else:
                els = ("block", self.block_tokens())
        if cond[0] == "letcond":
            return ("iflet", cond[1], then, els)
        return ("if", cond, then, els)

    def parse_primary(self, no_struct):
        tok = self.next()
        if tok[0].isdigit():
            iv = parse_int(tok)
            return ("int", iv[0], iv[1]) if iv else ("lit", tok)
        if tok[0] in "\"'" or tok in ("true", "false") or re.match(r'[bc]"', tok):
            if tok.startswith("'") and not tok.endswith("'") and self.peek() == ":":
                # loop label
                self.next()
                return self.parse_primary(no_struct)
            return ("lit", tok)
        if tok == "(":
            if self.eat(")"):
                return ("unit",)
            first = self.parse_expr(0, False)
            if self.eat(")"):
                return first
            items = [first]
            while self.eat(","):
                if self.peek() == ")":
                    break
                items.append(self.parse_expr(0, False))
            self.expect(")")
            return ("tuple", items)
        if tok == "[":
            self.i -= 1
            e = match_close(self.t, self.i)
            if e < 0:
                raise ParseError("unbalanced [")
            inner = self.t[self.i:e + 1]
            self.i = e + 1
            return ("array", inner)
        if tok == "{":
            self.i -= 1
            return ("block", self.block_tokens())
        if tok == "unsafe":
            return ("block", self.block_tokens())
        if tok == "if":
            return self.parse_if()
        if tok == "loop":
            return ("loop", self.block_tokens())
        if tok in ("while", "for", "match"):
            s = self.i - 1
            ob = find_at_depth0(self.t, self.i, ("{",))
            if ob < 0:
                raise ParseError("no body for " + tok)
            e = match_close(self.t, ob)
            if e < 0:
                raise ParseError("unbalanced " + tok)
            self.i = e + 1
            if tok == "match":
                try:
                    scrut = parse_expr_tokens_ns(self.t[s + 1:ob])
                    arms = split_arms(self.t[ob + 1:e])
                    if arms and all(p in (["true"], ["false"], ["_"]) for p, _ in arms):
                        return ("boolmatch", scrut, [(p[0], parse_expr_tokens(x)) for p, x in arms], self.t[s:self.i])
                except ParseError:
                    pass
            return ("opaquectl", tok, self.t[s:self.i])
        if tok == "<":
            self.i -= 1
            s = self.i
            self.skip_angles()
            segs = [text_of(self.t[s:self.i])]
            while self.eat("::"):
                if self.peek() == "<":
                    self.skip_angles()
                else:
                    segs.append(self.next())
            return ("path", segs)
        if is_ident(tok) or tok == "::":
            if tok == "::":
                tok = self.next()
            segs = [tok]
            while self.peek() == "::":
                self.next()
                if self.peek() == "<":
                    self.skip_angles()
                else:
                    nxt = self.next()
                    if not is_ident(nxt):
                        raise ParseError("path segment expected, found " + nxt)
                    segs.append(nxt)
            if self.peek() == "!" and self.peek(1) in ("(", "[", "{"):
                self.next()
                ob = self.i
                e = match_close(self.t, ob)
                if e < 0:
                    raise ParseError("unbalanced macro")
                inner = self.t[ob + 1:e]
                self.i = e + 1
                args, start = [], 0
                while True:
                    c = find_at_depth0(inner, start, (",",))
                    if c < 0:
                        if inner[start:]:
                            args.append(inner[start:])
                        break
                    args.append(inner[start:c])
                    start = c + 1
                return ("macro", segs[-1], args)
            if self.peek() == "{" and not no_struct and (segs[-1][0].isupper() or segs[-1] == "Self"):
                inner = self.block_tokens()
                fields, base = [], None
                q = Parser(inner)
                while not q.done():
                    if q.eat(".."):
                        base = q.parse_expr(0, False)
                        break
                    name = q.next()
                    if q.eat(":"):
                        val = q.parse_expr(0, False)
                    else:
                        val = ("path", [name])
                    fields.append((name, val))
                    if not q.eat(","):
                        break
                if not q.done():
                    raise ParseError("struct literal")
                return ("struct", segs, fields, base)
            return ("path", segs)
        raise ParseError("unexpected token %s" % tok)


def split_arms(toks):
    """tokens between the braces of a `match` -> [(pattern tokens, expression tokens)]"""
    arms = []
    i, n = 0, len(toks)
    while i < n:
        a = find_at_depth0(toks, i, ("=>",))
        if a < 0:
            raise ParseError("match arm without =>")
        pat = toks[i:a]
        j = a + 1
        if j < n and toks[j] == "{":
            e = match_close(toks, j)
            if e < 0:
                raise ParseError("unbalanced arm")
            arms.append((pat, toks[j:e + 1]))
            i = e + 1
            if i < n and toks[i] == ",":
                i += 1
        else:
            c = find_at_depth0(toks, j, (",",))
            if c < 0:
                c = n
            arms.append((pat, toks[j:c]))
            i = c + 1
    return arms


def parse_expr_tokens_ns(toks):
    p = Parser(toks)
    e = p.parse_expr(0, True)
    if not p.done():
        raise ParseError("trailing tokens: " + text_of(toks[p.i:p.i + 6]))
    return e


def parse_expr_tokens(toks):
    p = Parser(toks)
    e = p.parse_expr(0, False)
    if not p.done():
        raise ParseError("trailing tokens: " + text_of(toks[p.i:p.i + 6]))
    return e


# ------------------------------------------------------------------ symbolic values
#
#   ("reg",)                    the return register of the syscall issued on this path (usize)
#   ("int", n, type|None)       a constant
#   ("cast", v, t)              `v as t`, t in i8..u64 (usize = u64, isize = i64)
#   ("neg", v)                  `-v` / `0 - v` (overflow-checked negation)
#   ("iserr", v)                `is_syscall_error(v)`
#   ("cmp", op, a, b)  ("and", a, b)  ("or", a, b)  ("not", v)  ("bool", b)
#   ("ok", v) ("err", v) ("withcode", v) ("unit",) ("tuple", [..]) ("struct", name, [(f, v)]) ("ctor", name, [..])
#   ("coerce", v)               `NonNegativeI32::coerce_from_register(v, _)` (a Result)
#   ("coerce_ok", v) ("coerce_err", v)   its two outcomes after `?`
#   ("bailerr", v)              the Err built by `bail_on_below_zero!(v, _)`
#   ("errno", n)                `Errno::NAME`
#   ("opq", text, tainted)      anything else; tainted = built from the register
#
# decision trees:
#   ("ret", v)  ("cont",)  ("fall",)  ("noret",)  ("br", cond, T, T)  ("sys", T)  ("loop", T)  ("unk", reason[, suspect])
#   suspect = the construct is followed and is not the property's shape (bounded / conditional repetition of the call)

UNIT = ("unit",)
REG = ("reg",)


def tainted(v):
    k = v[0]
    if k in ("reg", "coerce", "coerce_ok", "coerce_err", "bailerr"):
        return True
    if k == "opq":
        return v[2]
    if k in ("int", "bool", "unit", "errno"):
        return False
    if k in ("tuple", "ctor"):
        return any(tainted(x) for x in v[-1])
    if k == "struct":
        return any(tainted(x) for _, x in v[2])
    return any(tainted(x) for x in v[1:] if isinstance(x, tuple))


def show(v):
    k = v[0]
    if k == "reg":
        return "res"
    if k == "int":
        return str(v[1])
    if k == "opq":
        return v[1]
    if k == "cast":
        return "%s as %s" % (show(v[1]), v[2])
    if k == "neg":
        return "-(%s)" % show(v[1])
    if k in ("tuple", "ctor"):
        return "%s(%s)" % (v[1] if k == "ctor" else "", ", ".join(show(x) for x in v[-1]))
    if k == "struct":
        return "%s { %s }" % (v[1], ", ".join("%s: %s" % (f, show(x)) for f, x in v[2]))
    if k == "cmp":
        return "%s %s %s" % (show(v[2]), v[1], show(v[3]))
    if k in ("and", "or"):
        return "(%s) %s (%s)" % (show(v[1]), "&&" if k == "and" else "||", show(v[2]))
    return "%s(%s)" % (k, ", ".join(show(x) if isinstance(x, tuple) else str(x) for x in v[1:]))


def wrap_int(n, ty):
    bits, signed = INT_TYPES[ty]
    n %= 1 << bits
    if signed and n >= 1 << (bits - 1):
        n -= 1 << bits
    return n


class Lazy:
    """an untainted `let` binding, evaluated only if a decision needs its value"""
    __slots__ = ("toks", "env", "val", "busy")

    def __init__(self, toks, env):
        self.toks, self.env, self.val, self.busy = toks, env, None, False


class St:
    """interpreter state: variable environment, whether a syscall has been issued on this path, the enclosing retry loop,
    and — inside an inlined helper — where `return` goes (ret_k) and which helpers are being inlined (stack)"""
    __slots__ = ("env", "has_reg", "loop_break", "in_loop", "ret_k", "stack")

    def __init__(self, env, has_reg=False, loop_break=None, in_loop=False, ret_k=None, stack=()):
        self.env, self.has_reg, self.loop_break, self.in_loop, self.ret_k, self.stack = env, has_reg, loop_break, in_loop, ret_k, stack

    def bind(self, name, val):
        env = dict(self.env)
        env[name] = val
        return St(env, self.has_reg, self.loop_break, self.in_loop, self.ret_k, self.stack)

    def with_env(self, env):
        return St(env, self.has_reg, self.loop_break, self.in_loop, self.ret_k, self.stack)

    def with_reg(self):
        return St(self.env, True, self.loop_break, self.in_loop, self.ret_k, self.stack)

    def enter_loop(self, k_break):
        return St(self.env, self.has_reg, k_break, True, self.ret_k, self.stack)


CTRL_TOKENS = {"return", "break", "continue", "?", "loop", "while", "for", "bail_on_below_zero", "syscall", "yield", "await"}
PURE_MACROS = {"debug_assert", "debug_assert_eq", "debug_assert_ne", "assert", "assert_eq", "assert_ne", "matches", "format", "format_args",
               "println", "eprintln", "print", "eprint", "dbg", "addr_of", "addr_of_mut", "cfg", "concat", "stringify", "line", "file"}
DIVERGING = {"unreachable_unchecked", "unreachable", "panic", "todo", "unimplemented", "abort", "exit"}


def tree_has(t, kind):
    if t[0] == kind:
        return True
    if t[0] == "br":
        return tree_has(t[2], kind) or tree_has(t[3], kind)
    if t[0] in ("sys", "loop"):
        return tree_has(t[1], kind)
    return False


class Interp:
    """symbolic interpreter for one source file"""

    def __init__(self, env_x, consts, callees=None):
        self.x = env_x            # Env: type aliases + errno values
        self.consts = consts      # name -> (type tokens, rhs tokens) of the file (and of platform/compat.rs)
        self.callees = dict(callees or {})   # fns of the same file that (transitively) issue a system call: inlined at the call
        self.inlined = []
        self.post_checks = False
        self.const_busy = set()

    # ---- token level questions
    def has_site(self, toks):
        for i, t in enumerate(toks):
            if t == "syscall" and i + 1 < len(toks) and toks[i + 1] == "!":
                return True
            if t in self.callees and i + 1 < len(toks) and toks[i + 1] == "(" and (i == 0 or toks[i - 1] not in (".", "fn", "::")):
                return True
        return False

    def toks_tainted(self, toks, st):
        for i, t in enumerate(toks):
            if i > 0 and toks[i - 1] == ".":
                continue  # field / method name
            b = st.env.get(t)
            if b is not None and not isinstance(b, Lazy) and tainted(b):
                return True
        return False

    def toks_ctrl(self, toks):
        return any(t in CTRL_TOKENS or t in self.x.bail_macros for t in toks)

    # ---- blocks and statements
    def exec_block(self, inner, st, k):
        """run the statements of a block; k(value, state) with the block's value and the OUTER scope restored"""
        try:
            stmts, tail = split_block(inner)
        except ParseError as e:
            if not st.has_reg and not self.has_site(inner):
                return k(("opq", "{..}", False), st)
            return ("unk", "cannot split block: %s" % e)
        outer = st.env

        def run(i, s):
            if i == len(stmts):
                if tail is not None:
                    return self.ev_toks(tail, s, lambda v, s2: k(v, s2.with_env(outer)))
                return k(UNIT, s.with_env(outer))
            return self.exec_stmt(stmts[i], s, lambda s2: run(i + 1, s2))
        return run(0, st)

    def exec_stmt(self, stmt, st, knext):
        toks = stmt.toks
        if stmt.kind == "item":
            return knext(st)
        if stmt.kind == "const":
            if stmt.name and stmt.rhs is not None:
                return knext(st.bind(stmt.name, Lazy(stmt.rhs, st.env)))
            return knext(st)
        site = self.has_site(toks)
        relevant = site or (st.has_reg and (self.toks_tainted(toks, st) or self.toks_ctrl(toks)))
        if stmt.kind == "let":
            names = [t for t in (stmt.pat or []) if is_ident(t) and t not in ("mut", "ref", "Some", "Ok", "Err", "None")]
            if not relevant:
                if stmt.name and stmt.rhs is not None and not stmt.mut:
                    return knext(st.bind(stmt.name, Lazy(stmt.rhs, st.env)))
                s2 = st
                for nm in names:
                    s2 = s2.bind(nm, ("opq", nm, False))
                return knext(s2)
            if stmt.rhs is None:
                return knext(st)
            if "else" in stmt.rhs and find_at_depth0(stmt.rhs, 0, ("else",)) >= 0:
                ei = find_at_depth0(stmt.rhs, 0, ("else",))
                if not site and not self.toks_tainted(toks, st) and "Ok" not in stmt.rhs[ei:] and "continue" not in stmt.rhs[ei:] \
                        and "break" not in stmt.rhs[ei:]:
                    # a check of kernel-written memory that can only fail with an error (like `?` on such a value)
                    self.post_checks = True
                    s2 = st
                    for nm in names:
                        s2 = s2.bind(nm, ("opq", nm, False))
                    return knext(s2)
                return ("unk", "let-else after the syscall: " + text_of(toks)[:100])

            def bound(v, s2):
                if stmt.name:
                    if stmt.mut and tainted(v):
                        # a mutable register-derived variable: later assignments are not tracked
                        return knext(s2.bind(stmt.name, ("opq", "mut " + stmt.name, True)))
                    return knext(s2.bind(stmt.name, v))
                if len(names) == 0:
                    return knext(s2)
                t = tainted(v)
                for nm in names:
                    s2 = s2.bind(nm, ("opq", nm, t))
                return knext(s2)
            return self.ev_toks(stmt.rhs, st, bound)
        # expression statement
        if not relevant and not st.has_reg and "return" in toks and "Ok" in toks:
            # an early `return Ok(..)` before the system call skips the call: follow it if it can be followed
            probe = self.ev_toks(toks, st, lambda v, s2: ("fall",))
            if not tree_has(probe, "unk") and tree_has(probe, "ret"):
                return self.ev_toks(toks, st, lambda v, s2: knext(s2))
        if not relevant:
            return knext(st)
        return self.ev_toks(toks, st, lambda v, s2: knext(s2))

    # ---- expressions
    def ev_toks(self, toks, st, k):
        try:
            ast = parse_expr_tokens(toks)
        except ParseError as e:
            site = self.has_site(toks)
            if site or (st.has_reg and (self.toks_tainted(toks, st) or self.toks_ctrl(toks))):
                return ("unk", "cannot parse `%s`: %s" % (text_of(toks)[:100], e))
            return k(("opq", text_of(toks)[:80], False), st)
        return self.ev(ast, st, k)

    def ev_list(self, asts, st, k):
        def go(i, acc, s):
            if i == len(asts):
                return k(acc, s)
            return self.ev(asts[i], s, lambda v, s2: go(i + 1, acc + [v], s2))
        return go(0, [], st)

    def force(self, b):
        if not isinstance(b, Lazy):
            return b
        if b.val is not None:
            return b.val
        if b.busy:
            return ("opq", "<cyclic>", False)
        b.busy = True
        try:
            r = self.ev_toks(b.toks, St(b.env), lambda v, s: ("val", v))
        finally:
            b.busy = False
        b.val = r[1] if r[0] == "val" else ("opq", text_of(b.toks)[:80], False)
        return b.val

    def const_value(self, name):
        if name in self.const_busy:
            return None
        ent = self.consts.get(name)
        if ent is None:
            return None
        ty, rhs = ent
        self.const_busy.add(name)
        try:
            r = self.ev_toks(rhs, St({}), lambda v, s: ("val", v))
        finally:
            self.const_busy.discard(name)
        if r[0] != "val":
            return None
        v = r[1]
        tyname = text_of(ty) if ty else None
        if v[0] == "int" and tyname in INT_TYPES:
            return ("int", v[1], tyname)
        return v

    def ev_path(self, segs, st):
        if len(segs) == 1:
            name = segs[0]
            if name in st.env:
                return self.force(st.env[name])
            if name in ("true", "false"):
                return ("bool", name == "true")
            c = self.const_value(name)
            if c is not None:
                return c
            return ("opq", name, False)
        if len(segs) == 2 and segs[0] in INT_TYPES and segs[1] in ("MAX", "MIN", "BITS"):
            bits, signed = INT_TYPES[segs[0]]
            if segs[1] == "BITS":
                return ("int", bits, "u32")
            if segs[1] == "MAX":
                return ("int", (1 << (bits - 1)) - 1 if signed else (1 << bits) - 1, segs[0])
            return ("int", -(1 << (bits - 1)) if signed else 0, segs[0])
        if len(segs) >= 2 and segs[-2] == "Errno" and segs[-1] in self.x.errno:
            return ("errno", self.x.errno[segs[-1]])
        if segs[-1] in self.consts and segs[0] in ("crate", "self", "super", "Self"):
            c = self.const_value(segs[-1])
            if c is not None:
                return c
        return ("opq", "::".join(segs), False)

    def int_pattern(self, toks, st):
        """`a | b..=c | ..=d | e..` with constant bounds -> [(lo|None, hi|None)] inclusive, or None"""
        out = []
        start = 0
        alts = []
        while True:
            b = find_at_depth0(toks, start, ("|",))
            alts.append(toks[start:b] if b >= 0 else toks[start:])
            if b < 0:
                break
            start = b + 1

        def const(ts):
            if not ts:
                return None
            try:
                r = self.ev_toks(ts, St(st.env), lambda v, s: ("val", v))
            except RecursionError:
                return "bad"
            if r[0] == "val" and r[1][0] == "int":
                return r[1][1]
            return "bad"
        for a in alts:
            if not a:
                return None
            r = [i for i, t in enumerate(a) if t in ("..=", "..")]
            if not r:
                v = const(a)
                if v in (None, "bad"):
                    return None
                out.append((v, v))
                continue
            i = r[0]
            lo, hi = const(a[:i]), const(a[i + 1:])
            if lo == "bad" or hi == "bad":
                return None
            if a[i] == ".." and hi is not None:
                hi -= 1
            out.append((lo, hi))
        return out

    def int_ty(self, tyname):
        t = tyname.strip()
        seen = 0
        while t in self.x.aliases and self.x.aliases[t] != t and seen < 8 and t not in INT_TYPES:
            t = self.x.aliases[t]
            seen += 1
        return t if t in INT_TYPES else None

    def cast(self, v, tyname):
        t = self.int_ty(tyname)
        if t is None:
            return ("opq", "%s as %s" % (show(v), tyname), tainted(v))
        if v[0] == "int":
            return ("int", wrap_int(v[1], t), t)
        if v[0] == "errno":
            return ("int", wrap_int(v[1], t), t)
        if v[0] == "bool":
            return ("int", 1 if v[1] else 0, t)
        ct = {"usize": "u64", "isize": "i64"}.get(t, t)
        bits, signed = INT_TYPES[ct]
        if v[0] == "reg":
            return REG if ct == "u64" else ("cast", REG, ct)
        if v[0] == "cast" and v[1] == REG:
            ib, isg = INT_TYPES[v[2]]
            if ib >= bits:
                return REG if ct == "u64" else ("cast", REG, ct)     # the low `bits` bits decide
            if isg == signed or not isg:
                return v                                              # value preserved by the widening
            return ("cast", v, ct)
        if v[0] == "coerce_ok":
            return ("cast", v, ct)
        return ("opq", "%s as %s" % (show(v), tyname), tainted(v)) if v[0] == "opq" else ("cast", v, ct)

    def neg(self, v):
        if v[0] == "int":
            return ("int", -v[1], v[2])
        if v[0] == "neg":
            return ("opq", "-" + show(v), tainted(v))
        return ("neg", v)

    def binop(self, op, a, b):
        if a[0] == "errno":
            a = ("int", a[1], "i32")
        if b[0] == "errno":
            b = ("int", b[1], "i32")
        if op in ("==", "!=", "<", ">", "<=", ">="):
            if a[0] == "int" and b[0] == "int":
                return ("bool", {"==": a[1] == b[1], "!=": a[1] != b[1], "<": a[1] < b[1], ">": a[1] > b[1],
                                 "<=": a[1] <= b[1], ">=": a[1] >= b[1]}[op])
            return ("cmp", op, a, b)
        if op in ("&&", "||"):
            if a[0] == "bool":
                return b if a[1] == (op == "&&") else a
            if b[0] == "bool":
                return a if b[1] == (op == "&&") else b
            return ("and" if op == "&&" else "or", a, b)
        if a[0] == "int" and b[0] == "int":
            ty = a[2] or b[2]
            try:
                n = {"+": lambda: a[1] + b[1], "-": lambda: a[1] - b[1], "*": lambda: a[1] * b[1],
                     "/": lambda: int(a[1] / b[1]) if b[1] else None, "%": lambda: a[1] - b[1] * int(a[1] / b[1]) if b[1] else None,
                     "&": lambda: a[1] & b[1], "|": lambda: a[1] | b[1], "^": lambda: a[1] ^ b[1],
                     "<<": lambda: a[1] << b[1] if 0 <= b[1] < 128 else None, ">>": lambda: a[1] >> b[1] if 0 <= b[1] < 128 else None}[op]()
            except KeyError:
                n = None
            if n is not None:
                if ty in INT_TYPES and wrap_int(n, ty) != n:
                    return ("opq", "overflowing constant %s %s %s" % (a[1], op, b[1]), False)
                return ("int", n, ty)
        if op == "-" and a[0] == "int" and a[1] == 0:
            return self.neg(b)
        return ("opq", "%s %s %s" % (show(a), op, show(b)), tainted(a) or tainted(b))

    def method(self, recv, name, args):
        if recv[0] == "errno" and name == "raw" and not args:
            return ("int", recv[1], "i32")
        if recv[0] == "int" and recv[2] in INT_TYPES and all(a[0] == "int" for a in args):
            ty = recv[2]
            if name == "wrapping_sub" and len(args) == 1:
                return ("int", wrap_int(recv[1] - args[0][1], ty), ty)
            if name == "wrapping_add" and len(args) == 1:
                return ("int", wrap_int(recv[1] + args[0][1], ty), ty)
            if name == "wrapping_neg" and not args:
                return ("int", wrap_int(-recv[1], ty), ty)
            if name in ("cast_signed", "cast_unsigned") and not args:
                bits, signed = INT_TYPES[ty]
                other = [t for t, (b, s) in INT_TYPES.items() if b == bits and s != signed and ("size" in t) == ("size" in ty)][0]
                return ("int", wrap_int(recv[1], other), other)
            if name == "unsigned_abs" and not args:
                return ("int", abs(recv[1]), None)
        if name in ("cast_signed", "cast_unsigned") and not args and recv[0] in ("reg", "cast"):
            cur = "u64" if recv[0] == "reg" else recv[2]
            bits, signed = INT_TYPES[cur]
            other = [t for t, (b, s) in INT_TYPES.items() if b == bits and s != signed and "size" not in t][0]
            return self.cast(recv, other)
        if name in ("into", "clone", "to_owned") and not args and recv[0] in ("coerce_ok",):
            return recv
        return ("opq", "%s.%s(%s)" % (show(recv), name, ", ".join(show(a) for a in args)), tainted(recv) or any(tainted(a) for a in args))

    def call(self, segs, args):
        last = segs[-1]
        if last == "Ok" and len(args) == 1:
            return ("ok", args[0])
        if last == "Err" and len(args) == 1:
            return ("err", args[0])
        if last == "with_code" and len(args) == 2:
            return ("withcode", args[1])
        if last == "is_syscall_error" and len(args) == 1:
            return ("iserr", args[0])
        if last in self.x.coerce_fns and len(args) == 2:
            return ("coerce", args[0])
        if last[0].isupper() or last == "Self":
            return ("ctor", last, args)
        return ("opq", "%s(%s)" % ("::".join(segs), ", ".join(show(a) for a in args)), any(tainted(a) for a in args))

    @staticmethod
    def do_ret(v, st):
        """`return v` (also the early returns hidden in `?` and the bail macro): out of the function, or back to the caller
        of an inlined helper"""
        return st.ret_k(v, st) if st.ret_k is not None else ("ret", v)

    def inline(self, name, args, st, k):
        """a call of a fn of the same file that issues the system call: run its body here, parameters bound to the arguments"""
        fn = self.callees[name]
        if name in st.stack or len(st.stack) >= 4:
            return ("unk", "recursive / too deeply nested helper `%s`" % name)
        if len(fn["params"]) != len(args):
            return ("unk", "helper `%s` called with another number of arguments" % name)
        env = {}
        for p, a in zip(fn["params"], args):
            m = re.match(r"(mut\s+)?([A-Za-z_]\w*)\s*:", p)
            if not m:
                return ("unk", "helper `%s` has a pattern parameter" % name)
            env[m.group(2)] = ("opq", "mut " + m.group(2), tainted(a)) if m.group(1) and tainted(a) else a
        if name not in self.inlined:
            self.inlined.append(name)
        caller = st

        def back(v, s):
            return k(v, St(caller.env, s.has_reg, caller.loop_break, caller.in_loop, caller.ret_k, caller.stack))
        try:
            body = tokenize(fn["body"])
        except ParseError as e:
            return ("unk", "cannot tokenise helper `%s`: %s" % (name, e))
        inner = St(env, st.has_reg, None, False, back, st.stack + (name,))
        return self.exec_block(body, inner, lambda v, s: back(v, s))

    def ev(self, e, st, k):
        kind = e[0]
        if kind == "int":
            return k(("int", e[1], e[2]), st)
        if kind == "lit":
            if e[1] in ("true", "false"):
                return k(("bool", e[1] == "true"), st)
            return k(("opq", e[1] if e[1] != '""' else "_", False), st)
        if kind == "unit":
            return k(UNIT, st)
        if kind == "path":
            return k(self.ev_path(e[1], st), st)
        if kind == "un":
            op = e[1]

            def un(v, s):
                if op == "-":
                    return k(self.neg(v), s)
                if op == "!":
                    if v[0] == "bool":
                        return k(("bool", not v[1]), s)
                    if v[0] == "int" and v[2] in INT_TYPES:
                        return k(("int", wrap_int(~v[1], v[2]), v[2]), s)
                    if v[0] in ("iserr", "cmp", "and", "or", "not"):
                        return k(("not", v), s)
                    return k(("opq", "!" + show(v), tainted(v)), s)
                return k(("opq", op + show(v), tainted(v)), s)
            return self.ev(e[2], st, un)
        if kind == "bin":
            return self.ev(e[2], st, lambda a, s: self.ev(e[3], s, lambda b, s2: k(self.binop(e[1], a, b), s2)))
        if kind == "cast":
            return self.ev(e[1], st, lambda v, s: k(self.cast(v, e[2]), s))
        if kind == "assign":
            def asg(v, s):
                tgt = e[2]
                if tgt[0] == "path" and len(tgt[1]) == 1 and tgt[1][0] in s.env:
                    cur = s.env[tgt[1][0]]
                    t = tainted(v) or (not isinstance(cur, Lazy) and tainted(cur))
                    return k(UNIT, s.bind(tgt[1][0], ("opq", "assigned " + tgt[1][0], t)))
                if tainted(v):
                    return ("unk", "register stored through an assignment")
                return k(UNIT, s)
            return self.ev(e[3], st, asg)
        if kind == "call":
            f = e[1]
            if f[0] == "path":
                segs = f[1]
                if segs[-1] in DIVERGING and segs[-1] != "exit":
                    return ("noret",)

                def called(args, s):
                    if len(segs) == 1 and segs[0] in self.callees:
                        return self.inline(segs[0], args, s, k)
                    return k(self.call(segs, args), s)
                return self.ev_list(e[2], st, called)
            return self.ev(f, st, lambda fv, s: self.ev_list(e[2], s, lambda args, s2: k(
                ("opq", "%s(..)" % show(fv), tainted(fv) or any(tainted(a) for a in args)), s2)))
        if kind == "mcall":
            return self.ev(e[1], st, lambda r, s: self.ev_list(e[3], s, lambda args, s2: k(self.method(r, e[2], args), s2)))
        if kind == "field":
            def fld(r, s):
                if r[0] == "tuple" and e[2].isdigit() and int(e[2]) < len(r[1]):
                    return k(r[1][int(e[2])], s)
                if r[0] == "struct":
                    for f, v in r[2]:
                        if f == e[2]:
                            return k(v, s)
                return k(("opq", "%s.%s" % (show(r), e[2]), tainted(r)), s)
            return self.ev(e[1], st, fld)
        if kind == "index":
            return self.ev(e[1], st, lambda r, s: self.ev(e[2], s, lambda i, s2: k(
                ("opq", "%s[%s]" % (show(r), show(i)), tainted(r) or tainted(i)), s2)))
        if kind == "tuple":
            return self.ev_list(e[1], st, lambda vs, s: k(("tuple", vs), s))
        if kind == "struct":
            names = [f for f, _ in e[2]]

            def built(vs, s):
                if e[3] is not None:
                    return self.ev(e[3], s, lambda b, s2: k(("struct", e[1][-1], list(zip(names, vs)) + [("..", b)]), s2))
                return k(("struct", e[1][-1], list(zip(names, vs))), s)
            return self.ev_list([v for _, v in e[2]], st, built)
        if kind == "array":
            t = self.toks_tainted(e[1], st)
            return k(("opq", text_of(e[1])[:60], t), st)
        if kind == "closure":
            return k(("opq", "<closure>", self.toks_tainted(e[1], st)), st)
        if kind == "range":
            return k(("opq", "<range>", False), st)
        if kind == "try":
            def tried(v, s):
                if v[0] == "coerce":
                    return ("br", ("iserr", v[1]), self.do_ret(("coerce_err", v[1]), s), k(("coerce_ok", v[1]), s))
                if v[0] == "ok":
                    return k(v[1], s)
                if v[0] in ("err", "bailerr", "coerce_err"):
                    return self.do_ret(v, s)
                if tainted(v):
                    return ("unk", "`?` on a register-derived value: " + show(v)[:80])
                if s.has_reg:
                    self.post_checks = True
                return k(("opq", show(v) + "?", False), s)
            return self.ev(e[1], st, tried)
        if kind == "macro":
            name, args = e[1], e[2]
            if name == "syscall":
                if st.has_reg:
                    return ("unk", "second system call on one path")
                return ("sys", k(REG, st.with_reg()))
            if name in self.x.bail_macros and len(args) == 2:
                return self.ev_toks(args[0], st, lambda v, s: ("br", ("iserr", v), self.do_ret(("bailerr", v), s), k(UNIT, s)))
            if name in DIVERGING:
                return ("noret",)
            if name == "matches" and len(args) == 2 and "if" not in args[1]:
                pat = self.int_pattern(args[1], st)
                if pat is not None:
                    def matched(v, s):
                        c = None
                        for lo, hi in pat:
                            if lo is not None and lo == hi:
                                one = self.binop("==", v, ("int", lo, None))
                            else:
                                parts = ([self.binop(">=", v, ("int", lo, None))] if lo is not None else []) + \
                                        ([self.binop("<=", v, ("int", hi, None))] if hi is not None else [])
                                one = parts[0] if len(parts) == 1 else self.binop("&&", parts[0], parts[1]) if parts else ("bool", True)
                            c = one if c is None else self.binop("||", c, one)
                        return k(c, s)
                    return self.ev_toks(args[0], st, matched)
            flat = [t for a in args for t in a]
            if self.has_site(flat):
                return ("unk", "system call inside `%s!`" % name)
            t = self.toks_tainted(flat, st)
            if t and name not in PURE_MACROS:
                return ("unk", "macro `%s!` applied to the register (it may return)" % name)
            return k(("opq", name + "!(..)", t), st)
        if kind == "block":
            return self.exec_block(e[1], st, k)
        if kind == "if":
            def branch(c, s):
                if c[0] == "bool":
                    if c[1]:
                        return self.exec_block(e[2], s, k)
                    return self.ev(e[3], s, k) if e[3] is not None else k(UNIT, s)
                t1 = self.exec_block(e[2], s, k)
                t2 = self.ev(e[3], s, k) if e[3] is not None else k(UNIT, s)
                return ("br", c, t1, t2)
            return self.ev(e[1], st, branch)
        if kind == "iflet":
            c = ("opq", "let " + text_of(e[1])[:60], self.toks_tainted(e[1], st))
            if self.has_site(e[1]):
                return ("unk", "system call in an `if let` scrutinee")
            if c[2]:
                return ("unk", "pattern match on a register-derived value")
            t1 = self.exec_block(e[2], st, k)
            t2 = self.ev(e[3], st, k) if e[3] is not None else k(UNIT, st)
            return ("br", c, t1, t2)
        if kind == "loop":
            if not self.has_site(e[1]):
                if st.has_reg:
                    return ("unk", "loop after the system call")
                return k(("opq", "loop {..}", False), st)
            if st.has_reg or st.in_loop:
                return ("unk", "system call in a nested / second loop", True)
            body = self.exec_block(e[1], st.enter_loop(k), lambda v, s: ("cont",))
            return ("loop", body)
        if kind == "boolmatch":
            def pick(want):
                for pat, x in e[2]:
                    if pat == "_" or (pat == "true") == want:
                        return x
                return None
            xt, xf = pick(True), pick(False)
            if xt is None or xf is None:
                return ("unk", "non-exhaustive match on a bool")

            def mbranch(c, s):
                if c[0] == "bool":
                    return self.ev(xt if c[1] else xf, s, k)
                return ("br", c, self.ev(xt, s, k), self.ev(xf, s, k))
            return self.ev(e[1], st, mbranch)
        if kind == "opaquectl":
            if self.has_site(e[2]):
                return ("unk", "system call inside `%s`" % e[1], e[1] in ("for", "while"))
            t = self.toks_tainted(e[2], st)
            if st.has_reg and (t or any(x in ("return", "?", "break", "continue") for x in e[2])):
                return ("unk", "`%s` after the system call" % e[1])
            return k(("opq", e[1] + " {..}", t), st)
        if kind == "return":
            if e[1] is None:
                return self.do_ret(UNIT, st)
            return self.ev(e[1], st, lambda v, s: self.do_ret(v, s))
        if kind == "break":
            if st.loop_break is None:
                return ("unk", "break outside the retry loop")
            kb = st.loop_break
            return kb(UNIT, St(st.env, st.has_reg, None, False, st.ret_k, st.stack))
        if kind == "continue":
            return ("cont",) if st.in_loop else ("unk", "continue outside the retry loop")
        return ("unk", "unsupported expression " + kind)


# ------------------------------------------------------------------ truth sets of conditions over the register

FULL = [(0, M64 - 1)]


def iv_norm(ivs):
    out = []
    for lo, hi in sorted(ivs):
        if lo > hi:
            continue
        if out and lo <= out[-1][1] + 1:
            out[-1] = (out[-1][0], max(out[-1][1], hi))
        else:
            out.append((lo, hi))
    return out


def iv_not(a):
    out, cur = [], 0
    for lo, hi in a:
        if lo > cur:
            out.append((cur, lo - 1))
        cur = hi + 1
    if cur <= M64 - 1:
        out.append((cur, M64 - 1))
    return out


def iv_and(a, b):
    return iv_norm([(max(l1, l2), min(h1, h2)) for l1, h1 in a for l2, h2 in b if max(l1, l2) <= min(h1, h2)])


def iv_or(a, b):
    return iv_norm(a + b)


def truth(c, err_set):
    """exact set of 64-bit register values for which condition `c` holds, as sorted disjoint intervals; None = not computable"""
    k = c[0]
    if k == "bool":
        return list(FULL) if c[1] else []
    if k == "iserr":
        return err_set if c[1] == REG else None
    if k == "not":
        t = truth(c[1], err_set)
        return None if t is None else iv_not(t)
    if k in ("and", "or"):
        a, b = truth(c[1], err_set), truth(c[2], err_set)
        if a is None or b is None:
            return None
        return iv_and(a, b) if k == "and" else iv_or(a, b)
    if k == "cmp":
        op, a, b = c[1], c[2], c[3]
        if a[0] == "int" and b[0] != "int":
            a, b = b, a
            op = {"<": ">", ">": "<", "<=": ">=", ">=": "<=", "==": "==", "!=": "!="}[op]
        if b[0] != "int":
            return None
        n = b[1]
        if a == REG:
            lo_dom, hi_dom, signed = 0, M64 - 1, False
        elif a == ("cast", REG, "i64"):
            lo_dom, hi_dom, signed = -(1 << 63), (1 << 63) - 1, True
        else:
            return None
        if op == "==":
            rng = [(n, n)]
        elif op == "!=":
            rng = [(lo_dom, n - 1), (n + 1, hi_dom)]
        elif op == "<":
            rng = [(lo_dom, n - 1)]
        elif op == "<=":
            rng = [(lo_dom, n)]
        elif op == ">":
            rng = [(n + 1, hi_dom)]
        else:
            rng = [(n, hi_dom)]
        rng = [(max(l, lo_dom), min(h, hi_dom)) for l, h in rng if max(l, lo_dom) <= min(h, hi_dom)]
        if signed:
            out = []
            for l, h in rng:
                if h < 0:
                    out.append((l + M64, h + M64))
                elif l >= 0:
                    out.append((l, h))
                else:
                    out.append((l + M64, M64 - 1))
                    out.append((0, h))
            rng = out
        return iv_norm(rng)
    return None


# ------------------------------------------------------------------ decision tree -> skeleton

class Opaque(Exception):
    """the translator cannot follow the body: decided at run time"""


class Suspect(Opaque):
    """the translator follows the body and it is NOT one of the property's shapes in a dimension the run-time check only
    samples (decode depending on an argument, bounded / conditional repetition, a test of the register that is neither
    the error window nor equality with a constant): stays a broken obligation"""


def unk_exc(t):
    return (Suspect if len(t) > 2 and t[2] else Opaque)(t[1])


def code_of(v):
    if v == ("neg", ("cast", REG, "i32")):
        return ".negI32"
    if v == ("cast", REG, "i32"):
        return ".rawI32"
    return ".custom " + lean_str(show(v)[:100])


class Norm:
    def __init__(self, cfg):
        self.cfg = cfg
        f = cfg.get("resv")
        self.err_set = [(M64 - f, M64 - 1)] if f else None

    def classify(self, c):
        """-> ("E", polarity) | ("Q", type, value, polarity) | ("U",)"""
        if c[0] == "not":
            r = self.classify(c[1])
            if r[0] == "E":
                return ("E", not r[1])
            if r[0] == "Q":
                return ("Q", r[1], r[2], not r[3])
            return r
        if c[0] == "iserr" and c[1] == REG:
            return ("E", True)
        if not tainted(c):
            return ("U",)
        if c[0] == "cmp" and c[1] in ("==", "!="):
            a, b = c[2], c[3]
            if a[0] == "int":
                a, b = b, a
            if b[0] == "int":
                if a == REG:
                    return ("Q", "u64", b[1], c[1] == "==")
                if a[0] == "cast" and a[1] == REG and a[2] in ("i32", "u32", "i64", "u64"):
                    return ("Q", a[2], b[1], c[1] == "==")
        t = truth(c, self.err_set)
        if t is not None and self.err_set is not None:
            if t == self.err_set:
                return ("E", True)
            if t == iv_not(self.err_set):
                return ("E", False)
            if len(t) == 1 and t[0][0] == t[0][1]:
                return ("Q", "u64", t[0][0], True)
            nt = iv_not(t)
            if len(nt) == 1 and nt[0][0] == nt[0][1]:
                return ("Q", "u64", nt[0][0], False)
        raise (Opaque if c[0] == "opq" else Suspect)("condition on the register is neither the error window nor `== constant`: " + show(c)[:100])

    def leaf(self, v):
        k = v[0]
        if k == "ok":
            return ("OK", v[1])
        if k == "err":
            if v[1][0] == "withcode":
                return ("ER", code_of(v[1][1]))
            raise Opaque("error value not built by Error::with_code: " + show(v)[:80])
        if k == "bailerr":
            if v[1] == REG:
                return ("BE",)
            raise Opaque("bail_on_below_zero! applied to " + show(v[1])[:60])
        if k == "coerce_err" and v[1] == REG:
            return ("CE",)
        if k == "coerce":
            if v[1] == REG:
                return ("E", ("CE",), ("OK", ("coerce_ok", REG)))
            raise Opaque("coerce_from_register applied to " + show(v[1])[:60])
        return ("RAW", v)

    def canon(self, t, known=None):
        known = known or {}
        k = t[0]
        if k == "br":
            c = self.classify(t[1])
            if c[0] == "E":
                if "E" in known:
                    return self.canon(t[2] if known["E"] == c[1] else t[3], known)
                a = self.canon(t[2], dict(known, E=c[1]))
                b = self.canon(t[3], dict(known, E=not c[1]))
                return ("E", a, b) if c[1] else ("E", b, a)
            if c[0] == "Q":
                key = ("Q", c[1], c[2])
                if key in known:
                    return self.canon(t[2] if known[key] == c[3] else t[3], known)
                a = self.canon(t[2], {**known, key: c[3]})
                b = self.canon(t[3], {**known, key: not c[3]})
                return ("Q", c[1], c[2], a, b) if c[3] else ("Q", c[1], c[2], b, a)
            a, b = self.canon(t[2], known), self.canon(t[3], known)
            return a if a == b else ("U", a, b)
        if k == "ret":
            lf = self.leaf(t[1])
            if lf[0] == "E" and "E" in known:
                return lf[1] if known["E"] else lf[2]
            return lf
        if k == "cont":
            return ("CONT",)
        if k == "noret":
            return ("NORET",)
        if k == "fall":
            return ("FALL",)
        if k == "unk":
            raise unk_exc(t)
        if k in ("sys", "loop"):
            raise Opaque("second system call on one path")
        raise Opaque("unexpected tree node " + k)

    def proj(self, p, want_coerce=False):
        """Ok payload -> Lean Proj term (or "coerce" when the payload carries the coerced fd)"""
        if p == UNIT:
            return ".unit"
        if not tainted(p):
            return ".mem"
        if p == REG:
            return ".id"
        if p[0] == "cast" and p[1] == REG and p[2] in ("i32", "u32", "i64", "u64"):
            return "(.cast .%s)" % p[2]
        if p == ("coerce_ok", REG):
            return "coerce"
        comps = None
        if p[0] in ("tuple", "ctor"):
            comps = p[-1]
        elif p[0] == "struct":
            comps = [v for _, v in p[2]]
        if comps is not None:
            t = [c for c in comps if tainted(c)]
            if len(t) == 1:
                return self.proj(t[0])
        raise Opaque("the register reaches the Ok payload through: " + show(p)[:100])

    def simple(self, d):
        if d[0] == "E":
            x, y = d[1], d[2]
            if y[0] == "OK":
                p = self.proj(y[1])
                if x == ("BE",) and p != "coerce":
                    return "(.bail %s)" % p
                if x[0] == "ER" and p != "coerce" and x[1] == self.cfg.get("bailCode") and not x[1].startswith(".custom"):
                    return "(.bail %s)" % p
                if x == ("CE",) and p == "coerce":
                    return ".coerceFd"
            raise (Suspect if x[0] == "ER" and not x[1].startswith(".custom") else Opaque)("error / success branches not in a known form: %s | %s" % (
                " ".join(str(i) for i in x[:2]), y[0]))
        if d[0] == "ER":
            return "(.errAlways %s)" % d[1]
        if d[0] == "U":
            a, b = self.simple(d[1]), self.simple(d[2])
            if a == b:
                return a
            raise Suspect("decode depends on something other than the register")
        raise (Suspect if d[0] == "OK" else Opaque)("the register is never tested (%s)" % d[0])

    def decode(self, t, has_result, in_loop):
        d = self.canon(t)
        if not has_result:
            if d[0] == "RAW":
                v = d[1]
                if v == REG:
                    return "(.retRaw .id)"
                if v[0] == "cast" and v[1] == REG and v[2] in ("i32", "u32", "i64", "u64"):
                    return "(.retRaw (.cast .%s))" % v[2]
                if not tainted(v):
                    return ".ignored"
            if d[0] == "NORET":
                return ".noRet"
            raise Opaque("plain return value not understood")
        if in_loop and d[0] == "Q":
            if d[3] == ("CONT",) and not has_cont(d[4]):
                return "(.retryIfEq .%s (%d) %s)" % (d[1], d[2], self.simple(d[4]))
            raise Suspect("retry loop not of the form `repeat while result == constant`")
        if has_cont(d):
            raise Suspect("retry on a condition that is not `result == constant`")
        return self.simple(d)

    def skeleton(self, tree, fn):
        """-> Lean Skel term of a whole function body (helpers already inlined)"""
        if fn["ret"] == "!":
            return ".noRet"
        has_result = "Result" in fn["ret"]
        found = []
        early_ok = []

        def walk(t, in_loop):
            k = t[0]
            if k == "br":
                walk(t[2], in_loop)
                walk(t[3], in_loop)
            elif k == "sys":
                found.append(self.decode(t[1], has_result, in_loop))
            elif k == "loop":
                b = t[1]
                if b[0] == "sys":
                    walk(b, True)
                elif contains_sys(b):
                    raise Suspect("decisions before the system call inside the retry loop")
            elif k == "ret":
                if has_result and t[1][0] == "ok":
                    early_ok.append(show(t[1])[:60])
            elif k == "unk":
                raise unk_exc(t)
        walk(tree, False)
        uniq = []
        for f in found:
            if f not in uniq:
                uniq.append(f)
        if not uniq:
            raise Opaque("no path reaches the system call")
        if early_ok:
            raise Suspect("a path returns %s without issuing the system call" % early_ok[0])
        if len(uniq) > 1:
            raise Suspect("system call sites decode differently: " + " | ".join(uniq))
        return uniq[0]


def has_cont(d):
    if d == ("CONT",):
        return True
    return any(has_cont(x) for x in d[1:] if isinstance(x, tuple) and x and isinstance(x[0], str) and x[0] in
               ("E", "Q", "U", "CONT"))


def contains_sys(t):
    if t[0] == "sys":
        return True
    if t[0] == "br":
        return contains_sys(t[2]) or contains_sys(t[3])
    if t[0] == "loop":
        return contains_sys(t[1])
    return False


# ------------------------------------------------------------------ items

FN_RE = re.compile(r"\bfn\s+([A-Za-z_]\w*)\s*(<[^>(]*>)?\s*\(")


def remove_test_mods(src):
    """drop `#[cfg(test)] mod x { .. }` / `#[cfg(all(test, ..))] mod x;` items"""
    while True:
        m = re.search(r"#\[cfg\(([^\]]*\btest\b[^\]]*)\)\]\s*(?:pub\s+)?mod\s+\w+\s*([;{])", src)
        if not m:
            return src
        if m.group(2) == ";":
            src = src[:m.start()] + src[m.end():]
        else:
            e = match_close(src, m.end() - 1)
            src = src[:m.start()] + src[e + 1:]


def split_params(s):
    parts, depth, cur = [], 0, ""
    for ch in s:
        if ch in "([{<":
            depth += 1
        elif ch in ")]}>":
            depth -= 1
        if ch == "," and depth == 0:
            parts.append(cur)
            cur = ""
        else:
            cur += ch
    if cur.strip():
        parts.append(cur)
    return [ws(p) for p in parts]


def find_fns(path):
    raw = open(path).read()
    src = remove_test_mods(strip_comments_and_strings(raw))
    fns = []
    for m in FN_RE.finditer(src):
        lp = m.end() - 1
        rp = match_close(src, lp)
        if rp < 0:
            continue
        k = rp + 1
        while k < len(src) and src[k] not in "{;":
            k += 1
        if k >= len(src) or src[k] == ";":
            continue  # declaration without body (trait / extern)
        ret = ws(src[rp + 1:k])
        ret = ret[2:].strip() if ret.startswith("->") else ""
        ret = re.split(r"\bwhere\b", ret)[0].strip()
        be = match_close(src, k)
        # qualifiers + attributes before `fn`
        line_start = src.rfind("\n", 0, m.start()) + 1
        quals = src[line_start:m.start()]
        attrs = []
        p = line_start
        while True:
            # walk back over whitespace; an attribute ends with `]` and starts with `#[`
            q = p
            while q > 0 and src[q - 1].isspace():
                q -= 1
            if q == 0 or src[q - 1] != "]":
                break
            depth, j = 0, q - 1
            while j >= 0:
                if src[j] == "]":
                    depth += 1
                elif src[j] == "[":
                    depth -= 1
                    if depth == 0:
                        break
                j -= 1
            if j < 1 or src[j - 1] != "#":
                break
            attrs.append(ws(src[j - 1:q]))
            p = j - 1
        # is the fn nested in an `impl`/`trait` block?  (depth of braces before it > 0)
        depth = 0
        for ch in src[:m.start()]:
            if ch == "{":
                depth += 1
            elif ch == "}":
                depth -= 1
        lineno = raw.count("\n", 0, raw.find("fn " + m.group(1))) + 1 if ("fn " + m.group(1)) in raw else 0
        fns.append({
            "name": m.group(1), "generics": m.group(2) or "", "params": split_params(src[lp + 1:rp]), "ret": ret,
            "body": src[k + 1:be], "pub": bool(re.search(r"\bpub\b(?!\s*\()", quals)), "unsafe": "unsafe" in quals.split(),
            "extern": "extern" in quals, "attrs": attrs, "nested": depth > 0, "line": lineno,
        })
    return fns


def file_consts(path):
    """every `const NAME: T = expr;` of a file (module level or inside a fn), as token lists"""
    try:
        src = remove_test_mods(strip_comments_and_strings(open(path).read()))
    except OSError:
        return {}
    out = {}
    for m in re.finditer(r"\bconst\s+([A-Z_][A-Z0-9_]*)\s*:\s*([^=;]+?)\s*=\s*([^;]+);", src):
        try:
            out[m.group(1)] = (tokenize(m.group(2)), tokenize(m.group(3)))
        except ParseError:
            pass
    return out


def param_name(p):
    m = re.match(r"(?:mut\s+)?([A-Za-z_]\w*)\s*:", p)
    return m.group(1) if m else None


# ------------------------------------------------------------------ shared idioms and constants

class Env:
    def __init__(self):
        self.aliases = dict(PRIM)
        self.errno = {}
        self.notes = []
        self.bail_macros = {"bail_on_below_zero"}
        self.coerce_fns = {"coerce_from_register"}


def resolve_ty(env, t):
    t = t.strip()
    seen = 0
    while t in env.aliases and env.aliases[t] != t and seen < 8:
        t = env.aliases[t]
        seen += 1
    return t if t in ("i32", "u32", "i64", "u64") else None


def rs_files(sub=""):
    return sorted(glob.glob(os.path.join(SRC, sub, "**", "*.rs"), recursive=True))


def tree_truth(t, err_set=None):
    """truth set of a bool-valued function body given as a decision tree"""
    if t[0] == "ret":
        return truth(t[1], err_set)
    if t[0] == "br":
        c, a, b = truth(t[1], err_set), tree_truth(t[2], err_set), tree_truth(t[3], err_set)
        if c is None or a is None or b is None:
            return None
        return iv_or(iv_and(c, a), iv_and(iv_not(c), b))
    return None


def followed(c):
    """the condition is built only from the register, casts, constants, comparisons and connectives"""
    k = c[0]
    if k in ("reg", "int", "bool"):
        return True
    if k in ("cast", "neg", "not", "iserr"):
        return followed(c[1])
    if k == "cmp":
        return followed(c[2]) and followed(c[3])
    if k in ("and", "or"):
        return followed(c[1]) and followed(c[2])
    return False


def tree_followed(t):
    if t[0] == "ret":
        return followed(t[1])
    if t[0] == "br":
        return followed(t[1]) and tree_followed(t[2]) and tree_followed(t[3])
    return False


def extract_cfg(env):
    """`Cfg` fields, by interpreting `is_syscall_error`, `bail_on_below_zero!`, `coerce_from_register` (+ Errno::EBUSY).
    -> (cfg, problems, unknown) ; unknown = the Cfg fields the static analysis could not determine"""
    cfg = {"resv": None, "strict": True, "bailCode": None, "coerceCode": None, "coerceOk": None, "ebusy": None}
    problems, unknown = [], []
    for path in rs_files("platform"):
        for m in re.finditer(r"pub type (\w+) = (\w+);", strip_comments_and_strings(open(path).read())):
            env.aliases.setdefault(m.group(1), m.group(2))
    # Errno values: rusl's Errno::NAME = linux_rust_bindings::errno::NAME (pinned registry crate)
    errno_path = os.path.join(SRC, "error", "errno.rs")
    errno_rs = strip_comments_and_strings(open(errno_path).read()) if os.path.exists(errno_path) else ""
    if "linux_rust_bindings::errno::$name" in ws(errno_rs):
        cands = sorted(glob.glob(os.path.expanduser("~/.cargo/registry/src/*/linux-rust-bindings-*/src/errno/errno_x86.rs")))
        lock = open(os.path.join(REPO, "Cargo.lock")).read() if os.path.exists(os.path.join(REPO, "Cargo.lock")) else ""
        mver = re.search(r'name = "linux-rust-bindings"\nversion = "([^"]+)"', lock)
        if mver:
            cands = [c for c in cands if ("linux-rust-bindings-" + mver.group(1) + "/") in c] or cands
        if cands:
            for m in re.finditer(r"pub const (E[A-Z0-9]+): i32 = (\d+);", open(cands[-1]).read()):
                env.errno[m.group(1)] = int(m.group(2))
    if "EBUSY" in env.errno:
        cfg["ebusy"] = env.errno["EBUSY"]
    else:
        problems.append("Errno::EBUSY: value not found")
        cfg["ebusy"] = 0

    # --- is_syscall_error: the exact set of registers it accepts must be a top-of-range window
    why = "is_syscall_error: definition not found"
    for path in rs_files():
        if "fn is_syscall_error" not in open(path).read():
            continue
        for fn in find_fns(path):
            if fn["name"] != "is_syscall_error" or not fn["params"]:
                continue
            pn = param_name(fn["params"][0])
            try:
                it = Interp(env, file_consts(path))
                tree = it.exec_block(tokenize(fn["body"]), St({pn: REG}, has_reg=True), lambda v, s: ("ret", v))
                t = tree_truth(tree)
            except (ParseError, RecursionError) as e:
                t, why = None, "is_syscall_error: cannot parse (%s)" % e
            if t is None:
                why = "is_syscall_error: body is not a comparison of the full-width register against constants"
                if tree_followed(tree):
                    # every operation is followed (e.g. a test of the narrowed register): not the window test, and not
                    # something to paper over with run-time observation
                    problems.append(why + " (a test of a narrowed / transformed register)")
                    cfg["resv"] = 0
                    why = None
            elif len(t) == 1 and t[0][1] == M64 - 1 and t[0][0] > (1 << 63):
                cfg["resv"] = M64 - t[0][0]
                why = None
            else:
                # understood, and not a top-of-range window: state it exactly (fails cfgOk)
                why = "is_syscall_error: accepts %s, not a window ending at usize::MAX" % (
                    ", ".join("[%d, %d]" % iv for iv in t[:4]) or "nothing")
                cfg["resv"] = 0
                problems.append(why)
                why = None
    if why:
        unknown.append("resv")
        problems.append(why)

    # --- the bail macro(s): `bail_on_below_zero!` by name, and any other two-argument macro that does the same thing
    nm = Norm({"resv": cfg["resv"] or 4095})
    results = {}
    for path in rs_files():
        src = strip_comments_and_strings(open(path).read())
        for m in re.finditer(r"macro_rules!\s*(\w+)\s*\{", src):
            name = m.group(1)
            try:
                toks = tokenize(src[m.end():match_close(src, m.end() - 1)])
                if not toks or toks[0] != "(":
                    raise ParseError("arm pattern")
                pc = match_close(toks, 0)
                pat = toks[1:pc]
                metas = [t for t in pat if t.startswith("$")]
                if len(metas) != 2 or [t for t in pat if not t.startswith("$")] not in ([":", "expr", ",", ":", "expr"], [":", "expr", ",", ":", "expr", ","]):
                    raise ParseError("expected two expression parameters")
                if toks[pc + 1] != "=>":
                    raise ParseError("arm arrow")
                body = toks[pc + 3:match_close(toks, pc + 2)]
                it = Interp(env, file_consts(path))
                tree = it.exec_block(body, St({metas[0]: REG, metas[1]: ("opq", "_", False)}, has_reg=True), lambda v, s: ("fall",))
                d = nm.canon(tree)
                if d[0] == "E" and d[1][0] == "ER" and d[2] == ("FALL",):
                    # a code expression the translator cannot follow is a function of the register on the (finite) error
                    # window only: left to the exhaustive run-time observation
                    results[name] = ("ok", d[1][1])
                else:
                    results[name] = ("other", "not of the form `if is_syscall_error(res) { return Err(with_code(..)) }`")
            except Suspect as e:
                results[name] = ("suspect", str(e))
            except (ParseError, Opaque, RecursionError, ValueError, IndexError) as e:
                results[name] = ("opaque", str(e))
    main = results.get("bail_on_below_zero")
    others = {n: r[1] for n, r in results.items() if r[0] == "ok" and n != "bail_on_below_zero"}
    env.bail_macros = set(others) | ({"bail_on_below_zero"} if main else set())
    codes = set(others.values()) | ({main[1]} if main and main[0] == "ok" else set())
    if main is None and not others:
        why = "bail_on_below_zero!: definition not found"
    elif main is not None and main[0] == "suspect":
        problems.append("bail_on_below_zero!: %s" % main[1])
        cfg["bailCode"] = ".custom " + lean_str(main[1])
        why = None
    elif main is not None and main[0] != "ok":
        why = "bail_on_below_zero!: %s" % main[1]
    elif any(c.startswith(".custom") for c in codes):
        why = "bail_on_below_zero!: error code expression not understood: " + " | ".join(c[8:] for c in sorted(codes) if c.startswith(".custom"))
    elif len(codes) > 1:
        problems.append("bail macros build different error codes: %s" % ", ".join(sorted(codes)))
        cfg["bailCode"] = ".custom " + lean_str("bail macros disagree")
        why = None
    else:
        cfg["bailCode"] = sorted(codes)[0]
        why = None
    if why:
        unknown.append("bailCode")
        problems.append(why)
        cfg["bailCode"] = ".custom " + lean_str(why)

    # --- NonNegativeI32::coerce_from_register by name, and any other `fn(usize, &str) -> Result<Self, _>` of platform/ doing the same
    results = {}
    for path in rs_files("platform"):
        if "usize" not in open(path).read():
            continue
        for fn in find_fns(path):
            named = fn["name"] == "coerce_from_register"
            if len(fn["params"]) != 2 or not (named or (re.search(r":\s*usize$", fn["params"][0]) and "Result<Self" in fn["ret"])):
                continue
            pn, pm = param_name(fn["params"][0]), param_name(fn["params"][1])
            try:
                it = Interp(env, file_consts(path))
                tree = it.exec_block(tokenize(fn["body"]), St({pn: REG, pm: ("opq", "_", False)}, has_reg=True), lambda v, s: ("ret", v))
                d = nm.canon(tree)
                ok = d[2][1] if d[0] == "E" and d[2][0] == "OK" else None
                if d[0] == "E" and d[1][0] == "ER" and ok is not None and ok[0] == "ctor" and len(ok[2]) == 1 \
                        and ok[2][0][0] == "cast" and ok[2][0][1] == REG and ok[2][0][2] in ("i32", "u32", "i64", "u64"):
                    results[fn["name"]] = ("ok", (d[1][1], ok[2][0][2]))
                else:
                    results[fn["name"]] = ("other", "not of the form `if is_syscall_error(v) { Err(with_code(..)) } else { Ok(Self(v as T)) }`")
            except Suspect as e:
                results[fn["name"]] = ("suspect", str(e))
            except (ParseError, Opaque, RecursionError, ValueError, IndexError) as e:
                results[fn["name"]] = ("opaque", str(e))
    main = results.get("coerce_from_register")
    others = {n: r[1] for n, r in results.items() if r[0] == "ok" and n != "coerce_from_register"}
    env.coerce_fns = set(others) | ({"coerce_from_register"} if main else set())
    codes = set(others.values()) | ({main[1]} if main and main[0] == "ok" else set())
    if main is None and not others:
        why = "coerce_from_register: definition not found"
    elif main is not None and main[0] == "suspect":
        problems.append("coerce_from_register: %s" % main[1])
        cfg["coerceCode"], cfg["coerceOk"] = ".custom " + lean_str(main[1]), "i32"
        why = None
    elif main is not None and main[0] != "ok":
        why = "coerce_from_register: %s" % main[1]
    elif any(c[0].startswith(".custom") for c in codes):
        why = "coerce_from_register: error code expression not understood: " + " | ".join(c[0][8:] for c in sorted(codes) if c[0].startswith(".custom"))
    elif len(codes) > 1:
        problems.append("register-to-fd conversions decode differently: %s" % ", ".join(sorted(str(c) for c in codes)))
        cfg["coerceCode"], cfg["coerceOk"] = ".custom " + lean_str("conversions disagree"), "i32"
        why = None
    else:
        cfg["coerceCode"], cfg["coerceOk"] = sorted(codes)[0]
        why = None
    if why:
        unknown += ["coerceCode", "coerceOk"]
        problems.append(why)
        cfg["coerceCode"] = ".custom " + lean_str(why)
        cfg["coerceOk"] = "i32"
    return cfg, problems, unknown


# ------------------------------------------------------------------ driver

def ret_payload_type(ret):
    m = re.fullmatch(r"(?:crate::|crate::error::)?Result<(.*?)(?:, Error)?>", ret)
    return m.group(1).strip() if m else None


def ret_category(env, ret):
    """payload category of the declared return type (used by the harness-independent spec oracle)"""
    t = ret_payload_type(ret)
    if t is None:
        return "noresult" if ret != "!" else "noreturn"
    if t == "()":
        return "unit"
    if t in ("Fd", "NonNegativeI32", "OpenFlags", "WaitPidResult") or re.match(r"\(Fd,", t):
        return "i32"
    r = resolve_ty(env, t)
    return r if r else "mem"


def accessor_of_ret(env, ret):
    """how the harness reaches the register-derived part of the payload: from the declared return type only"""
    t = ret_payload_type(ret)
    if t is None:
        return ""
    if re.match(r"\(Fd,", t):
        return ".map(|x| x.0)"
    if t == "WaitPidResult":
        return ".map(|x| x.pid)"
    if ret_category(env, ret) == "mem":
        return ".map(|_| Mem)"
    return ""


def analyse_fn(env, nm, fn, consts, callees):
    """-> (("skel", term) | ("opaque", reason) | ("suspect", reason), post_checks, helpers inlined)"""
    it = Interp(env, consts, callees)
    try:
        toks = tokenize(fn["body"])
        st = St({})
        for p in fn["params"]:
            n = param_name(p)
            if n:
                st = st.bind(n, ("opq", n, False))
        tree = it.exec_block(toks, st, lambda v, s: ("ret", v))
        return ("skel", nm.skeleton(tree, fn)), it.post_checks, it.inlined
    except Suspect as e:
        return ("suspect", str(e)), it.post_checks, it.inlined
    except Opaque as e:
        return ("opaque", str(e)), it.post_checks, it.inlined
    except ParseError as e:
        return ("opaque", "cannot parse: %s" % e), it.post_checks, it.inlined
    except RecursionError:
        return ("opaque", "body too deeply nested for the interpreter"), it.post_checks, it.inlined


def same_ret(a, b):
    norm = lambda r: r.replace("crate::", "").replace("error::", "").replace(" ", "")
    return norm(a["ret"]) == norm(b["ret"])


def mentions(fn, name):
    return re.search(r"(?<![\w.:])%s\s*\(" % re.escape(name), fn["body"]) is not None


def is_helper(fn):
    """a fn the harness cannot call (not exported, or generic): never a row — inlined into its exported callers"""
    return fn["ret"] != "!" and (not fn["pub"] or bool(fn["generics"].strip()))


def extract(write=True):
    env = Env()
    cfg, problems, unknown = extract_cfg(env)
    nm = Norm(cfg)
    compat_consts = {}
    for path in rs_files("platform"):
        if os.path.basename(path) == "compat.rs":
            compat_consts.update(file_consts(path))
    wrappers = []
    skipped = []
    helpers = []
    for path in rs_files():
        rel = os.path.relpath(path, SRC)
        if os.path.basename(path) in ("test.rs", "tests.rs") or "/test/" in rel or rel.startswith("platform/"):
            continue
        text = open(path).read()
        if "syscall!(" not in text:
            continue
        fns = find_fns(path)
        consts = dict(compat_consts)
        consts.update(file_consts(path))
        top = rel.split("/")[0].replace(".rs", "")
        pending = {}
        for fn in fns:
            gated = [a for a in fn["attrs"] if re.match(r"#\[cfg\(", a)]
            if any(not cfg_holds(re.match(r"#\[cfg\((.*)\)\]$", a).group(1)) for a in gated):
                if "syscall!(" in fn["body"]:
                    skipped.append({"name": top + "::" + fn["name"], "file": rel, "why": "cfg'd out of the x86_64 build: " + " ".join(gated)})
                continue
            if fn["name"] not in pending:
                pending[fn["name"]] = fn
        # the fns of this file that are (part of) a wrapper: they issue the system call themselves, or call a helper that
        # does, or are a thin variant of an exported wrapper (call it and return what it returns).  A fn that calls an
        # exported wrapper and returns something else is a USER of the wrapper, not a wrapper.
        wrapperish = {n for n, fn in pending.items() if "syscall!(" in fn["body"]}
        changed = True
        while changed:
            changed = False
            for n, fn in pending.items():
                if n in wrapperish or fn["nested"]:
                    continue
                called = [c for c in wrapperish if mentions(fn, c)]
                if any(is_helper(pending[c]) or same_ret(fn, pending[c]) for c in called):
                    wrapperish.add(n)
                    changed = True
        used = set()
        for n in sorted(wrapperish):
            fn = pending[n]
            if is_helper(fn) and not fn["nested"]:
                continue
            callees = {c: pending[c] for c in wrapperish if c != n and not pending[c]["nested"]}
            if fn["nested"]:
                res, pc, inl = ("opaque", "syscall! inside an impl/trait/nested item"), False, []
            else:
                res, pc, inl = analyse_fn(env, nm, fn, consts, callees)
            used.update(inl)
            w = {"name": top + "::" + fn["name"], "fn": fn["name"], "top": top, "file": rel, "line": fn["line"],
                 "sites": len(re.findall(r"\bsyscall!\(", fn["body"])), "pub": fn["pub"], "unsafe": fn["unsafe"],
                 "params": fn["params"], "ret": fn["ret"], "cat": ret_category(env, fn["ret"]), "via": inl[0] if inl else None,
                 "inlined": list(inl), "opaque": None, "suspect": None,
                 "acc": accessor_of_ret(env, fn["ret"]), "post_checks": pc}
            if fn["ret"] == "!":
                res = ("skel", ".noRet")
            if res[0] == "opaque":
                w["opaque"] = res[1]
                w["skel"] = ".custom " + lean_str("opaque: " + res[1])
            elif res[0] == "suspect":
                w["suspect"] = res[1]
                w["skel"] = ".custom " + lean_str("not a shape the property allows: " + res[1])
            else:
                w["skel"] = res[1]
            wrappers.append(w)
        for n in sorted(wrapperish):
            fn = pending[n]
            if is_helper(fn) and not fn["nested"]:
                # textual reachability from a row, in case the interpreter gave up before it got to the call
                reached = n in used or any(mentions(pending[r], n) for r in wrapperish if r != n and not (is_helper(pending[r]) and not pending[r]["nested"]))
                via_helper = any(mentions(pending[r], n) for r in wrapperish if r != n and is_helper(pending[r]))
                helpers.append({"name": top + "::" + n, "file": rel, "line": fn["line"], "generic": bool(fn["generics"].strip()),
                                "reached": bool(reached or via_helper)})
    wrappers.sort(key=lambda w: w["name"])
    meta = {"cfg": cfg, "problems": problems, "unknown": unknown, "observed": [], "wrappers": wrappers, "skipped": skipped, "helpers": helpers}
    if write:
        write_lean(meta)
        write_rs(meta)
    return meta


def write_if_changed(path, content):
    os.makedirs(os.path.dirname(path), exist_ok=True)
    if os.path.exists(path) and open(path).read() == content:
        return False
    with open(path, "w") as f:
        f.write(content)
    return True


def write_lean(meta):
    c = meta["cfg"]
    o = ["/- GENERATED by checks/c09_extract.py from %s/rusl/src on every run of `bin/check C09`.  Do not edit. -/" % REPO,
         "import TinyVerif.Model.Wrap", "namespace TinyVerif.Gen", "open TinyVerif.Wrap", ""]
    o.append("/-- decode idioms as they are in platform/compat.rs, macros.rs, platform/numbers/non_negative_i32.rs, error/errno.rs -/")
    o.append("def cfg : Cfg := { resv := %d, strict := %s, bailCode := %s, coerceCode := %s, coerceOk := .%s, ebusy := %d }"
             % (c["resv"] if c["resv"] is not None else 0, "true" if c["strict"] else "false", c["bailCode"], c["coerceCode"], c["coerceOk"], c["ebusy"]))
    o.append("")
    o.append("/-- constructs of the shared idioms that are neither translated nor confirmed at run time (must be empty) -/")
    o.append("def problems : List String := [%s]" % ", ".join(lean_str(p) for p in meta["problems"]))
    o.append("")
    o.append("/-- Cfg fields the static translation could not determine; their values above are what the compiled code was")
    o.append("observed to do under the scripted kernel (every errno, the window boundary, the success classes) -/")
    o.append("def observed : List String := [%s]" % ", ".join(lean_str(p) for p in meta.get("observed", [])))
    o.append("")
    o.append("/-- wrappers whose body the translator does not understand: decided by the exhaustive run-time correspondence only -/")
    o.append("def opaqueRows : List String := [%s]" % ", ".join(lean_str(w["name"]) for w in meta["wrappers"] if w["opaque"]))
    o.append("")
    o.append("def wrappers : List Wrapper := [")
    rows = ["  { name := %s, file := %s, skel := %s }" % (lean_str(w["name"]), lean_str(w["file"]), w["skel"]) for w in meta["wrappers"]]
    o.append(",\n".join(rows))
    o.append("]")
    o.append("")
    o.append("end TinyVerif.Gen")
    return write_if_changed(GEN_LEAN, "\n".join(o) + "\n")


def callable_wrappers(meta):
    return [w for w in meta["wrappers"] if w["pub"] and w["ret"] != "!"]


def write_rs(meta):
    o = ["// GENERATED by checks/c09_extract.py from %s/rusl/src.  Do not edit." % REPO,
         "// One stub per exported wrapper, from its signature only: dummy arguments come from `Dummy` impls selected by the",
         "// parameter types, the payload accessor from the declared return type.",
         "pub const WRAPPERS: &[(&str, fn() -> String)] = &["]
    for w in callable_wrappers(meta):
        args = ", ".join("d()" for _ in w["params"])
        o.append("    (%s, || unsafe { show(rusl::%s::%s(%s)%s) })," % (json.dumps(w["name"]), w["top"], w["fn"], args, w["acc"]))
    o.append("];")
    return write_if_changed(GEN_RS, "\n".join(o) + "\n")


if __name__ == "__main__":
    m = extract(write="--dry" not in sys.argv)
    if "--json" in sys.argv:
        json.dump(m, sys.stdout, indent=1)
    else:
        print("cfg", m["cfg"], "problems", m["problems"], "unknown", m["unknown"])
        for w in m["wrappers"]:
            print("%-34s %-5s %-8s %s%s" % (w["name"], "pub" if w["pub"] else "priv", w["cat"], w["skel"], (" via " + w["via"]) if w["via"] else ""))
        for s in m["skipped"]:
            print("skipped", s)
        for h in m["helpers"]:
            print("helper", h)
