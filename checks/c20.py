"""C20 — parsers derived with ArgParse/Subcommand accept exactly their declared grammar and never panic.

One shape table (SHAPES) generates BOTH the Rust structs carrying the real derives
(harness/c20/src/gen_shapes.rs) and the Lean `Shape` terms (lean/TinyVerif/Gen/CliShapes.lean).
The judge is the grammar semantics written directly in Python (`ref_parse`), independent of the Lean model."""
import os

from . import common as C

OVERFLOW = b"Cause unknown, too many characters to write into output buffer (BUG)"
UNREC = b"Unrecognized argument: "
I32_MIN, I32_MAX = -2**31, 2**31 - 1


# ------------------------------------------------------------------ shape table

def O(name, kind, pkg="req", long=None, short=None, ty=None):
    return {"name": name, "kind": kind, "pkg": pkg, "long": long, "short": short, "ty": ty}


def P(name, kind, pkg="req", ty=None, arg=None):
    """positional; `arg` = the `#[cli(arg = "..")]` display name (defaults to the field name)"""
    return {"name": name, "kind": kind, "pkg": pkg, "long": None, "short": None, "ty": ty, "arg": arg}


def arg_name(f):
    return f.get("arg") or f["name"]


SUBPOS_COUNTER = [0]


def SH(fields, sub=None):
    return {"fields": fields, "sub": sub}


def SUB(optional, cmds, docs=()):
    """cmds: list of (kebab-name, None | shape); docs: names of the variants that carry a doc comment in the Rust enum"""
    return {"optional": optional, "cmds": cmds, "docs": set(docs)}


SHAPES = [
    ("s01", SH([O("count", "int", long="count")])),
    ("s02", SH([O("verbose", "bool", short="v"), O("name", "str", "opt", long="name", short="n"),
                O("tag", "ustr", "vec", long="tag"), O("level", "int", "vec", long="level", short="l")])),
    ("s03", SH([P("src", "str"), P("dst", "ustr"), P("mode", "int", "opt")])),
    ("s04", SH([O("level", "int", "opt", long="level", short="l"), O("quiet", "bool", short="q"), P("file", "ustr"),
                P("extra", "str", "opt"), O("inc", "str", "vec", long="include", short="i")])),
    ("s05", SH([O("verbose", "bool", long="verbose", short="V"), O("cfg", "str", long="cfg")],
               SUB(False, [("status", None),
                           ("run", SH([O("jobs", "int", "opt", short="j"), P("target", "str")])),
                           ("list", SH([O("all", "bool", long="all"), O("filter", "str", "vec", long="filter")]))]))),
    ("s06", SH([O("dry_run", "bool", long="dry_run")],
               SUB(True, [("ping", None), ("send", SH([P("msg", "ustr"), P("times", "int", "opt")]))]))),
    ("s07", SH([], SUB(False, [
        ("remote", SH([O("name", "str", "opt", long="name")],
                      SUB(True, [("show", None), ("add", SH([P("url", "ustr"), O("force", "bool", short="f")]))]))),
        ("only-one", SH([O("x", "int", long="x")]))]))),
    ("s08", SH([O("a", "int", short="a"), O("b", "int", "opt", long="b-val"), O("c", "int", "vec", short="c", long="cs"),
                P("d", "int")])),
    ("s09", SH([O("host", "str", "opt", short="h", long="host"), O("port", "int", "opt", long="port")])),
    ("s10", SH([O("my_long", "str", long="My_Long_NAME", short="M", ty="String"), O("other", "str", "opt", long="other", ty="String"),
                O("strs", "str", "vec", long="s_v", ty="String")])),
    ("s11", SH([O("x", "str", long="a" * 104), O("y", "int", "opt", long="b" * 60, short="y")])),
    ("s12", SH([P("first", "int", "opt"), P("second", "str")])),
    ("s13", SH([O("a", "bool", short="a"), O("b", "bool", short="b", long="bee")], SUB(True, [("x", None), ("y", None)]))),
    ("s14", SH([])),
    ("s15", SH([P("src", "str", arg="INPUT"), O("v", "bool", short="v"), P("n", "int", "opt", arg="count")])),
    ("s16", SH([P("first", "str", arg="second"), P("second", "str", "opt", arg="first")])),
    # documented / undocumented variants in every neighbourhood (unit before documented unit, before documented payload, ...)
    ("s17", SH([O("v", "bool", short="v")],
               SUB(False, [("alpha", None), ("beta", None), ("gamma", SH([P("n", "int", "opt")])), ("delta", None),
                           ("epsilon", SH([O("k", "str", "opt", long="k")])), ("zeta", None), ("eta", None)],
                   docs=("beta", "gamma", "epsilon", "eta")))),
    ("s18", SH([], SUB(True, [("one", None), ("two", None), ("three", None)], docs=("one", "two", "three")))),
]
SHAPE = dict(SHAPES)


def lit_long(f):
    return None if f["long"] is None else ("--" + f["long"].lower().replace("_", "-")).encode()


def lit_short(f):
    return None if f["short"] is None else ("-" + f["short"].lower().replace("_", "-")).encode()


def lits(f):
    return [x for x in (lit_short(f), lit_long(f)) if x is not None]


def lit_match(f):
    return b" | ".join(lits(f))


def is_pos(f):
    return f["long"] is None and f["short"] is None


def pascal(kebab):
    return "".join(p[:1].upper() + p[1:] for p in kebab.split("-"))


# ------------------------------------------------------------------ generators

def rust_ty(f):
    base = {"ustr": "&'static UnixStr", "str": f["ty"] or "&'static str", "int": "i32", "bool": "bool"}[f["kind"]]
    if f["kind"] == "bool":
        return "bool"
    return {"req": base, "opt": "Option<%s>" % base, "vec": "Vec<%s>" % base}[f["pkg"]]


def gen_rust():
    SUBPOS_COUNTER[0] = 1      # deterministic: the same positions on every call
    out = ["// generated by checks/c20.py from its SHAPES table - do not edit",
           "use crate::{flag, many, opt, AtomDump};",
           "use tiny_cli::{ArgParse, Subcommand};",
           "use tiny_std::unix::cli::ArgParse;",
           "use tiny_std::UnixStr;", ""]
    disp = []

    def emit(sid, sname, path, sh, table):
        """struct `sname` for shape `sh`; help_path = sid + path components"""
        table.append((path or "/", sname))
        hp = ", ".join([sid] + [p for p in path.split("/") if p])
        out.append("#[derive(ArgParse)]")
        out.append('#[cli(help_path = "%s")]' % hp)
        out.append("pub struct %s {" % sname)
        # the declared grammar does not depend on WHERE in the struct the subcommand field is declared: its position
        # (first / between options / last) varies from shape to shape
        if sh["sub"] and sh["fields"]:
            SUBPOS_COUNTER[0] += 1
            subpos = SUBPOS_COUNTER[0] % (len(sh["fields"]) + 1)      # cycles first / between / last
        else:
            subpos = len(sh["fields"]) if sh["sub"] else -1

        def emit_sub():
            en = sname + "Cmd"
            out.append("    #[cli(subcommand)]")
            out.append("    pub sub: %s," % ("Option<%s>" % en if sh["sub"]["optional"] else en))
        for fi, f in enumerate(sh["fields"]):
            if fi == subpos:
                emit_sub()
            attrs = []
            if f["long"] is not None:
                attrs.append('long = "%s"' % f["long"])
            if f["short"] is not None:
                attrs.append('short = "%s"' % f["short"])
            if f.get("arg"):
                attrs.append('arg = "%s"' % f["arg"])
            if attrs:
                out.append("    #[cli(%s)]" % ", ".join(attrs))
            out.append("    pub %s: %s," % (f["name"], rust_ty(f)))
        if sh["sub"] and subpos == len(sh["fields"]):
            emit_sub()
        out.append("}")
        parts = []
        for f in sh["fields"]:
            if f["kind"] == "bool":
                parts.append("flag(self.%s)" % f["name"])
            elif f["pkg"] == "req":
                parts.append("self.%s.atom()" % f["name"])
            elif f["pkg"] == "opt":
                parts.append("opt(&self.%s)" % f["name"])
            else:
                parts.append("many(&self.%s)" % f["name"])
        if sh["sub"] is None:
            subd = '"_".to_string()'
        elif sh["sub"]["optional"]:
            subd = 'match &self.sub { Some(c) => c.dump(), None => "_".to_string() }'
        else:
            subd = "self.sub.dump()"
        out.append("impl %s {" % sname)
        out.append("    pub fn dump(&self) -> String {")
        out.append("        let fields: Vec<String> = vec![%s];" % ", ".join(parts))
        out.append('        format!("{{{}|{}}}", fields.join(","), %s)' % subd)
        out.append("    }")
        out.append("}")
        if sh["sub"]:
            en = sname + "Cmd"
            out.append("#[derive(Subcommand)]")
            out.append("pub enum %s {" % en)
            for (n, inner) in sh["sub"]["cmds"]:
                if n in sh["sub"]["docs"]:
                    out.append("    /// The %s command" % n)
                out.append("    %s," % (pascal(n) if inner is None else "%s(%s%s)" % (pascal(n), sname, pascal(n))))
            out.append("}")
            out.append("impl %s {" % en)
            out.append("    pub fn dump(&self) -> String {")
            out.append("        match self {")
            for (n, inner) in sh["sub"]["cmds"]:
                if inner is None:
                    out.append('            Self::%s => "%s".to_string(),' % (pascal(n), n))
                else:
                    out.append('            Self::%s(x) => format!("%s{}", x.dump()),' % (pascal(n), n))
            out.append("        }")
            out.append("    }")
            out.append("}")
            for (n, inner) in sh["sub"]["cmds"]:
                if inner is not None:
                    emit(sid, sname + pascal(n), path + "/" + n, inner, table)

    for sid, sh in SHAPES:
        table = []
        sname = sid.upper()
        emit(sid, sname, "", sh, table)
        out.append("pub fn run_%s(args: &mut impl Iterator<Item = &'static UnixStr>) -> String {" % sid)
        out.append("    match %s::arg_parse(args) {" % sname)
        out.append('        Ok(v) => format!("ok {}", v.dump()),')
        out.append("        Err(e) => crate::fmt_err(&e, &[%s])," % ", ".join(
            '("%s", %s::help_printer().to_string())' % (p, n) for p, n in table))
        out.append("    }")
        out.append("}")
        out.append("")
        disp.append('        "%s" => Some(run_%s(&mut args.into_iter())),' % (sid, sid))
    out.append("pub fn dispatch(shape: &str, args: Vec<&'static UnixStr>) -> Option<String> {")
    out.append("    match shape {")
    out += disp
    out.append("        _ => None,")
    out.append("    }")
    out.append("}")
    return "\n".join(out) + "\n"


def lean_bytes(b):
    return "[" + ", ".join(str(x) for x in b) + "]"


def lean_opt(b):
    return "none" if b is None else "(some %s)" % lean_bytes(b)


def lean_shape(sh, ind):
    pad = " " * ind
    fs = []
    for f in sh["fields"]:
        fs.append("⟨%s, %s, %s, .%s, .%s⟩" % (lean_bytes(arg_name(f).encode()), lean_opt(lit_long(f)), lean_opt(lit_short(f)),
                                             f["kind"], f["pkg"]))
    fl = "[" + (",\n" + pad + "   ").join(fs) + "]"
    if sh["sub"] is None:
        sub = ".none"
    else:
        cs = ".nil"
        for (n, inner) in reversed(sh["sub"]["cmds"]):
            if inner is None:
                cs = "(.unit %s %s)" % (lean_bytes(n.encode()), cs)
            else:
                cs = "(.args %s\n%s    %s\n%s    %s)" % (lean_bytes(n.encode()), pad, lean_shape(inner, ind + 4), pad, cs)
        sub = "(.cmds %s %s)" % ("true" if sh["sub"]["optional"] else "false", cs)
    return "(.mk %s\n%s  %s)" % (fl, pad, sub)


def gen_lean():
    out = ["-- generated by checks/c20.py from its SHAPES table (the same table generates harness/c20/src/gen_shapes.rs) - do not edit",
           "import TinyVerif.Model.Cli", "namespace TinyVerif.Cli.Gen", "open TinyVerif.Cli", ""]
    for sid, sh in SHAPES:
        out.append("def %s : Shape :=\n  %s\n" % (sid, lean_shape(sh, 2)))
    out.append("def shapes : List (String × Shape) :=\n  [%s]\n" % ", ".join('("%s", %s)' % (sid, sid) for sid, _ in SHAPES))
    out.append("end TinyVerif.Cli.Gen")
    return "\n".join(out) + "\n"


def write_if_changed(path, text):
    if os.path.exists(path) and open(path).read() == text:
        return False
    os.makedirs(os.path.dirname(path), exist_ok=True)
    with open(path, "w") as f:
        f.write(text)
    return True


RUST_GEN = os.path.join(C.HARNESS, "c20", "src", "gen_shapes.rs")
LEAN_GEN = os.path.join(C.LEAN, "TinyVerif", "Gen", "CliShapes.lean")


def regenerate():
    write_if_changed(RUST_GEN, gen_rust())
    write_if_changed(LEAN_GEN, gen_lean())


# ------------------------------------------------------------------ reference semantics (the property's own oracle)

def py_parse_i32(s):
    """<i32 as FromStr>: ('ok', n) | ('err', message)"""
    if len(s) == 0:
        return ("err", b"cannot parse integer from empty string")
    if s in (b"+", b"-"):
        return ("err", b"invalid digit found in string")
    neg = False
    d = s
    if s[:1] == b"+":
        d = s[1:]
    elif s[:1] == b"-":
        neg, d = True, s[1:]
    acc = 0
    for c in d:
        if not (48 <= c <= 57):
            return ("err", b"invalid digit found in string")
        acc = acc * 10 + (-(c - 48) if neg else (c - 48))
        if not (I32_MIN <= acc <= I32_MAX):
            return ("err", b"number too small to fit in target type" if neg else b"number too large to fit in target type")
    return ("ok", acc)


def is_utf8(b):
    try:
        b.decode("utf-8")
        return True
    except UnicodeDecodeError:
        return False


def atom_dump(kind, x):
    return "I%d" % x if kind == "int" else "S" + C.hexs(x)


def dump_value(sh, val):
    """val = {'fields': [python values], 'sub': None | (name, None | val)}"""
    parts = []
    for f, v in zip(sh["fields"], val["fields"]):
        if f["kind"] == "bool":
            parts.append("T" if v else "F")
        elif f["pkg"] == "vec":
            parts.append("[" + ";".join(atom_dump(f["kind"], x) for x in v) + "]")
        else:
            parts.append("N" if v is None else atom_dump(f["kind"], v))
    if val["sub"] is None:
        sub = "_"
    else:
        n, inner = val["sub"]
        if inner is None:
            sub = n
        else:
            ish = dict(sh["sub"]["cmds"])[n]
            sub = n + dump_value(ish, inner)
    return "{" + ",".join(parts) + "|" + sub + "}"


class PErr(Exception):
    def __init__(self, path, kind, text):
        self.path, self.kind, self.text = path, kind, text


def simple_dbg(arg):
    """Rust `{:?}` of Ok(arg + NUL) when that is easy to say; None otherwise"""
    if all(32 <= c < 127 and c not in (34, 92) for c in arg):
        return b'Ok("' + arg + b'\\0")'
    return None


def ref_convert(f, arg, path, where):
    k = f["kind"]
    if k == "ustr":
        return arg
    if not is_utf8(arg):
        raise PErr(path, "bad-utf8", b"Failed to parse argument " + (b"at '" + where + b"' " if where else b"") + b"as utf8-str")
    if k == "str":
        return arg
    r = py_parse_i32(arg)
    if r[0] == "err":
        raise PErr(path, "bad-int", b"Failed to convert argument " + (b"at '" + where + b"' " if where else b"") + b"from str: " + r[1])
    return r[1]


def ref_parse_struct(sh, args, pos, path):
    """the declared grammar: returns the value; consumes args[pos:] entirely"""
    fs = sh["fields"]
    vals = [False if f["kind"] == "bool" else ([] if f["pkg"] == "vec" else None) for f in fs]
    sub = None
    i = pos
    n = len(args)
    while i < n:
        a = args[i]
        i += 1
        hit = next((j for j, f in enumerate(fs) if a in lits(f)), None)
        if hit is not None:
            f = fs[hit]
            if f["kind"] == "bool":
                vals[hit] = True
                continue
            if i >= n:
                raise PErr(path, "missing-value", b"Expected argument following '" + lit_match(f) + b"'.")
            v = ref_convert(f, args[i], path, lit_match(f))
            i += 1
            if f["pkg"] == "vec":
                vals[hit].append(v)
            else:
                vals[hit] = v
            continue
        if a in (b"-h", b"--help"):
            raise PErr(path, "help", b"")
        unrec = PErr(path, "unrecognized", None if simple_dbg(a) is None else UNREC + simple_dbg(a))
        if sh["sub"] is not None:
            cm = dict(sh["sub"]["cmds"])
            if a not in [c.encode() for c in cm]:
                raise unrec
            name = a.decode()
            if cm[name] is None:
                sub = (name, None)
                continue
            inner = ref_parse_struct(cm[name], args, i, path + "/" + name)
            sub = (name, inner)
            i = n
            continue
        tgt = next((j for j, f in enumerate(fs) if is_pos(f) and vals[j] is None), None)
        if tgt is None:
            raise unrec
        vals[tgt] = ref_convert(fs[tgt], a, path, None)
    for f, v in zip(fs, vals):
        if f["kind"] != "bool" and f["pkg"] == "req" and v is None:
            if is_pos(f):
                raise PErr(path, "missing-required", b"Required argument '" + arg_name(f).encode() + b"' not supplied.")
            raise PErr(path, "missing-required", b"Required option '" + lit_match(f) + b"' not supplied.")
    if sh["sub"] is not None and not sh["sub"]["optional"] and sub is None:
        names = " | ".join(c for c, _ in sh["sub"]["cmds"]).encode()
        raise PErr(path, "missing-command", b"Required command '" + names + b"' not supplied.")
    return {"fields": vals, "sub": sub}


def ref_parse(sid, args):
    try:
        v = ref_parse_struct(SHAPE[sid], args, 0, "")
        return ("ok", dump_value(SHAPE[sid], v))
    except PErr as e:
        return ("err", e.path or "/", e.kind, e.text)


def case_args(case):
    w = case.split()
    return w[0], [C.unhex(x) for x in w[1:]]


def judge_against(exp, out):
    if out == "panic":
        return "panicked"
    if out == "bad-op":
        return "harness rejected the case"
    if exp[0] == "ok":
        return None if out == "ok " + exp[1] else "mis-parse: grammar says ok %s" % exp[1][:200]
    _, path, kind, text = exp
    o = out.split(" ")
    if o[0] != "err":
        return "accepted: grammar says error (%s)" % kind
    if o[1] != path:
        return "wrong help text: error %s should carry the help of %s, got %s" % (kind, path, o[1])
    if o[2] == "U":
        return None if kind == "unrecognized" or (text is not None and len(text) > 128) else "wrong error kind: expected %s" % kind
    cause = C.unhex(o[2])
    if len(cause) > 128:
        return "cause longer than the 128-byte buffer"
    if text is not None:
        want = text if len(text) <= 128 else OVERFLOW
        return None if cause == want else "wrong error kind: expected %s (%r)" % (kind, want[:80])
    return None if cause.startswith(UNREC) or cause == OVERFLOW else "wrong error kind: expected unrecognized"


def judge(case, out):
    sid, args = case_args(case)
    return judge_against(ref_parse(sid, args), out)


def sig_of(case, out, why):
    return {"shape": case.split()[0], "kind": why.split(":")[0]}


# ------------------------------------------------------------------ case generation

STR_POOL = [b"a", b"abc", b"hello world", b"", b"x=y", b"h\xc3\xa9llo", b"\xe6\x97\xa5\xe6\x9c\xac", b"\xf0\x9f\x98\x80", b"-", b"--",
            b"-x", b"--nope", b"-h", b"--help", b"--name", b"-n", b"--count", b"run", b"status", b"0", b"\"q\"", b"back\\slash",
            b"tab\there", b"\x7f\x01", b"'", b"a" * 100]


def rand_atom(r, kind, positional, sh):
    if kind == "int":
        k = r.below(8)
        if k < 3:
            return r.choice([0, 1, -1, 7, I32_MAX, I32_MIN, I32_MAX - 1, I32_MIN + 1, 10, -10, 99999999, 100000000])
        if k < 5:
            return r.range(-1000, 1000)
        return r.range(I32_MIN, I32_MAX)
    while True:
        k = r.below(10)
        if k < 6:
            b = r.choice(STR_POOL)
        elif k < 8 or kind == "str":
            b = r.bytes(r.below(12), alphabet=list(range(32, 127)))
        else:
            b = bytes(x for x in r.bytes(r.below(12)) if x != 0)
        if kind == "ustr" and r.chance(1, 6):
            b = b + bytes([r.choice([0x80, 0xff, 0xc0, 0xed, 0xa0])]) + b"z"
        if kind == "str" and not is_utf8(b):
            continue
        if positional:
            # Admissible: a positional value must not be an option literal of this struct or a help request
            if b in (b"-h", b"--help") or any(b in lits(f) for f in sh["fields"]):
                continue
        return b


def print_atom(r, kind, v):
    if kind != "int":
        return v
    s = str(v).encode()
    k = r.below(10)
    if k == 0 and v >= 0:
        return b"+" + s
    if k == 1:
        return (b"-000" + s[1:]) if v < 0 else (b"000" + s)
    return s


def rand_value(r, sh):
    vals = []
    pos_open = True
    for f in sh["fields"]:
        p = is_pos(f)
        if f["kind"] == "bool":
            vals.append(r.chance(1, 2))
        elif f["pkg"] == "vec":
            vals.append([rand_atom(r, f["kind"], False, sh) for _ in range(r.choice([0, 1, 1, 2, 3]))])
        elif f["pkg"] == "opt" and (r.chance(1, 3) or (p and not pos_open)):
            vals.append(None)
            if p:
                pos_open = False
        else:
            vals.append(rand_atom(r, f["kind"], p, sh))
    sub = None
    if sh["sub"] is not None and not (sh["sub"]["optional"] and r.chance(1, 3)):
        n, inner = r.choice(sh["sub"]["cmds"])
        sub = (n, None if inner is None else rand_value(r, inner))
    return {"fields": vals, "sub": sub}


def admissible_value(sh, val):
    """positionals are prefix-filled (an unfilled optional positional is followed by no filled one)"""
    seen_none = False
    for f, v in zip(sh["fields"], val["fields"]):
        if is_pos(f):
            if v is None:
                seen_none = True
            elif seen_none:
                return False
    if val["sub"] is not None and val["sub"][1] is not None:
        return admissible_value(dict(sh["sub"]["cmds"])[val["sub"][0]], val["sub"][1])
    return True


def render(r, sh, val, unit_anywhere=True):
    """the struct's occurrences: options in a random order (per-field order kept) with a random alias each,
    positionals in declaration order interleaved at random, then the subcommand"""
    groups = []   # per option field: list of occurrences (each a list of args)
    posl = []
    for f, v in zip(sh["fields"], val["fields"]):
        if is_pos(f):
            if v is not None:
                posl.append([print_atom(r, f["kind"], v)])
            continue
        occ = []
        if f["kind"] == "bool":
            if v:
                occ = [[r.choice(lits(f))] for _ in range(r.choice([1, 1, 1, 2]))]
        elif f["pkg"] == "vec":
            occ = [[r.choice(lits(f)), print_atom(r, f["kind"], x)] for x in v]
        elif v is not None:
            occ = [[r.choice(lits(f)), print_atom(r, f["kind"], v)]]
        if occ:
            groups.append(occ)
    if posl:
        groups.append(posl)
    sub_tail = []
    if val["sub"] is not None:
        n, inner = val["sub"]
        if inner is None:
            if unit_anywhere and r.chance(1, 3):
                groups.append([[n.encode()]])
            else:
                sub_tail = [n.encode()]
        else:
            sub_tail = [n.encode()] + render(r, dict(sh["sub"]["cmds"])[n], inner, unit_anywhere)
    # random interleaving that keeps each group's internal order
    slots = r.shuffle([gi for gi, g in enumerate(groups) for _ in g])
    nxt = [0] * len(groups)
    args = []
    for gi in slots:
        args += groups[gi][nxt[gi]]
        nxt[gi] += 1
    return args + sub_tail


def line(sid, args):
    return " ".join([sid] + [C.hexs(a) for a in args])


def shape_tokens(sh):
    t = []
    for f in sh["fields"]:
        t += lits(f)
    if sh["sub"]:
        for n, inner in sh["sub"]["cmds"]:
            t.append(n.encode())
            if inner:
                t += shape_tokens(inner)
    return t


def mutate(r, sid, args):
    sh = SHAPE[sid]
    toks = shape_tokens(sh) + [b"-h", b"--help"]
    k = r.below(14)
    a = list(args)
    n = len(a)
    if k == 0 and n:
        del a[r.below(n)]
        return "drop", a
    if k == 1:
        a.insert(r.below(n + 1), r.choice([b"--nope", b"-z", b"--", b"-", b"", b"zzz", b"--Count", b"-\xff", b"--h\xc3\xa9"]))
        return "unknown", a
    if k == 2 and n:
        a[r.below(n)] = r.choice(toks)
        return "optionlike", a
    if k == 3:
        a.insert(r.below(n + 1), r.choice([b"-h", b"--help"]))
        return "help", a
    if k == 4 and n:
        a[r.below(n)] = bytes(x for x in r.bytes(1 + r.below(6)) if x != 0) + bytes([r.choice([0x80, 0xc3, 0xff, 0xf5, 0xe0])])
        return "nonutf8", a
    if k == 5 and n:
        a[r.below(n)] = b""
        return "empty", a
    if k == 6:
        if r.chance(1, 3):
            # valid multi-byte UTF-8 around the 128-byte cause buffer: byte length and character count differ
            unit = r.choice([b"\xc3\xa9", b"\xe2\x82\xac", b"\xf0\x9f\x98\x80", b"a\xe2\x82\xac", b"\xc3\xa9b"])
            big = unit * r.range(15, 110) + r.choice([b"", b"a", b"zz"])
        else:
          big = r.choice([b"a" * 10240, b"-" + b"b" * 10239, b"\xc3\xa9" * 5120, b"\"" * 10240, b"a" * 90, b"a" * 95, b"a" * 96, b"a" * 97,
                          b"a" * 98, b"a" * 99, b"a" * 101, b"\n" * 50, b"\x01" * 20, b"x" * 127, b"x" * 128, b"x" * 129])
        if n and r.chance(1, 2):
            a[r.below(n)] = big
        else:
            a.insert(r.below(n + 1), big)
        return "long", a
    if k == 7 and n >= 2:
        i, j = r.below(n), r.below(n)
        a[i], a[j] = a[j], a[i]
        return "swap", a
    if k == 8 and n:
        i = r.below(n)
        a.insert(i, a[i])
        return "dup", a
    if k == 9:
        return "truncate", a[:r.below(n + 1)]
    if k == 10:
        return "tokens", [r.choice(toks + STR_POOL + [b"5", b"-5", b"2147483648", b"-2147483649", b"+", b"1x"]) for _ in range(r.below(7))]
    if k == 11 and n:
        i = r.below(n)
        a[i] = r.choice([b"2147483648", b"-2147483649", b"99999999999999999999", b"+", b"-", b"", b"1x", b"x1", b"+-1", b"--1", b" 1", b"1 ",
                         b"\xd9\xa1", b"0x10", b"1_000", b"-0", b"+0", b"00000000000000000001"])
        return "badint", a
    if k == 12 and n:
        # an earlier occurrence of a single-valued option with another value (last one wins)
        for f in r.shuffle(sh["fields"]):
            if not is_pos(f) and f["kind"] != "bool" and f["pkg"] != "vec":
                a = [r.choice(lits(f)), print_atom(r, f["kind"], rand_atom(r, f["kind"], False, sh))] + a
                return "dupopt", a
        return "same", a
    a.append(r.choice(toks + [b"extra"]))
    return "append", a


def gen_streams(ctx, n_rt, n_mut):
    r = ctx.rng
    rt, rt_expect, mut = [], {}, []
    ids = [sid for sid, _ in SHAPES]
    valid_args = []
    for i in range(n_rt):
        sid = ids[i % len(ids)]
        sh = SHAPE[sid]
        while True:
            val = rand_value(r, sh)
            if admissible_value(sh, val):
                break
        args = render(r, sh, val)
        ln = line(sid, args)
        rt.append(ln)
        rt_expect[ln] = dump_value(sh, val)
        valid_args.append((sid, args))
    for i in range(n_mut):
        sid, args = valid_args[r.below(len(valid_args))] if valid_args else (ids[0], [])
        kind, a = mutate(r, sid, args)
        if r.chance(1, 5):
            kind2, a = mutate(r, sid, a)
            kind = kind + "+" + kind2
        mut.append((kind, line(sid, a)))
    # `-h` / `--help` in every position of a few valid lines per shape; every truncation of them
    per_shape = {}
    for sid, args in valid_args:
        if per_shape.setdefault(sid, 0) < 3 and args:
            per_shape[sid] += 1
            for p in range(len(args) + 1):
                mut.append(("help-at", line(sid, args[:p] + [r.choice([b"-h", b"--help"])] + args[p:])))
                mut.append(("truncate-at", line(sid, args[:p])))
    for sid in ids:
        mut.append(("empty-list", line(sid, [])))
    return rt, rt_expect, mut


# ------------------------------------------------------------------ the check

def run(ctx):
    ctx.rule = ("shapes = %d declared struct families (required/optional/repeated options, short+long aliases, booleans, positionals, "
                "required/optional/nested subcommands, String/&str/&UnixStr/i32 fields, `-h` shadowing, 100-character option names); "
                "round-trip stream = random admissible assignments rendered under random per-field-order-preserving interleavings and alias "
                "choices; mutation stream = drop/unknown/option-like/help-at-every-position/non-UTF-8/empty/10kB/swap/dup/truncate/token "
                "soup/bad integers; distinct_nontrivial = distinct (shape, stream, mutation kind, outcome class) tuples" % len(SHAPES))
    ctx.assumptions += [
        "Model/Cli.lean describes the code generated by tiny-cli's derives for the declared shape family (checked by this run's "
        "correspondence on the compiled derives; a shape outside the family is covered at model level only)",
        "the subcommand field is declared last in a struct (all shapes of the family); the struct literal then checks it last",
        "the `{:?}` rendering of a non-ASCII unrecognised argument is an input of the model (theorems hold for every rendering); "
        "for ASCII arguments it is modelled (dbgAscii) and compared byte for byte",
        "i32 is the FromStr representative (parseI32 mirrors core's from_str_radix loop; checked by the bad-integer cases)",
    ]
    regenerate()
    ok = C.lean_prove(ctx, "TinyVerif.Props.C20", drivers=["drv_c20"])
    exe, err = C.cargo_build(ctx, "c20")
    if exe is None:
        ctx.broken.append({"harness_build_failed": err})
        ctx.violation({"kind": "harness-build-failed"}, {"error": err}, no_input=True)
        return
    drv = [C.driver_path("drv_c20")]
    n_rt, n_mut = (6000, 9000) if ctx.tier == "quick" else (120000, 200000)
    rt, rt_expect, mut = gen_streams(ctx, n_rt, n_mut)

    # self-test of the oracle: the grammar semantics must accept every rendered assignment as that assignment
    for ln in rt:
        sid, args = case_args(ln)
        if ref_parse(sid, args) != ("ok", rt_expect[ln]):
            ctx.violation({"kind": "oracle-self-test"}, {"case": ln, "expected": rt_expect[ln], "ref_parse": str(ref_parse(sid, args))}, no_input=True)
            break

    def judge_rt(case, out):
        if out == "panic":
            return "panicked"
        return None if out == "ok " + rt_expect[case] else "mis-parse: rendered assignment %s did not parse back" % rt_expect[case][:200]

    C.correspond(ctx, "round-trip", rt, [exe], drv, judge_rt, sig_of)
    mlines = [m[1] for m in mut]
    C.correspond(ctx, "mutations", mlines, [exe], drv, judge, sig_of)

    _, outs, _ = C.run_filter([exe], rt + mlines)
    kinds = ["rt"] * len(rt) + [m[0] for m in mut]
    shown = set()
    for ln, k, o in zip(rt + mlines, kinds, outs):
        sid, args = case_args(ln)
        if o.startswith("ok"):
            cls = "ok"
        elif o.startswith("err"):
            e = ref_parse(sid, args)
            cls = "err:" + (e[2] if e[0] == "err" else "?")
            w = o.split(" ")
            if w[2] != "U" and C.unhex(w[2]) == OVERFLOW:
                cls += ":overflow-fallback"
        else:
            cls = o
        ctx.count((sid, k.split("+")[0], cls))
        ctx.hist("outcomes", cls)
        ctx.hist("mutation_kinds", k.split("+")[0])
        if (k.split("+")[0], cls) not in shown and len(ln) < 300:
            shown.add((k.split("+")[0], cls))
            ctx.sample({"case": ln, "stream": k, "implementation": o}, cap=16)
    ctx.extra["shapes"] = [sid for sid, _ in SHAPES]
    if not ok and not ctx.violations:
        ctx.violation({"kind": "proof-broken"}, {"broken": ctx.broken}, no_input=True)
