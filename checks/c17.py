"""C17 — io_uring rings: exactly-once, in-order hand-over both ways, across the 32-bit index wrap.

Proof: lean/TinyVerif/Props/C17.lean (model Model/Ring.lean, invariant Proofs/RingInv.lean).
Tie:   the real IoUring::{get_next_sqe_slot, flush_submission_queue, get_next_cqe} run over
       harness-owned ring memory (hook IoUring::verif_from_raw_parts, --cfg tiny_std_verif) with a
       simulated kernel side, debug and release builds, against the Lean driver; the judge below is
       an independent FIFO exactly-once oracle on the implementation's outputs."""
import os
import time

from . import common as C
from . import c17_borrow

W = 2 ** 32
SQPOLL, SQE128, CQE32 = 2, 1 << 10, 1 << 11
RUSTFLAGS = "--cfg %s --check-cfg cfg(%s)" % (C.GUARD_CFG, C.GUARD_CFG)
# a target directory of its own: the cfg flag changes rusl's fingerprint, sharing `target/` with
# the flag-less harnesses would make every builder recompile rusl on every run
TARGET = os.path.join(C.HARNESS, "target", "cfg-verif")


def build(ctx, release):
    err = ""
    for attempt in range(4):
        exe, err = C.cargo_build(ctx, "c17", release=release, rustflags=RUSTFLAGS,
                                 extra_env={"CARGO_TARGET_DIR": TARGET})
        if exe is not None:
            return os.path.join(TARGET, "release" if release else "debug", "c17"), ""
        if "failed to load manifest for workspace member" not in err:
            break
        time.sleep(10)      # another builder is half-way through adding a harness crate
    return None, err


# ------------------------------------------------------------------ case generation

def start_counters(size):
    s = [0, 1, 2 ** 31 - 1, 2 ** 31, 2 ** 31 + 1]
    s += [W - k for k in range(1, 2 * size + 1)]
    return s


def gen_ops(r, sqk, cqk, n):
    """biased random interleaving: phases push the rings to full / empty"""
    E, CE = 1 << sqk, 1 << cqk
    ops = []
    stamp = r.range(1, 1000)
    cstamp = r.range(10 ** 6, 2 * 10 ** 6)
    while len(ops) < n:
        ph = r.below(9)
        if ph == 0:        # fill the submission ring to (beyond) full
            for _ in range(E + r.below(2)):
                stamp += 1
                ops.append("g %d" % stamp)
            ops.append("f")
        elif ph == 1:      # drain it
            ops.append("k %d" % r.choice([1, E, E + 1, 2 * E]))
        elif ph == 2:      # fill the completion ring to (beyond) full
            k = CE + r.below(3)
            ops.append("p " + " ".join(str(cstamp + i) for i in range(k)))
            cstamp += k
        elif ph == 3:      # reap all and one more
            ops += ["r"] * r.range(1, CE + 1)
        elif ph == 4:      # below call granularity: reap one, let the kernel post into a (nearly) full ring, read again
            k = CE + r.below(2)
            ops += ["r", ("p " + " ".join(str(cstamp + i) for i in range(k))).strip(), "h"]
            cstamp += k
            if r.chance(1, 2):
                ops += ["k 1", "h", "r", "h"]
        else:              # single random step
            o = r.below(10)
            if o < 3:
                stamp += 1
                ops.append("g %d" % (stamp if r.chance(9, 10) else r.below(2 ** 64)))
            elif o < 5:
                ops.append("f")
            elif o < 7:
                ops.append("r" if r.chance(4, 5) else "h")
            elif o < 8:
                ops.append("k %d" % r.below(E + 2))
            else:
                k = r.below(min(CE, 3) + 2)
                ops.append(("p " + " ".join(str(cstamp + i) for i in range(k))).strip())
                cstamp += k
    return ops[:n]


def directed_cases():
    """for every ring size and every start counter of the property's quantifier: three full cycles
    (fill to full + 1, flush, consume all, post to full + 1, reap all + 1) — crosses the wrap for the
    counters 2^32-k, with the completion ring full"""
    out = []
    for sqk in range(4):
        E = 1 << sqk
        for cqk in (sqk, sqk + 1):
            CE = 1 << cqk
            for fl in (0, SQPOLL | SQE128 | CQE32):
                for c in start_counters(E):
                    ops = []
                    st = 100
                    for _cycle in range(3):
                        for _ in range(E + 1):
                            st += 1
                            ops.append("g %d" % st)
                        ops.append("f")
                        ops.append("k %d" % (E + 1))
                        ops.append("p " + " ".join(str(1000 + st + i) for i in range(CE + 1)))
                        # the first entry is read again after the kernel tried to refill the full ring
                        ops += ["r", "p 77", "h"] + ["r"] * CE + ["h"]
                    out.append("ring %d %d %d %d %d : %s" % (fl, sqk, cqk, c, c, " : ".join(ops)))
    return out


def gen_cases(ctx, n, maxlen):
    r = ctx.rng
    cases = []
    for _ in range(n):
        sqk = r.below(4)
        cqk = r.choice([sqk, sqk + 1, r.below(5)])
        fl = r.choice([0, 0, SQPOLL, SQE128, CQE32, SQE128 | CQE32, SQPOLL | SQE128 | CQE32])
        c = r.choice(start_counters(1 << sqk)) if r.chance(5, 6) else r.below(W)
        cc = r.choice(start_counters(1 << cqk)) if r.chance(5, 6) else r.below(W)
        ops = gen_ops(r, sqk, cqk, r.range(4, maxlen))
        cases.append("ring %d %d %d %d %d : %s" % (fl, sqk, cqk, c, cc, " : ".join(ops)))
    return cases


def malformed_cases(ctx, n):
    r = ctx.rng
    junk = ["ring 0 1 1 0 0 : h 1", "", "ring", "ring 0 1 1 0", "ring 0 11 1 0 0 : g 1", "ring 1 1 1 0 0 : f", "ring 0 1 1 4294967296 0 : f",
            "ring 0 1 1 0 0 : x", "ring 0 1 1 0 0 : g", "ring 0 1 1 0 0 : g -1", "ring 0 1 1 0 0 : k", "ring 0 1 1 0 0 : p a",
            "ring 0 1 1 0 0 : g 18446744073709551616", "ring 4 1 1 0 0 : r", "ring 0 1 1 0 0 : f 1", "rong 0 1 1 0 0 : f"]
    out = list(junk)
    for _ in range(n):
        out.append("ring %d %d %d %d %d : %s" % (r.choice([1, 4, 8, 4096]), r.below(4), r.below(4), r.below(W), r.below(W), "f"))
    return out


# ------------------------------------------------------------------ the property's own oracle

def parse_case(case):
    parts = case.split(" : ")
    hd = parts[0].split()
    fl, sqk, cqk, c, cc = (int(x) for x in hd[1:6])
    return fl, sqk, cqk, c, cc, [p.split() for p in parts[1:]]


def judge_detail(case, out):
    """FIFO exactly-once oracle, unbounded integers, no ring arithmetic: returns (op, why) or None"""
    try:
        fl, sqk, cqk, c, cc, ops = parse_case(case)
    except Exception:
        return None if out == "bad-op" else ("parse", "malformed case accepted")
    toks = out.split()
    if not ops:
        return None if out == "ok" else ("ring", "unexpected output for an empty op list")
    if len(toks) != len(ops):
        return ("run", "got %d outputs for %d ops" % (len(toks), len(ops)))
    E, CE = 1 << sqk, 1 << cqk
    sh = 1 if fl & SQE128 else 0
    filled = []          # (slot, stamp) in the order the application filled them
    published = 0
    consumed = 0
    posted = []          # stamps in the order the kernel posted them
    reaped = 0
    pend = False         # the entry the last get_next_cqe returned still occupies its slot (released by the next call)
    last = None          # its stamp
    for op, t in zip(ops, toks):
        if t == "panic":
            return (op[0], "panicked")
        if op[0] == "g":
            inflight = len(filled) - consumed
            if inflight >= E:
                if t != "sn":
                    return ("g", "slot handed out while all %d entries are in flight" % E)
                continue
            if t == "sn":
                return ("g", "no slot although only %d of %d entries are in flight" % (inflight, E))
            if not (t.startswith("s") and t[1:].isdigit()):
                return ("g", "slot outside the entry array (%s)" % t)
            i = int(t[1:])
            if i >= (E << sh) or i % (1 << sh):
                return ("g", "slot outside the entry array (%s)" % t)
            if i in [s for s, _ in filled[consumed:]]:
                return ("g", "slot %d handed out again before the kernel consumed it" % i)
            filled.append((i, int(op[1])))
        elif op[0] == "f":
            published = len(filled)
            if t != "f%d" % (len(filled) - consumed):
                return ("f", "flush count %s, expected %d unconsumed entries" % (t, len(filled) - consumed))
        elif op[0] == "k":
            n = min(int(op[1]), published - consumed)
            exp = filled[consumed:consumed + n]
            consumed += n
            want = "k:" + (",".join("%d=%d" % e for e in exp) if exp else "-")
            if t != want:
                return ("k", "kernel consumed %s, the application published %s" % (t, want))
        elif op[0] == "p":
            vs = [int(x) for x in op[1:]]
            n = min(len(vs), CE - (len(posted) - (reaped - (1 if pend else 0))))
            # a kernel that sees the held entry's slot as free (the head released before the caller read the entry) posts one
            # more: not this op's failure — the held entry is overwritten then, which `h` reports
            n_early = min(len(vs), CE - (len(posted) - reaped))
            if t == "p%d" % n_early:
                n = n_early
            posted += vs[:n]
            if t != "p%d" % n:
                return ("p", "kernel could post %s, expected %d (free completion slots seen through the shared head)" % (t, n))
        elif op[0] == "h":
            if last is None:
                if t != "cn":
                    return ("h", "reference read %s although get_next_cqe never returned an entry" % t)
            elif pend:
                if t != "c%d" % last:
                    return ("h", "held entry overwritten: the reference get_next_cqe returned for completion c%d reads %s before the next "
                                 "get_next_cqe call (the slot was given back to the kernel while the caller could still read it)" % (last, t))
            elif not (t.startswith("c") and t[1:].isdigit()):
                return ("h", "unexpected output %s" % t)
        elif op[0] == "r":
            pend = False
            if reaped < len(posted):
                if t == "cn":
                    return ("r", "no completion returned although %d posted completions are unreaped" % (len(posted) - reaped))
                if t != "c%d" % posted[reaped]:
                    return ("r", "wrong completion %s, expected c%d (the oldest unreaped one)" % (t, posted[reaped]))
                last = posted[reaped]
                pend = True
                reaped += 1
            elif t != "cn":
                return ("r", "completion %s returned although every posted completion was reaped" % t)
    return None


def judge(case, out):
    if case.startswith("mode "):
        return None
    d = judge_detail(case, out)
    return None if d is None else d[1]


def sig_of(case, out, why):
    d = judge_detail(case, out)
    kind = why
    for pre in ("panicked", "slot handed out while", "no slot although", "slot outside", "slot", "flush count", "kernel consumed",
                "kernel could post", "no completion returned", "wrong completion", "completion", "got", "malformed", "unexpected",
                "held entry overwritten", "reference read"):
        if why.startswith(pre):
            kind = pre
            break
    return {"op": d[0] if d else "?", "kind": kind}


def coverage(ctx, cases, outs):
    for case, out in zip(cases, outs):
        if not case.startswith("ring") or out == "bad-op":
            continue
        fl, sqk, cqk, c, cc, ops = parse_case(case)
        g = sum(1 for o in ops if o[0] == "g")
        toks = out.split()
        nslots = sum(1 for t in toks if t.startswith("s") and t != "sn")
        nposted = sum(int(t[1:]) for t in toks if t.startswith("p") and t[1:].isdigit())
        sq_wrap = c + nslots >= W
        cq_wrap = cc + nposted >= W
        sq_full = "sn" in toks
        cq_full = any(o[0] == "p" and t == "p%d" % k and k < len(o) - 1
                      for o, t in zip(ops, toks) for k in [int(t[1:]) if t[1:].isdigit() else -1])
        ctx.count((sqk, cqk, fl, sq_wrap, cq_wrap, sq_full, cq_full))
        for t in toks:
            ctx.hist("outcomes", t[0] + ("n" if t in ("sn", "cn") else "") if t != "panic" else "panic")
        ctx.hist("wrap", "sq" if sq_wrap else "-")
        ctx.hist("wrap", "cq" if cq_wrap else "-")


def run(ctx):
    ctx.rule = ("cases = op sequences {g v, f, r, h (read again through the last returned reference), k n, p v*} over rings of 1,2,4,8 submission entries (completion ring "
                "same/double/random size, SQPOLL/SQE128/CQE32 flags), counters started at {0,1,2^31-1,2^31,2^31+1,2^32-k for k<=2*size} "
                "or random, phases that drive either ring to full and to empty; a directed stream runs three full cycles for every "
                "(size, start counter); distinct_nontrivial = distinct (sq size, cq size, flags, sq counter wrapped, cq counter "
                "wrapped, sq full seen, cq full seen) classes")
    ctx.assumptions += [
        "Model/Ring.lean (Code.fixed) describes get_next_sqe_slot/flush_submission_queue/get_next_cqe of rusl (checked by this run's "
        "correspondence, debug and release builds, through the cfg(tiny_std_verif) hook IoUring::verif_from_raw_parts)",
        "kernel side as modelled: free-running u32 head/tail, entry index = counter & (entries-1) (<< 1 with SQE128/CQE32), identity "
        "sq_array (as setup_io_uring writes it), the kernel never overwrites an unreaped completion (overflow is kept off-ring)",
        "call granularity: each method call and each kernel step is atomic; since /repo bc63d9e the slot of the entry get_next_cqe returned is "
        "released by the NEXT call, so the entry may be read at any later moment before that (cq_content_held, op `h` of the correspondence)",
        "ring_entries is a power of two and ring_mask = ring_entries-1, as io_uring_setup guarantees",
    ]
    ctx.trusted.append("rustc's borrow checker as the judge of the compile-contract probes (harness/c17/borrow-probes)")
    ctx.trusted.append("simulated kernel side of harness/c17 (40 lines; its behaviour is itself checked by the oracle) and the hook constructor")
    # the API borrow contracts the completion-side theorems assume (type system, not behaviour): compile-contract probes; the
    # outcome becomes Gen/RingBorrow.lean, an input of the Lean build (borrow_contract_holds)
    c17_borrow.probe(ctx)
    ok = C.lean_prove(ctx, "TinyVerif.Props.C17", drivers=["drv_c17"])
    quick = ctx.tier == "quick"
    cases = directed_cases() + gen_cases(ctx, 20000 if quick else 300000, 48 if quick else 160)
    bad = malformed_cases(ctx, 50)
    drv = [C.driver_path("drv_c17")]
    for release in (False, True):
        mode = "release" if release else "debug"
        exe, err = build(ctx, release)
        if exe is None:
            ctx.broken.append({"harness_build_failed": err})
            ctx.violation({"kind": "harness-build-failed", "mode": mode}, {"error": err}, no_input=True)
            return
        C.correspond(ctx, "ring-" + mode, ["mode " + mode] + cases, [exe], drv, judge, sig_of)
        C.correspond(ctx, "malformed-" + mode, bad, [exe], drv,
                     lambda c, o: None if o == "bad-op" else "malformed case accepted",
                     lambda c, o, why: {"op": "parse", "kind": "malformed"})
        # needs_wakeup over every combination of the low flag bits and single high bits
        wakes = ["wake %d" % v for v in sorted(set(list(range(16)) + [1 << k for k in range(32)] + [(1 << k) | 1 for k in range(32)]
                                                     + [0xFFFFFFFF, 0xFFFFFFFE] + [ctx.rng.next() % (1 << 32) for _ in range(40)]))]
        C.correspond(ctx, "wakeup-" + mode, wakes, [exe], drv,
                     lambda c, o: None if o == ("w1" if int(c.split()[1]) & 1 else "w0") else
                     "needs_wakeup() = %s with the SQ flags word %#x (IORING_SQ_NEED_WAKEUP %s): an application following the SQPOLL wake-up protocol %s" % (
                         o, int(c.split()[1]), "set" if int(c.split()[1]) & 1 else "clear",
                         "never wakes the idle kernel thread, its flushed entries are never consumed" if int(c.split()[1]) & 1 else "enters the kernel needlessly"),
                     lambda c, o, why: {"op": "needs_wakeup", "kind": "wrong-answer"})
        # the assumption "identity sq_array, as setup_io_uring writes it", observed on the running kernel
        probes = ["sqarray %d %d" % (e, f) for e in ([1, 2, 3, 8, 64, 100] if quick else [1, 2, 3, 4, 5, 8, 16, 64, 100, 1000, 4096])
                  for f in (0, 1 << 10, 1 << 11)]
        _, pouts, _ = C.run_filter([exe], probes)
        ctx.evaluations += len(probes)
        seen_rings = 0
        for c_, o_ in zip(probes, pouts + ["no-output"] * (len(probes) - len(pouts))):
            if o_.startswith("setup-err"):
                continue            # this kernel / sandbox refuses the ring (or the flag combination)
            w_ = o_.split()
            why = None
            if w_[0] != "arr" or len(w_) != 3:
                why = "no SQ index array observed: " + o_[:80]
            else:
                n_ = int(w_[1])
                got = [int(x) for x in w_[2].split(",")]
                seen_rings += 1
                if got != list(range(n_)):
                    k_ = next(i for i, (x, y) in enumerate(zip(got, range(n_))) if x != y)
                    why = "sq_array[%d] = %d after setup_io_uring (ring of %d entries): submission slot %d hands the kernel SQE %d" % (k_, got[k_], n_, k_, got[k_])
            if why:
                ctx.violation({"op": "setup-sq-array", "kind": why.split(" ")[0]},
                              {"case": c_, "implementation": o_[:300], "why": why, "how_to_replay": "echo '%s' | %s" % (c_, exe)})
        ctx.extra.setdefault("sq_array_probe", {})[mode] = {"probes": len(probes), "rings_created": seen_rings}
        # every pointer / mask / size setup_io_uring stores in the IoUring it returns vs the kernel's io_uring_params offsets
        # (the ring theorems speak about "the SQ tail word", "the SQ flags word", ...: this ties those names to the real ring)
        lflags = [0, 1 << 1, 1 << 3, 1 << 10, 1 << 11, (1 << 10) | (1 << 11), (1 << 1) | (1 << 10)]      # SQPOLL, CQSIZE.., SQE128, CQE32
        lprobes = ["layout %d %d %d" % (e, f, 50 if f & 2 else 0) for e in ([1, 4, 64, 100] if quick else [1, 2, 3, 4, 8, 64, 100, 1000, 4096])
                   for f in lflags if f != 1 << 3]
        _, louts, _ = C.run_filter([exe], lprobes)
        ctx.evaluations += len(lprobes)
        laid = 0
        for c_, o_ in zip(lprobes, louts + ["no-output"] * (len(lprobes) - len(louts))):
            if o_.startswith("setup-err"):
                continue
            if o_.startswith("layout-ok"):
                laid += 1
                continue
            ctx.violation({"op": "setup-layout", "kind": o_.split(" ")[1].split(":")[0] if o_.startswith("layout-bad") else "no-layout"},
                          {"case": c_, "implementation": o_[:400],
                           "why": "setup_io_uring stored a pointer / size that is not the one the kernel's io_uring_params designates: " + o_[:200],
                           "how_to_replay": "echo '%s' | %s" % (c_, exe)})
        ctx.extra.setdefault("setup_layout_probe", {})[mode] = {"probes": len(lprobes), "rings_compared": laid}
        ctx.count(("setup-layout", mode, laid > 0))
        if not release:
            _, outs, _ = C.run_filter([exe], cases)
            coverage(ctx, cases, outs)
            for c_, o_ in list(zip(cases, outs))[:3] + list(zip(cases, outs))[-3:]:
                ctx.sample({"case": c_, "implementation": o_})
    if not ok and not ctx.violations:
        ctx.violation({"kind": "proof-broken"}, {"broken": ctx.broken}, no_input=True)
