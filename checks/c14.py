"""C14 — file-system post-conditions (write/read, copy, create_dir_all, remove_dir_all, directory iteration).

Three runs over the same generated sessions (sandbox /tmp/c14.<seed-derived>A, twin ...B; the harness refuses every
path that would leave them):
  run 1  harness --twin : tiny-std on sandbox A, the equivalent std::fs call on twin B, both trees walked with std::fs
                          after every operation (the independent observer); also yields the kernel's getdents order,
                          which is recorded and fed to the model (environment nondeterminism);
  run 2  harness (plain) vs the Lean model's executable definitions (drv_c14), line by line;
  judge  plain Python: what the property says directly (the tree before the operation is the one observed after the
         previous line; the expected tree is computed here, independently of the Lean model) + agreement with std::fs.
`readdirs` lines: in run 1 a plain readdir (the kernel answers; its records, in its order, are recorded); in run 2 every
getdents64 call of tiny-std's ReadDir is answered by the harness (sc-shim) from those records, re-split by a script chosen
here (gen_split) — the iteration is judged against the script (split_spec) and compared with the model's ReadDir over the
same answers.
A separate malformed stream (symlinked prefixes, `..`, final symlinks, …) goes through run 1 only: never a panic, and a
success must be a success of std::fs with an identical resulting tree."""
import os
from . import common as C

H = C.hexs
SLASH = 0x2F


# ------------------------------------------------------------------ trees (python side: name -> node)
# node = ("d", {name: node}) | ("f", bytes) | ("l", bytes) | ("p",) fifo | ("s",) unix socket | ("c",) char device | ("b",) block device

def parse_dump(s):
    root = {}
    if s.strip() == "-":
        return root
    stack = [root]
    for t in s.split():
        k, body = t[0], t[1:]
        if k == "U":
            stack.pop()
        elif k == "D":
            d = {}
            stack[-1][C.unhex(body)] = ("d", d)
            stack.append(d)
        elif k in "FL":
            n, c = body.split(":")
            stack[-1][C.unhex(n)] = ("f" if k == "F" else "l", C.unhex(c))
        elif k in "PSCB":
            stack[-1][C.unhex(body)] = (k.lower(),)
        else:
            stack[-1][C.unhex(body) if k == "X" else t.encode()] = ("x",)
    return root


def dump_tokens(d):
    out = []
    for n in sorted(d):
        v = d[n]
        if v[0] == "d":
            out.append("D" + H(n))
            out += dump_tokens(v[1])
            out.append("U")
        elif v[0] == "f":
            out.append("F%s:%s" % (H(n), H(v[1])))
        elif v[0] == "l":
            out.append("L%s:%s" % (H(n), H(v[1])))
        elif v[0] in "pscb":
            out.append(v[0].upper() + H(n))
    return out


def dump(d):
    t = dump_tokens(d)
    return " ".join(t) if t else "-"


def clone(d):
    return {n: (("d", clone(v[1])) if v[0] == "d" else v) for n, v in d.items()}


def lookup(root, loc):
    cur = ("d", root)
    for c in loc:
        if cur[0] != "d" or c not in cur[1]:
            return None
        cur = cur[1][c]
    return cur


def without(root, loc):
    """the tree minus everything at and below `loc`"""
    t = clone(root)
    par = lookup(t, list(loc[:-1]))
    if loc and par is not None and par[0] == "d":
        par[1].pop(loc[-1], None)
    return t


def all_locs(d, pre=()):
    for n in sorted(d):
        v = d[n]
        yield pre + (n,), v
        if v[0] == "d":
            yield from all_locs(v[1], pre + (n,))


# ------------------------------------------------------------------ spec: what the property demands (on python trees)

def spec_apply(root, op, loc, arg=None):
    """expected tree after a SUCCESSFUL op; None = the property does not allow success here"""
    t = clone(root)
    if op in ("write", "copy"):
        par = lookup(t, loc[:-1])
        if not loc or par is None or par[0] != "d":
            return None
        old = par[1].get(loc[-1])
        if old is not None and old[0] != "f":
            return None
        par[1][loc[-1]] = ("f", arg)
        return t
    if op == "mkdirall":
        cur = t
        for c in loc:
            if c not in cur:
                cur[c] = ("d", {})
            if cur[c][0] != "d":
                return None
            cur = cur[c][1]
        return t
    if op == "rmall":
        par = lookup(t, loc[:-1])
        if not loc or par is None or par[0] != "d" or loc[-1] not in par[1] or par[1][loc[-1]][0] != "d":
            return None
        del par[1][loc[-1]]
        return t
    return t


DT = {"d": 4, "f": 8, "l": 10, "p": 1, "s": 12, "c": 2, "b": 6}


# ------------------------------------------------------------------ scripted getdents64 answers (readdirs)

def reclen_of(name):
    return (19 + len(name) + 1 + 7) // 8 * 8


def parse_recs(s):
    if s == "-":
        return []
    return [(int(x.split(":")[0][1:]), C.unhex(x.split(":")[1])) for x in s.split(",")]


SPLIT_MODES = ("single", "kernel", "random", "threshold", "one-call-short")


def gen_split(r, recs):
    """(split token, mode, terminator): a partition of the kernel's records into answers that fit 512 bytes, each answer
    non-empty, followed by a terminator: the answer 0, nothing (script ends), an errno, or 0 somewhere in the middle"""
    lens = [reclen_of(n) for _, n in recs]
    mode = r.choice(SPLIT_MODES)
    items, i = [], 0
    thr = r.choice([24, 48, 72, 232, 240, 248, 264, 272, 280, 488])
    while i < len(lens):
        # the most records that fit from i on
        k, tot = 0, 0
        while i + k < len(lens) and tot + lens[i + k] <= 512:
            tot += lens[i + k]
            k += 1
        if mode == "single":
            n = 1
        elif mode == "kernel":
            n = k
        elif mode == "random":
            n = r.range(1, k)
        elif mode == "threshold":            # cut as soon as the answer holds `thr` bytes
            n, tot = 0, 0
            while n < k and tot < thr:
                tot += lens[i + n]
                n += 1
        else:                                # kernel's split, but one record less whenever possible
            n = max(1, k - 1)
        items.append(n)
        i += n
    term = r.choice(["z", "z", "z", "none", "errno", "early", "junk", "overfull"])
    toks = [str(n) for n in items]
    if term == "z":
        toks.append("z")
    elif term == "errno":
        at = r.range(0, len(toks))
        toks = toks[:at] + ["e%d" % r.choice([4, 4, 5, 9, 12])] + toks[at:]
    elif term == "early":
        at = r.range(0, len(toks))
        toks = toks[:at] + ["z"] + toks[at:]
    elif term == "junk":
        toks += ["z", "1", "e5"]
    elif term == "overfull":                 # an answer of 40 records: does not fit 512 bytes unless fewer than 22 are left
        at = r.range(0, len(toks))
        toks = toks[:at] + ["40"] + toks[at:]
    return "g" + ",".join(toks), mode, term


def split_spec(recs, split):
    """what the property demands of the iterator for this script: (yields in order, how the iteration ends)"""
    ys, pos = [], 0
    body = split[1:]
    for x in (body.split(",") if body else []):
        if x == "z":
            return ys, "done"
        if x.startswith("e"):
            return ys, "err:" + x[1:]
        chunk = recs[pos:pos + int(x)]
        pos += int(x)
        tot = sum(reclen_of(n) for _, n in chunk)
        if tot > 512:
            return ys, "err:22"
        if tot == 0:
            return ys, "done"
        ys += chunk
    return ys, "done"


# ------------------------------------------------------------------ generation

class Gen:
    def __init__(self, ctx, sandbox):
        self.r = ctx.rng
        self.ctx = ctx
        self.sb = sandbox

    def name(self, long_ok=True):
        r = self.r
        k = r.below(20)
        if k < 10:
            return r.bytes(r.range(1, 3), b"abcdefgh")
        if k < 13:
            return r.bytes(r.range(4, 20), b"abcdefghijklmnopqrstuvwxyz0123456789_-. ")
        if k < 15:
            n = bytes(x for x in r.bytes(r.range(1, 12)) if x not in (0, SLASH)) or b"\xff"
            return n
        if k < 16:
            return b"." + r.bytes(r.range(1, 4), b"abc.")
        if k < 19 and long_ok:
            return r.bytes(r.choice([255, 255, 254, 200, 128, 100]), b"LMNOPQ\xc3\xa9\xfe")
        return r.bytes(r.range(1, 6), b"xyz")

    def valid(self, n):
        return n not in (b".", b"..") and 1 <= len(n) <= 255 and SLASH not in n and 0 not in n

    def tree(self, depth, fan, wide=0, long_ok=True):
        r = self.r
        d = {}
        n_entries = wide if wide else r.below(fan + 1)
        for i in range(n_entries):
            if wide:
                nm = (b"w%d_" % i) + (r.bytes(r.choice([0, 0, 3, 40, 240]), b"0123456789abcdef\x80\xff"))
                nm = nm[:255]
            else:
                nm = self.name(long_ok)
            if not self.valid(nm) or nm in d:
                continue
            k = r.below(12)
            if k == 10:
                d[nm] = ("s",)
            elif k == 11:
                d[nm] = (r.choice("cb"),)
            elif k < 4:
                d[nm] = ("f", r.bytes(r.choice([0, 1, 3, 10, 40])))
            elif k < 7 and depth > 0:
                d[nm] = ("d", self.tree(depth - 1, fan, 0, long_ok) if not wide or r.chance(1, 20) else {})
            elif k < 8:
                d[nm] = ("p",)
            elif k < 9:
                d[nm] = ("l", r.choice([b"nowhere", b"../" * 0 + b"tgt_file", b"tgt_dir", b"tgt_dir/inner"]))
            else:
                d[nm] = ("f", r.bytes(r.below(200)))
        return d

    def session_tree(self, wide=0, long_ok=True):
        t = self.tree(self.r.range(1, 5), self.r.choice([2, 3, 5]), 0, long_ok)
        # fixed link targets at the top (so links inside sub-trees point at something observable outside them)
        t[b"tgt_file"] = ("f", b"target-content")
        t[b"tgt_dir"] = ("d", {b"inner": ("d", {b"deep": ("f", b"x")}), b"f": ("f", b"keep")})
        # node kinds beyond file/dir/symlink/fifo, at the top and inside the tree that gets removed
        t[b"tgt_sock"] = ("s",)
        t[b"tgt_blk"] = ("b",)
        t[b"tgt_chr"] = ("c",)
        if wide:
            t[b"wide"] = ("d", self.tree(1, 0, wide))
        # sub-trees whose links point up and out
        sub = self.tree(2, 3, 0, long_ok)
        sub[b"up_file"] = ("l", b"../tgt_file")
        sub[b"up_dir"] = ("l", b"../tgt_dir")
        sub[b"dangling"] = ("l", b"../missing")
        sub[b"dd"] = ("d", {b"up2": ("l", b"../../tgt_dir"), b"ff": ("p",), b"g": ("f", b"g"), b"sk": ("s",), b"bd": ("b",),
                            b"cd": ("c",), b"up_sock": ("l", b"../../tgt_sock")})
        t[b"victim"] = ("d", sub)
        return t

    def shape(self, loc, trailing_ok):
        """bytes of a path naming `loc` (components from the sandbox root) + its shape features"""
        r = self.r
        absolute = r.chance(1, 3) or not loc        # the sandbox root itself is only named absolutely
        rep = r.chance(1, 3)
        trail = trailing_ok and r.chance(1, 3)
        seps = []
        for _ in range(len(loc)):
            seps.append(b"/" * (r.choice([2, 2, 3, 5]) if rep and r.chance(1, 2) else 1))
        body = b""
        for i, c in enumerate(loc):
            body += (seps[i] if i > 0 else b"") + c
        prefix = (self.sb + (b"/" * (r.choice([1, 1, 2])))) if absolute else b""
        if absolute and not loc:
            prefix = self.sb
        p = prefix + body
        if trail:
            p += b"/" * r.choice([1, 1, 2])
        pad = r.below(12)
        target = None
        if pad == 0:
            target = r.choice([510, 511, 512, 513, 514, 600])
        elif pad == 1:
            target = r.choice([4093, 4094, 4095, 4096, 4097, 3000])
        if target and len(loc) >= (2 if not absolute else 1) and len(p) < target:
            # stretch one separator with extra slashes
            extra = target - len(p)
            if absolute:
                p = prefix + b"/" * extra + body + (p[len(prefix) + len(body):])
            else:
                i = p.index(b"/")
                p = p[:i] + b"/" * extra + p[i:]
        return p, (absolute, rep, trail, 0 if len(p) <= 512 else (1 if len(p) < 4096 else 2))

    def pick(self, tree, pred):
        c = [(l, v) for l, v in all_locs(tree) if pred(l, v)]
        return self.r.choice(c) if c else None

    @staticmethod
    def clean(tree, loc):
        """no component of loc (but possibly the last) is a symlink / non-dir obstacle of the unmodelled kind"""
        cur = ("d", tree)
        for c in loc[:-1]:
            if cur[0] != "d" or c not in cur[1]:
                return True   # missing / file prefix: ENOENT / ENOTDIR, modelled
            cur = cur[1][c]
            if cur[0] == "l":
                return False
        return True

    def ops(self, tree, n, wide=False):
        """main-stream ops on a python prediction of the tree (spec semantics)"""
        r = self.r
        out = []
        cur = clone(tree)
        for _ in range(n):
            k = r.below(110)
            line = None
            if k >= 100:    # metadata / exists: any kind of node, missing paths, below a non-directory
                kind = r.below(10)
                x = self.pick(cur, lambda l, v: v[0] != "l" and (kind < 5 or v[0] in "scbp") and self.clean(cur, l))
                loc = x[0] if x else (b"tgt_sock",)
                if kind == 8:
                    loc = loc + (self.name(False),)
                elif kind == 9:
                    loc = (self.name(False),)
                if not all(self.valid(c) for c in loc) or not self.clean(cur, loc) or (lookup(cur, loc) or ("f",))[0] == "l":
                    continue
                p, sh = self.shape(loc, r.chance(1, 4))
                n = lookup(cur, loc)
                line = ("meta %s" % H(p), "meta", loc, None, sh, "node:" + (n[0] if n else "-"))
            elif k < 22:      # write
                kind = r.below(10)
                if kind < 4:
                    x = self.pick(cur, lambda l, v: v[0] == "f" and self.clean(cur, l))
                    loc = x[0] if x else (b"nf",)
                elif kind < 8:
                    x = self.pick(cur, lambda l, v: v[0] == "d" and self.clean(cur, l + (b"x",)))
                    loc = (x[0] if x else ()) + (self.name(),)
                elif kind < 9:
                    # write onto a directory / onto a socket (cannot be opened: ENXIO)
                    x = self.pick(cur, lambda l, v: v[0] in ("ds" if r.chance(1, 2) else "d") and self.clean(cur, l))
                    loc = x[0] if x else (b"tgt_dir",)
                else:
                    loc = (self.name(False), self.name(False))           # missing parent (mostly)
                if not self.valid(loc[-1]) or not self.clean(cur, loc) or (lookup(cur, loc) or ("f",))[0] in "lpcb":
                    continue
                data = r.bytes(r.choice([0, 1, 5, 5, 64, 700]))
                p, sh = self.shape(loc, r.chance(1, 12))
                sc = ""
                if r.chance(1, 3) and data:
                    sc = " s" + ",".join(str(r.choice([1, 2, 3, 100, 0])) for _ in range(r.range(1, 4)))
                line = ("write %s %s%s" % (H(p), H(data), sc), "write", loc, data, sh)
            elif k < 30:    # read
                x = self.pick(cur, lambda l, v: v[0] in "fds" and self.clean(cur, l))
                loc = x[0] if x and r.chance(9, 10) else (self.name(False),)
                if not self.clean(cur, loc) or (lookup(cur, loc) or ("f",))[0] in "lpcb":
                    continue
                p, sh = self.shape(loc, False)
                line = ("read %s" % H(p), "read", loc, None, sh)
            elif k < 52:    # copy
                s = self.pick(cur, lambda l, v: v[0] == "f" and self.clean(cur, l))
                if not s:
                    continue
                kind = r.below(10)
                if r.chance(1, 12):         # a socket as the source: the open fails, nothing may change
                    sk = self.pick(cur, lambda l, v: v[0] == "s" and self.clean(cur, l))
                    if sk:
                        p1, _ = self.shape(sk[0], False)
                        p2, sh2 = self.shape((b"cp_from_sock",), False)
                        out.append(("copy %s %s" % (H(p1), H(p2)), "copy", (b"cp_from_sock",), sk[0], sh2, "absent"))
                        continue
                if kind < 5:
                    d = self.pick(cur, lambda l, v: v[0] == "f" and self.clean(cur, l) and l != s[0])
                    dloc = d[0] if d else (b"cp_new",)
                elif kind < 9:
                    d = self.pick(cur, lambda l, v: v[0] == "d" and self.clean(cur, l + (b"x",)))
                    dloc = (d[0] if d else ()) + (self.name(),)
                else:
                    d = self.pick(cur, lambda l, v: v[0] in "ds" and self.clean(cur, l))    # onto a directory / a socket
                    dloc = d[0] if d else (b"tgt_dir",)
                if dloc == s[0] or not self.valid(dloc[-1]) or (lookup(cur, dloc) or ("f",))[0] in "lpcb":
                    continue
                ps, sh1 = self.shape(s[0], False)
                pd, sh2 = self.shape(dloc, False)
                sc = ""
                if r.chance(1, 2) and s[1][1]:
                    # per-call transferred counts of copy_file_range (environment): a few short steps, or the whole file in short steps
                    if r.chance(1, 3):
                        step = r.choice([1, 2, 3, 7])
                        sc = " s" + ",".join(str(step) for _ in range(len(s[1][1]) // step + 2))
                    else:
                        sc = " s" + ",".join(str(r.choice([1, 2, 3, 100, 0])) for _ in range(r.range(1, 4)))
                line = ("copy %s %s%s" % (H(ps), H(pd), sc), "copy", dloc, s[0], sh2)
                prior = lookup(cur, dloc)
                line = line + (("absent" if prior is None else ("dir" if prior[0] == "d" else "socket" if prior[0] == "s" else
                               ("longer" if len(prior[1]) > len(s[1][1]) else ("shorter" if len(prior[1]) < len(s[1][1]) else "equal")))),)
            elif k < 78:    # mkdirall
                kind = r.below(10)
                base = self.pick(cur, lambda l, v: v[0] == "d" and self.clean(cur, l + (b"x",)))
                bl = base[0] if base and kind < 8 else ()
                if kind == 8:
                    # something that is not a directory in the way (as the last or as an inner component): a regular file, a
                    # socket, a fifo, a character or block device
                    want = r.choice(["f", "s", "s", "b", "b", "c", "p"])
                    f = self.pick(cur, lambda l, v: v[0] == want and self.clean(cur, l)) or \
                        self.pick(cur, lambda l, v: v[0] in "fscbp" and self.clean(cur, l))
                    bl = f[0] if f else ()
                newc = tuple(self.name(r.chance(1, 6)) for _ in range(r.choice([0, 1, 1, 2, 3, 6])))
                if kind == 9:
                    newc = tuple(r.bytes(255, b"Zz") for _ in range(r.choice([14, 15, 16])))   # near PATH_MAX
                loc = bl + newc
                if not loc or not all(self.valid(c) for c in loc) or not self.clean(cur, loc + (b"x",)):
                    continue
                if (lookup(cur, loc) or ("d",))[0] == "l":
                    continue
                p, sh = self.shape(loc, True)
                obstacle = "none"
                for i in range(1, len(loc) + 1):
                    n = lookup(cur, loc[:i])
                    if n is None:
                        break
                    if n[0] != "d":
                        obstacle = n[0] + ("-last" if i == len(loc) else "-inner")
                        break
                line = ("mkdirall %s" % H(p), "mkdirall", loc, None, sh, "obstacle:" + obstacle)
            elif k < 90:    # rmall
                kind = r.below(10)
                if kind < 8:
                    x = self.pick(cur, lambda l, v: v[0] == "d" and self.clean(cur, l))
                elif kind < 9:
                    x = self.pick(cur, lambda l, v: v[0] in "fs" and self.clean(cur, l))    # a regular file / a socket
                else:
                    x = ((self.name(False),), None)
                if not x or not self.clean(cur, x[0]):
                    continue
                if wide and x[0][:1] in ((b"wide",), (b"tgt_dir",)) and r.chance(2, 3):
                    continue
                p, sh = self.shape(x[0], True)
                line = ("rmall %s" % H(p), "rmall", x[0], None, sh)
            else:           # readdir
                x = self.pick(cur, lambda l, v: v[0] == "d" and self.clean(cur, l))
                loc = x[0] if x and r.chance(5, 6) else ()
                p, sh = self.shape(loc, True)
                if not p:
                    continue
                line = ("%s %s" % (r.choice(["readdir", "readdirs"]), H(p)), "readdir", loc, None, sh)
                line = (line[0], line[0].split()[0]) + line[2:]
            if line is None:
                continue
            out.append(line)
            if line[1] in ("write", "copy", "mkdirall", "rmall") and len(line[0].split()[1]) // 2 < 4096:
                a3 = line[3]
                if line[1] == "copy":
                    a3 = (lookup(cur, a3) or ("f", b""))[1]
                nxt = spec_apply(cur, line[1], list(line[2]), a3)
                if nxt is not None:
                    cur = nxt
        return out


# ------------------------------------------------------------------ judge

def save_session(lines, upto, tag):
    """write the session containing line `upto` (from its `tree` line, prefixed by the `init` line) as a replay script"""
    start = upto
    while start > 0 and not lines[start].startswith("tree"):
        start -= 1
    init = next((l for l in lines if l.startswith("init ")), "")
    os.makedirs(C.REPLAYS, exist_ok=True)
    path = os.path.join(C.REPLAYS, "C14-session-%s.txt" % tag)
    with open(path, "w") as f:
        f.write("\n".join([init] + lines[start:upto + 1] + ["end"]) + "\n")
    return path


def okclass(res):
    return res.split()[0] if res else "?"


class Judge:
    """stateful (lines are judged in order): tree before = tree observed after the previous line"""

    def __init__(self, ctx, metas, twin, lines, exe, unknown=False):
        self.ctx, self.metas, self.twin, self.lines, self.exe = ctx, metas, twin, lines, exe
        self.unknown = unknown      # the sandbox lives on a file system whose getdents64 reports DT_UNKNOWN for every entry
        self.i = -1
        self.pre = {}
        self.poisoned = False
        self.diverged = False       # twin B no longer equals A (different partial effects of a failed op)

    def __call__(self, case, out):
        self.i += 1
        meta = self.metas[self.i]
        tw = self.twin[self.i]
        w = case.split()
        op = w[0]
        if op in ("init", "end"):
            self.pre, self.poisoned = {}, False
            return None if out == "ok" else "setup failed: " + out[:60]
        if op == "opts":
            return None
        parts = [x.strip() for x in tw.split(" | ")]
        if op == "tree":
            self.poisoned = False
            self.diverged = False
            if len(parts) < 2 or parts[0] != "ok":
                self.poisoned = True
                return None
            self.pre = parse_dump(parts[1])
            return None
        if len(parts) != 4:
            if tw == "bad-op":
                return None
            return "unexpected harness output: " + tw[:80]
        res, dump_a, std, dump_b = parts
        std = std[4:] if std.startswith("std=") else std
        scripted = None
        if op == "readdirs":
            # twin run: the kernel answers (a plain readdir); this run: the harness answers from the script
            scripted = out.split(" | ")[0]
            if out.split(" | ")[1:] != [dump_a]:
                return "readdirs changed the tree"
            op = "readdir"
        elif out.split(" | ")[0] != res and not res.startswith("order-drift"):
            return "implementation not deterministic between the two runs: %s / %s" % (res[:40], out[:40])
        pre = self.pre
        post = parse_dump(dump_a)
        self.pre = post
        if self.poisoned:
            return None
        why = self.judge_op(op, meta, res, std, pre, post, dump_a, dump_b)
        if scripted is not None and not why:
            why = self.judge_split(w, scripted, pre, list(meta[2]))
        if dump_b != "same" and not why:
            # only reachable after a failure on both sides with different partial effects: stop comparing with the twin
            self.diverged = True
            self.ctx.hist("twin_diverged_after_failed", op)
        if why:
            self.poisoned = True
            path = save_session(self.lines, self.i, "%s-%d" % (op, self.i))
            why += " [tiny-std: %s; std::fs: %s; replay: %s --twin < %s]" % (res[:40], std[:40], self.exe, path)
        return why

    def judge_op(self, op, meta, res, std, pre, post, dump_a, dump_b):
        if res.startswith("panic"):
            return "panicked"
        rc, sc = okclass(res), okclass(std)
        _, kind, loc, arg, shape = meta[:5]
        loc = list(loc)
        if op == "copy":                     # arg = location of the source: its content as observed before the op
            n = lookup(pre, arg)
            arg = n[1] if n is not None and n[0] == "f" else None
        if rc == "ok":
            if op in ("write", "copy", "mkdirall", "rmall"):
                exp = spec_apply(pre, op, loc, arg) if not (op == "copy" and arg is None) else None
                if exp is None:
                    return "%s succeeded where the property allows no success" % op
                if dump(exp) != dump_a:
                    return self.explain(op, loc, arg, pre, post)
            elif dump(pre) != dump_a:
                return "%s changed the tree" % op
            if op == "write" and res != "ok read=" + H(arg):
                return "write: read returns something else than the bytes written"
            if op == "meta" and meta[0].split()[1] == "-":
                # known finding: rusl::unistd::stat always passes AT_EMPTY_PATH, the empty path names the working directory
                return "metadata: Ok for the empty path where std::fs answers ENOENT, it describes the working directory (%s)" % res[3:]
            if op == "meta":
                n = lookup(pre, loc)
                if n is None:
                    return "metadata: Ok for a path at which nothing exists"
                if shape and shape[2] and n[0] != "d":
                    return "metadata: Ok for a non-directory named with a trailing separator"
                want = "ok dfl=%d%d0 len=%s ex=1" % (n[0] == "d", n[0] == "f", len(n[1]) if n[0] == "f" else "-")
                if res != want:
                    return "metadata: is_dir/is_file/is_symlink/len/exists (%s) do not describe the %s at the path (%s)" % (
                        res[3:], {"d": "directory", "f": "regular file", "p": "fifo", "s": "socket", "c": "character device",
                                  "b": "block device"}.get(n[0], n[0]), want[3:])
            if op == "read":
                n = lookup(pre, loc)
                if n is None or n[0] != "f" or res != "ok " + H(n[1]):
                    return "read: returned bytes differ from the file's content"
            if op == "readdir":
                f = dict(x.split("=", 1) for x in res.split()[1:])
                n = lookup(pre, loc)
                if n is None or n[0] != "d":
                    return "readdir: iterated something that is not a directory"
                want = sorted([(4, b"."), (4, b"..")] + [(DT[v[0]], nm) for nm, v in n[1].items()])
                ys = [] if f["yields"] == "-" else [(int(y.split(":")[0][1:]), C.unhex(y.split(":")[1])) for y in f["yields"].split(",")]
                if self.unknown:
                    # the kernel did not say: FileType::Unknown (0) is the honest answer; a definite type must be the right one
                    exact = {nm: t for t, nm in want}
                    ys = [(exact[nm] if t == 0 and nm in exact else t, nm) for t, nm in ys]
                if sorted(ys) != want:
                    names = [y[1] for y in ys]
                    if len(set(names)) != len(names):
                        return "readdir: an entry was yielded twice"
                    if set(names) != set(x[1] for x in want):
                        return "readdir: entries missing or invented (%d yielded, %d present)" % (len(ys), len(want))
                    return "readdir: wrong type for an entry"
                rel = f.get("rel", "")
                if any((c == "1") != (y[1] in (b".", b"..")) for c, y in zip(rel, ys)):
                    return "readdir: is_relative_reference wrong"
            if op == "meta" and sc == "ok" and res != std and not self.diverged:
                return "metadata: predicates differ from std::fs (%s)" % std[3:]
            if self.diverged:
                return None
            if sc != "ok" and std.startswith("err 36") and len(C.unhex(meta[0].split()[1])) >= 3800:
                # std::fs gives up with ENAMETOOLONG near PATH_MAX where tiny-std (and the kernel) still succeed; the
                # direct check above has already passed — counted, and the twin is no reference from here on
                self.ctx.hist("std_enametoolong_near_path_max", op)
                self.diverged = True
                return None
            if sc != "ok":
                return "%s: Ok where std::fs fails (%s)" % (op, std[:20])
            if dump_b != "same":
                return "%s: resulting tree differs from std::fs on the twin" % op
            return None
        # failure: nothing the property forbids by itself — except damage: a failed remove_dir_all may have removed part of the tree
        # it was given, never anything outside it (what links inside the tree point to included)
        if op == "rmall" and rc == "err" and loc:
            a, b = without(pre, loc), without(post, loc)
            if dump(a) != dump(b):
                gone = [l for l, v in all_locs(a) if lookup(b, l) is None]
                return "rmall: failed and damaged what lies OUTSIDE the tree it was given (%s)" % (
                    ("gone: " + b"/".join(gone[0]).decode("latin1")) if gone else "changed")
        if self.unknown and op == "rmall" and res == "err 21" and sc == "ok":
            # on a DT_UNKNOWN mount every entry is FileType::Unknown, `.` goes to the plain unlinkat: EISDIR.  Allowed to fail.
            self.ctx.hist("dtype_unknown_rmall", "EISDIR, nothing outside touched")
            return None
        # ... and it must be a failure of std::fs as well
        if rc == "err" and sc == "ok" and not self.diverged:
            return "%s: Err(%s) where std::fs succeeds" % (op, res.split()[1] if len(res.split()) > 1 else "?")
        return None

    def judge_split(self, w, res, pre, loc):
        """iteration over scripted getdents64 answers: every record of the answers received, exactly once, in order, with its
        exact type and name; then the end the script dictates (None / that error once); then None for every further call"""
        if len(w) != 4:
            return None
        if res.startswith("panic"):
            return "readdirs: panicked"
        if res.startswith("order-drift"):
            self.ctx.hist("readdirs_order_drift", "1")
            return None
        n = lookup(pre, loc)
        if n is None or n[0] != "d":
            return None if not res.startswith("ok") else "readdirs: iterated something that is not a directory"
        recs = parse_recs(w[2])
        want = sorted([(4, b"."), (4, b"..")] + [(DT[v[0]], nm) for nm, v in n[1].items()])
        if self.unknown:
            if sorted(nm for _, nm in recs) != sorted(nm for _, nm in want) or any(t != 0 for t, _ in recs):
                return None
        elif sorted(recs) != want:
            return None            # the recorded kernel order does not describe this directory: no evidence
        exp, end = split_spec(recs, w[3])
        if not res.startswith("ok "):
            return "readdirs: %s where the script ends with %s after %d entries" % (res[:20], end, len(exp))
        f = dict(x.split("=", 1) for x in res.split()[1:])
        ys = parse_recs(f.get("yields", "-"))
        if ys != exp:
            names, enames = [y[1] for y in ys], [y[1] for y in exp]
            if len(set(names)) != len(names):
                return "readdirs: an entry was yielded twice"
            if names == enames:
                return "readdirs: wrong type for an entry"
            if sorted(names) == sorted(enames):
                return "readdirs: entries yielded out of order"
            return "readdirs: entries missing or invented (%d yielded, %d received from getdents64)" % (len(ys), len(exp))
        if f.get("end") != end:
            return "readdirs: iteration ended with %s, the script ends with %s" % (f.get("end"), end)
        if f.get("more") != "d,d,d":
            return "readdirs: an item after the end of the iteration (%s)" % f.get("more")
        rel = f.get("rel", "")
        if any((c == "1") != (y[1] in (b".", b"..")) for c, y in zip(rel, ys)):
            return "readdirs: is_relative_reference wrong"
        return None

    @staticmethod
    def explain(op, loc, arg, pre, post):
        n = lookup(post, loc)
        if op in ("write", "copy"):
            if n is None or n[0] != "f":
                return "%s: destination is not a regular file afterwards" % op
            if n[1] != arg:
                old = lookup(pre, loc)
                if op == "copy" and old and old[0] == "f" and len(old[1]) > len(arg) and n[1] == arg + old[1][len(arg):]:
                    return "copy: destination keeps the tail of its previous content"
                return "%s: destination content differs from the given bytes" % op
            return "%s: something else than the destination changed" % op
        if op == "mkdirall":
            if n is None or n[0] != "d":
                return "mkdirall: Ok but the directory does not exist"
            return "mkdirall: existing content changed"
        if op == "rmall":
            if n is not None:
                return "rmall: Ok but the tree is still there"
            return "rmall: something outside the tree changed"
        return "tree differs"


def sig_of(case, out, why):
    return {"op": case.split()[0], "kind": why.split(" [")[0].split(":", 1)[-1].strip().split("(")[0].strip()[:60]}


# ------------------------------------------------------------------ malformed stream

def malformed_session(g):
    r = g.r
    t = g.session_tree(0, False)
    t[b"ld"] = ("l", b"tgt_dir")
    t[b"lf"] = ("l", b"tgt_file")
    t[b"lx"] = ("l", b"missing")
    t[b"lup"] = ("l", b"victim/dd/..")
    t[b"lsk"] = ("l", b"tgt_sock")          # symlinks to a socket / a block device / a character device: stat follows them
    t[b"lbd"] = ("l", b"tgt_blk")
    t[b"lcd"] = ("l", b"tgt_chr")
    lines = ["tree " + " ".join(dump_tokens(t))]
    comps_pool = [b"lsk", b"lbd", b"lcd", b"tgt_sock", b"tgt_blk", b"sk", b"up_sock", b"ld", b"lf", b"lx", b"lup", b"..", b".", b"tgt_dir", b"tgt_file", b"victim", b"dd", b"inner", b"missing",
                  b"up_dir", b"up_file", b"dangling", b"f", b"n1", b"n2", b"", b"up2"]
    for _ in range(r.range(25, 50)):
        cs = [r.choice(comps_pool) for _ in range(r.range(1, 5))]
        p = b"/".join(cs)
        if r.chance(1, 4):
            p = g.sb + b"/" + p
        if r.chance(1, 5):
            p += b"/"
        op = r.choice(["write", "read", "copy", "mkdirall", "mkdirall", "mkdirall", "rmall", "readdir", "meta", "meta"])
        if op == "mkdirall" and cs[-1] in (b".", b""):
            # std::fs::create_dir_all("x/new/.") fails with ENOENT (it never creates `new`), tiny-std creates it: not compared
            cs[-1] = b"n1"
            p = b"/".join(cs)
        if op == "write":
            lines.append("write %s %s" % (H(p), H(r.bytes(r.below(8)))))
        elif op == "copy":
            q = b"/".join(r.choice(comps_pool) for _ in range(r.range(1, 4)))
            lines.append("copy %s %s" % (H(p), H(q)) if r.chance(1, 2) else "copy %s %s" % (H(q), H(p)))
        else:
            lines.append("%s %s" % (op, H(p)))
    return lines


def run_malformed(ctx, exe, sandbox, n_sessions):
    g = Gen(ctx, sandbox)
    lines = ["init " + H(sandbox)]
    for _ in range(n_sessions):
        lines += malformed_session(g)
    lines.append("end")
    rc, outs, err = C.run_filter([exe, "--twin"], lines, timeout=900)
    ctx.evaluations += len(lines)
    st = ctx.extra.setdefault("streams", {})
    st["malformed"] = {"cases": len(lines), "refused_by_guard": 0, "stricter_than_std": 0, "spec_failures": 0}
    if len(outs) != len(lines):
        ctx.violation({"stream": "malformed", "kind": "impl-crash"}, {"case": lines[len(outs)] if len(outs) < len(lines) else None,
                                                                       "stderr": err.splitlines()[-5:]})
        return
    poisoned = False
    for idx, (c, o) in enumerate(zip(lines, outs)):
        op = c.split()[0]
        if op == "tree":
            poisoned = False
        if o == "bad-op":
            st["malformed"]["refused_by_guard"] += 1
            continue
        parts = [x.strip() for x in o.split(" | ")]
        if len(parts) != 4 or poisoned or op == "tree":
            continue
        res, _, std, twin = parts
        std = std[4:]
        why = None
        if res.startswith("panic"):
            why = "panicked"
        elif op == "meta" and c.split()[1] == "-":
            ctx.hist("known_meta_empty_path_is_cwd", okclass(res) + "/" + okclass(std))      # known finding, reported by the main stream
        elif okclass(res) == "ok" and okclass(std) != "ok":
            why = "%s: Ok where std::fs fails" % op
        elif okclass(res) == "ok" and twin != "same":
            why = "%s: resulting tree differs from std::fs on the twin" % op
        elif op == "meta" and okclass(res) == "ok" and res != std:
            why = "meta: predicates differ from std::fs (%s / %s)" % (res[3:], std[3:])
        elif okclass(res) == "err" and okclass(std) == "ok":
            st["malformed"]["stricter_than_std"] += 1
            ctx.hist("malformed_stricter", op)
        if not why and twin != "same":
            poisoned = True       # different partial effects of a failed op: the twin is no reference any more
        ctx.hist("malformed_outcomes", "%s:%s/%s" % (op, okclass(res), okclass(std)))
        if why:
            poisoned = True
            st["malformed"]["spec_failures"] += 1
            ctx.violation({"op": op, "stream": "malformed", "kind": why.split(":", 1)[-1].strip()},
                          {"stream": "malformed", "case": c, "implementation": o[:400], "why": why,
                           "how_to_replay": "%s --twin < %s" % (exe, save_session(lines, idx, "malformed-%d" % idx))})


# ------------------------------------------------------------------ run

def run_unknown_mount(ctx, exe, drv, thorough):
    """the same streams on a file system whose getdents64 reports DT_UNKNOWN for every entry: a 16 MiB ext2 image made without
    the `filetype` feature, loop-mounted inside a PRIVATE mount namespace of the harness process (`unshare -m`): the mount and
    its loop device (autoclear) disappear with that process, whatever happens to this check."""
    import shutil
    key = "dtype_unknown_mount"
    if os.geteuid() != 0:
        ctx.extra[key] = "not runnable here: not root"
        return
    missing = [t for t in ("mke2fs", "mount", "unshare", "sh") if not shutil.which(t)]
    if missing:
        ctx.extra[key] = "not runnable here: no " + ", ".join(missing)
        return
    base = "/tmp/c14.%08x.%d" % (ctx.rng.below(2**32), os.getpid())
    img, mnt = base + ".img", base + ".mnt"
    try:
        os.makedirs(mnt, exist_ok=True)
        with open(img, "wb") as f:
            f.truncate(16 << 20)
        # ^dir_index: a linear directory (`.`, `..`, then creation order), the order the model's directory stream has
        rc, out = C.sh(["mke2fs", "-q", "-t", "ext2", "-O", "^filetype,^dir_index", img])
        if rc != 0:
            ctx.extra[key] = "not runnable here: mke2fs failed: " + out.strip()[-200:]
            return
        wrap = ["unshare", "-m", "sh", "-c", 'mount -o loop "$1" "$2" </dev/null && shift 2 && exec "$@"', "sh", img, mnt]
        sandbox = (mnt + "/sA").encode()
        g = Gen(ctx, sandbox)
        probe = ["init " + H(sandbox), "tree D6161 U F6262:- L6363:6262", "readdir " + H(sandbox), "end"]
        rc, outs, err = C.run_filter(wrap + [exe], probe, timeout=120)
        if len(outs) != len(probe) or not outs[2].startswith("ok recs="):
            ctx.extra[key] = "not runnable here: loop mount failed: " + (err.strip().splitlines() or ["?"])[-1][:200]
            return
        recs = parse_recs(outs[2].split()[1][5:])
        if any(t != 0 for t, _ in recs):
            ctx.extra[key] = "not runnable here: the mounted ext2 fills in d_type (%s)" % outs[2].split()[1][:60]
            return
        ctx.extra[key] = ("ext2 image (mke2fs -O ^filetype,^dir_index) loop-mounted in a private namespace; probe: getdents64 d_type = "
                          "DT_UNKNOWN for all %d records (%s)" % (len(recs), outs[2].split()[1][5:]))
        flat = (False, False, False, 0)
        metas = [("init " + H(sandbox), "init", (), None, None)]
        for s_ in range(24 if not thorough else 120):
            t = g.session_tree(0, long_ok=(s_ % 3 == 0))
            t[b"onlylinks"] = ("d", {b"l1": ("l", b"../tgt_dir"), b"l2": ("l", b"../tgt_file"), b"l3": ("l", b"../nothing")})
            metas.append(("tree " + " ".join(dump_tokens(t)), "tree", (), None, None))
            # (the judge stops judging a session at its first failure: every other session goes to remove_dir_all without
            #  having iterated the directories, so that a wrong type and damage outside the tree are reported separately)
            for loc in ((b"victim",), (b"victim", b"dd"), (b"onlylinks",), ()) if s_ % 2 == 0 else ():
                p = b"/".join(loc) if loc else sandbox
                metas.append(("readdir " + H(p), "readdir", loc, None, flat))
                metas.append(("readdirs " + H(p), "readdirs", loc, None, flat))
            for p_, loc in ((b"victim/dd/ff/x", (b"victim", b"dd", b"ff", b"x")), (b"victim/dd/sk/", (b"victim", b"dd", b"sk")),
                            (b"tgt_blk", (b"tgt_blk",)), (b"victim/dd/new/dir/", (b"victim", b"dd", b"new", b"dir"))):
                metas.append(("mkdirall " + H(p_), "mkdirall", loc, None, flat, "obstacle:unknown-mount"))
            if s_ % 2 == 0:
                metas += g.ops(t, 8 if not thorough else 20)
            # last (a failed remove_dir_all leaves the twin behind): trees holding links to directories / files outside them
            for loc in ((b"onlylinks",), (b"victim", b"dd"), (b"victim",)):
                metas.append(("rmall " + H(b"/".join(loc)), "rmall", loc, None, flat))
        metas.append(("end", "end", (), None, None))
        lines = [m[0] for m in metas]
        rc, twin, errtxt = C.run_filter(wrap + [exe, "--twin"], lines, timeout=900)
        if len(twin) != len(lines):
            idx = len(twin)
            ctx.violation({"stream": "fs-dtype-unknown", "kind": "impl-crash"},
                          {"case": lines[idx][:300] if idx < len(lines) else None, "impl_rc": rc, "stderr_tail": errtxt.splitlines()[-5:]})
            return
        for i, (l, o) in enumerate(zip(lines, twin)):
            if l.startswith("readdir ") and o.startswith("ok recs="):
                lines[i] = l + " " + o.split()[1][5:]
            elif l.startswith("readdir "):
                lines[i] = l + " t0:2e"
            elif l.startswith("readdirs ") and o.startswith("ok recs="):
                recs = o.split()[1][5:]
                split, mode, term = gen_split(ctx.rng, parse_recs(recs))
                lines[i] = "%s %s %s" % (l, recs, split)
                metas[i] = metas[i][:5] + ((mode, term),)
            elif l.startswith("readdirs "):
                lines[i] = l + " t0:2e g"
        keep = [i for i, o in enumerate(twin) if o != "bad-op"]
        metas = [metas[i] for i in keep]
        lines = [lines[i] for i in keep]
        twin = [twin[i] for i in keep]
        judge = Judge(ctx, metas, twin, lines, "[mke2fs -q -t ext2 -O ^filetype,^dir_index IMG (16 MiB)] " + " ".join(wrap[:4]) + " '" + wrap[4] + "' " + " ".join(wrap[5:]) + " " + exe, unknown=True)
        C.correspond(ctx, "fs-dtype-unknown", lines, wrap + [exe], [drv, "--dtype-unknown"], judge, sig_of, timeout=900)
        for m, o in zip(metas, twin):
            if m[1] in ("init", "end", "tree"):
                continue
            res = o.split(" | ")[0]
            cls = okclass(res) + ("" if okclass(res) != "err" else ":" + (res.split()[1] if len(res.split()) > 1 else "?"))
            ctx.hist("dtype_unknown_outcomes", m[1] + ":" + cls)
            ctx.count(("dtype-unknown", m[1], cls) + tuple(m[4] or ()))
    finally:
        # the mount itself lives and dies with the harness processes; only the image and the mount point are ours
        for p_ in (img,):
            try:
                os.unlink(p_)
            except OSError:
                pass
        try:
            os.rmdir(mnt)
        except OSError:
            pass


def directed_lines(g):
    """the shapes of DESIGN §4 #14/#15 and the 512 / PATH_MAX boundaries, always present"""
    sb = g.sb
    t = {b"existing": ("d", {}), b"d": ("f", b"0123456789"), b"s": ("f", b"abc"), b"big": ("f", bytes(range(256)) * 3),
         b"sk": ("s",), b"cd": ("c",), b"bd": ("b",), b"ff": ("p",),
         b"kinds": ("d", {b"sk": ("s",), b"cd": ("c",), b"bd": ("b",), b"ff": ("p",), b"f": ("f", b"x"), b"l": ("l", b"../sk"),
                          b"sub": ("d", {b"bd": ("b",), b"sk": ("s",)})})}
    L = [("tree " + " ".join(dump_tokens(t)), "tree", (), None, None)]

    def add(line, op, loc, arg=None, extra=None):
        L.append((line, op, tuple(loc), arg, (False, False, False, 0)) + ((extra,) if extra else ()))
    add("copy %s %s" % (H(b"s"), H(b"d")), "copy", [b"d"], (b"s",), "longer")
    add("mkdirall %s" % H(b"existing/new"), "mkdirall", [b"existing", b"new"])
    add("mkdirall %s" % H(b"single"), "mkdirall", [b"single"])
    add("mkdirall %s" % H(sb + b"/abs1"), "mkdirall", [b"abs1"])
    add("mkdirall %s" % H(b"m1/a//b"), "mkdirall", [b"m1", b"a", b"b"])
    add("mkdirall %s" % H(b"m2/a/b//"), "mkdirall", [b"m2", b"a", b"b"])
    add("mkdirall %s" % H(b"d/x"), "mkdirall", [b"d", b"x"])
    add("mkdirall %s" % H(b"d"), "mkdirall", [b"d"])
    add("mkdirall %s" % H(b"d/"), "mkdirall", [b"d"])
    add("mkdirall %s" % H(b"existing"), "mkdirall", [b"existing"])
    for n in (510, 511, 512, 513, 514, 4094, 4095, 4096):
        p = b"p%d" % n + b"/" * (n - len(b"p%d" % n) - 2) + b"zz"
        add("mkdirall %s" % H(p), "mkdirall", [b"p%d" % n, b"zz"])
        p = b"existing" + b"/" * (n - 8 - 2) + b"q%d" % (n % 10)
        if len(p) == n:
            add("mkdirall %s" % H(p), "mkdirall", [b"existing", b"q%d" % (n % 10)])
    # a node that is not a directory already at the path (socket, block / character device, fifo), as the last component with
    # and without trailing separators and as an inner component; metadata / exists of every kind; the tree holding them removed
    for nm in (b"sk", b"bd", b"cd", b"ff"):
        add("mkdirall %s" % H(nm), "mkdirall", [nm], extra="obstacle:%s-last" % t[nm][0])
        add("mkdirall %s" % H(nm + b"/"), "mkdirall", [nm], extra="obstacle:%s-last" % t[nm][0])
        add("mkdirall %s" % H(b"kinds//" + nm + b"//"), "mkdirall", [b"kinds", nm], extra="obstacle:%s-last" % t[nm][0])
        add("mkdirall %s" % H(nm + b"/in/ner"), "mkdirall", [nm, b"in", b"ner"], extra="obstacle:%s-inner" % t[nm][0])
        add("mkdirall %s" % H(sb + b"//kinds/sub///" + nm + b"/x/"), "mkdirall", [b"kinds", b"sub", nm, b"x"],
            extra="obstacle:%s-inner" % (t[b"kinds"][1][b"sub"][1].get(nm) or ("none",))[0])
    for nm in (b"sk", b"bd", b"cd", b"ff"):
        add("meta %s" % H(nm), "meta", [nm], extra="node:" + t[nm][0])
    add("meta %s" % H(b"existing/"), "meta", [b"existing"], extra="node:d")
    add("meta %s" % H(b"big"), "meta", [b"big"], extra="node:f")
    add("meta %s" % H(b"nothing"), "meta", [b"nothing"], extra="node:-")
    add("meta %s" % H(b"sk/x"), "meta", [b"sk", b"x"], extra="node:-")
    add("read %s" % H(b"sk"), "read", [b"sk"])
    add("write %s %s" % (H(b"sk"), H(b"zz")), "write", [b"sk"], b"zz")
    add("copy %s %s" % (H(b"s"), H(b"kinds/sk")), "copy", [b"kinds", b"sk"], (b"s",), "socket")
    add("readdir %s" % H(b"kinds"), "readdir", [b"kinds"])
    add("readdirs %s" % H(b"kinds"), "readdirs", [b"kinds"])
    add("rmall %s" % H(b"sk"), "rmall", [b"sk"])
    add("rmall %s" % H(b"kinds/"), "rmall", [b"kinds"])
    # trailing separators (one / several), on fresh, existing, nested paths, on a regular file, on the sandbox root
    add("mkdirall %s" % H(b"t1/"), "mkdirall", [b"t1"])
    add("mkdirall %s" % H(b"t2///"), "mkdirall", [b"t2"])
    add("mkdirall %s" % H(b"t3/a/b/"), "mkdirall", [b"t3", b"a", b"b"])
    add("mkdirall %s" % H(b"t3/a//c//"), "mkdirall", [b"t3", b"a", b"c"])
    add("mkdirall %s" % H(b"t3/a/b/"), "mkdirall", [b"t3", b"a", b"b"])
    add("mkdirall %s" % H(b"existing/"), "mkdirall", [b"existing"])
    add("mkdirall %s" % H(b"existing/new2//"), "mkdirall", [b"existing", b"new2"])
    add("mkdirall %s" % H(b"s/"), "mkdirall", [b"s"])
    add("mkdirall %s" % H(b"s//x/"), "mkdirall", [b"s", b"x"])
    add("mkdirall %s" % H(sb + b"/"), "mkdirall", [])
    add("mkdirall %s" % H(sb + b"//"), "mkdirall", [])
    add("mkdirall %s" % H(sb + b"/t4//"), "mkdirall", [b"t4"])
    for n in (511, 512, 513, 514, 4094, 4095):
        add("mkdirall %s" % H(b"u%d/v" % n + b"/" * (n - len(b"u%d/v" % n))), "mkdirall", [b"u%d" % n, b"v"])
    add("copy %s %s s4" % (H(b"big"), H(b"bigcopy")), "copy", [b"bigcopy"], (b"big",), "absent")
    add("copy %s %s s100,1,1,300" % (H(b"big"), H(b"d")), "copy", [b"d"], (b"big",), "shorter")
    # the whole 768-byte source in steps of 5 bytes (154 copy_file_range calls), in steps of 1 then the rest, and a step
    # that is exactly the remaining length (not a short count at all)
    add("copy %s %s s%s" % (H(b"big"), H(b"big5"), ",".join(["5"] * 160)), "copy", [b"big5"], (b"big",), "absent")
    add("copy %s %s s1,1,1,0" % (H(b"big"), H(b"big5")), "copy", [b"big5"], (b"big",), "equal")
    add("copy %s %s s767,1" % (H(b"big"), H(b"s")), "copy", [b"s"], (b"big",), "shorter")
    add("copy %s %s s768" % (H(b"big"), H(b"big5")), "copy", [b"big5"], (b"big",), "equal")
    add("write %s %s s1,1,2" % (H(b"d"), H(b"hello world")), "write", [b"d"], b"hello world")
    add("rmall %s" % H(b"existing//"), "rmall", [b"existing"])
    add("readdir %s" % H(sb), "readdir", [])
    add("readdirs %s" % H(sb), "readdirs", [])
    add("readdirs %s" % H(b"existing"), "readdirs", [b"existing"])
    add("readdirs %s" % H(b"d"), "readdirs", [b"d"])
    # the exception class of create_dir_all_post (Props/C14 create_dir_all_path_max_trailing): exactly PATH_MAX bytes ending in
    # a separator — Ok, the directory named lexically exists, although the kernel (and std::fs) refuse the path itself with
    # ENAMETOOLONG; one byte more fails.  Last, because the twin is no reference afterwards.
    # (`w4096/x///…`: the last mkdir finds what the upward loop just created, EEXIST, so the final stat runs: ENAMETOOLONG;
    #  `y4096///…`: the first mkdir creates the directory and the code returns Ok without ever handing the kernel the whole path)
    for n in (4096, 4097):
        add("mkdirall %s" % H(b"w%d/x" % n + b"/" * (n - len(b"w%d/x" % n))), "mkdirall", [b"w%d" % n, b"x"])
    for n in (4095, 4097, 4096):
        add("mkdirall %s" % H(b"y%d" % n + b"/" * (n - len(b"y%d" % n))), "mkdirall", [b"y%d" % n])
    # known finding (the judge stops judging the session after a failure, hence the very last line): the empty path
    add("meta -", "meta", [], extra="node:empty-path")
    return L


def run(ctx):
    thorough = ctx.tier != "quick"
    ctx.rule = ("sessions = random trees (depth <= 5, names 1..255 bytes incl. non-UTF-8, files/dirs/symlinks/fifos/unix sockets/character and block devices, one directory with "
                "%s entries) + op sequences write/read/copy/create_dir_all/remove_dir_all/readdir/metadata+exists on a real sandbox, path shapes "
                "relative/absolute, repeated and trailing slashes, existing prefixes, lengths 510..514 and 4093..4097, short-count scripts "
                "for write/copy_file_range, scripted getdents64 answers (readdirs: the kernel's records of a directory re-split over the "
                "calls in 5 modes x 6 terminators incl. errno, early 0 and an answer that does not fit); "
                "distinct_nontrivial = distinct (op, outcome class, absolute, repeated, trailing, length bucket, prior destination state / kind of the "
                "non-directory in the way of create_dir_all (last or inner component) / kind of node asked about) classes"
                % ("3000" if thorough else "300"))
    ctx.assumptions += [
        "Model/Fs.lean part 1 (tree + mkdirat/openat/write/copy_file_range/getdents64/unlinkat/newfstatat) is the assumed kernel contract; "
        "it is exercised against the running kernel (ext4 under /tmp) by this run's correspondence, not proved",
        "modelled domain: no symlink is traversed or followed by an operation's path, no `.`/`..` components, no fifo or device node is opened (refused by the "
        "harness; a socket may be: ENXIO), copy source != destination; "
        "outside it only the malformed stream applies (no panic; success implies std::fs success with the same tree)",
        "a directory stream is a snapshot: removing entries already returned does not disturb the entries still to come (checked by rmall on fan-out up to thousands)",
        "the kernel's getdents64 order is environment: recorded from the real run and fed to the model; how the records are split over "
        "successive getdents64 answers is environment too: the kernel's own split is compared per call (readdir), arbitrary legal "
        "splits, early end and errno answers are scripted through the sc-shim (readdirs)",
        "what getdents64 reports as d_type is a property of the file system under the tree (exact type | DT_UNKNOWN for every entry): both are modelled "
        "(dirRecsOn) and, where root + mke2fs + loop mount are available, both are run (ext2 -O ^filetype,^dir_index in a private mount namespace; "
        "else evidence says `dtype_unknown_mount: not runnable here`); per-entry mixtures are not modelled",
        "permissions, mount points, concurrent modification, EINTR are outside the model (read_to_end / write_all under EINTR: property C15)",
    ]
    ok = C.lean_prove(ctx, "TinyVerif.Props.C14", drivers=["drv_c14"])
    exe, err = C.cargo_build(ctx, "c14")
    if exe is None:
        ctx.broken.append({"harness_build_failed": err})
        ctx.violation({"kind": "harness-build-failed"}, {"error": err}, no_input=True)
        return
    drv = C.driver_path("drv_c14")
    # the process id keeps concurrent runs (bin/seedrun copies share /tmp) out of each other's sandbox
    sandbox = b"/tmp/c14.%08x.%dA" % (ctx.rng.below(2**32), os.getpid())
    g = Gen(ctx, sandbox)
    metas = [("init " + H(sandbox), "init", (), None, None)]
    # OpenOptions table: all 64 combinations
    for i in range(64):
        metas.append(("opts " + format(i, "06b"), "opts", (), None, None))
    metas += directed_lines(g)
    n_sessions = 30 if not thorough else 80
    for s in range(n_sessions):
        wide = 0
        if s % 5 == 1:
            wide = 300 if not thorough else 3000
        t = g.session_tree(wide, long_ok=(s % 3 != 2))
        metas.append(("tree " + " ".join(dump_tokens(t)), "tree", (), None, None))
        if wide:
            metas.append(("readdir " + H(b"wide"), "readdir", (b"wide",), None, (False, False, False, 0)))
            metas.append(("readdirs " + H(b"wide"), "readdirs", (b"wide",), None, (False, False, False, 0)))
        metas += g.ops(t, (10 if wide else 40) if not thorough else (16 if wide else 70), wide=bool(wide))
        if wide:
            metas.append(("rmall " + H(b"wide/"), "rmall", (b"wide",), None, (False, False, True, 0)))
    # record-window boundaries of ReadDir's 512-byte buffer: directories mixing 24-byte records (names <= 4 bytes) with
    # records of 264..280 bytes (names of 240..255 bytes), so that long records start at every offset of a window
    rd = {}
    for k in range(60 if not thorough else 600):
        ents = {}
        for j in range(g.r.range(0, 14)):
            ents[b"%c%d" % (97 + j, g.r.below(10))] = ("f", b"")
        for j in range(g.r.range(1, 3)):
            ents[bytes([65 + j]) * g.r.range(240, 255)] = ("f", b"x") if g.r.chance(1, 2) else ("d", {})
        rd[b"rd%03d" % k] = ("d", ents)
    # ... and the tightest shape: `.`, `..` and eight 24-byte records (240 bytes) around one record of maximal length; the
    # kernel's order is not ours to choose (hash order on ext4, newest first on tmpfs), so many differently named copies
    for k in range(45 if not thorough else 450):
        ents = {b"%c%c%d" % (97 + g.r.below(26), 97 + g.r.below(26), j): ("f", b"") for j in range(8)}
        ents[bytes([75 + k % 10]) * (253 + k % 3)] = ("f", b"")
        rd[b"re%03d" % k] = ("d", ents)
    # (in trees of at most 105 directories: the observer walks the whole sandbox after every line)
    names = sorted(rd)
    for at in range(0, len(names), 105):
        grp = names[at:at + 105]
        metas.append(("tree " + " ".join(dump_tokens({nm: rd[nm] for nm in grp})), "tree", (), None, None))
        for nm in grp:
            metas.append(("readdir " + H(nm), "readdir", (nm,), None, (False, False, False, 0)))
            for _ in range(2):
                metas.append(("readdirs " + H(nm), "readdirs", (nm,), None, (False, False, False, 0)))
        metas.append(("rmall " + H(grp[0]), "rmall", (grp[0],), None, (False, False, False, 0)))
    metas.append(("end", "end", (), None, None))
    lines = [m[0] for m in metas]
    # run 1: twin mode (std::fs as observer and as reference), yields the kernel's directory order
    rc, twin, errtxt = C.run_filter([exe, "--twin"], lines, timeout=1500)
    if len(twin) != len(lines):
        idx = len(twin)
        ctx.violation({"stream": "fs", "kind": "impl-crash"}, {"case": lines[idx][:300] if idx < len(lines) else None,
                                                              "impl_rc": rc, "stderr_tail": errtxt.splitlines()[-5:]})
        return
    for i, (l, o) in enumerate(zip(lines, twin)):
        if l.startswith("readdir ") and o.startswith("ok recs="):
            lines[i] = l + " " + o.split()[1][5:]
        elif l.startswith("readdir "):
            lines[i] = l + " t4:2e"       # open failed: the model must fail the same way before looking at the records
        elif l.startswith("readdirs ") and o.startswith("ok recs="):
            # the kernel's records are known now: choose how they are split over the getdents64 answers (environment input)
            recs = o.split()[1][5:]
            split, mode, term = gen_split(ctx.rng, parse_recs(recs))
            lines[i] = "%s %s %s" % (l, recs, split)
            metas[i] = metas[i][:5] + ((mode, term),)
            ctx.hist("readdirs_split_mode", mode)
            ctx.hist("readdirs_terminator", term)
        elif l.startswith("readdirs "):
            lines[i] = l + " t4:2e g"
    # a path the harness' sandbox guard refuses (e.g. `..` leading out of the sandbox) is not executed by the
    # implementation at all (`bad-op`, no state change): such cases are no evidence either way and are dropped
    keep = [i for i, o in enumerate(twin) if o != "bad-op"]
    ctx.extra["refused_by_sandbox_guard"] = len(twin) - len(keep)
    metas = [metas[i] for i in keep]
    lines = [lines[i] for i in keep]
    twin = [twin[i] for i in keep]
    judge = Judge(ctx, metas, twin, lines, exe)
    C.correspond(ctx, "fs", lines, [exe], [drv], judge, sig_of, timeout=1500)
    # coverage accounting
    for m, o in zip(metas, twin):
        if m[1] in ("init", "end", "tree", "opts"):
            continue
        res = o.split(" | ")[0]
        cls = okclass(res) + ("" if okclass(res) != "err" else ":" + (res.split()[1] if len(res.split()) > 1 else "?"))
        ctx.hist("outcomes", m[1] + ":" + cls)
        ctx.count((m[1], cls) + tuple(m[4] or ()) + ((m[5],) if len(m) > 5 else ()))
        if m[1] == "readdirs":
            continue
        if m[1] == "copy" and len(m) > 5:
            ctx.hist("copy_prior_destination", m[5])
        if m[1] in ("mkdirall", "meta") and len(m) > 5:
            ctx.hist(m[1] + "_node_kinds", m[5] + "/" + okclass(res))
        if m[1] == "readdir" and res.startswith("ok"):
            f = dict(x.split("=", 1) for x in res.split()[1:])
            ctx.hist("getdents_calls_per_readdir", min(len(f["calls"].split(",")), 50))
    for m, o in list(zip(metas, twin))[66:72]:
        ctx.sample({"case": m[0][:160], "implementation_and_std": o[:200]})
    run_unknown_mount(ctx, exe, drv, thorough)
    run_malformed(ctx, exe, sandbox, 12 if not thorough else 60)
    # never leave anything behind
    for suffix in (b"A", b"B"):
        p = sandbox[:-1] + suffix
        if os.path.lexists(p):
            C.sh(["rm", "-rf", p.decode()])
    if not ok and not ctx.violations:
        ctx.violation({"kind": "proof-broken"}, {"broken": ctx.broken}, no_input=True)
