"""C13, the caller's IDENTITY STATE x the ids requested, judged by what the child image runs as (part of checks/c13.py).

`harness/c13 --ids` (harness/c13/src/ids.rs): every scenario runs in a forked helper that puts itself into the identity
state (real/effective/saved uid and gid, supplementary groups) with setgroups/setresgid/setresuid, builds the REAL
Command with `.uid / .gid / .pgroup` as requested and spawns `cat /proc/self/status`; the image's own Uid:/Gid:
(real effective saved fs), Groups: and NSpgid: lines are the observation.
Judge (`expect`): the kernel's rules for the steps the property promises, applied in the order do_spawn's child applies
them (setgid, setuid, setpgid, exec; the gid first since the repair 925c7e5) — written here without the model.  Model: `idSteps` of Model/SpawnIds.lean composed
with the protocol model `spawn` through drv_c13 `ids` (Props: spawn_ids_exact, spawn_ids_effective, spawn_ids_err,
spawn_ids_result).
Needs CAP_SETUID + CAP_SETGID (the sandbox runs the checks as root).  Without them the stream degrades to what is possible
(the caller's own identity, its own ids requested, every pgroup kind) and says so in the evidence: no alarm.
"""
import os

from . import common as C

A, B = 4242, 4343
UID_STATES = [(0, 0, 0), (A, 0, 0), (A, A, 0), (A, 0, A), (0, A, 0), (A, B, 0), (A, A, A), (A, B, A), (0, A, B), (B, A, A)]
GID_STATES = [(0, 0, 0), (B, 0, 0), (0, 0, B), (B, B, B), (A, B, 0)]
IDS = [None, 0, A, B]
PGS = ["-", "0", "anchor", "bogus"]


def line_of(u, g, sg, uid, gid, pg):
    t = lambda x: "keep" if x is None else ".".join(map(str, x))
    o = lambda x: "-" if x is None else str(x)
    sgs = "keep" if sg is None else ("-" if not sg else ".".join(map(str, sg)))
    return "u=%s g=%s sg=%s uid=%s gid=%s pg=%s" % (t(u), t(g), sgs, o(uid), o(gid), pg)


def parse_line(line, own):
    """-> (u, g, sg, uid, gid, pg) with `keep` replaced by the check's own identity"""
    d = dict(t.split("=", 1) for t in line.split())
    tr = lambda s, dflt: dflt if s == "keep" else tuple(int(x) for x in s.split("."))
    # the kernel keeps (and /proc prints) the supplementary groups sorted
    sg = sorted(own["sg"] if d["sg"] == "keep" else ([] if d["sg"] == "-" else [int(x) for x in d["sg"].split(".")]))
    o = lambda s: None if s == "-" else int(s)
    return tr(d["u"], own["u"]), tr(d["g"], own["g"]), sg, o(d["uid"]), o(d["gid"]), d["pg"]


def set_ids(cap, ids, x):
    """setuid(2) / setgid(2): with the capability all three ids; without it the effective one only, and only to the
    real or the saved id"""
    r, e, s = ids
    if cap:
        return (x, x, x)
    if x == r or x == s:
        return (r, x, s)
    return None


def expect(u, g, sg, uid, gid, pg):
    """THE PROPERTY: the steps the builder calls promise, by the kernel's rules, in do_spawn's order (the gid BEFORE the uid
    since the repair 925c7e5: the gid step still has the caller's privilege); the image's ids after the exec (saved :=
    effective, fs = effective)"""
    if gid is not None:
        g = set_ids(u[1] == 0, g, gid)
        if g is None:
            return "res=err:1"
    if uid is not None:
        u = set_ids(u[1] == 0, u, uid)
        if u is None:
            return "res=err:1"
    if pg == "bogus":
        return "res=err:1"
    pgid = {"-": "caller", "0": "own", "anchor": "anchor"}[pg]
    return "res=ok st=0 uid=%d.%d.%d.%d gid=%d.%d.%d.%d groups=%s pgid=%s" % (
        u[0], u[1], u[1], u[1], g[0], g[1], g[1], g[1], ".".join(map(str, sg)) or ".", pgid)


def canon_impl(o):
    if o.startswith("res=err"):
        return o.split()[0]
    return o


def privileged_drop(u, g, uid, gid):
    """a privileged caller asking for a uid AND a gid: the class the order of the two steps decides (before 925c7e5 the uid
    step came first: Err(EPERM), or Ok with the real gid unchanged)"""
    return u[1] == 0 and uid is not None and gid is not None


def capabilities():
    eff = 0
    for l in open("/proc/self/status"):
        if l.startswith("CapEff:"):
            eff = int(l.split()[1], 16)
    return os.geteuid() == 0 and (eff >> 6) & 1 == 1 and (eff >> 7) & 1 == 1


def scenarios(ctx, privileged, thorough):
    if not privileged:
        eu, eg = os.geteuid(), os.getegid()
        return [line_of(None, None, None, uid, gid, pg) for uid in (None, eu) for gid in (None, eg) for pg in PGS]
    out = []
    z = (0, 0, 0)
    if thorough:
        for u in UID_STATES:
            for g in GID_STATES:
                for uid in IDS:
                    for gid in IDS:
                        for pg in PGS:
                            out.append(line_of(u, g, [], uid, gid, pg))
    else:
        out += [line_of(u, z, [], uid, None, "-") for u in UID_STATES for uid in IDS]
        out += [line_of(u, g, [], None, gid, "-") for u in (z, (A, A, 0)) for g in GID_STATES for gid in IDS]
        out += [line_of(u, g, [], uid, gid, "-") for u in (z, (A, 0, 0), (A, A, 0), (A, A, A)) for g in (z, (0, 0, B), (B, B, B))
                for uid, gid in ((A, B), (0, B), (A, 0), (B, A))]
        out += [line_of(u, z, [], uid, None, pg) for u in (z, (A, 0, 0), (A, A, A)) for uid in (None, A) for pg in PGS]
        full = [(u, g, uid, gid, pg) for u in UID_STATES for g in GID_STATES for uid in IDS for gid in IDS for pg in PGS]
        out += [line_of(u, g, [], uid, gid, pg) for u, g, uid, gid, pg in ctx.rng.shuffle(full)[:40]]
    # supplementary groups: no step touches them
    out += [line_of(z, z, [0, B], A, None, "0"), line_of(z, (A, A, A), [0, B], A, A, "anchor"), line_of((A, 0, 0), z, [B], A, None, "-"),
            line_of(z, z, [A, B, 7], None, B, "-")]
    seen, uniq = set(), []
    for l in out:
        if l not in seen:
            seen.add(l)
            uniq.append(l)
    return uniq


def own_identity():
    return {"u": os.getresuid(), "g": os.getresgid(), "sg": sorted(os.getgroups())}


def describe(u, g, sg, uid, gid, pg):
    return ("caller identity: uid real/effective/saved = %d/%d/%d, gid = %d/%d/%d, supplementary groups %s; builder: Command::new(/bin/cat)"
            ".arg(/proc/self/status)%s%s%s.spawn()" % (u + g + (sg,) + (
                "" if uid is None else ".uid(%d)" % uid, "" if gid is None else ".gid(%d)" % gid,
                {"-": "", "0": ".pgroup(0)", "anchor": ".pgroup(<an existing group of the session>)", "bogus": ".pgroup(<no such group>)"}[pg])))


def judge(line, o, own):
    """-> (kind, why, want) or None"""
    u, g, sg, uid, gid, pg = parse_line(line, own)
    want = expect(u, g, sg, uid, gid, pg)
    got = canon_impl(o)
    if got == want:
        return None
    if not o.startswith("res="):
        return ("crash", "the harness answered %r" % o[:120], want)
    if got.startswith("res=ok") and want.startswith("res=ok"):
        gd, wd = dict(t.split("=", 1) for t in got.split()), dict(t.split("=", 1) for t in want.split())
        diff = [k for k in ("uid", "gid", "groups", "pgid", "st") if gd.get(k) != wd.get(k)]
        names = {"uid": "Uid:", "gid": "Gid:", "groups": "Groups:", "pgid": "process group", "st": "exit status"}
        return ("wrong-identity", "spawn returned Ok and the image runs with %s — required: %s (real.effective.saved.fs)"
                % ("; ".join("%s %s" % (names[k], gd.get(k)) for k in diff), "; ".join("%s %s" % (names[k], wd.get(k)) for k in diff)), want)
    if got.startswith("res=ok"):
        return ("step-not-refused", "spawn returned Ok (image: %s) although a requested identity step cannot succeed: required Err(EPERM), no image" % got, want)
    if want.startswith("res=ok"):
        return ("spurious-error", "spawn returned %s, every requested identity step is permitted: required %s" % (got, want), want)
    return ("wrong-errno", "spawn returned %s, the failing step's errno is EPERM (1)" % got, want)


def run_ids(ctx, drv, exe):
    thorough = ctx.tier == "thorough"
    privileged = capabilities()
    own = own_identity()
    lines = scenarios(ctx, privileged, thorough)
    st = ctx.extra.setdefault("streams", {}).setdefault("identity", {"cases": 0, "spawns": 0, "disagreements": 0, "spec_failures": 0})
    if not privileged:
        ctx.extra["identity_stream"] = ("not runnable here: needs CAP_SETUID and CAP_SETGID (euid %d); degraded to the caller's own identity "
                                        "state %s with its own ids requested — the identity-state dimension is NOT exercised in this run" % (os.geteuid(), own))
    else:
        ctx.extra["identity_stream"] = "privileged: identity states set up with setgroups/setresgid/setresuid in a forked helper"
    rc, outs, err = C.run_filter([exe, "--ids"], lines, timeout=180 if not thorough else 900)
    ctx.evaluations += len(lines)
    st["cases"] += len(lines)
    if len(outs) != len(lines):
        idx = len(outs)
        ctx.violation({"stream": "identity", "kind": "harness-died"}, {"stream": "identity", "rc": rc, "stderr": err[-300:],
                      "case": lines[idx] if idx < len(lines) else None})
        return
    bad = {}
    keep = []
    for line, o in zip(lines, outs):
        if o.startswith("setup:"):
            # the helper could not reach the state (a sandbox that maps only some ids, ...): not an alarm, but visible
            ctx.hist("identity_not_runnable", o)
            continue
        st["spawns"] += 1
        keep.append((line, o))
        u, g, sg, uid, gid, pg = parse_line(line, own)
        v = judge(line, o, own)
        if v:
            st["spec_failures"] += 1
            bad.setdefault(v[0], []).append((line, o, v))
        if privileged_drop(u, g, uid, gid):
            ctx.hist("identity_privileged_uid_and_gid_requests(judged: both must be exact)", "uid=%s gid=%s" % ("0" if uid == 0 else "nonzero", "real/saved" if gid in (g[0], g[2]) else "other"))
        ctx.count(("identity", u, g, tuple(sg), uid, gid, pg))
        ctx.hist("identity_uid_state(r.e.s)", "%d.%d.%d%s" % (u + (" privileged" if u[1] == 0 else " unprivileged",)))
        ctx.hist("identity_gid_state(r.e.s)", "%d.%d.%d" % g)
        ctx.hist("identity_requests", "uid=%s gid=%s" % ("-" if uid is None else "0" if uid == 0 else "real" if uid == u[0] else "saved" if uid == u[2] else "effective" if uid == u[1] else "other",
                                                          "-" if gid is None else "0" if gid == 0 else "real" if gid == g[0] else "saved" if gid == g[2] else "effective" if gid == g[1] else "other"))
        ctx.hist("identity_pgroup", {"-": "none", "0": "0 (own group)", "anchor": "existing group of the session", "bogus": "no such group"}[pg])
        ctx.hist("identity_outcomes", o.split()[0])
    if privileged and not keep:
        ctx.extra["identity_stream"] += " — but no identity state could be reached (see identity_not_runnable)"
    for kind, bs in bad.items():
        # the simplest scenario first: fewest requests, plain pgroup
        bs.sort(key=lambda b: (b[0].count("=-") * -1, len(b[0]), b[0]))
        line, o, v = bs[0]
        u, g, sg, uid, gid, pg = parse_line(line, own)
        ctx.violation({"stream": "identity", "kind": kind},
                      {"stream": "identity", "case": line, "scenario": describe(u, g, sg, uid, gid, pg), "implementation": o, "required": v[2],
                       "why": v[1], "failing_scenarios_of_this_kind": len(bs), "others": [b[0] for b in bs[1:6]],
                       "how_to_replay": "echo '%s' | %s --ids" % (line, exe)})
    # ---- the model ----
    ml = []
    for line, o in keep:
        u, g, sg, uid, gid, pg = parse_line(line, own)
        ml.append("ids " + line_of(u, g, sg, uid, gid, pg))
    rc, mo, err = C.run_filter(drv, ml)
    if len(mo) != len(ml):
        ctx.violation({"stream": "identity", "kind": "driver-failed"}, {"stderr": err[-300:]}, no_input=True)
        return
    badlines = set(b[0] for bs in bad.values() for b in bs)
    for (line, o), m in zip(keep, mo):
        got = canon_impl(o).replace(" st=0", "")
        if got != m:
            st["disagreements"] += 1
            if line not in badlines:
                ctx.extra.setdefault("disagreements", []).append({"stream": "identity", "case": line, "implementation": o, "model": m})
    rc, badd, _ = C.run_filter(drv, ["ids u=keep g=0.0.0 sg=- uid=- gid=- pg=-", "ids u=0.0 g=0.0.0 sg=- uid=- gid=- pg=-", "ids u=0.0.0 g=0.0.0 sg=- uid=- gid=- pg=7"])
    rc, badh, _ = C.run_filter([exe, "--ids"], ["u=0.0 g=keep sg=keep uid=- gid=- pg=-", "u=keep g=keep sg=keep uid=- gid=- pg=7", "u=keep g=keep uid=- gid=- pg=-", "zz"])
    if any(x != "bad-op" for x in badd + badh) or len(badd) != 3 or len(badh) != 4:
        ctx.violation({"stream": "identity", "kind": "malformed-accepted"}, {"driver": badd, "harness": badh}, no_input=True)
    if keep:
        ctx.sample({"stream": "identity", "case": keep[min(1, len(keep) - 1)][0], "implementation": keep[min(1, len(keep) - 1)][1]})


def replay_ids(ctx, rp):
    line = rp["replay"]["case"]
    exe, err = C.cargo_build(ctx, "c13")
    if exe is None:
        print(err)
        return 2
    rc, outs, err = C.run_filter([exe, "--ids"], [line])
    o = outs[0] if outs else "no output"
    own = own_identity()
    print("scenario: %s\n%s\nimplementation: %s" % (line, describe(*parse_line(line, own)), o))
    if o.startswith("setup:"):
        print("verdict: not runnable here (%s): needs CAP_SETUID / CAP_SETGID" % o)
        return 2
    v = judge(line, o, own)
    print("verdict: %s" % ("%s: %s" % (v[0], v[1]) if v else "satisfies the property"))
    return 1 if v else 0
