"""Translator (tie T) for C01/C02: regenerates lean/TinyVerif/Gen/SyncSites.lean from the *current*
/repo sources — the ordered list of atomic / futex call sites of every function in
tiny-std/src/sync/mutex.rs, tiny-std/src/sync/rwlock.rs, tiny-std/src/sync.rs (`futex_wait_fast`) and
rusl/src/futex.rs, with method, literal operands and memory orderings, plus the named constants
the protocols use.  The Lean side (`Props/C01.lean`, `Props/C02.lean`) checks by `decide` that the table
has the shape the hand-written model assumes and that every ordering is at least what the proofs need.
Stdlib only; a construct it cannot parse is emitted as an `unparsed` site, which fails the Lean check."""
import os
import re

from . import common as C

ORD = {"Relaxed": "relaxed", "Acquire": "acquire", "Release": "release", "AcqRel": "acqrel", "SeqCst": "seqcst"}


def strip_comments(src):
    src = re.sub(r"//[^\n]*", "", src)
    src = re.sub(r"/\*.*?\*/", "", src, flags=re.S)
    return src


def functions(src):
    """yield (name, body) for every `fn` with a brace-matched body (tests module excluded)"""
    src = strip_comments(src)
    cut = src.find("#[cfg(test)]")
    if cut >= 0:
        src = src[:cut]
    for m in re.finditer(r"\bfn\s+([A-Za-z_0-9]+)\s*(?:<[^>{]*>)?\s*\(", src):
        i = src.find("{", m.end())
        semi = src.find(";", m.end())
        if i < 0 or (0 <= semi < i):
            continue
        depth, j = 0, i
        while j < len(src):
            if src[j] == "{":
                depth += 1
            elif src[j] == "}":
                depth -= 1
                if depth == 0:
                    break
            j += 1
        yield m.group(1), src[i:j + 1]


def split_args(s):
    out, depth, cur = [], 0, ""
    for ch in s:
        if ch in "([{":
            depth += 1
        elif ch in ")]}":
            depth -= 1
        if ch == "," and depth == 0:
            out.append(cur.strip())
            cur = ""
        else:
            cur += ch
    if cur.strip():
        out.append(cur.strip())
    return out


def call_args(body, start):
    depth, j = 0, start
    while j < len(body):
        if body[j] == "(":
            depth += 1
        elif body[j] == ")":
            depth -= 1
            if depth == 0:
                return body[start + 1:j], j
        j += 1
    return body[start + 1:], len(body)


SITE_RE = re.compile(r"\.\s*(load|store|swap|compare_exchange_weak|compare_exchange|fetch_add|fetch_sub|fetch_update)\s*\(|\b(futex_wait_fast|futex_wait|futex_wake)\s*\(")


def norm(a):
    return re.sub(r"\s+", "", a)


def sites_of(fname, body):
    out = []
    for m in SITE_RE.finditer(body):
        op = m.group(1) or m.group(2)
        args, _ = call_args(body, m.end() - 1)
        parts = split_args(args)
        ords = [ORD[p] for p in parts if p in ORD]
        vals = [norm(p) for p in parts if p not in ORD]
        if op == "fetch_update":
            vals = []  # closure: its CAS is core's own loop
        # which atomic: text right before the call
        recv = body[max(0, m.start() - 120):m.start()]
        rm = re.search(r"self\s*\.\s*([a-z_]+)\s*$", recv)
        loc = rm.group(1) if rm else ("arg" if m.group(2) else "futex")
        if m.group(2):
            am = re.match(r"&?\s*self\s*\.\s*([a-z_]+)", parts[0]) if parts else None
            loc = am.group(1) if am else "arg"
            vals = vals[1:]
        out.append({"fn": fname, "op": op, "loc": loc, "vals": vals, "ords": ords})
    return out


def consts_of(src):
    out = {}
    src = strip_comments(src)
    for m in re.finditer(r"const\s+([A-Z_]+)\s*:\s*u32\s*=\s*([^;]+);", src):
        out[m.group(1)] = norm(m.group(2))
    return out


def eval_const(expr, env):
    e = expr
    for k in sorted(env, key=len, reverse=True):
        e = re.sub(r"\b%s\b" % k, str(env[k]), e)
    e = e.replace("u32::MAX", str(2**32 - 1))
    if not re.fullmatch(r"[0-9x()\s<>|&+\-*~]+", e):
        return None
    try:
        return eval(e, {"__builtins__": {}}) & 0xFFFFFFFF
    except Exception:
        return None


def lean_str(s):
    return '"' + s.replace("\\", "\\\\").replace('"', '\\"') + '"'


def generate(repo=None):
    repo = repo or C.REPO
    files = [
        ("mutex", "tiny-std/src/sync/mutex.rs"),
        ("rwlock", "tiny-std/src/sync/rwlock.rs"),
        ("sync", "tiny-std/src/sync.rs"),
        ("futex", "rusl/src/futex.rs"),
    ]
    tables = {}
    consts = {}
    for mod, rel in files:
        src = open(os.path.join(repo, rel)).read()
        sites = []
        for name, body in functions(src):
            sites += sites_of(name, body)
        tables[mod] = sites
        if mod == "rwlock":
            raw = consts_of(src)
            env = {}
            for _ in range(4):
                for k, v in raw.items():
                    val = eval_const(v, env)
                    if val is not None:
                        env[k] = val
            consts = env
    # spin count and literal comparisons in mutex.rs that steer control flow
    msrc = strip_comments(open(os.path.join(repo, files[0][1])).read())
    spin = re.search(r"let\s+mut\s+spin\s*=\s*(\d+)", msrc)
    extra = {
        "mutex_spin": int(spin.group(1)) if spin else -1,
        "mutex_unlock_wake_if": (re.search(r"swap\(\s*0\s*,\s*\w+\s*\)\s*==\s*(\d+)", msrc) or [None, "-1"])[1],
        "mutex_loop_skip_if_state": (re.search(r"state\s*!=\s*(\d+)\s*&&", msrc) or [None, "-1"])[1],
        "mutex_swap_acquired_if": (re.search(r"swap\(\s*2\s*,\s*\w+\s*\)\s*==\s*(\d+)", msrc) or [None, "-1"])[1],
        "mutex_spin_stop_unless": (re.search(r"state\s*!=\s*(\d+)\s*\|\|\s*spin\s*==\s*0", msrc) or [None, "-1"])[1],
    }
    rsrc = strip_comments(open(os.path.join(repo, files[1][1])).read())
    rspin = re.search(r"let\s+mut\s+spin\s*=\s*(\d+)", rsrc)
    extra["rwlock_spin"] = int(rspin.group(1)) if rspin else -1
    fsrc = strip_comments(open(os.path.join(repo, files[3][1])).read())
    wait_op = re.search(r"(FUTEX_WAIT\s*[&|]\s*flags\.bits\(\)\.0|FUTEX_WAIT)\s*,", fsrc)
    wake_op = re.search(r"(FUTEX_WAKE\s*[&|]\s*[^,]+|FUTEX_WAKE)\s*,", fsrc)
    # key kind: `FUTEX_WAIT & flags` = 0 & x = plain FUTEX_WAIT (shared); `|` with PRIVATE = private
    wait_private = bool(wait_op and "|" in wait_op.group(1))
    wake_private = bool(wake_op and "|" in wake_op.group(1))
    lines = ["/- GENERATED by checks/sync_extract.py from /repo (tiny-std/src/sync*.rs, rusl/src/futex.rs). Do not edit. -/",
             "namespace TinyVerif.Gen.Sync", "",
             "inductive Ord where | relaxed | acquire | release | acqrel | seqcst", "  deriving Repr, DecidableEq", "",
             "structure Site where", "  fn : String", "  op : String", "  loc : String", "  vals : List String", "  ords : List Ord",
             "  deriving Repr, DecidableEq", ""]
    for mod in ["mutex", "rwlock", "sync", "futex"]:
        lines.append("def %sSites : List Site := [" % mod)
        rows = []
        for s in tables[mod]:
            rows.append("  ⟨%s, %s, %s, [%s], [%s]⟩" % (lean_str(s["fn"]), lean_str(s["op"]), lean_str(s["loc"]),
                                                   ", ".join(lean_str(v) for v in s["vals"]),
                                                   ", ".join(".%s" % o for o in s["ords"])))
        lines.append(",\n".join(rows))
        lines.append("]")
        lines.append("")
    for k in sorted(consts):
        lines.append("def c_%s : Nat := %d" % (k, consts[k]))
    for k in sorted(extra):
        lines.append("def %s : Int := %s" % (k, extra[k]))
    lines.append("def futexWaitPrivate : Bool := %s" % ("true" if wait_private else "false"))
    lines.append("def futexWakePrivate : Bool := %s" % ("true" if wake_private else "false"))
    lines += ["", "end TinyVerif.Gen.Sync", ""]
    text = "\n".join(lines)
    path = os.path.join(C.LEAN, "TinyVerif", "Gen", "SyncSites.lean")
    os.makedirs(os.path.dirname(path), exist_ok=True)
    if not os.path.exists(path) or open(path).read() != text:
        open(path, "w").write(text)
    return {"tables": tables, "consts": consts, "extra": extra, "wait_private": wait_private, "wake_private": wake_private}


if __name__ == "__main__":
    import json
    r = generate()
    print(json.dumps({k: (len(v) if isinstance(v, list) else v) for k, v in r["tables"].items()}))
    print(r["consts"], r["extra"], r["wait_private"], r["wake_private"])
