"""Translator (tie T) for C01/C02: regenerates lean/TinyVerif/Gen/SyncSites.lean from the *current*
/repo sources — every atomic / futex call site of tiny-std/src/sync/mutex.rs, tiny-std/src/sync/rwlock.rs,
tiny-std/src/sync.rs (`futex_wait_fast`) and rusl/src/futex.rs.

The extraction is *semantic*, not positional:
 * named constants (`const NAME: T = EXPR;`, also `Ordering` aliases) are resolved, operands that are bound
   once by a call-free `let` in the same function are substituted, constant sub-expressions are evaluated;
   `Ordering::Acquire`, `atomic::Ordering::Acquire`, `Acquire` are the same ordering;
 * every read-modify-write of a lock word gets a *role* from what it does to the word (not from where it
   stands): `acquire` = may take the lock (mutex: writes a non-zero state; rwlock: may raise the count field
   or set it to WRITE_LOCKED — decided by evaluating the new-value expression on sample states), `release` =
   gives it up (mutex: writes 0; rwlock: `fetch_sub` on `state`), `keep` = provably leaves the holder count
   alone or zero (waiting-bit bookkeeping), `both` = cannot tell (must then be acquire *and* release);
 * an ordering argument that is not a literal/alias is emitted as `.unknown`: the Lean side then declares the
   static table "not understood" and relies on the orderings observed at run time (Gen/MutexObs.lean,
   Gen/RwObs.lean, written by checks/c01.py / c02.py from the traces of the running code).
The Lean side (`Props/C01.lean`, `Props/C02.lean`) states position-independent obligations over this table
(every acquiring RMW ⊇ Acquire, every releasing RMW ⊇ Release, no plain store to a lock word, same futex key
kind for wait and wake).  The per-function *shape* is reported (`shape_report`) but is informational: the
operation sequence is pinned by the trace correspondence (every trace of the real code is a run of `step`).
Stdlib only."""
import itertools
import os
import re

from . import common as C

ORD = {"Relaxed": "relaxed", "Acquire": "acquire", "Release": "release", "AcqRel": "acqrel", "SeqCst": "seqcst"}
# how the scheduler shim prints an ordering in a trace event
TRACE_ORD = {"relaxed": "rlx", "acquire": "acq", "release": "rel", "acqrel": "acqrel", "seqcst": "sc", "unknown": "?"}
TRACE_OP = {"compare_exchange": "cas", "compare_exchange_weak": "casw", "swap": "swap", "fetch_add": "fadd",
            "fetch_sub": "fsub", "load": "load", "store": "store"}

MASK30 = (1 << 30) - 1


def strip_comments(src):
    src = re.sub(r"//[^\n]*", "", src)
    src = re.sub(r"/\*.*?\*/", "", src, flags=re.S)
    return src


def functions(src):
    """yield (name, body) for every `fn` with a brace-matched body (tests module excluded)"""
    src = strip_comments(src)
    cut = src.find("#[cfg(test)]")
    if cut >= 0:
        src = src[:cut]
    for m in re.finditer(r"\bfn\s+([A-Za-z_0-9]+)\s*(?:<[^>{]*>)?\s*\(", src):
        i = src.find("{", m.end())
        semi = src.find(";", m.end())
        if i < 0 or (0 <= semi < i):
            continue
        depth, j = 0, i
        while j < len(src):
            if src[j] == "{":
                depth += 1
            elif src[j] == "}":
                depth -= 1
                if depth == 0:
                    break
            j += 1
        yield m.group(1), src[i:j + 1]


def split_args(s):
    out, depth, cur = [], 0, ""
    for ch in s:
        if ch in "([{":
            depth += 1
        elif ch in ")]}":
            depth -= 1
        if ch == "," and depth == 0:
            out.append(cur.strip())
            cur = ""
        else:
            cur += ch
    if cur.strip():
        out.append(cur.strip())
    return out


def call_args(body, start):
    depth, j = 0, start
    while j < len(body):
        if body[j] == "(":
            depth += 1
        elif body[j] == ")":
            depth -= 1
            if depth == 0:
                return body[start + 1:j], j
        j += 1
    return body[start + 1:], len(body)


SITE_RE = re.compile(r"\.\s*(load|store|swap|compare_exchange_weak|compare_exchange|fetch_add|fetch_sub|fetch_update)\s*\(|\b(futex_wait_fast|futex_wait|futex_wake)\s*\(")


def norm(a):
    return re.sub(r"\s+", "", a)


def sites_of(fname, body):
    """legacy purely syntactic site list (used by checks/thread_extract.py); C01/C02 use `sem_sites`"""
    out = []
    for m in SITE_RE.finditer(body):
        op = m.group(1) or m.group(2)
        args, _ = call_args(body, m.end() - 1)
        parts = split_args(args)
        ords = [ORD[p] for p in parts if p in ORD]
        vals = [norm(p) for p in parts if p not in ORD]
        if op == "fetch_update":
            vals = []  # closure: its CAS is core's own loop
        # which atomic: text right before the call
        recv = body[max(0, m.start() - 120):m.start()]
        rm = re.search(r"self\s*\.\s*([a-z_]+)\s*$", recv)
        loc = rm.group(1) if rm else ("arg" if m.group(2) else "futex")
        if m.group(2):
            am = re.match(r"&?\s*self\s*\.\s*([a-z_]+)", parts[0]) if parts else None
            loc = am.group(1) if am else "arg"
            vals = vals[1:]
        out.append({"fn": fname, "op": op, "loc": loc, "vals": vals, "ords": ords})
    return out


# ---------------------------------------------------------------- constants / expressions

def consts_of(src):
    """numeric constants `const NAME: <int type> = EXPR;` (unevaluated text)"""
    out = {}
    src = strip_comments(src)
    cut = src.find("#[cfg(test)]")
    if cut >= 0:
        src = src[:cut]
    for m in re.finditer(r"\bconst\s+([A-Z][A-Z_0-9]*)\s*:\s*(?:u8|u16|u32|u64|usize|i8|i16|i32|i64|isize)\s*=\s*([^;]+);", src):
        out[m.group(1)] = norm(m.group(2))
    return out


def ord_consts_of(src):
    """ordering aliases `const NAME: Ordering = Ordering::X;`"""
    out = {}
    for m in re.finditer(r"\bconst\s+([A-Z][A-Z_0-9]*)\s*:\s*(?:[A-Za-z_:]*::)?Ordering\s*=\s*([^;]+);", strip_comments(src)):
        o = parse_ord(m.group(2), {})
        if o:
            out[m.group(1)] = o
    return out


def parse_ord(tok, ord_consts):
    t = norm(tok)
    m = re.fullmatch(r"(?:(?:(?:core|std)::)?(?:sync::)?atomic::)?(?:Ordering::)?([A-Za-z]+)", t)
    if m and m.group(1) in ORD:
        return ORD[m.group(1)]
    return ord_consts.get(t)


def _py_expr(e):
    e = e.replace("u32::MAX", str(2**32 - 1)).replace("i32::MAX", str(2**31 - 1))
    e = re.sub(r"\b\d[0-9a-fA-Fx_]*", lambda m: m.group(0).replace("_", ""), e)
    e = re.sub(r"\b(\d+|0x[0-9a-fA-F]+)(?:u8|u16|u32|u64|usize|i8|i16|i32|i64|isize)\b", r"\1", e)
    e = re.sub(r"\bas(?:u32|usize|u64|i32)\b", "", e)
    e = re.sub(r"!(?!=)", "~", e)
    return e


class U32:
    """u32 with Rust's wrapping-free arithmetic reproduced modulo 2^32 (operator precedences of the operators used
    here are the same in Rust and Python; `!` is spelt `~`)"""
    __slots__ = ("v",)

    def __init__(self, v):
        self.v = int(v) & 0xFFFFFFFF

    def _b(f):
        return lambda a, b: U32(f(a.v, b.v if isinstance(b, U32) else int(b)))
    __add__ = _b(lambda a, b: a + b)
    __sub__ = _b(lambda a, b: a - b)
    __mul__ = _b(lambda a, b: a * b)
    __and__ = _b(lambda a, b: a & b)
    __or__ = _b(lambda a, b: a | b)
    __xor__ = _b(lambda a, b: a ^ b)
    __lshift__ = _b(lambda a, b: a << (b & 31))
    __rshift__ = _b(lambda a, b: a >> (b & 31))

    def __invert__(self):
        return U32(0xFFFFFFFF ^ self.v)

    def __neg__(self):
        return U32(-self.v)


def _eval_u32(t):
    if not re.fullmatch(r"[0-9a-fA-Fx()<>|&^+\-*~]+", t):
        return None
    t = re.sub(r"\b(0x[0-9a-fA-F]+|\d+)\b", r"U32(\1)", t)
    try:
        r = eval(t, {"__builtins__": {}, "U32": U32})
        return r.v if isinstance(r, U32) else None
    except Exception:
        return None


def eval_const(expr, env):
    """value of a constant expression over `env` (u32 arithmetic), or None"""
    e = norm(expr)
    for k in sorted(env, key=len, reverse=True):
        e = re.sub(r"\b%s\b" % re.escape(k), "(%d)" % env[k], e)
    return _eval_u32(_py_expr(e))


def resolve_consts(raw):
    env = {}
    for _ in range(6):
        for k, v in raw.items():
            val = eval_const(v, env)
            if val is not None:
                env[k] = val
    return env


LET_RE = re.compile(r"\blet\s+(?:mut\s+)?([a-z_][a-z_0-9]*)\s*(?::\s*[A-Za-z0-9_:<>]+\s*)?=\s*([^;{}]+);")


def simple_lets(body):
    """locals bound exactly once, never re-assigned, by an expression without any call: safe to substitute"""
    flat = re.sub(r"\s+", " ", body)
    found = {}
    for m in LET_RE.finditer(flat):
        found.setdefault(m.group(1), []).append(norm(m.group(2)))
    out = {}
    for name, rhss in found.items():
        if len(rhss) != 1:
            continue
        rhs = rhss[0]
        if re.search(r"[A-Za-z_0-9]\(|\.[a-z_]|\?|\bmatch\b|\bif\b|\bloop\b|\bSome\b|\|\|", rhs):
            continue
        if re.search(r"(?<!let )(?<!mut )\b%s\s*(?:[-+|&^*/]|<<|>>)?=(?!=)" % re.escape(name), flat):
            continue
        out[name] = rhs
    return out


IDENT_RE = re.compile(r"(?<![\w.:])([a-z_][a-z_0-9]*)\b(?!\s*[(:!])")


def resolve_operand(expr, env, lets):
    """canonical text of an operand: lets substituted, constants replaced by their values, constant
    expressions evaluated"""
    e = norm(expr)
    for _ in range(3):
        v = eval_const(e, env)
        if v is not None:
            return str(v)
        changed = False

        def sub(m):
            nonlocal changed
            n = m.group(1)
            if n in lets and n != e:
                changed = True
                r = lets[n]
                return "(%s)" % r if re.search(r"[|&^+\-*<>]", r) else r
            if n in lets:
                changed = True
                return lets[n]
            return n
        e = IDENT_RE.sub(sub, e)
        if not changed:
            break
    v = eval_const(e, env)
    if v is not None:
        return str(v)
    for k in sorted(env, key=len, reverse=True):
        e = re.sub(r"(?<![\w.:])%s\b" % re.escape(k), str(env[k]), e)
    return e


def free_idents(e):
    return sorted(set(IDENT_RE.findall(e)) - {"as", "u32", "usize"})


def eval_with(e, assign):
    t = e
    for k in sorted(assign, key=len, reverse=True):
        t = re.sub(r"(?<![\w.:])%s\b" % re.escape(k), "(%d)" % assign[k], t)
    return _eval_u32(_py_expr(t))


RW_SAMPLES = [0, 1, 2, 7, MASK30 - 1, MASK30, 1 << 30, 1 << 31, 3 << 30, 1 | (1 << 30), 5 | (1 << 31),
              MASK30 | (1 << 31), MASK30 | (1 << 30), 3 | (3 << 30)]


def rw_cas_role(cur, new):
    """role of `compare_exchange*(cur, new)` on the rwlock state word: `keep` iff for every sampled value of the
    free variables the count field (low 30 bits) of the new value equals that of the expected value or is zero
    (then the exchange cannot create a guard); otherwise `acquire` (safe direction)"""
    ids = sorted(set(free_idents(cur)) | set(free_idents(new)))
    if len(ids) > 3:
        return "acquire"
    for combo in itertools.product(RW_SAMPLES, repeat=len(ids)):
        a = dict(zip(ids, combo))
        c, n = eval_with(cur, a), eval_with(new, a)
        if c is None or n is None:
            return "acquire"
        if not ((n & MASK30) == (c & MASK30) or (n & MASK30) == 0):
            return "acquire"
    return "keep"


def const_role(new):
    """mutex lock word: 0 = unlocked"""
    if re.fullmatch(r"\d+", new):
        return "release" if int(new) == 0 else "acquire"
    return "both"


ARITY = {"load": (0, 1), "store": (1, 1), "swap": (1, 1), "fetch_add": (1, 1), "fetch_sub": (1, 1),
         "compare_exchange": (2, 2), "compare_exchange_weak": (2, 2)}
RMW = {"swap", "fetch_add", "fetch_sub", "compare_exchange", "compare_exchange_weak", "fetch_update"}


def lock_word_of(bodies):
    """the atomic that is the lock word of a file: the receiver of most compare-exchange sites (ties: first seen);
    found by what is done to it, not by its field name"""
    score, order = {}, []
    for body in bodies:
        for m in SITE_RE.finditer(body):
            if not m.group(1):
                continue
            recv = body[max(0, m.start() - 160):m.start()]
            rm = re.search(r"self\s*\.\s*([a-z_][a-z_0-9]*)\s*$", recv)
            if not rm:
                continue
            if rm.group(1) not in score:
                score[rm.group(1)] = 0
                order.append(rm.group(1))
            if m.group(1).startswith("compare_exchange") or m.group(1) in ("fetch_sub", "fetch_update"):
                score[rm.group(1)] += 1
    if not order:
        return None, []
    lw = max(order, key=lambda k: (score[k], -order.index(k)))
    return lw, [lw] + [k for k in order if k != lw]


def sem_sites(mod, fname, body, env, ord_consts, lockword=None):
    lets = simple_lets(body)
    out = []
    for m in SITE_RE.finditer(body):
        op = m.group(1) or m.group(2)
        args, _ = call_args(body, m.end() - 1)
        parts = split_args(args)
        recv = body[max(0, m.start() - 160):m.start()]
        rm = re.search(r"self\s*\.\s*([a-z_][a-z_0-9]*)\s*$", recv)
        rl = re.search(r"(?<![\w.])([a-z_][a-z_0-9]*)\s*$", recv)
        if m.group(2):
            am = re.match(r"&?\s*self\s*\.\s*([a-z_][a-z_0-9]*)", parts[0]) if parts else None
            loc = am.group(1) if am else "arg"
            vals = [resolve_operand(p, env, lets) for p in parts[1:]]
            ords = []
            role = "wait" if "wait" in op else "wake"
        else:
            loc = rm.group(1) if rm else (rl.group(1) if rl else "?")
            if op == "fetch_update":
                nv, no = 0, 2
                oparts, vparts = parts[:2], []
            else:
                nv, no = ARITY[op]
                vparts, oparts = parts[:nv], parts[nv:nv + no]
            vals = [resolve_operand(p, env, lets) for p in vparts]
            ords = [(parse_ord(p, ord_consts) or "unknown") for p in oparts]
            while len(ords) < no:
                ords.append("unknown")
            role = "load" if op == "load" else "store" if op == "store" else "both"
            if mod == "mutex" and op in RMW:
                if op == "swap" and vals:
                    role = const_role(vals[0])
                elif op.startswith("compare_exchange") and len(vals) == 2:
                    role = const_role(vals[1])
            elif mod == "rwlock" and op in RMW:
                if loc != lockword:
                    role = "notify"
                elif op == "fetch_sub":
                    role = "release"
                elif op in ("fetch_add", "fetch_update"):
                    role = "acquire"
                elif op.startswith("compare_exchange") and len(vals) == 2:
                    role = rw_cas_role(vals[0], vals[1])
            elif mod not in ("mutex", "rwlock") and op in RMW:
                role = "other"
        out.append({"fn": fname, "op": op, "loc": loc, "vals": vals, "ords": ords, "role": role,
                    "raw": norm(args)[:160]})
    return out


# ---------------------------------------------------------------- spin budget, futex key kind (static)

def spin_budget(src, env):
    """the spin budget of the function that polls with `spin_loop()`: `let mut n = B; … n -= 1` or
    `for _ in 0..B { … }`; None when the loop is written some other way (then the traces decide)"""
    for name, body in functions(src):
        if "spin_loop" not in body:
            continue
        for m in re.finditer(r"let\s+mut\s+([a-z_][a-z_0-9]*)\s*(?::\s*\w+\s*)?=\s*([^;]+);", body):
            if re.search(r"\b%s\s*-=\s*1\b" % re.escape(m.group(1)), body):
                v = eval_const(m.group(2), env)
                if v is not None:
                    return v
        m = re.search(r"for\s+\w+\s+in\s+0\s*\.\.\s*([^{=]+)\{", body)
        if m:
            v = eval_const(m.group(1), env)
            if v is not None:
                return v
    return None


def futex_key_kinds(fsrc):
    """(wait_private, wake_private, understood).  FUTEX_WAIT = 0, so `FUTEX_WAIT & flags` is the plain (shared)
    operation whatever the flags; `FUTEX_WAIT | flags` carries the caller's PRIVATE flag"""
    bodies = dict(functions(fsrc))
    wb, kb = bodies.get("futex_wait"), bodies.get("futex_wake")
    understood = True

    def kind(body, name):
        nonlocal understood
        if body is None or name not in body:
            understood = False
            return False
        if re.search(r"\bFUTEX_PRIVATE_FLAG\b|\b%s_PRIVATE\b" % name, body):
            return True
        m = re.search(r"\b%s\s*([&|])\s*[A-Za-z_(]" % name, body)
        if m:
            return m.group(1) == "|"
        if re.search(r"[&|^+]\s*%s\b" % name, body):
            understood = False   # combined with something in a form this reader does not model: the probe decides
        return False
    return kind(wb, "FUTEX_WAIT"), kind(kb, "FUTEX_WAKE"), understood


# ---------------------------------------------------------------- expected (as-modelled) shapes, informational

EXPECTED_SHAPE = {
    "mutex": [("try_lock", "compare_exchange", "futex", ["0", "1"]), ("lock", "compare_exchange", "futex", ["0", "1"]),
              ("lock_contended", "compare_exchange", "futex", ["0", "1"]), ("lock_contended", "swap", "futex", ["2"]),
              ("lock_contended", "futex_wait_fast", "futex", ["2"]), ("spin", "load", "futex", []),
              ("unlock", "swap", "futex", ["0"]), ("wake", "futex_wake", "futex", ["1"])],
    "rwlock": [("try_read", "fetch_update", "state", []), ("read", "load", "state", []),
               ("read", "compare_exchange_weak", "state", ["state", "state+1"]), ("read_unlock", "fetch_sub", "state", ["1"]),
               ("read_contended", "compare_exchange_weak", "state", ["state", "state+1"]),
               ("read_contended", "compare_exchange", "state", ["state", "state|1073741824"]),
               ("read_contended", "futex_wait_fast", "state", ["state|1073741824"]),
               ("try_write", "fetch_update", "state", []), ("write", "compare_exchange_weak", "state", ["0", "1073741823"]),
               ("write_unlock", "fetch_sub", "state", ["1073741823"]),
               ("write_contended", "compare_exchange_weak", "state", ["state", "state|1073741823|other_writers_waiting"]),
               ("write_contended", "compare_exchange", "state", ["state", "state|2147483648"]),
               ("write_contended", "load", "writer_notify", []), ("write_contended", "load", "state", []),
               ("write_contended", "futex_wait_fast", "writer_notify", ["seq"]),
               ("wake_writer_or_readers", "compare_exchange", "state", ["state", "0"]),
               ("wake_writer_or_readers", "compare_exchange", "state", ["state", "1073741824"]),
               ("wake_writer_or_readers", "compare_exchange", "state", ["state", "0"]),
               ("wake_writer_or_readers", "futex_wake", "state", ["2147483647"]),
               ("wake_writer", "fetch_add", "writer_notify", ["1"]), ("wake_writer", "futex_wake", "writer_notify", ["1"]),
               ("spin_until", "load", "state", [])],
    "sync": [("futex_wait_fast", "load", "futex", []),
             ("futex_wait_fast", "futex_wait", "arg", ["expect", "FutexFlags::PRIVATE", "None"])],
}


def shape_report(tables):
    """does the static table still have exactly the per-function shape the model was written from?"""
    rep = {}
    for mod, exp in EXPECTED_SHAPE.items():
        got = [(s["fn"], s["op"], s["loc"], s["vals"]) for s in tables[mod]]
        rep[mod] = "as-modelled" if got == [(a, b, c, list(d)) for a, b, c, d in exp] else \
            "differs from the shape the model was written from (informational; the trace correspondence pins the operation sequence)"
    return rep


def lean_str(s):
    return '"' + s.replace("\\", "\\\\").replace('"', '\\"') + '"'


def write_if_changed(path, text):
    os.makedirs(os.path.dirname(path), exist_ok=True)
    if not os.path.exists(path) or open(path).read() != text:
        tmp = path + ".tmp%d" % os.getpid()
        open(tmp, "w").write(text)
        os.replace(tmp, path)


def generate(repo=None):
    repo = repo or C.REPO
    files = [
        ("mutex", "tiny-std/src/sync/mutex.rs"),
        ("rwlock", "tiny-std/src/sync/rwlock.rs"),
        ("sync", "tiny-std/src/sync.rs"),
        ("futex", "rusl/src/futex.rs"),
    ]
    tables, envs, srcs, lock_locs = {}, {}, {}, {}
    # a lock may keep part of its code in sibling files of tiny-std/src/sync/ (e.g. the raw futex lock split out of
    # mutex.rs): such a file belongs to every lock module that names it (`mod x;` is declared in sync.rs, the user
    # says `super::x::` / `crate::sync::x::` / `use super::x`), and is read together with it
    sync_dir = os.path.join(repo, "tiny-std/src/sync")
    siblings = {}
    if os.path.isdir(sync_dir):
        for dp, _, fns_ in os.walk(sync_dir):
            for fn_ in sorted(fns_):
                if fn_.endswith(".rs") and fn_ not in ("mutex.rs", "rwlock.rs"):
                    name = "mod" if fn_ == "mod.rs" else fn_[:-3]
                    if fn_ == "mod.rs":
                        name = os.path.basename(dp)
                    siblings[name] = open(os.path.join(dp, fn_)).read()
    for mod, rel in files:
        src = open(os.path.join(repo, rel)).read()
        if mod in ("mutex", "rwlock"):
            seen, todo = set(), [src]
            while todo:
                text = todo.pop()
                for name, body in siblings.items():
                    if name not in seen and re.search(r"\b%s\s*::|\buse\s+(?:super|crate::sync)::%s\b|\bmod\s+%s\s*;" % (name, name, name), text):
                        seen.add(name)
                        # the tests module of a file ends what `functions` reads: cut it before joining files
                        cut = src.find("#[cfg(test)]")
                        bcut = body.find("#[cfg(test)]")
                        src = (src[:cut] if cut >= 0 else src) + "\n" + (body[:bcut] if bcut >= 0 else body)
                        todo.append(body)
        srcs[mod] = src
        env = resolve_consts(consts_of(src))
        envs[mod] = env
        oc = ord_consts_of(src)
        sites = []
        fns = list(functions(src))
        lockword, locs = lock_word_of([b for _, b in fns])
        lock_locs[mod] = locs
        for name, body in fns:
            sites += sem_sites(mod, name, body, env, oc, lockword)
        tables[mod] = sites
    consts = envs["rwlock"]
    mspin = spin_budget(srcs["mutex"], envs["mutex"])
    rspin = spin_budget(srcs["rwlock"], envs["rwlock"])
    extra = {"mutex_spin": -1 if mspin is None else mspin, "rwlock_spin": -1 if rspin is None else rspin}
    wait_private, wake_private, key_understood = futex_key_kinds(srcs["futex"])
    lines = ["/- GENERATED by checks/sync_extract.py from /repo (tiny-std/src/sync*.rs, rusl/src/futex.rs). Do not edit.",
             "   Operands: named constants resolved, single call-free `let`s substituted, constant expressions evaluated.",
             "   role: what the operation does to its lock word (acquire / release / keep / both / load / store / notify / wait / wake). -/",
             "namespace TinyVerif.Gen.Sync", "",
             "inductive Ord where | relaxed | acquire | release | acqrel | seqcst | unknown", "  deriving Repr, DecidableEq", "",
             "structure Site where", "  fn : String", "  op : String", "  loc : String", "  vals : List String", "  ords : List Ord",
             "  role : String", "  deriving Repr, DecidableEq", ""]
    for mod in ["mutex", "rwlock", "sync", "futex"]:
        lines.append("def %sSites : List Site := [" % mod)
        rows = []
        for s in tables[mod]:
            rows.append("  ⟨%s, %s, %s, [%s], [%s], %s⟩" % (lean_str(s["fn"]), lean_str(s["op"]), lean_str(s["loc"]),
                                                       ", ".join(lean_str(v) for v in s["vals"]),
                                                       ", ".join(".%s" % o for o in s["ords"]), lean_str(s["role"])))
        lines.append(",\n".join(rows))
        lines.append("]")
        lines.append("")
    lines.append("/-- every integer constant of rwlock.rs, by name -/")
    lines.append("def rwConsts : List (String × Nat) := [%s]" % ", ".join("(%s, %d)" % (lean_str(k), consts[k]) for k in sorted(consts)))
    lines.append("/-- spin budgets as far as the loop form was understood statically (-1: not understood) -/")
    for k in sorted(extra):
        lines.append("def %s : Int := %s" % (k, extra[k]))
    lines.append("def futexWaitPrivate : Bool := %s" % ("true" if wait_private else "false"))
    lines.append("def futexWakePrivate : Bool := %s" % ("true" if wake_private else "false"))
    lines.append("def futexKeyUnderstood : Bool := %s" % ("true" if key_understood else "false"))
    lines += ["", "end TinyVerif.Gen.Sync", ""]
    write_if_changed(os.path.join(C.LEAN, "TinyVerif", "Gen", "SyncSites.lean"), "\n".join(lines))
    return {"tables": tables, "consts": consts, "extra": extra, "wait_private": wait_private, "wake_private": wake_private,
            "key_understood": key_understood, "shape": shape_report(tables), "lock_locs": lock_locs}


# ---------------------------------------------------------------- run-time observation (written by c01.py / c02.py)

LEAN_ORD = {"rlx": "relaxed", "acq": "acquire", "rel": "release", "acqrel": "acqrel", "sc": "seqcst"}


def write_observed(name, rows, spin, wait_private, wake_private):
    """Gen/<name>.lean: what the running code did.  rows = set of (trace-op, role, ordering-as-traced);
    role `acquire` = the RMW that returned the guard (the thread's last atomic operation before the harness saw
    the guard), `release` = the first RMW of the guard's drop."""
    lines = ["/- GENERATED by checks/%s from the traces of the real code running under the scheduler shim" % ("c01.py" if name == "MutexObs" else "c02.py"),
             "   (harness/c01) and from the futex operation words the real rusl::futex passes to the kernel. Do not edit. -/",
             "import TinyVerif.Gen.SyncSites",
             "namespace TinyVerif.Gen.%s" % name, "open TinyVerif.Gen.Sync", "",
             "/-- (operation, role, success ordering) classes observed over all explored schedules -/",
             "def observed : List (String × String × Ord) := ["]
    rr = []
    for op, role, o in sorted(rows):
        rr.append("  (%s, %s, .%s)" % (lean_str(op), lean_str(role), LEAN_ORD.get(o, "unknown")))
    lines.append(",\n".join(rr))
    lines.append("]")
    lines.append("/-- spin budget the traces were accepted with -/")
    lines.append("def spinBudget : Nat := %d" % spin)
    lines.append("/-- FUTEX_PRIVATE_FLAG in the operation word the real futex_wait / futex_wake issued -/")
    lines.append("def futexWaitPrivate : Bool := %s" % ("true" if wait_private else "false"))
    lines.append("def futexWakePrivate : Bool := %s" % ("true" if wake_private else "false"))
    lines += ["", "end TinyVerif.Gen.%s" % name, ""]
    write_if_changed(os.path.join(C.LEAN, "TinyVerif", "Gen", name + ".lean"), "\n".join(lines))


def roles_observed(traces):
    """{(op, role, ordering)} from traces: role of an RMW event by what happened around it"""
    rows = set()
    for t in traces:
        last = {}      # tid -> last RMW event (op, ordering)
        pend = set()   # tids whose next RMW is the releasing one
        for ev in t.split(" ; "):
            w = ev.split()
            if len(w) != 5 or w[0] == "-":
                continue
            tid, op = w[0], w[1]
            kind = re.sub(r"\d+$", "", op)
            if kind in ("cas", "casw", "swap", "fadd", "fsub", "store"):
                o = w[2].split("/")[0]
                ok = not (kind in ("cas", "casw") and not w[4].startswith("ok"))
                if tid in pend:
                    pend.discard(tid)
                    rows.add((kind, "release", o))
                    last.pop(tid, None)
                elif ok:
                    last[tid] = (kind, o)
            elif op == "acq":
                if tid in last:
                    rows.add((last[tid][0], "acquire", last[tid][1]))
                else:
                    rows.add(("none", "acquire", "?"))
                last.pop(tid, None)
            elif op == "rel":
                pend.add(tid)
    return rows


def static_vs_observed(sites, lock_locs, obs_by_op):
    """translator validation: orderings the code passed at run time, per operation kind on the lock word(s),
    must be among the orderings of the static sites of that kind.  Returns (understood, mismatches, notes)."""
    stat = {}
    understood = True
    for s in sites:
        if s["loc"] not in lock_locs or s["op"].startswith("futex"):
            continue
        li = lock_locs.index(s["loc"])
        if "unknown" in s["ords"]:
            understood = False
        tords = [TRACE_ORD[o] for o in s["ords"]]
        if s["op"] == "fetch_update":
            stat.setdefault("casw%d" % li, set()).add("/".join(tords))
            stat.setdefault("load%d" % li, set()).add(tords[1] if len(tords) > 1 else "?")
        elif s["op"] in TRACE_OP:
            stat.setdefault("%s%d" % (TRACE_OP[s["op"]], li), set()).add("/".join(tords))
    bad, notes = [], []
    for k, seen in sorted(obs_by_op.items()):
        if k.startswith("load"):
            continue  # load orderings are not part of any obligation (a load may observe any value in the model)
        if k not in stat:
            # the running code performs an operation of which the extractor found no call site at all: the table
            # is incomplete, i.e. not understood (the observation then carries the configuration)
            understood = False
            notes.append("the running code performs %s (%s) but no such call site was found statically" % (k, ",".join(sorted(seen))))
    if understood:
        for k, seen in sorted(obs_by_op.items()):
            if k.startswith("load"):
                continue
            extra = sorted(x for x in seen if x not in stat[k])
            if extra:
                bad.append({"op": k, "observed": sorted(seen), "static": sorted(stat[k])})
    else:
        notes += ["%s.%s %s(%s): ordering argument is not a literal or alias" % (s["fn"], s["loc"], s["op"], s["raw"])
                  for s in sites if "unknown" in s["ords"]]
    return understood, bad, notes


if __name__ == "__main__":
    import json
    r = generate()
    for mod, t in r["tables"].items():
        for s in t:
            print(mod, s["fn"], s["op"], s["loc"], s["vals"], s["ords"], s["role"])
    print(r["consts"], r["extra"], r["wait_private"], r["wake_private"], r["key_understood"], r["shape"])
