"""C06 — Threads: stack mapping, thread-local block, join state released exactly once in every exit/drop order;
process memory back at baseline.  Same probe, strace mapping, Lean model and driver as C05 (checks/c05.py); this
check proves Props/C06.lean and reports the resource oracles (double/foreign free, stack unmapped once by its own
thread and nothing after it, clear-tid reset before the losing thread frees the block, live heap / VmSize / mapping
list back at baseline except the closures of panicked threads) over batches of up to 64 concurrently live threads."""
from . import c05


def run(ctx):
    c05.run(ctx, which="C06")
