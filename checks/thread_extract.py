"""Translator (tie T) for C05/C06: regenerates lean/TinyVerif/Gen/ThreadSites.lean from the *current*
/repo/tiny-std/src/thread/spawn.rs (+ sync.rs / futex.rs for the wait's key kind):
  * the atomic / futex call sites of `join`, `Drop::drop`, the thread epilogue closure inside `spawn`, and
    `on_panic`, with literal operands and memory orderings;
  * the ordered list of protocol-relevant operations of `spawn` (set-up, the epilogue closure, both error
    paths), of `on_panic`, of `join` and `drop`, as small labels found by position in the function bodies;
  * the system calls of the `__clone` trampoline (x86-64 `mov al, N` immediates) and of the panic epilogue asm;
  * `UNFINISHED`, and the model parameters derived from the above (does spawn inspect `__clone`'s result and
    undo its set-up; does it undo after a failed mmap; the values join/drop wait on; is the clear-tid address
    reset before the losing thread frees the block).
Props/C05.lean re-checks by `decide` that the lists have the shape the hand-written model assumes and that
the derived parameters are the ones the proofs need.  Stdlib only."""
import os
import re

from . import common as C
from . import sync_extract as S

SPAWN_LABELS = [
    ("tsm_init", r"Tsm::init\b"),
    ("call_func", r"\bfunc\(\)"),
    ("write_slot", r"\(\*tsm\.value_mut\(\)\)\s*=\s*Some\("),
    ("cas", r"\.compare_exchange\("),
    ("set_tid_0", r"syscall!\(\s*SET_TID_ADDRESS\s*,\s*0\s*\)"),
    ("drop_value", r"drop_in_place\(\s*tsm\.value_mut::<T>\(\)\s*\)"),
    ("tsm_dealloc", r"\btsm\.dealloc\(\)"),
    ("tls_dealloc", r"\bdealloc\(\s*get_tls_ptr\(\)"),
    ("box_closure", r"onwed_split_fn_once\(df\)"),
    ("mmap", r"(?<![a-z_])mmap\("),
    ("drop_closure", r"\bdrop_fn\(fn_caller\)"),
    ("tls_box", r"Box::new\(ThreadLocalStorage"),
    ("clone", r"__clone\("),
    ("check_clone", r"if\s+clone_res\s*<\s*0"),
    ("drop_tls", r"drop\(Box::from_raw\(tls\)\)"),
    ("munmap", r"(?<![a-z_])munmap\(\s*map_ptr"),
    ("ret_err", r"return\s+Err\("),
    ("ok_handle", r"Ok\(JoinHandle"),
]
PANIC_LABELS = [
    ("tls_read", r"\btls\.read\(\)"),
    ("tls_dealloc", r"\bdealloc\(\s*tls\.cast\(\)"),
    ("cas", r"\.compare_exchange\("),
    ("set_tid_0", r"syscall!\(\s*SET_TID_ADDRESS\s*,\s*0\s*\)"),
    ("tsm_dealloc", r"\btsm\.dealloc\(\)"),
    ("asm_munmap", r'in\("rax"\)\s*MUNMAP'),
    ("asm_exit", r'"mov al, 60"'),
]
JOIN_LABELS = [
    ("wait_once", r"(?<![a-z_])futex_wait_fast\("),
    ("wait", r"wait_for_exit\("),
    ("read_slot", r"get_value::<T>\(\)\s*\.into_inner\(\)"),
    ("tsm_dealloc", r"\.tsm\.dealloc\(\)"),
    ("forget", r"mem::forget\(self\)"),
]
DROP_LABELS = [
    ("cas", r"\.compare_exchange\("),
    ("is_err", r"\.is_err\(\)"),
    ("wait_once", r"(?<![a-z_])futex_wait_fast\("),
    ("wait", r"wait_for_exit\("),
    ("drop_value", r"drop_in_place\(\s*self\.tsm\.value_mut::<T>\(\)\s*\)"),
    ("tsm_dealloc", r"\.tsm\.dealloc\(\)"),
]


def ops(body, labels):
    found = []
    for name, rx in labels:
        for m in re.finditer(rx, body):
            found.append((m.start(), name))
    return [n for _, n in sorted(found)]


def fn_bodies(src):
    out = {}
    for name, body in S.functions(src):
        out.setdefault(name, []).append(body)
    return out


def sites(fname, body):
    out = []
    for s in S.sites_of(fname, body):
        recv = ""
        if s["op"] == "compare_exchange":
            m = re.search(r"get_(sync|futex)\(\)\s*\.\s*compare_exchange", body)
            recv = m.group(1) if m else "?"
            s["loc"] = recv
        if s["op"] == "futex_wait_fast":
            m = re.search(r"futex_wait_fast\(\s*(?:self\.tsm\.get_(futex|sync)\(\)|futex)\s*,\s*([A-Za-z_0-9]+)\s*\)", body)
            s["loc"] = (m.group(1) or "futex") if m else "?"
            s["vals"] = [m.group(2)] if m else ["?"]
        ords = [S.ORD[v.split("::")[-1]] for v in s["vals"] if v.split("::")[-1] in S.ORD]
        if ords:
            s["ords"] = s["ords"] + ords
            s["vals"] = [v for v in s["vals"] if v.split("::")[-1] not in S.ORD]
        out.append(s)
    return out


def asm_immediates(src, start_marker, stop_marker):
    i = src.find(start_marker)
    if i < 0:
        return []
    j = src.find(stop_marker, i)
    seg = src[i:j if j > 0 else len(src)]
    seg = "\n".join(l for l in seg.splitlines() if not l.strip().startswith("//"))
    return [int(x) for x in re.findall(r'"mov al, (\d+)"', seg)]


def value_of(tok, consts):
    if tok is None:
        return None
    if re.fullmatch(r"\d+", tok):
        return int(tok)
    return consts.get(tok)


def generate(repo=None):
    repo = repo or C.REPO
    raw = open(os.path.join(repo, "tiny-std/src/thread/spawn.rs")).read()
    src = S.strip_comments(raw)
    bodies = fn_bodies(src)
    spawn_b = (bodies.get("spawn") or [""])[0]
    join_b = (bodies.get("join") or [""])[0]
    drop_b = (bodies.get("drop") or [""])[0]
    panic_b = (bodies.get("on_panic") or [""])[0]
    consts = {m.group(1): int(m.group(2)) for m in re.finditer(r"const\s+([A-Z_]+)\s*:\s*u32\s*=\s*(\d+)\s*;", src)}
    wait_b = (bodies.get("wait_for_exit") or [""])[0]
    tables = {"join": sites("join", join_b), "drop": sites("drop", drop_b), "spawn": sites("spawn", spawn_b),
              "panic": sites("on_panic", panic_b), "wait": sites("wait_for_exit", wait_b)}
    wait_cmp = re.search(r"while\s+futex\.load\(\s*Ordering::(\w+)\s*\)\s*==\s*([A-Za-z_0-9]+)\s*\{\s*futex_wait_fast\(", wait_b)
    spawn_ops = ops(spawn_b, SPAWN_LABELS)
    panic_ops = ops(panic_b, PANIC_LABELS)
    join_ops = ops(join_b, JOIN_LABELS)
    drop_ops = ops(drop_b, DROP_LABELS)
    # x86-64 trampoline: text between the x86_64 `__clone:` label and the aarch64 block
    clone_asm = asm_immediates(raw, '"__clone:",', '#[cfg(target_arch = "aarch64")]')

    def between(seq, a, b):
        try:
            i = seq.index(a)
            j = seq.index(b, i + 1)
            return seq[i + 1:j]
        except ValueError:
            return []
    epilogue = spawn_ops[:spawn_ops.index("box_closure")] if "box_closure" in spawn_ops else []
    after_clone = between(spawn_ops, "clone", "ok_handle")
    after_mmap = between(spawn_ops, "mmap", "tls_box")
    init_word = consts.get("UNFINISHED")
    w_tok = next((s["vals"][0] for s in tables["wait"] if s["op"] == "futex_wait_fast"), None)
    j_tok = next((s["vals"][0] for s in tables["join"] if s["op"] == "futex_wait_fast"), w_tok if "wait" in join_ops else None)
    d_tok = next((s["vals"][0] for s in tables["drop"] if s["op"] == "futex_wait_fast"), w_tok if "wait" in drop_ops else None)
    # the loop re-reads the word with at least Acquire and leaves only when it differs from the value waited on
    recheck = bool(wait_cmp and wait_cmp.group(1) in ("Acquire", "SeqCst") and wait_cmp.group(2) == w_tok
                   and "wait" in join_ops and "wait" in drop_ops and "wait_once" not in join_ops and "wait_once" not in drop_ops)
    init_tok = re.search(r"AtomicU32::new\(\s*([A-Za-z_0-9]+)\s*\)", (bodies.get("init") or [""])[0])
    derived = {
        "checkClone": after_clone == ["check_clone", "drop_tls", "munmap", "drop_closure", "tsm_dealloc", "ret_err"],
        "mmapCleanup": after_mmap == ["drop_closure", "tsm_dealloc", "ret_err"],
        "initWord": value_of(init_tok.group(1) if init_tok else None, consts),
        "joinExpect": value_of(j_tok, consts),
        "dropExpect": value_of(d_tok, consts),
        "setTidRet": "set_tid_0" in epilogue and "tsm_dealloc" in epilogue and epilogue.index("set_tid_0") < epilogue.index("tsm_dealloc"),
        "recheck": recheck,
        "dropValH": "drop_value" in drop_ops and "tsm_dealloc" in drop_ops and "wait" in drop_ops and drop_ops.index("wait") < drop_ops.index("drop_value") < drop_ops.index("tsm_dealloc"),
        "dropValT": "drop_value" in epilogue and "tsm_dealloc" in epilogue and epilogue.index("drop_value") < epilogue.index("tsm_dealloc"),
        "setTidPanic": "set_tid_0" in panic_ops and "tsm_dealloc" in panic_ops and panic_ops.index("set_tid_0") < panic_ops.index("tsm_dealloc"),
    }
    sync_tab = S.generate(repo)   # also refreshes Gen/SyncSites.lean; gives the futex key kind of wait / wake
    L = S.lean_str
    lines = ["/- GENERATED by checks/thread_extract.py from /repo/tiny-std/src/thread/spawn.rs. Do not edit. -/",
             "namespace TinyVerif.Gen.Thread", "",
             "inductive Ord where | relaxed | acquire | release | acqrel | seqcst", "  deriving Repr, DecidableEq", "",
             "structure Site where", "  fn : String", "  op : String", "  loc : String", "  vals : List String", "  ords : List Ord",
             "  deriving Repr, DecidableEq", ""]
    for name in ["join", "drop", "spawn", "panic", "wait"]:
        lines.append("def %sSites : List Site := [" % name)
        lines.append(",\n".join("  ⟨%s, %s, %s, [%s], [%s]⟩" % (L(s["fn"]), L(s["op"]), L(s["loc"]), ", ".join(L(v) for v in s["vals"]),
                                                             ", ".join("." + o for o in s["ords"])) for s in tables[name]))
        lines.append("]")
        lines.append("")
    for name, seq in [("spawnOps", spawn_ops), ("panicOps", panic_ops), ("joinOps", join_ops), ("dropOps", drop_ops)]:
        lines.append("def %s : List String := [%s]" % (name, ", ".join(L(x) for x in seq)))
    lines.append("def cloneAsmSyscalls : List Nat := [%s]" % ", ".join(str(x) for x in clone_asm))
    lines.append("def unfinished : Option Nat := %s" % ("none" if init_word is None else "some %d" % init_word))
    for k in ["checkClone", "mmapCleanup", "setTidRet", "setTidPanic", "dropValH", "dropValT", "recheck"]:
        lines.append("def %s : Bool := %s" % (k, "true" if derived[k] else "false"))
    for k in ["initWord", "joinExpect", "dropExpect"]:
        # an operand the extractor cannot resolve becomes a value no futex word ever holds: the Lean check then fails
        lines.append("def %s : Nat := %d" % (k, 4294967295 if derived[k] is None else derived[k]))
    lines.append("def futexWaitPrivate : Bool := %s" % ("true" if sync_tab["wait_private"] else "false"))
    lines += ["", "end TinyVerif.Gen.Thread", ""]
    text = "\n".join(lines)
    path = os.path.join(C.LEAN, "TinyVerif", "Gen", "ThreadSites.lean")
    if not os.path.exists(path) or open(path).read() != text:
        open(path, "w").write(text)
    return {"tables": tables, "spawn_ops": spawn_ops, "panic_ops": panic_ops, "join_ops": join_ops, "drop_ops": drop_ops,
            "clone_asm": clone_asm, "derived": derived, "consts": consts, "wait_private": sync_tab["wait_private"]}


if __name__ == "__main__":
    import json
    print(json.dumps(generate(), indent=1, default=str))
