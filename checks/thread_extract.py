"""Translator (tie T) for C05/C06: regenerates lean/TinyVerif/Gen/ThreadSites.lean from the *current* thread implementation:
/repo/tiny-std/src/thread.rs and EVERY .rs under /repo/tiny-std/src/thread/ (one file or several: they are pooled into one unit,
calls are followed across them, `mod::path::f(..)` resolves to f) (+ rusl/src/futex.rs for the wait's key kind).

The extraction is *semantic*, not positional, and ROLE-based, not name-based: the only names relied on are the public API
(`spawn`, `JoinHandle::join`, `Drop for JoinHandle`), the attribute `#[panic_handler]`, std / core / alloc / sc / rusl items
(`AtomicBool`, `compare_exchange`, `dealloc`, `SET_TID_ADDRESS`, `mmap`, `futex_wait_fast` ...).  Everything private is identified by
what it is (`File.roles`): the shared block = the type whose methods hand out `&AtomicBool` / `&AtomicU32`; its slot accessors = its
methods whose signature mentions `Option<`; the thread-pointer function = the one that reads `fs:0`, the thread-local block = what
it points to, "is a spawned thread" = `Some` of an Option field / Option-returning method of that block; the release of the shared
block = a `dealloc` inside a method of the shared block's type, of the thread-local block = a `dealloc` of the thread pointer / with
that block's layout.  Constants are evaluated (`2 * 1024 * 1024`, named consts, `sc::nr::X`), `{NAME}` operands of asm templates are
replaced by the value of their `NAME = const EXPR`.
  * the files are tokenised (comments, strings, attributes, the aarch64 / test items removed) and every function is collected
    with its owner (`impl <block>`, `impl Drop for JoinHandle`), parameters and return type;
  * calls to functions defined in the same file that (transitively) perform a protocol-relevant primitive are
    INLINED into their callers with parameter substitution (`release_unstarted(..)`, `Tsm::into_value`,
    `free_tls`, `wait_for_exit`, `Tsm::init`, `onwed_split_fn_once` ...), so that what counts is what a function
    does, not which helper does it;
  * operations are recognised by what they do: an atomic operation's location is the type of the accessor in its
    receiver chain (`&AtomicBool` = hand-over flag, `&AtomicU32` = exit futex), a `dealloc` is the thread-local
    block's when its layout is `ThreadLocalStorage`'s and the shared block's when it is `Tsm`'s own, the slot is
    read / written through the `value_offset` address, named constants are resolved to numbers, ...;
  * each function is parsed into its control structure (if / if let / match / let-else / loop / while / return / `?`)
    and all *paths* are enumerated; a branch is tagged by what its condition decides (`cas_lost`/`cas_won`,
    `mmap_err`/`mmap_ok`, `clone_neg`/`clone_nonneg`, `is_thread`/`is_main`) in whichever equivalent form it is
    written (`if x.is_err()`, `match x { Err(_) => .. }`, `if !x.is_ok()`, a bool bound first, inverted tails ...);
    the exit-wait loop is recognised in its `while load == V { wait }` and `loop { if load != V { break } wait }` forms;
  * what the extractor does not understand is tagged with a name ending in `?` — never guessed.

The model parameters (`Cfg`) are predicates over those path lists (the same predicates are restated in
Props/C05.lean and re-checked by `decide` there: `gen_params_from_paths`).  A parameter whose paths are not
understood is `None` here: checks/c05.py then takes it from what the running code does (fault-injected /
scheduled probe runs under strace) and says so in the evidence; the proof obligation that the parameters are
the good ones (`gen_cfg_good`) is never skipped.  Stdlib only."""
import os
import re

from . import common as C

ORD = {"Relaxed": "relaxed", "Acquire": "acquire", "Release": "release", "AcqRel": "acqrel", "SeqCst": "seqcst"}

# ------------------------------------------------------------------ tokens

TOK_RE = re.compile(r'''
   (?P<ws>\s+)
 | (?P<lc>//[^\n]*)
 | (?P<bc>/\*.*?\*/)
 | (?P<rstr>b?r(?P<h>\#*)".*?"(?P=h))
 | (?P<str>b?"(?:\\.|[^"\\])*")
 | (?P<chr>b?'(?:\\.[^']*|[^'\\])')
 | (?P<life>'[A-Za-z_][A-Za-z_0-9]*)
 | (?P<id>[A-Za-z_][A-Za-z_0-9]*)
 | (?P<num>\d[\dA-Za-z_]*(?:\.\d+)?)
 | (?P<p>::|->|=>|==|!=|<=|>=|&&|\|\||\.\.=|\.\.|[-+*/%^&|!<>=.,;:\#?@$~(){}\[\]])
''', re.X | re.S)

OPEN = {"(": ")", "[": "]", "{": "}"}
CLOSE = {")": "(", "]": "[", "}": "{"}


class T:
    """a token: kind (id num str chr life p blk), text, provenance (the chain of inlined functions it comes from)"""
    __slots__ = ("k", "s", "prov")

    def __init__(self, k, s, prov=()):
        self.k, self.s, self.prov = k, s, prov

    def __repr__(self):
        return self.s


def tokenize(src):
    out, i = [], 0
    while i < len(src):
        m = TOK_RE.match(src, i)
        if not m:
            i += 1
            continue
        k = m.lastgroup
        if k == "h":
            k = "rstr"
        if k not in ("ws", "lc", "bc"):
            out.append(T("str" if k == "rstr" else k, m.group(0)))
        i = m.end()
    return out


def wordy(t):
    return t.k in ("id", "num", "life")


def compact(toks):
    out, prev = [], None
    for t in toks:
        if prev is not None and wordy(prev) and wordy(t):
            out.append(" ")
        out.append(t.s)
        prev = t
    return "".join(out)


def is_open(t):
    return t.k in ("p", "blk") and t.s in OPEN


def is_close(t):
    return t.k == "p" and t.s in CLOSE


def match_fwd(toks, i):
    """toks[i] opens a bracket: index of its partner (len(toks) if unbalanced)"""
    depth = 0
    for j in range(i, len(toks)):
        if is_open(toks[j]):
            depth += 1
        elif is_close(toks[j]):
            depth -= 1
            if depth == 0:
                return j
    return len(toks)


def match_back(toks, i):
    depth = 0
    for j in range(i, -1, -1):
        if is_close(toks[j]):
            depth += 1
        elif is_open(toks[j]):
            depth -= 1
            if depth == 0:
                return j
    return -1


def angle_fwd(toks, i):
    """toks[i] is `<` of a generic list: index of the matching `>` (`->` is its own token)"""
    depth = 0
    j = i
    while j < len(toks):
        s = toks[j].s
        if is_open(toks[j]):
            j = match_fwd(toks, j)
        elif s == "<":
            depth += 1
        elif s == ">":
            depth -= 1
            if depth == 0:
                return j
        j += 1
    return len(toks)


def angle_back(toks, i):
    """toks[i] is `>` closing a generic list: index of its `<`"""
    depth = 0
    j = i
    while j >= 0:
        s = toks[j].s
        if is_close(toks[j]):
            j = match_back(toks, j)
        elif s == ">" and toks[j].k == "p":
            depth += 1
        elif s == "<":
            depth -= 1
            if depth == 0:
                return j
        j -= 1
    return -1


def split_top(toks, sep=",", angles=False):
    out, cur, j = [], [], 0
    while j < len(toks):
        t = toks[j]
        if is_open(t):
            k = match_fwd(toks, j)
            cur += toks[j:k + 1]
            j = k + 1
            continue
        if angles and t.s == "<" and t.k == "p":
            k = angle_fwd(toks, j)
            cur += toks[j:k + 1]
            j = k + 1
            continue
        if t.k == "p" and t.s == sep:
            out.append(cur)
            cur = []
        else:
            cur.append(t)
        j += 1
    if cur:
        out.append(cur)
    return out


def find_top(toks, pred, start=0):
    """first index >= start at bracket depth 0 (relative to start) with pred(tok)"""
    j = start
    while j < len(toks):
        t = toks[j]
        if pred(t):
            return j
        if is_open(t):
            j = match_fwd(toks, j)
        j += 1
    return len(toks)


# ------------------------------------------------------------------ attributes, cfg'd-out items

def item_end(toks, j):
    """index one past the item / statement that starts at j"""
    while j < len(toks):
        t = toks[j]
        if is_open(t):
            k = match_fwd(toks, j)
            if t.s == "{":
                nxt = toks[k + 1].s if k + 1 < len(toks) else ""
                if nxt == "else" or nxt in (".", "?"):
                    j = k + 1
                    continue
                return k + 2 if nxt == ";" else k + 1
            j = k + 1
            continue
        if t.s == ";" and t.k == "p":
            return j + 1
        j += 1
    return len(toks)


def strip_attrs(toks):
    """removes every attribute; an item under cfg(test) / cfg(target_arch = "aarch64") goes with it (x86-64 is analysed)"""
    out, i = [], 0
    while i < len(toks):
        t = toks[i]
        if t.s == "#" and t.k == "p" and i + 1 < len(toks) and (toks[i + 1].s == "[" or (toks[i + 1].s == "!" and i + 2 < len(toks) and toks[i + 2].s == "[")):
            b = i + 1 if toks[i + 1].s == "[" else i + 2
            e = match_fwd(toks, b)
            body = compact(toks[b + 1:e])
            i = e + 1
            if re.match(r'cfg\((test|target_arch="aarch64")\)$', body):
                # further attributes of the same item, then the item
                while i + 1 < len(toks) and toks[i].s == "#" and toks[i + 1].s == "[":
                    i = match_fwd(toks, i + 1) + 1
                i = item_end(toks, i)
            continue
        out.append(t)
        i += 1
    return out


# ------------------------------------------------------------------ functions of the file

class Fn:
    def __init__(self, name, owner, trait, params, has_self, ret, body):
        self.name, self.owner, self.trait, self.params, self.has_self, self.ret, self.body = name, owner, trait, params, has_self, ret, body

    @property
    def qual(self):
        return (self.owner + "::" if self.owner else "") + self.name


def parse_fns(toks, owner=None, trait=None, out=None):
    out = [] if out is None else out
    i = 0
    while i < len(toks):
        t = toks[i]
        if t.k == "id" and t.s == "impl":
            j = find_top(toks, lambda x: x.s == "{", i + 1)
            head = toks[i + 1:j]
            if head and head[0].s == "<":
                head = head[angle_fwd(head, 0) + 1:]
            names = [x.s for x in head if x.k == "id"]
            tr, ow = None, (names[0] if names else None)
            if "for" in names:
                k = names.index("for")
                tr, ow = (names[0] if k > 0 else None), (names[k + 1] if k + 1 < len(names) else None)
            e = match_fwd(toks, j)
            parse_fns(toks[j + 1:e], ow, tr, out)
            i = e + 1
            continue
        if t.k == "id" and t.s in ("mod", "extern") and owner is None and not any(x.k == "id" and x.s == "fn" for x in toks[i + 1:i + 3]):
            j = find_top(toks, lambda x: x.s in ("{", ";"), i + 1)
            if j < len(toks) and toks[j].s == "{":
                e = match_fwd(toks, j)
                parse_fns(toks[j + 1:e], None, None, out)
                i = e + 1
                continue
            i = j + 1
            continue
        if t.k == "id" and t.s == "fn" and i + 1 < len(toks) and toks[i + 1].k == "id":
            name = toks[i + 1].s
            j = i + 2
            if j < len(toks) and toks[j].s == "<":
                j = angle_fwd(toks, j) + 1
            if j >= len(toks) or toks[j].s != "(":
                i += 1
                continue
            pe = match_fwd(toks, j)
            params, has_self = [], False
            for p in split_top(toks[j + 1:pe], ",", angles=True):
                c = find_top(p, lambda x: x.s == ":")
                pat = p[:c]
                if any(x.s == "self" for x in pat):
                    has_self = True
                    continue
                ids = [x.s for x in pat if x.k == "id" and x.s not in ("mut", "ref")]
                params.append(ids[-1] if len(ids) == 1 else None)
            k = find_top(toks, lambda x: x.s in ("{", ";"), pe + 1)
            ret = compact(toks[pe + 1:k])
            if k < len(toks) and toks[k].s == "{":
                e = match_fwd(toks, k)
                out.append(Fn(name, owner, trait, params, has_self, ret, toks[k + 1:e]))
                i = e + 1
            else:
                i = k + 1
            continue
        if is_open(t):
            i = match_fwd(toks, i) + 1
            continue
        i += 1
    return out


# what makes a function worth inlining: it performs (or reaches) one of the protocol's primitives
PRIM_RE = re.compile(r"\.compare_exchange|\.load\(|\.store\(|\.swap\(|\.fetch_|futex_wait|(?<![\w.])dealloc\(|(?<![\w.])alloc(?:_zeroed)?\(|SET_TID_ADDRESS|"
                     r"\)=Some\(|drop_in_place|(?<![\w.])mmap\(|(?<![\w.])munmap\(|__clone\(|Box::new\(|Box::from_raw\(|\.read\(\)|\.write\(|mem::forget|ManuallyDrop")


# system call numbers (x86-64) by the names `sc::nr` gives them: a constant of another crate the source may name directly
SC_NR = {"CLONE": 56, "MUNMAP": 11, "EXIT": 60, "SET_TID_ADDRESS": 218, "MMAP": 9, "FUTEX": 202, "EXIT_GROUP": 231}


class File:
    """the thread implementation as ONE unit: every file handed in is tokenised and their items pooled (a function is found by what
    it is and does, wherever it lives); ROLES replace names — see `roles`"""

    def __init__(self, src):
        raw_toks = tokenize(src)
        # the function carrying #[panic_handler], whatever it is called
        self.panic_fn = None
        for i, t in enumerate(raw_toks):
            if t.s == "panic_handler" and i >= 2 and raw_toks[i - 1].s == "[" and raw_toks[i - 2].s == "#":
                for j in range(i, min(i + 40, len(raw_toks) - 1)):
                    if raw_toks[j].k == "id" and raw_toks[j].s == "fn" and raw_toks[j + 1].k == "id":
                        self.panic_fn = raw_toks[j + 1].s
                        break
        self.toks = strip_attrs(raw_toks)
        self.fns = parse_fns(self.toks)
        self.by_name = {}
        for f in self.fns:
            self.by_name.setdefault(f.name, []).append(f)
        self.consts = {}
        txt = self.txt = compact(self.toks)
        for m in re.finditer(r"(?:const|static) (\w+):[\w:<>]+=([^;{}]+);", txt):
            self.consts[m.group(1)] = m.group(2)
        self.roles()
        # fixpoint: functions that reach a primitive
        self.interesting = set()
        changed = True
        while changed:
            changed = False
            for f in self.fns:
                if id(f) in self.interesting:
                    continue
                if PRIM_RE.search(compact(f.body)) or any(self.callee(f.body, i, f) is not None and id(self.callee(f.body, i, f)[0]) in self.interesting
                                                          for i in range(len(f.body)) if f.body[i].k == "id" and f.body[i].s in self.by_name):
                    self.interesting.add(id(f))
                    changed = True

    def roles(self):
        """who is who, by what they are — never by what they are called:
        block_type   the type whose methods hand out `&AtomicBool` / `&AtomicU32` (the hand-over flag and the exit word live in it):
                     the thread shared memory block ("Tsm")
        slot_fns     its methods whose signature mentions `Option<` : they address the result slot
        tls_fns      the functions that read the thread pointer (`fs:0` / `tpidr_el0`)
        tls_type     what those return a pointer to: the thread-local block
        tls_opt      the Option-typed fields of tls_type and its methods returning an Option: `Some` = a spawned thread"""
        owners = [f.owner for f in self.fns if f.owner and re.search(r"&('static )?Atomic(Bool|U32)\b", f.ret)]
        self.block_type = max(set(owners), key=owners.count) if owners else None
        self.slot_fns = {f.name for f in self.fns if f.owner == self.block_type and self.block_type and
                         ("Option<" in f.ret or "Option<" in compact(f.body) or "value_offset" in compact(f.body)) and "alloc(" not in compact(f.body)}
        self.tls_fns = {f.name for f in self.fns if re.search(r'asm!\("mov \{\w+\}, ?fs:0"', compact(f.body))}
        self.tls_type = None
        for f in self.fns:
            if f.name in self.tls_fns:
                m = re.search(r"\*(?:mut|const) ([A-Z]\w*)", f.ret)
                if m:
                    self.tls_type = m.group(1)
        self.tls_opt = set()
        if self.tls_type:
            m = re.search(r"struct %s\{" % re.escape(self.tls_type), self.txt)
            if m:
                body = self.txt[m.end():close_paren(self.txt, m.end() - 1)]
                for fld in split_args(body):
                    mm = re.match(r"(?:pub(?:\([\w: ]+\))? ?)?(\w+):Option<", fld)
                    if mm:
                        self.tls_opt.add(mm.group(1))
            self.tls_opt |= {f.name for f in self.fns if f.owner == self.tls_type and "Option<" in f.ret}

    def fn(self, name, owner=None, trait=None):
        for f in self.by_name.get(name, []):
            if (owner is None or f.owner == owner) and (trait is None or f.trait == trait):
                return f
        return None

    def value_of(self, tok, depth=0):
        """numeric value of a literal / named constant of the file; None when it cannot be resolved"""
        if tok is None or depth > 4:
            return None
        tok = tok.strip()
        while tok.startswith("(") and tok.endswith(")"):
            tok = tok[1:-1]
        tok = re.sub(r"^(Self|crate|self|super)::", "", tok)
        m = re.fullmatch(r"(0x[0-9a-fA-F_]+|\d[\d_]*)(?:_?(?:u|i)(?:8|16|32|64|size))?", tok)
        if m:
            return int(m.group(1).replace("_", ""), 0)
        if tok in self.consts:
            return self.value_of(self.consts[tok], depth + 1)
        m = re.fullmatch(r"(?:sc::)?nr::(\w+)", tok)
        if m and m.group(1) in SC_NR:
            return SC_NR[m.group(1)]
        if re.fullmatch(r"[A-Z][A-Z0-9_]*", tok) and tok in SC_NR and re.search(r"use sc::nr::(\{[^}]*\b%s\b[^}]*\}|%s);" % (tok, tok), self.txt):
            return SC_NR[tok]
        # a constant expression: products, sums, shifts, casts of literals and named constants
        e = re.sub(r" as [\w:]+", "", tok)
        if re.search(r"[-+*/|&()<>]", e) and re.fullmatch(r"[\w:+\-*/|&()<> ]+", e):
            def val(mm):
                v = self.value_of(mm.group(0), depth + 1)
                return str(v) if v is not None else "?"
            e2 = re.sub(r"(?:[A-Za-z_][\w]*::)*[A-Za-z_]\w*|0x[0-9a-fA-F_]+|\d[\d_]*(?:_?[ui](?:8|16|32|64|size))?", val, e)
            if "?" not in e2 and re.fullmatch(r"[\d+\-*/|&()<> ]+", e2):
                try:
                    return int(eval(e2.replace("/", "//"), {"__builtins__": {}}, {}))
                except Exception:
                    return None
        return None

    # ---- call sites of same-file functions
    def callee(self, toks, i, cur_fn=None):
        """toks[i] is an identifier naming a function of the file.  -> (Fn, start index of the call expression,
        index of `(`, receiver tokens | None) when this is a call that resolves to it, else None"""
        cands = self.by_name.get(toks[i].s)
        if not cands:
            return None
        j = i + 1
        if j + 1 < len(toks) and toks[j].s == "::" and toks[j + 1].s == "<":
            j = angle_fwd(toks, j + 1) + 1
        if j >= len(toks) or toks[j].s != "(":
            return None
        prev = toks[i - 1] if i > 0 else None
        if prev is not None and prev.k == "id" and prev.s == "fn":
            return None
        if prev is not None and prev.s == "." and prev.k == "p":
            f = next((c for c in cands if c.has_self), None)
            if f is None:
                return None
            s = recv_start(toks, i - 2)
            return f, s, j, toks[s:i - 1]
        if prev is not None and prev.s == "::":
            q = toks[i - 2] if i >= 2 else None
            if q is None or q.k != "id":
                return None
            own = cur_fn.owner if (q.s == "Self" and cur_fn is not None) else q.s
            f = next((c for c in cands if c.owner == own), None)
            if f is None and not q.s[:1].isupper():
                # a module path (`shared::wait_for_exit(..)`, `super::tls::get_tls_ptr()`): the files are one unit here
                f = next((c for c in cands if c.owner is None and not c.has_self), None)
            if f is None:
                return None
            s = i - 2
            while s >= 2 and toks[s - 1].s == "::" and toks[s - 2].k == "id":
                s -= 2
            return f, s, j, None
        f = next((c for c in cands if c.owner is None and not c.has_self), None)
        if f is None:
            return None
        return f, i, j, None


def recv_start(toks, e):
    """toks[e] is the last token of a postfix expression: index of its first token"""
    j = e
    while j >= 0:
        t = toks[j]
        if is_close(t):
            j = match_back(toks, j)
            if j < 0:
                return 0
            # a call / index: what precedes is its callee expression (possibly with a turbofish)
            if j >= 1 and toks[j - 1].s == ">" and toks[j - 1].k == "p":
                a = angle_back(toks, j - 1)
                if a >= 2 and toks[a - 1].s == "::":
                    j = a - 2
                    continue
            if j >= 1 and (toks[j - 1].k == "id" and toks[j - 1].s not in KEYWORDS):
                j -= 1
                continue
            return j
        if t.k in ("id", "num") or t.s == "?":
            if j >= 1 and toks[j - 1].s in (".", "::") and toks[j - 1].k == "p":
                j -= 2
                continue
            return j
        return j + 1
    return 0


KEYWORDS = {"if", "else", "match", "let", "return", "unsafe", "loop", "while", "for", "in", "move", "break", "continue", "as", "mut", "ref", "fn"}


def expand(F, fn, toks=None, stack=(), prov=()):
    """`toks` (default: the body of `fn`) with every call of an interesting same-file function replaced by
    `{ its body }`, parameters substituted by the argument expressions, `self` by the receiver"""
    toks = fn.body if toks is None else toks
    out, i, at = [], 0, {}
    while i < len(toks):
        t = toks[i]
        at[i] = len(out)          # where the output stood when source token i was reached
        c = F.callee(toks, i, fn) if t.k == "id" and t.s in F.by_name else None
        if c is not None and id(c[0]) in F.interesting and c[0].qual not in stack and len(stack) < 6:
            g, s, lp, recv = c
            rp = match_fwd(toks, lp)
            args = [expand(F, fn, a, stack, prov) for a in split_top(toks[lp + 1:rp], ",", angles=False)]
            # drop what was already emitted of the call expression (receiver / path qualifier; the receiver may itself
            # contain a call that was expanded: it is expanded again below, as the receiver)
            if s < i:
                del out[at.get(s, len(out)):]
            if recv is None and g.has_self and args:
                recv, args = args[0], args[1:]
            elif recv is not None:
                recv = expand(F, fn, recv, stack, prov)
            sub = {}
            nprov = prov + (g.qual,)
            body = []
            for name, a in zip(g.params, args):
                if not name:
                    continue
                ca = compact(a)
                m0 = re.match(r"[&*]*(\w+)\(\)", ca)
                if re.fullmatch(r"[&*]*[\w:]+(\.\w+)*(\.\w+(::<[\w<>,: ]*>)?\(\))*( as [\w:*<> ]+)?", ca) or \
                        (m0 and F.by_name.get(m0.group(1)) and re.fullmatch(r"[&*]*\w+\(\)(\.\w+(::<[\w<>,: ]*>)?\(\))*", ca)):
                    sub[name] = a       # a name / field / accessor chain: substituted
                else:
                    # anything that does something is evaluated once, before the body, as the call does
                    body += [T("id", "let", nprov), T("id", name, nprov), T("p", "=", nprov)] + list(a) + [T("p", ";", nprov)]
            for b in g.body:
                if b.k == "id" and b.s == "self" and recv is not None:
                    body += paren(recv, nprov)
                elif b.k == "id" and b.s in sub and not (body and body[-1].s == "." and body[-1].k == "p"):
                    body += paren(sub[b.s], nprov)
                elif b.k == "id" and b.s == "return":
                    body.append(T("id", "inl_return", nprov))
                else:
                    body.append(T(b.k, b.s, nprov))
            out.append(T("blk", "{", nprov))
            out += expand(F, g, body, stack + (g.qual,), nprov)
            out.append(T("p", "}", nprov))
            i = rp + 1
            continue
        out.append(t)
        i += 1
    return out


def paren(toks, prov):
    if len(toks) == 1:
        return [toks[0]]
    return [T("p", "(", prov)] + list(toks) + [T("p", ")", prov)]


# ------------------------------------------------------------------ control structure

def is_struct_brace(toks, i):
    if toks[i].k == "blk":
        return False
    p = toks[i - 1] if i > 0 else None
    if p is None:
        return False
    return (p.k == "id" and p.s[:1].isupper()) or (p.k == "p" and p.s == ">")


def block_open(toks, start):
    """first `{` from start at paren depth 0 that opens a block (the body of an if / match / while)"""
    j = start
    while j < len(toks):
        t = toks[j]
        if t.s == "{" and t.k in ("p", "blk"):
            return j
        if is_open(t):
            j = match_fwd(toks, j)
        j += 1
    return len(toks)


def parse_if(toks, i):
    b = block_open(toks, i + 1)
    cond = toks[i + 1:b]
    e = match_fwd(toks, b)
    then = parse_seq(toks[b + 1:e])
    nxt, els = e + 1, None
    if nxt < len(toks) and toks[nxt].k == "id" and toks[nxt].s == "else":
        if nxt + 1 < len(toks) and toks[nxt + 1].k == "id" and toks[nxt + 1].s == "if":
            node, nxt = parse_if(toks, nxt + 1)
            els = [node]
        elif nxt + 1 < len(toks) and toks[nxt + 1].s == "{":
            e2 = match_fwd(toks, nxt + 1)
            els = parse_seq(toks[nxt + 2:e2])
            nxt = e2 + 1
    pat = None
    if cond and cond[0].k == "id" and cond[0].s == "let":
        q = find_top(cond, lambda x: x.s == "=" and x.k == "p")
        pat, cond = cond[1:q], cond[q + 1:]
    return {"t": "if", "cond": cond, "cseq": parse_seq(cond), "pat": pat, "then": then, "else": els}, nxt


def parse_match(toks, i):
    b = block_open(toks, i + 1)
    scrut = toks[i + 1:b]
    e = match_fwd(toks, b)
    inner, arms, j = toks[b + 1:e], [], 0
    while j < len(inner):
        a = find_top(inner, lambda x: x.s == "=>", j)
        if a >= len(inner):
            break
        pat = inner[j:a]
        k = a + 1
        if k < len(inner) and inner[k].s == "{" and not is_struct_brace(inner, k):
            ke = match_fwd(inner, k)
            body = inner[k + 1:ke]
            j = ke + 1
            if j < len(inner) and inner[j].s == ",":
                j += 1
        else:
            ke = find_top(inner, lambda x: x.s == "," and x.k == "p", k)
            body = inner[k:ke]
            j = ke + 1
        arms.append((pat, parse_seq(body)))
    return {"t": "match", "scrut": scrut, "sseq": parse_seq(scrut), "arms": arms}, e + 1


def parse_seq(toks):
    nodes, cur, i = [], [], 0

    def flush():
        if cur:
            nodes.append({"t": "text", "toks": list(cur)})
            del cur[:]
    while i < len(toks):
        t = toks[i]
        if t.k == "id" and t.s == "if":
            flush()
            node, i = parse_if(toks, i)
            nodes.append(node)
            continue
        if t.k == "id" and t.s == "match":
            flush()
            node, i = parse_match(toks, i)
            nodes.append(node)
            continue
        if t.k == "id" and t.s in ("loop", "while", "for"):
            b = block_open(toks, i + 1)
            if b < len(toks):
                flush()
                e = match_fwd(toks, b)
                cond = toks[i + 1:b]
                nodes.append({"t": "loop", "kind": t.s, "cond": cond, "cseq": parse_seq(cond) if t.s == "while" else [], "body": parse_seq(toks[b + 1:e]),
                              "raw": toks[i:e + 1]})
                i = e + 1
                continue
        if t.k == "id" and t.s == "unsafe" and i + 1 < len(toks) and toks[i + 1].s == "{":
            i += 1
            continue
        if t.s == "{" and t.k in ("p", "blk"):
            e = match_fwd(toks, i)
            if is_struct_brace(toks, i):
                cur += toks[i:e + 1]
            elif t.k == "blk":
                # the body of an inlined function: a `return` inside it ends this block, not the enclosing function
                flush()
                nodes.append({"t": "inl", "body": parse_seq(toks[i + 1:e])})
            else:
                # `let PAT = EXPR else { .. }` : the block runs when the pattern does not match
                if cur and cur[-1].k == "id" and cur[-1].s == "else":
                    st = len(cur) - 1
                    while st > 0 and not (cur[st].k == "id" and cur[st].s == "let"):
                        st -= 1
                    if cur[st].k == "id" and cur[st].s == "let":
                        stmt = cur[st + 1:-1]
                        q = find_top(stmt, lambda x: x.s == "=" and x.k == "p")
                        head = cur[:st]
                        del cur[:]
                        cur += head
                        flush()
                        nodes.append({"t": "if", "cond": stmt[q + 1:], "cseq": parse_seq(stmt[q + 1:]), "pat": stmt[:q], "then": [],
                                      "else": parse_seq(toks[i + 1:e]), "letelse": True})
                        i = e + 1
                        continue
                flush()
                nodes += parse_seq(toks[i + 1:e])
            i = e + 1
            continue
        if t.k == "p" and t.s in ("|", "||") and (i == 0 or toks[i - 1].s in ("=", "(", ",", "move", "return", "{", ";", "=>")):
            # a closure: not executed where it is written
            j = i + 1
            if t.s == "|":
                j = find_top(toks, lambda x: x.s == "|" and x.k == "p", i + 1) + 1
            if j < len(toks) and toks[j].s == "->":
                j = block_open(toks, j)
            if j < len(toks) and toks[j].s == "{":
                e = match_fwd(toks, j)
                body, nxt = toks[j + 1:e], e + 1
            else:
                e = find_top(toks, lambda x: x.k == "p" and x.s in (",", ";", ")"), j)
                body, nxt = toks[j:e], e
            name = None
            c = compact(cur[-4:])
            m = re.search(r"let (?:mut )?(\w+)=(?:move)?$", c)
            if m:
                name = m.group(1)
            flush()
            nodes.append({"t": "closure", "name": name, "body": parse_seq(body), "raw": body})
            i = nxt
            continue
        if t.k == "id" and t.s in ("return", "inl_return", "break"):
            flush()
            j = i + 1
            if t.s == "break" and j < len(toks) and toks[j].k == "life":
                j += 1
            e = find_top(toks, lambda x: x.k == "p" and x.s in (";", ","), j)
            nodes.append({"t": {"return": "ret", "inl_return": "inlret", "break": "brk"}[t.s], "expr": parse_seq(toks[j:e])})
            i = e
            continue
        if t.k == "id" and t.s == "continue":
            flush()
            nodes.append({"t": "cont"})
            i += 1
            continue
        cur.append(t)
        i += 1
    flush()
    return nodes


def all_nodes(seq, into_closures=False):
    for n in seq:
        yield n
        for key in ("cseq", "then", "else", "sseq", "body", "expr"):
            sub = n.get(key)
            if sub and (into_closures or n["t"] != "closure"):
                for x in all_nodes(sub, into_closures):
                    yield x
        if n["t"] == "match":
            for _, b in n["arms"]:
                for x in all_nodes(b, into_closures):
                    yield x


# ------------------------------------------------------------------ one analysed function

class Ana:
    """a top-level function (or the thread's epilogue closure) after inlining: bindings, operations, paths"""

    def __init__(self, F, name, toks, func_param=None, closure_names=(), env_toks=None):
        self.F, self.name, self.toks = F, name, toks
        self.func_param = func_param
        self.closure_names = set(closure_names)
        self.env, self.tuples = {}, []
        self.build_env(env_toks if env_toks is not None else toks)
        self.sites = []
        self.loops = []          # recognised / unrecognised wait loops
        self.seq = parse_seq(toks)
        # operations of every straight-line piece, once, in textual order (closures are analysed on their own)
        for n in all_nodes(self.seq):
            if n["t"] == "text":
                n["ops"] = self.text_ops(n["toks"])

    # ---- `let` bindings (of the function and of everything inlined into it)
    def build_env(self, toks):
        for i, t in enumerate(toks):
            if not (t.k == "id" and t.s == "let"):
                continue
            q = find_top(toks, lambda x: x.k == "p" and x.s in ("=", ";"), i + 1)
            if q >= len(toks) or toks[q].s == ";":
                continue
            e = find_top(toks, lambda x: x.k == "p" and x.s == ";", q + 1)
            pat, init = toks[i + 1:q], compact(toks[q + 1:e])
            c = find_top(pat, lambda x: x.s == ":" and x.k == "p")
            names = [x.s for x in pat[:c] if x.k == "id" and x.s not in ("mut", "ref") and not x.s[:1].isupper()]
            if pat and pat[0].s == "(":
                self.tuples.append((names, init))
            for n in names:
                self.env.setdefault(n, []).append(init)

    def resolves_to(self, expr, rx, depth=0):
        """does the expression — or, when it is a plain variable, what it was bound to — match rx"""
        if re.search(rx, expr):
            return True
        e = expr.strip()
        while e.startswith("(") and e.endswith(")"):
            e = e[1:-1]
        e = re.sub(r"^[&*]+", "", e)
        if depth < 4 and re.fullmatch(r"\w+", e):
            return any(self.resolves_to(i, rx, depth + 1) for i in self.env.get(e, []))
        return False

    # ---- locations of atomic operations
    def loc_of(self, recv, depth=0):
        kinds = {}
        for f in self.F.fns:
            if "AtomicBool" in f.ret:
                kinds[f.name] = "sync"
            elif "AtomicU32" in f.ret:
                kinds[f.name] = "futex"
        calls = re.findall(r"\.(\w+)\(\)", recv)
        for c in reversed(calls):
            if c in kinds:
                return kinds[c]
        if "cast::<AtomicBool>" in recv:
            return "sync"
        if "cast::<AtomicU32>" in recv:
            return "futex"
        e = recv.strip()
        while e.startswith("(") and e.endswith(")"):
            e = e[1:-1]
        e = re.sub(r"^[&*]+", "", e)
        if depth < 4 and re.fullmatch(r"\w+", e):
            for i in self.env.get(e, []):
                r = self.loc_of(i, depth + 1)
                if r != "?":
                    return r
        return "?"

    def is_slot(self, recv):
        """does the expression address the result slot: it mentions the slot's type (`Option<T>` behind the block's value
        offset) or goes through a function of the file that does"""
        if "Option<" in recv or "value_offset" in recv:
            return True
        return any(c in self.F.slot_fns for c in re.findall(r"\.(\w+)(?:::<[^()]*>)?\(\)", recv))

    # ---- operations of a straight-line piece of code, in textual (= evaluation) order
    def text_ops(self, toks):
        s = compact(toks)
        # char offset -> token (for the provenance of a match)
        offs, pos, prev = [], 0, None
        for t in toks:
            if prev is not None and wordy(prev) and wordy(t):
                pos += 1
            offs.append((pos, t))
            pos += len(t.s)
            prev = t

        def prov_at(p):
            best = ()
            for o, t in offs:
                if o > p:
                    break
                best = t.prov
            return best
        found = []
        tls_t = self.F.tls_type
        tls_call = re.compile(r"(?<![\w.])(?:\w+::)*(?:%s)\(\)" % "|".join(sorted(map(re.escape, self.F.tls_fns)) or ["\0"]))

        def add(m, name, extra=None):
            found.append((m.start(), name, extra))
        for m in re.finditer(r"(?<![\w.:])(?:alloc::alloc::|alloc::)?alloc(_zeroed)?\(", s):
            add(m, "tsm_alloc_zeroed" if m.group(1) else "tsm_alloc")
        for m in re.finditer(r"\.write\(AtomicBool::new\((\w+)\)\)", s):
            add(m, "init_flag_false" if m.group(1) == "false" else "init_flag?")
        for m in re.finditer(r"\.write\(AtomicU32::new\(([\w:]+)\)\)", s):
            add(m, "init_word", m.group(1))
        for m in re.finditer(r"\.write\((?:UnsafeCell::new\()?None\)?\)", s):
            add(m, "init_slot_none")
        if self.func_param:
            for m in re.finditer(r"(?<![\w.])\(?%s\)?\(\)" % re.escape(self.func_param), s):
                add(m, "call_func")
        for m in re.finditer(r"\)=Some\(|\.write\(Some\(|\.replace\(Some\(", s):
            add(m, "write_slot")
        for m in re.finditer(r"\.(compare_exchange_weak|compare_exchange|load|store|swap|fetch_\w+)\(", s):
            op = m.group(1)
            recv = s[expr_start(s, m.start()):m.start()]
            args = split_args(s[m.end():close_paren(s, m.end() - 1)])
            ords = [ORD[a.split("::")[-1]] for a in args if a.split("::")[-1] in ORD]
            vals = [a for a in args if a.split("::")[-1] not in ORD]
            loc = self.loc_of(recv)
            site = {"fn": self.name, "op": op, "loc": loc, "vals": vals, "ords": ords}
            self.sites.append(site)
            handover = op.startswith("compare_exchange") or (op in ("swap", "fetch_or") and vals == ["true"] and loc == "sync")
            add(m, "cas" if handover else ("load" if op == "load" else "atomic?"), site)
        for m in re.finditer(r"(?<![\w.])futex_wait_fast\(", s):
            args = split_args(s[m.end():close_paren(s, m.end() - 1)])
            site = {"fn": self.name, "op": "futex_wait_fast", "loc": self.loc_of(args[0]) if args else "?", "vals": args[1:], "ords": []}
            self.sites.append(site)
            add(m, "futex_wait", site)
        for m in re.finditer(r"syscall!\(SET_TID_ADDRESS,([^)]*)\)", s):
            add(m, "set_tid_0" if self.F.value_of(m.group(1)) == 0 else "set_tid?")
        for m in re.finditer(r"drop_in_place\(", s):
            add(m, "drop_value")
        for m in re.finditer(r"(?<![\w.])(?:alloc::alloc::|alloc::)?dealloc\(", s):
            args = s[m.end():close_paren(s, m.end() - 1)]
            prov = prov_at(m.start())
            a0 = (split_args(args) or [""])[0]
            if (tls_t and tls_t in args) or tls_call.search(a0) or self.resolves_to(re.sub(r"\.cast(::<[\w:]+>)?\(\)$", "", a0), tls_call.pattern):
                add(m, "tls_dealloc")
            elif self.F.block_type and any(p.startswith(self.F.block_type + "::") for p in prov):
                add(m, "tsm_dealloc")
            else:
                add(m, "dealloc?")
        for m in re.finditer(r"(?<![\w.])(?:\w+::)*mmap\(", s):
            add(m, "mmap")
        for m in re.finditer(r"(?<![\w.])(?:\w+::)*munmap\(", s):
            add(m, "munmap")
        for m in re.finditer(r"__clone\(", s):
            add(m, "clone")
        for m in re.finditer(r"Box::new\(%s\{" % re.escape(tls_t or "\0"), s):
            add(m, "tls_box")
        for m in re.finditer(r"Box::new\(\(?(?:(\w+)\)?\)|(?:move)?\|)", s):
            if m.group(1) is None or m.group(1) in self.closure_names:
                add(m, "box_closure")
        for m in re.finditer(r"Box::from_raw\((\w+(?:\(\))?(?:\.cast(?:::<[\w:]+>)?\(\))?)\)", s):
            if self.resolves_to(m.group(1), r"%s\{" % re.escape(tls_t or "\0")):
                add(m, "drop_tls")
            elif self.resolves_to(m.group(1), tls_call.pattern):
                add(m, "tls_dealloc")       # the thread's own block, re-boxed and dropped
        split_names = set()
        for names, init in self.tuples:
            if re.search(r"Box::into_raw\(Box::new\(", init):
                split_names |= set(names)
        for m in re.finditer(r"(?<![\w.:])\(?(\w+)\)?\(\(?(\w+)\)?\)", s):
            if m.group(1) in split_names and m.group(2) in split_names:
                add(m, "drop_closure")
        for m in re.finditer(r"(?<![\w.])Ok\((JoinHandle\{|(\w+)\))", s):
            if m.group(2) is None or self.resolves_to(m.group(2), r"JoinHandle\{"):
                add(m, "ok_handle")
        for m in re.finditer(r"(?<![\w.])Err\((?!_\))", s):
            add(m, "ret_err")
        for m in re.finditer(r"\.read\(\)", s):
            recv = s[expr_start(s, m.start()):m.start()]
            prov = prov_at(m.start())
            if self.is_slot(recv) or (self.F.block_type and any(p.startswith(self.F.block_type + "::") and p.split("::")[-1] in self.F.slot_fns for p in prov)):
                add(m, "read_slot")     # through an expression that addresses the slot, or inside an (inlined) slot accessor of the block
            elif self.resolves_to(recv, tls_call.pattern):
                add(m, "tls_read")
        for m in re.finditer(r"mem::forget\(self\)|(?<![\w.])forget\(self\)|ManuallyDrop::new\(self\)", s):
            add(m, "forget")
        for m in re.finditer(r"asm!\(", s):
            body = s[m.end():close_paren(s, m.end() - 1)]
            ins = asm_instructions(self.F, body)
            mr = re.search(r'in\("rax"\)([\w:]+)', body)
            if mr and self.F.value_of(mr.group(1)) == 11 and ins[:1] == ["syscall"] and ins[-1:] == ["syscall"] and "noreturn" in body and \
                    asm_rax_at_syscalls(ins)[1:] == [60]:
                add(m, "asm_unmap_exit")   # munmap (rax = 11 on entry) ; exit (60): registers only in between
            elif "syscall" in ins:
                add(m, "asm?")
        for m in re.finditer(r"(?<![\w.])(?:\$?\w+::)*(?:e?print(?:ln)?|dbg)!\(", s):
            add(m, "print_lock")          # tiny-std's print macros take the non-reentrant stdout / stderr lock, then format their arguments
        for m in re.finditer(r"process::exit\(|(?<![\w.])exit\(", s):
            add(m, "exit_process")
        for m in re.finditer(r"(?<![\w.:])((?:super|self|crate::thread)(?:::\w+)*)::(\w+)\(", s):
            if not m.group(2)[:1].isupper() and m.group(2) not in self.F.by_name:
                add(m, "call?")           # a function of the thread implementation that is in none of the files read: not followed, not guessed
        for m in re.finditer(r"(?<=[\w)\]])\?(?![A-Za-z])", s):
            add(m, "try?")
        found.sort(key=lambda x: x[0])
        return [(n, x) for _, n, x in found]

    # ---- what a condition decides
    def tags_of(self, cond, pat=None):
        """-> (tag when the condition holds / the pattern matches, tag otherwise) or None"""
        c = compact(cond)
        neg = False
        while True:
            if c.startswith("!"):
                neg, c = not neg, c[1:]
            elif c.startswith("(") and close_paren(c, 0) == len(c) - 1:
                c = c[1:-1]
            else:
                break
        r = None
        if pat is not None:
            p = compact(pat)
            if self.resolves_to(c, r"\.compare_exchange(_weak)?\("):
                r = ("cas_lost", "cas_won") if p.startswith("Err") else ("cas_won", "cas_lost") if p.startswith("Ok") else None
            elif self.resolves_to(c, r"(?<![\w.])(\w+::)*mmap\("):
                r = ("mmap_err", "mmap_ok") if p.startswith("Err") else ("mmap_ok", "mmap_err") if p.startswith("Ok") else None
            elif self.F.tls_opt and self.resolves_to(c, r"\.(%s)\b" % "|".join(sorted(map(re.escape, self.F.tls_opt)))):
                r = ("is_thread", "is_main") if p.startswith("Some") else ("is_main", "is_thread") if p.startswith("None") else None
        else:
            cas_err = r"\.compare_exchange(_weak)?\(.*\)\.is_err\(\)$|^matches!\(.*\.compare_exchange(_weak)?\(.*\),Err\(_\)\)$"
            cas_ok = r"\.compare_exchange(_weak)?\(.*\)\.is_ok\(\)$|^matches!\(.*\.compare_exchange(_weak)?\(.*\),Ok\(_\)\)$"
            # `swap(true)` / `fetch_or(true)` return the previous value: true = the other side was first
            rmw_old = r"\.(swap|fetch_or)\(true,[\w:]+\)$"
            if self.resolves_to(c, cas_err) or self.resolves_to(c, rmw_old):
                r = ("cas_lost", "cas_won")
            elif self.resolves_to(c, cas_ok):
                r = ("cas_won", "cas_lost")
            else:
                m = re.fullmatch(r"(.+?)(<=|>=|<|>)(.+)", c)
                if m:
                    a, op, b = m.groups()
                    if self.F.value_of(a) is not None:
                        a, b, op = b, a, {"<": ">", ">": "<", "<=": ">=", ">=": "<="}[op]
                    v = self.F.value_of(b)
                    if self.resolves_to(a, r"__clone\(") and v is not None:
                        if (op, v) == ("<", 0):
                            r = ("clone_neg", "clone_nonneg")
                        elif (op, v) == (">=", 0):
                            r = ("clone_nonneg", "clone_neg")
                m = re.fullmatch(r"(.+)\.is_negative\(\)", c)
                if m and self.resolves_to(m.group(1), r"__clone\("):
                    r = ("clone_neg", "clone_nonneg")
        if r is None:
            return None
        return (r[1], r[0]) if neg else r

    # ---- the exit-wait loop
    def wait_loop(self, node):
        """a loop that contains the futex wait.  Recognised when one iteration is exactly: load the word; leave the
        loop iff it differs from V; otherwise futex_wait_fast(word, V) and go round again."""
        if "wl" in node:
            return node["wl"]
        raw = compact(node["raw"])
        if "futex_wait_fast(" not in raw:
            node["wl"] = None
            return None
        info = node["wl"] = {"recognised": False, "iter": [], "cmp": None, "arg": None, "exit": "break"}
        body = node["body"]
        if node["kind"] == "while":
            body = [{"t": "if", "cond": node["cond"], "cseq": node["cseq"], "pat": None, "then": list(node["body"]) + [{"t": "cont"}], "else": [{"t": "brk", "expr": []}]}]
        elif node["kind"] != "loop":
            self.loops.append(info)
            return info
        cmp_toks = []

        def word_tags(cond, pat=None):
            c = compact(cond)
            m = re.fullmatch(r"(.+?)(==|!=)(.+)", c)
            if not m or pat is not None:
                return None
            a, op, b = m.groups()
            if self.resolves_to(b, r"\.load\(") and not self.resolves_to(a, r"\.load\("):
                a, b = b, a
            if not self.resolves_to(a, r"\.load\("):
                return None
            cmp_toks.append(b)
            return ("word_eq", "word_ne") if op == "==" else ("word_ne", "word_eq")
        w = Walk(self, word_tags)
        r = w.walk(body + [{"t": "cont"}], [[]])
        # leaving the loop by the `return` of the (inlined) helper the loop lives in is a `break` as far as the loop goes;
        # where the path continues afterwards is the path enumeration's business (`exit`)
        paths = ([p + ["break"] for p in r["brk"] + r["inl"]] + [p + ["continue"] for p in r["cont"]] + [p + ["return"] for p in r["ret"]] +
                 [p + ["fallthrough"] for p in r["live"]])
        info["exit"] = "return" if r["inl"] and not r["brk"] else "mixed?" if r["inl"] else "break"
        # the loads are bound before they are compared (`let w = x.load(..)`) or sit inside the condition: either way
        # they are the first operation of the path
        info["iter"] = sorted(set(tuple(p) for p in paths))
        args = [x["vals"][0] if x["vals"] else "?" for nm, x in w.seen if nm == "futex_wait"]
        info["cmp"] = sorted(set(cmp_toks))
        info["arg"] = sorted(set(args))
        good = {("load", "word_ne", "break"), ("load", "word_eq", "futex_wait", "continue")}
        info["recognised"] = set(info["iter"]) == good and len(info["cmp"]) == 1 and info["cmp"] == info["arg"] and info["exit"] != "mixed?"
        self.loops.append(info)
        return info

    def paths(self, tagger=None):
        w = Walk(self, tagger)
        r = w.walk(self.seq, [[]])
        out = ([p + ["return"] for p in r["ret"]] + [p + ["end"] for p in r["live"] + r["inl"]] + [p + ["break?"] for p in r["brk"]] +
               [p + ["continue?"] for p in r["cont"]])
        uniq = []
        for p in out:
            if p not in uniq:
                uniq.append(p)
        return uniq


KEYS = ("ret", "brk", "cont", "inl")


class Walk:
    """path enumeration.  A result is {live: paths that fall through, ret: ended by `return` / `?`, brk / cont: left by
    `break` / `continue` (up to the enclosing loop), inl: ended by a `return` inside an inlined function body (up to the
    end of that body)}"""

    def __init__(self, ana, tagger=None):
        self.a, self.tagger, self.seen = ana, tagger, []

    def is_pure(self, seq):
        r = Walk(self.a, self.tagger).walk(seq or [], [[]])
        return r["live"] == [[]] and not any(r[k] for k in KEYS)

    def walk(self, seq, live):
        res = {"live": [list(p) for p in live], "ret": [], "brk": [], "cont": [], "inl": []}
        for n in seq:
            if not res["live"]:
                break
            t = n["t"]
            if t == "text":
                ops = n["ops"] if "ops" in n else self.a.text_ops(n["toks"])
                for name, extra in ops:
                    if extra is not None:
                        self.seen.append((name, extra))
                    if name == "try?":
                        res["ret"] += [p + ["try_return"] for p in res["live"]]
                    elif name in ("exit_process", "asm_unmap_exit"):
                        # never returns: the path ends here
                        res["ret"] += [p + [name] for p in res["live"]]
                        res["live"] = []
                        break
                    else:
                        res["live"] = [p + [name] for p in res["live"]]
            elif t == "if":
                self.merge(res, self.walk(n["cseq"], res["live"]))
                tags = (self.tagger(n["cond"], n["pat"]) if self.tagger else None) or self.a.tags_of(n["cond"], n["pat"])
                if tags is None and self.is_pure(n["then"]) and self.is_pure(n["else"]):
                    continue
                tags = tags or ("cond?", "cond?")
                a = self.walk(n["then"], [p + [tags[0]] for p in res["live"]])
                b = self.walk(n["else"] or [], [p + [tags[1]] for p in res["live"]])
                res["live"] = []
                for x in (a, b):
                    self.merge(res, x, keep_live=True)
            elif t == "match":
                self.merge(res, self.walk(n["sseq"], res["live"]))
                if all(self.is_pure(b) for _, b in n["arms"]):
                    continue
                base, res["live"] = res["live"], []
                for pat, body in n["arms"]:
                    tags = (self.tagger(n["scrut"], pat) if self.tagger else None) or self.a.tags_of(n["scrut"], pat)
                    x = self.walk(body, [p + [tags[0] if tags else "arm?"] for p in base])
                    self.merge(res, x, keep_live=True)
            elif t == "inl":
                x = self.walk(n["body"], res["live"])
                res["live"] = x["live"] + x["inl"]
                for k in ("ret", "brk", "cont"):
                    res[k] += x[k]
            elif t == "loop":
                info = self.a.wait_loop(n) if self.tagger is None else None
                if info is not None:
                    # the exit wait, as one operation of the path (its sites are recorded by the loop's own analysis)
                    out = [p + ["wait" if info["recognised"] else "wait?"] for p in res["live"]]
                    if info.get("exit") == "return":
                        res["inl"] += out
                        res["live"] = []
                    else:
                        res["live"] = out
                    continue
                base = [p + ["loop?"] for p in res["live"]]
                if n["kind"] == "while":
                    c = self.walk(n["cseq"], base)
                    for k in ("ret", "inl"):
                        res[k] += c[k]
                    base = c["live"]
                x = self.walk(n["body"], base)
                for k in ("ret", "inl"):
                    res[k] += x[k]
                res["live"] = x["brk"] + x["live"] + x["cont"] + (base if n["kind"] != "loop" else [])
            elif t in ("ret", "inlret", "brk"):
                self.merge(res, self.walk(n["expr"], res["live"]))
                res[{"ret": "ret", "inlret": "inl", "brk": "brk"}[t]] += res["live"]
                res["live"] = []
            elif t == "cont":
                res["cont"] += res["live"]
                res["live"] = []
            elif t == "closure":
                if n["name"] is None and not self.is_pure(n["body"]):
                    res["live"] = [p + ["closure?"] for p in res["live"]]
        return res

    @staticmethod
    def merge(res, r, keep_live=False):
        if keep_live:
            res["live"] += r["live"]
        else:
            res["live"] = r["live"]
        for k in KEYS:
            res[k] += r[k]


# ---- small string helpers on compact text

def close_paren(s, i):
    """s[i] is `(`: index of the matching `)` (string literals are skipped)"""
    depth, j, n = 0, i, len(s)
    while j < n:
        ch = s[j]
        if ch == '"':
            j += 1
            while j < n and s[j] != '"':
                j += 2 if s[j] == "\\" else 1
        elif ch in "([{":
            depth += 1
        elif ch in ")]}":
            depth -= 1
            if depth == 0:
                return j
        j += 1
    return n


def expr_start(s, e):
    """start of the postfix expression that ends just before s[e]"""
    j = e - 1
    while j >= 0:
        ch = s[j]
        if ch in ")]":
            depth = 0
            while j >= 0:
                if s[j] in ")]}":
                    depth += 1
                elif s[j] in "([{":
                    depth -= 1
                    if depth == 0:
                        break
                j -= 1
            j -= 1
            # turbofish before the call parenthesis
            if j >= 0 and s[j] == ">":
                depth = 0
                while j >= 0:
                    if s[j] == ">" and s[j - 1:j + 1] != "->":
                        depth += 1
                    elif s[j] == "<":
                        depth -= 1
                        if depth == 0:
                            break
                    j -= 1
                j -= 1
            continue
        if ch.isalnum() or ch in "_.:":
            j -= 1
            continue
        break
    return j + 1


def split_args(s):
    out, depth, cur, i = [], 0, "", 0
    while i < len(s):
        ch = s[i]
        if ch == '"':
            k = i + 1
            while k < len(s) and s[k] != '"':
                k += 2 if s[k] == "\\" else 1
            cur += s[i:k + 1]
            i = k + 1
            continue
        if ch in "([{":
            depth += 1
        elif ch in ")]}":
            depth -= 1
        if ch == "," and depth == 0:
            out.append(cur)
            cur = ""
        else:
            cur += ch
        i += 1
    if cur:
        out.append(cur)
    return out


# ------------------------------------------------------------------ predicates over path lists
# (restated one to one in lean/TinyVerif/Props/C05.lean; `gen_params_from_paths` checks the two agree)

def has(a, p):
    return a in p


def once(a, p):
    return p.count(a) == 1


def bef(a, b, p):
    return a in p and b in p and p.index(a) < p.index(b)


# the operation vocabulary shared with Props/C05.lean (`Gen.Thread.Op`); anything else is emitted as `Op.unknown`
VOCAB = ["tsm_alloc", "tsm_alloc_zeroed", "init_flag_false", "init_word", "init_slot_none", "box_closure", "mmap", "mmap_err", "mmap_ok",
         "try_return", "tls_box", "clone", "clone_neg", "clone_nonneg", "drop_tls", "munmap", "drop_closure", "tsm_dealloc", "ret_err",
         "ok_handle", "return", "end", "call_func", "write_slot", "cas", "cas_lost", "cas_won", "set_tid_0", "drop_value", "tls_dealloc",
         "tls_read", "is_thread", "is_main", "asm_unmap_exit", "exit_process", "wait", "futex_wait", "load", "read_slot", "forget",
         "word_eq", "word_ne", "break", "continue", "print_lock"]
LEAN_OP = {"return": "ret", "end": "fin", "break": "brk", "continue": "cont"}


def lean_op(o):
    return "." + LEAN_OP.get(o, o) if o in VOCAB else ".unknown"


def understood(p):
    return all(o in VOCAB for o in p)


def p_check_clone(ps):
    thr = [p for p in ps if has("clone", p)]
    neg = [p for p in ps if has("clone_neg", p)]
    pos = [p for p in ps if has("clone_nonneg", p)]
    return (bool(neg) and bool(pos) and all(understood(p) and once("clone", p) and (has("clone_neg", p) != has("clone_nonneg", p)) for p in thr)
            and all(bef("clone", "clone_neg", p) and all(once(x, p) and bef("clone_neg", x, p) for x in ("drop_tls", "munmap", "drop_closure", "tsm_dealloc"))
                    and has("ret_err", p) and not has("ok_handle", p) for p in neg)
            and all(bef("clone_nonneg", "ok_handle", p) and not any(has(x, p) for x in ("drop_tls", "munmap", "drop_closure", "tsm_dealloc", "ret_err")) for p in pos))


def p_mmap_cleanup(ps):
    mm = [p for p in ps if has("mmap", p)]
    err = [p for p in ps if has("mmap_err", p)]
    return (bool(err) and all(once("mmap", p) and (has("mmap_err", p) != has("mmap_ok", p)) and not has("try_return", p) for p in mm)
            and all(understood(p) and bef("mmap", "mmap_err", p) and all(once(x, p) and bef("mmap_err", x, p) for x in ("drop_closure", "tsm_dealloc"))
                    and has("ret_err", p) and not any(has(x, p) for x in ("ok_handle", "clone", "tls_box", "munmap")) for p in err))


def lost(ps):
    return [p for p in ps if has("cas_lost", p)]


def won(ps):
    return [p for p in ps if has("cas_won", p)]


def p_set_tid(ps):
    """the losing thread resets its clear-tid address after the CAS and before it frees the block; the winner never does"""
    return (bool(lost(ps)) and all(understood(p) and once("set_tid_0", p) and bef("cas", "set_tid_0", p) and bef("set_tid_0", "tsm_dealloc", p) for p in lost(ps))
            and all(understood(p) and not has("set_tid_0", p) for p in won(ps)))


def p_drop_val_t(ps):
    return bool(lost(ps)) and all(understood(p) and once("drop_value", p) and bef("cas", "drop_value", p) and bef("drop_value", "tsm_dealloc", p) for p in lost(ps))


def p_drop_val_h(ps):
    return bool(lost(ps)) and all(understood(p) and once("drop_value", p) and bef("cas", "wait", p) and bef("wait", "drop_value", p) and bef("drop_value", "tsm_dealloc", p)
                                  for p in lost(ps))


GOOD_ITER = [["load", "word_eq", "futex_wait", "continue"], ["load", "word_ne", "break"]]


def p_recheck(loops):
    """every exit-wait loop re-reads the word after each return of the futex wait and leaves only when it differs from
    the value it waits on (that every path of join / of a losing drop goes through the wait is `s_join` / `s_drop`)"""
    return bool(loops) and all(sorted(list(x) for x in l["iter"]) == GOOD_ITER and len(l["cmp"]) == 1 and l["cmp"] == l["arg"] for l in loops)


# shape: the explicit partial order between operations that the model's step sequence relies on

def s_spawn(ps):
    setup = ("tsm_alloc", "init_flag_false", "init_word", "init_slot_none", "box_closure", "mmap", "tls_box")
    return (any(has("clone", p) for p in ps)
            and all(once("tsm_alloc", p) and all(once(x, p) and bef("tsm_alloc", x, p) for x in ("init_flag_false", "init_word", "init_slot_none"))
                    and not has("tsm_alloc_zeroed", p) and not has("init_flag?", p) for p in ps)
            and all(all(once(x, p) and bef(x, "clone", p) for x in setup) for p in ps if has("clone", p))
            and all(bef("clone", "ok_handle", p) for p in ps if has("ok_handle", p)))


def s_epilogue(ps):
    return (bool(lost(ps)) and bool(won(ps))
            and all(understood(p) and once("call_func", p) and once("write_slot", p) and once("cas", p) and bef("call_func", "write_slot", p) and bef("write_slot", "cas", p)
                    and (has("cas_won", p) != has("cas_lost", p)) and once("tls_dealloc", p) and bef("call_func", "tls_dealloc", p)
                    and not has("wait", p) and not has("futex_wait", p) and not has("load", p) for p in ps)
            and all(once("tsm_dealloc", p) and bef("cas", "tsm_dealloc", p) and (not has("drop_value", p) or bef("drop_value", "tls_dealloc", p)) for p in lost(ps))
            and all(not has("tsm_dealloc", p) and not has("drop_value", p) for p in won(ps)))


def s_panic(ps):
    thr = [p for p in ps if has("is_thread", p)]
    main = [p for p in ps if has("is_main", p)]
    return (bool(lost(thr)) and bool(won(thr)) and bool(main)
            and all(not has("print_lock", p) for p in thr)
            and all(understood(p) and once("tls_read", p) and once("tls_dealloc", p) and bef("tls_read", "tls_dealloc", p) and once("cas", p)
                    and (has("cas_won", p) != has("cas_lost", p)) and once("asm_unmap_exit", p)
                    and all(not has(x, p) or bef(x, "asm_unmap_exit", p) for x in ("tls_dealloc", "cas", "set_tid_0", "tsm_dealloc")) for p in thr)
            and all(once("tsm_dealloc", p) and bef("cas", "tsm_dealloc", p) for p in lost(thr))
            and all(not has("tsm_dealloc", p) for p in won(thr))
            and all(not any(has(x, p) for x in ("cas", "tsm_dealloc", "tls_dealloc", "set_tid_0", "asm_unmap_exit")) for p in main))


def s_join(ps):
    return (bool(ps) and all(understood(p) and once("wait", p) and once("read_slot", p) and once("tsm_dealloc", p) and bef("wait", "read_slot", p)
                             and bef("read_slot", "tsm_dealloc", p) and has("forget", p) and not has("cas", p) and not has("set_tid_0", p) for p in ps))


def s_drop(ps):
    return (bool(lost(ps)) and bool(won(ps))
            and all(understood(p) and once("cas", p) and (has("cas_won", p) != has("cas_lost", p)) and not has("set_tid_0", p) for p in ps)
            and all(once("wait", p) and once("tsm_dealloc", p) and bef("cas", "wait", p) and bef("wait", "tsm_dealloc", p) for p in lost(ps))
            and all(not any(has(x, p) for x in ("wait", "tsm_dealloc", "drop_value", "futex_wait")) for p in won(ps)))


# ------------------------------------------------------------------ the asm trampoline, the futex key kind

def asm_instructions(F, body):
    """the template strings of an asm!/global_asm! invocation with `{NAME}` placeholders of `NAME = const EXPR` operands replaced by
    the value of EXPR (named constants of the files / of sc::nr resolved); a placeholder that cannot be resolved is left as it is"""
    consts = {}
    for mm in re.finditer(r",(\w+)=const ([^,()]+(?:\([^()]*\))?)", body):
        v = F.value_of(mm.group(2))
        if v is not None:
            consts[mm.group(1)] = v
    ins = []
    for x in re.findall(r'"([^"]*)"', re.split(r",(?:\w+=)?(?:in|out|inout|lateout|inlateout|options|const|sym)[ (]", body)[0]):
        ins.append(re.sub(r"\{(\w+)\}", lambda q: str(consts[q.group(1)]) if q.group(1) in consts else q.group(0), x).strip())
    return ins


def asm_rax_at_syscalls(ins):
    """the value of rax at each `syscall` of an x86-64 instruction list (None: set before the list / by something not followed)"""
    out, rax = [], None
    for i in ins:
        mm = re.fullmatch(r"mov\s+(?:al|ax|eax|rax)\s*,\s*(\d+)", i)
        if mm:
            rax = int(mm.group(1))
        elif re.fullmatch(r"xor\s+(eax|rax)\s*,\s*(eax|rax)", i):
            rax = 0
        elif i == "syscall":
            out.append(rax)
            rax = None
    return out


def asm_syscalls(raw, F=None):
    """x86-64 `__clone`: the system call numbers in rax at each `syscall`, in order"""
    F = F or File(raw)
    txt = F.txt
    for m in re.finditer(r"global_asm!\(", txt):
        body = txt[m.end():close_paren(txt, m.end() - 1)]
        ins = asm_instructions(F, body)
        if not any(re.fullmatch(r"\w+:", i) for i in ins) or "syscall" not in ins:
            continue
        return [-1 if x is None else x for x in asm_rax_at_syscalls(ins)]
    return []


def wait_key_private(repo):
    """does `futex_wait` put FUTEX_PRIVATE_FLAG into the operation it hands to the kernel?  None = not understood"""
    try:
        src = open(os.path.join(repo, "rusl/src/futex.rs")).read()
    except OSError:
        return None
    F = File(src)
    f = F.fn("futex_wait")
    if f is None:
        return None
    a = Ana(F, "futex_wait", f.body)
    txt = compact(f.body)
    m = re.search(r"syscall!\(FUTEX,", txt)
    if not m:
        return None
    args = split_args(txt[m.end():close_paren(txt, m.start() + len("syscall!"))])
    if len(args) < 2:
        return None
    op = args[1]
    for _ in range(3):
        if re.fullmatch(r"\w+", op) and op in a.env and len(a.env[op]) == 1:
            op = a.env[op][0]
    op = op.replace("(", "").replace(")", "")
    if op == "FUTEX_WAIT" or re.fullmatch(r"FUTEX_WAIT&flags\.bits\.0|flags\.bits\.0&FUTEX_WAIT", op):
        return False      # FUTEX_WAIT is 0: `0 & flags` is the plain (shared-key) wait
    if re.fullmatch(r"FUTEX_WAIT\|flags\.bits\.0|flags\.bits\.0\|FUTEX_WAIT", op):
        return True
    return None


# ------------------------------------------------------------------ extraction

PARAMS = ["checkClone", "mmapCleanup", "setTidRet", "setTidPanic", "dropValH", "dropValT", "recheck"]
NUMS = ["initWord", "joinExpect", "dropExpect", "stackMapFlags"]

# x86-64 values of the mmap flags rusl names (MapRequiredFlag / MapAdditionalFlags); the HUGE_<size> encodings are the size's log2 << 26
MAP_BITS = {"MapShared": 0x1, "MapPrivate": 0x2, "MapSharedValidate": 0x3, "MAP_FIXED": 0x10, "MAP_ANONYMOUS": 0x20, "MAP_FILE": 0,
            "MAP_GROWSDOWN": 0x100, "MAP_DENYWRITE": 0x800, "MAP_EXECUTABLE": 0x1000, "MAP_LOCKED": 0x2000, "MAP_NORESERVE": 0x4000,
            "MAP_POPULATE": 0x8000, "MAP_NONBLOCK": 0x10000, "MAP_STACK": 0x20000, "MAP_HUGETLB": 0x40000, "MAP_SYNC": 0x80000,
            "MAP_FIXED_NOREPLACE": 0x100000, "MAP_UNINITIALIZED": 0x4000000,
            "MAP_HUGE_16KB": 14 << 26, "MAP_HUGE_64KB": 16 << 26, "MAP_HUGE_512KB": 19 << 26, "MAP_HUGE_1MB": 20 << 26, "MAP_HUGE_2MB": 21 << 26,
            "MAP_HUGE_8MB": 23 << 26, "MAP_HUGE_16MB": 24 << 26, "MAP_HUGE_32MB": 25 << 26, "MAP_HUGE_256MB": 28 << 26, "MAP_HUGE_512MB": 29 << 26,
            "MAP_HUGE_1GB": 30 << 26, "MAP_HUGE_2GB": 31 << 26, "MAP_HUGE_16GB": 34 << 26}


def stack_map_flags(raw):
    """the flag word of the one mmap call of spawn.rs (the thread's stack), from the flag names written at the call: the 4th and 5th
    argument of rusl's mmap(addr, len, prot, required_flag, additional_flags, fd, off).  None when the call is not in that form
    (flags held in a variable, several mmap calls, an unknown name): the check then takes the flag word from the running code."""
    calls = [m for m in re.finditer(r"(?<![\w.])mmap\s*\(", raw) if not re.search(r"\buse\b[^;]*$", raw[:m.start()].rsplit("\n", 1)[-1])]
    if len(calls) != 1:
        return None
    i, depth, args, cur = calls[0].end(), 1, [], []
    while i < len(raw) and depth:
        ch = raw[i]
        if ch in "([{":
            depth += 1
        elif ch in ")]}":
            depth -= 1
            if depth == 0:
                break
        if ch == "," and depth == 1:
            args.append("".join(cur))
            cur = []
        else:
            cur.append(ch)
        i += 1
    if "".join(cur).strip():
        args.append("".join(cur))
    if len(args) != 7:
        return None
    bits = 0
    for a in (args[3], args[4]):
        a = re.sub(r"//[^\n]*", "", a)
        for name in a.split("|"):
            name = name.strip().split("::")[-1]
            if name == "empty()":
                continue
            if name not in MAP_BITS:
                return None
            bits |= MAP_BITS[name]
    return bits


def source_files(repo):
    """the thread implementation: tiny-std/src/thread.rs and every .rs under tiny-std/src/thread/ (it may be one file or several)"""
    base = os.path.join(repo, "tiny-std/src")
    out = [os.path.join(base, "thread.rs")] if os.path.exists(os.path.join(base, "thread.rs")) else []
    d = os.path.join(base, "thread")
    for root, _, files in sorted(os.walk(d)):
        out += [os.path.join(root, f) for f in sorted(files) if f.endswith(".rs")]
    return out


def read_sources(repo):
    return "\n".join(open(f).read() for f in source_files(repo))


def analyse(repo=None):
    repo = repo or C.REPO
    raw = read_sources(repo)
    F = File(raw)
    notes = []

    def ana_of(name, owner=None, trait=None):
        f = F.fn(name, owner, trait)
        if f is None:
            notes.append("function `%s` not found" % name)
            return None
        return Ana(F, name, expand(F, f))
    # spawn: H side + the thread's entry closure (the closure that calls spawn's function parameter)
    fspawn = F.fn("spawn")
    H = E = None
    if fspawn is None:
        notes.append("function `spawn` not found")
    else:
        toks = expand(F, fspawn)
        txt = compact(toks)
        func_param = next((p for p in fspawn.params if p and re.search(r"(?<![\w.])%s\(\)" % re.escape(p), txt)), None)
        epi = None
        for n in all_nodes(parse_seq(toks), into_closures=True):
            if n["t"] == "closure" and func_param and re.search(r"(?<![\w.])%s\(\)" % re.escape(func_param), compact(n["raw"])):
                epi = n
        if epi is None:
            notes.append("the thread's entry closure (the closure that calls spawn's function parameter) not found")
        else:
            E = Ana(F, "spawn", epi["raw"], func_param=func_param, env_toks=toks)
        names = [epi["name"]] if epi is not None and epi["name"] else re.findall(r"let (?:mut )?(\w+)=(?:move)?\|", txt)
        H = Ana(F, "spawn", toks, func_param=None, closure_names=names)
    J = ana_of("join", owner="JoinHandle")
    D = ana_of("drop", owner="JoinHandle", trait="Drop")
    P = ana_of(F.panic_fn or "on_panic")      # the function under #[panic_handler], whatever its name
    paths = {"spawn": H.paths() if H else [], "epilogue": E.paths() if E else [], "panic": P.paths() if P else [],
             "join": J.paths() if J else [], "drop": D.paths() if D else []}
    sites = {"join": J.sites if J else [], "drop": D.sites if D else [], "spawn": E.sites if E else [],
             "panic": P.sites if P else [], "hspawn": H.sites if H else []}
    loops = (J.loops if J else []) + (D.loops if D else [])

    def one_value(vals):
        vs = set(vals)
        return vs.pop() if len(vs) == 1 else None
    iv = [x for n in all_nodes(H.seq) if n["t"] == "text" for (nm, x) in n["ops"] if nm == "init_word"] if H else []
    init_val = one_value([F.value_of(x) for x in iv])

    def wait_val(a):
        return one_value([F.value_of(s["vals"][0]) if s["vals"] else None for s in (a.sites if a else []) if s["op"] == "futex_wait_fast"])
    sp, ep, dp = paths["spawn"], paths["epilogue"], paths["drop"]
    pp = [p for p in paths["panic"] if has("is_thread", p)]
    jd = paths["join"] + paths["drop"]
    # a parameter is decided here only when every path it speaks about is understood; otherwise it is left open (None)
    clone_ps = [p for p in sp if has("clone", p)]
    mmap_ps = [p for p in sp if has("mmap", p)]
    derived = {
        "checkClone": bool(p_check_clone(sp)) if clone_ps and all(understood(p) for p in clone_ps) else None,
        # `mmap(..)?`: the error leaves spawn at once, nothing is released — understood, and not a clean-up
        "mmapCleanup": False if any(has("try_return", p) and has("mmap", p) and not has("mmap_err", p) and not has("mmap_ok", p) for p in sp) else
                       bool(p_mmap_cleanup(sp)) if mmap_ps and all(has("mmap_err", p) or has("mmap_ok", p) or has("try_return", p) for p in mmap_ps)
                       and all(understood(p) for p in mmap_ps if not has("mmap_ok", p)) else None,
        "setTidRet": bool(p_set_tid(ep)) if ep and all(understood(p) for p in ep) else None,
        "dropValT": bool(p_drop_val_t(ep)) if ep and all(understood(p) for p in ep) else None,
        "setTidPanic": bool(p_set_tid(pp)) if pp and all(understood(p) for p in pp) else None,
        "dropValH": bool(p_drop_val_h(dp)) if dp and all(understood(p) for p in dp) else None,
        # a wait outside any loop is understood (and is not a re-check); a loop of another shape is left to the running code
        "recheck": (False if any(has("futex_wait", p) for p in jd) else
                    None if (not loops or any(has("wait?", p) for p in jd)) else bool(p_recheck(loops))),
        "initWord": init_val,
        "joinExpect": wait_val(J),
        "dropExpect": wait_val(D),
        "stackMapFlags": stack_map_flags(raw),
    }
    return {"F": F, "paths": paths, "sites": sites, "loops": loops, "derived": derived, "notes": notes, "clone_asm": asm_syscalls(raw, F),
            "unfinished": init_val, "wait_private": wait_key_private(repo)}


def lean_str(s):
    return '"' + s.replace("\\", "\\\\").replace('"', '\\"') + '"'


def emit(table, resolved=None, path=None):
    """writes Gen/ThreadSites.lean.  `resolved`: {parameter: value} for the parameters the static extraction left open
    (taken from the running code by checks/c05.py)."""
    resolved = resolved or {}
    L = lean_str
    d = dict(table["derived"])
    src = {}
    for k in PARAMS + NUMS:
        if d[k] is None and k in resolved and resolved[k] is not None:
            d[k], src[k] = resolved[k], "runtime"
        else:
            src[k] = "static" if d[k] is not None else "unknown"
    wp = table["wait_private"]
    if wp is None and resolved.get("waitPrivate") is not None:
        wp, src["waitPrivate"] = resolved["waitPrivate"], "runtime"
    else:
        src["waitPrivate"] = "static" if wp is not None else "unknown"
    lines = ["/- GENERATED by checks/thread_extract.py from /repo/tiny-std/src/thread/spawn.rs. Do not edit. -/",
             "namespace TinyVerif.Gen.Thread", "",
             "inductive Ord where | relaxed | acquire | release | acqrel | seqcst", "  deriving Repr, DecidableEq", "",
             "structure Site where", "  fn : String", "  op : String", "  loc : String", "  vals : List String", "  ords : List Ord",
             "  deriving Repr, DecidableEq", "",
             "/-- protocol operations and branch decisions; `unknown` = something the extractor did not understand -/",
             "inductive Op where", "  | " + " | ".join(LEAN_OP.get(o, o) for o in VOCAB) + " | unknown", "  deriving Repr, DecidableEq", "",
             "/-- the iteration paths of one exit-wait loop, the value its load is compared with, the value it waits on -/",
             "structure WaitLoop where", "  iter : List (List Op)", "  cmp : List String", "  arg : List String", "  deriving Repr, DecidableEq", ""]
    for name in ["join", "drop", "spawn", "panic", "hspawn"]:
        lines.append("def %sSites : List Site := [" % name)
        lines.append(",\n".join("  ⟨%s, %s, %s, [%s], [%s]⟩" % (L(s["fn"]), L(s["op"]), L(s["loc"]), ", ".join(L(v) for v in s["vals"]),
                                                             ", ".join("." + o for o in s["ords"])) for s in table["sites"][name]))
        lines.append("]")
        lines.append("")
    for name in ["spawn", "epilogue", "panic", "join", "drop"]:
        lines.append("def %sPaths : List (List Op) := [" % name)
        lines.append(",\n".join("  [%s]" % ", ".join(lean_op(x) for x in p) for p in table["paths"][name]))
        lines.append("]")
        lines.append("")
    lines.append("def waitLoops : List WaitLoop := [")
    lines.append(",\n".join("  ⟨[%s], [%s], [%s]⟩" % (", ".join("[%s]" % ", ".join(lean_op(x) for x in it) for it in sorted(list(x) for x in l["iter"])),
                                                    ", ".join(L(x) for x in (l["cmp"] or [])), ", ".join(L(x) for x in (l["arg"] or []))) for l in table["loops"]))
    lines.append("]")
    lines.append("")
    lines.append("def cloneAsmSyscalls : List Nat := [%s]" % ", ".join(str(x) for x in table["clone_asm"] if x >= 0))
    lines.append("/-- the value `Tsm::init` writes into the exit futex word (named constants resolved) -/")
    lines.append("def unfinished : Option Nat := %s" % ("none" if table["unfinished"] is None else "some %d" % table["unfinished"]))
    lines.append("/- `xStatic = true`: x was decided from the path lists above (Props/C05 `gen_params_from_paths` re-derives it);")
    lines.append("   `false`: the source was not understood there, x is what the running code was observed to do (checks/c05.py) -/")
    for k in PARAMS:
        lines.append("def %s : Bool := %s" % (k, "true" if d[k] else "false"))
        lines.append("def %sStatic : Bool := %s" % (k, "true" if src[k] == "static" else "false"))
    for k in NUMS:
        # an operand that can be resolved neither statically nor at run time becomes a value no futex word ever holds: the Lean check then fails
        # (for stackMapFlags: a flag word with every bit set, which is not a fixed-extent mapping)
        lines.append("def %s : Nat := %d" % (k, 4294967295 if d[k] is None else d[k]))
    lines.append("/-- `stackMapFlags` is the flag word of the stack mmap: read off the flag names at the call (true) / seen in the running code's mmap (false) -/")
    lines.append("def stackMapFlagsStatic : Bool := %s" % ("true" if src["stackMapFlags"] == "static" else "false"))
    lines.append("def futexWaitPrivate : Bool := %s" % ("true" if wp or wp is None else "false"))
    lines += ["", "end TinyVerif.Gen.Thread", ""]
    text = "\n".join(lines)
    path = path or os.path.join(C.LEAN, "TinyVerif", "Gen", "ThreadSites.lean")
    if not os.path.exists(path) or open(path).read() != text:
        open(path, "w").write(text)
    out = dict(table)
    out["derived"], out["src"], out["wait_private"] = d, src, wp
    return out


def isacq(o):
    return o in ("acquire", "acqrel", "seqcst")


def isrel(o):
    return o in ("release", "acqrel", "seqcst")


def good_cas(x):
    o = (x["ords"] + ["relaxed"])[0]
    return (((x["op"] == "compare_exchange" and x["vals"] == ["false", "true"]) or (x["op"] in ("swap", "fetch_or") and x["vals"] == ["true"]))
            and x["loc"] == "sync" and isacq(o) and isrel(o))


def good_wait_site(x):
    return x["loc"] == "futex" and ((x["op"] == "load" and isacq((x["ords"] + ["relaxed"])[0])) or x["op"] == "futex_wait_fast")


def cas_ok(l):
    return len([x for x in l if good_cas(x)]) == 1 and all(good_cas(x) or good_wait_site(x) for x in l)


def shapes(table):
    """the obligations of `genShapeOk`, evaluated here as they are in Lean (for the evidence; Lean decides)"""
    P, S = table["paths"], table["sites"]

    def when(ps, f, *more):
        return "not understood: model replay only" if not all(understood(p) for p in ps) else bool(f(ps, *more))
    return {"sites": bool(cas_ok(S["drop"]) and cas_ok(S["spawn"]) and len(S["spawn"]) == 1 and cas_ok(S["panic"]) and len(S["panic"]) == 1
                          and all(good_wait_site(x) for x in S["join"]) and any(x["op"] == "load" for x in S["join"]) and not S["hspawn"]),
            "spawn": when(P["spawn"], s_spawn), "epilogue": when(P["epilogue"], s_epilogue), "panic": when(P["panic"], s_panic),
            "join": when(P["join"], s_join), "drop": when(P["drop"], s_drop),
            "clone_asm": table["clone_asm"] == [56, 11, 60], "wait_key_shared": table["wait_private"] is False}


def generate(repo=None, resolved=None):
    return emit(analyse(repo), resolved)


if __name__ == "__main__":
    import json
    import sys
    t = analyse(sys.argv[1] if len(sys.argv) > 1 else None)
    print(json.dumps({k: t[k] for k in ("paths", "sites", "loops", "derived", "notes", "clone_asm", "unfinished", "wait_private")}, indent=1, default=str))
    print("shapes", shapes(t))
