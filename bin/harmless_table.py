#!/usr/bin/env python3
"""Prints the markdown table of harmless refactorings (harmless/<id>-hK/) for DESIGN.md §A.8:
what each changes and whether the registered quick checks raise an alarm on it (check_output.txt =
first run, check_output_after.txt = after the robustness work, when present)."""
import json, os, re
V = os.path.dirname(os.path.dirname(os.path.abspath(__file__)))


def verdict(out):
    res = []
    for m in re.finditer(r"\[(C\d+)\] C\d+ (?:quick|thorough): .*?(\d+) violations", out):
        cid, nv = m.group(1), int(m.group(2))
        if nv == 0:
            res.append("%s: quiet" % cid)
        else:
            seg = out[m.start() - 2000 if m.start() > 2000 else 0:m.end() + 1500]
            concrete = bool(re.search(r"\[%s\] VIOLATION property=%s replay=\S+\s*$" % (cid, cid), out, flags=re.M))
            res.append("%s: **alarm** (%s)" % (cid, "concrete input claimed" if concrete else "no-failing-input-found"))
    return "; ".join(res) or "?"


rows = []
for d in sorted(os.listdir(os.path.join(V, "harmless"))):
    p = os.path.join(V, "harmless", d)
    if not os.path.isdir(p):
        continue
    why = json.load(open(os.path.join(p, "why.json"))) if os.path.exists(os.path.join(p, "why.json")) else {}
    first = open(os.path.join(p, "check_output.txt")).read() if os.path.exists(os.path.join(p, "check_output.txt")) else ""
    after = open(os.path.join(p, "check_output_after.txt")).read() if os.path.exists(os.path.join(p, "check_output_after.txt")) else None
    summ = (why.get("summary") or "").replace("|", "/").replace("\n", " ")
    rows.append("| %s | %s | %s | %s |" % (d, summ[:200], verdict(first), verdict(after) if after is not None else "="))
print("| harmless change | what it changes | first run | after the robustness work |")
print("|---|---|---|---|")
print("\n".join(rows))
