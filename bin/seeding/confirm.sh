#!/bin/bash
# confirm.sh <ID>: fresh worktree, demo without patch, apply, suite, demo with patch
ID=$1; O=/tmp/sd8/$ID-out; W=/tmp/sd8/conf-$ID
rm -rf $W /tmp/sd8/conf-$ID-demo; git -C /repo worktree prune
git -C /repo worktree add -q --detach $W HEAD || exit 2
cp -r $O/demo /tmp/sd8/conf-$ID-demo
cd /tmp/sd8/conf-$ID-demo; find . -name target -type d -prune -exec rm -rf {} +; rm -f with.txt without.txt
# demos may hard-code the seeder's worktree path: rewrite to ours
grep -rl "/tmp/sd8/$ID\b" . 2>/dev/null | xargs -r sed -i "s#/tmp/sd8/$ID\([^-a-zA-Z0-9]\|\$\)#$W\1#g"
echo "== demo WITHOUT patch"; CARGO_NET_OFFLINE=true timeout 600 bash run.sh $W > /tmp/sd8/conf-$ID.without.txt 2>&1; echo "exit $?" | tee -a /tmp/sd8/conf-$ID.without.txt
( cd $W && git apply $O/patch.diff ) || { echo "PATCH DOES NOT APPLY"; exit 2; }
echo "== files: $(git -C $W status --short | tr '\n' ' ')"
echo "== suite WITH patch"; ( cd $W && CARGO_NET_OFFLINE=true timeout 900 cargo nextest run --workspace --no-fail-fast --test-threads 8 --offline 2>&1 | grep -E "Summary|FAIL|error" | sort | uniq | head -8 ) | tee /tmp/sd8/conf-$ID.suite.txt
find /tmp/sd8/conf-$ID-demo -name target -type d -prune -exec rm -rf {} +
echo "== demo WITH patch"; cd /tmp/sd8/conf-$ID-demo; CARGO_NET_OFFLINE=true timeout 600 bash run.sh $W > /tmp/sd8/conf-$ID.with.txt 2>&1; echo "exit $?" | tee -a /tmp/sd8/conf-$ID.with.txt
tail -4 /tmp/sd8/conf-$ID.without.txt; echo ---; tail -6 /tmp/sd8/conf-$ID.with.txt
git -C /repo worktree remove --force $W; rm -rf /tmp/sd8/conf-$ID-demo
