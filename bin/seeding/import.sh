#!/bin/bash
# import.sh <ID> <newid>
ID=$1; N=$2; O=/tmp/sd8/$ID-out; D=/verif/seeded/$N
mkdir -p $D; cp $O/patch.diff $D/; rm -rf $D/demo; cp -r $O/demo $D/demo; find $D/demo -name target -type d -prune -exec rm -rf {} +; rm -f $D/demo/Cargo.lock $D/demo/build.log
python3 - $O/seeder_meta.json $D/seeder_meta.json <<'PY'
import json,sys
d=json.load(open(sys.argv[1]))
d.setdefault('summary', d.get('what_changed')); d.setdefault('property', d.get('property_broken'))
d.setdefault('test_suite_result', d.get('suite_with_patch')); d.setdefault('demo_result_with_mutation', d.get('demo_with_patch')); d.setdefault('demo_result_without_mutation', d.get('demo_without_patch'))
json.dump(d,open(sys.argv[2],'w'),indent=1)
PY
cp /tmp/sd8/conf-$ID.with.txt $D/demo/coordinator_with.txt; cp /tmp/sd8/conf-$ID.without.txt $D/demo/coordinator_without.txt
