#!/usr/bin/env python3
"""Rewrites the seeded-changes table of DESIGN.md §A.5 (between the two markers) from seeded/*."""
import os, subprocess
V = os.path.dirname(os.path.dirname(os.path.abspath(__file__)))
p = os.path.join(V, "DESIGN.md")
s = open(p).read()
table = subprocess.run([os.path.join(V, "bin", "seeded_table.py")], capture_output=True, text=True).stdout
B, E = "<!-- SEEDED-TABLE-BEGIN -->", "<!-- SEEDED-TABLE-END -->"
block = B + "\n" + table + E
if "SEEDED_TABLE_PLACEHOLDER" in s:
    s = s.replace("SEEDED_TABLE_PLACEHOLDER", block)
else:
    a, b = s.index(B), s.index(E) + len(E)
    s = s[:a] + block + s[b:]
open(p, "w").write(s)
print("updated", table.count("\n") - 2, "rows")
