#!/usr/bin/env python3
"""Prints the markdown table of seeded changes (seeded/<id>-mK/) for DESIGN.md §A.5."""
import json, os, re
V = os.path.dirname(os.path.dirname(os.path.abspath(__file__)))
rows = []
for d in sorted(os.listdir(os.path.join(V, "seeded"))):
    p = os.path.join(V, "seeded", d)
    if not os.path.isdir(p):
        continue
    meta = {}
    for fn in ("meta.json", "seeder_meta.json"):
        f = os.path.join(p, fn)
        if os.path.exists(f):
            try:
                meta.update(json.load(open(f)))
            except Exception:
                pass
    out = open(os.path.join(p, "check_output.txt")).read() if os.path.exists(os.path.join(p, "check_output.txt")) else ""
    res = []
    for m in re.finditer(r"\[(C\d+)\] C\d+ (?:quick|thorough): .*?(\d+) violations", out):
        cid, nv = m.group(1), int(m.group(2))
        concrete = bool(re.search(r"replay .*INPUT", out))
        noinput = "no-failing-input-found" in out or "no-input" in out
        if nv == 0:
            res.append("%s: **missed**" % cid)
        else:
            res.append("%s: caught (%s)" % (cid, "concrete input" if concrete else "no-failing-input-found"))
    summ = (meta.get("summary") or "").replace("|", "/").replace("\n", " ")
    need = (meta.get("needs_to_manifest") or "").replace("|", "/").replace("\n", " ")
    rows.append("| %s | %s | %s | %s |" % (d, summ[:160], need[:140], "; ".join(res) or meta.get("verdict", "?")))
print("| seeded change | what it changes | needs to manifest | result of the registered quick checks |")
print("|---|---|---|---|")
print("\n".join(rows))
