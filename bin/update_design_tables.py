#!/usr/bin/env python3
"""Rewrites the generated tables of DESIGN.md: seeded changes (§A.5) and harmless changes (§A.8)."""
import os, subprocess
V = os.path.dirname(os.path.dirname(os.path.abspath(__file__)))
p = os.path.join(V, "DESIGN.md")
s = open(p).read()
for tool, B, E in (("seeded_table.py", "<!-- SEEDED-TABLE-BEGIN -->", "<!-- SEEDED-TABLE-END -->"),
                   ("harmless_table.py", "<!-- HARMLESS-TABLE-BEGIN -->", "<!-- HARMLESS-TABLE-END -->")):
    table = subprocess.run([os.path.join(V, "bin", tool)], capture_output=True, text=True).stdout
    a, b = s.index(B), s.index(E) + len(E)
    s = s[:a] + B + "\n" + table + E + s[b:]
    print(tool, table.count("\n") - 2, "rows")
open(p, "w").write(s)
