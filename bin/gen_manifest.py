#!/usr/bin/env python3
"""Regenerates MANIFEST.json from checks/registry.json (single source for the claimed checks)."""
import json, os
V = os.path.dirname(os.path.dirname(os.path.abspath(__file__)))
reg = json.load(open(os.path.join(V, "checks", "registry.json")))
rd = os.path.join(V, "checks", "registry.d")
for f in sorted(os.listdir(rd)) if os.path.isdir(rd) else []:
    if f.endswith(".json"):
        reg["checks"][f[:-5]] = json.load(open(os.path.join(rd, f)))
props = [json.loads(l) for l in open(os.path.join(V, "properties.jsonl"))]
checks, na = [], []
for p in props:
    pid = p["id"]
    r = reg["checks"].get(pid)
    if r is None:
        na.append({"property_id": pid, "reason": reg["not_claimed"].get(pid, "not yet built in this round (planned in DESIGN.md)")})
        continue
    checks.append({
        "property_id": pid,
        "quick_cmd": "bin/check %s --tier quick" % pid,
        "thorough_cmd": "bin/check %s --tier thorough" % pid,
        "evidence_file": "/verif/evidence/%s.json" % pid,
        "replay_cmd_template": "bin/check %s --replay {path}" % pid,
        "engine": r.get("engine", "lean4+correspondence"),
        "level_claimed": {"category": "proof", "text": r["text"], "design_ref": r.get("design_ref", "DESIGN.md §3 " + pid)},
        "level_note": r["note"],
        "technique": r.get("technique", "Lean 4 theorems about an executable model + differential correspondence of the model with the code"),
    })
served = sorted(reg["checks"].keys())
for e in reg["engines"]:
    e["serves_properties"] = served
m = {
    "version": 1,
    "setup_cmd": "bin/setup",
    "hooks": reg["hooks"],
    "engines": reg["engines"],
    "checks": checks,
    "not_applicable": na,
    "notes": reg["notes"],
}
json.dump(m, open(os.path.join(V, "MANIFEST.json"), "w"), indent=1)
print("MANIFEST.json: %d checks, %d not claimed" % (len(checks), len(na)))
