/-
C17 (round 8): draining.  Repeated `get_next_cqe` delivers every posted-and-unreaped completion, in order, with
its content, and then reports the ring empty; the kernel consuming without bound takes every published
submission.  Lemmas over the invariant of Proofs/RingInv.lean; the property statements are in Props/C17.lean.
-/
import TinyVerif.Proofs.RingInv
namespace TinyVerif.Ring

section
variable {k kc c cc : Nat}
theorem run_cons (cd : Code) (s : St) (op : Op) (ops : List Op) :
    run cd s (op :: ops) = ((run cd (step cd s op).1 ops).1, (step cd s op).2 :: (run cd (step cd s op).1 ops).2) := rfl

theorem drain_inv {inq unpub : List Ent} : ∀ (cinq : List Ent) {s : St} {hold : List Ent},
    Inv k kc c cc s inq unpub cinq hold →
    (run .fixed s (List.replicate cinq.length .reap)).1.reaped = s.reaped ++ cinq ∧
    (run .fixed s (List.replicate cinq.length .reap)).2 = cinq.map (fun e => Out.cqe e.val) ∧
    (run .fixed s (List.replicate cinq.length .reap)).1.posted = s.posted ∧
    ∃ hold', Inv k kc c cc (run .fixed s (List.replicate cinq.length .reap)).1 inq unpub [] hold' := by
  intro cinq
  induction cinq with
  | nil =>
    intro s hold h
    exact ⟨by simp [run], by simp [run], by simp [run], hold, by simpa [run] using h⟩
  | cons e rest ih =>
    intro s hold h
    obtain ⟨hout, hreap, _, hinv⟩ := (inv_reap h).2 e rest rfl
    obtain ⟨i1, i2, i3, i4⟩ := ih hinv
    have hp : (step .fixed s .reap).1.posted = s.posted := by
      rw [hinv.posted_eq, hreap, h.posted_eq]; simp
    simp only [List.length_cons, List.replicate_succ, run_cons, List.map_cons]
    refine ⟨?_, ?_, ?_, i4⟩
    · rw [i1, hreap]; simp
    · rw [i2, hout]
    · rw [i3, hp]

/-- the kernel consuming with a bound of at least the number of published-and-unconsumed submissions takes all of
them, in order -/
theorem consume_all {unpub cinq hold : List Ent} (n : Nat) : ∀ {s : St} {inq : List Ent},
    Inv k kc c cc s inq unpub cinq hold → inq.length ≤ n →
    (kConsume n s).2 = inq ∧ (kConsume n s).1.consumed = s.consumed ++ inq ∧
    (kConsume n s).1.flushed = s.flushed ∧ Inv k kc c cc (kConsume n s).1 [] unpub cinq hold := by
  induction n with
  | zero =>
    intro s inq h hn
    have : inq = [] := List.eq_nil_of_length_eq_zero (by omega)
    subst this
    exact ⟨by simp [kConsume], by simp [kConsume], rfl, by simpa [kConsume] using h⟩
  | succ n ih =>
    intro s inq h hn
    obtain ⟨h0, h1⟩ := inv_consume1 h
    cases hq : inq with
    | nil =>
      have := h0 hq
      subst hq
      rw [show kConsume (n + 1) s = (s, []) by simp only [kConsume, this]]
      exact ⟨rfl, by simp, rfl, h⟩
    | cons e rest =>
      obtain ⟨a1, a2, a3, a4, a5⟩ := h1 e rest hq
      have hr : rest.length ≤ n := by rw [hq] at hn; simp only [List.length_cons] at hn; omega
      obtain ⟨b1, b2, b3, b4⟩ := ih a5 hr
      have hk1 : kConsume1 s = ((kConsume1 s).1, some e) := by rw [← a1]
      unfold kConsume
      rw [hk1]
      simp only
      refine ⟨by rw [b1], ?_, by rw [b3, a4], b4⟩
      rw [b2, a2, List.append_assoc, List.singleton_append]

/-- how many completions the kernel can post: the room left by the unreaped entries and the held one -/
theorem post_count {inq unpub hold : List Ent} (vs : List Nat) : ∀ {s : St} {cinq : List Ent},
    Inv k kc c cc s inq unpub cinq hold →
    (kPost vs s).2 = min vs.length (2 ^ kc - (hold.length + cinq.length)) ∧
    (kPost vs s).1.posted.map (·.val) = s.posted.map (·.val) ++ vs.take (kPost vs s).2 := by
  induction vs with
  | nil => intro s cinq h; simp [kPost]
  | cons v vs ih =>
    intro s cinq h
    obtain ⟨h0, h1⟩ := inv_post1 h v
    by_cases hlt : hold.length + cinq.length < 2 ^ kc
    · obtain ⟨a1, a2⟩ := h1 hlt
      obtain ⟨b1, b2⟩ := ih a2
      have hk1 : kPost1 s v = ((kPost1 s v).1, true) := by rw [← a1]
      have hp : (kPost1 s v).1.posted.map (·.val) = s.posted.map (·.val) ++ [v] := by
        rw [a2.posted_eq, kPost1_reaped, h.posted_eq]; simp
      rw [kPost_cons, hk1]
      simp only
      refine ⟨?_, ?_⟩
      · rw [b1]; simp only [List.length_append, List.length_cons, List.length_nil]; omega
      · rw [b2, hp]; simp
    · have := h0 hlt
      rw [kPost_cons, this]
      simp only
      refine ⟨?_, by simp⟩
      have : 2 ^ kc - (hold.length + cinq.length) = 0 := by omega
      rw [this]; simp

end
end TinyVerif.Ring
