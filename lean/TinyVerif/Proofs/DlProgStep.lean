import TinyVerif.Proofs.DlProgSpec
import TinyVerif.Proofs.DlIndAll
/-!
# Progress, assembled: entry points, `RcOk` as an invariant, `Hist.step`, `Hist.run`

(tag `ap_`)
-/
namespace TinyVerif.Dl

/-! ## 0. `Except` plumbing for error outcomes -/

theorem ap_bind_err {α β : Type} {x : M α} {f : α → M β} {e : String} :
    (x >>= f) = .error e ↔ x = .error e ∨ ∃ a, x = .ok a ∧ f a = .error e := by
  cases x with
  | error e' => simp [bind, Except.bind]
  | ok a => simp [bind, Except.bind]

theorem ap_pure_err {α : Type} {a : α} {e : String} : (pure a : M α) = .error e ↔ False := by
  simp [pure, Except.pure]

theorem ap_throw_err {α : Type} {m e : String} : (throw m : M α) = .error e ↔ m = e := by
  simp [throw, throwThe, MonadExceptOf.throw]

theorem ap_failIf_err {c : Bool} {msg e : String} : failIf c msg = .error e ↔ c = true ∧ msg = e := by
  unfold failIf; cases c <;> simp [pure, Except.pure, throw, throwThe, MonadExceptOf.throw]

theorem ap_ok_ne_err {α : Type} {x : M α} {a : α} {e : String} (h1 : x = .ok a) (h2 : x = .error e) : False := by
  rw [h1] at h2; cases h2

/-- normalise a hypothesis `(do …) = .error e` -/
macro "ap_esimp" "at" h:ident : tactic =>
  `(tactic| try simp only [ap_bind_err, ap_pure_err, ap_throw_err, ap_failIf_err, bind_ok, pure_ok, throw_ok, failIf_ok,
    false_or, or_false, false_and, and_false, exists_false] at $h:ident)

theorem ap_total_not_err {α : Type} {x : M α} (h : Total x) {e : String} (he : x = .error e) : False := by
  obtain ⟨r, hr⟩ := h
  exact ap_ok_ne_err hr he

/-! ## 1. the proved interface theorems, in the form used here -/

theorem ap_inner_malloc_spec : inner_malloc_Spec' := as_inner_malloc_spec all_malloc_nosys all_sys_alloc
theorem ap_free_spec : free_Spec := as_free_spec all_free_heap all_sys_trim all_release_unused_segments
theorem ap_malloc_spec : malloc_Spec' := as_malloc_spec ap_inner_malloc_spec all_memalign_fix
theorem ap_realloc_spec : realloc_Spec' :=
  as_realloc_spec all_try_realloc_chunk ap_inner_malloc_spec ap_free_spec ap_malloc_spec

/-- with a user chunk around, the heap is initialised -/
theorem ap_top_ne_of_user {s : St} (hi : SInv s) {a z : Nat} (hu : User s a z) : s.h.top ≠ 0 := by
  obtain ⟨e, he, _⟩ := hu
  have hm := (findEnt_some he).1
  have ht := hi.wfs.top
  unfold topOk at ht
  split at ht
  · simp only [Bool.and_eq_true, decide_eq_true_eq, List.isEmpty_iff] at ht
    rw [ht.1.1.2] at hm
    cases hm
  · simp only [Bool.and_eq_true, decide_eq_true_eq] at ht
    exact ht.1.1.1.1.1.1

/-! ### `FpOk` follows the bookkeeping relation `Book` of `Proofs/DlStep.lean` -/

theorem ap_segSum_eq (l : List Seg) : segSum l = (l.map (·.size)).sum := by
  induction l with
  | nil => rfl
  | cons g gs ih => simp [segSum, ih]

theorem ap_fp_of_book {s s' : St} (hfp : FpOk s) (hb : Book s s') : FpOk s' := by
  unfold FpOk at *
  have := hb.fp
  rw [ap_segSum_eq, ap_segSum_eq] at this
  omega

theorem ap_fpOk_init : FpOk Dl.init := rfl

/-! ## 2. entry-point progress -/

theorem ap_inner_malloc_prog (hmn : malloc_nosys_Prog) (hsa : sys_alloc_Prog) : inner_malloc_Prog := by
  intro s hi size hbig hos e he
  unfold inner_malloc at he
  ap_esimp at he
  rcases he with he | ⟨r, hr, he⟩
  · exact (ap_total_not_err (hmn hi) he).elim
  · split at he
    · ap_esimp at he
    · ap_esimp at he
    · obtain ⟨hn, _, _⟩ := malloc_nosys_needSys hr
      subst hn
      exact hsa hi (as_nbOk (as_needSys_lt hr) hbig) hos e he

theorem ap_free_prog (hfh : free_heap_Prog) (hst : sys_trim_Prog) (hru : release_unused_segments_Prog) : free_Prog := by
  intro s hi hrc hfp mem h16 hu e he
  unfold free at he
  ap_esimp at he
  rcases he with he | ⟨⟨h1, t⟩, hfree, he⟩
  · exact (ap_total_not_err (hfh hi h16 hu) he).elim
  · obtain ⟨z, hu1, _⟩ := hu
    obtain ⟨hi1, _, _⟩ := all_free_heap hi h16 ⟨z, hu1⟩ hfree
    dsimp only at he
    split at he
    · ap_esimp at he
    · split at he
      · ap_esimp at he
        exact hst hi1 (show FpOk { s with h := h1 } from hfp) e he
      · ap_esimp at he
    · ap_esimp at he
      rcases he with ⟨hc, _⟩ | ⟨_, _, he⟩
      · exfalso
        have := hrc (ap_top_ne_of_user hi hu1)
        simp only [decide_eq_true_eq] at hc
        omega
      · split at he
        · ap_esimp at he
          have hi1' : SInv ({ { s with h := h1 } with release_checks := s.release_checks - 1 }.tag "release-check") :=
            as_sinv_same hi1 (as_Same.refl _)
          exact hru hi1' (show FpOk _ from hfp) e he
        · ap_esimp at he

/-! ## 3. `RcOk` is an invariant

`release_checks` is written by the first heap initialisation (`sys-init`: `MAX_RELEASE_CHECK_RATE`), by
`release_unused_segments` (at least `MAX_RELEASE_CHECK_RATE`) and by the countdown in `free`, which resets it through
`release_unused_segments` as soon as it reaches 0.  `top` becomes non-null exactly when the segment list becomes
non-empty (`topOk`), and that happens in `sys-init` only. -/

/-- `release_checks` is positive afterwards, or unchanged while no first segment appeared -/
def ap_RcRel (s s' : St) : Prop :=
  0 < s'.release_checks ∨ (s'.release_checks = s.release_checks ∧ (s'.segs ≠ [] → s.segs ≠ []))

theorem ap_rcRel_refl (s : St) : ap_RcRel s s := Or.inr ⟨rfl, fun h => h⟩

theorem ap_rcRel_of_eq {s s' : St} (h1 : s'.release_checks = s.release_checks) (h2 : s'.segs = s.segs) : ap_RcRel s s' :=
  Or.inr ⟨h1, fun h => h2 ▸ h⟩

theorem ap_rcRel_trans {a b c : St} (h1 : ap_RcRel a b) (h2 : ap_RcRel b c) : ap_RcRel a c := by
  rcases h2 with h2 | ⟨e2, i2⟩
  · exact Or.inl h2
  · rcases h1 with h1 | ⟨e1, i1⟩
    · exact Or.inl (by omega)
    · exact Or.inr ⟨by omega, fun h => i1 (i2 h)⟩

theorem ap_top_iff_segs {s : St} (w : WFS s) : s.h.top ≠ 0 ↔ s.segs ≠ [] := by
  have ht := w.top
  unfold topOk at ht
  split at ht
  · rename_i hs
    simp only [Bool.and_eq_true, decide_eq_true_eq] at ht
    rw [hs]
    simp [ht.1.1.1]
  · rename_i g gs hs
    simp only [Bool.and_eq_true, decide_eq_true_eq] at ht
    rw [hs]
    simp [ht.1.1.1.1.1.1]

theorem ap_rcOk_of_rel {s s' : St} (w : WFS s) (w' : WFS s') (h : RcOk s) (r : ap_RcRel s s') : RcOk s' := by
  intro ht
  rcases r with r | ⟨e, i⟩
  · exact r
  · rw [e]
    exact h ((ap_top_iff_segs w).2 (i ((ap_top_iff_segs w').1 ht)))

theorem ap_rcOk_init : RcOk Dl.init := fun h => absurd rfl h

theorem ap_init_top_rc {s s' : St} {ptr size : Nat} (h : init_top s ptr size = .ok s') :
    s'.release_checks = s.release_checks := by
  unfold init_top at h
  dsimp only at h
  msimp at h
  mlast h
  subst h; rfl

theorem ap_add_segment_rc {s s' : St} {tbase tsize : Nat} (h : add_segment s tbase tsize = .ok s') :
    s'.release_checks = s.release_checks := by
  unfold add_segment at h
  dsimp only at h
  split at h
  · msimp at h
  · msimp at h
    obtain ⟨_, _, _, _, s1, hs1, h⟩ := h
    have h1 := ap_init_top_rc hs1
    mlast h
    subst h
    exact h1

theorem ap_sys_alloc_place_rc {s : St} {tbase tsize nb : Nat} {r : Sum St (St × Nat)}
    (h : sys_alloc_place s tbase tsize nb = .ok r) :
    ∃ s', (r = .inl s' ∨ ∃ m, r = .inr (s', m)) ∧
      (0 < s'.release_checks ∨ (s'.release_checks = s.release_checks ∧ s.h.top ≠ 0)) := by
  unfold sys_alloc_place at h
  dsimp only at h
  split at h
  · msimp at h
    obtain ⟨_, _, _, _, s1, hs1, h⟩ := h
    have h1 := ap_init_top_rc hs1
    subst h
    refine ⟨_, Or.inl rfl, Or.inl ?_⟩
    show 0 < s1.release_checks
    rw [h1]
    show 0 < MAX_RELEASE_CHECK_RATE
    decide
  · rename_i htop
    split at h
    · msimp at h
      obtain ⟨s1, hs1, h⟩ := h
      have h1 := ap_init_top_rc hs1
      subst h
      exact ⟨_, Or.inl rfl, Or.inr ⟨h1, htop⟩⟩
    · split at h
      · msimp at h
        obtain ⟨⟨s1, m⟩, hp, h⟩ := h
        obtain ⟨h', hh⟩ := prepend_alloc_spec hp
        subst h
        subst hh
        exact ⟨_, Or.inr ⟨m, rfl⟩, Or.inr ⟨rfl, htop⟩⟩
      · msimp at h
        obtain ⟨s1, ha, h⟩ := h
        have h1 := ap_add_segment_rc ha
        subst h
        exact ⟨_, Or.inl rfl, Or.inr ⟨h1, htop⟩⟩

theorem ap_sys_alloc_rc {s s' : St} {nb mem : Nat} (h : sys_alloc s nb = .ok (s', mem)) :
    0 < s'.release_checks ∨ (s'.release_checks = s.release_checks ∧ (s.h.top ≠ 0 ∨ s'.segs = s.segs)) := by
  unfold sys_alloc at h
  dsimp only at h
  msimp at h
  obtain ⟨⟨res, s1⟩, hp, h⟩ := h
  obtain ⟨q, hq, hs1⟩ := popM_spec hp
  dsimp only at h
  split at h
  · msimp at h
    simp only [Prod.mk.injEq] at h
    obtain ⟨h, _⟩ := h
    subst h; subst hs1
    exact Or.inr ⟨rfl, Or.inr rfl⟩
  · msimp at h
    obtain ⟨r, hr, h⟩ := h
    obtain ⟨s2, hor, hrc⟩ := ap_sys_alloc_place_rc hr
    have key : 0 < s2.release_checks ∨ (s2.release_checks = s.release_checks ∧ (s.h.top ≠ 0 ∨ s2.segs = s.segs)) := by
      subst hs1
      rcases hrc with hrc | ⟨h1, h2⟩
      · exact Or.inl hrc
      · exact Or.inr ⟨h1, Or.inl h2⟩
    rcases hor with hor | ⟨m, hor⟩
    · subst hor
      dsimp only at h
      split at h
      · msimp at h
        mlast h
        simp only [Prod.mk.injEq] at h
        obtain ⟨h, _⟩ := h
        subst h
        exact key
      · msimp at h
        simp only [Prod.mk.injEq] at h
        obtain ⟨h, _⟩ := h
        subst h
        exact key
    · subst hor
      dsimp only at h
      msimp at h
      simp only [Prod.mk.injEq] at h
      obtain ⟨h, _⟩ := h
      subst h
      exact key

theorem ap_release_rc {s s' : St} {r : Nat} (h : release_unused_segments s = .ok (s', r)) : 0 < s'.release_checks := by
  unfold release_unused_segments at h
  split at h
  · msimp at h
    simp only [Prod.mk.injEq] at h
    obtain ⟨h, _⟩ := h; subst h
    show 0 < MAX_RELEASE_CHECK_RATE
    decide
  · msimp at h
    obtain ⟨⟨r1, s2, rl, nn⟩, _, h⟩ := h
    simp only [Prod.mk.injEq] at h
    obtain ⟨h, _⟩ := h; subst h
    show 0 < (if nn > MAX_RELEASE_CHECK_RATE then nn else MAX_RELEASE_CHECK_RATE)
    rw [MAX_RELEASE_CHECK_RATE_eq]
    split <;> omega

theorem ap_sys_trim_rc {s s' : St} {pad : Nat} {b : Bool} (h : sys_trim s pad = .ok (s', b)) :
    0 < s'.release_checks ∨ s' = s := by
  unfold sys_trim at h
  dsimp only at h
  split at h
  · msimp at h
    obtain ⟨⟨s1, rel⟩, _, ⟨s2, r2⟩, h2, h⟩ := h
    have b2 := ap_release_rc h2
    simp only [Prod.mk.injEq] at h
    obtain ⟨h, _⟩ := h
    subst h
    left
    split
    · exact b2
    · exact b2
  · msimp at h
    simp only [Prod.mk.injEq] at h
    obtain ⟨h, _⟩ := h; subst h; exact Or.inr rfl

theorem ap_wfs_tag {s : St} (w : WFS s) (t : String) : WFS (s.tag t) :=
  w.of_same ⟨rfl, rfl, rfl, rfl, rfl, rfl, rfl⟩ rfl rfl rfl

theorem ap_inner_malloc_rc {s s' : St} (w : WFS s) {size mem : Nat} (h : inner_malloc s size = .ok (s', mem)) :
    ap_RcRel s s' := by
  unfold inner_malloc at h
  msimp at h
  obtain ⟨r, _, h⟩ := h
  split at h
  · msimp at h
    simp only [Prod.mk.injEq] at h
    obtain ⟨h1, _⟩ := h
    subst h1
    exact ap_rcRel_of_eq rfl rfl
  · msimp at h
    simp only [Prod.mk.injEq] at h
    obtain ⟨h1, _⟩ := h
    subst h1
    exact ap_rcRel_refl s
  · rcases ap_sys_alloc_rc h with h1 | ⟨h1, h2 | h2⟩
    · exact Or.inl h1
    · exact Or.inr ⟨h1, fun _ => (ap_top_iff_segs w).1 h2⟩
    · exact ap_rcRel_of_eq h1 h2

theorem ap_free_rc {s s' : St} {mem : Nat} (h : free s mem = .ok s') : ap_RcRel s s' := by
  unfold free at h
  msimp at h
  obtain ⟨⟨h1, t⟩, _, h⟩ := h
  dsimp only at h
  split at h
  · msimp at h
    subst h
    exact ap_rcRel_of_eq rfl rfl
  · split at h
    · msimp at h
      obtain ⟨⟨s2, b⟩, htrim, h⟩ := h
      dsimp only at h
      subst h
      rcases ap_sys_trim_rc htrim with h2 | h2
      · exact Or.inl h2
      · subst h2
        exact ap_rcRel_of_eq rfl rfl
    · msimp at h
      subst h
      exact ap_rcRel_of_eq rfl rfl
  · msimp at h
    obtain ⟨_, hrc, h⟩ := h
    split at h
    · msimp at h
      obtain ⟨⟨s2, b⟩, hrel, h⟩ := h
      dsimp only at h
      subst h
      exact Or.inl (ap_release_rc hrel)
    · rename_i hne
      msimp at h
      subst h
      left
      simp only at hne ⊢
      omega

theorem ap_malloc_rc {s s' : St} (w : WFS s) {size al mem : Nat} (h : malloc s size al = .ok (s', mem)) :
    ap_RcRel s s' := by
  unfold malloc at h
  split at h
  · exact ap_inner_malloc_rc w h
  · unfold memalign at h
    generalize (if al < MIN_CHUNK_SIZE then MIN_CHUNK_SIZE else al) = x at h
    unfold memalign_body at h
    msimp at h
    obtain ⟨_, _, h⟩ := h
    split at h
    · msimp at h
      simp only [Prod.mk.injEq] at h
      obtain ⟨h1, _⟩ := h
      subst h1
      exact ap_rcRel_refl s
    · msimp at h
      obtain ⟨⟨s1, mem0⟩, him0, h⟩ := h
      dsimp only at h
      have r0 : ap_RcRel (s.tag "memalign") s1 := ap_inner_malloc_rc (ap_wfs_tag w "memalign") him0
      have r1 : ap_RcRel s s1 := r0
      split at h
      · msimp at h
        simp only [Prod.mk.injEq] at h
        obtain ⟨h1, _⟩ := h
        subst h1
        exact r1
      · msimp at h
        obtain ⟨⟨h2, mem2⟩, _, h⟩ := h
        simp only [Prod.mk.injEq] at h
        obtain ⟨e1, _⟩ := h
        subst e1
        exact ap_rcRel_trans r1 (ap_rcRel_of_eq rfl rfl)

theorem ap_realloc_rc {s s' : St} (w : WFS s) {ptr osz al ns mem : Nat} {c : Option Copy}
    (h : realloc s ptr osz al ns = .ok (s', mem, c)) : ap_RcRel s s' := by
  unfold realloc at h
  split at h
  · unfold inner_realloc at h
    split at h
    · msimp at h
      simp only [Prod.mk.injEq] at h
      obtain ⟨h1, _⟩ := h
      subst h1
      exact ap_rcRel_refl s
    · dsimp only at h
      msimp at h
      obtain ⟨_, _, r, _, h⟩ := h
      split at h
      · msimp at h
        simp only [Prod.mk.injEq] at h
        obtain ⟨h1, _⟩ := h
        subst h1
        exact ap_rcRel_of_eq rfl rfl
      · msimp at h
        obtain ⟨⟨s1, p1⟩, him0, h⟩ := h
        dsimp only at h
        have r0 : ap_RcRel (s.tag "realloc-move") s1 := ap_inner_malloc_rc (ap_wfs_tag w "realloc-move") him0
        have r1 : ap_RcRel s s1 := r0
        split at h
        · msimp at h
          obtain ⟨e, _, _, _, _, _, s2, hf, h⟩ := h
          simp only [Prod.mk.injEq] at h
          obtain ⟨e1, _⟩ := h
          subst e1
          exact ap_rcRel_trans r1 (ap_free_rc hf)
        · msimp at h
          simp only [Prod.mk.injEq] at h
          obtain ⟨e1, _⟩ := h
          subst e1
          exact r1
  · msimp at h
    obtain ⟨⟨s1, p1⟩, hmal, h⟩ := h
    dsimp only at h
    have r0 : ap_RcRel (s.tag "realloc-overaligned") s1 := ap_malloc_rc (ap_wfs_tag w "realloc-overaligned") hmal
    have r1 : ap_RcRel s s1 := r0
    split at h
    · msimp at h
      obtain ⟨s2, hf, h⟩ := h
      simp only [Prod.mk.injEq] at h
      obtain ⟨e1, _⟩ := h
      subst e1
      exact ap_rcRel_trans r1 (ap_free_rc hf)
    · msimp at h
      simp only [Prod.mk.injEq] at h
      obtain ⟨e1, _⟩ := h
      subst e1
      exact r1

/-! ## 4. `malloc`, `calloc`, `realloc` -/

theorem ap_getE_ok {h : Heap} {a : Nat} {e : Ent} (hf : findEnt h.ents a = some e) : getE h a = .ok e := by
  unfold getE
  rw [hf]
  rfl

/-- reading the header of a user chunk: it is found, in use (so not "mmapped"), of the user chunk's size -/
theorem ap_getE_user {s : St} {a z : Nat} (hu : User s a z) :
    ∃ e, getE s.h a = .ok e ∧ e.mmapped = false ∧ e.size = z := by
  obtain ⟨e, he, hc, hz, _, _⟩ := hu
  exact ⟨e, ap_getE_ok he, by simp [Ent.mmapped, hc], hz⟩

theorem ap_malloc_prog (him : inner_malloc_Prog) (hmf : memalign_fix_Prog) : malloc_Prog := by
  intro s hi size k hk hbig hos e he
  unfold malloc at he
  split at he
  · rename_i hal
    rw [MALLOC_ALIGNMENT_eq] at hal
    have hreq : reqOf size (2 ^ k) = size := by unfold reqOf; rw [MALLOC_ALIGNMENT_eq, if_pos hal]
    rw [hreq] at hbig hos
    exact him hi hbig hos e he
  · rename_i hal
    rw [MALLOC_ALIGNMENT_eq] at hal
    obtain ⟨hk5, h32⟩ := as_pow_gt16 hal
    have hp32 : 2 ^ k ≤ 2 ^ 32 := Nat.pow_le_pow_right (by decide) hk
    have hreq : reqOf size (2 ^ k) = request2size size + 2 ^ k + 32 - 8 := by
      unfold reqOf memalignReq; rw [MALLOC_ALIGNMENT_eq, if_neg hal, MIN_CHUNK_SIZE_eq, CHUNK_OVERHEAD_eq]
    rw [hreq] at hbig hos
    unfold memalign at he
    rw [if_neg (by rw [MIN_CHUNK_SIZE_eq]; omega)] at he
    unfold memalign_body at he
    rw [MIN_CHUNK_SIZE_eq, CHUNK_OVERHEAD_eq] at he
    ap_esimp at he
    rcases he with ⟨hc, _⟩ | ⟨_, hmax, he⟩
    · exfalso
      rw [MAX_REQUEST_eq] at hc
      simp only [decide_eq_true_eq] at hc
      omega
    · split at he
      · ap_esimp at he
      · rename_i hlt
        ap_esimp at he
        rcases he with he | ⟨⟨s1, mem0⟩, him0, he⟩
        · exact him (as_sinv_tag hi "memalign") hbig (as_osOk_same hos rfl rfl) e he
        · obtain ⟨hi1, ha1, _⟩ := ap_inner_malloc_spec (as_sinv_tag hi "memalign") hbig (as_osOk_same hos rfl rfl) him0
          dsimp only at he
          split at he
          · ap_esimp at he
          · rename_i h0
            ap_esimp at he
            exfalso
            have ha1 : Alloc s s1 _ mem0 := ha1 h0
            obtain ⟨z, hz, hu⟩ := as_alloc_new ha1
            have hreqlt := inner_malloc_lt_max him0 h0
            have hreq24 := lt_max_request_no_overflow _ hreqlt
            have hge := request2size_ge _ hreq24
            rw [nbOf_eq] at hz hbig
            have hszlt : size < MAX_REQUEST := by
              rw [MAX_REQUEST_eq] at hlt hmax ⊢
              simp only [decide_eq_false_iff_not, Nat.not_lt, ge_iff_le, Nat.not_le] at hlt hmax
              omega
            have hs24 := lt_max_request_no_overflow size hszlt
            have hnb : NbOk (request2size size) := by
              refine ⟨request2size_aligned size hs24, request2size_ge_min size hs24, ?_⟩
              omega
            have hzz : request2size size + 2 ^ k + 24 ≤ z := by
              omega
            exact ap_total_not_err (hmf hi1 ha1.1 hu hnb hk5 hk hzz) he

/-- `calloc` (the interface file has no `calloc_Prog`; this is its statement) -/
theorem ap_calloc_prog (hm : malloc_Prog) {s : St} (hi : SInv s) {size k : Nat} (hk : k ≤ 32)
    (hbig : nbOf (reqOf size (2 ^ k)) < 2 ^ 63) (hos : OsOk s (mapSize (reqOf size (2 ^ k)))) :
    Prog (calloc s size (2 ^ k)) := by
  intro e he
  unfold calloc at he
  ap_esimp at he
  rcases he with he | ⟨⟨s1, p⟩, hmal, he⟩
  · exact hm hi hk hbig hos e he
  · obtain ⟨_, ha, _⟩ := ap_malloc_spec hi hk hbig hos hmal
    dsimp only at he
    split at he
    · rename_i hp
      exfalso
      obtain ⟨_, ha⟩ := ha hp
      obtain ⟨z, _, hu⟩ := as_alloc_new ha
      obtain ⟨e0, hg, _, _⟩ := ap_getE_user hu
      have h16 := ha.1
      rw [MEM_OFFSET_eq] at he
      ap_esimp at he
      rcases he with ⟨hc, _⟩ | ⟨_, _, he⟩
      · simp only [decide_eq_true_eq] at hc
        omega
      · exact ap_ok_ne_err hg he
    · ap_esimp at he

theorem ap_inner_realloc_prog (htr : try_realloc_chunk_Prog) (him : inner_malloc_Prog) (hfp' : free_Prog)
    {s : St} (hi : SInv s) (hrc : RcOk s) (hfp : FpOk s) {ptr ns z : Nat} (h16 : 16 ≤ ptr) (hu : User s (ptr - 16) z)
    (h32 : 32 ≤ z) (hbig : nbOf ns < 2 ^ 63) (hos : OsOk s (mapSize ns)) : Prog (inner_realloc s ptr ns) := by
  intro e he
  unfold inner_realloc at he
  split at he
  · ap_esimp at he
  · rename_i hlt
    have hlt : ns < MAX_REQUEST := by omega
    dsimp only at he
    rw [MEM_OFFSET_eq] at he
    ap_esimp at he
    rcases he with ⟨hc, _⟩ | ⟨_, _, he⟩
    · simp only [decide_eq_true_eq] at hc
      omega
    · have hnb : NbOk (request2size ns) := by rw [← nbOf_eq]; exact as_nbOk hlt hbig
      rcases he with he | ⟨r, hr, he⟩
      · exact (ap_total_not_err (htr hi hu h32 hnb) he).elim
      · split at he
        · ap_esimp at he
        · ap_esimp at he
          rcases he with he | ⟨⟨s1, p1⟩, him0, he⟩
          · exact him (as_sinv_tag hi "realloc-move") hbig (as_osOk_same hos rfl rfl) e he
          · obtain ⟨hi1, ha1, _⟩ := ap_inner_malloc_spec (as_sinv_tag hi "realloc-move") hbig
              (as_osOk_same hos rfl rfl) him0
            dsimp only at he
            split at he
            · rename_i hp1
              have ha1 : Alloc s s1 _ p1 := ha1 hp1
              have hu1 : User s1 (ptr - 16) z := as_alloc_old ha1 hu
              obtain ⟨e0, hg, hmm, hsz⟩ := ap_getE_user hu1
              have r0 : ap_RcRel (s.tag "realloc-move") s1 := ap_inner_malloc_rc (ap_wfs_tag hi.wfs "realloc-move") him0
              have hrc1 : RcOk s1 := ap_rcOk_of_rel hi.wfs hi1.wfs hrc r0
              have hfp1 : FpOk s1 := ap_fp_of_book (show FpOk (s.tag "realloc-move") from hfp) (inner_malloc_book him0)
              rw [CHUNK_OVERHEAD_eq] at he
              ap_esimp at he
              rcases he with he | ⟨e1, hg1, he⟩
              · exact (ap_ok_ne_err hg he).elim
              · rw [hg] at hg1
                injection hg1 with hg1
                subst hg1
                rcases he with ⟨hc, _⟩ | ⟨_, _, he⟩
                · rw [hmm] at hc; cases hc
                · rcases he with ⟨hc, _⟩ | ⟨_, _, he⟩
                  · simp only [decide_eq_true_eq] at hc
                    omega
                  · exact hfp' hi1 hrc1 hfp1 h16 ⟨z, hu1, h32⟩ e he
            · ap_esimp at he

theorem ap_realloc_prog (htr : try_realloc_chunk_Prog) (him : inner_malloc_Prog) (hfp' : free_Prog)
    (hmp : malloc_Prog) : realloc_Prog := by
  intro s hi hrc hfp ptr osz k ns z h16 hu h32 hk hmodp hbig hos e he
  unfold realloc at he
  split at he
  · rename_i hal
    rw [MALLOC_ALIGNMENT_eq] at hal
    have hreq : reqOf ns (2 ^ k) = ns := by unfold reqOf; rw [MALLOC_ALIGNMENT_eq, if_pos hal]
    rw [hreq] at hbig hos
    exact ap_inner_realloc_prog htr him hfp' hi hrc hfp h16 hu h32 hbig hos e he
  · ap_esimp at he
    rcases he with he | ⟨⟨s1, p1⟩, hmal, he⟩
    · exact hmp (as_sinv_tag hi "realloc-overaligned") hk hbig (as_osOk_same hos rfl rfl) e he
    · obtain ⟨hi1, ha1, _⟩ := ap_malloc_spec (as_sinv_tag hi "realloc-overaligned") hk hbig
        (as_osOk_same hos rfl rfl) hmal
      dsimp only at he
      split at he
      · rename_i hp1
        obtain ⟨_, ha1⟩ := ha1 hp1
        have ha1 : Alloc s s1 _ p1 := ha1
        have hu1 : User s1 (ptr - 16) z := as_alloc_old ha1 hu
        have r0 : ap_RcRel (s.tag "realloc-overaligned") s1 := ap_malloc_rc (ap_wfs_tag hi.wfs "realloc-overaligned") hmal
        have hrc1 : RcOk s1 := ap_rcOk_of_rel hi.wfs hi1.wfs hrc r0
        have hfp1 : FpOk s1 := ap_fp_of_book (show FpOk (s.tag "realloc-overaligned") from hfp) (malloc_book hmal)
        ap_esimp at he
        exact hfp' hi1 hrc1 hfp1 h16 ⟨z, hu1, h32⟩ e he
      · ap_esimp at he

/-- the three entry-point progress theorems from the seven leaf ones -/
theorem ap_entry_progs (h1 : malloc_nosys_Prog) (h2 : sys_alloc_Prog) (h3 : free_heap_Prog) (h4 : sys_trim_Prog)
    (h5 : release_unused_segments_Prog) (h6 : try_realloc_chunk_Prog) (h7 : memalign_fix_Prog) :
    malloc_Prog ∧ free_Prog ∧ realloc_Prog := by
  have him : inner_malloc_Prog := ap_inner_malloc_prog h1 h2
  have hf : free_Prog := ap_free_prog h3 h4 h5
  have hm : malloc_Prog := ap_malloc_prog him h7
  exact ⟨hm, hf, ap_realloc_prog h6 him hf hm⟩

/-! ## 5. the step theorems -/

/-- the operation is meaningful in this history: a fresh id for an allocation, a live block for `realloc` / `free`
(otherwise `Hist.step` answers `bad-op:*`, which is an error of the caller, not of the allocator) -/
def ValidOp (hs : Hist) (op : Op) : Prop :=
  match op with
  | .malloc id _ _ => (findBlock hs.live id).isSome = false
  | .calloc id _ _ => (findBlock hs.live id).isSome = false
  | .realloc id _ => (findBlock hs.live id).isSome = true
  | .free id => (findBlock hs.live id).isSome = true

/-- the error outcomes left for a step from a good state: the list of OS answers handed to `step` does not match the
system calls the operation makes (wrong kind of answer, or answers left over) -/
def StepErr (e : String) : Prop := IsDesync e ∨ e = "os-desync:unused-answers"

theorem ap_rcOk_start {hs : Hist} (h : RcOk hs.st) (os : List OsDir) : RcOk (hs.start os) := h
theorem ap_fpOk_start {hs : Hist} (h : FpOk hs.st) (os : List OsDir) : FpOk (hs.start os) := h

/-- **progress of one step**, from the entry-point progress theorems -/
theorem step_progress_of_entry_progs (hm : malloc_Prog) (hf : free_Prog) (hr : realloc_Prog)
    {hs : Hist} {op : Op} {os : List OsDir} (hi : Inv2 hs) (hrc : RcOk hs.st) (hfp : FpOk hs.st) (hop : OpOk hs op os)
    (hv : ValidOp hs op) : ∀ e, hs.step op os = .error e → StepErr e := by
  intro e he
  obtain ⟨hinv, huq, hao⟩ := hi
  have hsi := as_sinv_start hinv.1 os
  unfold Hist.step at he
  dsimp only at he
  split at he
  · -- malloc
    obtain ⟨k, hk, hal, hbig, hos⟩ := hop
    subst hal
    ap_esimp at he
    rcases he with ⟨hc, _⟩ | ⟨_, _, he⟩
    · rw [show (findBlock hs.live _).isSome = false from hv] at hc; cases hc
    · rcases he with he | ⟨⟨s1, p⟩, _, he⟩
      · exact Or.inl (hm hsi hk hbig hos e he)
      · exact Or.inr he.2.symm
  · -- calloc
    obtain ⟨k, hk, hal, hbig, hos⟩ := hop
    subst hal
    ap_esimp at he
    rcases he with ⟨hc, _⟩ | ⟨_, _, he⟩
    · rw [show (findBlock hs.live _).isSome = false from hv] at hc; cases hc
    · rcases he with he | ⟨⟨s1, p, z⟩, _, he⟩
      · exact Or.inl (ap_calloc_prog hm hsi hk hbig hos e he)
      · exact Or.inr he.2.symm
  · -- realloc
    split at he
    · rename_i hnone
      have hv : (findBlock hs.live _).isSome = true := hv
      rw [hnone] at hv
      cases hv
    · rename_i b hb
      obtain ⟨hb0, _⟩ := as_findBlock_some hb
      obtain ⟨k, hk, hal⟩ := hao b hb0
      obtain ⟨hbig, hos⟩ := hop b hb
      rw [hal] at hbig hos he
      have hl := as_liveOn_start hinv os
      obtain ⟨h16, _, hmodp, z, hu, _, h32⟩ := hl.blocks b hb0
      rw [hal] at hmodp
      ap_esimp at he
      rcases he with he | ⟨⟨s1, p, c⟩, _, he⟩
      · exact Or.inl (hr hsi (ap_rcOk_start hrc os) (ap_fpOk_start hfp os) h16 hu h32 hk hmodp hbig hos e he)
      · exact Or.inr he.2.symm
  · -- free
    split at he
    · rename_i hnone
      have hv : (findBlock hs.live _).isSome = true := hv
      rw [hnone] at hv
      cases hv
    · rename_i b hb
      obtain ⟨hb0, _⟩ := as_findBlock_some hb
      have hl := as_liveOn_start hinv os
      obtain ⟨h16, _, _, z, hu, _, h32⟩ := hl.blocks b hb0
      ap_esimp at he
      rcases he with he | ⟨s1, _, he⟩
      · exact Or.inl (hf hsi (ap_rcOk_start hrc os) (ap_fpOk_start hfp os) h16 ⟨z, hu, h32⟩ e he)
      · exact Or.inr he.2.symm

/-- **progress of one step**, from the leaf progress theorems: from a state satisfying the invariant, an operation
the caller is entitled to make cannot trip a `debug_assert!`, underflow, read an unwritten header, take a dead
direct-mmap branch or miss a chunk in its bin — the only error outcomes left are the `os-desync` ones -/
theorem step_progress_of_progs (h1 : malloc_nosys_Prog) (h2 : sys_alloc_Prog) (h3 : free_heap_Prog) (h4 : sys_trim_Prog)
    (h5 : release_unused_segments_Prog) (h6 : try_realloc_chunk_Prog) (h7 : memalign_fix_Prog)
    {hs : Hist} {op : Op} {os : List OsDir} (hi : Inv2 hs) (hrc : RcOk hs.st) (hfp : FpOk hs.st) (hop : OpOk hs op os)
    (hv : ValidOp hs op) : ∀ e, hs.step op os = .error e → IsDesync e ∨ e = "os-desync:unused-answers" := by
  obtain ⟨hm, hf, hr⟩ := ap_entry_progs h1 h2 h3 h4 h5 h6 h7
  exact step_progress_of_entry_progs hm hf hr hi hrc hfp hop hv

/-- the invariant after a step (the assembled inductiveness theorem) -/
theorem ap_inv_step {hs hs' : Hist} {op : Op} {os : List OsDir} {out : Out}
    (hi : Inv2 hs) (hop : OpOk hs op os) (h : hs.step op os = .ok (hs', out)) : Inv2 hs' :=
  inv_step_of_leaf_specs all_malloc_nosys all_sys_alloc all_free_heap all_sys_trim all_release_unused_segments
    all_try_realloc_chunk all_memalign_fix hi hop h

/-- **`RcOk` is preserved by every step** -/
theorem rcOk_step {hs hs' : Hist} {op : Op} {os : List OsDir} {out : Out}
    (hi : Inv2 hs) (hrc : RcOk hs.st) (hop : OpOk hs op os) (h : hs.step op os = .ok (hs', out)) : RcOk hs'.st := by
  have hi' := ap_inv_step hi hop h
  have w : WFS (hs.start os) := hi.1.1.wfs.start os
  have w' := hi'.1.1.wfs
  suffices hrel : ap_RcRel (hs.start os) hs'.st from ap_rcOk_of_rel w w' (ap_rcOk_start hrc os) hrel
  unfold Hist.step at h
  dsimp only at h
  split at h
  · msimp at h
    obtain ⟨_, _, ⟨s1, p⟩, hmal, _, _, h⟩ := h
    simp only [Prod.mk.injEq] at h
    obtain ⟨h1, _⟩ := h
    subst h1
    exact ap_malloc_rc w hmal
  · msimp at h
    obtain ⟨_, _, ⟨s1, p, z⟩, hcal, _, _, h⟩ := h
    simp only [Prod.mk.injEq] at h
    obtain ⟨h1, _⟩ := h
    subst h1
    exact ap_malloc_rc w (as_calloc_malloc hcal)
  · split at h
    · msimp at h
    · msimp at h
      obtain ⟨⟨s1, p, c⟩, hre, _, _, h⟩ := h
      simp only [Prod.mk.injEq] at h
      obtain ⟨h1, _⟩ := h
      subst h1
      exact ap_realloc_rc w hre
  · split at h
    · msimp at h
    · msimp at h
      obtain ⟨s1, hfree, _, _, h⟩ := h
      simp only [Prod.mk.injEq] at h
      obtain ⟨h1, _⟩ := h
      subst h1
      exact ap_free_rc hfree

/-- **`FpOk` is preserved by every step** (no invariant needed: pure bookkeeping, `step_book`) -/
theorem fpOk_step {hs hs' : Hist} {op : Op} {os : List OsDir} {out : Out}
    (hfp : FpOk hs.st) (h : hs.step op os = .ok (hs', out)) : FpOk hs'.st :=
  ap_fp_of_book (ap_fpOk_start hfp os) (step_book h)

/-- the full invariant of the progress theorem -/
def Inv3 (hs : Hist) : Prop := Inv2 hs ∧ RcOk hs.st ∧ FpOk hs.st

theorem inv3_init : Inv3 Hist.init := ⟨inv2_init, ap_rcOk_init, ap_fpOk_init⟩

/-- **`Inv3` is preserved by every successful step** -/
theorem ap_inv3_step {hs hs' : Hist} {op : Op} {os : List OsDir} {out : Out}
    (hi : Inv3 hs) (hop : OpOk hs op os) (h : hs.step op os = .ok (hs', out)) : Inv3 hs' :=
  ⟨ap_inv_step hi.1 hop h, rcOk_step hi.1 hi.2.1 hop h, fpOk_step hi.2.2 h⟩

/-! ## 6. whole histories -/

/-- every operation of the history satisfies `OpOk` and `ValidOp` in the state it is applied to -/
def RunOk2 : Hist → List (Op × List OsDir) → Prop
  | _, [] => True
  | hs, (op, os) :: rest => OpOk hs op os ∧ ValidOp hs op ∧
      ∀ hs1 out, hs.step op os = .ok (hs1, out) → RunOk2 hs1 rest

theorem RunOk2.runOk : ∀ {ops : List (Op × List OsDir)} {hs : Hist}, RunOk2 hs ops → RunOk hs ops := by
  intro ops
  induction ops with
  | nil => intro hs _; trivial
  | cons x rest ih =>
    intro hs h
    obtain ⟨op, os⟩ := x
    exact ⟨h.1, fun hs1 out hst => ih (h.2.2 hs1 out hst)⟩

/-- a prefix of a good history is a good history -/
theorem RunOk2.prefix : ∀ {a b : List (Op × List OsDir)} {hs : Hist}, RunOk2 hs (a ++ b) → RunOk2 hs a := by
  intro a
  induction a with
  | nil => intro b hs _; trivial
  | cons x rest ih =>
    intro b hs h
    obtain ⟨op, os⟩ := x
    exact ⟨h.1, h.2.1, fun hs1 out hst => ih (h.2.2 hs1 out hst)⟩

/-- the invariant along a history -/
theorem ap_run_inv (ops : List (Op × List OsDir)) : ∀ {hs hs' : Hist} {evs : List OsEv}, Inv3 hs →
    RunOk2 hs ops → hs.run ops = .ok (hs', evs) → Inv3 hs' := by
  induction ops with
  | nil =>
    intro hs hs' evs hi _ h
    unfold Hist.run at h
    msimp at h
    simp only [Prod.mk.injEq] at h
    obtain ⟨h1, _⟩ := h; subst h1
    exact hi
  | cons x rest ih =>
    intro hs hs' evs hi hok h
    obtain ⟨op, os⟩ := x
    obtain ⟨hop, _, hrest⟩ := hok
    unfold Hist.run at h
    msimp at h
    obtain ⟨⟨hs1, o1⟩, h1, ⟨hs2, e2⟩, h2, h⟩ := h
    simp only [Prod.mk.injEq] at h
    obtain ⟨e1, _⟩ := h; subst e1
    exact ih (ap_inv3_step hi hop h1) (hrest hs1 o1 h1) h2

/-- **progress of a history**: a history all of whose operations are `OpOk` and `ValidOp` when they are applied either
runs to the end or stops at an operation whose OS answers do not match its system calls -/
theorem run_progress_from (hm : malloc_Prog) (hf : free_Prog) (hr : realloc_Prog) (ops : List (Op × List OsDir)) :
    ∀ {hs : Hist}, Inv3 hs → RunOk2 hs ops → ∀ e, hs.run ops = .error e → StepErr e := by
  induction ops with
  | nil =>
    intro hs _ _ e he
    unfold Hist.run at he
    ap_esimp at he
  | cons x rest ih =>
    intro hs hi hok e he
    obtain ⟨op, os⟩ := x
    obtain ⟨hop, hv, hrest⟩ := hok
    unfold Hist.run at he
    ap_esimp at he
    rcases he with he | ⟨⟨hs1, o1⟩, h1, he⟩
    · exact step_progress_of_entry_progs hm hf hr hi.1 hi.2.1 hi.2.2 hop hv e he
    · exact ih (ap_inv3_step hi hop h1) (hrest hs1 o1 h1) e he

/-- … from the initial state, from the leaf progress theorems; together with `RunOk2.prefix`: every prefix of such a
history either runs or stops with a desync -/
theorem run_progress_of_progs (h1 : malloc_nosys_Prog) (h2 : sys_alloc_Prog) (h3 : free_heap_Prog) (h4 : sys_trim_Prog)
    (h5 : release_unused_segments_Prog) (h6 : try_realloc_chunk_Prog) (h7 : memalign_fix_Prog)
    {ops : List (Op × List OsDir)} (hok : RunOk2 Hist.init ops) :
    (∀ e, Hist.init.run ops = .error e → IsDesync e ∨ e = "os-desync:unused-answers") ∧
    (∀ hs' evs, Hist.init.run ops = .ok (hs', evs) → Inv3 hs') := by
  obtain ⟨hm, hf, hr⟩ := ap_entry_progs h1 h2 h3 h4 h5 h6 h7
  exact ⟨run_progress_from hm hf hr ops inv3_init hok, fun hs' evs h => ap_run_inv ops inv3_init hok h⟩

/-! ## 7. non-vacuity (kernel-evaluated) -/

theorem ap_err_of_matchB {α : Type} {x : M α} {p : String → Bool}
    (h : (match x with | .ok _ => false | .error e => p e) = true) : ∃ e, x = .error e ∧ p e = true := by
  cases x with
  | ok v => cases h
  | error e => exact ⟨e, rfl, h⟩

set_option maxRecDepth 40000 in
/-- `RcOk` holds non-trivially on the demo state (two segments, `top` set, countdown running) -/
theorem ap_demo_rcOk : RcOk as_demo.st ∧ as_demo.st.h.top ≠ 0 ∧ as_demo.st.release_checks = 4095 := by
  refine ⟨fun _ => ?_, by decide, by decide⟩
  have : as_demo.st.release_checks = 4095 := by decide
  omega

set_option maxRecDepth 40000 in
/-- hypotheses of `step_progress_of_progs` for a `malloc` that needs a mapping but is handed no OS answer: the step
does stop, with one of the outcomes the theorem allows -/
example : Inv2 as_demo ∧ RcOk as_demo.st ∧ FpOk as_demo.st ∧ OpOk as_demo (.malloc 7 100000 8) [] ∧
    ValidOp as_demo (.malloc 7 100000 8) ∧
    as_demo.step (.malloc 7 100000 8) [] = .error "os-desync:mmap" ∧ IsDesync "os-desync:mmap" := by
  refine ⟨as_demo_inv2.1, ap_demo_rcOk.1, by unfold FpOk; decide, ⟨3, by decide, by decide, by unfold as_BigOk; decide, ?_⟩, by unfold ValidOp; decide,
    ?_, Or.inl rfl⟩
  · intro tbase q hq
    cases hq
  · obtain ⟨e, he, hp⟩ := ap_err_of_matchB (x := as_demo.step (.malloc 7 100000 8) [])
      (p := fun e => decide (e = "os-desync:mmap")) (by decide)
    simp only [decide_eq_true_eq] at hp
    rw [he, hp]

set_option maxRecDepth 40000 in
/-- … and with an answer too many: `os-desync:unused-answers` -/
example : OpOk as_demo (.malloc 7 100 8) [.m none] ∧ ValidOp as_demo (.malloc 7 100 8) ∧
    as_demo.step (.malloc 7 100 8) [.m none] = .error "os-desync:unused-answers" := by
  refine ⟨⟨3, by decide, by decide, by unfold as_BigOk; decide, ?_⟩, by unfold ValidOp; decide, ?_⟩
  · intro tbase q hq
    cases hq
  · obtain ⟨e, he, hp⟩ := ap_err_of_matchB (x := as_demo.step (.malloc 7 100 8) [.m none])
      (p := fun e => decide (e = "os-desync:unused-answers")) (by decide)
    simp only [decide_eq_true_eq] at hp
    rw [he, hp]

set_option maxRecDepth 40000 in
/-- `ValidOp` / `OpOk` for `realloc` and `free` of live blocks of the demo state (the steps run) -/
example : ValidOp as_demo (.realloc 4 200000) ∧ ValidOp as_demo (.free 1) ∧ OpOk as_demo (.free 1) [] ∧
    (∃ v, as_demo.step (.free 1) [] = .ok v) := by
  refine ⟨by unfold ValidOp; decide, by unfold ValidOp; decide, trivial, ?_⟩
  obtain ⟨v, hv, _⟩ := as_ok_of_matchB (x := as_demo.step (.free 1) []) (p := fun _ => true) (by decide)
  exact ⟨v, hv⟩

/-- a 1000-byte block (its chunk goes to a tree bin when freed) and a small one behind it -/
def ap_ops2 : List (Op × List OsDir) := [(.malloc 1 1000 8, [.m (some 1048576)]), (.malloc 2 100 8, [])]

def ap_st2 : Hist := match Hist.init.run ap_ops2 with
  | .ok (hs, _) => hs
  | .error _ => Hist.init

/-- the same state with the countdown at 0 -/
def ap_st3 : Hist := { ap_st2 with st := { ap_st2.st with release_checks := 0 } }

set_option maxRecDepth 40000 in
/-- **`RcOk` is needed**: `Inv2` does not constrain `release_checks`; from a state satisfying `Inv2` but not `RcOk`
the `free` of a large chunk stops with `underflow:release_checks` (in the Rust code: `release_checks -= 1` on 0).
Such a state is unreachable (`rcOk_step`); from the reachable twin the same `free` runs and counts down. -/
example : Inv2 ap_st3 ∧ ¬ RcOk ap_st3.st ∧ OpOk ap_st3 (.free 1) [] ∧ ValidOp ap_st3 (.free 1) ∧
    ap_st3.step (.free 1) [] = .error "underflow:release_checks" ∧
    Inv2 ap_st2 ∧ RcOk ap_st2.st ∧ (∃ v, ap_st2.step (.free 1) [] = .ok v ∧ v.1.st.release_checks = 4094) := by
  refine ⟨as_inv2B_ok (by decide), ?_, trivial, by unfold ValidOp; decide, ?_, as_inv2B_ok (by decide), ?_, ?_⟩
  · intro h
    have h1 : ap_st3.st.h.top ≠ 0 := by decide
    have h2 : ap_st3.st.release_checks = 0 := by decide
    have := h h1
    omega
  · obtain ⟨e, he, hp⟩ := ap_err_of_matchB (x := ap_st3.step (.free 1) [])
      (p := fun e => decide (e = "underflow:release_checks")) (by decide)
    simp only [decide_eq_true_eq] at hp
    rw [he, hp]
  · intro _
    have : ap_st2.st.release_checks = 4095 := by decide
    omega
  · obtain ⟨v, hv, hp⟩ := as_ok_of_matchB (x := ap_st2.step (.free 1) [])
      (p := fun v => decide (v.1.st.release_checks = 4094)) (by decide)
    simp only [decide_eq_true_eq] at hp
    exact ⟨v, hv, hp⟩

set_option maxRecDepth 40000 in
/-- hypotheses of `run_progress_of_progs`: `RunOk2` of a short history from the initial state -/
example : RunOk2 Hist.init [(.malloc 1 100 8, [.m (some 1048576)]), (.free 1, [])] := by
  refine ⟨⟨3, by decide, by decide, by unfold as_BigOk; decide, ?_⟩, by unfold ValidOp; decide, ?_⟩
  · intro tbase q hq
    have : tbase = 1048576 := by
      injection hq with h1 _
      injection h1 with h1
      injection h1 with h1
      exact h1.symm
    subst this
    exact ⟨⟨by decide, by decide, by decide, fun g hg => by cases hg⟩, by decide⟩
  · intro hs1 out hst
    obtain ⟨v, hv, hp⟩ := as_ok_of_matchB (x := Hist.init.step (.malloc 1 100 8) [.m (some 1048576)])
      (p := fun v => (findBlock v.1.live 1).isSome) (by decide)
    rw [hv] at hst
    injection hst with hst
    subst hst
    exact ⟨trivial, hp, fun _ _ _ => trivial⟩

end TinyVerif.Dl
