import TinyVerif.Proofs.RwInv
set_option maxRecDepth 4000
set_option linter.unusedSimpArgs false
set_option linter.unusedVariables false
namespace TinyVerif.RwLock

macro "plain_tac" : tactic => `(tactic|
  first
  | exact plain_rNext _
  | exact plain_wNext _ _
  | exact plain_wakeEntry _
  | exact plain_wakeAfterA _
  | (simp [Plain, Pc.isR, Pc.isW, PcWf]; done)
  | (repeat' split) <;> first
      | exact plain_rNext _
      | exact plain_wNext _ _
      | exact plain_wakeEntry _
      | exact plain_wakeAfterA _
      | (simp_all [Plain, Pc.isR, Pc.isW, PcWf]; done))

theorem plain_tNext (w : Bool) (o : Nat) :
    Plain (if (if w = true then isUnlocked o else isReadLockable o) = true then Pc.tCas w o else Pc.tryFailed) := by
  cases w
  · simp only [Bool.false_eq_true, if_false]
    split
    · rename_i hh; simp [Plain, Pc.isR, Pc.isW, PcWf]; exact hh
    · simp [Plain, Pc.isR, Pc.isW, PcWf]
  · simp only [if_true]
    split
    · rename_i hh; simp [Plain, Pc.isR, Pc.isW, PcWf]; exact hh
    · simp [Plain, Pc.isR, Pc.isW, PcWf]

theorem plain_ite_wake (b : Prop) [Decidable b] (x : Nat) : Plain (if b then wakeEntry x else Pc.idle) := by
  split
  · exact plain_wakeEntry _
  · simp [Plain, Pc.isR, Pc.isW, PcWf]

variable (c : Cfg) (hc : c.Good) (s s' : St) (i : Nat) (e : Ev) (hi : i < s.n) (hinv : RInv s)

/-- the hypotheses of a CAS arm, in usable form -/
macro "cas_prep" h:ident : tactic => `(tactic|
  (split at $h:ident
   · simp at $h:ident
   · rename_i hcond
     simp only [not_or, Decidable.not_not, Bool.not_eq_true', Bool.not_eq_false', Bool.not_eq_false] at hcond))

include hi hinv in
theorem st_idle (hpc : (s.ths i).pc = .idle) (h : step_idle c s i (s.ths i) e = some s') : RInv s' := by
  unfold step_idle at h
  split at h
  · rename_i k
    split at h
    · split at h
      · simp at h
      · cases h
        refine inv_plain s i _ hinv hi (by simp [Pc.isR, Pc.isW, hpc]) ?_
        cases k <;> simp [Plain, Pc.isR, Pc.isW, PcWf]
    · simp at h
  · simp at h

include hi hinv in
theorem st_rLoad (hpc : (s.ths i).pc = .rLoad) (h : step_rLoad c s i (s.ths i) e = some s') : RInv s' := by
  unfold step_rLoad at h
  split at h
  · cases h
    exact inv_plain s i _ hinv hi (by simp [Pc.isR, Pc.isW, hpc]) (by plain_tac)
  · simp at h

include hc hi hinv in
theorem st_rFastCas (st : Nat) (hpc : (s.ths i).pc = .rFastCas st) (h : step_rFastCas c s i (s.ths i) st e = some s') : RInv s' := by
  obtain ⟨hc1, hc2, hc3, hc4⟩ := hc
  unfold step_rFastCas at h
  split at h
  · rename_i exp new r
    split at h
    · simp at h
    · rename_i hcond
      simp only [not_or, Decidable.not_not, Bool.not_eq_true', Bool.not_eq_false', Bool.not_eq_false] at hcond
      obtain ⟨he, hn, hcc⟩ := hcond
      have hwf := hinv.pcwf i; rw [hpc] at hwf; simp only [PcWf] at hwf
      have h0 : (s.ths i).pc.isR = false ∧ (s.ths i).pc.isW = false := by simp [Pc.isR, Pc.isW, hpc]
      cases r with
      | ok =>
        simp only [] at h; cases h
        simp only [casConsistent, beq_iff_eq] at hcc
        subst he hn; rw [← hcc] at hwf ⊢; rw [hc1]
        exact inv_acquireR s i hinv hi hwf (by rw [holdsR_eq]; exact h0.1) (by rw [holdsW_eq]; exact h0.2)
      | fail o => simp only [] at h; cases h; exact inv_plain s i _ hinv hi h0 (by plain_tac)
      | spur o => simp only [] at h; cases h; exact inv_plain s i _ hinv hi h0 (by plain_tac)
  · simp at h

include hi hinv in
theorem st_rSpin (n : Nat) (hpc : (s.ths i).pc = .rSpin n) (h : step_rSpin c s i (s.ths i) n e = some s') : RInv s' := by
  unfold step_rSpin at h
  split at h
  · cases h
    exact inv_plain s i _ hinv hi (by simp [Pc.isR, Pc.isW, hpc]) (by plain_tac)
  · simp at h

include hc hi hinv in
theorem st_rCas (st : Nat) (hpc : (s.ths i).pc = .rCas st) (h : step_rCas c s i (s.ths i) st e = some s') : RInv s' := by
  obtain ⟨hc1, hc2, hc3, hc4⟩ := hc
  unfold step_rCas at h
  split at h
  · rename_i exp new r
    split at h
    · simp at h
    · rename_i hcond
      simp only [not_or, Decidable.not_not, Bool.not_eq_true', Bool.not_eq_false', Bool.not_eq_false] at hcond
      obtain ⟨he, hn, hcc⟩ := hcond
      have h0 : (s.ths i).pc.isR = false ∧ (s.ths i).pc.isW = false := by simp [Pc.isR, Pc.isW, hpc]
      have hwf := hinv.pcwf i; rw [hpc] at hwf; simp only [PcWf] at hwf
      cases r with
      | ok =>
        simp only [] at h; cases h
        simp only [casConsistent, beq_iff_eq] at hcc
        subst he hn
        rw [← hcc] at hwf ⊢; rw [hc1]
        exact inv_acquireR s i hinv hi hwf (by rw [holdsR_eq]; exact h0.1) (by rw [holdsW_eq]; exact h0.2)
      | fail o => simp only [] at h; cases h; exact inv_plain s i _ hinv hi h0 (by plain_tac)
      | spur o => simp only [] at h; cases h; exact inv_plain s i _ hinv hi h0 (by plain_tac)
  · simp at h

include hc hi hinv in
theorem st_rSetWait (st : Nat) (hpc : (s.ths i).pc = .rSetWait st) (h : step_rSetWait c s i (s.ths i) st e = some s') : RInv s' := by
  obtain ⟨hc1, hc2, hc3, hc4⟩ := hc
  unfold step_rSetWait at h
  split at h
  · rename_i exp new r
    split at h
    · simp at h
    · rename_i hcond
      simp only [not_or, Decidable.not_not, Bool.not_eq_true', Bool.not_eq_false', Bool.not_eq_false] at hcond
      obtain ⟨he, hn, hcc⟩ := hcond
      have h0 : (s.ths i).pc.isR = false ∧ (s.ths i).pc.isW = false := by simp [Pc.isR, Pc.isW, hpc]
      cases r with
      | ok =>
        simp only [] at h; cases h
        simp only [casConsistent, beq_iff_eq] at hcc
        subst he hn
        have hlt := hinv.lt32
        refine inv_bits s i _ _ hinv hi ?_ ?_ h0 (by plain_tac)
        · rw [← hcc]; unfold orRW hasRW; split <;> komega
        · rw [← hcc]; unfold orRW hasRW; split <;> komega
      | fail o => simp only [] at h; cases h; exact inv_plain s i _ hinv hi h0 (by plain_tac)
      | spur o => simp only [] at h; cases h; exact inv_plain s i _ hinv hi h0 (by plain_tac)
  · simp at h

include hi hinv in
theorem st_rWaitLoad (ex : Nat) (hpc : (s.ths i).pc = .rWaitLoad ex) (h : step_rWaitLoad c s i (s.ths i) ex e = some s') : RInv s' := by
  unfold step_rWaitLoad at h
  split at h
  · cases h
    exact inv_plain s i _ hinv hi (by simp [Pc.isR, Pc.isW, hpc]) (by plain_tac)
  · simp at h

include hi hinv in
theorem st_rWaitSys (ex : Nat) (hpc : (s.ths i).pc = .rWaitSys ex) (h : step_rWaitSys c s i (s.ths i) ex e = some s') : RInv s' := by
  have h0 : (s.ths i).pc.isR = false ∧ (s.ths i).pc.isW = false := by simp [Pc.isR, Pc.isW, hpc]
  unfold step_rWaitSys at h
  split at h
  · split at h
    · simp at h
    · split at h
      · split at h
        · cases h; exact inv_plain s i _ hinv hi h0 (by plain_tac)
        · simp at h
      · split at h
        · simp at h
        · cases h; exact inv_plain s i _ hinv hi h0 (by plain_tac)
  · simp at h

include hi hinv in
theorem st_rParked (ex : Nat) (hpc : (s.ths i).pc = .rParked ex) (h : step_rParked c s i (s.ths i) ex e = some s') : RInv s' := by
  unfold step_rParked at h
  split at h
  · cases h
    exact inv_plain s i _ hinv hi (by simp [Pc.isR, Pc.isW, hpc]) (by plain_tac)
  · simp at h

include hi hinv in
theorem st_tLoad (w : Bool) (hpc : (s.ths i).pc = .tLoad w) (h : step_tLoad c s i (s.ths i) w e = some s') : RInv s' := by
  unfold step_tLoad at h
  split at h
  · cases h
    exact inv_plain s i _ hinv hi (by simp [Pc.isR, Pc.isW, hpc]) (plain_tNext _ _)
  · simp at h

include hc hi hinv in
theorem st_tCas (w : Bool) (st : Nat) (hpc : (s.ths i).pc = .tCas w st) (h : step_tCas c s i (s.ths i) w st e = some s') : RInv s' := by
  obtain ⟨hc1, hc2, hc3, hc4⟩ := hc
  have hwf := hinv.pcwf i; rw [hpc] at hwf; simp only [PcWf] at hwf
  have h0 : (s.ths i).pc.isR = false ∧ (s.ths i).pc.isW = false := by simp [Pc.isR, Pc.isW, hpc]
  have hfail := plain_tNext
  unfold step_tCas at h
  split at h
  · rename_i exp new r
    cases w with
    | false =>
      simp only [Bool.false_eq_true, if_false] at h hwf
      split at h
      · simp at h
      · rename_i hcond
        simp only [not_or, Decidable.not_not, Bool.not_eq_true', Bool.not_eq_false', Bool.not_eq_false] at hcond
        obtain ⟨he, hn, hcc⟩ := hcond
        cases r with
        | ok =>
          simp only [] at h; cases h
          simp only [casConsistent, beq_iff_eq] at hcc
          subst he hn
          rw [← hcc] at hwf ⊢; rw [hc1]
          exact inv_acquireR s i hinv hi hwf (by rw [holdsR_eq]; exact h0.1) (by rw [holdsW_eq]; exact h0.2)
        | fail o => simp only [] at h; cases h; exact inv_plain s i _ hinv hi h0 (by simpa using hfail false _)
        | spur o => simp only [] at h; cases h; exact inv_plain s i _ hinv hi h0 (by simpa using hfail false _)
    | true =>
      simp only [if_true] at h hwf
      split at h
      · simp at h
      · rename_i hcond
        simp only [not_or, Decidable.not_not, Bool.not_eq_true', Bool.not_eq_false', Bool.not_eq_false] at hcond
        obtain ⟨he, hn, hcc⟩ := hcond
        cases r with
        | ok =>
          simp only [] at h; cases h
          simp only [casConsistent, beq_iff_eq] at hcc
          subst he hn
          rw [← hcc] at hwf ⊢; rw [hc2]
          have hlt := hinv.lt32
          have hu := (unlocked_iff _).mp hwf
          exact inv_acquireW s i _ hinv hi hwf (by komega) (by komega)
            (by rw [holdsR_eq]; exact h0.1) (by rw [holdsW_eq]; exact h0.2)
        | fail o => simp only [] at h; cases h; exact inv_plain s i _ hinv hi h0 (by simpa using hfail true _)
        | spur o => simp only [] at h; cases h; exact inv_plain s i _ hinv hi h0 (by simpa using hfail true _)
  · simp at h

include hi hinv in
theorem st_tryFailed (hpc : (s.ths i).pc = .tryFailed) (h : step_tryFailed c s i (s.ths i) e = some s') : RInv s' := by
  unfold step_tryFailed at h
  split at h
  · cases h
    refine inv_frame s i _ s.state hinv hi hinv.lt32 rfl rfl ?_ ?_ (by simp [PcWf])
    · simp [holdsR, hpc]
    · simp [holdsW, hpc]
  · simp at h

include hc hi hinv in
theorem st_wFastCas  (hpc : (s.ths i).pc = .wFastCas) (h : step_wFastCas c s i (s.ths i)  e = some s') : RInv s' := by
  obtain ⟨hc1, hc2, hc3, hc4⟩ := hc
  unfold step_wFastCas at h
  split at h
  · rename_i exp new r
    split at h
    · simp at h
    · rename_i hcond
      simp only [not_or, Decidable.not_not, Bool.not_eq_true', Bool.not_eq_false', Bool.not_eq_false] at hcond
      obtain ⟨he, hn, hcc⟩ := hcond
      have h0 : (s.ths i).pc.isR = false ∧ (s.ths i).pc.isW = false := by simp [Pc.isR, Pc.isW, hpc]
      cases r with
      | ok =>
        simp only [] at h; cases h
        simp only [casConsistent, beq_iff_eq] at hcc
        subst he hn
        rw [hc2]
        have hu : isUnlocked s.state = true := by rw [hcc]; exact (unlocked_iff 0).mpr (by omega)
        exact inv_acquireW s i _ hinv hi hu (by komega) (by komega)
          (by rw [holdsR_eq]; exact h0.1) (by rw [holdsW_eq]; exact h0.2)
      | fail o => simp only [] at h; cases h; exact inv_plain s i _ hinv hi h0 (by plain_tac)
      | spur o => simp only [] at h; cases h; exact inv_plain s i _ hinv hi h0 (by plain_tac)
  · simp at h

include hi hinv in
theorem st_wSpin (n : Nat) (oww : Bool) (hpc : (s.ths i).pc = .wSpin n oww) (h : step_wSpin c s i (s.ths i) n oww e = some s') : RInv s' := by
  unfold step_wSpin at h
  split at h
  · cases h
    exact inv_plain s i _ hinv hi (by simp [Pc.isR, Pc.isW, hpc]) (by plain_tac)
  · simp at h

include hc hi hinv in
theorem st_wCas (st : Nat) (oww : Bool) (hpc : (s.ths i).pc = .wCas st oww) (h : step_wCas c s i (s.ths i) st oww e = some s') : RInv s' := by
  obtain ⟨hc1, hc2, hc3, hc4⟩ := hc
  unfold step_wCas at h
  split at h
  · rename_i exp new r
    split at h
    · simp at h
    · rename_i hcond
      simp only [not_or, Decidable.not_not, Bool.not_eq_true', Bool.not_eq_false', Bool.not_eq_false] at hcond
      obtain ⟨he, hn, hcc⟩ := hcond
      have h0 : (s.ths i).pc.isR = false ∧ (s.ths i).pc.isW = false := by simp [Pc.isR, Pc.isW, hpc]
      have hwf := hinv.pcwf i; rw [hpc] at hwf; simp only [PcWf] at hwf
      cases r with
      | ok =>
        simp only [] at h; cases h
        simp only [casConsistent, beq_iff_eq] at hcc
        subst he hn
        rw [← hcc] at hwf ⊢; rw [hc2]
        have hlt := hinv.lt32
        have hu := (unlocked_iff _).mp hwf
        refine inv_acquireW s i _ hinv hi hwf ?_ ?_
          (by rw [holdsR_eq]; exact h0.1) (by rw [holdsW_eq]; exact h0.2)
        · unfold orWL orWW hasWW; cases oww <;> simp only [Bool.false_eq_true, if_false, if_true]
          · komega
          · split <;> komega
        · unfold orWL orWW hasWW; cases oww <;> simp only [Bool.false_eq_true, if_false, if_true]
          · komega
          · split <;> komega
      | fail o => simp only [] at h; cases h; exact inv_plain s i _ hinv hi h0 (by plain_tac)
      | spur o => simp only [] at h; cases h; exact inv_plain s i _ hinv hi h0 (by plain_tac)
  · simp at h

include hc hi hinv in
theorem st_wSetWait (st : Nat) (oww : Bool) (hpc : (s.ths i).pc = .wSetWait st oww) (h : step_wSetWait c s i (s.ths i) st oww e = some s') : RInv s' := by
  obtain ⟨hc1, hc2, hc3, hc4⟩ := hc
  unfold step_wSetWait at h
  split at h
  · rename_i exp new r
    split at h
    · simp at h
    · rename_i hcond
      simp only [not_or, Decidable.not_not, Bool.not_eq_true', Bool.not_eq_false', Bool.not_eq_false] at hcond
      obtain ⟨he, hn, hcc⟩ := hcond
      have h0 : (s.ths i).pc.isR = false ∧ (s.ths i).pc.isW = false := by simp [Pc.isR, Pc.isW, hpc]
      cases r with
      | ok =>
        simp only [] at h; cases h
        simp only [casConsistent, beq_iff_eq] at hcc
        subst he hn
        have hlt := hinv.lt32
        refine inv_bits s i _ _ hinv hi ?_ ?_ h0 (by plain_tac)
        · rw [← hcc]; unfold orWW hasWW; split <;> komega
        · rw [← hcc]; unfold orWW hasWW; split <;> komega
      | fail o => simp only [] at h; cases h; exact inv_plain s i _ hinv hi h0 (by plain_tac)
      | spur o => simp only [] at h; cases h; exact inv_plain s i _ hinv hi h0 (by plain_tac)
  · simp at h

include hi hinv in
theorem st_wSeqLoad  (hpc : (s.ths i).pc = .wSeqLoad) (h : step_wSeqLoad c s i (s.ths i)  e = some s') : RInv s' := by
  unfold step_wSeqLoad at h
  split at h
  · cases h
    exact inv_plain s i _ hinv hi (by simp [Pc.isR, Pc.isW, hpc]) (by plain_tac)
  · simp at h

include hi hinv in
theorem st_wStateLoad (seq : Nat) (hpc : (s.ths i).pc = .wStateLoad seq) (h : step_wStateLoad c s i (s.ths i) seq e = some s') : RInv s' := by
  unfold step_wStateLoad at h
  split at h
  · cases h
    exact inv_plain s i _ hinv hi (by simp [Pc.isR, Pc.isW, hpc]) (by plain_tac)
  · simp at h

include hi hinv in
theorem st_wWaitLoad (seq : Nat) (hpc : (s.ths i).pc = .wWaitLoad seq) (h : step_wWaitLoad c s i (s.ths i) seq e = some s') : RInv s' := by
  unfold step_wWaitLoad at h
  split at h
  · cases h
    exact inv_plain s i _ hinv hi (by simp [Pc.isR, Pc.isW, hpc]) (by plain_tac)
  · simp at h

include hi hinv in
theorem st_wWaitSys (seq : Nat) (hpc : (s.ths i).pc = .wWaitSys seq) (h : step_wWaitSys c s i (s.ths i) seq e = some s') : RInv s' := by
  have h0 : (s.ths i).pc.isR = false ∧ (s.ths i).pc.isW = false := by simp [Pc.isR, Pc.isW, hpc]
  unfold step_wWaitSys at h
  split at h
  · split at h
    · simp at h
    · split at h
      · split at h
        · cases h; exact inv_plain s i _ hinv hi h0 (by plain_tac)
        · simp at h
      · split at h
        · simp at h
        · cases h; exact inv_plain s i _ hinv hi h0 (by plain_tac)
  · simp at h

include hi hinv in
theorem st_wParked (seq : Nat) (hpc : (s.ths i).pc = .wParked seq) (h : step_wParked c s i (s.ths i) seq e = some s') : RInv s' := by
  unfold step_wParked at h
  split at h
  · cases h
    exact inv_plain s i _ hinv hi (by simp [Pc.isR, Pc.isW, hpc]) (by plain_tac)
  · simp at h

include hi hinv in
theorem st_acquired (w : Bool) (hpc : (s.ths i).pc = .acquired w) (h : step_acquired c s i (s.ths i) w e = some s') : RInv s' := by
  unfold step_acquired at h
  split at h
  · split at h
    · cases h
      refine inv_setpc s i _ hinv hi ?_ ?_ (by simp [PcWf])
      · cases w <;> simp [holdsR, hpc]
      · cases w <;> simp [holdsW, hpc]
    · simp at h
  · simp at h

include hi hinv in
theorem st_hold (w : Bool) (k : Nat) (hpc : (s.ths i).pc = .hold w k) (h : step_hold c s i (s.ths i) w k e = some s') : RInv s' := by
  unfold step_hold at h
  split at h
  · rename_i k'
    cases h
    exact inv_data s i w k' hinv hi hpc
  · cases h
    refine inv_setpc s i _ hinv hi ?_ ?_ (by simp [PcWf])
    · cases w <;> simp [holdsR, hpc]
    · cases w <;> simp [holdsW, hpc]
  · simp at h

include hc hi hinv in
theorem st_kCasA (st : Nat) (hpc : (s.ths i).pc = .kCasA st) (h : step_kCasA c s i (s.ths i) st e = some s') : RInv s' := by
  obtain ⟨hc1, hc2, hc3, hc4⟩ := hc
  unfold step_kCasA at h
  split at h
  · rename_i exp new r
    split at h
    · simp at h
    · rename_i hcond
      simp only [not_or, Decidable.not_not, Bool.not_eq_true', Bool.not_eq_false', Bool.not_eq_false] at hcond
      obtain ⟨he, hn, hcc⟩ := hcond
      have h0 : (s.ths i).pc.isR = false ∧ (s.ths i).pc.isW = false := by simp [Pc.isR, Pc.isW, hpc]
      have hwf := hinv.pcwf i; rw [hpc] at hwf; simp only [PcWf] at hwf
      cases r with
      | ok =>
        simp only [] at h; cases h
        simp only [casConsistent, beq_iff_eq] at hcc
        subst he hn
        refine inv_bits s i _ _ hinv hi (by komega) ?_ h0 (by plain_tac)
        rw [hcc, hwf]; komega
      | fail o => simp only [] at h; cases h; exact inv_plain s i _ hinv hi h0 (by plain_tac)
      | spur o => simp only [] at h; cases h; exact inv_plain s i _ hinv hi h0 (by plain_tac)
  · simp at h

include hc hi hinv in
theorem st_kCasB (st : Nat) (hpc : (s.ths i).pc = .kCasB st) (h : step_kCasB c s i (s.ths i) st e = some s') : RInv s' := by
  obtain ⟨hc1, hc2, hc3, hc4⟩ := hc
  unfold step_kCasB at h
  split at h
  · rename_i exp new r
    split at h
    · simp at h
    · rename_i hcond
      simp only [not_or, Decidable.not_not, Bool.not_eq_true', Bool.not_eq_false', Bool.not_eq_false] at hcond
      obtain ⟨he, hn, hcc⟩ := hcond
      have h0 : (s.ths i).pc.isR = false ∧ (s.ths i).pc.isW = false := by simp [Pc.isR, Pc.isW, hpc]
      have hwf := hinv.pcwf i; rw [hpc] at hwf; simp only [PcWf] at hwf
      cases r with
      | ok =>
        simp only [] at h; cases h
        simp only [casConsistent, beq_iff_eq] at hcc
        subst he hn
        refine inv_bits s i _ _ hinv hi (by komega) ?_ h0 (by plain_tac)
        rw [hcc, hwf]; komega
      | fail o => simp only [] at h; cases h; exact inv_plain s i _ hinv hi h0 (by plain_tac)
      | spur o => simp only [] at h; cases h; exact inv_plain s i _ hinv hi h0 (by plain_tac)
  · simp at h

include hc hi hinv in
theorem st_kCasC  (hpc : (s.ths i).pc = .kCasC) (h : step_kCasC c s i (s.ths i)  e = some s') : RInv s' := by
  obtain ⟨hc1, hc2, hc3, hc4⟩ := hc
  unfold step_kCasC at h
  split at h
  · rename_i exp new r
    split at h
    · simp at h
    · rename_i hcond
      simp only [not_or, Decidable.not_not, Bool.not_eq_true', Bool.not_eq_false', Bool.not_eq_false] at hcond
      obtain ⟨he, hn, hcc⟩ := hcond
      have h0 : (s.ths i).pc.isR = false ∧ (s.ths i).pc.isW = false := by simp [Pc.isR, Pc.isW, hpc]
      cases r with
      | ok =>
        simp only [] at h; cases h
        simp only [casConsistent, beq_iff_eq] at hcc
        subst he hn
        refine inv_bits s i _ _ hinv hi (by komega) ?_ h0 (by plain_tac)
        rw [hcc]; komega
      | fail o => simp only [] at h; cases h; exact inv_plain s i _ hinv hi h0 (by plain_tac)
      | spur o => simp only [] at h; cases h; exact inv_plain s i _ hinv hi h0 (by plain_tac)
  · simp at h

include hi hinv in
theorem st_kNotify (fb : Bool) (hpc : (s.ths i).pc = .kNotify fb) (h : step_kNotify c s i (s.ths i) fb e = some s') : RInv s' := by
  unfold step_kNotify at h
  split at h
  · split at h
    · simp at h
    · cases h
      exact inv_plain _ i _ (inv_notify s _ hinv) hi (by simp [Pc.isR, Pc.isW, hpc]) (by plain_tac)
  · simp at h

theorem parkedList_lt (s : St) (loc j : Nat) (h : j ∈ parkedList s loc) : j < s.n := by
  simp only [parkedList, List.mem_filter, List.mem_range] at h
  exact h.1

/-- waking a set of live threads, then moving the waker (which is not among them ... or is: still fine) on -/
theorem inv_wake_then (c : Cfg) (s : St) (i : Nat) (l : List Nat) (pc : Pc) (hinv : RInv s) (hi : i < s.n)
    (hl : ∀ j ∈ l, j < s.n) (h0 : ((wakeAll c s l).ths i).pc.isR = false ∧ ((wakeAll c s l).ths i).pc.isW = false)
    (hp : Plain pc) : RInv (setPc (wakeAll c s l) i pc) := by
  obtain ⟨hw, hn⟩ := inv_wakeAll c s l hinv hl
  exact inv_plain _ i pc hw (by omega) h0 hp

include hc hi hinv in
theorem st_unlock (w : Bool) (hpc : (s.ths i).pc = .unlock w) (h : step_unlock c s i (s.ths i) w e = some s') : RInv s' := by
  obtain ⟨hc1, hc2, hc3, hc4⟩ := hc
  unfold step_unlock at h
  split at h
  · rename_i v old
    cases w with
    | false =>
      simp only [Bool.false_eq_true, if_false] at h
      split at h
      · simp at h
      · rename_i hcond
        simp only [not_or, Decidable.not_not] at hcond
        obtain ⟨ho, hv⟩ := hcond
        cases h
        subst ho hv
        rw [hc3]
        obtain ⟨hp1, hp2, hp3⟩ := plain_ite_wake ((isUnlocked (wsub s.state 1) && hasWW (wsub s.state 1)) = true) (wsub s.state 1)
        generalize hx : wsub s.state 1 = x at *
        generalize hq : (if (isUnlocked x && hasWW x) = true then wakeEntry x else Pc.idle) = q at *
        refine inv_unlockR s _ i ⟨q, (s.ths i).seen, popTxn (s.ths i)⟩ hinv hi hpc hp3 rfl ?_ ?_ ?_ ?_ ?_ ?_ ?_ ?_ ?_
        · rw [holdsR_eq]; exact hp1
        · rw [holdsW_eq]; exact hp2
        · unfold rmwState; simp [setTh]
        · intro j; unfold rmwState; by_cases hj : j = i <;> simp [setTh_ths, hj]
        · unfold rmwState; simp [hx]
        · unfold rmwState; simp [hinv.chain]
        · unfold rmwState; simp [setTh]
        · unfold rmwState; simp [setTh]
        · unfold rmwState; simp [setTh]
    | true =>
      simp only [if_true] at h
      split at h
      · simp at h
      · rename_i hcond
        simp only [not_or, Decidable.not_not] at hcond
        obtain ⟨ho, hv⟩ := hcond
        cases h
        subst ho hv
        rw [hc4]
        obtain ⟨hp1, hp2, hp3⟩ := plain_ite_wake ((hasWW (wsub s.state WRITE_LOCKED) || hasRW (wsub s.state WRITE_LOCKED)) = true) (wsub s.state WRITE_LOCKED)
        generalize hx : wsub s.state WRITE_LOCKED = x at *
        generalize hq : (if (hasWW x || hasRW x) = true then wakeEntry x else Pc.idle) = q at *
        refine inv_unlockW s _ i ⟨q, (s.ths i).seen, popTxn (s.ths i)⟩ hinv hi hpc hp3 rfl ?_ ?_ ?_ ?_ ?_ ?_ ?_ ?_ ?_
        · rw [holdsR_eq]; exact hp1
        · rw [holdsW_eq]; exact hp2
        · unfold rmwState; simp [setTh]
        · intro j; unfold rmwState; by_cases hj : j = i <;> simp [setTh_ths, hj]
        · unfold rmwState; simp [hx]
        · unfold rmwState; simp [hinv.chain]
        · unfold rmwState; simp [setTh]
        · unfold rmwState; simp [setTh]
        · unfold rmwState; simp [setTh]
  · simp at h

theorem isRW_wakeOne (c : Cfg) (s : St) (j i : Nat) :
    ((wakeOne c s j).ths i).pc.isR = (s.ths i).pc.isR ∧ ((wakeOne c s j).ths i).pc.isW = (s.ths i).pc.isW := by
  unfold wakeOne
  by_cases hij : i = j
  · subst hij
    simp only [setTh_ths_same]
    cases hp : (s.ths i).pc <;> simp [Pc.isR, Pc.isW, wokenPc]
  · simp [setTh_ths, hij]

theorem isRW_wakeAll (c : Cfg) (s : St) (l : List Nat) (i : Nat) :
    ((wakeAll c s l).ths i).pc.isR = (s.ths i).pc.isR ∧ ((wakeAll c s l).ths i).pc.isW = (s.ths i).pc.isW := by
  induction l generalizing s with
  | nil => exact ⟨rfl, rfl⟩
  | cons j rest ih =>
    simp only [wakeAll]
    exact ⟨(ih _).1.trans (isRW_wakeOne c s j i).1, (ih _).2.trans (isRW_wakeOne c s j i).2⟩

include hi hinv in
theorem st_kWakeW (fb : Bool) (hpc : (s.ths i).pc = .kWakeW fb) (h : step_kWakeW c s i (s.ths i) fb e = some s') : RInv s' := by
  have h0 : (s.ths i).pc.isR = false ∧ (s.ths i).pc.isW = false := by simp [Pc.isR, Pc.isW, hpc]
  unfold step_kWakeW at h
  split at h
  · rename_i num woken
    split at h
    · simp at h
    · simp only [] at h
      split at h
      · split at h
        · cases h; exact inv_plain s i _ hinv hi h0 (by plain_tac)
        · simp at h
      · rename_i j
        split at h
        · rename_i hmem
          cases h
          have hjn : j < s.n := parkedList_lt s 1 j (by simpa using hmem)
          have hrw := isRW_wakeAll c s [j] i
          exact inv_wake_then c s i [j] _ hinv hi (by intro k hk; simp at hk; subst hk; exact hjn)
            ⟨by rw [hrw.1]; exact h0.1, by rw [hrw.2]; exact h0.2⟩ (by plain_tac)
        · simp at h
      · simp at h
  · simp at h

include hi hinv in
theorem st_kWakeR (hpc : (s.ths i).pc = .kWakeR) (h : step_kWakeR c s i (s.ths i) e = some s') : RInv s' := by
  have h0 : (s.ths i).pc.isR = false ∧ (s.ths i).pc.isW = false := by simp [Pc.isR, Pc.isW, hpc]
  unfold step_kWakeR at h
  split at h
  · rename_i num woken
    split at h
    · simp at h
    · simp only [] at h
      split at h
      · simp at h
      · rename_i hcond
        cases h
        simp only [not_or, Decidable.not_not, Bool.not_eq_true', Bool.not_eq_false', Bool.not_eq_false] at hcond
        have hall : ∀ k ∈ woken, k < s.n := by
          intro k hk
          have := hcond.2.1
          simp only [List.all_eq_true] at this
          exact parkedList_lt s 0 k (by simpa using this k hk)
        have hrw := isRW_wakeAll c s woken i
        exact inv_wake_then c s i woken _ hinv hi hall
          ⟨by rw [hrw.1]; exact h0.1, by rw [hrw.2]; exact h0.2⟩ (by plain_tac)
  · simp at h


/-- **every step of every thread preserves the invariant** -/
theorem step_inv (c : Cfg) (hc : c.Good) (s s' : St) (i : Nat) (e : Ev)
    (h : step c s i e = some s') (hinv : RInv s) : RInv s' := by
  unfold step at h
  split at h
  · simp at h
  · rename_i hi
    have hi : i < s.n := by omega
    simp only [] at h
    cases hpc : (s.ths i).pc <;> simp only [hpc] at h
    case idle => exact st_idle c s s' i e hi hinv hpc h
    case rLoad => exact st_rLoad c s s' i e hi hinv hpc h
    case rFastCas st => exact st_rFastCas c hc s s' i e hi hinv st hpc h
    case rSpin n => exact st_rSpin c s s' i e hi hinv n hpc h
    case rCas st => exact st_rCas c hc s s' i e hi hinv st hpc h
    case rSetWait st => exact st_rSetWait c hc s s' i e hi hinv st hpc h
    case rWaitLoad ex => exact st_rWaitLoad c s s' i e hi hinv ex hpc h
    case rWaitSys ex => exact st_rWaitSys c s s' i e hi hinv ex hpc h
    case rParked ex => exact st_rParked c s s' i e hi hinv ex hpc h
    case tLoad w => exact st_tLoad c s s' i e hi hinv w hpc h
    case tCas w st => exact st_tCas c hc s s' i e hi hinv w st hpc h
    case tryFailed => exact st_tryFailed c s s' i e hi hinv hpc h
    case wFastCas => exact st_wFastCas c hc s s' i e hi hinv hpc h
    case wSpin n oww => exact st_wSpin c s s' i e hi hinv n oww hpc h
    case wCas st oww => exact st_wCas c hc s s' i e hi hinv st oww hpc h
    case wSetWait st oww => exact st_wSetWait c hc s s' i e hi hinv st oww hpc h
    case wSeqLoad => exact st_wSeqLoad c s s' i e hi hinv hpc h
    case wStateLoad seq => exact st_wStateLoad c s s' i e hi hinv seq hpc h
    case wWaitLoad seq => exact st_wWaitLoad c s s' i e hi hinv seq hpc h
    case wWaitSys seq => exact st_wWaitSys c s s' i e hi hinv seq hpc h
    case wParked seq => exact st_wParked c s s' i e hi hinv seq hpc h
    case acquired w => exact st_acquired c s s' i e hi hinv w hpc h
    case hold w k => exact st_hold c s s' i e hi hinv w k hpc h
    case unlock w => exact st_unlock c hc s s' i e hi hinv w hpc h
    case kCasA st => exact st_kCasA c hc s s' i e hi hinv st hpc h
    case kCasB st => exact st_kCasB c hc s s' i e hi hinv st hpc h
    case kNotify fb => exact st_kNotify c s s' i e hi hinv fb hpc h
    case kWakeW fb => exact st_kWakeW c s s' i e hi hinv fb hpc h
    case kCasC => exact st_kCasC c hc s s' i e hi hinv hpc h
    case kWakeR => exact st_kWakeR c s s' i e hi hinv hpc h
    case panicked => simp at h

end TinyVerif.RwLock
