import TinyVerif.Proofs.DlIndBase
/-!
# Pilot: `malloc_dv_top` preserves `WFS`

The three branches of the `dv` / `top` tail of `inner_malloc`, on the foundation of
`Proofs/DlIndBase.lean`.  Each branch proof has the same five steps:

1. name the headers involved (`WFS.dv_parts` + `WFS.freeAt`, or `WFS.top_parts`);
2. compute the final heap as an equation (`split_free_inuse_at`, `set_inuse_and_pinuse_at`,
   `writeHead_window_ok`) and `subst` it;
3. table: `split_table` / `exhaust_table` (or `struct_window` directly, as in `top_split_wfs`);
4. bookkeeping: `freeListOk_replace`, `bins_window`, `dvOk_window` / `topOk_window` or a direct
   computation for the field that moved;
5. in-use facts: part of step 3.
-/
namespace TinyVerif.Dl

/-- the free headers of the window `[x, y]` of a `FreeAt` are `top`, `dv` or … `x` itself -/
theorem FreeAt.free_mid {s : St} {pre post : List Ent} {x y : Ent} {g : Seg} (fa : FreeAt s pre post x y g)
    {P : Ent → Prop} (hx : P x) : ∀ e ∈ [x, y], isFree e = true → P e := by
  intro e he hf
  simp only [List.mem_cons, List.not_mem_nil, or_false] at he
  rcases he with rfl | rfl
  · exact hx
  · simp [isFree, fa.yc] at hf

/-- neither `top` nor its foot word is in the window `[x, y]` of a `FreeAt` -/
theorem FreeAt.top_mid {s : St} {pre post : List Ent} {x y : Ent} {g : Seg} (fa : FreeAt s pre post x y g) :
    ∀ e ∈ [x, y], (isFree e = true → e.addr ≠ s.h.top) ∧ (e.cin = true ∨ e.pin = true) := by
  intro e he
  simp only [List.mem_cons, List.not_mem_nil, or_false] at he
  rcases he with rfl | rfl
  · exact ⟨fun _ => fa.ntop, Or.inr (isFree_iff.1 fa.free).2⟩
  · exact ⟨fun h => by simp [isFree, fa.yc] at h, Or.inl fa.yc⟩

/-! ### `dv-split` -/

theorem dv_split_wfs {s : St} (w : WFS s) {nb : Nat} (hnb16 : nb % 16 = 0) (hnb32 : 32 ≤ nb)
    (hle : nb ≤ s.h.dvsize) (hge : 32 ≤ s.h.dvsize - nb) {h1 h2 : Heap}
    (e1 : set_size_and_pinuse_of_free_chunk { s.h with dv := s.h.dv + nb, dvsize := s.h.dvsize - nb }
      (s.h.dv + nb) (s.h.dvsize - nb) = .ok h1)
    (e2 : set_size_and_pinuse_of_inuse_chunk h1 s.h.dv nb = .ok h2) (t : String) :
    WFS { s with h := h2.tag t } ∧ AllocAt s.h.ents (h2.tag t).ents nb s.h.dv := by
  -- 1. the headers
  obtain ⟨x, hxm, hxa, hxf, hxs, hd32, hdv0, hdvtop⟩ := w.dv_parts (by omega)
  obtain ⟨pre, y, post, g, fa⟩ := w.freeAt hxm hxf (by rw [hxa]; exact hdvtop)
  -- 2. the final heap
  have r := split_free_inuse_at e1 e2 (pre := pre) (post := post) (x := x) (y := y) fa.hes w.ents hxa
    (by omega) (by omega) (by omega) fa.ya
  have hi : HeapIs (h2.tag t) (pre ++ [{ addr := s.h.dv, size := nb, cin := true, pin := true, pfoot := x.pfoot },
      { addr := s.h.dv + nb, size := s.h.dvsize - nb, cin := false, pin := true, pfoot := 0 },
      { y with pfoot := s.h.dvsize - nb }] ++ post) s.h.sbins s.h.tbins (s.h.dv + nb) (s.h.dvsize - nb)
      s.h.top s.h.topsize := by
    rw [r]; exact ⟨rfl, rfl, rfl, rfl, rfl, rfl, rfl⟩
  generalize h2.tag t = H at hi ⊢
  -- 3. the table
  obtain ⟨hst, hal, fs1, fs2, hfnr, hins⟩ := split_table w fa hnb16 (by omega) (by omega)
    (np := { addr := s.h.dv, size := nb, cin := true, pin := true, pfoot := x.pfoot })
    (nr := { addr := s.h.dv + nb, size := s.h.dvsize - nb, cin := false, pin := true, pfoot := 0 })
    (ny := { y with pfoot := s.h.dvsize - nb })
    hxa.symm rfl rfl rfl (by rw [hxa]) (by rw [hxs]) rfl rfl rfl rfl fa.yc fa.yp (by rw [hxs])
  rw [hxa] at hal fs1 fs2 hfnr hins
  have hok' : entsOk H.ents = true := by rw [hi.ents]; exact hst.ents
  -- 4. bookkeeping
  refine ⟨wfs_of_parts w (by rw [hi.ents, hi.top]; exact hst) ?_ ?_ ?_ ?_ ?_, by rw [hi.ents]; exact hal⟩
  · refine freeListOk_replace w fa.hes hi.ents hok' (A := if s.h.top = 0 then [] else [s.h.top]) (B := binned s.h)
      ?_ ?_ (by rw [fs2]; simp) ?_
    · rw [fs1]; exact freeList_dv hdv0
    · rw [fs2, freeList_dv (by rw [hi.dv]; omega), hi.top, hi.dv, binned_congr hi.sbins hi.tbins]
    · intro a ha
      rw [fs2, List.mem_singleton] at ha
      subst ha
      have := w.not_listed hins
      rw [freeList_dv hdv0] at this
      exact not_mem_mid this
  · exact (bins_window w fa.hes hi.ents hok' hi.sbins hi.tbins (fa.free_mid (Or.inr hxa))).1
  · exact (bins_window w fa.hes hi.ents hok' hi.sbins hi.tbins (fa.free_mid (Or.inr hxa))).2
  · unfold dvOk
    rw [hi.dv, hi.dvsize, hi.ents, if_neg (by omega), hfnr]
    simp [isFree]; omega
  · exact topOk_window w fa.hes hi.ents hok' (fun h => by have := fa.hg; rw [h] at this; cases this)
      hi.top hi.topsize fa.top_mid

/-! ### `dv-exhaust` -/

theorem dv_exhaust_wfs {s : St} (w : WFS s) {nb : Nat} (hnb32 : 32 ≤ nb) (hle : nb ≤ s.h.dvsize) {h1 : Heap}
    (e1 : set_inuse_and_pinuse { s.h with dvsize := 0, dv := 0 } s.h.dv s.h.dvsize = .ok h1) (t : String) :
    WFS { s with h := h1.tag t } ∧ AllocAt s.h.ents (h1.tag t).ents nb s.h.dv := by
  obtain ⟨x, hxm, hxa, hxf, hxs, hd32, hdv0, hdvtop⟩ := w.dv_parts (by omega)
  obtain ⟨pre, y, post, g, fa⟩ := w.freeAt hxm hxf (by rw [hxa]; exact hdvtop)
  have r := set_inuse_and_pinuse_at e1 (pre := pre) (post := post) (x := x) (y := y) fa.hes w.ents hxa hxs fa.ya
  have hi : HeapIs (h1.tag t) (pre ++ [{ x with cin := true, pin := true }, { y with pin := true }] ++ post)
      s.h.sbins s.h.tbins 0 0 s.h.top s.h.topsize := by
    rw [r]; exact ⟨rfl, rfl, rfl, rfl, rfl, rfl, rfl⟩
  generalize h1.tag t = H at hi ⊢
  obtain ⟨hst, hal, fs1, fs2⟩ := exhaust_table w fa (nb := nb)
    (nx := { x with cin := true, pin := true }) (ny := { y with pin := true })
    rfl rfl rfl rfl rfl rfl fa.yc rfl (by omega)
  rw [hxa] at fs1
  have hok' : entsOk H.ents = true := by rw [hi.ents]; exact hst.ents
  refine ⟨wfs_of_parts w (by rw [hi.ents, hi.top]; exact hst) ?_ ?_ ?_ ?_ ?_, by rw [hi.ents, ← hxa]; exact hal⟩
  · refine freeListOk_replace w fa.hes hi.ents hok' (A := if s.h.top = 0 then [] else [s.h.top]) (B := binned s.h)
      ?_ ?_ (by rw [fs2]; simp) (by rw [fs2]; simp)
    · rw [fs1]; exact freeList_dv hdv0
    · rw [fs2, freeList_nodv hi.dv, hi.top, binned_congr hi.sbins hi.tbins]
  · exact (bins_window w fa.hes hi.ents hok' hi.sbins hi.tbins (fa.free_mid (Or.inr hxa))).1
  · exact (bins_window w fa.hes hi.ents hok' hi.sbins hi.tbins (fa.free_mid (Or.inr hxa))).2
  · unfold dvOk; rw [hi.dv, hi.dvsize]; rfl
  · exact topOk_window w fa.hes hi.ents hok' (fun h => by have := fa.hg; rw [h] at this; cases this)
      hi.top hi.topsize fa.top_mid

/-! ### `top-split` (also the tail of `sys_alloc`) -/

/-- the table after carving `nb` bytes from `top`: `[x, f]` (the old `top`, its foot word) became
`[np, nr, f]` (allocated chunk, remainder = new `top`, the same foot word) -/
theorem top_split_core {s : St} (w : WFS s) {nb : Nat} (hnb16 : nb % 16 = 0) (hnb32 : 32 ≤ nb)
    (hlt : nb < s.h.topsize)
    {pre post : List Ent} {x f : Ent} {g : Seg} {rest : List Seg} (hsegs : s.segs = g :: rest)
    (hes2 : s.h.ents = pre ++ [x, f] ++ post)
    (hxa : x.addr = s.h.top) (hxf : isFree x = true) (hxs : x.size = s.h.topsize)
    (hfa : f.addr = s.h.top + s.h.topsize) (hfc : f.cin = false) (hfp : f.pin = false)
    (hgx : inSeg g x = true) (hgf : inSeg g f = true) (htop0 : s.h.top ≠ 0)
    {H : Heap} {np nr : Ent}
    (hi : HeapIs H (pre ++ [np, nr, f] ++ post) s.h.sbins s.h.tbins s.h.dv s.h.dvsize (s.h.top + nb) (s.h.topsize - nb))
    (np1 : np.addr = s.h.top) (np2 : np.size = nb) (np3 : np.cin = true) (np4 : np.pin = true)
    (nr1 : nr.addr = s.h.top + nb) (nr2 : nr.size = s.h.topsize - nb) (nr3 : nr.cin = false) (nr4 : nr.pin = true) :
    WFS { s with h := H } ∧ AllocAt s.h.ents H.ents nb s.h.top := by
  have hg : g ∈ s.segs := by rw [hsegs]; exact List.mem_cons_self
  have hxm : x ∈ s.h.ents := by rw [hes2]; simp
  have hfm : f ∈ s.h.ents := by rw [hes2]; simp
  obtain ⟨hxc, hxp⟩ := isFree_iff.1 hxf
  obtain ⟨hx16, hxs16, _⟩ := shapeOk_free w.shape hxm hxc
  obtain ⟨hf16, hfs16, _⟩ := shapeOk_free w.shape hfm hfc
  have hffree : isFree f = false := by simp [isFree, hfp]
  have hst0 : StructOk (pre ++ (x :: [f]) ++ post) s.segs s.h.top := by
    have := w.struct; rw [hes2] at this; exact this
  have hok := w.ents
  rw [hes2] at hok
  obtain ⟨b1, b2⟩ := entsOk_window_bounds hok
  have hfpos := entsOk_pos w.ents f hfm
  have hinside : ∀ e ∈ s.h.ents, e.addr ≠ s.h.top + nb :=
    entsOk_no_inside w.ents hxm (a := s.h.top + nb) (by omega) (by omega)
  -- the table: `struct_window` with the `top` of the check moving from `x` to `nr`
  have hst : StructOk (pre ++ (np :: [nr, f]) ++ post) s.segs (s.h.top + nb) :=
    struct_window hst0 w.segsDisjoint hg
      (by
        intro e he
        simp only [List.mem_cons, List.not_mem_nil, or_false] at he
        rcases he with rfl | rfl <;> assumption)
      (by simp only [contig, Bool.and_eq_true, decide_eq_true_eq, Bool.and_true]; omega)
      (by simp only [endE, lastE])
      (by
        simp only [shapeOk, List.all_cons, List.all_nil, Bool.and_true, Bool.and_eq_true, Bool.or_eq_true,
          decide_eq_true_eq]
        exact ⟨Or.inr ⟨⟨by omega, by omega⟩, by omega⟩, Or.inr ⟨⟨by omega, by omega⟩, by omega⟩,
          Or.inr ⟨⟨by omega, by omega⟩, by omega⟩⟩)
      id
      (by
        intro e he
        rcases List.mem_append.1 he with he | he
        · have := b1 e he
          have := entsOk_pos w.ents e (by rw [hes2]; simp [he])
          constructor <;> intro h <;> omega
        · have := b2 e he
          simp only [endE, lastE] at this
          constructor <;> intro h <;> omega)
      ⟨by rw [np4, hxp], fun h => by rw [hxp] at h; cases h⟩
      ⟨rfl, fun hf => by simp [lastE, hffree] at hf⟩
      (by simp [tagsFrom, linkOk, isFree, np3, nr1, nr3, nr4, hfc, hfp])
  have hok' : entsOk H.ents = true := by rw [hi.ents]; exact hst.ents
  have hfreemid : ∀ e ∈ [x, f], isFree e = true → e.addr = s.h.top ∨ e.addr = s.h.dv := by
    intro e he hf
    simp only [List.mem_cons, List.not_mem_nil, or_false] at he
    rcases he with rfl | rfl
    · exact Or.inl hxa
    · rw [hffree] at hf; cases hf
  have hpre : ∀ q ∈ pre, q.addr < s.h.top := by
    intro q hq
    have := b1 q hq
    have := entsOk_pos w.ents q (by rw [hes2]; simp [hq])
    omega
  have hfnp : findEnt H.ents s.h.top = some np := by
    rw [hi.ents, List.append_assoc, findEnt_skip (fun q hq => by have := hpre q hq; omega), ← np1]
    exact findEnt_head
  have hfnr : findEnt H.ents (s.h.top + nb) = some nr := by
    rw [hi.ents, List.append_assoc, findEnt_skip (fun q hq => by have := hpre q hq; omega)]
    show findEnt (np :: nr :: _) _ = _
    rw [findEnt_cons_ne (by omega), ← nr1]
    exact findEnt_head
  have hff : findEnt H.ents (s.h.top + s.h.topsize) = some f := by
    rw [hi.ents, List.append_assoc, findEnt_skip (fun q hq => by have := hpre q hq; omega)]
    show findEnt (np :: nr :: f :: _) _ = _
    rw [findEnt_cons_ne (by omega), findEnt_cons_ne (by omega), ← hfa]
    exact findEnt_head
  have fs1 : freeSet [x, f] = [s.h.top] := by simp [freeSet, List.filter, hxf, hffree, hxa]
  have fs2 : freeSet [np, nr, f] = [s.h.top + nb] := by
    simp [freeSet, List.filter, isFree, np3, nr3, nr4, hfp, nr1]
  refine ⟨wfs_of_parts w (by rw [hi.ents, hi.top]; exact hst) ?_ ?_ ?_ ?_ ?_, ?_, ?_, ?_⟩
  · -- free list: `top` moves up by `nb`
    refine freeListOk_replace w hes2 hi.ents hok' (A := [])
      (B := (if s.h.dv = 0 then [] else [s.h.dv]) ++ binned s.h) ?_ ?_ (by rw [fs2]; simp) ?_
    · rw [fs1]; exact freeList_top htop0
    · rw [fs2, freeList_top (by rw [hi.top]; omega), hi.top, hi.dv, binned_congr hi.sbins hi.tbins]
    · intro a ha
      rw [fs2, List.mem_singleton] at ha
      subst ha
      have := w.not_listed hinside
      rw [freeList_top htop0] at this
      exact not_mem_mid this
  · exact (bins_window w hes2 hi.ents hok' hi.sbins hi.tbins hfreemid).1
  · exact (bins_window w hes2 hi.ents hok' hi.sbins hi.tbins hfreemid).2
  · refine dvOk_window w hes2 hi.ents hok' hi.dv hi.dvsize ?_
    intro e he hf
    simp only [List.mem_cons, List.not_mem_nil, or_false] at he
    rcases he with rfl | rfl
    · rw [hxa]; exact fun h => w.dv_ne_top htop0 h.symm
    · rw [hffree] at hf; cases hf
  · -- `topOk`: the new `top` header and the old foot word
    have ht := w.top
    unfold topOk at ht ⊢
    simp only [hsegs] at ht ⊢
    rw [hi.top, hi.topsize, hfnr, show s.h.top + nb + (s.h.topsize - nb) = s.h.top + s.h.topsize by omega, hff]
    have hfx : findEnt s.h.ents s.h.top = some x := by rw [← hxa]; exact entsOk_find x hxm w.ents
    have hff0 : findEnt s.h.ents (s.h.top + s.h.topsize) = some f := by rw [← hfa]; exact entsOk_find f hfm w.ents
    rw [hfx, hff0] at ht
    simp only [Bool.and_eq_true, decide_eq_true_eq, Bool.not_eq_true'] at ht ⊢
    obtain ⟨⟨⟨⟨⟨⟨t1, t2⟩, t3⟩, t4⟩, t5⟩, t6⟩, t7⟩ := ht
    refine ⟨⟨⟨⟨⟨⟨by omega, by omega⟩, by omega⟩, by omega⟩, t5⟩, ?_, nr2⟩, t7⟩
    simp [isFree, nr3, nr4]
  · exact ⟨x, hxm, hxa, hxf, by omega, np, hfnp, np3, by omega, by omega⟩
  · intro a
    rw [hi.ents, hes2]
    simp only [cinSet_append, List.mem_append]
    have c1 : cinSet [x, f] = [] := by simp [cinSet, List.filter, hxc, hfc]
    have c2 : cinSet [np, nr, f] = [s.h.top] := by simp [cinSet, List.filter, np3, nr3, hfc, np1]
    rw [c1, c2]
    simp only [List.mem_cons, List.not_mem_nil, or_false]
    constructor
    · rintro ((h | h) | h)
      · exact Or.inr (Or.inl h)
      · exact Or.inl h
      · exact Or.inr (Or.inr h)
    · rintro (h | h | h)
      · exact Or.inl (Or.inr h)
      · exact Or.inl (Or.inl h)
      · exact Or.inr h
  · rw [hi.ents, hes2]
    refine inusePreserved_window (hi.ents ▸ hok') ?_
    intro e he hc
    simp only [List.mem_cons, List.not_mem_nil, or_false] at he
    rcases he with rfl | rfl
    · rw [hxc] at hc; cases hc
    · rw [hfc] at hc; cases hc

/-- the two header writes of `top-split` / of the tail of `sys_alloc`, from any well-formed state whose
`top` is larger than the request; `tr` is the ghost branch trace stored with the heap (`Heap.tag`
appends to it, `sys_alloc` leaves it alone) -/
theorem top_split_wfs {s : St} (w : WFS s) {nb : Nat} (hnb16 : nb % 16 = 0) (hnb32 : 32 ≤ nb)
    (hlt : nb < s.h.topsize) {h1 h2 : Heap}
    (e1 : writeHead { s.h with topsize := s.h.topsize - nb, top := s.h.top + nb } (s.h.top + nb) (s.h.topsize - nb) false true = .ok h1)
    (e2 : set_size_and_pinuse_of_inuse_chunk h1 s.h.top nb = .ok h2) (tr : List String) :
    WFS { s with h := { h2 with tr := tr } } ∧ AllocAt s.h.ents h2.ents nb s.h.top := by
  obtain ⟨g, rest, pre, x, f, post, hsegs, hes, hxa, hxf, hxs, hfa, hfc, hfp, _, _, _, htop0, hgx, hgf⟩ :=
    w.top_parts (by omega)
  have hok := w.ents
  rw [hes] at hok
  obtain ⟨o1, o2, o3, o4, o5⟩ := entsOk_mid2 hok
  have hxm : x ∈ s.h.ents := by rw [hes]; simp
  have hrnone : findEnt s.h.ents (s.h.top + nb) = none :=
    findEnt_none (entsOk_no_inside w.ents hxm (by omega) (by omega))
  -- step 1: the header of the remainder (the new `top`), strictly inside the old one
  have r1 := writeHead_window_ok e1 (pre := pre ++ [x]) (ms := []) (post := f :: post)
    (by show s.h.ents = _; rw [hes]; simp)
    (by
      intro q hq
      rcases List.mem_append.1 hq with hq | hq
      · have := o1 q hq; omega
      · simp only [List.mem_singleton] at hq; subst hq; omega)
    (by simp)
    (by
      intro q hq
      cases hq with
      | head => omega
      | tail _ hq => have := o5 q hq; omega)
  have hpf1 : pfootAt s.h.ents (s.h.top + nb) = 0 := pfootAt_none hrnone
  dsimp only at r1
  rw [hpf1] at r1
  subst r1
  -- step 2: the header of the allocated chunk over the old `top` header
  unfold set_size_and_pinuse_of_inuse_chunk at e2
  have r2 := writeHead_window_ok e2 (pre := pre) (ms := [x])
    (post := { addr := s.h.top + nb, size := s.h.topsize - nb, cin := false, pin := true, pfoot := 0 } :: f :: post)
    (by simp)
    (by intro q hq; have := o1 q hq; omega)
    (by intro q hq; simp only [List.mem_singleton] at hq; subst hq; omega)
    (by
      intro q hq
      simp only [List.mem_cons] at hq
      rcases hq with hq | hq | hq
      · subst hq; simp only; omega
      · subst hq; omega
      · have := o5 q hq; omega)
  have hpf2 : pfootAt (pre ++ [x] ++ { addr := s.h.top + nb, size := s.h.topsize - nb, cin := false, pin := true, pfoot := 0 } :: f :: post)
      s.h.top = x.pfoot := by
    apply pfootAt_some
    rw [List.append_assoc, findEnt_skip (fun q hq => by have := o1 q hq; omega)]
    rw [← hxa]; exact findEnt_head
  dsimp only at r2
  rw [hpf2] at r2
  subst r2
  exact top_split_core (pre := pre) (post := post) (x := x) (f := f) w hnb16 hnb32 hlt hsegs (by rw [hes]; simp)
    hxa hxf hxs hfa hfc hfp hgx hgf htop0
    (np := { addr := s.h.top, size := nb, cin := true, pin := true, pfoot := x.pfoot })
    (nr := { addr := s.h.top + nb, size := s.h.topsize - nb, cin := false, pin := true, pfoot := 0 })
    ⟨by simp, rfl, rfl, rfl, rfl, rfl, rfl⟩ rfl rfl rfl rfl rfl rfl rfl rfl

/-! ### the pilot theorem -/

/-- **`malloc_dv_top` preserves state-level well-formedness** (all three branches: `dv-split`,
`dv-exhaust`, `top-split`), and describes the chunk handed out (`AllocFacts`: `mem = p + 16` for a
header address `p` that was free — `dv` or `top` —, now in use with at least `nb` bytes; the in-use
addresses are the old ones plus `p`; every old in-use header keeps address, size and CINUSE).
`nb` is the padded request: a multiple of 16 and at least `MIN_CHUNK_SIZE` — true at every call site
in `malloc_nosys` (`request2size_aligned`, `request2size_ge_min`, `pad_request_aligned`, `pad_request_ge`). -/
theorem malloc_dv_top_wfs {s : St} (hw : WFS s) {nb : Nat} (hnb16 : nb % 16 = 0) (hnb32 : 32 ≤ nb)
    {h' : Heap} {mem : Nat} (hh : malloc_dv_top s.h nb = .ok (.done h' mem)) :
    WFS { s with h := h' } ∧ AllocFacts s.h.ents h'.ents nb mem := by
  unfold malloc_dv_top at hh
  dsimp only at hh
  split at hh
  · rename_i hle
    split at hh
    · rename_i hge
      msimp at hh
      obtain ⟨h1, e1, h2, e2, hh⟩ := hh
      injection hh with hh1 hh2
      subst hh1; subst hh2
      rw [MIN_CHUNK_SIZE_eq] at hge
      obtain ⟨r1, r2⟩ := dv_split_wfs hw hnb16 hnb32 hle hge e1 e2 "dv-split"
      exact ⟨r1, s.h.dv, by rw [MEM_OFFSET_eq], r2⟩
    · msimp at hh
      obtain ⟨h1, e1, hh⟩ := hh
      injection hh with hh1 hh2
      subst hh1; subst hh2
      obtain ⟨r1, r2⟩ := dv_exhaust_wfs hw hnb32 hle e1 "dv-exhaust"
      exact ⟨r1, s.h.dv, by rw [MEM_OFFSET_eq], r2⟩
  · split at hh
    · rename_i hlt
      msimp at hh
      obtain ⟨h1, e1, h2, e2, hh⟩ := hh
      injection hh with hh1 hh2
      subst hh1; subst hh2
      obtain ⟨r1, r2⟩ := top_split_wfs hw hnb16 hnb32 hlt e1 e2 (h2.tr ++ ["top-split"])
      exact ⟨r1, s.h.top, by rw [MEM_OFFSET_eq], r2⟩
    · msimp at hh
      cases hh

/-! ### non-vacuity: a reachable state on which each of the three branches is taken -/

/-- three small blocks, the middle one freed (small bin), then an 8-byte request served from that bin
with a split (`small-next-split`), whose 80-byte remainder becomes `dv` -/
def pilotOps : List (Op × List OsDir) :=
  [(.malloc 1 100 8, [.m (some 1048576)]), (.malloc 2 100 8, []), (.malloc 3 100 8, []), (.free 2, []),
   (.malloc 5 8 8, [])]

def pilotState : Hist := match Hist.init.run pilotOps with
  | .ok (hs, _) => hs
  | .error _ => Hist.init

/-- `malloc_dv_top h nb` succeeds with a chunk and its last branch tag is `tag` -/
def branchIs (h : Heap) (nb : Nat) (tag : String) : Bool :=
  match malloc_dv_top h nb with
  | .ok (.done h' _) => h'.tr.getLast? == some tag
  | _ => false

set_option maxRecDepth 40000 in
/-- the hypotheses of `malloc_dv_top_wfs` hold on `pilotState` (80 bytes in `dv`) for requests that take
the `dv-split`, `dv-exhaust` and `top-split` branches -/
example : WFS pilotState.st ∧ pilotState.st.h.dvsize = 80 ∧
    branchIs pilotState.st.h 48 "dv-split" = true ∧ branchIs pilotState.st.h 64 "dv-exhaust" = true ∧
    branchIs pilotState.st.h 4096 "top-split" = true :=
  ⟨((wf_iff_wfs pilotState).1 (by unfold WF; decide)).1, by decide, by decide, by decide, by decide⟩

end TinyVerif.Dl
