import TinyVerif.Proofs.DlIndStep
import TinyVerif.Proofs.DlIndMalloc2
import TinyVerif.Proofs.DlIndFree2
import TinyVerif.Proofs.DlIndMemalign
import TinyVerif.Proofs.DlIndSys
import TinyVerif.Proofs.DlInvCheck
/-!
# The inductiveness proof, assembled

Every leaf interface theorem of `Proofs/DlIndSpec.lean` discharged by the file that proves it, and the step /
run theorems of `Proofs/DlIndStep.lean` instantiated with them.
-/
namespace TinyVerif.Dl

theorem all_malloc_nosys : malloc_nosys_Spec := mn_malloc_nosys_spec
theorem all_dispose_chunk : dispose_chunk_Spec := fr_dispose_chunk_spec
theorem all_free_heap : free_heap_Spec := fr_free_heap_spec
theorem all_split_inuse : split_inuse_Spec := ra_split_inuse_spec
theorem all_try_realloc_chunk : try_realloc_chunk_Spec := ra_try_realloc_chunk_spec all_dispose_chunk
theorem all_memalign_fix : memalign_fix_Spec := ma_memalign_fix_spec all_dispose_chunk
theorem all_release_unused_segments : release_unused_segments_Spec := sg_release_unused_segments_spec
theorem all_sys_trim : sys_trim_Spec := sg_sys_trim_spec
theorem all_sys_alloc : sys_alloc_Spec := sg_sys_alloc_spec

end TinyVerif.Dl
