import TinyVerif.Proofs.DlIndBase
import TinyVerif.Proofs.DlIndTreeBins
/-!
# Interface of the inductiveness proof (`wf_step` for the strengthened invariant)

`WF` alone is not inductive (`Proofs/DlIndCex.lean`); the invariant is `Inv hs := SInv hs.st ∧ liveOk hs`
with `SInv s := WFS s ∧ RecsOk s ∧ FenceOk s`.

Every model function `f` gets ONE interface theorem of the shape
  `SInv s → <what the call site knows> → f … = .ok … → SInv s' ∧ <how the set of user chunks changed>`
whose statement is fixed here as a `def …_Spec : Prop`, so that the functions can be proved by different
people in parallel: a proof of `g_Spec` may take `f_Spec` of the functions `g` calls as hypotheses; the
assembly (`Proofs/DlIndStep.lean`) discharges them in dependency order.

"User chunk" = in-use header that is neither a fencepost nor the chunk holding a segment record; the
`liveOk` conjunct says exactly that the live blocks are the user chunks (`liveOk_iff_user`, assembly
file).  The deltas:
  * `SameUsers s s'`            nothing changed
  * `Alloc s s' nb mem`         one new user chunk of ≥ nb bytes at `mem - 16`, 16-aligned, not a user chunk before
  * `Freed s s' mem`            exactly the user chunk at `mem - 16` disappeared
  * `Resized s s' p nb`         the user chunk at `p` now has some size ≥ nb, everything else unchanged
  * `Moved s s' mem mem' nb`    the user chunk at `mem - 16` disappeared, one of ≥ nb bytes at `mem' - 16` appeared
-/
namespace TinyVerif.Dl

/-- third missing conjunct (found while proving `releaseLoop`): in a non-head segment (one whose record has been
pushed, `recAt ≠ 0`) every header that is neither a fencepost nor the record chunk ends at least `top_foot_size`
(80) bytes before the segment end — otherwise `release_unused_segments`, which only looks at the first chunk of the
segment, would unmap a segment with a live chunk hiding in its last 80 bytes.  Depends only on (addr, size) of the
headers and on the segment list. -/
def TailOk (s : St) : Prop :=
  ∀ g ∈ s.segs, g.recAt ≠ 0 → ∀ e ∈ s.h.ents, inSeg g e = true →
    e.size = 8 ∨ isRecord s.segs e = true ∨ e.addr + e.size + 80 ≤ g.base + g.size

/-- fourth missing conjunct (found while proving `sys-extend` / `prepend_alloc`): the first header of a segment is
never a fencepost.  Otherwise a segment that starts exactly where a fresh mapping ends, with a fencepost as first
header, would after `sys-extend` have the foot word of `top` directly before a fencepost (breaking `FenceOk`), and
`prepend-inuse` would clear PINUSE of that fencepost (breaking `shapeOk`). -/
def HeadOk (s : St) : Prop := ∀ g ∈ s.segs, ∀ e ∈ s.h.ents, e.addr = g.base → e.size ≠ 8

/-- fifth missing conjunct (found while proving `releaseLoop`): the record of a non-head segment lies inside that
segment.  Otherwise two segments could share one record chunk, and releasing the segment that holds it would break
`RecsOk` for the other.  Depends only on the segment list. -/
def RecIn (s : St) : Prop := ∀ g ∈ s.segs, g.recAt ≠ 0 → g.base + 16 ≤ g.recAt ∧ g.recAt < g.base + g.size

/-- the strengthened state-level invariant -/
structure SInv (s : St) : Prop where
  wfs : WFS s
  recs : RecsOk s
  fence : FenceOk s
  tail : TailOk s
  head : HeadOk s
  recin : RecIn s

/-- the invariant of histories that IS inductive -/
def Inv (hs : Hist) : Prop := SInv hs.st ∧ liveOk hs = true

theorem Inv.wf {hs : Hist} (h : Inv hs) : WF hs := (wf_iff_wfs hs).2 ⟨h.1.wfs, h.2⟩

/-- user chunk of size `sz` at header address `a` -/
def User (s : St) (a sz : Nat) : Prop :=
  ∃ e, findEnt s.h.ents a = some e ∧ e.cin = true ∧ e.size = sz ∧ sz ≠ 8 ∧ isRecord s.segs e = false

def SameUsers (s s' : St) : Prop := ∀ a z, User s' a z ↔ User s a z

def Alloc (s s' : St) (nb mem : Nat) : Prop :=
  16 ≤ mem ∧ mem % 16 = 0 ∧ (∀ z, ¬ User s (mem - 16) z) ∧
  ∃ sz, nb ≤ sz ∧ ∀ a z, User s' a z ↔ (User s a z ∨ (a = mem - 16 ∧ z = sz))

def Freed (s s' : St) (mem : Nat) : Prop := ∀ a z, User s' a z ↔ (User s a z ∧ a ≠ mem - 16)

def Resized (s s' : St) (p nb : Nat) : Prop :=
  ∃ sz, nb ≤ sz ∧ ∀ a z, User s' a z ↔ ((a ≠ p ∧ User s a z) ∨ (a = p ∧ z = sz))

def Moved (s s' : St) (mem mem' nb : Nat) : Prop :=
  16 ≤ mem' ∧ mem' % 16 = 0 ∧ (mem' ≠ mem → ∀ z, ¬ User s (mem' - 16) z) ∧
  ∃ sz, nb ≤ sz ∧ ∀ a z, User s' a z ↔ ((User s a z ∧ a ≠ mem - 16) ∨ (a = mem' - 16 ∧ z = sz))

/-- what every call site knows about a padded request -/
def NbOk (nb : Nat) : Prop := nb % 16 = 0 ∧ 32 ≤ nb ∧ nb < 2 ^ 63

/-- the mmap contract for the answer `sys_alloc` is about to pop: a served mapping is 16-aligned, not null,
inside the address space and disjoint from every segment held -/
def OsOk (s : St) (len : Nat) : Prop :=
  ∀ tbase q, s.osq = .m (some tbase) :: q → OsFresh s tbase len ∧ tbase % 4096 = 0

/-- the length `sys_alloc s nb` asks the OS for -/
def sysLen (nb : Nat) : Nat := align_up (nb + top_foot_size + MALLOC_ALIGNMENT) DEFAULT_GRANULARITY

/-! ## heap-level functions (segment list untouched) -/

def malloc_nosys_Spec : Prop :=
  ∀ {s : St} (_ : SInv s) {size : Nat} {h' : Heap} {mem : Nat}, malloc_nosys s.h size = .ok (.done h' mem) →
    SInv { s with h := h' } ∧ Alloc s { s with h := h' } (nbOf size) mem

def dispose_chunk_Spec : Prop :=
  ∀ {s : St} (_ : SInv s) {p psize : Nat} {h' : Heap}, User s p psize → dispose_chunk s.h p psize = .ok h' →
    SInv { s with h := h' } ∧ Freed s { s with h := h' } (p + 16)

/-- `set_inuse p nb; set_inuse (p+nb) rsize` on a user chunk of size `nb + rsize` (realloc shrink / grow
remainders, memalign leader / trailer): two user chunks afterwards -/
def split_inuse_Spec : Prop :=
  ∀ {s : St} (_ : SInv s) {p nb rsize : Nat} {h1 h2 : Heap}, User s p (nb + rsize) → nb % 16 = 0 → 32 ≤ nb →
    rsize % 16 = 0 → 32 ≤ rsize →
    set_inuse s.h p nb = .ok h1 → set_inuse h1 (p + nb) rsize = .ok h2 →
    SInv { s with h := h2 } ∧
    ∀ a z, User { s with h := h2 } a z ↔ ((a ≠ p ∧ User s a z) ∨ (a = p ∧ z = nb) ∨ (a = p + nb ∧ z = rsize))

def free_heap_Spec : Prop :=
  ∀ {s : St} (_ : SInv s) {mem : Nat} {h' : Heap} {t : FreeTail}, 16 ≤ mem → (∃ z, User s (mem - 16) z) →
    free_heap s.h mem = .ok (h', t) →
    SInv { s with h := h' } ∧ Freed s { s with h := h' } mem ∧
    (∀ ts, t = .intoTop ts → ts = h'.topsize)

def try_realloc_chunk_Spec : Prop :=
  ∀ {s : St} (_ : SInv s) {p nb z : Nat} {h' : Heap}, User s p z → NbOk nb →
    try_realloc_chunk s.h p nb = .ok (some h') →
    SInv { s with h := h' } ∧ Resized s { s with h := h' } p nb

def memalign_fix_Spec : Prop :=
  ∀ {s : St} (_ : SInv s) {mem k nb z : Nat} {h' : Heap} {mem' : Nat}, 16 ≤ mem → User s (mem - 16) z →
    NbOk nb → 5 ≤ k → k ≤ 32 → nb + 2 ^ k + 24 ≤ z →
    memalign_fix s.h mem (2 ^ k) nb = .ok (h', mem') →
    SInv { s with h := h' } ∧ mem' % 2 ^ k = 0 ∧ mem ≤ mem' ∧ mem' + nb ≤ mem + z ∧
    Moved s { s with h := h' } mem mem' nb

/-! ## functions that change the segment list / talk to the OS -/

def sys_alloc_Spec : Prop :=
  ∀ {s s' : St} (_ : SInv s) {nb mem : Nat}, NbOk nb → OsOk s (sysLen nb) → sys_alloc s nb = .ok (s', mem) →
    SInv s' ∧ (mem ≠ 0 → Alloc s s' nb mem) ∧ (mem = 0 → SameUsers s s')

def release_unused_segments_Spec : Prop :=
  ∀ {s s' : St} (_ : SInv s) {r : Nat}, release_unused_segments s = .ok (s', r) → SInv s' ∧ SameUsers s s'

def sys_trim_Spec : Prop :=
  ∀ {s s' : St} (_ : SInv s) {pad : Nat} {b : Bool}, sys_trim s pad = .ok (s', b) → SInv s' ∧ SameUsers s s'

/-! ## entry points -/

def inner_malloc_Spec : Prop :=
  ∀ {s s' : St} (_ : SInv s) {size mem : Nat}, OsOk s (mapSize size) → inner_malloc s size = .ok (s', mem) →
    SInv s' ∧ (mem ≠ 0 → Alloc s s' (nbOf size) mem) ∧ (mem = 0 → SameUsers s s')

def free_Spec : Prop :=
  ∀ {s s' : St} (_ : SInv s) {mem : Nat}, 16 ≤ mem → (∃ z, User s (mem - 16) z) → free s mem = .ok s' →
    SInv s' ∧ Freed s s' mem

def malloc_Spec : Prop :=
  ∀ {s s' : St} (_ : SInv s) {size k mem : Nat}, k ≤ 32 → OsOk s (mapSize (reqOf size (2 ^ k))) → malloc s size (2 ^ k) = .ok (s', mem) →
    SInv s' ∧ (mem ≠ 0 → mem % 2 ^ k = 0 ∧ Alloc s s' (request2size size) mem) ∧ (mem = 0 → SameUsers s s')

def realloc_Spec : Prop :=
  ∀ {s s' : St} (_ : SInv s) {ptr osz k ns mem z : Nat} {c : Option Copy}, 16 ≤ ptr → User s (ptr - 16) z →
    k ≤ 32 → ptr % 2 ^ k = 0 → OsOk s (mapSize (reqOf ns (2 ^ k))) → realloc s ptr osz (2 ^ k) ns = .ok (s', mem, c) →
    SInv s' ∧ (mem = 0 → SameUsers s s') ∧
    (mem ≠ 0 → mem % 2 ^ k = 0 ∧ Moved s s' ptr mem (request2size ns))

end TinyVerif.Dl
