import TinyVerif.Proofs.RwWake
set_option maxRecDepth 4000
set_option linter.unusedSimpArgs false
set_option linter.unusedVariables false
namespace TinyVerif.RwLock

/-! ### writer queue: no lost wake-up, for executions in which the two loads that implement the
"sample the sequence, then re-check the state" hand-shake observe current values (sequentially consistent
for those two sites) and `writer_notify` does not wrap.

A writer parked on `writer_notify` is always *covered*: the writers-waiting bit is set in `state` (so whoever
makes the word unlocked runs `wake_writer_or_readers`), or a `wake_writer` is in flight, or an awake writer exists
that carries `other_writers_waiting` and will put the bit back when it takes the lock. -/

def wparked (pc : Pc) : Bool := match pc with | .wParked _ => true | _ => false
def pendA (pc : Pc) : Bool := match pc with | .kNotify _ => true | _ => false
def pendW (pc : Pc) : Bool := match pc with | .kNotify _ | .kWakeW _ => true | _ => false
def owing (pc : Pc) : Bool :=
  match pc with
  | .wSpin _ true | .wCas _ true | .wSetWait _ true | .wSeqLoad | .wStateLoad _ | .wWaitLoad _ | .wWaitSys _ => true
  | _ => false
/-- the sampled sequence number a thread carries -/
def seqOf (pc : Pc) : Option Nat :=
  match pc with
  | .wStateLoad q | .wWaitLoad q | .wWaitSys q | .wParked q => some q
  | _ => none
/-- about to sleep, or asleep, on `writer_notify == q` -/
def preSleep (pc : Pc) : Option Nat :=
  match pc with
  | .wWaitLoad q | .wWaitSys q | .wParked q => some q
  | _ => none

def CoverA (s : St) : Prop := hasWW s.state = true ∨ ∃ k, pendA (s.ths k).pc = true
def CoverP (s : St) : Prop :=
  hasWW s.state = true ∨ (∃ k, pendW (s.ths k).pc = true) ∨ (∃ k, owing (s.ths k).pc = true)

theorem CoverA.toP {s : St} (h : CoverA s) : CoverP s := by
  rcases h with h | ⟨k, hk⟩
  · exact Or.inl h
  · refine Or.inr (Or.inl ⟨k, ?_⟩)
    cases hp : (s.ths k).pc <;> simp_all [pendA, pendW]

structure WQ (s : St) : Prop where
  park : (∃ i, wparked (s.ths i).pc = true) → CoverP s
  pre : ∀ i q, preSleep (s.ths i).pc = some q → q = s.notify → CoverA s
  seqle : ∀ i q, seqOf (s.ths i).pc = some q → q ≤ s.notify

theorem init_wq (progs : List (List Txn)) : WQ (init progs) := by
  refine ⟨?_, ?_, ?_⟩
  · rintro ⟨i, hi⟩; simp [init, wparked] at hi
  · intro i q h; simp [init, preSleep] at h
  · intro i q h; simp [init, seqOf] at h

/-- generic step of thread `i` that leaves `writer_notify` alone and wakes nobody -/
theorem wq_upd (s s' : St) (i : Nat) (pc' : Pc)
    (hths : ∀ j, j ≠ i → s'.ths j = s.ths j) (hpc : (s'.ths i).pc = pc') (hnot : s'.notify = s.notify)
    (h : WQ s)
    (hbit : hasWW s.state = true → hasWW s'.state = true ∨ pendA pc' = true)
    (hpark : wparked pc' = true → wparked (s.ths i).pc = true ∨ preSleep (s.ths i).pc = some s.notify)
    (hpre : ∀ q, preSleep pc' = some q → preSleep (s.ths i).pc = some q ∨ hasWW s'.state = true)
    (hseq : ∀ q, seqOf pc' = some q → seqOf (s.ths i).pc = some q ∨ q ≤ s.notify)
    (hA : pendA (s.ths i).pc = true → pendA pc' = true)
    (hW : pendW (s.ths i).pc = true → pendW pc' = true)
    (hO : owing (s.ths i).pc = true → owing pc' = true ∨ hasWW s'.state = true ∨ preSleep (s.ths i).pc = some s.notify) :
    WQ s' := by
  -- transfer of the two covers
  have covA : CoverA s → CoverA s' := by
    rintro (hb | ⟨k, hk⟩)
    · rcases hbit hb with h1 | h1
      · exact Or.inl h1
      · exact Or.inr ⟨i, by rw [hpc]; exact h1⟩
    · by_cases hki : k = i
      · subst hki; exact Or.inr ⟨k, by rw [hpc]; exact hA hk⟩
      · exact Or.inr ⟨k, by rw [hths k hki]; exact hk⟩
  have covP : CoverP s → CoverP s' := by
    rintro (hb | ⟨k, hk⟩ | ⟨k, hk⟩)
    · rcases hbit hb with h1 | h1
      · exact Or.inl h1
      · refine Or.inr (Or.inl ⟨i, ?_⟩); rw [hpc]; cases hp : pc' <;> simp_all [pendA, pendW]
    · by_cases hki : k = i
      · subst hki; exact Or.inr (Or.inl ⟨k, by rw [hpc]; exact hW hk⟩)
      · exact Or.inr (Or.inl ⟨k, by rw [hths k hki]; exact hk⟩)
    · by_cases hki : k = i
      · subst hki
        rcases hO hk with h1 | h1 | h1
        · exact Or.inr (Or.inr ⟨k, by rw [hpc]; exact h1⟩)
        · exact Or.inl h1
        · exact (covA (h.pre k s.notify h1 rfl)).toP
      · exact Or.inr (Or.inr ⟨k, by rw [hths k hki]; exact hk⟩)
  refine ⟨?_, ?_, ?_⟩
  · rintro ⟨j, hj⟩
    by_cases hji : j = i
    · subst hji
      rw [hpc] at hj
      rcases hpark hj with h1 | h1
      · exact covP (h.park ⟨j, h1⟩)
      · exact (covA (h.pre j s.notify h1 rfl)).toP
    · rw [hths j hji] at hj
      exact covP (h.park ⟨j, hj⟩)
  · intro j q hq hqn
    rw [hnot] at hqn
    by_cases hji : j = i
    · subst hji
      rw [hpc] at hq
      rcases hpre q hq with h1 | h1
      · exact covA (h.pre j q h1 hqn)
      · exact Or.inl h1
    · rw [hths j hji] at hq
      exact covA (h.pre j q hq hqn)
  · intro j q hq
    rw [hnot]
    by_cases hji : j = i
    · subst hji
      rw [hpc] at hq
      rcases hseq q hq with h1 | h1
      · exact h.seqle j q h1
      · exact h1
    · rw [hths j hji] at hq
      exact h.seqle j q hq


/-! arithmetic: which RMWs keep the writers-waiting bit -/

theorem hasWW_add_WL (x : Nat) (h : x % 1073741824 = 0) : hasWW (x + WRITE_LOCKED) = hasWW x := by
  simp only [hasWW, WW, WRITE_LOCKED]
  have : (x + 1073741823) / 2147483648 = x / 2147483648 := by omega
  rw [this]

theorem hasWW_add_one (x : Nat) (h : x % 1073741824 < 1073741822) : hasWW (x + 1) = hasWW x := by
  simp only [hasWW, WW]
  have : (x + 1) / 2147483648 = x / 2147483648 := by omega
  rw [this]

theorem hasWW_orRW (x : Nat) (hx : x < 4294967296) : hasWW (orRW x) = hasWW x := by
  unfold orRW
  split
  · rfl
  · rename_i h
    simp only [hasRW, hasWW, RW, WW, beq_iff_eq, Bool.not_eq_true, beq_eq_false_iff_ne, ne_eq] at *
    have : (x + 1073741824) / 2147483648 = x / 2147483648 := by omega
    rw [this]

theorem hasWW_orWW (x : Nat) : hasWW (orWW x) = true := by
  unfold orWW
  split
  · assumption
  · rename_i h
    simp only [hasWW, WW, beq_iff_eq, Bool.not_eq_true, beq_eq_false_iff_ne, ne_eq] at *
    omega

theorem hasWW_orWL (x : Nat) (o : Bool) (h : x % 1073741824 = 0) : hasWW (orWL x o) = (hasWW x || o) := by
  unfold orWL
  simp only [cnt, RW, h, Nat.sub_zero]
  cases o
  · simp only [Bool.false_eq_true, if_false, Bool.or_false]; exact hasWW_add_WL x h
  · simp only [if_true, Bool.or_true]; exact hasWW_orWW _

theorem hasWW_sub_one (x : Nat) (h : 1 ≤ x % 1073741824) (hlt : x < 4294967296) : hasWW (wsub x 1) = hasWW x := by
  have : wsub x 1 = x - 1 := by unfold wsub; simp only [TWO32]; omega
  rw [this]
  simp only [hasWW, WW]
  have : (x - 1) / 2147483648 = x / 2147483648 := by omega
  rw [this]

theorem hasWW_sub_WL (x : Nat) (h : x % 1073741824 = 1073741823) (hlt : x < 4294967296) :
    hasWW (wsub x WRITE_LOCKED) = hasWW x := by
  have : wsub x WRITE_LOCKED = x - 1073741823 := by unfold wsub; simp only [TWO32, WRITE_LOCKED]; omega
  rw [this]
  simp only [hasWW, WW]
  have : (x - 1073741823) / 2147483648 = x / 2147483648 := by omega
  rw [this]

theorem not_hasWW_of_lockable (x : Nat) (h : isReadLockable x = true) : hasWW x = false := by
  obtain ⟨_, _, h3⟩ := (readLockable_iff x).mp h
  simp only [hasWW, WW, beq_eq_false_iff_ne, ne_eq]; exact h3

/-- the restricted step: the Acquire load of `writer_notify` and the following re-read of `state` in
`write_contended` observe current values; `writer_notify` does not wrap -/
def stepW (c : Cfg) (s : St) (i : Nat) (e : Ev) : Option St :=
  match (s.ths i).pc, e with
  | .wSeqLoad, .load 1 v => if v = s.notify then step c s i e else none
  | .wStateLoad _, .load 0 v => if v = s.state then step c s i e else none
  | .kNotify _, _ => if s.notify + 1 < TWO32 then step c s i e else none
  | _, _ => step c s i e

theorem stepW_step (c : Cfg) (s s' : St) (i : Nat) (e : Ev) (h : stepW c s i e = some s') : step c s i e = some s' := by
  unfold stepW at h
  split at h
  · split at h
    · exact h
    · simp at h
  · split at h
    · exact h
    · simp at h
  · split at h
    · exact h
    · simp at h
  · exact h

def runW (c : Cfg) : St → List (Nat × Ev) → Option St
  | s, [] => some s
  | s, (i, e) :: rest =>
      match stepW c s i e with
      | some s' => runW c s' rest
      | none => none


/-! ### per-step preservation -/

theorem wq_setpc (s : St) (i : Nat) (pc' : Pc) (h : WQ s)
    (c1 : wparked pc' = false)
    (c2 : ∀ q, preSleep pc' = some q → preSleep (s.ths i).pc = some q)
    (c3 : ∀ q, seqOf pc' = some q → seqOf (s.ths i).pc = some q)
    (cA : pendA (s.ths i).pc = true → pendA pc' = true)
    (cW : pendW (s.ths i).pc = true → pendW pc' = true)
    (cO : owing (s.ths i).pc = true → owing pc' = true) : WQ (setPc s i pc') := by
  refine wq_upd s _ i pc' ?_ ?_ rfl h ?_ ?_ ?_ ?_ cA cW ?_
  · intro j hj; simp [setPc, setTh_ths, hj]
  · simp [setPc]
  · intro hb; left; simpa [setPc] using hb
  · intro hh; rw [c1] at hh; cases hh
  · intro q hq; exact Or.inl (c2 q hq)
  · intro q hq; exact Or.inl (c3 q hq)
  · intro ho; exact Or.inl (cO ho)

theorem wq_rmw (s : St) (i : Nat) (acq rel : Bool) (new : Nat) (pc' : Pc) (h : WQ s)
    (c1 : wparked pc' = false)
    (c2 : ∀ q, preSleep pc' = some q → preSleep (s.ths i).pc = some q)
    (c3 : ∀ q, seqOf pc' = some q → seqOf (s.ths i).pc = some q)
    (cA : pendA (s.ths i).pc = true → pendA pc' = true)
    (cW : pendW (s.ths i).pc = true → pendW pc' = true)
    (cO : owing (s.ths i).pc = true → owing pc' = true ∨ hasWW new = true)
    (hbit : hasWW s.state = true → hasWW new = true ∨ pendA pc' = true) : WQ (rmwState s i acq rel new pc') := by
  refine wq_upd s _ i pc' ?_ ?_ rfl h ?_ ?_ ?_ ?_ cA cW ?_
  · intro j hj; simp [rmwState, setTh_ths, hj]
  · simp [rmwState]
  · intro hb; simpa [rmwState] using hbit hb
  · intro hh; rw [c1] at hh; cases hh
  · intro q hq; exact Or.inl (c2 q hq)
  · intro q hq; exact Or.inl (c3 q hq)
  · intro ho
    rcases cO ho with h1 | h1
    · exact Or.inl h1
    · right; left; simpa [rmwState] using h1

/-- facts about the computed continuations -/
def Inert (pc : Pc) : Prop :=
  wparked pc = false ∧ preSleep pc = none ∧ seqOf pc = none ∧ pendA pc = false ∧ pendW pc = false

theorem inert_rNext (v : Nat) : Inert (rNext v) ∧ owing (rNext v) = false := by
  unfold rNext Inert; repeat' split
  all_goals simp [wparked, preSleep, seqOf, pendA, pendW, owing]
theorem inert_wNext (v : Nat) (o : Bool) : Inert (wNext v o) ∧ (o = true → owing (wNext v o) = true) := by
  unfold wNext Inert; repeat' split
  all_goals (refine ⟨by simp [wparked, preSleep, seqOf, pendA, pendW], ?_⟩; intro ho; subst ho; simp [owing])
theorem inert_wakeEntry (v : Nat) : Inert (wakeEntry v) := by
  unfold wakeEntry Inert; repeat' split
  all_goals simp [wparked, preSleep, seqOf, pendA, pendW]
theorem inert_wakeAfterA (v : Nat) : Inert (wakeAfterA v) := by
  unfold wakeAfterA Inert; repeat' split
  all_goals simp [wparked, preSleep, seqOf, pendA, pendW]
theorem inert_ite_wake (b : Prop) [Decidable b] (x : Nat) : Inert (if b then wakeEntry x else Pc.idle) := by
  split
  · exact inert_wakeEntry _
  · simp [Inert, wparked, preSleep, seqOf, pendA, pendW]
theorem inert_tNext (w : Bool) (b : Prop) [Decidable b] (o : Nat) : Inert (if b then Pc.tCas w o else Pc.tryFailed) := by
  split <;> simp [Inert, wparked, preSleep, seqOf, pendA, pendW]

/-- pc-only move of a thread that is neither a pending waker nor owing, to an inert pc -/
theorem wq_plain (s : St) (i : Nat) (pc' : Pc) (h : WQ s) (hi : Inert pc')
    (hA : pendW (s.ths i).pc = false) (hO : owing (s.ths i).pc = false) : WQ (setPc s i pc') := by
  obtain ⟨i1, i2, i3, i4, i5⟩ := hi
  have hA' : pendA (s.ths i).pc = false := by
    cases hp : (s.ths i).pc <;> simp_all [pendA, pendW]
  refine wq_setpc s i pc' h i1 ?_ ?_ ?_ ?_ ?_
  · intro q hq; rw [i2] at hq; cases hq
  · intro q hq; rw [i3] at hq; cases hq
  · intro hh; rw [hA'] at hh; cases hh
  · intro hh; rw [hA] at hh; cases hh
  · intro hh; rw [hO] at hh; cases hh

theorem wq_plain_rmw (s : St) (i : Nat) (acq rel : Bool) (new : Nat) (pc' : Pc) (h : WQ s) (hi : Inert pc')
    (hA : pendW (s.ths i).pc = false) (hO : owing (s.ths i).pc = false)
    (hbit : hasWW s.state = true → hasWW new = true) : WQ (rmwState s i acq rel new pc') := by
  obtain ⟨i1, i2, i3, i4, i5⟩ := hi
  have hA' : pendA (s.ths i).pc = false := by
    cases hp : (s.ths i).pc <;> simp_all [pendA, pendW]
  refine wq_rmw s i acq rel new pc' h i1 ?_ ?_ ?_ ?_ ?_ ?_
  · intro q hq; rw [i2] at hq; cases hq
  · intro q hq; rw [i3] at hq; cases hq
  · intro hh; rw [hA'] at hh; cases hh
  · intro hh; rw [hA] at hh; cases hh
  · intro hh; rw [hO] at hh; cases hh
  · intro hb; exact Or.inl (hbit hb)

macro "inert_tac" : tactic => `(tactic|
  first
  | exact (inert_rNext _).1
  | exact (inert_wNext _ _).1
  | exact inert_wakeEntry _
  | exact inert_wakeAfterA _
  | exact inert_tNext _ _ _
  | (simp [Inert, wparked, preSleep, seqOf, pendA, pendW]; done)
  | (split <;> first
      | exact (inert_rNext _).1
      | exact (inert_wNext _ _).1
      | (simp_all [Inert, wparked, preSleep, seqOf, pendA, pendW]; done)))

variable (c : Cfg) (s s' : St) (i : Nat) (e : Ev) (hi : i < s.n) (hinv : RInv s) (hq : WQ s)

include hq in
theorem wq_rLoad  (hpc : (s.ths i).pc = .rLoad) (h : step_rLoad c s i (s.ths i)  e = some s') : WQ s' := by
  unfold step_rLoad at h
  split at h
  · cases h
    exact wq_plain s i _ hq (by inert_tac) (by simp [pendW, hpc]) (by simp [owing, hpc])
  · simp at h

include hinv hq in
theorem wq_rFastCas (st : Nat) (hpc : (s.ths i).pc = .rFastCas st) (h : step_rFastCas c s i (s.ths i) st e = some s') : WQ s' := by
  have hlt := hinv.lt32
  have hA : pendW (s.ths i).pc = false := by simp [pendW, hpc]
  unfold step_rFastCas at h
  split at h
  · rename_i exp new r
    split at h
    · simp at h
    · rename_i hcond
      simp only [not_or, Decidable.not_not, Bool.not_eq_true', Bool.not_eq_false', Bool.not_eq_false] at hcond
      obtain ⟨he, hn, hcc⟩ := hcond
      have hwf := hinv.pcwf i; rw [hpc] at hwf; simp only [PcWf] at hwf
      cases r with
      | ok =>
        simp only [] at h; cases h
        simp only [casConsistent, beq_iff_eq] at hcc
        subst he hn
        rw [← hcc] at hwf
        refine wq_plain_rmw s i _ _ _ _ hq (by inert_tac) hA (by simp [owing, hpc]) ?_
        intro hb; rw [not_hasWW_of_lockable _ hwf] at hb; cases hb
      | fail o => simp only [] at h; cases h; exact wq_plain s i _ hq (by inert_tac) hA (by simp [owing, hpc])
      | spur o => simp only [] at h; cases h; exact wq_plain s i _ hq (by inert_tac) hA (by simp [owing, hpc])
  · simp at h

include hq in
theorem wq_rSpin (n : Nat) (hpc : (s.ths i).pc = .rSpin n) (h : step_rSpin c s i (s.ths i) n e = some s') : WQ s' := by
  unfold step_rSpin at h
  split at h
  · cases h
    exact wq_plain s i _ hq (by inert_tac) (by simp [pendW, hpc]) (by simp [owing, hpc])
  · simp at h

include hinv hq in
theorem wq_rCas (st : Nat) (hpc : (s.ths i).pc = .rCas st) (h : step_rCas c s i (s.ths i) st e = some s') : WQ s' := by
  have hlt := hinv.lt32
  have hA : pendW (s.ths i).pc = false := by simp [pendW, hpc]
  unfold step_rCas at h
  split at h
  · rename_i exp new r
    split at h
    · simp at h
    · rename_i hcond
      simp only [not_or, Decidable.not_not, Bool.not_eq_true', Bool.not_eq_false', Bool.not_eq_false] at hcond
      obtain ⟨he, hn, hcc⟩ := hcond
      have hwf := hinv.pcwf i; rw [hpc] at hwf; simp only [PcWf] at hwf
      cases r with
      | ok =>
        simp only [] at h; cases h
        simp only [casConsistent, beq_iff_eq] at hcc
        subst he hn
        rw [← hcc] at hwf
        refine wq_plain_rmw s i _ _ _ _ hq (by inert_tac) hA (by simp [owing, hpc]) ?_
        intro hb; rw [not_hasWW_of_lockable _ hwf] at hb; cases hb
      | fail o => simp only [] at h; cases h; exact wq_plain s i _ hq (by inert_tac) hA (by simp [owing, hpc])
      | spur o => simp only [] at h; cases h; exact wq_plain s i _ hq (by inert_tac) hA (by simp [owing, hpc])
  · simp at h

include hinv hq in
theorem wq_rSetWait (st : Nat) (hpc : (s.ths i).pc = .rSetWait st) (h : step_rSetWait c s i (s.ths i) st e = some s') : WQ s' := by
  have hlt := hinv.lt32
  have hA : pendW (s.ths i).pc = false := by simp [pendW, hpc]
  unfold step_rSetWait at h
  split at h
  · rename_i exp new r
    split at h
    · simp at h
    · rename_i hcond
      simp only [not_or, Decidable.not_not, Bool.not_eq_true', Bool.not_eq_false', Bool.not_eq_false] at hcond
      obtain ⟨he, hn, hcc⟩ := hcond
      cases r with
      | ok =>
        simp only [] at h; cases h
        simp only [casConsistent, beq_iff_eq] at hcc
        subst he hn
        refine wq_plain_rmw s i _ _ _ _ hq (by inert_tac) hA (by simp [owing, hpc]) ?_
        intro hb; rw [← hcc, hasWW_orRW _ (by simpa [TWO32] using hlt)]; exact hb
      | fail o => simp only [] at h; cases h; exact wq_plain s i _ hq (by inert_tac) hA (by simp [owing, hpc])
      | spur o => simp only [] at h; cases h; exact wq_plain s i _ hq (by inert_tac) hA (by simp [owing, hpc])
  · simp at h

include hq in
theorem wq_rWaitLoad (ex : Nat) (hpc : (s.ths i).pc = .rWaitLoad ex) (h : step_rWaitLoad c s i (s.ths i) ex e = some s') : WQ s' := by
  unfold step_rWaitLoad at h
  split at h
  · cases h
    exact wq_plain s i _ hq (by inert_tac) (by simp [pendW, hpc]) (by simp [owing, hpc])
  · simp at h

include hq in
theorem wq_rWaitSys (ex : Nat) (hpc : (s.ths i).pc = .rWaitSys ex) (h : step_rWaitSys c s i (s.ths i) ex e = some s') : WQ s' := by
  have hA : pendW (s.ths i).pc = false := by simp [pendW, hpc]
  have hO : owing (s.ths i).pc = false := by simp [owing, hpc]
  unfold step_rWaitSys at h
  split at h
  · split at h
    · simp at h
    · split at h
      · split at h
        · cases h; exact wq_plain s i _ hq (by inert_tac) hA hO
        · simp at h
      · split at h
        · simp at h
        · cases h; exact wq_plain s i _ hq (by inert_tac) hA hO
  · simp at h

include hq in
theorem wq_rParked (ex : Nat) (hpc : (s.ths i).pc = .rParked ex) (h : step_rParked c s i (s.ths i) ex e = some s') : WQ s' := by
  unfold step_rParked at h
  split at h
  · cases h
    exact wq_plain s i _ hq (by inert_tac) (by simp [pendW, hpc]) (by simp [owing, hpc])
  · simp at h

include hq in
theorem wq_tLoad (w : Bool) (hpc : (s.ths i).pc = .tLoad w) (h : step_tLoad c s i (s.ths i) w e = some s') : WQ s' := by
  unfold step_tLoad at h
  split at h
  · cases h
    exact wq_plain s i _ hq (inert_tNext _ _ _) (by simp [pendW, hpc]) (by simp [owing, hpc])
  · simp at h

include hinv hq in
theorem wq_tCas (w : Bool) (st : Nat) (hpc : (s.ths i).pc = .tCas w st) (h : step_tCas c s i (s.ths i) w st e = some s') : WQ s' := by
  have hA : pendW (s.ths i).pc = false := by simp [pendW, hpc]
  have hO : owing (s.ths i).pc = false := by simp [owing, hpc]
  have hwf := hinv.pcwf i; rw [hpc] at hwf; simp only [PcWf] at hwf
  unfold step_tCas at h
  cases w
  all_goals
    simp only [Bool.false_eq_true, if_false, if_true] at h hwf
    split at h
    · rename_i exp new r
      split at h
      · simp at h
      · rename_i hcond
        simp only [not_or, Decidable.not_not, Bool.not_eq_true', Bool.not_eq_false', Bool.not_eq_false] at hcond
        obtain ⟨he, hn, hcc⟩ := hcond
        cases r with
        | ok =>
          simp only [] at h; cases h
          simp only [casConsistent, beq_iff_eq] at hcc
          subst he hn
          rw [← hcc] at hwf
          refine wq_plain_rmw s i _ _ _ _ hq (by inert_tac) hA hO ?_
          first
          | (intro hb; rw [not_hasWW_of_lockable _ hwf] at hb; cases hb)
          | (intro hb; rw [← hcc, hasWW_add_WL _ ((unlocked_iff _).mp hwf)]; exact hb)
        | fail o => simp only [] at h; cases h; exact wq_plain s i _ hq (inert_tNext _ _ _) hA hO
        | spur o => simp only [] at h; cases h; exact wq_plain s i _ hq (inert_tNext _ _ _) hA hO
    · simp at h

include hq in
theorem wq_tryFailed (hpc : (s.ths i).pc = .tryFailed) (h : step_tryFailed c s i (s.ths i) e = some s') : WQ s' := by
  unfold step_tryFailed at h
  split at h
  · cases h
    refine wq_upd s _ i .idle ?_ ?_ rfl hq ?_ ?_ ?_ ?_ ?_ ?_ ?_
    · intro j hj; simp [setTh_ths, hj]
    · simp
    · intro hb; left; simpa using hb
    · intro hh; simp [wparked] at hh
    · intro q hh; simp [preSleep] at hh
    · intro q hh; simp [seqOf] at hh
    · intro hh; simp [pendA, hpc] at hh
    · intro hh; simp [pendW, hpc] at hh
    · intro hh; simp [owing, hpc] at hh
  · simp at h

include hinv hq in
theorem wq_wFastCas  (hpc : (s.ths i).pc = .wFastCas) (h : step_wFastCas c s i (s.ths i)  e = some s') : WQ s' := by
  have hlt := hinv.lt32
  have hA : pendW (s.ths i).pc = false := by simp [pendW, hpc]
  unfold step_wFastCas at h
  split at h
  · rename_i exp new r
    split at h
    · simp at h
    · rename_i hcond
      simp only [not_or, Decidable.not_not, Bool.not_eq_true', Bool.not_eq_false', Bool.not_eq_false] at hcond
      obtain ⟨he, hn, hcc⟩ := hcond
      cases r with
      | ok =>
        simp only [] at h; cases h
        simp only [casConsistent, beq_iff_eq] at hcc
        subst he hn
        refine wq_plain_rmw s i _ _ _ _ hq (by inert_tac) hA (by simp [owing, hpc]) ?_
        intro hb; rw [hcc] at hb; simp [hasWW] at hb
      | fail o => simp only [] at h; cases h; exact wq_plain s i _ hq (by inert_tac) hA (by simp [owing, hpc])
      | spur o => simp only [] at h; cases h; exact wq_plain s i _ hq (by inert_tac) hA (by simp [owing, hpc])
  · simp at h

include hq in
theorem wq_wSpin (n : Nat) (oww : Bool) (hpc : (s.ths i).pc = .wSpin n oww) (h : step_wSpin c s i (s.ths i) n oww e = some s') : WQ s' := by
  unfold step_wSpin at h
  split at h
  · rename_i v
    cases h
    have hA : pendW (s.ths i).pc = false := by simp [pendW, hpc]
    have hAa : pendA (s.ths i).pc = false := by simp [pendA, hpc]
    split
    · obtain ⟨⟨i1, i2, i3, i4, i5⟩, io⟩ := inert_wNext v oww
      refine wq_setpc s i _ hq i1 ?_ ?_ ?_ ?_ ?_
      · intro q hh; rw [i2] at hh; cases hh
      · intro q hh; rw [i3] at hh; cases hh
      · intro hh; rw [hAa] at hh; cases hh
      · intro hh; rw [hA] at hh; cases hh
      · intro hh; apply io; cases oww <;> simp_all [owing]
    · refine wq_setpc s i _ hq (by simp [wparked]) ?_ ?_ ?_ ?_ ?_
      · intro q hh; simp [preSleep] at hh
      · intro q hh; simp [seqOf] at hh
      · intro hh; rw [hAa] at hh; cases hh
      · intro hh; rw [hA] at hh; cases hh
      · intro hh; cases oww <;> simp_all [owing]
  · simp at h

include hinv hq in
theorem wq_wCas (st : Nat) (oww : Bool) (hpc : (s.ths i).pc = .wCas st oww) (h : step_wCas c s i (s.ths i) st oww e = some s') : WQ s' := by
  have hlt := hinv.lt32
  have hA : pendW (s.ths i).pc = false := by simp [pendW, hpc]
  have hAa : pendA (s.ths i).pc = false := by simp [pendA, hpc]
  have hwf := hinv.pcwf i; rw [hpc] at hwf; simp only [PcWf] at hwf
  unfold step_wCas at h
  split at h
  · rename_i exp new r
    split at h
    · simp at h
    · rename_i hcond
      simp only [not_or, Decidable.not_not, Bool.not_eq_true', Bool.not_eq_false', Bool.not_eq_false] at hcond
      obtain ⟨he, hn, hcc⟩ := hcond
      have hfail : ∀ o, WQ (setPc s i (wNext o oww)) := by
        intro o
        obtain ⟨⟨i1, i2, i3, i4, i5⟩, io⟩ := inert_wNext o oww
        refine wq_setpc s i _ hq i1 ?_ ?_ ?_ ?_ ?_
        · intro q hh; rw [i2] at hh; cases hh
        · intro q hh; rw [i3] at hh; cases hh
        · intro hh; rw [hAa] at hh; cases hh
        · intro hh; rw [hA] at hh; cases hh
        · intro hh; apply io; cases oww <;> simp_all [owing]
      cases r with
      | ok =>
        simp only [] at h; cases h
        simp only [casConsistent, beq_iff_eq] at hcc
        subst he hn
        rw [← hcc] at hwf
        have hw := hasWW_orWL s.state oww ((unlocked_iff _).mp hwf)
        refine wq_rmw s i _ _ _ _ hq (by simp [wparked]) ?_ ?_ ?_ ?_ ?_ ?_
        · intro q hh; simp [preSleep] at hh
        · intro q hh; simp [seqOf] at hh
        · intro hh; rw [hAa] at hh; cases hh
        · intro hh; rw [hA] at hh; cases hh
        · intro hh; right; rw [← hcc, hw]; cases oww <;> simp_all [owing]
        · intro hb; left; rw [← hcc, hw, hb]; simp
      | fail o => simp only [] at h; cases h; exact hfail _
      | spur o => simp only [] at h; cases h; exact hfail _
  · simp at h

include hinv hq in
theorem wq_wSetWait (st : Nat) (oww : Bool) (hpc : (s.ths i).pc = .wSetWait st oww) (h : step_wSetWait c s i (s.ths i) st oww e = some s') : WQ s' := by
  have hA : pendW (s.ths i).pc = false := by simp [pendW, hpc]
  have hAa : pendA (s.ths i).pc = false := by simp [pendA, hpc]
  unfold step_wSetWait at h
  split at h
  · rename_i exp new r
    split at h
    · simp at h
    · rename_i hcond
      simp only [not_or, Decidable.not_not, Bool.not_eq_true', Bool.not_eq_false', Bool.not_eq_false] at hcond
      obtain ⟨he, hn, hcc⟩ := hcond
      have hfail : ∀ o, WQ (setPc s i (wNext o oww)) := by
        intro o
        obtain ⟨⟨i1, i2, i3, i4, i5⟩, io⟩ := inert_wNext o oww
        refine wq_setpc s i _ hq i1 ?_ ?_ ?_ ?_ ?_
        · intro q hh; rw [i2] at hh; cases hh
        · intro q hh; rw [i3] at hh; cases hh
        · intro hh; rw [hAa] at hh; cases hh
        · intro hh; rw [hA] at hh; cases hh
        · intro hh; apply io; cases oww <;> simp_all [owing]
      cases r with
      | ok =>
        simp only [] at h; cases h
        simp only [casConsistent, beq_iff_eq] at hcc
        subst he hn
        refine wq_rmw s i _ _ _ _ hq (by simp [wparked]) ?_ ?_ ?_ ?_ ?_ ?_
        · intro q hh; simp [preSleep] at hh
        · intro q hh; simp [seqOf] at hh
        · intro hh; rw [hAa] at hh; cases hh
        · intro hh; rw [hA] at hh; cases hh
        · intro _; left; simp [owing]
        · intro _; left; exact hasWW_orWW _
      | fail o => simp only [] at h; cases h; exact hfail _
      | spur o => simp only [] at h; cases h; exact hfail _
  · simp at h

/-- pc-only move, general form -/
theorem wq_setpc_gen (s : St) (i : Nat) (pc' : Pc) (h : WQ s)
    (hpark : wparked pc' = true → wparked (s.ths i).pc = true ∨ preSleep (s.ths i).pc = some s.notify)
    (hpre : ∀ q, preSleep pc' = some q → preSleep (s.ths i).pc = some q ∨ hasWW s.state = true)
    (hseq : ∀ q, seqOf pc' = some q → seqOf (s.ths i).pc = some q ∨ q ≤ s.notify)
    (hA : pendA (s.ths i).pc = true → pendA pc' = true)
    (hW : pendW (s.ths i).pc = true → pendW pc' = true)
    (hO : owing (s.ths i).pc = true → owing pc' = true ∨ hasWW s.state = true ∨ preSleep (s.ths i).pc = some s.notify) :
    WQ (setPc s i pc') := by
  refine wq_upd s _ i pc' ?_ ?_ rfl h ?_ hpark ?_ hseq hA hW ?_
  · intro j hj; simp [setPc, setTh_ths, hj]
  · simp [setPc]
  · intro hb; left; simpa [setPc] using hb
  · intro q hq'; rcases hpre q hq' with h1 | h1
    · exact Or.inl h1
    · right; simpa [setPc] using h1
  · intro ho; rcases hO ho with h1 | h1 | h1
    · exact Or.inl h1
    · right; left; simpa [setPc] using h1
    · exact Or.inr (Or.inr h1)

include hq in
theorem wq_wSeqLoad (hacc : ∀ v, e = .load 1 v → v = s.notify)
    (hpc : (s.ths i).pc = .wSeqLoad) (h : step_wSeqLoad c s i (s.ths i) e = some s') : WQ s' := by
  unfold step_wSeqLoad at h
  split at h
  · rename_i v
    have hv := hacc v rfl
    cases h
    refine wq_setpc_gen s i _ hq ?_ ?_ ?_ ?_ ?_ ?_
    · intro hh; simp [wparked] at hh
    · intro q hh; simp [preSleep] at hh
    · intro q hh; simp [seqOf] at hh; right; omega
    · intro hh; simp [pendA, hpc] at hh
    · intro hh; simp [pendW, hpc] at hh
    · intro _; left; simp [owing]
  · simp at h

include hq in
theorem wq_wStateLoad (seq : Nat) (hacc : ∀ v, e = .load 0 v → v = s.state)
    (hpc : (s.ths i).pc = .wStateLoad seq) (h : step_wStateLoad c s i (s.ths i) seq e = some s') : WQ s' := by
  unfold step_wStateLoad at h
  split at h
  · rename_i v
    have hv := hacc v rfl
    cases h
    split
    · obtain ⟨⟨i1, i2, i3, i4, i5⟩, io⟩ := inert_wNext v true
      refine wq_setpc_gen s i _ hq ?_ ?_ ?_ ?_ ?_ ?_
      · intro hh; rw [i1] at hh; cases hh
      · intro q hh; rw [i2] at hh; cases hh
      · intro q hh; rw [i3] at hh; cases hh
      · intro hh; simp [pendA, hpc] at hh
      · intro hh; simp [pendW, hpc] at hh
      · intro _; left; exact io rfl
    · rename_i hcond
      have hww : hasWW s.state = true := by
        rw [← hv]
        cases hb : hasWW v with
        | true => rfl
        | false => exact absurd (Or.inr (by simp [hb])) hcond
      refine wq_setpc_gen s i _ hq ?_ ?_ ?_ ?_ ?_ ?_
      · intro hh; simp [wparked] at hh
      · intro q _; right; exact hww
      · intro q hh; left; simpa [seqOf, hpc] using hh
      · intro hh; simp [pendA, hpc] at hh
      · intro hh; simp [pendW, hpc] at hh
      · intro _; left; simp [owing]
  · simp at h

include hq in
theorem wq_wWaitLoad (seq : Nat) (hpc : (s.ths i).pc = .wWaitLoad seq) (h : step_wWaitLoad c s i (s.ths i) seq e = some s') : WQ s' := by
  unfold step_wWaitLoad at h
  split at h
  · rename_i v
    cases h
    split
    · refine wq_setpc_gen s i _ hq ?_ ?_ ?_ ?_ ?_ ?_
      · intro hh; simp [wparked] at hh
      · intro q hh; simp [preSleep] at hh
      · intro q hh; simp [seqOf] at hh
      · intro hh; simp [pendA, hpc] at hh
      · intro hh; simp [pendW, hpc] at hh
      · intro _; left; simp [owing]
    · refine wq_setpc_gen s i _ hq ?_ ?_ ?_ ?_ ?_ ?_
      · intro hh; simp [wparked] at hh
      · intro q hh; left; simpa [preSleep, hpc] using hh
      · intro q hh; left; simpa [seqOf, hpc] using hh
      · intro hh; simp [pendA, hpc] at hh
      · intro hh; simp [pendW, hpc] at hh
      · intro _; left; simp [owing]
  · simp at h

include hq in
theorem wq_wWaitSys (seq : Nat) (hpc : (s.ths i).pc = .wWaitSys seq) (h : step_wWaitSys c s i (s.ths i) seq e = some s') : WQ s' := by
  unfold step_wWaitSys at h
  split at h
  · split at h
    · simp at h
    · split at h
      · split at h
        · rename_i hn
          cases h
          refine wq_setpc_gen s i _ hq ?_ ?_ ?_ ?_ ?_ ?_
          · intro _; right; simp [preSleep, hpc, hn]
          · intro q hh; left; simpa [preSleep, hpc] using hh
          · intro q hh; left; simpa [seqOf, hpc] using hh
          · intro hh; simp [pendA, hpc] at hh
          · intro hh; simp [pendW, hpc] at hh
          · intro _; right; right; simp [preSleep, hpc, hn]
        · simp at h
      · split at h
        · simp at h
        · cases h
          refine wq_setpc_gen s i _ hq ?_ ?_ ?_ ?_ ?_ ?_
          · intro hh; simp [wparked] at hh
          · intro q hh; simp [preSleep] at hh
          · intro q hh; simp [seqOf] at hh
          · intro hh; simp [pendA, hpc] at hh
          · intro hh; simp [pendW, hpc] at hh
          · intro _; left; simp [owing]
  · simp at h

include hq in
theorem wq_wParked (seq : Nat) (hpc : (s.ths i).pc = .wParked seq) (h : step_wParked c s i (s.ths i) seq e = some s') : WQ s' := by
  unfold step_wParked at h
  split at h
  · cases h
    split
    · refine wq_setpc_gen s i _ hq ?_ ?_ ?_ ?_ ?_ ?_
      · intro hh; simp [wparked] at hh
      · intro q hh; left; simpa [preSleep, hpc] using hh
      · intro q hh; left; simpa [seqOf, hpc] using hh
      · intro hh; simp [pendA, hpc] at hh
      · intro hh; simp [pendW, hpc] at hh
      · intro hh; simp [owing, hpc] at hh
    · refine wq_setpc_gen s i _ hq ?_ ?_ ?_ ?_ ?_ ?_
      · intro hh; simp [wparked] at hh
      · intro q hh; simp [preSleep] at hh
      · intro q hh; simp [seqOf] at hh
      · intro hh; simp [pendA, hpc] at hh
      · intro hh; simp [pendW, hpc] at hh
      · intro hh; simp [owing, hpc] at hh
  · simp at h

include hq in
theorem wq_acquired (w : Bool) (hpc : (s.ths i).pc = .acquired w) (h : step_acquired c s i (s.ths i) w e = some s') : WQ s' := by
  unfold step_acquired at h
  split at h
  · split at h
    · cases h
      exact wq_plain s i _ hq (by simp [Inert, wparked, preSleep, seqOf, pendA, pendW]) (by simp [pendW, hpc]) (by simp [owing, hpc])
    · simp at h
  · simp at h

include hq in
theorem wq_hold (w : Bool) (k : Nat) (hpc : (s.ths i).pc = .hold w k) (h : step_hold c s i (s.ths i) w k e = some s') : WQ s' := by
  unfold step_hold at h
  split at h
  · rename_i k'
    cases h
    refine wq_upd s _ i (.hold w k') ?_ ?_ rfl hq ?_ ?_ ?_ ?_ ?_ ?_ ?_
    · intro j hj; simp [setPc, setTh_ths, hj]
    · simp [setPc]
    · intro hb; left; simpa [setPc] using hb
    · intro hh; simp [wparked] at hh
    · intro q hh; simp [preSleep] at hh
    · intro q hh; simp [seqOf] at hh
    · intro hh; simp [pendA, hpc] at hh
    · intro hh; simp [pendW, hpc] at hh
    · intro hh; simp [owing, hpc] at hh
  · cases h
    exact wq_plain s i _ hq (by simp [Inert, wparked, preSleep, seqOf, pendA, pendW]) (by simp [pendW, hpc]) (by simp [owing, hpc])
  · simp at h

include hinv hq in
theorem wq_unlock (w : Bool) (hpc : (s.ths i).pc = .unlock w) (h : step_unlock c s i (s.ths i) w e = some s') : WQ s' := by
  have hlt := hinv.lt32
  have hA : pendW (s.ths i).pc = false := by simp [pendW, hpc]
  have hAa : pendA (s.ths i).pc = false := by simp [pendA, hpc]
  have hO : owing (s.ths i).pc = false := by simp [owing, hpc]
  unfold step_unlock at h
  split at h
  · rename_i v old
    cases w
    · -- reader
      simp only [Bool.false_eq_true, if_false] at h
      split at h
      · simp at h
      rename_i hcond
      simp only [not_or, Decidable.not_not] at hcond
      obtain ⟨ho, hv⟩ := hcond
      cases h
      subst ho hv
      have hR : holdsR (s.ths i) = true := by simp [holdsR, hpc]
      have hnow : ∀ j, holdsW (s.ths j) = false := by
        intro j
        cases hj : holdsW (s.ths j) with
        | false => rfl
        | true =>
          have h0 := hinv.noRW ⟨j, hj⟩
          have := nR_zero_no_reader s hinv h0 i
          rw [hR] at this; cases this
      have hnwl : cnt s.state ≠ WRITE_LOCKED := by
        intro hh; obtain ⟨j, hj⟩ := hinv.wl.mp hh; rw [hnow j] at hj; cases hj
      have hcntR := hinv.cntR hnwl
      have hge1 : 1 ≤ cnt s.state := by
        have : nR s ≠ 0 := by
          intro h0; have := nR_zero_no_reader s hinv h0 i; rw [hR] at this; cases this
        omega
      obtain ⟨i1, i2, i3, i4, i5⟩ := inert_ite_wake ((isUnlocked (wsub s.state 1) && hasWW (wsub s.state 1)) = true) (wsub s.state 1)
      have hbitk := hasWW_sub_one s.state (by simpa [cnt, RW] using hge1) (by simpa [TWO32] using hlt)
      generalize hx : wsub s.state 1 = x at *
      generalize hqq : (if (isUnlocked x && hasWW x) = true then wakeEntry x else Pc.idle) = q at *
      refine wq_upd s _ i q ?_ ?_ ?_ hq ?_ ?_ ?_ ?_ ?_ ?_ ?_
      · intro j hj; unfold rmwState; simp [setTh_ths, hj]
      · unfold rmwState; simp
      · unfold rmwState; simp [setTh]
      · intro hb; left; unfold rmwState; simp; rw [hbitk]; exact hb
      · intro hh; rw [i1] at hh; cases hh
      · intro q' hh; rw [i2] at hh; cases hh
      · intro q' hh; rw [i3] at hh; cases hh
      · intro hh; rw [hAa] at hh; cases hh
      · intro hh; rw [hA] at hh; cases hh
      · intro hh; rw [hO] at hh; cases hh
    · -- writer
      simp only [if_true] at h
      split at h
      · simp at h
      rename_i hcond
      simp only [not_or, Decidable.not_not] at hcond
      obtain ⟨ho, hv⟩ := hcond
      cases h
      subst ho hv
      have hWi : holdsW (s.ths i) = true := by simp [holdsW, hpc]
      have hwl : cnt s.state = WRITE_LOCKED := hinv.wl.mpr ⟨i, hWi⟩
      obtain ⟨i1, i2, i3, i4, i5⟩ := inert_ite_wake ((hasWW (wsub s.state WRITE_LOCKED) || hasRW (wsub s.state WRITE_LOCKED)) = true) (wsub s.state WRITE_LOCKED)
      have hbitk := hasWW_sub_WL s.state (by simpa [cnt, RW, WRITE_LOCKED] using hwl) (by simpa [TWO32] using hlt)
      generalize hx : wsub s.state WRITE_LOCKED = x at *
      generalize hqq : (if (hasWW x || hasRW x) = true then wakeEntry x else Pc.idle) = q at *
      refine wq_upd s _ i q ?_ ?_ ?_ hq ?_ ?_ ?_ ?_ ?_ ?_ ?_
      · intro j hj; unfold rmwState; simp [setTh_ths, hj]
      · unfold rmwState; simp
      · unfold rmwState; simp [setTh]
      · intro hb; left; unfold rmwState; simp; rw [hbitk]; exact hb
      · intro hh; rw [i1] at hh; cases hh
      · intro q' hh; rw [i2] at hh; cases hh
      · intro q' hh; rw [i3] at hh; cases hh
      · intro hh; rw [hAa] at hh; cases hh
      · intro hh; rw [hA] at hh; cases hh
      · intro hh; rw [hO] at hh; cases hh
  · simp at h

include hq in
theorem wq_kCasA (st : Nat) (hpc : (s.ths i).pc = .kCasA st) (h : step_kCasA c s i (s.ths i) st e = some s') : WQ s' := by
  have hA : pendW (s.ths i).pc = false := by simp [pendW, hpc]
  have hAa : pendA (s.ths i).pc = false := by simp [pendA, hpc]
  have hO : owing (s.ths i).pc = false := by simp [owing, hpc]
  unfold step_kCasA at h
  split at h
  · rename_i exp new r
    split at h
    · simp at h
    · cases r with
      | ok =>
        simp only [] at h; cases h
        refine wq_rmw s i _ _ _ _ hq (by simp [wparked]) ?_ ?_ ?_ ?_ ?_ ?_
        · intro q hh; simp [preSleep] at hh
        · intro q hh; simp [seqOf] at hh
        · intro hh; rw [hAa] at hh; cases hh
        · intro hh; rw [hA] at hh; cases hh
        · intro hh; rw [hO] at hh; cases hh
        · intro _; right; simp [pendA]
      | fail o => simp only [] at h; cases h; exact wq_plain s i _ hq (inert_wakeAfterA _) hA hO
      | spur o => simp only [] at h; cases h; exact wq_plain s i _ hq (inert_wakeAfterA _) hA hO
  · simp at h

include hq in
theorem wq_kCasB (st : Nat) (hpc : (s.ths i).pc = .kCasB st) (h : step_kCasB c s i (s.ths i) st e = some s') : WQ s' := by
  have hA : pendW (s.ths i).pc = false := by simp [pendW, hpc]
  have hAa : pendA (s.ths i).pc = false := by simp [pendA, hpc]
  have hO : owing (s.ths i).pc = false := by simp [owing, hpc]
  have hidle : Inert Pc.idle := by simp [Inert, wparked, preSleep, seqOf, pendA, pendW]
  unfold step_kCasB at h
  split at h
  · rename_i exp new r
    split at h
    · simp at h
    · cases r with
      | ok =>
        simp only [] at h; cases h
        refine wq_rmw s i _ _ _ _ hq (by simp [wparked]) ?_ ?_ ?_ ?_ ?_ ?_
        · intro q hh; simp [preSleep] at hh
        · intro q hh; simp [seqOf] at hh
        · intro hh; rw [hAa] at hh; cases hh
        · intro hh; rw [hA] at hh; cases hh
        · intro hh; rw [hO] at hh; cases hh
        · intro _; right; simp [pendA]
      | fail o => simp only [] at h; cases h; exact wq_plain s i _ hq hidle hA hO
      | spur o => simp only [] at h; cases h; exact wq_plain s i _ hq hidle hA hO
  · simp at h

include hq in
theorem wq_kCasC (hpc : (s.ths i).pc = .kCasC) (h : step_kCasC c s i (s.ths i) e = some s') : WQ s' := by
  have hA : pendW (s.ths i).pc = false := by simp [pendW, hpc]
  have hO : owing (s.ths i).pc = false := by simp [owing, hpc]
  have hidle : Inert Pc.idle := by simp [Inert, wparked, preSleep, seqOf, pendA, pendW]
  unfold step_kCasC at h
  split at h
  · rename_i exp new r
    split at h
    · simp at h
    · rename_i hcond
      simp only [not_or, Decidable.not_not, Bool.not_eq_true', Bool.not_eq_false', Bool.not_eq_false] at hcond
      obtain ⟨he, hn, hcc⟩ := hcond
      cases r with
      | ok =>
        simp only [] at h; cases h
        simp only [casConsistent, beq_iff_eq] at hcc
        refine wq_plain_rmw s i _ _ _ _ hq (by simp [Inert, wparked, preSleep, seqOf, pendA, pendW]) hA hO ?_
        intro hb; rw [hcc, he] at hb; simp [hasWW, RW, WW] at hb
      | fail o => simp only [] at h; cases h; exact wq_plain s i _ hq hidle hA hO
      | spur o => simp only [] at h; cases h; exact wq_plain s i _ hq hidle hA hO
  · simp at h

theorem preSleep_seqOf (pc : Pc) (q : Nat) (h : preSleep pc = some q) : seqOf pc = some q := by
  cases pc <;> simp_all [preSleep, seqOf]

theorem parkedOn1_eq (t : Th) : parkedOn t 1 = wparked t.pc := by
  unfold parkedOn wparked; cases t.pc <;> simp

include hq in
theorem wq_kNotify (fb : Bool) (hnw : s.notify + 1 < TWO32)
    (hpc : (s.ths i).pc = .kNotify fb) (h : step_kNotify c s i (s.ths i) fb e = some s') : WQ s' := by
  unfold step_kNotify at h
  split at h
  · split at h
    · simp at h
    · cases h
      have hnot : wadd s.notify 1 = s.notify + 1 := by unfold wadd; exact Nat.mod_eq_of_lt hnw
      have hths : ∀ j, j ≠ i → ((setPc { s with notify := wadd s.notify 1 } i (.kWakeW fb)).ths j) = s.ths j := by
        intro j hj; simp [setPc, setTh_ths, hj]
      have hi' : ((setPc { s with notify := wadd s.notify 1 } i (.kWakeW fb)).ths i).pc = .kWakeW fb := by simp [setPc]
      refine ⟨?_, ?_, ?_⟩
      · intro _
        exact Or.inr (Or.inl ⟨i, by rw [hi']; simp [pendW]⟩)
      · intro j q hj hqn
        exfalso
        have hn' : (setPc { s with notify := wadd s.notify 1 } i (.kWakeW fb)).notify = s.notify + 1 := by simp [setPc, setTh, hnot]
        rw [hn'] at hqn
        by_cases hji : j = i
        · subst hji; rw [hi'] at hj; simp [preSleep] at hj
        · rw [hths j hji] at hj
          have := hq.seqle j q (preSleep_seqOf _ _ hj)
          omega
      · intro j q hj
        have hn' : (setPc { s with notify := wadd s.notify 1 } i (.kWakeW fb)).notify = s.notify + 1 := by simp [setPc, setTh, hnot]
        rw [hn']
        by_cases hji : j = i
        · subst hji; rw [hi'] at hj; simp [seqOf] at hj
        · rw [hths j hji] at hj
          have := hq.seqle j q hj
          omega
  · simp at h

/-! wake-ups -/

theorem wokenPc_facts (c : Cfg) (p : Pc) :
    (wparked (wokenPc c p) = false) ∧
    (∀ q, preSleep (wokenPc c p) = some q → preSleep p = some q) ∧
    (∀ q, seqOf (wokenPc c p) = some q → seqOf p = some q) ∧
    (pendA (wokenPc c p) = pendA p) ∧ (pendW (wokenPc c p) = pendW p) ∧
    (owing p = true → owing (wokenPc c p) = true) ∧
    (wokenPc c (wokenPc c p) = wokenPc c p) := by
  cases p <;> simp [wokenPc, wparked, preSleep, seqOf, pendA, pendW, owing]

theorem wakeOne_notify (c : Cfg) (s : St) (j : Nat) : (wakeOne c s j).notify = s.notify := rfl

theorem wakeAll_notify (c : Cfg) (s : St) (l : List Nat) : (wakeAll c s l).notify = s.notify := by
  induction l generalizing s with
  | nil => rfl
  | cons k rest ih => simp only [wakeAll]; rw [ih]; rfl

theorem wakeAll_pc (c : Cfg) (s : St) (l : List Nat) (k : Nat) :
    ((wakeAll c s l).ths k).pc = (s.ths k).pc ∨ ((wakeAll c s l).ths k).pc = wokenPc c (s.ths k).pc := by
  induction l generalizing s with
  | nil => left; rfl
  | cons j rest ih =>
    simp only [wakeAll]
    have h1 : ((wakeOne c s j).ths k).pc = (s.ths k).pc ∨ ((wakeOne c s j).ths k).pc = wokenPc c (s.ths k).pc := by
      unfold wakeOne
      by_cases hk : k = j
      · subst hk; right; simp
      · left; simp [setTh_ths, hk]
    rcases ih (wakeOne c s j) with h2 | h2 <;> rcases h1 with h1 | h1
    · left; rw [h2, h1]
    · right; rw [h2, h1]
    · right; rw [h2, h1]
    · right; rw [h2, h1]; exact (wokenPc_facts c _).2.2.2.2.2.2

theorem wq_wakeAll (c : Cfg) (s : St) (l : List Nat) (h : WQ s) : WQ (wakeAll c s l) := by
  have hst := wakeAll_state c s l
  have hnt := wakeAll_notify c s l
  have hpcs := wakeAll_pc c s l
  have fwp : ∀ k, wparked ((wakeAll c s l).ths k).pc = true → wparked (s.ths k).pc = true := by
    intro k hk; rcases hpcs k with h1 | h1 <;> rw [h1] at hk
    · exact hk
    · rw [(wokenPc_facts c _).1] at hk; cases hk
  have fpre : ∀ k q, preSleep ((wakeAll c s l).ths k).pc = some q → preSleep (s.ths k).pc = some q := by
    intro k q hk; rcases hpcs k with h1 | h1 <;> rw [h1] at hk
    · exact hk
    · exact (wokenPc_facts c _).2.1 q hk
  have fseq : ∀ k q, seqOf ((wakeAll c s l).ths k).pc = some q → seqOf (s.ths k).pc = some q := by
    intro k q hk; rcases hpcs k with h1 | h1 <;> rw [h1] at hk
    · exact hk
    · exact (wokenPc_facts c _).2.2.1 q hk
  have fA : ∀ k, pendA (s.ths k).pc = true → pendA ((wakeAll c s l).ths k).pc = true := by
    intro k hk; rcases hpcs k with h1 | h1 <;> rw [h1]
    · exact hk
    · rw [(wokenPc_facts c _).2.2.2.1]; exact hk
  have fW : ∀ k, pendW (s.ths k).pc = true → pendW ((wakeAll c s l).ths k).pc = true := by
    intro k hk; rcases hpcs k with h1 | h1 <;> rw [h1]
    · exact hk
    · rw [(wokenPc_facts c _).2.2.2.2.1]; exact hk
  have fO : ∀ k, owing (s.ths k).pc = true → owing ((wakeAll c s l).ths k).pc = true := by
    intro k hk; rcases hpcs k with h1 | h1 <;> rw [h1]
    · exact hk
    · exact (wokenPc_facts c _).2.2.2.2.2.1 hk
  have covA : CoverA s → CoverA (wakeAll c s l) := by
    rintro (hb | ⟨k, hk⟩)
    · left; rw [hst]; exact hb
    · right; exact ⟨k, fA k hk⟩
  have covP : CoverP s → CoverP (wakeAll c s l) := by
    rintro (hb | ⟨k, hk⟩ | ⟨k, hk⟩)
    · left; rw [hst]; exact hb
    · right; left; exact ⟨k, fW k hk⟩
    · right; right; exact ⟨k, fO k hk⟩
  refine ⟨?_, ?_, ?_⟩
  · rintro ⟨j, hj⟩; exact covP (h.park ⟨j, fwp j hj⟩)
  · intro j q hj hqn; rw [hnt] at hqn; exact covA (h.pre j q (fpre j q hj) hqn)
  · intro j q hj; rw [hnt]; exact h.seqle j q (fseq j q hj)

/-- a waker that is not (any more) announcing moves on, while an awake owing writer exists -/
theorem wq_drop (s : St) (i j : Nat) (pc' : Pc) (h : WQ s) (hi : Inert pc')
    (hAi : pendA (s.ths i).pc = false) (hji : j ≠ i) (hoj : owing (s.ths j).pc = true) : WQ (setPc s i pc') := by
  obtain ⟨i1, i2, i3, i4, i5⟩ := hi
  have hths : ∀ k, k ≠ i → (setPc s i pc').ths k = s.ths k := by intro k hk; simp [setPc, setTh_ths, hk]
  have hpi : ((setPc s i pc').ths i).pc = pc' := by simp [setPc]
  have covA : CoverA s → CoverA (setPc s i pc') := by
    rintro (hb | ⟨k, hk⟩)
    · left; simpa [setPc] using hb
    · by_cases hki : k = i
      · subst hki; rw [hAi] at hk; cases hk
      · right; exact ⟨k, by rw [hths k hki]; exact hk⟩
  refine ⟨?_, ?_, ?_⟩
  · intro _; exact Or.inr (Or.inr ⟨j, by rw [hths j hji]; exact hoj⟩)
  · intro k q hk hqn
    have hqn' : q = s.notify := by simpa [setPc] using hqn
    by_cases hki : k = i
    · subst hki; rw [hpi, i2] at hk; cases hk
    · rw [hths k hki] at hk; exact covA (h.pre k q hk hqn')
  · intro k q hk
    have : (setPc s i pc').notify = s.notify := by simp [setPc]
    rw [this]
    by_cases hki : k = i
    · subst hki; rw [hpi, i3] at hk; cases hk
    · rw [hths k hki] at hk; exact h.seqle k q hk

/-- a waker moves on while nobody sleeps on `writer_notify` -/
theorem wq_drop_none (s : St) (i : Nat) (pc' : Pc) (h : WQ s) (hi : Inert pc')
    (hAi : pendA (s.ths i).pc = false) (hnone : ∀ j, wparked (s.ths j).pc = false) : WQ (setPc s i pc') := by
  obtain ⟨i1, i2, i3, i4, i5⟩ := hi
  have hths : ∀ k, k ≠ i → (setPc s i pc').ths k = s.ths k := by intro k hk; simp [setPc, setTh_ths, hk]
  have hpi : ((setPc s i pc').ths i).pc = pc' := by simp [setPc]
  have covA : CoverA s → CoverA (setPc s i pc') := by
    rintro (hb | ⟨k, hk⟩)
    · left; simpa [setPc] using hb
    · by_cases hki : k = i
      · subst hki; rw [hAi] at hk; cases hk
      · right; exact ⟨k, by rw [hths k hki]; exact hk⟩
  refine ⟨?_, ?_, ?_⟩
  · rintro ⟨k, hk⟩
    exfalso
    by_cases hki : k = i
    · subst hki; rw [hpi, i1] at hk; cases hk
    · rw [hths k hki, hnone k] at hk; cases hk
  · intro k q hk hqn
    have hqn' : q = s.notify := by simpa [setPc] using hqn
    by_cases hki : k = i
    · subst hki; rw [hpi, i2] at hk; cases hk
    · rw [hths k hki] at hk; exact covA (h.pre k q hk hqn')
  · intro k q hk
    have : (setPc s i pc').notify = s.notify := by simp [setPc]
    rw [this]
    by_cases hki : k = i
    · subst hki; rw [hpi, i3] at hk; cases hk
    · rw [hths k hki] at hk; exact h.seqle k q hk

include hinv hq in
theorem wq_kWakeW (fb : Bool) (hpc : (s.ths i).pc = .kWakeW fb) (h : step_kWakeW c s i (s.ths i) fb e = some s') : WQ s' := by
  have hAi : pendA (s.ths i).pc = false := by simp [pendA, hpc]
  unfold step_kWakeW at h
  split at h
  · rename_i num woken
    split at h
    · simp at h
    · simp only [] at h
      split at h
      · split at h
        · rename_i hemp
          cases h
          have hnone : ∀ j, wparked (s.ths j).pc = false := by
            intro j
            cases hw : wparked (s.ths j).pc with
            | false => rfl
            | true =>
              exfalso
              have hjn : j < s.n := by
                by_cases hh : j < s.n
                · exact hh
                · have := hinv.outside j (by omega); rw [this] at hw; simp [wparked] at hw
              have hmem : j ∈ parkedList s 1 := (parkedList_mem s 1 j).mpr ⟨hjn, by rw [parkedOn1_eq]; exact hw⟩
              have : parkedList s 1 = [] := by simpa using hemp
              rw [this] at hmem; cases hmem
          refine wq_drop_none s i _ hq ?_ hAi hnone
          split <;> simp [Inert, wparked, preSleep, seqOf, pendA, pendW]
        · simp at h
      · rename_i j
        split at h
        · rename_i hmem
          cases h
          have hmem' : j ∈ parkedList s 1 := by simpa using hmem
          obtain ⟨hjn, hpj⟩ := (parkedList_mem s 1 j).mp hmem'
          rw [parkedOn1_eq] at hpj
          have hji : j ≠ i := by
            intro hh; subst hh; rw [hpc] at hpj; simp [wparked] at hpj
          have h2 := wq_wakeAll c s [j] hq
          have hpi2 : ((wakeAll c s [j]).ths i).pc = .kWakeW fb := by
            rcases wakeAll_pc c s [j] i with h1 | h1 <;> rw [h1, hpc]
            simp [wokenPc]
          have hpj2 : owing ((wakeAll c s [j]).ths j).pc = true := by
            have : ((wakeAll c s [j]).ths j).pc = wokenPc c (s.ths j).pc := by simp [wakeAll, wakeOne]
            rw [this]
            cases hp : (s.ths j).pc <;> simp_all [wparked, wokenPc, owing]
          exact wq_drop (wakeAll c s [j]) i j .idle h2 (by simp [Inert, wparked, preSleep, seqOf, pendA, pendW])
            (by rw [hpi2]; simp [pendA]) hji hpj2
        · simp at h
      · simp at h
  · simp at h

include hq in
theorem wq_kWakeR (hpc : (s.ths i).pc = .kWakeR) (h : step_kWakeR c s i (s.ths i) e = some s') : WQ s' := by
  unfold step_kWakeR at h
  split at h
  · rename_i num woken
    split at h
    · simp at h
    · simp only [] at h
      split at h
      · simp at h
      · cases h
        have h2 := wq_wakeAll c s woken hq
        have hpi2 : ((wakeAll c s woken).ths i).pc = .kWakeR := by
          rcases wakeAll_pc c s woken i with h1 | h1 <;> rw [h1, hpc]
          simp [wokenPc]
        exact wq_plain (wakeAll c s woken) i .idle h2 (by simp [Inert, wparked, preSleep, seqOf, pendA, pendW])
          (by rw [hpi2]; simp [pendW]) (by rw [hpi2]; simp [owing])
  · simp at h

include hq in
theorem wq_idle (hpc : (s.ths i).pc = .idle) (h : step_idle c s i (s.ths i) e = some s') : WQ s' := by
  unfold step_idle at h
  split at h
  · rename_i k
    split at h
    · split at h
      · simp at h
      · cases h
        exact wq_plain s i _ hq (by cases k <;> simp [Inert, wparked, preSleep, seqOf, pendA, pendW]) (by simp [pendW, hpc]) (by simp [owing, hpc])
    · simp at h
  · simp at h

/-- **every step of the restricted relation preserves the writer-queue invariant** -/
theorem step_wq (c : Cfg) (s s' : St) (i : Nat) (e : Ev) (h : stepW c s i e = some s') (hinv : RInv s) (hq : WQ s) : WQ s' := by
  have hstep := stepW_step c s s' i e h
  unfold step at hstep
  split at hstep
  · simp at hstep
  · rename_i hi
    simp only [] at hstep
    cases hpc : (s.ths i).pc <;> simp only [hpc] at hstep
    case idle => exact wq_idle c s s' i e hq hpc hstep
    case rLoad => exact wq_rLoad c s s' i e hq hpc hstep
    case rFastCas st => exact wq_rFastCas c s s' i e hinv hq st hpc hstep
    case rSpin n => exact wq_rSpin c s s' i e hq n hpc hstep
    case rCas st => exact wq_rCas c s s' i e hinv hq st hpc hstep
    case rSetWait st => exact wq_rSetWait c s s' i e hinv hq st hpc hstep
    case rWaitLoad ex => exact wq_rWaitLoad c s s' i e hq ex hpc hstep
    case rWaitSys ex => exact wq_rWaitSys c s s' i e hq ex hpc hstep
    case rParked ex => exact wq_rParked c s s' i e hq ex hpc hstep
    case tLoad w => exact wq_tLoad c s s' i e hq w hpc hstep
    case tCas w st => exact wq_tCas c s s' i e hinv hq w st hpc hstep
    case tryFailed => exact wq_tryFailed c s s' i e hq hpc hstep
    case wFastCas => exact wq_wFastCas c s s' i e hinv hq hpc hstep
    case wSpin n oww => exact wq_wSpin c s s' i e hq n oww hpc hstep
    case wCas st oww => exact wq_wCas c s s' i e hinv hq st oww hpc hstep
    case wSetWait st oww => exact wq_wSetWait c s s' i e hinv hq st oww hpc hstep
    case wSeqLoad =>
      refine wq_wSeqLoad c s s' i e hq ?_ hpc hstep
      intro v hv; subst hv
      unfold stepW at h; simp only [hpc] at h
      split at h
      · assumption
      · simp at h
    case wStateLoad seq =>
      refine wq_wStateLoad c s s' i e hq seq ?_ hpc hstep
      intro v hv; subst hv
      unfold stepW at h; simp only [hpc] at h
      split at h
      · assumption
      · simp at h
    case wWaitLoad seq => exact wq_wWaitLoad c s s' i e hq seq hpc hstep
    case wWaitSys seq => exact wq_wWaitSys c s s' i e hq seq hpc hstep
    case wParked seq => exact wq_wParked c s s' i e hq seq hpc hstep
    case acquired w => exact wq_acquired c s s' i e hq w hpc hstep
    case hold w k => exact wq_hold c s s' i e hq w k hpc hstep
    case unlock w => exact wq_unlock c s s' i e hinv hq w hpc hstep
    case kCasA st => exact wq_kCasA c s s' i e hq st hpc hstep
    case kCasB st => exact wq_kCasB c s s' i e hq st hpc hstep
    case kNotify fb =>
      refine wq_kNotify c s s' i e hq fb ?_ hpc hstep
      unfold stepW at h; simp only [hpc] at h
      split at h
      · assumption
      · simp at h
    case kWakeW fb => exact wq_kWakeW c s s' i e hinv hq fb hpc hstep
    case kCasC => exact wq_kCasC c s s' i e hq hpc hstep
    case kWakeR => exact wq_kWakeR c s s' i e hq hpc hstep
    case panicked => simp at hstep

end TinyVerif.RwLock
