import TinyVerif.Proofs.RwWake
set_option maxRecDepth 4000
set_option linter.unusedSimpArgs false
set_option linter.unusedVariables false
namespace TinyVerif.RwLock

/-! ### writer queue: no lost wake-up, for executions in which the two loads that implement the
"sample the sequence, then re-check the state" hand-shake observe current values (sequentially consistent
for those two sites) and `writer_notify` does not wrap.

A writer parked on `writer_notify` is always *covered*: the writers-waiting bit is set in `state` (so whoever
makes the word unlocked runs `wake_writer_or_readers`), or a `wake_writer` is in flight, or an awake writer exists
that carries `other_writers_waiting` and will put the bit back when it takes the lock. -/

def wparked (pc : Pc) : Bool := match pc with | .wParked _ => true | _ => false
def pendA (pc : Pc) : Bool := match pc with | .kNotify _ => true | _ => false
def pendW (pc : Pc) : Bool := match pc with | .kNotify _ | .kWakeW _ => true | _ => false
def owing (pc : Pc) : Bool :=
  match pc with
  | .wSpin _ true | .wCas _ true | .wSetWait _ true | .wSeqLoad | .wStateLoad _ | .wWaitLoad _ | .wWaitSys _ => true
  | _ => false
/-- the sampled sequence number a thread carries -/
def seqOf (pc : Pc) : Option Nat :=
  match pc with
  | .wStateLoad q | .wWaitLoad q | .wWaitSys q | .wParked q => some q
  | _ => none
/-- about to sleep, or asleep, on `writer_notify == q` -/
def preSleep (pc : Pc) : Option Nat :=
  match pc with
  | .wWaitLoad q | .wWaitSys q | .wParked q => some q
  | _ => none

def CoverA (s : St) : Prop := hasWW s.state = true ∨ ∃ k, pendA (s.ths k).pc = true
def CoverP (s : St) : Prop :=
  hasWW s.state = true ∨ (∃ k, pendW (s.ths k).pc = true) ∨ (∃ k, owing (s.ths k).pc = true)

theorem CoverA.toP {s : St} (h : CoverA s) : CoverP s := by
  rcases h with h | ⟨k, hk⟩
  · exact Or.inl h
  · refine Or.inr (Or.inl ⟨k, ?_⟩)
    cases hp : (s.ths k).pc <;> simp_all [pendA, pendW]

structure WQ (s : St) : Prop where
  park : (∃ i, wparked (s.ths i).pc = true) → CoverP s
  pre : ∀ i q, preSleep (s.ths i).pc = some q → q = s.notify → CoverA s
  seqle : ∀ i q, seqOf (s.ths i).pc = some q → q ≤ s.notify

theorem init_wq (progs : List (List Txn)) : WQ (init progs) := by
  refine ⟨?_, ?_, ?_⟩
  · rintro ⟨i, hi⟩; simp [init, wparked] at hi
  · intro i q h; simp [init, preSleep] at h
  · intro i q h; simp [init, seqOf] at h

/-- generic step of thread `i` that leaves `writer_notify` alone and wakes nobody -/
theorem wq_upd (s s' : St) (i : Nat) (pc' : Pc)
    (hths : ∀ j, j ≠ i → s'.ths j = s.ths j) (hpc : (s'.ths i).pc = pc') (hnot : s'.notify = s.notify)
    (h : WQ s)
    (hbit : hasWW s.state = true → hasWW s'.state = true ∨ pendA pc' = true)
    (hpark : wparked pc' = true → wparked (s.ths i).pc = true ∨ preSleep (s.ths i).pc = some s.notify)
    (hpre : ∀ q, preSleep pc' = some q → preSleep (s.ths i).pc = some q ∨ hasWW s'.state = true)
    (hseq : ∀ q, seqOf pc' = some q → seqOf (s.ths i).pc = some q ∨ q ≤ s.notify)
    (hA : pendA (s.ths i).pc = true → pendA pc' = true)
    (hW : pendW (s.ths i).pc = true → pendW pc' = true)
    (hO : owing (s.ths i).pc = true → owing pc' = true ∨ hasWW s'.state = true ∨ preSleep (s.ths i).pc = some s.notify) :
    WQ s' := by
  -- transfer of the two covers
  have covA : CoverA s → CoverA s' := by
    rintro (hb | ⟨k, hk⟩)
    · rcases hbit hb with h1 | h1
      · exact Or.inl h1
      · exact Or.inr ⟨i, by rw [hpc]; exact h1⟩
    · by_cases hki : k = i
      · subst hki; exact Or.inr ⟨k, by rw [hpc]; exact hA hk⟩
      · exact Or.inr ⟨k, by rw [hths k hki]; exact hk⟩
  have covP : CoverP s → CoverP s' := by
    rintro (hb | ⟨k, hk⟩ | ⟨k, hk⟩)
    · rcases hbit hb with h1 | h1
      · exact Or.inl h1
      · refine Or.inr (Or.inl ⟨i, ?_⟩); rw [hpc]; cases hp : pc' <;> simp_all [pendA, pendW]
    · by_cases hki : k = i
      · subst hki; exact Or.inr (Or.inl ⟨k, by rw [hpc]; exact hW hk⟩)
      · exact Or.inr (Or.inl ⟨k, by rw [hths k hki]; exact hk⟩)
    · by_cases hki : k = i
      · subst hki
        rcases hO hk with h1 | h1 | h1
        · exact Or.inr (Or.inr ⟨k, by rw [hpc]; exact h1⟩)
        · exact Or.inl h1
        · exact (covA (h.pre k s.notify h1 rfl)).toP
      · exact Or.inr (Or.inr ⟨k, by rw [hths k hki]; exact hk⟩)
  refine ⟨?_, ?_, ?_⟩
  · rintro ⟨j, hj⟩
    by_cases hji : j = i
    · subst hji
      rw [hpc] at hj
      rcases hpark hj with h1 | h1
      · exact covP (h.park ⟨j, h1⟩)
      · exact (covA (h.pre j s.notify h1 rfl)).toP
    · rw [hths j hji] at hj
      exact covP (h.park ⟨j, hj⟩)
  · intro j q hq hqn
    rw [hnot] at hqn
    by_cases hji : j = i
    · subst hji
      rw [hpc] at hq
      rcases hpre q hq with h1 | h1
      · exact covA (h.pre j q h1 hqn)
      · exact Or.inl h1
    · rw [hths j hji] at hq
      exact covA (h.pre j q hq hqn)
  · intro j q hq
    rw [hnot]
    by_cases hji : j = i
    · subst hji
      rw [hpc] at hq
      rcases hseq q hq with h1 | h1
      · exact h.seqle j q h1
      · exact h1
    · rw [hths j hji] at hq
      exact h.seqle j q hq


/-! arithmetic: which RMWs keep the writers-waiting bit -/

theorem hasWW_add_WL (x : Nat) (h : x % 1073741824 = 0) : hasWW (x + WRITE_LOCKED) = hasWW x := by
  simp only [hasWW, WW, WRITE_LOCKED]
  have : (x + 1073741823) / 2147483648 = x / 2147483648 := by omega
  rw [this]

theorem hasWW_add_one (x : Nat) (h : x % 1073741824 < 1073741822) : hasWW (x + 1) = hasWW x := by
  simp only [hasWW, WW]
  have : (x + 1) / 2147483648 = x / 2147483648 := by omega
  rw [this]

theorem hasWW_orRW (x : Nat) (hx : x < 4294967296) : hasWW (orRW x) = hasWW x := by
  unfold orRW
  split
  · rfl
  · rename_i h
    simp only [hasRW, hasWW, RW, WW, beq_iff_eq, Bool.not_eq_true, beq_eq_false_iff_ne, ne_eq] at *
    have : (x + 1073741824) / 2147483648 = x / 2147483648 := by omega
    rw [this]

theorem hasWW_orWW (x : Nat) : hasWW (orWW x) = true := by
  unfold orWW
  split
  · assumption
  · rename_i h
    simp only [hasWW, WW, beq_iff_eq, Bool.not_eq_true, beq_eq_false_iff_ne, ne_eq] at *
    omega

theorem hasWW_orWL (x : Nat) (o : Bool) (h : x % 1073741824 = 0) : hasWW (orWL x o) = (hasWW x || o) := by
  unfold orWL
  simp only [cnt, RW, h, Nat.sub_zero]
  cases o
  · simp only [Bool.false_eq_true, if_false, Bool.or_false]; exact hasWW_add_WL x h
  · simp only [if_true, Bool.or_true]; exact hasWW_orWW _

theorem hasWW_sub_one (x : Nat) (h : 1 ≤ x % 1073741824) (hlt : x < 4294967296) : hasWW (wsub x 1) = hasWW x := by
  have : wsub x 1 = x - 1 := by unfold wsub; simp only [TWO32]; omega
  rw [this]
  simp only [hasWW, WW]
  have : (x - 1) / 2147483648 = x / 2147483648 := by omega
  rw [this]

theorem hasWW_sub_WL (x : Nat) (h : x % 1073741824 = 1073741823) (hlt : x < 4294967296) :
    hasWW (wsub x WRITE_LOCKED) = hasWW x := by
  have : wsub x WRITE_LOCKED = x - 1073741823 := by unfold wsub; simp only [TWO32, WRITE_LOCKED]; omega
  rw [this]
  simp only [hasWW, WW]
  have : (x - 1073741823) / 2147483648 = x / 2147483648 := by omega
  rw [this]

theorem not_hasWW_of_lockable (x : Nat) (h : isReadLockable x = true) : hasWW x = false := by
  obtain ⟨_, _, h3⟩ := (readLockable_iff x).mp h
  simp only [hasWW, WW, beq_eq_false_iff_ne, ne_eq]; exact h3

/-- the restricted step: the Acquire load of `writer_notify` and the following re-read of `state` in
`write_contended` observe current values; `writer_notify` does not wrap -/
def stepW (c : Cfg) (s : St) (i : Nat) (e : Ev) : Option St :=
  match (s.ths i).pc, e with
  | .wSeqLoad, .load 1 v => if v = s.notify then step c s i e else none
  | .wStateLoad _, .load 0 v => if v = s.state then step c s i e else none
  | .kNotify _, _ => if s.notify + 1 < TWO32 then step c s i e else none
  | _, _ => step c s i e

theorem stepW_step (c : Cfg) (s s' : St) (i : Nat) (e : Ev) (h : stepW c s i e = some s') : step c s i e = some s' := by
  unfold stepW at h
  split at h
  · split at h
    · exact h
    · simp at h
  · split at h
    · exact h
    · simp at h
  · split at h
    · exact h
    · simp at h
  · exact h

def runW (c : Cfg) : St → List (Nat × Ev) → Option St
  | s, [] => some s
  | s, (i, e) :: rest =>
      match stepW c s i e with
      | some s' => runW c s' rest
      | none => none


/-! ### per-step preservation -/

theorem wq_setpc (s : St) (i : Nat) (pc' : Pc) (h : WQ s)
    (c1 : wparked pc' = false)
    (c2 : ∀ q, preSleep pc' = some q → preSleep (s.ths i).pc = some q)
    (c3 : ∀ q, seqOf pc' = some q → seqOf (s.ths i).pc = some q)
    (cA : pendA (s.ths i).pc = true → pendA pc' = true)
    (cW : pendW (s.ths i).pc = true → pendW pc' = true)
    (cO : owing (s.ths i).pc = true → owing pc' = true) : WQ (setPc s i pc') := by
  refine wq_upd s _ i pc' ?_ ?_ rfl h ?_ ?_ ?_ ?_ cA cW ?_
  · intro j hj; simp [setPc, setTh_ths, hj]
  · simp [setPc]
  · intro hb; left; simpa [setPc] using hb
  · intro hh; rw [c1] at hh; cases hh
  · intro q hq; exact Or.inl (c2 q hq)
  · intro q hq; exact Or.inl (c3 q hq)
  · intro ho; exact Or.inl (cO ho)

theorem wq_rmw (s : St) (i : Nat) (acq rel : Bool) (new : Nat) (pc' : Pc) (h : WQ s)
    (c1 : wparked pc' = false)
    (c2 : ∀ q, preSleep pc' = some q → preSleep (s.ths i).pc = some q)
    (c3 : ∀ q, seqOf pc' = some q → seqOf (s.ths i).pc = some q)
    (cA : pendA (s.ths i).pc = true → pendA pc' = true)
    (cW : pendW (s.ths i).pc = true → pendW pc' = true)
    (cO : owing (s.ths i).pc = true → owing pc' = true ∨ hasWW new = true)
    (hbit : hasWW s.state = true → hasWW new = true ∨ pendA pc' = true) : WQ (rmwState s i acq rel new pc') := by
  refine wq_upd s _ i pc' ?_ ?_ rfl h ?_ ?_ ?_ ?_ cA cW ?_
  · intro j hj; simp [rmwState, setTh_ths, hj]
  · simp [rmwState]
  · intro hb; simpa [rmwState] using hbit hb
  · intro hh; rw [c1] at hh; cases hh
  · intro q hq; exact Or.inl (c2 q hq)
  · intro q hq; exact Or.inl (c3 q hq)
  · intro ho
    rcases cO ho with h1 | h1
    · exact Or.inl h1
    · right; left; simpa [rmwState] using h1

/-- facts about the computed continuations -/
def Inert (pc : Pc) : Prop :=
  wparked pc = false ∧ preSleep pc = none ∧ seqOf pc = none ∧ pendA pc = false ∧ pendW pc = false

theorem inert_rNext (v : Nat) : Inert (rNext v) ∧ owing (rNext v) = false := by
  unfold rNext Inert; repeat' split
  all_goals simp [wparked, preSleep, seqOf, pendA, pendW, owing]
theorem inert_wNext (v : Nat) (o : Bool) : Inert (wNext v o) ∧ (o = true → owing (wNext v o) = true) := by
  unfold wNext Inert; repeat' split
  all_goals (refine ⟨by simp [wparked, preSleep, seqOf, pendA, pendW], ?_⟩; intro ho; subst ho; simp [owing])
theorem inert_wakeEntry (v : Nat) : Inert (wakeEntry v) := by
  unfold wakeEntry Inert; repeat' split
  all_goals simp [wparked, preSleep, seqOf, pendA, pendW]
theorem inert_wakeAfterA (v : Nat) : Inert (wakeAfterA v) := by
  unfold wakeAfterA Inert; repeat' split
  all_goals simp [wparked, preSleep, seqOf, pendA, pendW]
theorem inert_ite_wake (b : Prop) [Decidable b] (x : Nat) : Inert (if b then wakeEntry x else Pc.idle) := by
  split
  · exact inert_wakeEntry _
  · simp [Inert, wparked, preSleep, seqOf, pendA, pendW]
theorem inert_tNext (w : Bool) (b : Prop) [Decidable b] (o : Nat) : Inert (if b then Pc.tCas w o else Pc.tryFailed) := by
  split <;> simp [Inert, wparked, preSleep, seqOf, pendA, pendW]

/-- pc-only move of a thread that is neither a pending waker nor owing, to an inert pc -/
theorem wq_plain (s : St) (i : Nat) (pc' : Pc) (h : WQ s) (hi : Inert pc')
    (hA : pendW (s.ths i).pc = false) (hO : owing (s.ths i).pc = false) : WQ (setPc s i pc') := by
  obtain ⟨i1, i2, i3, i4, i5⟩ := hi
  have hA' : pendA (s.ths i).pc = false := by
    cases hp : (s.ths i).pc <;> simp_all [pendA, pendW]
  refine wq_setpc s i pc' h i1 ?_ ?_ ?_ ?_ ?_
  · intro q hq; rw [i2] at hq; cases hq
  · intro q hq; rw [i3] at hq; cases hq
  · intro hh; rw [hA'] at hh; cases hh
  · intro hh; rw [hA] at hh; cases hh
  · intro hh; rw [hO] at hh; cases hh

theorem wq_plain_rmw (s : St) (i : Nat) (acq rel : Bool) (new : Nat) (pc' : Pc) (h : WQ s) (hi : Inert pc')
    (hA : pendW (s.ths i).pc = false) (hO : owing (s.ths i).pc = false)
    (hbit : hasWW s.state = true → hasWW new = true) : WQ (rmwState s i acq rel new pc') := by
  obtain ⟨i1, i2, i3, i4, i5⟩ := hi
  have hA' : pendA (s.ths i).pc = false := by
    cases hp : (s.ths i).pc <;> simp_all [pendA, pendW]
  refine wq_rmw s i acq rel new pc' h i1 ?_ ?_ ?_ ?_ ?_ ?_
  · intro q hq; rw [i2] at hq; cases hq
  · intro q hq; rw [i3] at hq; cases hq
  · intro hh; rw [hA'] at hh; cases hh
  · intro hh; rw [hA] at hh; cases hh
  · intro hh; rw [hO] at hh; cases hh
  · intro hb; exact Or.inl (hbit hb)

macro "inert_tac" : tactic => `(tactic|
  first
  | exact (inert_rNext _).1
  | exact (inert_wNext _ _).1
  | exact inert_wakeEntry _
  | exact inert_wakeAfterA _
  | exact inert_tNext _ _ _
  | (simp [Inert, wparked, preSleep, seqOf, pendA, pendW]; done)
  | (split <;> first
      | exact (inert_rNext _).1
      | exact (inert_wNext _ _).1
      | (simp_all [Inert, wparked, preSleep, seqOf, pendA, pendW]; done)))

variable (c : Cfg) (s s' : St) (i : Nat) (e : Ev) (hi : i < s.n) (hinv : RInv s) (hq : WQ s)

include hq in
theorem wq_rLoad  (hpc : (s.ths i).pc = .rLoad) (h : step_rLoad c s i (s.ths i)  e = some s') : WQ s' := by
  unfold step_rLoad at h
  split at h
  · cases h
    exact wq_plain s i _ hq (by inert_tac) (by simp [pendW, hpc]) (by simp [owing, hpc])
  · simp at h

include hinv hq in
theorem wq_rFastCas (st : Nat) (hpc : (s.ths i).pc = .rFastCas st) (h : step_rFastCas c s i (s.ths i) st e = some s') : WQ s' := by
  have hlt := hinv.lt32
  have hA : pendW (s.ths i).pc = false := by simp [pendW, hpc]
  unfold step_rFastCas at h
  split at h
  · rename_i exp new r
    split at h
    · simp at h
    · rename_i hcond
      simp only [not_or, Decidable.not_not, Bool.not_eq_true', Bool.not_eq_false', Bool.not_eq_false] at hcond
      obtain ⟨he, hn, hcc⟩ := hcond
      have hwf := hinv.pcwf i; rw [hpc] at hwf; simp only [PcWf] at hwf
      cases r with
      | ok =>
        simp only [] at h; cases h
        simp only [casConsistent, beq_iff_eq] at hcc
        subst he hn
        rw [← hcc] at hwf
        refine wq_plain_rmw s i _ _ _ _ hq (by inert_tac) hA (by simp [owing, hpc]) ?_
        intro hb; rw [not_hasWW_of_lockable _ hwf] at hb; cases hb
      | fail o => simp only [] at h; cases h; exact wq_plain s i _ hq (by inert_tac) hA (by simp [owing, hpc])
      | spur o => simp only [] at h; cases h; exact wq_plain s i _ hq (by inert_tac) hA (by simp [owing, hpc])
  · simp at h

include hq in
theorem wq_rSpin (n : Nat) (hpc : (s.ths i).pc = .rSpin n) (h : step_rSpin c s i (s.ths i) n e = some s') : WQ s' := by
  unfold step_rSpin at h
  split at h
  · cases h
    exact wq_plain s i _ hq (by inert_tac) (by simp [pendW, hpc]) (by simp [owing, hpc])
  · simp at h

include hinv hq in
theorem wq_rCas (st : Nat) (hpc : (s.ths i).pc = .rCas st) (h : step_rCas c s i (s.ths i) st e = some s') : WQ s' := by
  have hlt := hinv.lt32
  have hA : pendW (s.ths i).pc = false := by simp [pendW, hpc]
  unfold step_rCas at h
  split at h
  · rename_i exp new r
    split at h
    · simp at h
    · rename_i hcond
      simp only [not_or, Decidable.not_not, Bool.not_eq_true', Bool.not_eq_false', Bool.not_eq_false] at hcond
      obtain ⟨he, hn, hcc⟩ := hcond
      have hwf := hinv.pcwf i; rw [hpc] at hwf; simp only [PcWf] at hwf
      cases r with
      | ok =>
        simp only [] at h; cases h
        simp only [casConsistent, beq_iff_eq] at hcc
        subst he hn
        rw [← hcc] at hwf
        refine wq_plain_rmw s i _ _ _ _ hq (by inert_tac) hA (by simp [owing, hpc]) ?_
        intro hb; rw [not_hasWW_of_lockable _ hwf] at hb; cases hb
      | fail o => simp only [] at h; cases h; exact wq_plain s i _ hq (by inert_tac) hA (by simp [owing, hpc])
      | spur o => simp only [] at h; cases h; exact wq_plain s i _ hq (by inert_tac) hA (by simp [owing, hpc])
  · simp at h

include hinv hq in
theorem wq_rSetWait (st : Nat) (hpc : (s.ths i).pc = .rSetWait st) (h : step_rSetWait c s i (s.ths i) st e = some s') : WQ s' := by
  have hlt := hinv.lt32
  have hA : pendW (s.ths i).pc = false := by simp [pendW, hpc]
  unfold step_rSetWait at h
  split at h
  · rename_i exp new r
    split at h
    · simp at h
    · rename_i hcond
      simp only [not_or, Decidable.not_not, Bool.not_eq_true', Bool.not_eq_false', Bool.not_eq_false] at hcond
      obtain ⟨he, hn, hcc⟩ := hcond
      cases r with
      | ok =>
        simp only [] at h; cases h
        simp only [casConsistent, beq_iff_eq] at hcc
        subst he hn
        refine wq_plain_rmw s i _ _ _ _ hq (by inert_tac) hA (by simp [owing, hpc]) ?_
        intro hb; rw [← hcc, hasWW_orRW _ (by simpa [TWO32] using hlt)]; exact hb
      | fail o => simp only [] at h; cases h; exact wq_plain s i _ hq (by inert_tac) hA (by simp [owing, hpc])
      | spur o => simp only [] at h; cases h; exact wq_plain s i _ hq (by inert_tac) hA (by simp [owing, hpc])
  · simp at h

include hq in
theorem wq_rWaitLoad (ex : Nat) (hpc : (s.ths i).pc = .rWaitLoad ex) (h : step_rWaitLoad c s i (s.ths i) ex e = some s') : WQ s' := by
  unfold step_rWaitLoad at h
  split at h
  · cases h
    exact wq_plain s i _ hq (by inert_tac) (by simp [pendW, hpc]) (by simp [owing, hpc])
  · simp at h

include hq in
theorem wq_rWaitSys (ex : Nat) (hpc : (s.ths i).pc = .rWaitSys ex) (h : step_rWaitSys c s i (s.ths i) ex e = some s') : WQ s' := by
  have hA : pendW (s.ths i).pc = false := by simp [pendW, hpc]
  have hO : owing (s.ths i).pc = false := by simp [owing, hpc]
  unfold step_rWaitSys at h
  split at h
  · split at h
    · simp at h
    · split at h
      · split at h
        · cases h; exact wq_plain s i _ hq (by inert_tac) hA hO
        · simp at h
      · split at h
        · simp at h
        · cases h; exact wq_plain s i _ hq (by inert_tac) hA hO
  · simp at h

include hq in
theorem wq_rParked (ex : Nat) (hpc : (s.ths i).pc = .rParked ex) (h : step_rParked c s i (s.ths i) ex e = some s') : WQ s' := by
  unfold step_rParked at h
  split at h
  · cases h
    exact wq_plain s i _ hq (by inert_tac) (by simp [pendW, hpc]) (by simp [owing, hpc])
  · simp at h

include hq in
theorem wq_tLoad (w : Bool) (hpc : (s.ths i).pc = .tLoad w) (h : step_tLoad c s i (s.ths i) w e = some s') : WQ s' := by
  unfold step_tLoad at h
  split at h
  · cases h
    exact wq_plain s i _ hq (inert_tNext _ _ _) (by simp [pendW, hpc]) (by simp [owing, hpc])
  · simp at h

include hinv hq in
theorem wq_tCas (w : Bool) (st : Nat) (hpc : (s.ths i).pc = .tCas w st) (h : step_tCas c s i (s.ths i) w st e = some s') : WQ s' := by
  have hA : pendW (s.ths i).pc = false := by simp [pendW, hpc]
  have hO : owing (s.ths i).pc = false := by simp [owing, hpc]
  have hwf := hinv.pcwf i; rw [hpc] at hwf; simp only [PcWf] at hwf
  unfold step_tCas at h
  cases w
  all_goals
    simp only [Bool.false_eq_true, if_false, if_true] at h hwf
    split at h
    · rename_i exp new r
      split at h
      · simp at h
      · rename_i hcond
        simp only [not_or, Decidable.not_not, Bool.not_eq_true', Bool.not_eq_false', Bool.not_eq_false] at hcond
        obtain ⟨he, hn, hcc⟩ := hcond
        cases r with
        | ok =>
          simp only [] at h; cases h
          simp only [casConsistent, beq_iff_eq] at hcc
          subst he hn
          rw [← hcc] at hwf
          refine wq_plain_rmw s i _ _ _ _ hq (by inert_tac) hA hO ?_
          first
          | (intro hb; rw [not_hasWW_of_lockable _ hwf] at hb; cases hb)
          | (intro hb; rw [← hcc, hasWW_add_WL _ ((unlocked_iff _).mp hwf)]; exact hb)
        | fail o => simp only [] at h; cases h; exact wq_plain s i _ hq (inert_tNext _ _ _) hA hO
        | spur o => simp only [] at h; cases h; exact wq_plain s i _ hq (inert_tNext _ _ _) hA hO
    · simp at h

include hq in
theorem wq_tryFailed (hpc : (s.ths i).pc = .tryFailed) (h : step_tryFailed c s i (s.ths i) e = some s') : WQ s' := by
  unfold step_tryFailed at h
  split at h
  · cases h
    refine wq_upd s _ i .idle ?_ ?_ rfl hq ?_ ?_ ?_ ?_ ?_ ?_ ?_
    · intro j hj; simp [setTh_ths, hj]
    · simp
    · intro hb; left; simpa using hb
    · intro hh; simp [wparked] at hh
    · intro q hh; simp [preSleep] at hh
    · intro q hh; simp [seqOf] at hh
    · intro hh; simp [pendA, hpc] at hh
    · intro hh; simp [pendW, hpc] at hh
    · intro hh; simp [owing, hpc] at hh
  · simp at h

include hinv hq in
theorem wq_wFastCas  (hpc : (s.ths i).pc = .wFastCas) (h : step_wFastCas c s i (s.ths i)  e = some s') : WQ s' := by
  have hlt := hinv.lt32
  have hA : pendW (s.ths i).pc = false := by simp [pendW, hpc]
  unfold step_wFastCas at h
  split at h
  · rename_i exp new r
    split at h
    · simp at h
    · rename_i hcond
      simp only [not_or, Decidable.not_not, Bool.not_eq_true', Bool.not_eq_false', Bool.not_eq_false] at hcond
      obtain ⟨he, hn, hcc⟩ := hcond
      cases r with
      | ok =>
        simp only [] at h; cases h
        simp only [casConsistent, beq_iff_eq] at hcc
        subst he hn
        refine wq_plain_rmw s i _ _ _ _ hq (by inert_tac) hA (by simp [owing, hpc]) ?_
        intro hb; rw [hcc] at hb; simp [hasWW] at hb
      | fail o => simp only [] at h; cases h; exact wq_plain s i _ hq (by inert_tac) hA (by simp [owing, hpc])
      | spur o => simp only [] at h; cases h; exact wq_plain s i _ hq (by inert_tac) hA (by simp [owing, hpc])
  · simp at h

include hq in
theorem wq_wSpin (n : Nat) (oww : Bool) (hpc : (s.ths i).pc = .wSpin n oww) (h : step_wSpin c s i (s.ths i) n oww e = some s') : WQ s' := by
  unfold step_wSpin at h
  split at h
  · rename_i v
    cases h
    have hA : pendW (s.ths i).pc = false := by simp [pendW, hpc]
    have hAa : pendA (s.ths i).pc = false := by simp [pendA, hpc]
    split
    · obtain ⟨⟨i1, i2, i3, i4, i5⟩, io⟩ := inert_wNext v oww
      refine wq_setpc s i _ hq i1 ?_ ?_ ?_ ?_ ?_
      · intro q hh; rw [i2] at hh; cases hh
      · intro q hh; rw [i3] at hh; cases hh
      · intro hh; rw [hAa] at hh; cases hh
      · intro hh; rw [hA] at hh; cases hh
      · intro hh; apply io; cases oww <;> simp_all [owing]
    · refine wq_setpc s i _ hq (by simp [wparked]) ?_ ?_ ?_ ?_ ?_
      · intro q hh; simp [preSleep] at hh
      · intro q hh; simp [seqOf] at hh
      · intro hh; rw [hAa] at hh; cases hh
      · intro hh; rw [hA] at hh; cases hh
      · intro hh; cases oww <;> simp_all [owing]
  · simp at h

include hinv hq in
theorem wq_wCas (st : Nat) (oww : Bool) (hpc : (s.ths i).pc = .wCas st oww) (h : step_wCas c s i (s.ths i) st oww e = some s') : WQ s' := by
  have hlt := hinv.lt32
  have hA : pendW (s.ths i).pc = false := by simp [pendW, hpc]
  have hAa : pendA (s.ths i).pc = false := by simp [pendA, hpc]
  have hwf := hinv.pcwf i; rw [hpc] at hwf; simp only [PcWf] at hwf
  unfold step_wCas at h
  split at h
  · rename_i exp new r
    split at h
    · simp at h
    · rename_i hcond
      simp only [not_or, Decidable.not_not, Bool.not_eq_true', Bool.not_eq_false', Bool.not_eq_false] at hcond
      obtain ⟨he, hn, hcc⟩ := hcond
      have hfail : ∀ o, WQ (setPc s i (wNext o oww)) := by
        intro o
        obtain ⟨⟨i1, i2, i3, i4, i5⟩, io⟩ := inert_wNext o oww
        refine wq_setpc s i _ hq i1 ?_ ?_ ?_ ?_ ?_
        · intro q hh; rw [i2] at hh; cases hh
        · intro q hh; rw [i3] at hh; cases hh
        · intro hh; rw [hAa] at hh; cases hh
        · intro hh; rw [hA] at hh; cases hh
        · intro hh; apply io; cases oww <;> simp_all [owing]
      cases r with
      | ok =>
        simp only [] at h; cases h
        simp only [casConsistent, beq_iff_eq] at hcc
        subst he hn
        rw [← hcc] at hwf
        have hw := hasWW_orWL s.state oww ((unlocked_iff _).mp hwf)
        refine wq_rmw s i _ _ _ _ hq (by simp [wparked]) ?_ ?_ ?_ ?_ ?_ ?_
        · intro q hh; simp [preSleep] at hh
        · intro q hh; simp [seqOf] at hh
        · intro hh; rw [hAa] at hh; cases hh
        · intro hh; rw [hA] at hh; cases hh
        · intro hh; right; rw [← hcc, hw]; cases oww <;> simp_all [owing]
        · intro hb; left; rw [← hcc, hw, hb]; simp
      | fail o => simp only [] at h; cases h; exact hfail _
      | spur o => simp only [] at h; cases h; exact hfail _
  · simp at h

include hinv hq in
theorem wq_wSetWait (st : Nat) (oww : Bool) (hpc : (s.ths i).pc = .wSetWait st oww) (h : step_wSetWait c s i (s.ths i) st oww e = some s') : WQ s' := by
  have hA : pendW (s.ths i).pc = false := by simp [pendW, hpc]
  have hAa : pendA (s.ths i).pc = false := by simp [pendA, hpc]
  unfold step_wSetWait at h
  split at h
  · rename_i exp new r
    split at h
    · simp at h
    · rename_i hcond
      simp only [not_or, Decidable.not_not, Bool.not_eq_true', Bool.not_eq_false', Bool.not_eq_false] at hcond
      obtain ⟨he, hn, hcc⟩ := hcond
      have hfail : ∀ o, WQ (setPc s i (wNext o oww)) := by
        intro o
        obtain ⟨⟨i1, i2, i3, i4, i5⟩, io⟩ := inert_wNext o oww
        refine wq_setpc s i _ hq i1 ?_ ?_ ?_ ?_ ?_
        · intro q hh; rw [i2] at hh; cases hh
        · intro q hh; rw [i3] at hh; cases hh
        · intro hh; rw [hAa] at hh; cases hh
        · intro hh; rw [hA] at hh; cases hh
        · intro hh; apply io; cases oww <;> simp_all [owing]
      cases r with
      | ok =>
        simp only [] at h; cases h
        simp only [casConsistent, beq_iff_eq] at hcc
        subst he hn
        refine wq_rmw s i _ _ _ _ hq (by simp [wparked]) ?_ ?_ ?_ ?_ ?_ ?_
        · intro q hh; simp [preSleep] at hh
        · intro q hh; simp [seqOf] at hh
        · intro hh; rw [hAa] at hh; cases hh
        · intro hh; rw [hA] at hh; cases hh
        · intro _; left; simp [owing]
        · intro _; left; exact hasWW_orWW _
      | fail o => simp only [] at h; cases h; exact hfail _
      | spur o => simp only [] at h; cases h; exact hfail _
  · simp at h

/-- pc-only move, general form -/
theorem wq_setpc_gen (s : St) (i : Nat) (pc' : Pc) (h : WQ s)
    (hpark : wparked pc' = true → wparked (s.ths i).pc = true ∨ preSleep (s.ths i).pc = some s.notify)
    (hpre : ∀ q, preSleep pc' = some q → preSleep (s.ths i).pc = some q ∨ hasWW s.state = true)
    (hseq : ∀ q, seqOf pc' = some q → seqOf (s.ths i).pc = some q ∨ q ≤ s.notify)
    (hA : pendA (s.ths i).pc = true → pendA pc' = true)
    (hW : pendW (s.ths i).pc = true → pendW pc' = true)
    (hO : owing (s.ths i).pc = true → owing pc' = true ∨ hasWW s.state = true ∨ preSleep (s.ths i).pc = some s.notify) :
    WQ (setPc s i pc') := by
  refine wq_upd s _ i pc' ?_ ?_ rfl h ?_ hpark ?_ hseq hA hW ?_
  · intro j hj; simp [setPc, setTh_ths, hj]
  · simp [setPc]
  · intro hb; left; simpa [setPc] using hb
  · intro q hq'; rcases hpre q hq' with h1 | h1
    · exact Or.inl h1
    · right; simpa [setPc] using h1
  · intro ho; rcases hO ho with h1 | h1 | h1
    · exact Or.inl h1
    · right; left; simpa [setPc] using h1
    · exact Or.inr (Or.inr h1)

include hq in
theorem wq_wSeqLoad (hacc : ∀ v, e = .load 1 v → v = s.notify)
    (hpc : (s.ths i).pc = .wSeqLoad) (h : step_wSeqLoad c s i (s.ths i) e = some s') : WQ s' := by
  unfold step_wSeqLoad at h
  split at h
  · rename_i v
    have hv := hacc v rfl
    cases h
    refine wq_setpc_gen s i _ hq ?_ ?_ ?_ ?_ ?_ ?_
    · intro hh; simp [wparked] at hh
    · intro q hh; simp [preSleep] at hh
    · intro q hh; simp [seqOf] at hh; right; omega
    · intro hh; simp [pendA, hpc] at hh
    · intro hh; simp [pendW, hpc] at hh
    · intro _; left; simp [owing]
  · simp at h

include hq in
theorem wq_wStateLoad (seq : Nat) (hacc : ∀ v, e = .load 0 v → v = s.state)
    (hpc : (s.ths i).pc = .wStateLoad seq) (h : step_wStateLoad c s i (s.ths i) seq e = some s') : WQ s' := by
  unfold step_wStateLoad at h
  split at h
  · rename_i v
    have hv := hacc v rfl
    cases h
    split
    · obtain ⟨⟨i1, i2, i3, i4, i5⟩, io⟩ := inert_wNext v true
      refine wq_setpc_gen s i _ hq ?_ ?_ ?_ ?_ ?_ ?_
      · intro hh; rw [i1] at hh; cases hh
      · intro q hh; rw [i2] at hh; cases hh
      · intro q hh; rw [i3] at hh; cases hh
      · intro hh; simp [pendA, hpc] at hh
      · intro hh; simp [pendW, hpc] at hh
      · intro _; left; exact io rfl
    · rename_i hcond
      have hww : hasWW s.state = true := by
        rw [← hv]
        cases hb : hasWW v with
        | true => rfl
        | false => exact absurd (Or.inr (by simp [hb])) hcond
      refine wq_setpc_gen s i _ hq ?_ ?_ ?_ ?_ ?_ ?_
      · intro hh; simp [wparked] at hh
      · intro q _; right; exact hww
      · intro q hh; left; simpa [seqOf, hpc] using hh
      · intro hh; simp [pendA, hpc] at hh
      · intro hh; simp [pendW, hpc] at hh
      · intro _; left; simp [owing]
  · simp at h

include hq in
theorem wq_wWaitLoad (seq : Nat) (hpc : (s.ths i).pc = .wWaitLoad seq) (h : step_wWaitLoad c s i (s.ths i) seq e = some s') : WQ s' := by
  unfold step_wWaitLoad at h
  split at h
  · rename_i v
    cases h
    split
    · refine wq_setpc_gen s i _ hq ?_ ?_ ?_ ?_ ?_ ?_
      · intro hh; simp [wparked] at hh
      · intro q hh; simp [preSleep] at hh
      · intro q hh; simp [seqOf] at hh
      · intro hh; simp [pendA, hpc] at hh
      · intro hh; simp [pendW, hpc] at hh
      · intro _; left; simp [owing]
    · refine wq_setpc_gen s i _ hq ?_ ?_ ?_ ?_ ?_ ?_
      · intro hh; simp [wparked] at hh
      · intro q hh; left; simpa [preSleep, hpc] using hh
      · intro q hh; left; simpa [seqOf, hpc] using hh
      · intro hh; simp [pendA, hpc] at hh
      · intro hh; simp [pendW, hpc] at hh
      · intro _; left; simp [owing]
  · simp at h

include hq in
theorem wq_wWaitSys (seq : Nat) (hpc : (s.ths i).pc = .wWaitSys seq) (h : step_wWaitSys c s i (s.ths i) seq e = some s') : WQ s' := by
  unfold step_wWaitSys at h
  split at h
  · split at h
    · simp at h
    · split at h
      · split at h
        · rename_i hn
          cases h
          refine wq_setpc_gen s i _ hq ?_ ?_ ?_ ?_ ?_ ?_
          · intro _; right; simp [preSleep, hpc, hn]
          · intro q hh; left; simpa [preSleep, hpc] using hh
          · intro q hh; left; simpa [seqOf, hpc] using hh
          · intro hh; simp [pendA, hpc] at hh
          · intro hh; simp [pendW, hpc] at hh
          · intro _; right; right; simp [preSleep, hpc, hn]
        · simp at h
      · split at h
        · simp at h
        · cases h
          refine wq_setpc_gen s i _ hq ?_ ?_ ?_ ?_ ?_ ?_
          · intro hh; simp [wparked] at hh
          · intro q hh; simp [preSleep] at hh
          · intro q hh; simp [seqOf] at hh
          · intro hh; simp [pendA, hpc] at hh
          · intro hh; simp [pendW, hpc] at hh
          · intro _; left; simp [owing]
  · simp at h

include hq in
theorem wq_wParked (seq : Nat) (hpc : (s.ths i).pc = .wParked seq) (h : step_wParked c s i (s.ths i) seq e = some s') : WQ s' := by
  unfold step_wParked at h
  split at h
  · cases h
    split
    · refine wq_setpc_gen s i _ hq ?_ ?_ ?_ ?_ ?_ ?_
      · intro hh; simp [wparked] at hh
      · intro q hh; left; simpa [preSleep, hpc] using hh
      · intro q hh; left; simpa [seqOf, hpc] using hh
      · intro hh; simp [pendA, hpc] at hh
      · intro hh; simp [pendW, hpc] at hh
      · intro hh; simp [owing, hpc] at hh
    · refine wq_setpc_gen s i _ hq ?_ ?_ ?_ ?_ ?_ ?_
      · intro hh; simp [wparked] at hh
      · intro q hh; simp [preSleep] at hh
      · intro q hh; simp [seqOf] at hh
      · intro hh; simp [pendA, hpc] at hh
      · intro hh; simp [pendW, hpc] at hh
      · intro hh; simp [owing, hpc] at hh
  · simp at h

include hq in
theorem wq_acquired (w : Bool) (hpc : (s.ths i).pc = .acquired w) (h : step_acquired c s i (s.ths i) w e = some s') : WQ s' := by
  unfold step_acquired at h
  split at h
  · split at h
    · cases h
      exact wq_plain s i _ hq (by simp [Inert, wparked, preSleep, seqOf, pendA, pendW]) (by simp [pendW, hpc]) (by simp [owing, hpc])
    · simp at h
  · simp at h

include hq in
theorem wq_hold (w : Bool) (k : Nat) (hpc : (s.ths i).pc = .hold w k) (h : step_hold c s i (s.ths i) w k e = some s') : WQ s' := by
  unfold step_hold at h
  split at h
  · rename_i k'
    cases h
    refine wq_upd s _ i (.hold w k') ?_ ?_ rfl hq ?_ ?_ ?_ ?_ ?_ ?_ ?_
    · intro j hj; simp [setPc, setTh_ths, hj]
    · simp [setPc]
    · intro hb; left; simpa [setPc] using hb
    · intro hh; simp [wparked] at hh
    · intro q hh; simp [preSleep] at hh
    · intro q hh; simp [seqOf] at hh
    · intro hh; simp [pendA, hpc] at hh
    · intro hh; simp [pendW, hpc] at hh
    · intro hh; simp [owing, hpc] at hh
  · cases h
    exact wq_plain s i _ hq (by simp [Inert, wparked, preSleep, seqOf, pendA, pendW]) (by simp [pendW, hpc]) (by simp [owing, hpc])
  · simp at h

end TinyVerif.RwLock
