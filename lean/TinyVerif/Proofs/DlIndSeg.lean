import TinyVerif.Proofs.DlIndSpec
import TinyVerif.Proofs.DlIndDvTop
/-!
# Foundation for the steps that change the SEGMENT LIST (tag `sg_`)

`struct_window` (`DlIndBase.lean`) keeps `segs` fixed.  This file has what `sys_alloc_place`, `add_segment`,
`prepend_alloc`, `trim_top`, `releaseLoop` need in addition (the specs themselves are in `DlIndSys.lean`):

1. membership forms of `FenceOk` / `User` (`SgFenceTab`, `sg_user_iff_mem`), the bridge `AllocAt ⟹ Alloc` for an
   arbitrary final state (`sg_alloc_of_allocAt`), the common tail of `sys_alloc` (`sg_top_split`);
2. `sg_sinv_same` (what `SInv` reads);  3. `init_top` as two header writes (`sg_init_top_ok`);
4. `sg_fresh_ents` (no header in a region disjoint from all segments), `tiles` with a moving segment end,
   `sg_retop`: the head segment grows / shrinks at its end (`sys-extend`, `trim_top`);
5. a segment's headers are a contiguous block of the sorted table (`sg_seg_split`), disjoint segment lists;
6. `sg_release_seg`: a whole non-head segment disappears (`releaseLoop`);
7. sorted tables as SETS: `sg_entsOk_ext`, `sg_putEnt_tab`, `sg_modEnt_tab`, `sg_writeHead_tab`, … — the header
   writes described by membership, so that no list positions have to be tracked;
8. the fencepost loop by induction on the fuel (`sg_fences`);
9. `sg_addseg_core`: the invariant of the state `add_segment` ends in, from a description of its table;
10. `sg_prepend_mid`: a segment grows at its start, with two in-use chunks in front of its old first header.
-/
namespace TinyVerif.Dl

/-- `omega` after removing the propositional debris `simp only [… decide_eq_true_eq]` leaves behind -/
macro "sg_omega" : tactic =>
  `(tactic| ((try simp only [true_and, and_true, Bool.not_false, Bool.not_true, Bool.true_eq_false, Bool.false_eq_true,
      false_and, and_false, or_false, false_or, true_or, or_true, ne_eq, not_false_eq_true, not_true_eq_false]) <;>
    first | done | omega))

/-! ## 1. `isRecord`, `FenceOk`, `User` -/

theorem sg_isRecord_iff {segs : List Seg} {e : Ent} :
    isRecord segs e = true ↔ ∃ g ∈ segs, g.recAt = e.addr + 16 := by
  unfold isRecord; simp

theorem sg_isRecord_addr {segs : List Seg} {e e' : Ent} (h : e'.addr = e.addr) :
    isRecord segs e' = isRecord segs e := by
  unfold isRecord; rw [h]

theorem sg_isRecord_false {segs : List Seg} {e : Ent} :
    isRecord segs e = false ↔ ∀ g ∈ segs, g.recAt ≠ e.addr + 16 := by
  cases h : isRecord segs e with
  | false =>
    simp only [true_iff]
    intro g hg hga
    have := sg_isRecord_iff.2 ⟨g, hg, hga⟩
    rw [h] at this; cases this
  | true =>
    simp only [Bool.true_eq_false, false_iff]
    intro hall
    obtain ⟨g, hg, hga⟩ := sg_isRecord_iff.1 h
    exact hall g hg hga

/-- membership form of `FenceOk` -/
def SgFenceTab (es : List Ent) (segs : List Seg) : Prop :=
  ∀ x ∈ es, ∀ y ∈ es, y.size = 8 → y.addr = x.addr + x.size → x.size = 8 ∨ isRecord segs x = true

/-- in a sorted table, a header and the header starting at its end are neighbours in the list -/
theorem sg_adjacent_of_mem {es : List Ent} (hok : entsOk es = true) {x y : Ent} (hx : x ∈ es) (hy : y ∈ es)
    (ha : y.addr = x.addr + x.size) : ∃ pre post, es = pre ++ x :: y :: post := by
  obtain ⟨pre, rest, rfl⟩ := List.append_of_mem hx
  obtain ⟨h1, h2, h3⟩ := entsOk_append.1 hok
  have hxpos := entsOk_pos h2 x List.mem_cons_self
  rcases List.mem_append.1 hy with hy | hy
  · have := h3 y hy x List.mem_cons_self
    have := entsOk_pos h1 y hy
    omega
  · rcases List.mem_cons.1 hy with hy | hy
    · subst hy; omega
    · cases rest with
      | nil => cases hy
      | cons z post =>
        have hz := entsOk_head_le h2 z List.mem_cons_self
        have hzpos := entsOk_pos h2 z (by simp)
        rcases List.mem_cons.1 hy with hy | hy
        · subst hy; exact ⟨pre, post, rfl⟩
        · have := entsOk_head_le (entsOk_tail h2) y hy
          omega

theorem sg_fenceOk_iff_tab {s : St} (hok : entsOk s.h.ents = true) : FenceOk s ↔ SgFenceTab s.h.ents s.segs := by
  constructor
  · intro hf x hx y hy h8 ha
    obtain ⟨pre, post, hes⟩ := sg_adjacent_of_mem hok hx hy ha
    exact hf pre x y post hes h8 ha
  · intro hf pre x y post hes h8 ha
    exact hf x (by rw [hes]; simp) y (by rw [hes]; simp) h8 ha

theorem sg_user_iff_mem {s : St} (hok : entsOk s.h.ents = true) {a z : Nat} :
    User s a z ↔ ∃ e ∈ s.h.ents, e.addr = a ∧ e.cin = true ∧ e.size = z ∧ z ≠ 8 ∧ isRecord s.segs e = false := by
  constructor
  · rintro ⟨e, he, h⟩
    exact ⟨e, (findEnt_some he).1, (findEnt_some he).2, h⟩
  · rintro ⟨e, he, ha, h⟩
    exact ⟨e, ha ▸ entsOk_find e he hok, h⟩

/-- `User` only reads the header table and the segment list -/
theorem sg_user_congr {s s' : St} (he : s'.h.ents = s.h.ents) (hs : s'.segs = s.segs) (a z : Nat) :
    User s' a z ↔ User s a z := by
  unfold User; rw [he, hs]

theorem sg_sameUsers_of_eq {s s' : St} (he : s'.h.ents = s.h.ents) (hs : s'.segs = s.segs) : SameUsers s s' :=
  fun a z => sg_user_congr he hs a z

theorem sg_sameUsers_trans {a b c : St} (h1 : SameUsers a b) (h2 : SameUsers b c) : SameUsers a c :=
  fun x z => (h2 x z).trans (h1 x z)

theorem sg_alloc_of_same {s s1 s2 : St} {nb mem : Nat} (h1 : SameUsers s s1) (h2 : Alloc s1 s2 nb mem) :
    Alloc s s2 nb mem := by
  obtain ⟨a1, a2, a3, sz, a4, a5⟩ := h2
  refine ⟨a1, a2, fun z hz => a3 z ((h1 _ _).2 hz), sz, a4, fun a z => ?_⟩
  rw [a5 a z, h1 a z]

/-- **`AllocAt` ⟹ `Alloc`**, for an arbitrary final state with the same segment list -/
theorem sg_alloc_of_allocAt {s s' : St} (w : WFS s) (hr : RecsOk s) (hsegs : s'.segs = s.segs)
    {nb p : Nat} (ha : AllocAt s.h.ents s'.h.ents nb p) (hnb : 8 < nb) :
    Alloc s s' nb (p + 16) := by
  obtain ⟨⟨x, hxm, hxa, hxf, _, e', he', hc', hs1, _⟩, hcin, hkept⟩ := ha
  have hfx : findEnt s.h.ents p = some x := hxa ▸ entsOk_find x hxm w.ents
  obtain ⟨hxc, _⟩ := isFree_iff.1 hxf
  obtain ⟨hx16, _, _⟩ := shapeOk_free w.shape hxm hxc
  have hnorec : ∀ e : Ent, e.addr = p → isRecord s.segs e = false := by
    intro e hea
    rw [sg_isRecord_false]
    intro g hg hga
    obtain ⟨_, e2, he2, hc2⟩ := hr g hg (by omega)
    rw [hga, hea, show p + 16 - 16 = p by omega, hfx] at he2
    injection he2 with he2
    subst he2
    rw [hxc] at hc2; cases hc2
  have hnu : ∀ z, ¬ User s p z := by
    rintro z ⟨e, he, hc, _⟩
    rw [hfx] at he
    injection he with he
    subst he
    rw [hxc] at hc; cases hc
  unfold Alloc
  rw [show p + 16 - 16 = p by omega]
  refine ⟨by omega, by omega, hnu, e'.size, hs1, ?_⟩
  intro a z
  constructor
  · rintro ⟨e2, he2, hc2, hz2, h8, hr2⟩
    by_cases hap : a = p
    · subst hap
      rw [he'] at he2
      injection he2 with he2
      subst he2
      exact Or.inr ⟨rfl, hz2.symm⟩
    · left
      obtain ⟨hm2, ha2⟩ := findEnt_some he2
      have hca : a ∈ cinSet s'.h.ents := mem_cinSet.2 ⟨e2, hm2, hc2, ha2⟩
      rcases (hcin a).1 hca with h | h
      · exact absurd h hap
      · obtain ⟨e, he, hc, hea⟩ := mem_cinSet.1 h
        obtain ⟨e3, he3, hs3, _⟩ := hkept e he hc
        rw [hea, he2] at he3
        injection he3 with he3
        subst he3
        refine ⟨e, hea ▸ entsOk_find e he w.ents, hc, by omega, h8, ?_⟩
        rw [hsegs] at hr2
        rw [sg_isRecord_addr (e := e2) (by omega)]
        exact hr2
  · rintro (⟨e, he, hc, hz, h8, hr1⟩ | ⟨hap, hz⟩)
    · obtain ⟨hm, hea⟩ := findEnt_some he
      obtain ⟨e3, he3, hs3, hc3⟩ := hkept e hm hc
      refine ⟨e3, hea ▸ he3, hc3, by omega, h8, ?_⟩
      rw [hsegs, sg_isRecord_addr (e := e) (by rw [(findEnt_some he3).2])]
      exact hr1
    · subst hap; subst hz
      exact ⟨e', he', hc', rfl, by omega, by rw [hsegs]; exact hnorec e' (findEnt_some he').2⟩

/-- a header lying in two segments of a disjoint segment list: the segments coincide -/
theorem sg_seg_unique {segs : List Seg} (hd : segsDisjoint segs = true) {g g' : Seg} (hg : g ∈ segs) (hg' : g' ∈ segs)
    {e : Ent} (h1 : inSeg g e = true) (h2 : inSeg g' e = true) : g = g' := by
  rcases segsDisjoint_pair hd g hg g' hg' with h | h
  · exact h
  · rw [inSeg_iff] at h1 h2; omega

/-! ### the common tail of `sys_alloc`: the request is cut from `top` -/

/-- the two header writes of the tail of `sys_alloc` as an equation on the table -/
theorem sg_top_split_eq {s : St} (w : WFS s) {nb : Nat} (hnb32 : 32 ≤ nb) (hlt : nb < s.h.topsize) {h1 h2 : Heap}
    (e1 : writeHead { s.h with topsize := s.h.topsize - nb, top := s.h.top + nb } (s.h.top + nb) (s.h.topsize - nb) false true = .ok h1)
    (e2 : set_size_and_pinuse_of_inuse_chunk h1 s.h.top nb = .ok h2) :
    ∃ g rest pre x f post, s.segs = g :: rest ∧ s.h.ents = pre ++ [x, f] ++ post ∧ x.addr = s.h.top ∧
      isFree x = true ∧ x.size = s.h.topsize ∧ f.addr = s.h.top + s.h.topsize ∧ f.cin = false ∧ f.pin = false ∧
      f.size = 80 ∧ g.base ≤ s.h.top ∧ s.h.top + s.h.topsize + 80 = g.base + g.size ∧ s.h.top ≠ 0 ∧
      inSeg g x = true ∧ inSeg g f = true ∧
      h2 = { s.h with topsize := s.h.topsize - nb, top := s.h.top + nb,
                      ents := pre ++ [{ addr := s.h.top, size := nb, cin := true, pin := true, pfoot := x.pfoot },
                        { addr := s.h.top + nb, size := s.h.topsize - nb, cin := false, pin := true, pfoot := 0 }, f] ++ post } := by
  obtain ⟨g, rest, pre, x, f, post, hsegs, hes, hxa, hxf, hxs, hfa, hfc, hfp, hfs, hgb, hgt, htop0, hgx, hgf⟩ :=
    w.top_parts (by omega)
  have hok := w.ents
  rw [hes] at hok
  obtain ⟨o1, o2, o3, o4, o5⟩ := entsOk_mid2 hok
  have hxm : x ∈ s.h.ents := by rw [hes]; simp
  have hrnone : findEnt s.h.ents (s.h.top + nb) = none :=
    findEnt_none (entsOk_no_inside w.ents hxm (by omega) (by omega))
  have r1 := writeHead_window_ok e1 (pre := pre ++ [x]) (ms := []) (post := f :: post)
    (by show s.h.ents = _; rw [hes]; simp)
    (by
      intro q hq
      rcases List.mem_append.1 hq with hq | hq
      · have := o1 q hq; omega
      · simp only [List.mem_singleton] at hq; subst hq; omega)
    (by simp)
    (by
      intro q hq
      cases hq with
      | head => omega
      | tail _ hq => have := o5 q hq; omega)
  have hpf1 : pfootAt s.h.ents (s.h.top + nb) = 0 := pfootAt_none hrnone
  dsimp only at r1
  rw [hpf1] at r1
  subst r1
  unfold set_size_and_pinuse_of_inuse_chunk at e2
  have r2 := writeHead_window_ok e2 (pre := pre) (ms := [x])
    (post := { addr := s.h.top + nb, size := s.h.topsize - nb, cin := false, pin := true, pfoot := 0 } :: f :: post)
    (by simp)
    (by intro q hq; have := o1 q hq; omega)
    (by intro q hq; simp only [List.mem_singleton] at hq; subst hq; omega)
    (by
      intro q hq
      simp only [List.mem_cons] at hq
      rcases hq with hq | hq | hq
      · subst hq; simp only; omega
      · subst hq; omega
      · have := o5 q hq; omega)
  have hpf2 : pfootAt (pre ++ [x] ++ { addr := s.h.top + nb, size := s.h.topsize - nb, cin := false, pin := true, pfoot := 0 } :: f :: post)
      s.h.top = x.pfoot := by
    apply pfootAt_some
    rw [List.append_assoc, findEnt_skip (fun q hq => by have := o1 q hq; omega)]
    rw [← hxa]; exact findEnt_head
  dsimp only at r2
  rw [hpf2] at r2
  refine ⟨g, rest, pre, x, f, post, hsegs, by rw [hes]; simp, hxa, hxf, hxs, hfa, hfc, hfp, hfs, hgb, hgt, htop0, hgx, hgf, ?_⟩
  rw [r2]
  simp

/-- **the tail of `sys_alloc`** (`top` is larger than the padded request): `SInv` is kept, one new user chunk -/
theorem sg_top_split {s : St} (hi : SInv s) {nb : Nat} (hnb16 : nb % 16 = 0) (hnb32 : 32 ≤ nb)
    (hlt : nb < s.h.topsize) {h1 h2 : Heap}
    (e1 : writeHead { s.h with topsize := s.h.topsize - nb, top := s.h.top + nb } (s.h.top + nb) (s.h.topsize - nb) false true = .ok h1)
    (e2 : set_size_and_pinuse_of_inuse_chunk h1 s.h.top nb = .ok h2) :
    SInv { s with h := h2 } ∧ Alloc s { s with h := h2 } nb (s.h.top + 16) := by
  have w := hi.wfs
  obtain ⟨g, rest, pre, x, f, post, hsegs, hes, hxa, hxf, hxs, hfa, hfc, hfp, hfs, hgb, hgt, htop0, hgx, hgf, r⟩ :=
    sg_top_split_eq w hnb32 hlt e1 e2
  subst r
  obtain ⟨w', ha⟩ := top_split_core (pre := pre) (post := post) (x := x) (f := f) w hnb16 hnb32 hlt hsegs hes
    hxa hxf hxs hfa hfc hfp hgx hgf htop0
    (H := { s.h with topsize := s.h.topsize - nb, top := s.h.top + nb,
                      ents := pre ++ [{ addr := s.h.top, size := nb, cin := true, pin := true, pfoot := x.pfoot },
                        { addr := s.h.top + nb, size := s.h.topsize - nb, cin := false, pin := true, pfoot := 0 }, f] ++ post })
    (np := { addr := s.h.top, size := nb, cin := true, pin := true, pfoot := x.pfoot })
    (nr := { addr := s.h.top + nb, size := s.h.topsize - nb, cin := false, pin := true, pfoot := 0 })
    ⟨rfl, rfl, rfl, rfl, rfl, rfl, rfl⟩ rfl rfl rfl rfl rfl rfl rfl rfl
  have hxm : x ∈ s.h.ents := by rw [hes]; simp
  have hfm : f ∈ s.h.ents := by rw [hes]; simp
  obtain ⟨hxc, _⟩ := isFree_iff.1 hxf
  obtain ⟨_, hxs16, _⟩ := shapeOk_free w.shape hxm hxc
  have hg : g ∈ s.segs := by rw [hsegs]; exact List.mem_cons_self
  have hg0 : g.recAt = 0 := by
    have ht := w.top
    unfold topOk at ht
    simp only [hsegs, Bool.and_eq_true, decide_eq_true_eq] at ht
    exact ht.1.1.2
  -- membership in the new table
  have hmem : ∀ e, e ∈ pre ++ [({ addr := s.h.top, size := nb, cin := true, pin := true, pfoot := x.pfoot } : Ent),
        { addr := s.h.top + nb, size := s.h.topsize - nb, cin := false, pin := true, pfoot := 0 }, f] ++ post →
      (e ∈ s.h.ents ∧ e ≠ x) ∨ e = { addr := s.h.top, size := nb, cin := true, pin := true, pfoot := x.pfoot } ∨
        e = { addr := s.h.top + nb, size := s.h.topsize - nb, cin := false, pin := true, pfoot := 0 } := by
    intro e he
    have hok := w.ents
    rw [hes] at hok
    have hok2 : entsOk (pre ++ x :: f :: post) = true := by simpa using hok
    obtain ⟨o1, o2, o3, o4, o5⟩ := entsOk_mid2 hok2
    simp only [List.mem_append, List.mem_cons, List.not_mem_nil, or_false] at he
    rcases he with (h | h | h | h) | h
    · exact Or.inl ⟨by rw [hes]; simp [h], fun hx => by have := (o1 e h).2; rw [hx] at this; omega⟩
    · exact Or.inr (Or.inl h)
    · exact Or.inr (Or.inr h)
    · exact Or.inl ⟨by rw [h]; exact hfm, fun hx => by rw [h] at hx; rw [hx] at o3; omega⟩
    · exact Or.inl ⟨by rw [hes]; simp [h], fun hx => by have := (o5 e h).1; rw [hx] at this; omega⟩
  refine ⟨⟨w', hi.recs.preserved ha.kept, ?_, ?_, ?_, hi.recin⟩, ?_⟩
  · -- `FenceOk`
    rw [sg_fenceOk_iff_tab w'.ents]
    have hold := (sg_fenceOk_iff_tab w.ents).1 hi.fence
    intro x' hx' y' hy' h8 hadj
    have hy0 : y' ∈ s.h.ents := by
      rcases hmem y' hy' with h | h | h
      · exact h.1
      · rw [h] at h8; simp only at h8; omega
      · rw [h] at h8; simp only at h8; omega
    rcases hmem x' hx' with h | h | h
    · exact hold x' h.1 y' hy0 h8 hadj
    · exfalso
      rw [h] at hadj; simp only at hadj
      exact entsOk_no_inside w.ents hxm (a := s.h.top + nb) (by omega) (by omega) y' hy0 hadj
    · exfalso
      rw [h] at hadj; simp only at hadj
      have : y' = f := entsOk_addr_inj w.ents hy0 hfm (by omega)
      rw [this] at h8; omega
  · -- `TailOk`
    intro g' hg' hrec e he hge
    rcases hmem e he with h | h | h
    · exact hi.tail g' hg' hrec e h.1 hge
    · exfalso
      have : inSeg g e = true := by rw [h, inSeg_iff]; simp only; rw [inSeg_iff] at hgx; omega
      have := sg_seg_unique w.segsDisjoint hg hg' this hge
      subst this; exact hrec hg0
    · exfalso
      have : inSeg g e = true := by rw [h, inSeg_iff]; simp only; omega
      have := sg_seg_unique w.segsDisjoint hg hg' this hge
      subst this; exact hrec hg0
  · -- `HeadOk`
    intro g' hg' e he hb h8
    rcases hmem e he with h | h | h
    · exact hi.head g' hg' e h.1 hb h8
    · rw [h] at h8; simp only at h8; omega
    · rw [h] at h8; simp only at h8; omega
  · refine sg_alloc_of_allocAt w hi.recs ?_ ?_ ?_
    · rfl
    · exact ha
    · omega

/-! ## 2. states that agree on what the invariant reads -/

/-- `SInv` reads the heap (without the ghost trace), the segment list, `least_addr`, and — only while the
segment list is empty — `footprint` -/
theorem sg_sinv_same {s s' : St} (hi : SInv s) (hh : SameHeap s'.h s.h) (hsegs : s'.segs = s.segs)
    (hla : s'.least_addr = s.least_addr) (hfp : s.segs = [] → s'.footprint = s.footprint) : SInv s' := by
  have w := hi.wfs
  obtain ⟨h1, h2, h3, h4, h5, h6, h7⟩ := hh
  have hfl : Dl.freeList s'.h = Dl.freeList s.h := by unfold Dl.freeList binned; rw [h2, h3, h4, h6]
  refine ⟨⟨?_, ?_, ?_, ?_, ?_, ?_, ?_, ?_, ?_, ?_, ?_⟩, ?_, ?_, ?_, ?_, ?_⟩
  · rw [h1]; exact w.ents
  · rw [h1]; exact w.shape
  · rw [h1, hsegs]; exact w.inSegs
  · rw [h1, hsegs]; exact w.tiles
  · rw [h1, hsegs, h6]; exact w.tags
  · unfold freeListOk; rw [hfl, h1]; exact w.freeList
  · rw [h1, h2]; exact w.sbins
  · rw [h1, h3]; exact w.tbins
  · unfold dvOk; rw [h1, h4, h5]; exact w.dv
  · have ht := w.top
    unfold topOk at ht ⊢
    rw [hsegs, h1, h6, h7]
    cases hs : s.segs with
    | nil => rw [hs] at ht; rw [hfp hs]; exact ht
    | cons g rest => rw [hs] at ht; exact ht
  · unfold segsOk; rw [hsegs, hla]; exact w.segs
  · intro g hg hne
    rw [hsegs] at hg
    rw [h1]
    exact hi.recs g hg hne
  · intro pre x y post hes
    rw [h1] at hes
    rw [hsegs]
    exact hi.fence pre x y post hes
  · intro g hg hne e he
    rw [hsegs] at hg ⊢
    rw [h1] at he
    exact hi.tail g hg hne e he
  · intro g hg e he
    rw [hsegs] at hg
    rw [h1] at he
    exact hi.head g hg e he
  · intro g hg
    rw [hsegs] at hg
    exact hi.recin g hg

theorem sg_sinv_tag {s : St} (hi : SInv s) (t : String) : SInv (s.tag t) :=
  sg_sinv_same hi ⟨rfl, rfl, rfl, rfl, rfl, rfl, rfl⟩ rfl rfl (fun _ => rfl)

theorem sg_sameUsers_tag (s : St) (t : String) : SameUsers s (s.tag t) := sg_sameUsers_of_eq rfl rfl

/-! ## 3. `init_top` -/

/-- `init_top` at a 16-aligned address: two header writes -/
theorem sg_init_top_ok {s s' : St} {ptr size : Nat} (h : init_top s ptr size = .ok s') (h16 : ptr % 16 = 0)
    (hlt : ptr + 32 ≤ 2 ^ 64) :
    ∃ h1 h2, writeHead { s.h with top := ptr, topsize := size } ptr size false true = .ok h1 ∧
      writeHead h1 (ptr + size) 80 false false = .ok h2 ∧
      s' = { s with h := h2, trim_check := DEFAULT_TRIM_THRESHOLD } := by
  unfold init_top at h
  have hoff : align_offset_usize (ptr + MEM_OFFSET) = 0 := by
    rw [MEM_OFFSET_eq, align_offset_usize_eq (ptr + 16) (by omega)]; omega
  rw [hoff] at h
  simp only [Nat.add_zero, Nat.sub_zero, top_foot_size_eq] at h
  msimp at h
  obtain ⟨_, _, h1, e1, h2, e2, h⟩ := h
  exact ⟨h1, h2, e1, e2, h.symm⟩

/-! ## 4. the header table and the segment list -/

/-- no header of a well-formed state lies in a region disjoint from all its segments -/
theorem sg_fresh_ents {s : St} (w : WFS s) {tbase tsize : Nat}
    (hf : ∀ g ∈ s.segs, tbase + tsize ≤ g.base ∨ g.base + g.size ≤ tbase) :
    ∀ e ∈ s.h.ents, e.addr + e.size ≤ tbase ∨ tbase + tsize ≤ e.addr := by
  intro e he
  obtain ⟨g, hg, hge⟩ := w.struct.seg_of he
  have := w.struct.in_seg hg he hge
  rcases hf g hg with h | h
  · right; omega
  · left; omega

/-- `tiles` below a prefix, with the segment end moving -/
theorem sg_tiles_prefix_end (l1 : List Ent) {m m' : Ent} {r r' : List Ent} {e e' : Nat}
    (h8 : 8 ≤ m.size → 8 ≤ m'.size)
    (hr : ∀ a, tiles (m :: r) a e = true → tiles (m' :: r') a e' = true) :
    ∀ a, tiles (l1 ++ m :: r) a e = true → tiles (l1 ++ m' :: r') a e' = true := by
  induction l1 with
  | nil => exact hr
  | cons x xs ih =>
    intro a h
    cases xs with
    | nil =>
      simp only [List.cons_append, List.nil_append, tiles, Bool.and_eq_true, decide_eq_true_eq] at h ⊢
      exact ⟨⟨h.1.1, h8 h.1.2⟩, hr _ h.2⟩
    | cons z zs =>
      simp only [List.cons_append, tiles, Bool.and_eq_true, decide_eq_true_eq] at h ⊢
      exact ⟨h.1, ih _ h.2⟩

theorem sg_segEnts_congr {l : List Ent} {g g' : Seg} (h : ∀ e ∈ l, inSeg g' e = inSeg g e) :
    segEnts l g' = segEnts l g := by
  unfold segEnts
  exact List.filter_congr h

/-- `isRecord` only reads the record addresses -/
theorem sg_isRecord_congr {segs segs' : List Seg} (h : segs'.map (·.recAt) = segs.map (·.recAt)) (e : Ent) :
    isRecord segs' e = isRecord segs e := by
  have : ∀ l : List Seg, isRecord l e = (l.map (·.recAt)).any (fun r => decide (r = e.addr + 16)) := by
    intro l; unfold isRecord; rw [List.any_map]; rfl
  rw [this, this, h]

theorem sg_segsOk_cons {s : St} {g : Seg} {rest : List Seg} (hs : segsOk s = true) (hsegs : s.segs = g :: rest) :
    (∀ x ∈ rest, g.base + g.size ≤ x.base ∨ x.base + x.size ≤ g.base) ∧ segsDisjoint rest = true ∧
    ∀ x ∈ g :: rest, x.base % 4096 = 0 ∧ x.size % 4096 = 0 ∧ 0 < x.base ∧ 80 < x.size ∧ s.least_addr ≤ x.base ∧
      x.base + x.size ≤ 2 ^ 64 := by
  unfold segsOk at hs
  rw [hsegs] at hs
  simp only [segsDisjoint, Bool.and_eq_true, List.all_eq_true, Bool.or_eq_true, decide_eq_true_eq,
    top_foot_size_eq] at hs
  refine ⟨hs.1.1, hs.1.2, ?_⟩
  intro x hx
  have := hs.2 x hx
  omega

theorem sg_segsOk_of {s : St} {g : Seg} {rest : List Seg} (hsegs : s.segs = g :: rest)
    (h1 : ∀ x ∈ rest, g.base + g.size ≤ x.base ∨ x.base + x.size ≤ g.base) (h2 : segsDisjoint rest = true)
    (h3 : ∀ x ∈ g :: rest, x.base % 4096 = 0 ∧ x.size % 4096 = 0 ∧ 0 < x.base ∧ 80 < x.size ∧ s.least_addr ≤ x.base ∧
      x.base + x.size ≤ 2 ^ 64) : segsOk s = true := by
  unfold segsOk
  rw [hsegs]
  simp only [segsDisjoint, Bool.and_eq_true, List.all_eq_true, Bool.or_eq_true, decide_eq_true_eq,
    top_foot_size_eq]
  refine ⟨⟨h1, h2⟩, ?_⟩
  intro x hx
  have := h3 x hx
  omega

/-- **the head segment reshaped at its end** (`sys-extend`: the segment grows by a fresh mapping; `trim_top`:
it shrinks): the window `[top, foot]` becomes `[top', foot']` with the same `top` address, the head segment
gets the size `newsize`, everything else is unchanged. -/
theorem sg_retop {s s' : St} (hi : SInv s)
    {g0 : Seg} {rest : List Seg} {pre post : List Ent} {x f x' f' : Ent} {n newsize : Nat}
    (hsegs : s.segs = g0 :: rest) (hes : s.h.ents = pre ++ [x, f] ++ post)
    (hxa : x.addr = s.h.top) (hxf : isFree x = true) (hxs : x.size = s.h.topsize)
    (hfa : f.addr = s.h.top + s.h.topsize) (hfc : f.cin = false) (hfp : f.pin = false) (hfs : f.size = 80)
    (hgb : g0.base ≤ s.h.top) (hgt : s.h.top + s.h.topsize + 80 = g0.base + g0.size)
    (hents' : s'.h.ents = pre ++ [x', f'] ++ post)
    (x1 : x'.addr = s.h.top) (x2 : x'.size = n) (x3 : x'.cin = false) (x4 : x'.pin = true)
    (f1 : f'.addr = s.h.top + n) (f2 : f'.size = 80) (f3 : f'.cin = false) (f4 : f'.pin = false)
    (hsegs' : s'.segs = { g0 with size := newsize } :: rest)
    (hn16 : n % 16 = 0) (hn : 16 ≤ n) (hend : s.h.top + n + 80 = g0.base + newsize)
    (hns : newsize % 4096 = 0) (hlim : g0.base + newsize ≤ 2 ^ 64)
    (hdisj : ∀ g ∈ rest, g0.base + newsize ≤ g.base ∨ g.base + g.size ≤ g0.base)
    (hpost : ∀ q ∈ post, g0.base + newsize ≤ q.addr)
    (hsb : s'.h.sbins = s.h.sbins) (htb : s'.h.tbins = s.h.tbins) (hdv : s'.h.dv = s.h.dv)
    (hdvs : s'.h.dvsize = s.h.dvsize) (htop : s'.h.top = s.h.top) (htops : s'.h.topsize = n)
    (hla : s'.least_addr = s.least_addr) :
    SInv s' ∧ SameUsers s s' := by
  have w := hi.wfs
  have hho := hi.head
  have hg0 : g0 ∈ s.segs := by rw [hsegs]; exact List.mem_cons_self
  have hrestm : ∀ g ∈ rest, g ∈ s.segs := fun g hg => by rw [hsegs]; exact List.mem_cons_of_mem _ hg
  obtain ⟨d1, d2, d3⟩ := sg_segsOk_cons w.segs hsegs
  have hxm : x ∈ s.h.ents := by rw [hes]; simp
  have hfm : f ∈ s.h.ents := by rw [hes]; simp
  obtain ⟨hxc, hxp⟩ := isFree_iff.1 hxf
  have htop16 : s.h.top % 16 = 0 := by rw [← hxa]; exact (shapeOk_free w.shape hxm hxc).1
  have hok := w.ents
  rw [hes] at hok
  have hok2 : entsOk (pre ++ x :: f :: post) = true := by simpa using hok
  obtain ⟨o1, o2, o3, o4, o5⟩ := entsOk_mid2 hok2
  have hrec0 : g0.recAt = 0 := by
    have ht := w.top
    unfold topOk at ht
    simp only [hsegs, Bool.and_eq_true, decide_eq_true_eq] at ht
    exact ht.1.1.2
  have htop0 : s.h.top ≠ 0 := by
    have ht := w.top
    unfold topOk at ht
    simp only [hsegs, Bool.and_eq_true, decide_eq_true_eq] at ht
    exact ht.1.1.1.1.1.1
  have hgx : inSeg g0 x = true := by rw [inSeg_iff]; omega
  have hgf : inSeg g0 f = true := by rw [inSeg_iff]; omega
  have hffree : isFree f = false := by simp [isFree, hfp]
  have hf'free : isFree f' = false := by simp [isFree, f4]
  -- the rest of the table relative to the head segment
  have hpre_in : ∀ e ∈ pre, inSeg { g0 with size := newsize } e = inSeg g0 e := by
    intro e he
    have := o1 e he
    cases h1 : inSeg g0 e with
    | true => rw [inSeg_iff] at h1 ⊢; simp only; omega
    | false =>
      cases h2 : inSeg { g0 with size := newsize } e with
      | false => rfl
      | true =>
        exfalso
        rw [inSeg_iff] at h2; simp only at h2
        have : inSeg g0 e = true := by rw [inSeg_iff]; omega
        rw [h1] at this; cases this
  have hpost_out : ∀ e ∈ post, inSeg g0 e = false := by
    intro e he
    have := o5 e he
    cases h1 : inSeg g0 e with
    | false => rfl
    | true => rw [inSeg_iff] at h1; omega
  have hpost_out' : ∀ e ∈ post, inSeg { g0 with size := newsize } e = false := by
    intro e he
    have := hpost e he
    cases h1 : inSeg { g0 with size := newsize } e with
    | false => rfl
    | true => rw [inSeg_iff] at h1; simp only at h1; omega
  have hmid_in' : ∀ e ∈ [x', f'], inSeg { g0 with size := newsize } e = true := by
    intro e he
    simp only [List.mem_cons, List.not_mem_nil, or_false] at he
    rcases he with rfl | rfl <;> (rw [inSeg_iff]; simp only; omega)
  have hmid_in : ∀ e ∈ [x, f], inSeg g0 e = true := by
    intro e he
    simp only [List.mem_cons, List.not_mem_nil, or_false] at he
    rcases he with rfl | rfl <;> assumption
  have hmid_rest : ∀ g ∈ rest, ∀ e ∈ [x, f], inSeg g e = false := by
    intro g hg e he
    exact inSeg_false_of_disjoint (hmid_in e he) (d1 g hg)
  have hmid_rest' : ∀ g ∈ rest, ∀ e ∈ [x', f'], inSeg g e = false := by
    intro g hg e he
    refine inSeg_false_of_disjoint (g := { g0 with size := newsize }) (hmid_in' e he) ?_
    exact hdisj g hg
  have hseg0 : segEnts s.h.ents g0 = segEnts pre g0 ++ [x, f] := by
    rw [hes, segEnts_window hmid_in, segEnts_none hpost_out, List.append_nil]
  have hseg0' : segEnts s'.h.ents { g0 with size := newsize } = segEnts pre g0 ++ [x', f'] := by
    rw [hents', segEnts_window hmid_in', segEnts_none hpost_out', List.append_nil, sg_segEnts_congr hpre_in]
  have hsegr : ∀ g ∈ rest, segEnts s'.h.ents g = segEnts s.h.ents g := by
    intro g hg
    rw [hents', hes, segEnts_window_other (hmid_rest' g hg), segEnts_window_other (hmid_rest g hg)]
  -- sortedness of the new table
  have hok' : entsOk s'.h.ents = true := by
    rw [hents']
    refine entsOk_window hok (lo := s.h.top) (hi := g0.base + newsize) ?_ hpost ?_ ?_
    · intro p hp; have := o1 p hp; omega
    · simp only [entsOk, Bool.and_eq_true, decide_eq_true_eq]; omega
    · intro e he
      simp only [List.mem_cons, List.not_mem_nil, or_false] at he
      rcases he with rfl | rfl <;> omega
  have hx'm : x' ∈ s'.h.ents := by rw [hents']; simp
  have hf'm : f' ∈ s'.h.ents := by rw [hents']; simp
  have hmem' : ∀ e ∈ s'.h.ents, (e ∈ s.h.ents ∧ (e ∈ pre ∨ e ∈ post)) ∨ e = x' ∨ e = f' := by
    intro e he
    rw [hents'] at he
    simp only [List.mem_append, List.mem_cons, List.not_mem_nil, or_false] at he
    rcases he with (h | h | h) | h
    · exact Or.inl ⟨by rw [hes]; simp [h], Or.inl h⟩
    · exact Or.inr (Or.inl h)
    · exact Or.inr (Or.inr h)
    · exact Or.inl ⟨by rw [hes]; simp [h], Or.inr h⟩
  have hold_mem : ∀ e, e ∈ pre ∨ e ∈ post → e ∈ s'.h.ents := by
    intro e he
    rw [hents']
    rcases he with h | h <;> simp [h]
  have hrecs : s'.segs.map (·.recAt) = s.segs.map (·.recAt) := by rw [hsegs', hsegs]; rfl
  have hfl : Dl.freeList s'.h = Dl.freeList s.h := by unfold Dl.freeList binned; rw [htop, hdv, hsb, htb]
  have hfreemid : ∀ e ∈ [x, f], isFree e = true → e.addr = s.h.top ∨ e.addr = s.h.dv := by
    intro e he hf
    simp only [List.mem_cons, List.not_mem_nil, or_false] at he
    rcases he with rfl | rfl
    · exact Or.inl hxa
    · rw [hffree] at hf; cases hf
  have hbins := bins_window w hes hents' hok' hsb htb hfreemid
  refine ⟨⟨⟨hok', ?_, ?_, ?_, ?_, ?_, hbins.1, hbins.2, ?_, ?_, ?_⟩, ?_, ?_, ?_, ?_, ?_⟩, ?_⟩
  · -- shapeOk
    rw [hents']
    have := w.shape
    rw [hes] at this
    refine shapeOk_window this ?_
    simp only [shapeOk, List.all_cons, List.all_nil, Bool.and_true, Bool.and_eq_true, Bool.or_eq_true,
      decide_eq_true_eq]
    exact ⟨Or.inr ⟨⟨by omega, by omega⟩, by omega⟩, Or.inr ⟨⟨by omega, by omega⟩, by omega⟩⟩
  · -- allInSegs
    simp only [List.all_eq_true, List.any_eq_true]
    intro e he
    rw [hsegs']
    rcases hmem' e he with ⟨h0, h⟩ | h | h
    · obtain ⟨g, hg, hge⟩ := w.struct.seg_of h0
      rw [hsegs] at hg
      rcases List.mem_cons.1 hg with hg | hg
      · subst hg
        rcases h with h | h
        · exact ⟨_, List.mem_cons_self, by rw [hpre_in e h]; exact hge⟩
        · rw [hpost_out e h] at hge; cases hge
      · exact ⟨g, List.mem_cons_of_mem _ hg, hge⟩
    · exact ⟨_, List.mem_cons_self, hmid_in' e (by simp [h])⟩
    · exact ⟨_, List.mem_cons_self, hmid_in' e (by simp [h])⟩
  · -- tiles
    rw [hsegs']
    simp only [List.all_cons, Bool.and_eq_true, List.all_eq_true]
    constructor
    · rw [hseg0']
      have ht := w.struct.tiles_of hg0
      rw [hseg0] at ht
      refine sg_tiles_prefix_end (segEnts pre g0) (m := x) (r := [f]) (m' := x') (r' := [f']) (by omega) ?_ _ ht
      intro a h
      simp only [tiles, isTrailerEnd, Bool.and_eq_true, Bool.or_eq_true, decide_eq_true_eq] at h ⊢
      rw [f3, f4]
      refine ⟨⟨by omega, by omega⟩, ⟨by omega, Or.inl (by omega)⟩, Or.inl (by simp)⟩
    · intro g hg
      rw [hsegr g hg]
      exact w.struct.tiles_of (hrestm g hg)
  · -- tagsOk
    rw [hsegs', htop]
    simp only [List.all_cons, Bool.and_eq_true, List.all_eq_true]
    constructor
    · rw [hseg0']
      have ht := w.struct.tags_of hg0
      rw [hseg0] at ht
      have := tagsOk_window (top := s.h.top) (top' := s.h.top) (pc := true) (l1 := segEnts pre g0) (l2 := [])
        (m := x) (ms := [f]) (m' := x') (ms' := [f']) (by simpa using ht) (fun _ _ => Iff.rfl) (fun _ _ => Iff.rfl)
        ⟨by rw [x4, hxp], fun h => by rw [hxp] at h; cases h⟩
        ⟨by simp only [lastE]; rw [f3, hfc], fun hf => by simp only [lastE] at hf; rw [hf'free] at hf; cases hf⟩
        (by simp [tagsFrom, linkOk, isFree, x1, x3, x4, f3, f4])
      simpa using this
    · intro g hg
      rw [hsegr g hg]
      exact w.struct.tags_of (hrestm g hg)
  · -- freeListOk
    have hnd := ((freeListOk_iff s.h).1 w.freeList).1
    refine freeListOk_window hes hents' w.ents hok' w.freeList (by rw [hfl]; exact hnd) ?_
    intro a
    have fs1 : freeSet [x, f] = [s.h.top] := by simp [freeSet, List.filter, hxf, hffree, hxa]
    have fs2 : freeSet [x', f'] = [s.h.top] := by simp [freeSet, List.filter, isFree, x3, x4, f4, x1]
    rw [hfl, fs1, fs2]
    have htm : s.h.top ∈ Dl.freeList s.h := by rw [freeList_top htop0]; simp
    simp only [List.mem_singleton]
    constructor
    · intro h
      by_cases hat : a = s.h.top
      · exact Or.inr hat
      · exact Or.inl ⟨h, hat⟩
    · rintro (⟨h, _⟩ | h)
      · exact h
      · rw [h]; exact htm
  · -- dvOk
    refine dvOk_window w hes hents' hok' hdv hdvs ?_
    intro e he hf
    simp only [List.mem_cons, List.not_mem_nil, or_false] at he
    rcases he with rfl | rfl
    · rw [hxa]; exact fun h => w.dv_ne_top htop0 h.symm
    · rw [hffree] at hf; cases hf
  · -- topOk
    unfold topOk
    rw [hsegs', htop, htops]
    have e1 := entsOk_find x' hx'm hok'
    have e2 := entsOk_find f' hf'm hok'
    rw [x1] at e1
    rw [f1] at e2
    simp only [e1, e2, isFree, x2, x3, x4, f2, f3, f4, top_foot_size_eq, Bool.and_eq_true, decide_eq_true_eq]
    sg_omega
  · -- segsOk
    refine sg_segsOk_of hsegs' hdisj d2 ?_
    intro g hg
    rcases List.mem_cons.1 hg with hg | hg
    · subst hg
      have := d3 g0 List.mem_cons_self
      simp only
      rw [hla]
      omega
    · have := d3 g (List.mem_cons_of_mem _ hg)
      rw [hla]; exact this
  · -- RecsOk
    intro g hg hne
    rw [hsegs'] at hg
    rcases List.mem_cons.1 hg with hg | hg
    · subst hg; exact absurd hrec0 hne
    · obtain ⟨h16, e, he, hc⟩ := hi.recs g (hrestm g hg) hne
      obtain ⟨hm, ha⟩ := findEnt_some he
      refine ⟨h16, e, ?_, hc⟩
      rw [← ha]
      refine entsOk_find e (hold_mem e ?_) hok'
      rw [hes] at hm
      simp only [List.mem_append, List.mem_cons, List.not_mem_nil, or_false] at hm
      rcases hm with (h | h | h) | h
      · exact Or.inl h
      · subst h; rw [hxc] at hc; cases hc
      · subst h; rw [hfc] at hc; cases hc
      · exact Or.inr h
  · -- FenceOk
    rw [sg_fenceOk_iff_tab hok']
    have hold := (sg_fenceOk_iff_tab w.ents).1 hi.fence
    intro a ha b hb h8 hadj
    have hb0 : b ∈ s.h.ents ∧ (b ∈ pre ∨ b ∈ post) := by
      rcases hmem' b hb with h | h | h
      · exact h
      · rw [h, x2] at h8; omega
      · rw [h, f2] at h8; omega
    rcases hmem' a ha with h | h | h
    · rw [sg_isRecord_congr hrecs]
      exact hold a h.1 b hb0.1 h8 hadj
    · exfalso
      rw [h, x1, x2] at hadj
      have := entsOk_addr_inj hok' hb hf'm (by omega)
      rw [this, f2] at h8; omega
    · exfalso
      rw [h, f1, f2] at hadj
      -- a fencepost right after the new foot word would be the first header of a segment
      rcases hb0.2 with hbp | hbp
      · have := o1 b hbp; omega
      · obtain ⟨g, hg, hge⟩ := w.struct.seg_of hb0.1
        rw [hsegs] at hg
        rcases List.mem_cons.1 hg with hg | hg
        · subst hg; rw [hpost_out b hbp] at hge; cases hge
        · rw [inSeg_iff] at hge
          have hbase : b.addr = g.base := by
            rcases hdisj g hg with h1 | h1 <;> omega
          exact hho g (hrestm g hg) b hb0.1 hbase h8
  · -- TailOk
    intro g hg hne e he hge
    rw [hsegs'] at hg
    rcases List.mem_cons.1 hg with hg | hg
    · subst hg; exact absurd hrec0 hne
    · rw [sg_isRecord_congr hrecs]
      rcases hmem' e he with h | h | h
      · exact hi.tail g (hrestm g hg) hne e h.1 hge
      · rw [hmid_rest' g hg e (by simp [h])] at hge; cases hge
      · rw [hmid_rest' g hg e (by simp [h])] at hge; cases hge
  · -- HeadOk
    intro g hg e he hb
    rw [hsegs'] at hg
    have hg' : ∃ g1 ∈ s.segs, g1.base = g.base := by
      rcases List.mem_cons.1 hg with hg | hg
      · exact ⟨g0, hg0, by rw [hg]⟩
      · exact ⟨g, hrestm g hg, rfl⟩
    obtain ⟨g1, hg1, hb1⟩ := hg'
    rcases hmem' e he with h | h | h
    · exact hho g1 hg1 e h.1 (by omega)
    · rw [h, x2]; omega
    · rw [h, f2]; omega
  · -- RecIn
    intro g hg hne
    rw [hsegs'] at hg
    rcases List.mem_cons.1 hg with hg | hg
    · subst hg; exact absurd hrec0 hne
    · exact hi.recin g (hrestm g hg) hne
  · -- SameUsers
    intro a z
    rw [sg_user_iff_mem hok', sg_user_iff_mem w.ents]
    constructor
    · rintro ⟨e, he, h1, h2, h3, h4, h5⟩
      rcases hmem' e he with h | h | h
      · exact ⟨e, h.1, h1, h2, h3, h4, by rw [← sg_isRecord_congr hrecs]; exact h5⟩
      · rw [h, x3] at h2; cases h2
      · rw [h, f3] at h2; cases h2
    · rintro ⟨e, he, h1, h2, h3, h4, h5⟩
      refine ⟨e, hold_mem e ?_, h1, h2, h3, h4, by rw [sg_isRecord_congr hrecs]; exact h5⟩
      rw [hes] at he
      simp only [List.mem_append, List.mem_cons, List.not_mem_nil, or_false] at he
      rcases he with (h | h | h) | h
      · exact Or.inl h
      · subst h; rw [hxc] at h2; cases h2
      · subst h; rw [hfc] at h2; cases h2
      · exact Or.inr h

theorem sg_headOk_same {s s' : St} (hh : HeadOk s) (he : s'.h.ents = s.h.ents) (hs : s'.segs = s.segs) : HeadOk s' := by
  intro g hg e hem
  rw [hs] at hg; rw [he] at hem
  exact hh g hg e hem

/-- a table all of whose fenceposts are old fenceposts (same address), under a segment list with the same
bases: `HeadOk` carries over -/
theorem sg_headOk_of_old {s s' : St} (hh : HeadOk s) (hs : ∀ g ∈ s'.segs, ∃ g1 ∈ s.segs, g1.base = g.base)
    (h1 : ∀ y' ∈ s'.h.ents, y'.size = 8 → ∃ y ∈ s.h.ents, y.addr = y'.addr ∧ y.size = 8) : HeadOk s' := by
  intro g hg e he hb h8
  obtain ⟨g1, hg1, hb1⟩ := hs g hg
  obtain ⟨y, hy, hya, hy8⟩ := h1 e he h8
  exact hh g1 hg1 y hy (by omega) hy8

/-! ## 5. a segment's headers are a contiguous block of the sorted table -/

theorem sg_addr_lt_of_entsOk {a : Ent} {r : List Ent} (h : entsOk (a :: r) = true) : ∀ b ∈ r, a.addr < b.addr := by
  intro b hb
  have h1 := entsOk_head_le h b hb
  have h2 := entsOk_pos h a List.mem_cons_self
  omega

/-- the table splits into the headers below a segment, the segment's headers, the headers above it -/
theorem sg_seg_split {es : List Ent} (hok : entsOk es = true) (g : Seg) :
    ∃ pre post, es = pre ++ segEnts es g ++ post ∧ (∀ e ∈ pre, e.addr < g.base) ∧
      (∀ e ∈ post, g.base + g.size ≤ e.addr) := by
  induction es with
  | nil => exact ⟨[], [], rfl, by simp, by simp⟩
  | cons a r ih =>
    obtain ⟨pre, post, hr, h1, h2⟩ := ih (entsOk_tail hok)
    have hlt := sg_addr_lt_of_entsOk hok
    by_cases c1 : a.addr < g.base
    · have hns : inSeg g a = false := by
        cases h : inSeg g a with
        | false => rfl
        | true => rw [inSeg_iff] at h; omega
      refine ⟨a :: pre, post, ?_, ?_, h2⟩
      · simp only [segEnts, List.filter, hns, List.cons_append]
        congr 1
      · intro e he
        rcases List.mem_cons.1 he with rfl | he
        · exact c1
        · exact h1 e he
    · have hpre : pre = [] := by
        cases pre with
        | nil => rfl
        | cons p ps =>
          exfalso
          have hp : p ∈ r := by rw [hr]; simp
          have := hlt p hp
          have := h1 p List.mem_cons_self
          omega
      subst hpre
      by_cases c2 : a.addr < g.base + g.size
      · have hs : inSeg g a = true := by rw [inSeg_iff]; omega
        refine ⟨[], post, ?_, by simp, h2⟩
        simp only [segEnts, List.filter, hs, List.nil_append, List.cons_append]
        congr 1
      · have hns : inSeg g a = false := by
          cases h : inSeg g a with
          | false => rfl
          | true => rw [inSeg_iff] at h; omega
        have hmid : segEnts r g = [] := by
          apply segEnts_none
          intro e he
          have := hlt e he
          cases h : inSeg g e with
          | false => rfl
          | true => rw [inSeg_iff] at h; omega
        refine ⟨[], a :: post, ?_, by simp, ?_⟩
        · have hrp : r = post := by rw [hmid] at hr; simpa using hr
          have hmid' : List.filter (inSeg g) r = [] := hmid
          simp only [segEnts, List.filter, hns, List.nil_append]
          rw [hmid', ← hrp]; rfl
        · intro e he
          rcases List.mem_cons.1 he with rfl | he
          · omega
          · exact h2 e he

/-- dropping the headers of a segment from the table -/
theorem sg_filter_seg {pre mid post : List Ent} {g : Seg} (h1 : ∀ e ∈ pre, e.addr < g.base)
    (hm : ∀ e ∈ mid, inSeg g e = true) (h2 : ∀ e ∈ post, g.base + g.size ≤ e.addr) :
    (pre ++ mid ++ post).filter (fun e => !(decide (g.base ≤ e.addr) && decide (e.addr < g.top))) = pre ++ post := by
  rw [List.filter_append, List.filter_append]
  have e1 : pre.filter (fun e => !(decide (g.base ≤ e.addr) && decide (e.addr < g.top))) = pre := by
    apply List.filter_eq_self.2
    intro q hq
    have := h1 q hq
    simp only [Bool.not_eq_true', Bool.and_eq_false_iff, decide_eq_false_iff_not]
    left; omega
  have e2 : post.filter (fun e => !(decide (g.base ≤ e.addr) && decide (e.addr < g.top))) = post := by
    apply List.filter_eq_self.2
    intro q hq
    have := h2 q hq
    unfold Seg.top
    simp only [Bool.not_eq_true', Bool.and_eq_false_iff, decide_eq_false_iff_not]
    right; omega
  have e3 : mid.filter (fun e => !(decide (g.base ≤ e.addr) && decide (e.addr < g.top))) = [] := by
    apply List.filter_eq_nil_iff.2
    intro q hq
    have := inSeg_iff.1 (hm q hq)
    unfold Seg.top
    simp only [Bool.not_eq_true', Bool.and_eq_false_iff, decide_eq_false_iff_not]
    omega
  rw [e1, e2, e3, List.append_nil]

/-! ### disjoint segment lists -/

theorem sg_segsDisjoint_iff (l : List Seg) :
    segsDisjoint l = true ↔ l.Pairwise (fun a b => a.base + a.size ≤ b.base ∨ b.base + b.size ≤ a.base) := by
  induction l with
  | nil => simp [segsDisjoint]
  | cons g gs ih =>
    simp only [segsDisjoint, Bool.and_eq_true, List.all_eq_true, Bool.or_eq_true, decide_eq_true_eq,
      List.pairwise_cons, ih]

theorem sg_segsDisjoint_sublist {l l' : List Seg} (h : segsDisjoint l = true) (hs : l'.Sublist l) :
    segsDisjoint l' = true := by
  rw [sg_segsDisjoint_iff] at h ⊢
  exact h.sublist hs

/-- the other segments of a disjoint list are disjoint from `g` -/
theorem sg_disjoint_of_split {pref rest : List Seg} {g : Seg} (h : segsDisjoint (pref ++ g :: rest) = true) :
    ∀ g' ∈ pref ++ rest, g.base + g.size ≤ g'.base ∨ g'.base + g'.size ≤ g.base := by
  rw [sg_segsDisjoint_iff, List.pairwise_append] at h
  obtain ⟨_, h2, h3⟩ := h
  intro g' hg'
  rcases List.mem_append.1 hg' with hg' | hg'
  · have := h3 g' hg' g List.mem_cons_self
    omega
  · exact (List.pairwise_cons.1 h2).1 g' hg'

/-! ## 6. a whole segment disappears (`releaseLoop`) -/

theorem sg_isRecord_drop {pref rest : List Seg} {g : Seg} {e : Ent}
    (h : isRecord (pref ++ g :: rest) e = true) (hg : g.recAt ≠ e.addr + 16) : isRecord (pref ++ rest) e = true := by
  rw [sg_isRecord_iff] at h ⊢
  obtain ⟨g', hg', hr⟩ := h
  simp only [List.mem_append, List.mem_cons] at hg'
  rcases hg' with h1 | h1 | h1
  · exact ⟨g', by simp [h1], hr⟩
  · subst h1; exact absurd hr hg
  · exact ⟨g', by simp [h1], hr⟩

theorem sg_isRecord_mono {pref rest : List Seg} {g : Seg} {e : Ent}
    (h : isRecord (pref ++ rest) e = true) : isRecord (pref ++ g :: rest) e = true := by
  rw [sg_isRecord_iff] at h ⊢
  obtain ⟨g', hg', hr⟩ := h
  refine ⟨g', ?_, hr⟩
  simp only [List.mem_append, List.mem_cons] at hg' ⊢
  rcases hg' with h1 | h1
  · exact Or.inl h1
  · exact Or.inr (Or.inr h1)

/-- every header size fits a machine word -/
theorem sg_entsLt {s : St} (w : WFS s) : EntsLt s.h.ents := by
  intro a e he
  obtain ⟨hm, _⟩ := findEnt_some he
  obtain ⟨g, hg, hge⟩ := w.struct.seg_of hm
  have := w.struct.in_seg hg hm hge
  have hs := w.segs
  unfold segsOk at hs
  simp only [Bool.and_eq_true, List.all_eq_true, decide_eq_true_eq] at hs
  have := hs.2 g hg
  simp only [U64]; omega

/-- a record chunk is in use -/
theorem sg_record_cin {s : St} (hi : SInv s) {e : Ent} (he : e ∈ s.h.ents) (hr : isRecord s.segs e = true) :
    e.cin = true := by
  obtain ⟨g, hg, hga⟩ := sg_isRecord_iff.1 hr
  obtain ⟨_, e2, he2, hc⟩ := hi.recs g hg (by omega)
  rw [hga, show e.addr + 16 - 16 = e.addr by omega, entsOk_find e he hi.wfs.ents] at he2
  injection he2 with he2
  subst he2; exact hc

/-- **a non-head segment disappears**: its first chunk is free and reaches the last 80 bytes; `H1` is the heap
after that chunk left the free lists (`dv` cleared or unlinked from its tree bin), `V'` the state after the
headers of the segment were dropped and the segment removed from the list -/
theorem sg_release_seg {V V' : St} (hi : SInv V) {pref rest : List Seg} {g : Seg}
    (hsegs : V.segs = pref ++ g :: rest) (hpref : pref ≠ []) (hrec : g.recAt ≠ 0)
    {e0 : Ent} (he0 : findEnt V.h.ents g.base = some e0) (hfree : isFree e0 = true)
    (hreach : g.base + g.size ≤ g.base + e0.size + 80)
    {H1 : Heap} (h1e : H1.ents = V.h.ents) (h1t : H1.top = V.h.top)
    (hflp : List.Perm (freeList V.h) (g.base :: freeList H1))
    (h1sb : sbinsOk H1 = true) (h1tb : tbinsOk H1 = true) (h1dv : dvOk H1 = true)
    (hents' : V'.h.ents = V.h.ents.filter (fun e => !(decide (g.base ≤ e.addr) && decide (e.addr < g.top))))
    (hsb' : V'.h.sbins = H1.sbins) (htb' : V'.h.tbins = H1.tbins) (hdv' : V'.h.dv = H1.dv)
    (hdvs' : V'.h.dvsize = H1.dvsize) (htop' : V'.h.top = V.h.top) (htops' : V'.h.topsize = V.h.topsize)
    (hsegs' : V'.segs = pref ++ rest) (hla' : V'.least_addr = V.least_addr) :
    SInv V' ∧ SameUsers V V' := by
  have w := hi.wfs
  have hgm : g ∈ V.segs := by rw [hsegs]; simp
  have hsub : ∀ g' ∈ pref ++ rest, g' ∈ V.segs := by
    intro g' hg'
    rw [hsegs]
    simp only [List.mem_append, List.mem_cons] at hg' ⊢
    rcases hg' with h | h
    · exact Or.inl h
    · exact Or.inr (Or.inr h)
  have hdis := sg_disjoint_of_split (hsegs ▸ w.segsDisjoint)
  have hsg := w.segs
  unfold segsOk at hsg
  simp only [Bool.and_eq_true, List.all_eq_true, decide_eq_true_eq, top_foot_size_eq] at hsg
  have hgsz := hsg.2 g hgm
  -- the table around the segment
  obtain ⟨pre, post, hsplit, hprelt, hpostge⟩ := sg_seg_split w.ents g
  have hmid_in : ∀ e ∈ segEnts V.h.ents g, e ∈ V.h.ents ∧ inSeg g e = true := fun e he => mem_segEnts.1 he
  generalize segEnts V.h.ents g = mid at hsplit hmid_in
  have hes' : V'.h.ents = pre ++ post := by
    rw [hents', hsplit]
    exact sg_filter_seg hprelt (fun e he => (hmid_in e he).2) hpostge
  have hout : ∀ e, e ∈ pre ∨ e ∈ post → inSeg g e = false := by
    intro e he
    cases h : inSeg g e with
    | false => rfl
    | true =>
      rw [inSeg_iff] at h
      rcases he with he | he
      · have := hprelt e he; omega
      · have := hpostge e he; omega
  have hnew_old : ∀ e ∈ V'.h.ents, e ∈ V.h.ents ∧ inSeg g e = false := by
    intro e he
    rw [hes'] at he
    have he' := List.mem_append.1 he
    refine ⟨?_, hout e he'⟩
    rw [hsplit]
    rcases he' with h | h <;> simp [h]
  have hold_new : ∀ e ∈ V.h.ents, inSeg g e = false → e ∈ V'.h.ents := by
    intro e he hn
    rw [hes']
    rw [hsplit] at he
    simp only [List.mem_append] at he ⊢
    rcases he with (h | h) | h
    · exact Or.inl h
    · rw [(hmid_in e h).2] at hn; cases hn
    · exact Or.inr h
  have hok' : entsOk V'.h.ents = true := by
    have hok := w.ents
    rw [hsplit, List.append_assoc] at hok
    obtain ⟨a1, a2, a3⟩ := entsOk_append.1 hok
    obtain ⟨_, a5, _⟩ := entsOk_append.1 a2
    rw [hes']
    exact entsOk_append.2 ⟨a1, a5, fun a ha b hb => a3 a ha b (List.mem_append.2 (Or.inr hb))⟩
  have hfind : ∀ e ∈ V.h.ents, inSeg g e = false → findEnt V'.h.ents e.addr = findEnt V.h.ents e.addr := by
    intro e he hn
    rw [entsOk_find e (hold_new e he hn) hok', entsOk_find e he w.ents]
  -- the first chunk and the rest of the segment
  obtain ⟨he0m, he0a⟩ := findEnt_some he0
  obtain ⟨he0c, he0p⟩ := isFree_iff.1 hfree
  obtain ⟨_, he0s16, he0s⟩ := shapeOk_free w.shape he0m he0c
  have he0g : inSeg g e0 = true := by rw [inSeg_iff]; omega
  have he0end : e0.addr + e0.size + 80 = g.base + g.size := by
    rcases hi.tail g hgm hrec e0 he0m he0g with h | h | h
    · omega
    · have := sg_record_cin hi he0m h
      rw [he0c] at this; cases this
    · omega
  have hmid_other : ∀ e ∈ V.h.ents, inSeg g e = true → e ≠ e0 →
      e.cin = true ∧ (e.size = 8 ∨ isRecord V.segs e = true) := by
    intro e he hge hne
    have hpos := entsOk_pos w.ents e he
    rcases hi.tail g hgm hrec e he hge with h | h | h
    · exact ⟨(shapeOk_mem w.shape he).elim (fun h' => h'.2.1) (fun h' => by omega), Or.inl h⟩
    · exact ⟨sg_record_cin hi he h, Or.inr h⟩
    · exfalso
      rw [inSeg_iff] at hge
      rcases Nat.lt_or_ge e0.addr e.addr with hlt | hge'
      · have := entsOk_sep w.ents e0 he0m e he hlt
        omega
      · exact hne (entsOk_addr_inj w.ents he he0m (by omega))
  have hfree_out : ∀ e ∈ V.h.ents, isFree e = true → e.addr ≠ g.base → inSeg g e = false := by
    intro e he hf hne
    cases h : inSeg g e with
    | false => rfl
    | true =>
      have hne0 : e ≠ e0 := fun h0 => hne (by rw [h0, he0a])
      have := (hmid_other e he h hne0).1
      rw [(isFree_iff.1 hf).1] at this; cases this
  -- the head segment, `top` and its foot word
  obtain ⟨g0, pref', hpc⟩ : ∃ g0 pref', pref = g0 :: pref' := by
    cases pref with
    | nil => exact absurd rfl hpref
    | cons a l => exact ⟨a, l, rfl⟩
  subst hpc
  obtain ⟨g0', rest0, tpre, xt, ft, tpost, hsegs0, htes, hxta, hxtf, hxts, hfta, hftc, hftp, hfts, hgb, hgt, htop0, hgxt, hgft⟩ :=
    w.top_parts (w.topsize_ne hgm)
  have hg0eq : g0' = g0 := by
    rw [hsegs] at hsegs0
    simp only [List.cons_append, List.cons.injEq] at hsegs0
    exact hsegs0.1.symm
  subst hg0eq
  have hxtm : xt ∈ V.h.ents := by rw [htes]; simp
  have hftm : ft ∈ V.h.ents := by rw [htes]; simp
  have hg0m : g0' ∈ (g0' :: pref') ++ rest := by simp
  have hxt_out : inSeg g xt = false := inSeg_false_of_disjoint hgxt (by have := hdis g0' hg0m; omega)
  have hft_out : inSeg g ft = false := inSeg_false_of_disjoint hgft (by have := hdis g0' hg0m; omega)
  have hrec0 : g0'.recAt = 0 := by
    have ht := w.top
    unfold topOk at ht
    simp only [hsegs0, Bool.and_eq_true, decide_eq_true_eq] at ht
    exact ht.1.1.2
  -- segments other than `g` see the same headers
  have hsegr : ∀ g' ∈ (g0' :: pref') ++ rest, segEnts V'.h.ents g' = segEnts V.h.ents g' := by
    intro g' hg'
    have hd := hdis g' hg'
    have hnone : segEnts mid g' = [] := by
      apply segEnts_none
      intro e he
      exact inSeg_false_of_disjoint (hmid_in e he).2 hd
    rw [hes']
    conv => rhs; rw [hsplit]
    rw [segEnts_append, segEnts_append, segEnts_append, hnone, List.append_nil]
  -- free lists
  have hfl' : Dl.freeList V'.h = Dl.freeList H1 := by
    unfold Dl.freeList binned; rw [htop', ← h1t, hdv', hsb', htb']
  obtain ⟨hnd0, hmem0⟩ := (freeListOk_iff_set w.ents).1 w.freeList
  have hnd1 : (g.base :: Dl.freeList H1).Nodup := hflp.nodup_iff.1 hnd0
  have hmem1 : ∀ a, a ∈ Dl.freeList H1 → a ≠ g.base ∧ ∃ e ∈ V.h.ents, isFree e = true ∧ e.addr = a := by
    intro a ha
    have hne : a ≠ g.base := fun h => (List.nodup_cons.1 hnd1).1 (h ▸ ha)
    have : a ∈ Dl.freeList V.h := hflp.mem_iff.2 (List.mem_cons_of_mem _ ha)
    exact ⟨hne, mem_freeSet.1 ((hmem0 a).1 this)⟩
  have hfind1 : ∀ a ∈ Dl.freeList H1, findEnt V'.h.ents a = findEnt H1.ents a := by
    intro a ha
    obtain ⟨hne, e, he, hf, hea⟩ := hmem1 a ha
    rw [h1e, ← hea]
    exact hfind e he (hfree_out e he hf (by omega))
  refine ⟨⟨⟨hok', ?_, ?_, ?_, ?_, ?_, ?_, ?_, ?_, ?_, ?_⟩, ?_, ?_, ?_, ?_, ?_⟩, ?_⟩
  · -- shapeOk
    have := w.shape
    rw [hsplit] at this
    rw [hes']
    simp only [shapeOk_append, Bool.and_eq_true] at this ⊢
    exact ⟨this.1.1, this.2⟩
  · -- allInSegs
    simp only [List.all_eq_true, List.any_eq_true]
    intro e he
    obtain ⟨heo, hn⟩ := hnew_old e he
    obtain ⟨g', hg', hge⟩ := w.struct.seg_of heo
    rw [hsegs'] 
    rw [hsegs] at hg'
    simp only [List.mem_append, List.mem_cons] at hg' ⊢
    rcases hg' with h | h | h
    · exact ⟨g', Or.inl h, hge⟩
    · subst h; rw [hn] at hge; cases hge
    · exact ⟨g', Or.inr h, hge⟩
  · -- tiles
    rw [hsegs']
    simp only [List.all_eq_true]
    intro g' hg'
    rw [hsegr g' hg']
    exact w.struct.tiles_of (hsub g' hg')
  · -- tagsOk
    rw [hsegs', htop']
    simp only [List.all_eq_true]
    intro g' hg'
    rw [hsegr g' hg']
    exact w.struct.tags_of (hsub g' hg')
  · -- freeListOk
    refine (freeListOk_iff_set hok').2 ⟨by rw [hfl']; exact (List.nodup_cons.1 hnd1).2, ?_⟩
    intro a
    rw [hfl']
    constructor
    · intro ha
      obtain ⟨hne, e, he, hf, hea⟩ := hmem1 a ha
      exact mem_freeSet.2 ⟨e, hold_new e he (hfree_out e he hf (by omega)), hf, hea⟩
    · intro ha
      obtain ⟨e, he, hf, hea⟩ := mem_freeSet.1 ha
      obtain ⟨heo, hn⟩ := hnew_old e he
      have h1 : a ∈ Dl.freeList V.h := (hmem0 a).2 (mem_freeSet.2 ⟨e, heo, hf, hea⟩)
      rcases List.mem_cons.1 (hflp.mem_iff.1 h1) with h | h
      · exfalso
        have : inSeg g e = true := by rw [inSeg_iff]; omega
        rw [hn] at this; cases this
      · exact h
  · -- sbins
    have := sbinsOk_frame (h' := V'.h) h1sb hsb' (fun a ha => hfind1 a (by
      rw [mem_freeList]; exact Or.inr (Or.inr (List.mem_append.2 (Or.inl ha)))))
    exact this
  · -- tbins
    have := tbinsOk_frame (h' := V'.h) h1tb htb' (fun a ha => hfind1 a (by
      rw [mem_freeList]; exact Or.inr (Or.inr (List.mem_append.2 (Or.inr ha)))))
    exact this
  · -- dvOk
    by_cases hd0 : H1.dv = 0
    · unfold dvOk at h1dv ⊢
      rw [hdv', hdvs', if_pos hd0]
      rw [if_pos hd0] at h1dv
      exact h1dv
    · rw [dvOk_frame hdv' hdvs' (hfind1 H1.dv (by rw [mem_freeList]; exact Or.inr (Or.inl ⟨hd0, rfl⟩)))]
      exact h1dv
  · -- topOk
    have ht := w.top
    unfold topOk at ht ⊢
    rw [hsegs0] at ht
    rw [hsegs']
    simp only [List.cons_append] at ht ⊢
    rw [htop', htops']
    have e1 := hfind xt hxtm hxt_out
    have e2 := hfind ft hftm hft_out
    rw [hxta] at e1
    rw [hfta] at e2
    rw [e1, e2]
    exact ht
  · -- segsOk
    unfold segsOk
    rw [hsegs', hla']
    simp only [Bool.and_eq_true, List.all_eq_true, decide_eq_true_eq, top_foot_size_eq]
    refine ⟨sg_segsDisjoint_sublist (hsegs ▸ w.segsDisjoint) ?_, fun g' hg' => hsg.2 g' (hsub g' hg')⟩
    exact List.Sublist.append_left (List.sublist_cons_self g rest) _
  · -- RecsOk
    intro g' hg' hne
    rw [hsegs'] at hg'
    obtain ⟨h16, e, he, hc⟩ := hi.recs g' (hsub g' hg') hne
    obtain ⟨hm, ha⟩ := findEnt_some he
    have hri := hi.recin g' (hsub g' hg') hne
    have hin' : inSeg g' e = true := by rw [inSeg_iff]; omega
    have hng : inSeg g e = false := inSeg_false_of_disjoint hin' (by have := hdis g' hg'; omega)
    refine ⟨h16, e, ?_, hc⟩
    rw [← ha, hfind e hm hng]
    exact entsOk_find e hm w.ents
  · -- FenceOk
    rw [sg_fenceOk_iff_tab hok']
    have hold := (sg_fenceOk_iff_tab w.ents).1 hi.fence
    intro a ha b hb h8 hadj
    obtain ⟨ha0, han⟩ := hnew_old a ha
    obtain ⟨hb0, _⟩ := hnew_old b hb
    rcases hold a ha0 b hb0 h8 hadj with h | h
    · exact Or.inl h
    · right
      rw [hsegs']
      rw [hsegs] at h
      refine sg_isRecord_drop h ?_
      intro hga
      have hri := hi.recin g hgm hrec
      have : inSeg g a = true := by rw [inSeg_iff]; omega
      rw [han] at this; cases this
  · -- TailOk
    intro g' hg' hne e he hge
    rw [hsegs'] at hg' ⊢
    obtain ⟨he0', hen⟩ := hnew_old e he
    rcases hi.tail g' (hsub g' hg') hne e he0' hge with h | h | h
    · exact Or.inl h
    · right; left
      rw [hsegs] at h
      refine sg_isRecord_drop h ?_
      intro hga
      have hri := hi.recin g hgm hrec
      have : inSeg g e = true := by rw [inSeg_iff]; omega
      rw [hen] at this; cases this
    · exact Or.inr (Or.inr h)
  · -- HeadOk
    intro g' hg' e he
    rw [hsegs'] at hg'
    exact hi.head g' (hsub g' hg') e (hnew_old e he).1
  · -- RecIn
    intro g' hg'
    rw [hsegs'] at hg'
    exact hi.recin g' (hsub g' hg')
  · -- SameUsers
    intro a z
    rw [sg_user_iff_mem hok', sg_user_iff_mem w.ents]
    constructor
    · rintro ⟨e, he, u1, u2, u3, u4, u5⟩
      obtain ⟨heo, hn⟩ := hnew_old e he
      refine ⟨e, heo, u1, u2, u3, u4, ?_⟩
      cases hr : isRecord V.segs e with
      | false => rfl
      | true =>
        exfalso
        rw [hsegs] at hr
        rw [hsegs'] at u5
        have := sg_isRecord_drop hr (by
          intro hga
          have hri := hi.recin g hgm hrec
          have : inSeg g e = true := by rw [inSeg_iff]; omega
          rw [hn] at this; cases this)
        rw [u5] at this; cases this
    · rintro ⟨e, he, u1, u2, u3, u4, u5⟩
      have hn : inSeg g e = false := by
        cases h : inSeg g e with
        | false => rfl
        | true =>
          exfalso
          have hne0 : e ≠ e0 := fun h0 => by rw [h0, he0c] at u2; cases u2
          rcases (hmid_other e he h hne0).2 with h8 | hr
          · omega
          · rw [u5] at hr; cases hr
      refine ⟨e, hold_new e he hn, u1, u2, u3, u4, ?_⟩
      cases hr : isRecord V'.segs e with
      | false => rfl
      | true =>
        rw [hsegs'] at hr
        have := sg_isRecord_mono (g := g) hr
        rw [← hsegs, u5] at this; cases this

/-! ## 7. sorted tables as sets: membership forms of the header writes -/

/-- two sorted tables with the same headers are equal -/
theorem sg_entsOk_ext : ∀ {l1 l2 : List Ent}, entsOk l1 = true → entsOk l2 = true → (∀ z, z ∈ l1 ↔ z ∈ l2) → l1 = l2 := by
  intro l1
  induction l1 with
  | nil =>
    intro l2 _ _ h
    cases l2 with
    | nil => rfl
    | cons b r => exact absurd ((h b).2 List.mem_cons_self) (by simp)
  | cons a r ih =>
    intro l2 h1 h2 h
    cases l2 with
    | nil => exact absurd ((h a).1 List.mem_cons_self) (by simp)
    | cons b r2 =>
      have la := sg_addr_lt_of_entsOk h1
      have lb := sg_addr_lt_of_entsOk h2
      have hab : a = b := by
        have ha : a ∈ b :: r2 := (h a).1 List.mem_cons_self
        have hb : b ∈ a :: r := (h b).2 List.mem_cons_self
        rcases List.mem_cons.1 ha with ha | ha
        · exact ha
        · rcases List.mem_cons.1 hb with hb | hb
          · exact hb.symm
          · have := la b hb; have := lb a ha; omega
      subst hab
      congr 1
      refine ih (entsOk_tail h1) (entsOk_tail h2) ?_
      intro z
      constructor
      · intro hz
        rcases List.mem_cons.1 ((h z).1 (List.mem_cons_of_mem _ hz)) with hza | hza
        · subst hza; have := la z hz; omega
        · exact hza
      · intro hz
        rcases List.mem_cons.1 ((h z).2 (List.mem_cons_of_mem _ hz)) with hza | hza
        · subst hza; have := lb z hz; omega
        · exact hza

theorem sg_entsOk_filter {l : List Ent} (h : entsOk l = true) (p : Ent → Bool) : entsOk (l.filter p) = true := by
  rw [entsOk_iff] at h ⊢
  exact ⟨fun e he => h.1 e (List.mem_filter.1 he).1, h.2.filter p⟩

/-- the headers of a segment, identified by membership -/
theorem sg_segEnts_eq {es l : List Ent} {g : Seg} (hok : entsOk es = true) (hl : entsOk l = true)
    (h : ∀ z, z ∈ l ↔ z ∈ es ∧ inSeg g z = true) : segEnts es g = l := by
  refine sg_entsOk_ext (sg_entsOk_filter hok _) hl ?_
  intro z
  rw [mem_segEnts, h z]

/-- **`putEnt` on a sorted table, as a set**: the new header replaces the headers starting inside it -/
theorem sg_putEnt_tab {es : List Ent} {e : Ent} (hok : entsOk es = true) (hpos : 0 < e.size)
    (hlow : ∀ y ∈ es, y.addr < e.addr → y.addr + y.size ≤ e.addr) :
    entsOk (putEnt es e) = true ∧
      ∀ z, z ∈ putEnt es e ↔ z = e ∨ (z ∈ es ∧ (z.addr < e.addr ∨ e.addr + e.size ≤ z.addr)) := by
  obtain ⟨pre, post, hsplit, h1, h2⟩ := sg_seg_split hok { base := e.addr, size := e.size, recAt := 0 }
  have hmid : ∀ m ∈ segEnts es { base := e.addr, size := e.size, recAt := 0 }, m ∈ es ∧ e.addr ≤ m.addr ∧ m.addr < e.addr + e.size := by
    intro m hm
    obtain ⟨a, b⟩ := mem_segEnts.1 hm
    rw [inSeg_iff] at b
    exact ⟨a, b⟩
  generalize segEnts es { base := e.addr, size := e.size, recAt := 0 } = mid at hsplit hmid
  simp only at h1 h2
  have hput : putEnt es e = pre ++ e :: post := by
    rw [hsplit]
    refine putEnt_window h1 ?_ ?_
    · intro m hm
      have := hmid m hm
      exact ⟨this.2.1, Or.inr this.2.2⟩
    · intro q hq
      have := h2 q hq
      omega
  rw [hput]
  have hok' := hok
  rw [hsplit, List.append_assoc] at hok'
  obtain ⟨a1, a2, a3⟩ := entsOk_append.1 hok'
  obtain ⟨_, a5, _⟩ := entsOk_append.1 a2
  have hprem : ∀ p ∈ pre, p ∈ es := fun p hp => by rw [hsplit]; simp [hp]
  have hpostm : ∀ p ∈ post, p ∈ es := fun p hp => by rw [hsplit]; simp [hp]
  constructor
  · refine entsOk_append.2 ⟨a1, ?_, ?_⟩
    · have : entsOk ([e] ++ post) = true := by
        refine entsOk_append.2 ⟨by simp [entsOk, hpos], a5, ?_⟩
        intro a ha b hb
        simp only [List.mem_singleton] at ha
        subst ha
        exact h2 b hb
      simpa using this
    · intro a ha b hb
      rcases List.mem_cons.1 hb with hb | hb
      · subst hb; exact hlow a (hprem a ha) (h1 a ha)
      · exact a3 a ha b (List.mem_append.2 (Or.inr hb))
  · intro z
    simp only [List.mem_append, List.mem_cons]
    constructor
    · rintro (h | h | h)
      · exact Or.inr ⟨hprem z h, Or.inl (h1 z h)⟩
      · exact Or.inl h
      · exact Or.inr ⟨hpostm z h, Or.inr (h2 z h)⟩
    · rintro (h | ⟨hz, hc⟩)
      · exact Or.inr (Or.inl h)
      · rw [hsplit] at hz
        simp only [List.mem_append] at hz
        rcases hz with (hz | hz) | hz
        · exact Or.inl hz
        · have := hmid z hz; omega
        · exact Or.inr (Or.inr hz)

/-- **`modEnt` on a sorted table, as a set** (the rewritten header keeps address and size) -/
theorem sg_modEnt_tab {es : List Ent} {x : Ent} {f : Ent → Ent} (hok : entsOk es = true) (hx : x ∈ es)
    (hfa : (f x).addr = x.addr) (hfs : (f x).size = x.size) :
    ∃ es', modEnt f es x.addr = some es' ∧ entsOk es' = true ∧
      ∀ z, z ∈ es' ↔ z = f x ∨ (z ∈ es ∧ z.addr ≠ x.addr) := by
  obtain ⟨pre, post, hes⟩ := List.append_of_mem hx
  subst hes
  refine ⟨pre ++ f x :: post, modEnt_mid hok, ?_, ?_⟩
  · obtain ⟨a1, a2, a3⟩ := entsOk_append.1 hok
    refine entsOk_append.2 ⟨a1, ?_, ?_⟩
    · have hh := entsOk_head_le a2
      have : entsOk ([f x] ++ post) = true := by
        refine entsOk_append.2 ⟨?_, entsOk_tail a2, ?_⟩
        · have := entsOk_pos a2 x List.mem_cons_self
          simp [entsOk, hfs, this]
        · intro a ha b hb
          simp only [List.mem_singleton] at ha
          subst ha
          rw [hfa, hfs]; exact hh b hb
      simpa using this
    · intro a ha b hb
      rcases List.mem_cons.1 hb with hb | hb
      · subst hb; rw [hfa]; exact a3 a ha x List.mem_cons_self
      · exact a3 a ha b (List.mem_cons_of_mem _ hb)
  · intro z
    have hpre := entsOk_pre_lt hok
    obtain ⟨_, a2, _⟩ := entsOk_append.1 hok
    have hpost := sg_addr_lt_of_entsOk a2
    simp only [List.mem_append, List.mem_cons]
    constructor
    · rintro (h | h | h)
      · exact Or.inr ⟨Or.inl h, by have := (hpre z h).2; omega⟩
      · exact Or.inl h
      · exact Or.inr ⟨Or.inr (Or.inr h), by have := hpost z h; omega⟩
    · rintro (h | ⟨h | h | h, hne⟩)
      · exact Or.inr (Or.inl h)
      · exact Or.inl h
      · subst h; exact absurd rfl hne
      · exact Or.inr (Or.inr h)

/-- `writeHead` on a sorted table, as a set -/
theorem sg_writeHead_tab {h h' : Heap} {a size : Nat} {c p : Bool} (e : writeHead h a size c p = .ok h')
    (hok : entsOk h.ents = true) (hpos : 0 < size) (hlow : ∀ y ∈ h.ents, y.addr < a → y.addr + y.size ≤ a) :
    h' = { h with ents := h'.ents } ∧ entsOk h'.ents = true ∧
      ∀ z, z ∈ h'.ents ↔ z = { addr := a, size := size, cin := c, pin := p, pfoot := pfootAt h.ents a } ∨
        (z ∈ h.ents ∧ (z.addr < a ∨ a + size ≤ z.addr)) := by
  have h8 : size % 8 = 0 := by
    unfold writeHead at e
    split at e
    · msimp at e
    · rename_i hh; omega
  rw [writeHead_eq h8] at e
  injection e with e
  subst e
  obtain ⟨t1, t2⟩ := sg_putEnt_tab (e := { addr := a, size := size, cin := c, pin := p, pfoot := pfootAt h.ents a })
    hok hpos hlow
  exact ⟨rfl, t1, t2⟩

theorem sg_setFoot_tab {h h' : Heap} {a v : Nat} {x : Ent} (e : setFoot h a v = .ok h') (hok : entsOk h.ents = true)
    (hx : x ∈ h.ents) (ha : x.addr = a) :
    h' = { h with ents := h'.ents } ∧ entsOk h'.ents = true ∧
      ∀ z, z ∈ h'.ents ↔ z = { x with pfoot := v } ∨ (z ∈ h.ents ∧ z.addr ≠ a) := by
  subst ha
  obtain ⟨es', h1, h2, h3⟩ := sg_modEnt_tab (f := fun e => { e with pfoot := v }) hok hx rfl rfl
  unfold setFoot at e
  rw [h1] at e
  msimp at e
  subst e
  exact ⟨rfl, h2, h3⟩

theorem sg_clearPin_tab {h h' : Heap} {a : Nat} {x : Ent} (e : clearPin h a = .ok h') (hok : entsOk h.ents = true)
    (hx : x ∈ h.ents) (ha : x.addr = a) :
    h' = { h with ents := h'.ents } ∧ entsOk h'.ents = true ∧
      ∀ z, z ∈ h'.ents ↔ z = { x with pin := false } ∨ (z ∈ h.ents ∧ z.addr ≠ a) := by
  subst ha
  obtain ⟨es', h1, h2, h3⟩ := sg_modEnt_tab (f := fun e => { e with pin := false }) hok hx rfl rfl
  unfold clearPin at e
  rw [h1] at e
  msimp at e
  subst e
  exact ⟨rfl, h2, h3⟩

/-- a header found by address in a sorted table -/
theorem sg_find_iff {es : List Ent} (hok : entsOk es = true) {a : Nat} {e : Ent} :
    findEnt es a = some e ↔ e ∈ es ∧ e.addr = a := by
  constructor
  · exact findEnt_some
  · rintro ⟨h1, h2⟩; rw [← h2]; exact entsOk_find e h1 hok

theorem sg_find_none_iff {es : List Ent} {a : Nat} : findEnt es a = none ↔ ∀ e ∈ es, e.addr ≠ a := by
  constructor
  · intro h e he hea
    induction es with
    | nil => cases he
    | cons x xs ih =>
      simp only [findEnt] at h
      split at h
      · cases h
      · rename_i hx
        rcases List.mem_cons.1 he with rfl | he
        · exact hx hea
        · exact ih h he
  · exact findEnt_none

/-! ## 8. the fencepost loop of `add_segment` -/

/-- `k` fenceposts at 8-byte steps from `p` -/
def sgFenceList : Nat → Nat → List Ent
  | 0, _ => []
  | k + 1, p => { addr := p, size := 8, cin := true, pin := true, pfoot := 0 } :: sgFenceList k (p + 8)

theorem sg_mem_fenceList {k p : Nat} {z : Ent} :
    z ∈ sgFenceList k p ↔ ∃ i, i < k ∧ z = { addr := p + 8 * i, size := 8, cin := true, pin := true, pfoot := 0 } := by
  induction k generalizing p with
  | zero => simp [sgFenceList]
  | succ k ih =>
    simp only [sgFenceList, List.mem_cons, ih]
    constructor
    · rintro (h | ⟨i, hi, h⟩)
      · exact ⟨0, by omega, by simpa using h⟩
      · exact ⟨i + 1, by omega, by rw [h]; congr 1; omega⟩
    · rintro ⟨i, hi, h⟩
      cases i with
      | zero => left; simpa using h
      | succ i => right; exact ⟨i, by omega, by rw [h]; congr 1; omega⟩

/-- **the fencepost loop**, by induction on the fuel: it writes fenceposts at `p, p+8, …, old_end-16` into the
empty region `[p, old_end)` of the table -/
theorem sg_fences : ∀ (fuel : Nat) {h h' : Heap} {p oe n n' : Nat}, fences fuel h p oe n = .ok (h', n') →
    entsOk h.ents = true → (∀ y ∈ h.ents, y.addr + y.size ≤ p ∨ oe ≤ y.addr) → p + 16 ≤ oe → (oe - p) % 8 = 0 →
    h' = { h with ents := h'.ents } ∧ entsOk h'.ents = true ∧
      (∀ z, z ∈ h'.ents ↔ z ∈ h.ents ∨ z ∈ sgFenceList ((oe - p) / 8 - 1) p) ∧ n' = n + ((oe - p) / 8 - 1) := by
  intro fuel
  induction fuel with
  | zero => intro h h' p oe n n' hh; unfold fences at hh; msimp at hh
  | succ k ih =>
    intro h h' p oe n n' hh hok hempty hp hmod
    unfold fences at hh
    rw [SIZEOF_USIZE_eq] at hh
    dsimp only at hh
    msimp at hh
    obtain ⟨h1, e1, hh⟩ := hh
    have hlow : ∀ y ∈ h.ents, y.addr < p → y.addr + y.size ≤ p := by
      intro y hy hlt
      rcases hempty y hy with h | h <;> omega
    have hw : FENCEPOST_HEAD - INUSE = 8 := by decide
    rw [hw] at e1
    obtain ⟨r1, r2, r3⟩ := sg_writeHead_tab e1 hok (by omega) hlow
    have hpf : pfootAt h.ents p = 0 := by
      apply pfootAt_none
      apply findEnt_none
      intro y hy hya
      have := entsOk_pos hok y hy
      rcases hempty y hy with h | h <;> omega
    rw [hpf] at r3
    have hmem1 : ∀ z, z ∈ h1.ents ↔ z = { addr := p, size := 8, cin := true, pin := true, pfoot := 0 } ∨ z ∈ h.ents := by
      intro z
      rw [r3 z]
      constructor
      · rintro (h | ⟨h, _⟩)
        · exact Or.inl h
        · exact Or.inr h
      · rintro (h | h)
        · exact Or.inl h
        · refine Or.inr ⟨h, ?_⟩
          have := entsOk_pos hok z h
          rcases hempty z h with h' | h' <;> omega
    split at hh
    · rename_i hlt
      obtain ⟨i1, i2, i3, i4⟩ := ih hh r2 (by
          intro y hy
          rcases (hmem1 y).1 hy with h | h
          · subst h; left; simp only; omega
          · rcases hempty y h with h' | h'
            · left; omega
            · right; exact h') (by omega) (by omega)
      have hk : (oe - p) / 8 - 1 = ((oe - (p + 8)) / 8 - 1) + 1 := by omega
      refine ⟨?_, i2, ?_, by omega⟩
      · rw [i1, r1]
      · intro z
        rw [i3 z, hmem1 z, hk]
        simp only [sgFenceList, List.mem_cons]
        constructor
        · rintro ((h | h) | h)
          · exact Or.inr (Or.inl h)
          · exact Or.inl h
          · exact Or.inr (Or.inr h)
        · rintro (h | h | h)
          · exact Or.inl (Or.inr h)
          · exact Or.inl (Or.inl h)
          · exact Or.inr h
    · rename_i hge
      msimp at hh
      simp only [Prod.mk.injEq] at hh
      obtain ⟨e2, e3⟩ := hh
      subst e2
      have hk : (oe - p) / 8 - 1 = 1 := by omega
      refine ⟨r1, r2, ?_, by omega⟩
      intro z
      rw [hmem1 z, hk]
      simp only [sgFenceList, List.mem_cons, List.not_mem_nil, or_false]
      exact Or.comm

/-! ## 9. `add_segment`: the invariant of the final state from a description of its table -/

theorem sg_isRecord_of_mem {segs : List Seg} {g : Seg} {e : Ent} (hg : g ∈ segs) (h : g.recAt = e.addr + 16) :
    isRecord segs e = true := sg_isRecord_iff.2 ⟨g, hg, h⟩

/-- **`add_segment`, the final state**: the new head segment `[X, F]`, the old head segment whose window
`[top, foot]` became `W = m' :: ms'` (remainder of the old `top`, record chunk at `csp`, fenceposts), its record
address set, everything else unchanged.  The three bin conjuncts are hypotheses (they depend on whether the
remainder was binned). -/
theorem sg_addseg_core {s s' : St} (hi : SInv s)
    {g0 : Seg} {rest : List Seg} {pre post : List Ent} {x f : Ent}
    (hsegs : s.segs = g0 :: rest) (hes : s.h.ents = pre ++ [x, f] ++ post)
    (hxa : x.addr = s.h.top) (hxf : isFree x = true) (hxs : x.size = s.h.topsize)
    (hfa : f.addr = s.h.top + s.h.topsize) (hfc : f.cin = false) (hfp : f.pin = false) (hfs : f.size = 80)
    (hgb : g0.base ≤ s.h.top) (hgt : s.h.top + s.h.topsize + 80 = g0.base + g0.size)
    {tbase tsize : Nat} (hfr : ∀ g ∈ s.segs, tbase + tsize ≤ g.base ∨ g.base + g.size ≤ tbase)
    (hpage : tbase % 4096 = 0) (hpos : 0 < tbase) (hlim : tbase + tsize ≤ 2 ^ 64) (hts : tsize % 4096 = 0)
    (hts2 : 96 ≤ tsize)
    {X F : Ent} (X1 : X.addr = tbase) (X2 : X.size = tsize - 80) (X3 : X.cin = false) (X4 : X.pin = true)
    (F1 : F.addr = tbase + (tsize - 80)) (F2 : F.size = 80) (F3 : F.cin = false) (F4 : F.pin = false)
    {csp : Nat} {m' : Ent} {ms' : List Ent}
    (wc : contig (m' :: ms') s.h.top = true) (wend : endE m' ms' + 8 = g0.base + g0.size)
    (wlast : (lastE m' ms').size = 8) (wshape : shapeOk (m' :: ms') = true) (whead : HeadEq x m')
    (wtags : tagsFrom tbase m' ms' = true)
    (wclass : ∀ e ∈ m' :: ms', e.size = 8 ∨ (e.addr = csp ∧ e.cin = true) ∨
      (e.cin = false ∧ e.addr + e.size + 80 ≤ g0.base + g0.size))
    (wfence : ∀ a ∈ m' :: ms', ∀ b ∈ m' :: ms', b.size = 8 → b.addr = a.addr + a.size → a.size = 8 ∨ a.addr = csp)
    (wrec : ∃ r ∈ m' :: ms', r.addr = csp ∧ r.cin = true) (wcsp : s.h.top ≤ csp ∧ csp + 16 < g0.base + g0.size)
    (wm8 : m'.size ≠ 8)
    (hok' : entsOk s'.h.ents = true)
    (hmem' : ∀ z, z ∈ s'.h.ents ↔ z = X ∨ z = F ∨ z ∈ m' :: ms' ∨
      (z ∈ s.h.ents ∧ (z.addr < s.h.top ∨ g0.base + g0.size ≤ z.addr)))
    (hsegs' : s'.segs = { base := tbase, size := tsize, recAt := 0 } :: { g0 with recAt := csp + 16 } :: rest)
    (htop' : s'.h.top = tbase) (htops' : s'.h.topsize = tsize - 80)
    (hdv' : s'.h.dv = s.h.dv) (hdvs' : s'.h.dvsize = s.h.dvsize)
    (hla' : s'.least_addr ≤ tbase ∧ s'.least_addr ≤ s.least_addr)
    (hfl' : freeListOk s'.h = true) (hsb' : sbinsOk s'.h = true) (htb' : tbinsOk s'.h = true) :
    SInv s' ∧ SameUsers s s' := by
  have w := hi.wfs
  have hg0 : g0 ∈ s.segs := by rw [hsegs]; exact List.mem_cons_self
  have hrestm : ∀ g ∈ rest, g ∈ s.segs := fun g hg => by rw [hsegs]; exact List.mem_cons_of_mem _ hg
  obtain ⟨d1, d2, d3⟩ := sg_segsOk_cons w.segs hsegs
  have hd0 := d3 g0 List.mem_cons_self
  have hxm : x ∈ s.h.ents := by rw [hes]; simp
  have hfm : f ∈ s.h.ents := by rw [hes]; simp
  obtain ⟨hxc, hxp⟩ := isFree_iff.1 hxf
  obtain ⟨hx16, hxs16, hxs16'⟩ := shapeOk_free w.shape hxm hxc
  have hok := w.ents
  rw [hes] at hok
  have hok2 : entsOk (pre ++ x :: f :: post) = true := by simpa using hok
  obtain ⟨o1, o2, o3, o4, o5⟩ := entsOk_mid2 hok2
  have hrec0 : g0.recAt = 0 := by
    have ht := w.top
    unfold topOk at ht
    simp only [hsegs, Bool.and_eq_true, decide_eq_true_eq] at ht
    exact ht.1.1.2
  have hgx : inSeg g0 x = true := by rw [inSeg_iff]; omega
  have hgf : inSeg g0 f = true := by rw [inSeg_iff]; omega
  have hfresh := sg_fresh_ents w hfr
  have hfr0 := hfr g0 hg0
  -- the window
  have hw8 : ∀ e ∈ m' :: ms', 8 ≤ e.size := fun e he => shapeOk_size wshape he
  obtain ⟨wok, wrange⟩ := contig_range wc (fun e he => by have := hw8 e he; omega)
  have hwin : ∀ e ∈ m' :: ms', s.h.top ≤ e.addr ∧ e.addr + e.size + 8 ≤ g0.base + g0.size := by
    intro e he; have := wrange e he; omega
  have hm'a : m'.addr = s.h.top := by
    simp only [contig, Bool.and_eq_true, decide_eq_true_eq] at wc; exact wc.1
  -- old headers outside the window
  have hold_out : ∀ z ∈ s.h.ents, (z.addr < s.h.top ∨ g0.base + g0.size ≤ z.addr) ↔ (z ∈ pre ∨ z ∈ post) := by
    intro z hz
    rw [hes] at hz
    simp only [List.mem_append, List.mem_cons, List.not_mem_nil, or_false] at hz
    constructor
    · intro h
      rcases hz with (hz | hz | hz) | hz
      · exact Or.inl hz
      · subst hz; omega
      · subst hz; omega
      · exact Or.inr hz
    · rintro (h | h)
      · have := o1 z h; omega
      · have := o5 z h; omega
  have hmemX : X ∈ s'.h.ents := (hmem' X).2 (Or.inl rfl)
  have hmemF : F ∈ s'.h.ents := (hmem' F).2 (Or.inr (Or.inl rfl))
  have hmemW : ∀ e ∈ m' :: ms', e ∈ s'.h.ents := fun e he => (hmem' e).2 (Or.inr (Or.inr (Or.inl he)))
  have hmemO : ∀ z ∈ s.h.ents, (z.addr < s.h.top ∨ g0.base + g0.size ≤ z.addr) → z ∈ s'.h.ents :=
    fun z hz hc => (hmem' z).2 (Or.inr (Or.inr (Or.inr ⟨hz, hc⟩)))
  -- the three kinds of segments
  have hN_X : inSeg { base := tbase, size := tsize, recAt := 0 } X = true := by rw [inSeg_iff]; simp only; omega
  have hN_F : inSeg { base := tbase, size := tsize, recAt := 0 } F = true := by rw [inSeg_iff]; simp only; omega
  have hN_old : ∀ z ∈ s.h.ents, inSeg { base := tbase, size := tsize, recAt := 0 } z = false := by
    intro z hz
    have := entsOk_pos w.ents z hz
    cases h : inSeg { base := tbase, size := tsize, recAt := 0 } z with
    | false => rfl
    | true => rw [inSeg_iff] at h; simp only at h; rcases hfresh z hz with h' | h' <;> omega
  have hN_W : ∀ e ∈ m' :: ms', inSeg { base := tbase, size := tsize, recAt := 0 } e = false := by
    intro e he
    have := hwin e he
    have := hw8 e he
    cases h : inSeg { base := tbase, size := tsize, recAt := 0 } e with
    | false => rfl
    | true => rw [inSeg_iff] at h; simp only at h; omega
  have hg_XF : ∀ g ∈ s.segs, inSeg g X = false ∧ inSeg g F = false := by
    intro g hg
    have := hfr g hg
    constructor
    · cases h : inSeg g X with
      | false => rfl
      | true => rw [inSeg_iff] at h; omega
    · cases h : inSeg g F with
      | false => rfl
      | true => rw [inSeg_iff] at h; omega
  have hr_W : ∀ g ∈ rest, ∀ e ∈ m' :: ms', inSeg g e = false := by
    intro g hg e he
    have := hwin e he
    have := hw8 e he
    have := d1 g hg
    cases h : inSeg g e with
    | false => rfl
    | true => rw [inSeg_iff] at h; omega
  have h0_W : ∀ e ∈ m' :: ms', inSeg g0 e = true := by
    intro e he
    have := hwin e he
    have := hw8 e he
    rw [inSeg_iff]; omega
  have hsegN : segEnts s'.h.ents { base := tbase, size := tsize, recAt := 0 } = [X, F] := by
    refine sg_segEnts_eq hok' (by simp only [entsOk, Bool.and_eq_true, decide_eq_true_eq]; omega) ?_
    intro z
    simp only [List.mem_cons, List.not_mem_nil, or_false]
    constructor
    · rintro (h | h)
      · subst h; exact ⟨hmemX, hN_X⟩
      · subst h; exact ⟨hmemF, hN_F⟩
    · rintro ⟨hz, hin⟩
      rcases (hmem' z).1 hz with h | h | h | h
      · exact Or.inl h
      · exact Or.inr h
      · rw [hN_W z h] at hin; cases hin
      · rw [hN_old z h.1] at hin; cases hin
  have hseg0 : segEnts s.h.ents g0 = segEnts pre g0 ++ [x, f] := by
    have hpost_out : ∀ e ∈ post, inSeg g0 e = false := by
      intro e he
      have := o5 e he
      cases h1 : inSeg g0 e with
      | false => rfl
      | true => rw [inSeg_iff] at h1; omega
    rw [hes, segEnts_window (g := g0) (mid := [x, f]) (by
      intro e he
      simp only [List.mem_cons, List.not_mem_nil, or_false] at he
      rcases he with rfl | rfl <;> assumption), segEnts_none hpost_out, List.append_nil]
  have hl1ok : entsOk (segEnts pre g0 ++ (m' :: ms')) = true := by
    have h0 : entsOk (segEnts pre g0 ++ [x, f] ++ []) = true := by
      rw [List.append_nil, ← hseg0]; exact sg_entsOk_filter w.ents _
    have := entsOk_window (mid' := m' :: ms') h0 (lo := s.h.top) (hi := g0.base + g0.size)
      (fun p hp => by have := o1 p (mem_segEnts.1 hp).1; omega) (by simp) wok
      (fun e he => by have := hwin e he; omega)
    simpa using this
  have hseg0' : segEnts s'.h.ents { g0 with recAt := csp + 16 } = segEnts pre g0 ++ (m' :: ms') := by
    refine sg_segEnts_eq hok' hl1ok ?_
    intro z
    have hsame : inSeg { g0 with recAt := csp + 16 } z = inSeg g0 z := rfl
    rw [hsame]
    constructor
    · intro hz
      rcases List.mem_append.1 hz with h | h
      · obtain ⟨hp, hin⟩ := mem_segEnts.1 h
        have hzm : z ∈ s.h.ents := by rw [hes]; simp [hp]
        exact ⟨hmemO z hzm ((hold_out z hzm).2 (Or.inl hp)), hin⟩
      · exact ⟨hmemW z h, h0_W z h⟩
    · rintro ⟨hz, hin⟩
      rcases (hmem' z).1 hz with h | h | h | h
      · rw [h, (hg_XF g0 hg0).1] at hin; cases hin
      · rw [h, (hg_XF g0 hg0).2] at hin; cases hin
      · exact List.mem_append.2 (Or.inr h)
      · rcases (hold_out z h.1).1 h.2 with hp | hp
        · exact List.mem_append.2 (Or.inl (mem_segEnts.2 ⟨hp, hin⟩))
        · have := o5 z hp; rw [inSeg_iff] at hin; omega
  have hsegr : ∀ g ∈ rest, segEnts s'.h.ents g = segEnts s.h.ents g := by
    intro g hg
    refine sg_segEnts_eq hok' (sg_entsOk_filter w.ents _) ?_
    intro z
    rw [mem_segEnts]
    constructor
    · rintro ⟨hz, hin⟩
      refine ⟨hmemO z hz ?_, hin⟩
      have := d1 g hg
      rw [inSeg_iff] at hin
      omega
    · rintro ⟨hz, hin⟩
      rcases (hmem' z).1 hz with h | h | h | h
      · rw [h, (hg_XF g (hrestm g hg)).1] at hin; cases hin
      · rw [h, (hg_XF g (hrestm g hg)).2] at hin; cases hin
      · rw [hr_W g hg z h] at hin; cases hin
      · exact ⟨h.1, hin⟩
  -- `findEnt` in the new table
  have hfind_old : ∀ z ∈ s.h.ents, (z.addr < s.h.top ∨ g0.base + g0.size ≤ z.addr) →
      findEnt s'.h.ents z.addr = findEnt s.h.ents z.addr := by
    intro z hz hc
    rw [entsOk_find z (hmemO z hz hc) hok', entsOk_find z hz w.ents]
  have hrecs_mono : ∀ e : Ent, isRecord s.segs e = true → isRecord s'.segs e = true := by
    intro e h
    obtain ⟨g, hg, hga⟩ := sg_isRecord_iff.1 h
    rw [hsegs] at hg
    rcases List.mem_cons.1 hg with hg | hg
    · subst hg; omega
    · exact sg_isRecord_of_mem (by rw [hsegs']; simp [hg]) hga
  have hg0r : ({ g0 with recAt := csp + 16 } : Seg) ∈ s'.segs := by rw [hsegs']; simp
  have hrecs_new : ∀ e : Ent, isRecord s'.segs e = true → e.addr = csp ∨ isRecord s.segs e = true := by
    intro e h
    obtain ⟨g, hg, hga⟩ := sg_isRecord_iff.1 h
    rw [hsegs'] at hg
    simp only [List.mem_cons] at hg
    rcases hg with hg | hg | hg
    · subst hg; simp only at hga; omega
    · subst hg; simp only at hga; left; omega
    · exact Or.inr (sg_isRecord_of_mem (hrestm g hg) hga)
  have hbinfree : ∀ e ∈ s.h.ents, isFree e = true → e.addr ≠ s.h.top →
      (e.addr < s.h.top ∨ g0.base + g0.size ≤ e.addr) := by
    intro e he hf hne
    rw [hes] at he
    simp only [List.mem_append, List.mem_cons, List.not_mem_nil, or_false] at he
    rcases he with (h | h | h) | h
    · have := o1 e h; omega
    · subst h; omega
    · subst h; simp [isFree, hfp] at hf
    · have := o5 e h; omega
  refine ⟨⟨⟨hok', ?_, ?_, ?_, ?_, hfl', hsb', htb', ?_, ?_, ?_⟩, ?_, ?_, ?_, ?_, ?_⟩, ?_⟩
  · -- shapeOk
    unfold shapeOk
    rw [List.all_eq_true]
    intro z hz
    have hsh : ∀ l : List Ent, shapeOk l = true → ∀ e ∈ l, ((decide (e.size = 8) && e.cin && e.pin) ||
        (decide (e.addr % 16 = 0) && decide (e.size % 16 = 0) && decide (16 ≤ e.size))) = true := by
      intro l hl e he
      unfold shapeOk at hl
      exact List.all_eq_true.1 hl e he
    rcases (hmem' z).1 hz with h | h | h | h
    · subst h; simp only [Bool.or_eq_true, Bool.and_eq_true, decide_eq_true_eq]; right; omega
    · subst h; simp only [Bool.or_eq_true, Bool.and_eq_true, decide_eq_true_eq]; right; omega
    · exact hsh _ wshape z h
    · exact hsh _ w.shape z h.1
  · -- allInSegs
    simp only [List.all_eq_true, List.any_eq_true]
    intro z hz
    rw [hsegs']
    rcases (hmem' z).1 hz with h | h | h | h
    · exact ⟨_, List.mem_cons_self, h ▸ hN_X⟩
    · exact ⟨_, List.mem_cons_self, h ▸ hN_F⟩
    · exact ⟨_, List.mem_cons_of_mem _ List.mem_cons_self, h0_W z h⟩
    · obtain ⟨g, hg, hge⟩ := w.struct.seg_of h.1
      rw [hsegs] at hg
      rcases List.mem_cons.1 hg with hg | hg
      · subst hg; exact ⟨_, List.mem_cons_of_mem _ List.mem_cons_self, hge⟩
      · exact ⟨g, List.mem_cons_of_mem _ (List.mem_cons_of_mem _ hg), hge⟩
  · -- tiles
    rw [hsegs']
    simp only [List.all_cons, Bool.and_eq_true, List.all_eq_true]
    refine ⟨?_, ?_, ?_⟩
    · rw [hsegN]
      simp only [tiles, isTrailerEnd, Bool.and_eq_true, Bool.or_eq_true, decide_eq_true_eq]
      rw [F3, F4]
      refine ⟨⟨by omega, by omega⟩, ⟨by omega, Or.inl (by omega)⟩, Or.inl (by simp)⟩
    · rw [hseg0']
      have ht := w.struct.tiles_of hg0
      rw [hseg0] at ht
      have hnew : tiles (m' :: ms' ++ []) s.h.top (g0.base + g0.size) = true := by
        rw [tiles_split]
        refine ⟨wc, fun y hy => hw8 y (List.mem_cons_of_mem _ hy), ?_⟩
        simp only [tailOk, isTrailerEnd, Bool.and_eq_true, Bool.or_eq_true, decide_eq_true_eq]
        exact ⟨Or.inr wend, Or.inr wlast⟩
      rw [List.append_nil] at hnew
      refine sg_tiles_prefix_end (segEnts pre g0) (m := x) (r := [f]) (m' := m') (r' := ms')
        (fun _ => hw8 m' List.mem_cons_self) ?_ _ ht
      intro a h
      have : x.addr = a := tiles_head_addr h
      rw [← this, hxa]; exact hnew
    · intro g hg
      rw [hsegr g hg]
      exact w.struct.tiles_of (hrestm g hg)
  · -- tagsOk
    rw [hsegs', htop']
    simp only [List.all_cons, Bool.and_eq_true, List.all_eq_true]
    have hcongr : ∀ g ∈ s.segs, ∀ e ∈ segEnts s.h.ents g, e.addr ≠ s.h.top → (e.addr = s.h.top ↔ e.addr = tbase) := by
      intro g hg e he hne
      have hem := (mem_segEnts.1 he).1
      have := entsOk_pos w.ents e hem
      constructor
      · intro h; exact absurd h hne
      · intro h; rcases hfresh e hem with h' | h' <;> omega
    refine ⟨?_, ?_, ?_⟩
    · rw [hsegN]
      simp [tagsOk, isFree, X1, X3, X4, F3, F4]
    · rw [hseg0']
      have ht := w.struct.tags_of hg0
      rw [hseg0] at ht
      have ht' : tagsOk s.h.top true (segEnts pre g0 ++ x :: [f]) = true := by simpa using ht
      rw [tagsOk_split] at ht' ⊢
      refine ⟨tagsOk_snoc_congr ?_ whead ht'.1, wtags⟩
      intro e he
      have hp := (mem_segEnts.1 he).1
      refine hcongr g0 hg0 e (mem_segEnts.2 ⟨by rw [hes]; simp [hp], (mem_segEnts.1 he).2⟩) ?_
      have := o1 e hp; omega
    · intro g hg
      rw [hsegr g hg]
      refine tagsOk_top_congr ?_ (w.struct.tags_of (hrestm g hg))
      intro e he
      refine hcongr g (hrestm g hg) e he ?_
      intro h
      have hin := (mem_segEnts.1 he).2
      have := d1 g hg
      rw [inSeg_iff] at hin
      omega
  · -- dvOk
    have hd := w.dv
    unfold dvOk at hd ⊢
    rw [hdv', hdvs']
    by_cases h0 : s.h.dv = 0
    · rw [if_pos h0] at hd ⊢; exact hd
    · rw [if_neg h0] at hd ⊢
      split at hd
      · rename_i e he
        obtain ⟨hem, hea⟩ := findEnt_some he
        simp only [Bool.and_eq_true, decide_eq_true_eq] at hd
        have htn : s.h.top ≠ 0 := by
          intro h; have := hd0.2.2.1; omega
        have := hfind_old e hem (hbinfree e hem hd.1.1 (by rw [hea]; exact w.dv_ne_top htn))
        rw [hea] at this
        rw [this, he]
        simp only [Bool.and_eq_true, decide_eq_true_eq]
        exact hd
      · cases hd
  · -- topOk
    unfold topOk
    rw [hsegs', htop', htops']
    have e1 := entsOk_find X hmemX hok'
    have e2 := entsOk_find F hmemF hok'
    rw [X1] at e1
    rw [F1] at e2
    simp only [e1, e2, isFree, X2, X3, X4, F2, F3, F4, top_foot_size_eq, Bool.and_eq_true, decide_eq_true_eq]
    sg_omega
  · -- segsOk
    refine sg_segsOk_of hsegs' ?_ ?_ ?_
    · intro g hg
      rcases List.mem_cons.1 hg with hg | hg
      · subst hg; simp only; omega
      · have := hfr g (hrestm g hg); simp only; omega
    · simp only [segsDisjoint, Bool.and_eq_true, List.all_eq_true, Bool.or_eq_true, decide_eq_true_eq]
      exact ⟨d1, d2⟩
    · intro g hg
      simp only [List.mem_cons] at hg
      rcases hg with hg | hg | hg
      · subst hg; simp only; omega
      · subst hg; simp only; omega
      · have := d3 g (List.mem_cons_of_mem _ hg); omega
  · -- RecsOk
    intro g hg hne
    rw [hsegs'] at hg
    simp only [List.mem_cons] at hg
    rcases hg with hg | hg | hg
    · subst hg; exact absurd rfl hne
    · subst hg
      obtain ⟨r, hr, hra, hrc⟩ := wrec
      refine ⟨by simp only; omega, r, ?_, hrc⟩
      simp only [show csp + 16 - 16 = csp by omega]
      rw [← hra]; exact entsOk_find r (hmemW r hr) hok'
    · obtain ⟨h16, e, he, hc⟩ := hi.recs g (hrestm g hg) hne
      obtain ⟨hm, ha⟩ := findEnt_some he
      have hri := hi.recin g (hrestm g hg) hne
      have := d1 g hg
      refine ⟨h16, e, ?_, hc⟩
      rw [← ha, hfind_old e hm (by omega)]
      exact entsOk_find e hm w.ents
  · -- FenceOk
    rw [sg_fenceOk_iff_tab hok']
    have hold := (sg_fenceOk_iff_tab w.ents).1 hi.fence
    have hcsp_rec : ∀ e : Ent, e.addr = csp → isRecord s'.segs e = true := by
      intro e he
      exact sg_isRecord_of_mem hg0r (by simp only; omega)
    intro a ha b hb h8 hadj
    rcases (hmem' b).1 hb with hbX | hbF | hbW | hbO
    · rw [hbX, X2] at h8; omega
    · rw [hbF, F2] at h8; omega
    · -- `b` is one of the new fenceposts
      have hbw := hwin b hbW
      have hbne : b ≠ m' := fun h => wm8 (h ▸ h8)
      have hbgt : s.h.top < b.addr := by
        rcases List.mem_cons.1 hbW with h | h
        · exact absurd h hbne
        · have := entsOk_head_le wok b h
          have := hw8 m' List.mem_cons_self
          omega
      rcases (hmem' a).1 ha with haX | haF | haW | haO
      · rw [haX, X1, X2] at hadj; omega
      · rw [haF, F1, F2] at hadj; omega
      · rcases wfence a haW b hbW h8 hadj with h | h
        · exact Or.inl h
        · exact Or.inr (hcsp_rec a h)
      · exfalso
        have hapos := entsOk_pos w.ents a haO.1
        rcases haO.2 with h | h
        · have : a.addr + a.size ≤ x.addr := by
            have := entsOk_sep w.ents a haO.1 x hxm (by omega); exact this
          omega
        · omega
    · -- `b` is an old fencepost
      rcases (hmem' a).1 ha with haX | haF | haW | haO
      · rw [haX, X1, X2] at hadj
        have := hfresh b hbO.1
        have := entsOk_pos w.ents b hbO.1
        omega
      · exfalso
        rw [haF, F1, F2] at hadj
        obtain ⟨g, hg, hge⟩ := w.struct.seg_of hbO.1
        have := hfr g hg
        rw [inSeg_iff] at hge
        exact hi.head g hg b hbO.1 (by omega) h8
      · have := hwin a haW; have := hw8 a haW; omega
      · rcases hold a haO.1 b hbO.1 h8 hadj with h | h
        · exact Or.inl h
        · exact Or.inr (hrecs_mono a h)
  · -- TailOk
    intro g hg hne e he hge
    rw [hsegs'] at hg
    simp only [List.mem_cons] at hg
    rcases hg with hg | hg | hg
    · subst hg; exact absurd rfl hne
    · subst hg
      have hge0 : inSeg g0 e = true := hge
      simp only
      rcases (hmem' e).1 he with h | h | h | h
      · rw [h, (hg_XF g0 hg0).1] at hge0; cases hge0
      · rw [h, (hg_XF g0 hg0).2] at hge0; cases hge0
      · rcases wclass e h with h1 | h1 | h1
        · exact Or.inl h1
        · exact Or.inr (Or.inl (sg_isRecord_of_mem hg0r (by simp only; omega)))
        · exact Or.inr (Or.inr h1.2)
      · right; right
        rw [inSeg_iff] at hge0
        have : e.addr + e.size ≤ x.addr := entsOk_sep w.ents e h.1 x hxm (by omega)
        omega
    · rcases (hmem' e).1 he with h | h | h | h
      · rw [h, (hg_XF g (hrestm g hg)).1] at hge; cases hge
      · rw [h, (hg_XF g (hrestm g hg)).2] at hge; cases hge
      · rw [hr_W g hg e h] at hge; cases hge
      · rcases hi.tail g (hrestm g hg) hne e h.1 hge with h1 | h1 | h1
        · exact Or.inl h1
        · exact Or.inr (Or.inl (hrecs_mono e h1))
        · exact Or.inr (Or.inr h1)
  · -- HeadOk
    intro g hg e he hb
    rw [hsegs'] at hg
    simp only [List.mem_cons] at hg
    have hgb' : ∃ g1, (g1 ∈ s.segs ∨ g1 = { base := tbase, size := tsize, recAt := 0 }) ∧ g1.base = g.base := by
      rcases hg with hg | hg | hg
      · exact ⟨g, Or.inr hg, rfl⟩
      · exact ⟨g0, Or.inl hg0, by rw [hg]⟩
      · exact ⟨g, Or.inl (hrestm g hg), rfl⟩
    obtain ⟨g1, hg1, hb1⟩ := hgb'
    rcases (hmem' e).1 he with h | h | h | h
    · rw [h, X2]; omega
    · rw [h, F2]; omega
    · rcases List.mem_cons.1 h with h | h
      · rw [h]; exact wm8
      · -- a later header of the window does not sit at a segment base
        exfalso
        have := entsOk_head_le wok e h
        have := hw8 m' List.mem_cons_self
        have := hwin e (List.mem_cons_of_mem _ h)
        rcases hg1 with hg1 | hg1
        · have := hfr g1 hg1
          rw [hsegs] at hg1
          rcases List.mem_cons.1 hg1 with hg1 | hg1
          · subst hg1; omega
          · have := d1 g1 hg1; have := d3 g1 (List.mem_cons_of_mem _ hg1); omega
        · subst hg1; simp only at hb1; omega
    · rcases hg1 with hg1 | hg1
      · exact hi.head g1 hg1 e h.1 (by omega)
      · exfalso
        subst hg1; simp only at hb1
        have := hfresh e h.1
        have := entsOk_pos w.ents e h.1
        omega
  · -- RecIn
    intro g hg hne
    rw [hsegs'] at hg
    simp only [List.mem_cons] at hg
    rcases hg with hg | hg | hg
    · subst hg; exact absurd rfl hne
    · subst hg; simp only; omega
    · exact hi.recin g (hrestm g hg) hne
  · -- SameUsers
    intro a z
    rw [sg_user_iff_mem hok', sg_user_iff_mem w.ents]
    constructor
    · rintro ⟨e, he, u1, u2, u3, u4, u5⟩
      rcases (hmem' e).1 he with h | h | h | h
      · rw [h, X3] at u2; cases u2
      · rw [h, F3] at u2; cases u2
      · exfalso
        rcases wclass e h with h1 | h1 | h1
        · omega
        · have := sg_isRecord_of_mem (e := e) hg0r (by simp only; omega)
          rw [u5] at this; cases this
        · rw [h1.1] at u2; cases u2
      · refine ⟨e, h.1, u1, u2, u3, u4, ?_⟩
        cases hr : isRecord s.segs e with
        | false => rfl
        | true => rw [hrecs_mono e hr] at u5; cases u5
    · rintro ⟨e, he, u1, u2, u3, u4, u5⟩
      have hout : e.addr < s.h.top ∨ g0.base + g0.size ≤ e.addr := by
        rw [hes] at he
        simp only [List.mem_append, List.mem_cons, List.not_mem_nil, or_false] at he
        rcases he with (h | h | h) | h
        · have := o1 e h; omega
        · subst h; rw [hxc] at u2; cases u2
        · subst h; rw [hfc] at u2; cases u2
        · have := o5 e h; omega
      refine ⟨e, hmemO e he hout, u1, u2, u3, u4, ?_⟩
      cases hr : isRecord s'.segs e with
      | false => rfl
      | true =>
        exfalso
        rcases hrecs_new e hr with h | h
        · omega
        · rw [u5] at h; cases h

/-! ## 10. `sys-prepend`: a segment grows at its start -/

theorem sg_replaceSeg_split {l1 l2 : List Seg} {old new : Seg} (h : old ∉ l1) :
    replaceSeg (l1 ++ old :: l2) old new = l1 ++ new :: l2 := by
  induction l1 with
  | nil => simp [replaceSeg]
  | cons a r ih =>
    have ha : a ≠ old := fun h' => h (h' ▸ List.mem_cons_self)
    have hr : old ∉ r := fun h' => h (List.mem_cons_of_mem _ h')
    simp only [List.cons_append, replaceSeg, if_neg ha, ih hr]

theorem sg_split_first {l : List Seg} {g : Seg} (h : g ∈ l) : ∃ l1 l2, l = l1 ++ g :: l2 ∧ g ∉ l1 := by
  induction l with
  | nil => cases h
  | cons a r ih =>
    by_cases hag : a = g
    · exact ⟨[], r, by rw [hag]; rfl, by simp⟩
    · have hr : g ∈ r := by
        rcases List.mem_cons.1 h with h | h
        · exact absurd h.symm hag
        · exact h
      obtain ⟨l1, l2, h1, h2⟩ := ih hr
      refine ⟨a :: l1, l2, by rw [h1]; rfl, ?_⟩
      intro hm
      rcases List.mem_cons.1 hm with hm | hm
      · exact hag hm.symm
      · exact h2 hm

/-- the first header of a segment: it sits at the segment base and has PINUSE set -/
theorem sg_first_entry {s : St} (w : WFS s) {g : Seg} (hg : g ∈ s.segs) :
    ∃ e T, segEnts s.h.ents g = e :: T ∧ e ∈ s.h.ents ∧ e.addr = g.base ∧ e.pin = true := by
  have ht := w.struct.tiles_of hg
  have hta := w.struct.tags_of hg
  cases hs : segEnts s.h.ents g with
  | nil => rw [hs] at ht; simp [tiles] at ht
  | cons e T =>
    rw [hs] at ht hta
    have hm : e ∈ segEnts s.h.ents g := by rw [hs]; exact List.mem_cons_self
    refine ⟨e, T, rfl, (mem_segEnts.1 hm).1, tiles_head_addr ht, ?_⟩
    rw [tagsOk_cons_iff] at hta
    exact hta.1

/-- **the segment `sq` extended downwards by a fresh mapping**, with two in-use chunks `P` (the request) and
`Q` (the rest of the mapping) in front of its old first header: the invariant holds, the user chunks are the
old ones plus `P` and `Q`.  (`sys-prepend` = this state followed by freeing `Q`.) -/
theorem sg_prepend_mid {s I : St} (hi : SInv s) {l1 l2 : List Seg} {sq : Seg}
    (hsegs : s.segs = l1 ++ sq :: l2)
    {tbase tsize nb : Nat} (hfr : ∀ g ∈ s.segs, tbase + tsize ≤ g.base ∨ g.base + g.size ≤ tbase)
    (hsqb : sq.base = tbase + tsize)
    (hpage : tbase % 4096 = 0) (hpos : 0 < tbase) (hts : tsize % 4096 = 0)
    (hnb16 : nb % 16 = 0) (hnb32 : 32 ≤ nb) (hsz : nb + 96 ≤ tsize)
    {P Q : Ent} (P1 : P.addr = tbase) (P2 : P.size = nb) (P3 : P.cin = true) (P4 : P.pin = true)
    (Q1 : Q.addr = tbase + nb) (Q2 : Q.size = tsize - nb) (Q3 : Q.cin = true) (Q4 : Q.pin = true)
    (hokI : entsOk I.h.ents = true) (hmemI : ∀ z, z ∈ I.h.ents ↔ z = P ∨ z = Q ∨ z ∈ s.h.ents)
    (hsegsI : I.segs = l1 ++ { sq with base := tbase, size := sq.size + tsize } :: l2)
    (hsb : I.h.sbins = s.h.sbins) (htb : I.h.tbins = s.h.tbins) (hdv : I.h.dv = s.h.dv)
    (hdvs : I.h.dvsize = s.h.dvsize) (htop : I.h.top = s.h.top) (htops : I.h.topsize = s.h.topsize)
    (hla : I.least_addr ≤ tbase ∧ I.least_addr ≤ s.least_addr) :
    SInv I ∧ (∀ a z, User I a z ↔ (User s a z ∨ (a = tbase ∧ z = nb) ∨ (a = tbase + nb ∧ z = tsize - nb))) ∧
      ∃ eo, findEnt I.h.ents sq.base = some eo ∧ eo ∈ s.h.ents ∧ eo.pin = true := by
  have w := hi.wfs
  have hsqm : sq ∈ s.segs := by rw [hsegs]; simp
  have hothers : ∀ g, g ∈ l1 ∨ g ∈ l2 → g ∈ s.segs := by
    intro g hg; rw [hsegs]; rcases hg with h | h <;> simp [h]
  have hsg := w.segs
  unfold segsOk at hsg
  simp only [Bool.and_eq_true, List.all_eq_true, decide_eq_true_eq, top_foot_size_eq] at hsg
  have hsqz := hsg.2 sq hsqm
  have hdis := sg_disjoint_of_split (hsegs ▸ w.segsDisjoint)
  have hfresh := sg_fresh_ents w hfr
  have hpos0 := entsOk_pos w.ents
  obtain ⟨eo, T, hsqe, heom, heoa, heop⟩ := sg_first_entry w hsqm
  -- membership
  have hPm : P ∈ I.h.ents := (hmemI P).2 (Or.inl rfl)
  have hQm : Q ∈ I.h.ents := (hmemI Q).2 (Or.inr (Or.inl rfl))
  have hOm : ∀ z ∈ s.h.ents, z ∈ I.h.ents := fun z hz => (hmemI z).2 (Or.inr (Or.inr hz))
  have hfind : ∀ z ∈ s.h.ents, findEnt I.h.ents z.addr = findEnt s.h.ents z.addr := by
    intro z hz; rw [entsOk_find z (hOm z hz) hokI, entsOk_find z hz w.ents]
  have hfind' : ∀ a, (∃ z ∈ s.h.ents, z.addr = a) → findEnt I.h.ents a = findEnt s.h.ents a := by
    rintro a ⟨z, hz, rfl⟩; exact hfind z hz
  have hold_out : ∀ z ∈ s.h.ents, z.addr + z.size ≤ tbase ∨ tbase + tsize ≤ z.addr := hfresh
  -- the segments
  have hsq'in : ∀ z, inSeg { sq with base := tbase, size := sq.size + tsize } z = true ↔
      (tbase ≤ z.addr ∧ z.addr < sq.base + sq.size) := by
    intro z; rw [inSeg_iff]; simp only; omega
  have hPQ_other : ∀ g, g ∈ l1 ∨ g ∈ l2 → inSeg g P = false ∧ inSeg g Q = false := by
    intro g hg
    have := hfr g (hothers g hg)
    constructor
    · cases h : inSeg g P with
      | false => rfl
      | true => rw [inSeg_iff] at h; omega
    · cases h : inSeg g Q with
      | false => rfl
      | true => rw [inSeg_iff] at h; omega
  have hseg_other : ∀ g, g ∈ l1 ∨ g ∈ l2 → segEnts I.h.ents g = segEnts s.h.ents g := by
    intro g hg
    refine sg_segEnts_eq hokI (sg_entsOk_filter w.ents _) ?_
    intro z
    rw [mem_segEnts]
    constructor
    · rintro ⟨h1, h2⟩; exact ⟨hOm z h1, h2⟩
    · rintro ⟨h1, h2⟩
      rcases (hmemI z).1 h1 with h | h | h
      · rw [h, (hPQ_other g hg).1] at h2; cases h2
      · rw [h, (hPQ_other g hg).2] at h2; cases h2
      · exact ⟨h, h2⟩
  have hsq_ok : entsOk (P :: Q :: eo :: T) = true := by
    have h0 : entsOk (eo :: T) = true := by rw [← hsqe]; exact sg_entsOk_filter w.ents _
    have h1 : entsOk (Q :: eo :: T) = true := by
      simp only [entsOk, Bool.and_eq_true, decide_eq_true_eq]
      exact ⟨⟨by omega, by omega⟩, h0⟩
    simp only [entsOk, Bool.and_eq_true, decide_eq_true_eq] at h1 ⊢
    exact ⟨⟨by omega, by omega⟩, h1⟩
  have hseg_sq : segEnts I.h.ents { sq with base := tbase, size := sq.size + tsize } = P :: Q :: eo :: T := by
    refine sg_segEnts_eq hokI hsq_ok ?_
    intro z
    rw [hsq'in z]
    have hT : z ∈ eo :: T ↔ z ∈ s.h.ents ∧ inSeg sq z = true := by rw [← hsqe]; exact mem_segEnts
    simp only [List.mem_cons] at hT ⊢
    constructor
    · rintro (h | h | h)
      · subst h; exact ⟨hPm, by omega⟩
      · subst h; exact ⟨hQm, by omega⟩
      · have := hT.1 h
        have hin := inSeg_iff.1 this.2
        exact ⟨hOm z this.1, by omega⟩
    · rintro ⟨h1, h2⟩
      rcases (hmemI z).1 h1 with h | h | h
      · exact Or.inl h
      · exact Or.inr (Or.inl h)
      · right; right
        refine hT.2 ⟨h, ?_⟩
        have := hpos0 z h
        rw [inSeg_iff]
        rcases hfresh z h with h' | h' <;> omega
  have hrecs : I.segs.map (·.recAt) = s.segs.map (·.recAt) := by rw [hsegsI, hsegs]; simp
  have hnoP : ∀ z ∈ s.h.ents, z.addr ≠ tbase ∧ z.addr ≠ tbase + nb := by
    intro z hz
    have := hpos0 z hz
    rcases hfresh z hz with h | h <;> omega
  have hrecP : ∀ e : Ent, (e.addr = tbase ∨ e.addr = tbase + nb) → isRecord s.segs e = false := by
    intro e he
    rw [sg_isRecord_false]
    intro g hg hga
    obtain ⟨_, e2, he2, _⟩ := hi.recs g hg (by omega)
    obtain ⟨hm2, ha2⟩ := findEnt_some he2
    have := hnoP e2 hm2
    omega
  have hfl : Dl.freeList I.h = Dl.freeList s.h := by unfold Dl.freeList binned; rw [htop, hdv, hsb, htb]
  have hbinfind : ∀ a ∈ Dl.freeList s.h, findEnt I.h.ents a = findEnt s.h.ents a := by
    intro a ha
    obtain ⟨e, he, hea⟩ := w.freeList_entry ha
    exact hfind' a ⟨e, he, hea⟩
  have hsegI_mem : ∀ g, g ∈ I.segs ↔ g = { sq with base := tbase, size := sq.size + tsize } ∨ g ∈ l1 ∨ g ∈ l2 := by
    intro g; rw [hsegsI]; simp only [List.mem_append, List.mem_cons]
    constructor
    · rintro (h | h | h)
      · exact Or.inr (Or.inl h)
      · exact Or.inl h
      · exact Or.inr (Or.inr h)
    · rintro (h | h | h)
      · exact Or.inr (Or.inl h)
      · exact Or.inl h
      · exact Or.inr (Or.inr h)
  refine ⟨⟨⟨hokI, ?_, ?_, ?_, ?_, ?_, ?_, ?_, ?_, ?_, ?_⟩, ?_, ?_, ?_, ?_, ?_⟩, ?_, ?_⟩
  · -- shapeOk
    unfold shapeOk
    rw [List.all_eq_true]
    intro z hz
    rcases (hmemI z).1 hz with h | h | h
    · subst h; simp only [Bool.or_eq_true, Bool.and_eq_true, decide_eq_true_eq]; right; omega
    · subst h; simp only [Bool.or_eq_true, Bool.and_eq_true, decide_eq_true_eq]; right; omega
    · have := w.shape; unfold shapeOk at this; exact List.all_eq_true.1 this z h
  · -- allInSegs
    simp only [List.all_eq_true, List.any_eq_true]
    intro z hz
    rcases (hmemI z).1 hz with h | h | h
    · exact ⟨_, (hsegI_mem _).2 (Or.inl rfl), (hsq'in z).2 (by subst h; omega)⟩
    · exact ⟨_, (hsegI_mem _).2 (Or.inl rfl), (hsq'in z).2 (by subst h; omega)⟩
    · obtain ⟨g, hg, hge⟩ := w.struct.seg_of h
      rw [hsegs] at hg
      simp only [List.mem_append, List.mem_cons] at hg
      rcases hg with hg | hg | hg
      · exact ⟨g, (hsegI_mem g).2 (Or.inr (Or.inl hg)), hge⟩
      · subst hg
        refine ⟨_, (hsegI_mem _).2 (Or.inl rfl), (hsq'in z).2 ?_⟩
        rw [inSeg_iff] at hge; omega
      · exact ⟨g, (hsegI_mem g).2 (Or.inr (Or.inr hg)), hge⟩
  · -- tiles
    simp only [List.all_eq_true]
    intro g hg
    rcases (hsegI_mem g).1 hg with h | h
    · subst h
      rw [hseg_sq]
      have ht := w.struct.tiles_of hsqm
      rw [hsqe] at ht
      have h8 : 8 ≤ eo.size := shapeOk_size w.shape heom
      simp only [tiles, Bool.and_eq_true, decide_eq_true_eq]
      refine ⟨⟨P1, by omega⟩, ⟨by omega, h8⟩, ?_⟩
      rw [show tbase + P.size + Q.size = sq.base by omega, show tbase + (sq.size + tsize) = sq.base + sq.size by omega]
      exact ht
    · rw [hseg_other g h]; exact w.struct.tiles_of (hothers g h)
  · -- tagsOk
    rw [htop]
    simp only [List.all_eq_true]
    intro g hg
    rcases (hsegI_mem g).1 hg with h | h
    · subst h
      rw [hseg_sq]
      have ht := w.struct.tags_of hsqm
      rw [hsqe] at ht
      simp only [tagsOk, isFree, P3, P4, Q3, Q4, Bool.not_true, Bool.false_and, Bool.and_true, beq_self_eq_true,
        Bool.true_and, if_false, Bool.false_eq_true]
      exact ht
    · rw [hseg_other g h]; exact w.struct.tags_of (hothers g h)
  · -- freeListOk
    rw [freeListOk_iff, hfl]
    obtain ⟨f1, f2, f3⟩ := (freeListOk_iff s.h).1 w.freeList
    refine ⟨f1, ?_, ?_⟩
    · intro e he hf
      rcases (hmemI e).1 he with h | h | h
      · rw [h] at hf; simp [isFree, P3] at hf
      · rw [h] at hf; simp [isFree, Q3] at hf
      · exact f2 e h hf
    · intro a ha
      rw [isFreeAt_frame (hbinfind a ha)]; exact f3 a ha
  · -- sbins
    have := sbinsOk_frame (h := s.h) (h' := I.h) w.sbins hsb (fun a ha => hbinfind a
      (mem_freeList_of_binned (List.mem_append.2 (Or.inl ha))))
    exact this
  · -- tbins
    have := tbinsOk_frame (h := s.h) (h' := I.h) w.tbins htb (fun a ha => hbinfind a
      (mem_freeList_of_binned (List.mem_append.2 (Or.inr ha))))
    exact this
  · -- dvOk
    by_cases h0 : s.h.dv = 0
    · have hd := w.dv
      unfold dvOk at hd ⊢
      rw [hdv, hdvs, if_pos h0]; rw [if_pos h0] at hd; exact hd
    · rw [dvOk_frame hdv hdvs (hbinfind s.h.dv (by rw [mem_freeList]; exact Or.inr (Or.inl ⟨h0, rfl⟩)))]
      exact w.dv
  · -- topOk
    have ht := w.top
    unfold topOk at ht ⊢
    rw [htop, htops]
    cases hl1 : l1 with
    | nil =>
      rw [hl1] at hsegs hsegsI
      simp only [List.nil_append] at hsegs hsegsI
      rw [hsegs] at ht
      rw [hsegsI]
      simp only [Bool.and_eq_true, decide_eq_true_eq] at ht ⊢
      obtain ⟨⟨⟨⟨⟨⟨t1, t2⟩, t3⟩, t4⟩, t5⟩, t6⟩, t7⟩ := ht
      have e1 : findEnt I.h.ents s.h.top = findEnt s.h.ents s.h.top := by
        apply hfind'
        cases hf : findEnt s.h.ents s.h.top with
        | none => rw [hf] at t6; cases t6
        | some e => exact ⟨e, (findEnt_some hf).1, (findEnt_some hf).2⟩
      have e2 : findEnt I.h.ents (s.h.top + s.h.topsize) = findEnt s.h.ents (s.h.top + s.h.topsize) := by
        apply hfind'
        cases hf : findEnt s.h.ents (s.h.top + s.h.topsize) with
        | none => rw [hf] at t7; cases t7
        | some e => exact ⟨e, (findEnt_some hf).1, (findEnt_some hf).2⟩
      rw [e1, e2]
      exact ⟨⟨⟨⟨⟨⟨t1, t2⟩, by omega⟩, by omega⟩, t5⟩, t6⟩, t7⟩
    | cons g0 l1' =>
      rw [hl1] at hsegs hsegsI
      simp only [List.cons_append] at hsegs hsegsI
      rw [hsegs] at ht
      rw [hsegsI]
      simp only [Bool.and_eq_true, decide_eq_true_eq] at ht ⊢
      obtain ⟨⟨⟨⟨⟨⟨t1, t2⟩, t3⟩, t4⟩, t5⟩, t6⟩, t7⟩ := ht
      have e1 : findEnt I.h.ents s.h.top = findEnt s.h.ents s.h.top := by
        apply hfind'
        cases hf : findEnt s.h.ents s.h.top with
        | none => rw [hf] at t6; cases t6
        | some e => exact ⟨e, (findEnt_some hf).1, (findEnt_some hf).2⟩
      have e2 : findEnt I.h.ents (s.h.top + s.h.topsize) = findEnt s.h.ents (s.h.top + s.h.topsize) := by
        apply hfind'
        cases hf : findEnt s.h.ents (s.h.top + s.h.topsize) with
        | none => rw [hf] at t7; cases t7
        | some e => exact ⟨e, (findEnt_some hf).1, (findEnt_some hf).2⟩
      rw [e1, e2]
      exact ⟨⟨⟨⟨⟨⟨t1, t2⟩, t3⟩, t4⟩, t5⟩, t6⟩, t7⟩
  · -- segsOk
    unfold segsOk
    simp only [Bool.and_eq_true, List.all_eq_true, decide_eq_true_eq, top_foot_size_eq]
    constructor
    · rw [hsegsI, sg_segsDisjoint_iff, List.pairwise_append]
      have hd0 := w.segsDisjoint
      rw [hsegs, sg_segsDisjoint_iff, List.pairwise_append] at hd0
      obtain ⟨a1, a2, a3⟩ := hd0
      obtain ⟨b1, b2⟩ := List.pairwise_cons.1 a2
      refine ⟨a1, List.pairwise_cons.2 ⟨?_, b2⟩, ?_⟩
      · intro g hg
        have := b1 g hg
        have := hfr g (hothers g (Or.inr hg))
        have := (hsg.2 g (hothers g (Or.inr hg)))
        simp only; omega
      · intro a ha b hb
        rcases List.mem_cons.1 hb with hb | hb
        · subst hb
          have := a3 a ha sq List.mem_cons_self
          have := hfr a (hothers a (Or.inl ha))
          have := (hsg.2 a (hothers a (Or.inl ha)))
          simp only; omega
        · exact a3 a ha b (List.mem_cons_of_mem _ hb)
    · intro g hg
      rcases (hsegI_mem g).1 hg with h | h
      · subst h; simp only; omega
      · have := hsg.2 g (hothers g h); omega
  · -- RecsOk
    intro g hg hne
    have hg' : ∃ g1 ∈ s.segs, g1.recAt = g.recAt := by
      rcases (hsegI_mem g).1 hg with h | h
      · exact ⟨sq, hsqm, by rw [h]⟩
      · exact ⟨g, hothers g h, rfl⟩
    obtain ⟨g1, hg1, hr1⟩ := hg'
    obtain ⟨h16, e, he, hc⟩ := hi.recs g1 hg1 (by omega)
    rw [hr1] at h16 he
    obtain ⟨hm, ha⟩ := findEnt_some he
    exact ⟨h16, e, by rw [← ha, hfind e hm]; exact entsOk_find e hm w.ents, hc⟩
  · -- FenceOk
    rw [sg_fenceOk_iff_tab hokI]
    have hold := (sg_fenceOk_iff_tab w.ents).1 hi.fence
    intro a ha b hb h8 hadj
    rw [sg_isRecord_congr hrecs]
    rcases (hmemI b).1 hb with hb | hb | hb
    · rw [hb, P2] at h8; omega
    · rw [hb, Q2] at h8; omega
    · rcases (hmemI a).1 ha with ha | ha | ha
      · exfalso; rw [ha, P1, P2] at hadj; exact (hnoP b hb).2 hadj
      · exfalso
        rw [ha, Q1, Q2] at hadj
        exact hi.head sq hsqm b hb (by omega) h8
      · exact hold a ha b hb h8 hadj
  · -- TailOk
    intro g hg hne e he hge
    rw [sg_isRecord_congr hrecs]
    rcases (hsegI_mem g).1 hg with h | h
    · subst h
      rcases (hmemI e).1 he with h | h | h
      · right; right; simp only; rw [h, P1, P2]; omega
      · right; right; simp only; rw [h, Q1, Q2]; omega
      · have hin : inSeg sq e = true := by
          have := (hsq'in e).1 hge
          have := hpos0 e h
          rw [inSeg_iff]
          rcases hfresh e h with h' | h' <;> omega
        rcases hi.tail sq hsqm hne e h hin with h1 | h1 | h1
        · exact Or.inl h1
        · exact Or.inr (Or.inl h1)
        · right; right; simp only; omega
    · rcases (hmemI e).1 he with h' | h' | h'
      · rw [h', (hPQ_other g h).1] at hge; cases hge
      · rw [h', (hPQ_other g h).2] at hge; cases hge
      · exact hi.tail g (hothers g h) hne e h' hge
  · -- HeadOk
    intro g hg e he hb
    rcases (hmemI e).1 he with h | h | h
    · rw [h, P2]; omega
    · rw [h, Q2]; omega
    · rcases (hsegI_mem g).1 hg with h' | h'
      · exfalso; subst h'; simp only at hb; exact (hnoP e h).1 hb
      · exact hi.head g (hothers g h') e h hb
  · -- RecIn
    intro g hg hne
    rcases (hsegI_mem g).1 hg with h | h
    · subst h
      have := hi.recin sq hsqm hne
      simp only; omega
    · exact hi.recin g (hothers g h) hne
  · -- users
    intro a z
    rw [sg_user_iff_mem hokI, sg_user_iff_mem w.ents]
    constructor
    · rintro ⟨e, he, u1, u2, u3, u4, u5⟩
      rcases (hmemI e).1 he with h | h | h
      · right; left; subst h; exact ⟨by omega, by omega⟩
      · right; right; subst h; exact ⟨by omega, by omega⟩
      · left; exact ⟨e, h, u1, u2, u3, u4, by rw [← sg_isRecord_congr hrecs]; exact u5⟩
    · rintro (⟨e, he, u1, u2, u3, u4, u5⟩ | ⟨h1, h2⟩ | ⟨h1, h2⟩)
      · exact ⟨e, hOm e he, u1, u2, u3, u4, by rw [sg_isRecord_congr hrecs]; exact u5⟩
      · exact ⟨P, hPm, by omega, P3, by omega, by omega, by rw [sg_isRecord_congr hrecs]; exact hrecP P (Or.inl P1)⟩
      · exact ⟨Q, hQm, by omega, Q3, by omega, by omega, by rw [sg_isRecord_congr hrecs]; exact hrecP Q (Or.inr Q1)⟩
  · exact ⟨eo, by rw [← heoa, hfind eo heom]; exact entsOk_find eo heom w.ents, heom, heop⟩

end TinyVerif.Dl
