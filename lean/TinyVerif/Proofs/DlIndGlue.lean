import TinyVerif.Proofs.DlIndSpec
import TinyVerif.Proofs.DlIndDvTop
import TinyVerif.Proofs.DlIndSmall
/-!
# Glue between the `WFS` / `AllocFacts` branch theorems and the `SInv` / `User` interface

Everything here keeps the segment list fixed: `s' = { s with h := H }`.  Tag `gl_`.

## 1. `FenceOk` / `RecsOk` / `TailOk` under a change of the header table
  * `FenceTab es segs` — membership form of `FenceOk` (`gl_fenceOk_iff_tab`, needs `entsOk` only).
  * `gl_fenceOk_of_old` — workhorse: if every fencepost of the new table sits at the address of an old
    fencepost, and every header of the new table that ends at a fencepost is a fencepost / record / has the
    address and size of an old header, then `FenceOk` carries over.  No window needed.
  * `gl_fenceOk_window` (no fencepost in the new window, last header keeps address and end),
    `gl_fenceOk_window_last` (windows ending in a header that may be a fencepost: `add_segment`).
  * `gl_recsOk_of_kept`, `gl_recsOk_window`, `gl_recsOk_of_inusePreserved`, `gl_recsOk_except`.
  * `gl_tailOk_of_old`, `gl_tailOk_window`; `gl_record_cin`, `gl_not_record_of_free`.

## 2. table-level deltas (definitions first) and the bridges to `User`
  * `NonUserKept s es'`  — every in-use header of `s` that is a fencepost or a record is still there
                           (address, size, CINUSE)
  * `FencesOld es es'`   — every size-8 header of `es'` sits at the address of a size-8 header of `es`
  * `FreeAtTab es es' p`, `ResizeAtTab es es' p sz`  (+ `gl_freeAtTab_of_iff` for the `↔` form of `unuse_table`)
  * `gl_user_def`, `gl_user_iff_mem`, `gl_user_at`, `gl_user_frame` (pointwise frame: use it directly for
    `split_inuse` / `memalign_fix`, whose deltas are not one of the three below), `gl_user_not_record`
  * bridges `gl_alloc_of_allocFacts`, `gl_freed_of_freeAtTab`, `gl_resized_of_resizeAtTab`.

## 3. `SInv` from facts about the IN-USE headers only
  * `gl_sinv_of_kept : SInv s → WFS s' → NonUserKept s H.ents → FencesOld s.h.ents H.ents → SInv s'`
    — the general preservation theorem for every step that keeps the segment list.  Neither `FenceOk` nor
    `TailOk` of the new state needs information about the free headers of the new table
    (`gl_fenceOk_of_kept`, `gl_tailOk_of_kept`; tools: `gl_prev_entry`, `gl_ff_head_seg`, `gl_tiles_cover`).
  * `gl_fencesOld_alloc / _free / _resize`, `gl_nonUserKept_of_inusePreserved / _except`
  * packaged: `gl_sinv_alloc`, `gl_sinv_freeAtTab`, `gl_sinv_resizeAtTab`
    (`WFS s'` + table delta ⟹ `SInv s'` + `Alloc` / `Freed` / `Resized`)
  * the lifted pilot: `gl_malloc_dv_top_sinv`, `gl_malloc_nosys_small_bin_sinv`.

## 4. `gl_liveOk_iff_user`
## 5. executable checkers `gl_recsOkB`, `gl_fenceOkB`, `gl_tailOkB` (`gl_inv_of_check`) and a non-vacuity
      example on a two-segment state with fenceposts and a record chunk (`glState`).

NOTE for the segment-list colleagues: `FenceOk` (as fixed in `DlIndBase`) speaks about neighbours *in the
table*, also across a segment boundary.  `WFS ∧ RecsOk ∧ FenceOk ∧ TailOk` does not forbid a segment that
STARTS with a size-8 header (e.g. `[fence, fence, chunk, …]`: `tiles`, `tagsOk`, `shapeOk` are satisfied);
mapping a new head segment that ends exactly at the base of such a segment puts the foot word (size 80, no
record) in front of a fencepost and breaks `FenceOk`.  Unreachable, but `sys_alloc_Spec` may need "no
segment starts with a fencepost" (or `FenceOk` restricted to one segment) to be inductive.
-/
namespace TinyVerif.Dl

/-! ## 1. `FenceOk` and `RecsOk` when the table changes, the segment list fixed -/

/-- `isRecord` looks at the address only -/
theorem gl_isRecord_addr {segs : List Seg} {e e' : Ent} (h : e'.addr = e.addr) :
    isRecord segs e' = isRecord segs e := by
  unfold isRecord; rw [h]

theorem gl_isRecord_iff {segs : List Seg} {e : Ent} :
    isRecord segs e = true ↔ ∃ g ∈ segs, g.recAt = e.addr + 16 := by
  unfold isRecord; simp

/-- membership form of `FenceOk`: the header ending where a fencepost starts is a fencepost or a record -/
def FenceTab (es : List Ent) (segs : List Seg) : Prop :=
  ∀ x ∈ es, ∀ y ∈ es, y.size = 8 → y.addr = x.addr + x.size → x.size = 8 ∨ isRecord segs x = true

/-- in a sorted table, a header and the header starting at its end are neighbours in the list -/
theorem gl_adjacent_of_mem {es : List Ent} (hok : entsOk es = true) {x y : Ent} (hx : x ∈ es) (hy : y ∈ es)
    (ha : y.addr = x.addr + x.size) : ∃ pre post, es = pre ++ x :: y :: post := by
  obtain ⟨pre, rest, rfl⟩ := List.append_of_mem hx
  obtain ⟨h1, h2, h3⟩ := entsOk_append.1 hok
  have hxpos := entsOk_pos h2 x List.mem_cons_self
  rcases List.mem_append.1 hy with hy | hy
  · have := h3 y hy x List.mem_cons_self
    have := entsOk_pos h1 y hy
    omega
  · rcases List.mem_cons.1 hy with hy | hy
    · subst hy; omega
    · cases rest with
      | nil => cases hy
      | cons z post =>
        have hz := entsOk_head_le h2 z List.mem_cons_self
        have hzpos := entsOk_pos h2 z (by simp)
        rcases List.mem_cons.1 hy with hy | hy
        · subst hy; exact ⟨pre, post, rfl⟩
        · have := entsOk_head_le (entsOk_tail h2) y hy
          omega

theorem gl_fenceOk_iff_tab {s : St} (hok : entsOk s.h.ents = true) : FenceOk s ↔ FenceTab s.h.ents s.segs := by
  constructor
  · intro hf x hx y hy h8 ha
    obtain ⟨pre, post, hes⟩ := gl_adjacent_of_mem hok hx hy ha
    exact hf pre x y post hes h8 ha
  · intro hf pre x y post hes h8 ha
    exact hf x (by rw [hes]; simp) y (by rw [hes]; simp) h8 ha

/-- **the workhorse**: `FenceTab` carries over to a new table all of whose fenceposts sit at old
fencepost addresses and in which every header ending at a fencepost is a fencepost, a record, or has the
address and the size of an old header -/
theorem gl_fenceTab_of_old {es es' : List Ent} {segs : List Seg} (hf : FenceTab es segs)
    (h1 : ∀ y' ∈ es', y'.size = 8 → ∃ y ∈ es, y.addr = y'.addr ∧ y.size = 8)
    (h2 : ∀ x' ∈ es', ∀ y' ∈ es', y'.size = 8 → y'.addr = x'.addr + x'.size →
      x'.size = 8 ∨ isRecord segs x' = true ∨ ∃ x ∈ es, x.addr = x'.addr ∧ x.size = x'.size) :
    FenceTab es' segs := by
  intro x' hx' y' hy' h8 ha
  rcases h2 x' hx' y' hy' h8 ha with h | h | ⟨x, hx, hxa, hxs⟩
  · exact Or.inl h
  · exact Or.inr h
  · obtain ⟨y, hy, hya, hys⟩ := h1 y' hy' h8
    rcases hf x hx y hy hys (by omega) with h | h
    · exact Or.inl (by omega)
    · exact Or.inr (by rw [gl_isRecord_addr hxa.symm]; exact h)

theorem gl_fenceOk_of_old {s : St} {H : Heap} (hf : FenceOk s) (hok : entsOk s.h.ents = true)
    (hok' : entsOk H.ents = true)
    (h1 : ∀ y' ∈ H.ents, y'.size = 8 → ∃ y ∈ s.h.ents, y.addr = y'.addr ∧ y.size = 8)
    (h2 : ∀ x' ∈ H.ents, ∀ y' ∈ H.ents, y'.size = 8 → y'.addr = x'.addr + x'.size →
      x'.size = 8 ∨ isRecord s.segs x' = true ∨ ∃ x ∈ s.h.ents, x.addr = x'.addr ∧ x.size = x'.size) :
    FenceOk { s with h := H } :=
  (gl_fenceOk_iff_tab (s := { s with h := H }) hok').2 (gl_fenceTab_of_old ((gl_fenceOk_iff_tab hok).1 hf) h1 h2)

/-- the last header of a sorted run is its maximum -/
theorem gl_lastE_max {m : Ent} {ms : List Ent} (hok : entsOk (m :: ms) = true) :
    ∀ e ∈ m :: ms, e = lastE m ms ∨ e.addr + e.size ≤ (lastE m ms).addr := by
  induction ms generalizing m with
  | nil => intro e he; simp only [List.mem_singleton] at he; exact Or.inl he
  | cons z zs ih =>
    intro e he
    rcases List.mem_cons.1 he with he | he
    · subst he
      exact Or.inr (entsOk_head_le hok _ (lastE_mem z zs))
    · exact ih (entsOk_tail hok) e he

/-- a header of the window `mid` of a sorted table `pre ++ mid ++ post` that ends where a header outside
the window starts is the last header of the window -/
theorem gl_window_pred {pre post : List Ent} {m : Ent} {ms : List Ent}
    (hok : entsOk (pre ++ (m :: ms) ++ post) = true) {x y : Ent} (hx : x ∈ m :: ms)
    (hy : y ∈ pre ++ (m :: ms) ++ post) (hyn : y ∉ m :: ms) (ha : y.addr = x.addr + x.size) :
    x = lastE m ms ∧ y ∈ post := by
  obtain ⟨h1, h2, h3⟩ := entsOk_append.1 hok
  obtain ⟨h4, h5, h6⟩ := entsOk_append.1 h1
  have hxpos := entsOk_pos h5 x hx
  have hyp : y ∈ post := by
    simp only [List.mem_append] at hy
    rcases hy with (hy | hy) | hy
    · have := h6 y hy x hx
      have := entsOk_pos h4 y hy
      omega
    · exact absurd hy hyn
    · exact hy
  refine ⟨?_, hyp⟩
  rcases gl_lastE_max h5 x hx with h | h
  · exact h
  · have hl := lastE_mem m ms
    have := h3 (lastE m ms) (List.mem_append.2 (Or.inr hl)) y hyp
    have := entsOk_pos h5 _ hl
    omega

/-- **`FenceOk` under window replacement.**  The new window contains no fencepost, its last header has
the address and the end of the old last header (so the "record" status of the header a following
fencepost looks at is unchanged). -/
theorem gl_fenceOk_window {s : St} {H : Heap} (hf : FenceOk s) {pre post : List Ent} {m m' : Ent} {ms ms' : List Ent}
    (hes : s.h.ents = pre ++ (m :: ms) ++ post) (hH : H.ents = pre ++ (m' :: ms') ++ post)
    (hok : entsOk s.h.ents = true) (hok' : entsOk H.ents = true)
    (h8 : ∀ y ∈ m' :: ms', y.size ≠ 8)
    (hla : (lastE m' ms').addr = (lastE m ms).addr) (hend : endE m' ms' = endE m ms) :
    FenceOk { s with h := H } := by
  refine gl_fenceOk_of_old hf hok hok' ?_ ?_
  · intro y' hy' hy8
    rw [hH] at hy'
    simp only [List.mem_append] at hy'
    rcases hy' with (h | h) | h
    · exact ⟨y', by rw [hes]; simp [h], rfl, hy8⟩
    · exact absurd hy8 (h8 y' h)
    · exact ⟨y', by rw [hes]; simp [h], rfl, hy8⟩
  · intro x' hx' y' hy' hy8 ha
    refine Or.inr (Or.inr ?_)
    rw [hH] at hx' hy' hok'
    have hyn : y' ∉ m' :: ms' := fun h => h8 y' h hy8
    by_cases hxw : x' ∈ m' :: ms'
    · obtain ⟨hxl, _⟩ := gl_window_pred hok' hxw hy' hyn ha
      subst hxl
      refine ⟨lastE m ms, ?_, hla.symm, ?_⟩
      · rw [hes]
        exact List.mem_append.2 (Or.inl (List.mem_append.2 (Or.inr (lastE_mem m ms))))
      · simp only [endE] at hend
        omega
    · refine ⟨x', ?_, rfl, rfl⟩
      rw [hes]
      simp only [List.mem_append] at hx' ⊢
      rcases hx' with (h | h) | h
      · exact Or.inl (Or.inl h)
      · exact absurd h hxw
      · exact Or.inr h

/-- the variant for windows that END in a header which may be a fencepost (`add_segment`): new window
`ws' ++ [b']`, old window `ws ++ [b]`, `b'` has the address and size of `b`, no header of `ws'` is a
fencepost, and — if `b'` is a fencepost — the header of the new table ending at `b'` is a fencepost or
a record (a local obligation). -/
theorem gl_fenceOk_window_last {s : St} {H : Heap} (hf : FenceOk s) {pre post ws ws' : List Ent} {b b' : Ent}
    (hes : s.h.ents = pre ++ (ws ++ [b]) ++ post) (hH : H.ents = pre ++ (ws' ++ [b']) ++ post)
    (hok : entsOk s.h.ents = true) (hok' : entsOk H.ents = true)
    (h8 : ∀ y ∈ ws', y.size ≠ 8) (hba : b'.addr = b.addr) (hbs : b'.size = b.size)
    (hb : b'.size = 8 → ∀ x ∈ pre ++ ws', b'.addr = x.addr + x.size → x.size = 8 ∨ isRecord s.segs x = true) :
    FenceOk { s with h := H } := by
  have hbm : b ∈ s.h.ents := by rw [hes]; simp
  refine gl_fenceOk_of_old hf hok hok' ?_ ?_
  · intro y' hy' hy8
    rw [hH] at hy'
    simp only [List.mem_append, List.mem_singleton] at hy'
    rcases hy' with (h | h | h) | h
    · exact ⟨y', by rw [hes]; simp [h], rfl, hy8⟩
    · exact absurd hy8 (h8 y' h)
    · subst h; exact ⟨b, hbm, hba.symm, by omega⟩
    · exact ⟨y', by rw [hes]; simp [h], rfl, hy8⟩
  · intro x' hx' y' hy' hy8 ha
    rw [hH] at hx' hy' hok'
    obtain ⟨q1, q2, q3⟩ := entsOk_append.1 hok'
    obtain ⟨q4, q5, q6⟩ := entsOk_append.1 q1
    obtain ⟨q7, q8, q9⟩ := entsOk_append.1 q5
    have hx'pos : 0 < x'.size := entsOk_pos hok' x' hx'
    simp only [List.mem_append, List.mem_singleton] at hx' hy'
    -- where is the fencepost?
    rcases hy' with (hy | hy | hy) | hy
    · -- in `pre`: so is its predecessor
      rcases hx' with (h | h | h) | h
      · exact Or.inr (Or.inr ⟨x', by rw [hes]; simp [h], rfl, rfl⟩)
      · have := q6 y' hy x' (List.mem_append.2 (Or.inl h)); have := entsOk_pos q4 y' hy; omega
      · subst h; have := q6 y' hy x' (by simp); have := entsOk_pos q4 y' hy; omega
      · have := q3 y' (by simp [hy]) x' h; have := entsOk_pos q4 y' hy; omega
    · exact absurd hy8 (h8 y' hy)
    · -- the fencepost is `b'`
      subst hy
      rcases hx' with (h | h | h) | h
      · rcases hb hy8 x' (by simp [h]) ha with h | h
        · exact Or.inl h
        · exact Or.inr (Or.inl h)
      · rcases hb hy8 x' (by simp [h]) ha with h | h
        · exact Or.inl h
        · exact Or.inr (Or.inl h)
      · subst h; omega
      · have := q3 y' (by simp) x' h; have := entsOk_pos q1 y' (by simp); omega
    · -- in `post`
      rcases hx' with (h | h | h) | h
      · exact Or.inr (Or.inr ⟨x', by rw [hes]; simp [h], rfl, rfl⟩)
      · have h1 := q9 x' h b' (by simp)
        have h2 := q3 b' (by simp) y' hy
        have := entsOk_pos q8 b' (by simp)
        omega
      · subst h; exact Or.inr (Or.inr ⟨b, hbm, hba.symm, hbs.symm⟩)
      · exact Or.inr (Or.inr ⟨x', by rw [hes]; simp [h], rfl, rfl⟩)

/-! ### `RecsOk` -/

/-- `RecsOk` needs only that the in-use headers holding a segment record stay in-use headers -/
theorem gl_recsOk_of_kept {s : St} {H : Heap} (hr : RecsOk s)
    (hk : ∀ e ∈ s.h.ents, e.cin = true → isRecord s.segs e = true →
      ∃ e', findEnt H.ents e.addr = some e' ∧ e'.cin = true) :
    RecsOk { s with h := H } := by
  intro g hg hne
  obtain ⟨h16, e, he, hc⟩ := hr g hg hne
  obtain ⟨hm, ha⟩ := findEnt_some he
  have hrec : isRecord s.segs e = true := gl_isRecord_iff.2 ⟨g, hg, by omega⟩
  obtain ⟨e', he', hc'⟩ := hk e hm hc hrec
  exact ⟨h16, e', ha ▸ he', hc'⟩

theorem gl_recsOk_of_inusePreserved {s : St} {H : Heap} (hr : RecsOk s) (hk : InusePreserved s.h.ents H.ents) :
    RecsOk { s with h := H } := hr.preserved hk

/-- window form: record headers inside the window keep address and CINUSE -/
theorem gl_recsOk_window {s : St} {H : Heap} (hr : RecsOk s) {pre mid mid' post : List Ent}
    (hes : s.h.ents = pre ++ mid ++ post) (hH : H.ents = pre ++ mid' ++ post) (hok' : entsOk H.ents = true)
    (hmid : ∀ e ∈ mid, e.cin = true → isRecord s.segs e = true → ∃ e' ∈ mid', e'.addr = e.addr ∧ e'.cin = true) :
    RecsOk { s with h := H } := by
  refine gl_recsOk_of_kept hr ?_
  intro e he hc hrec
  rw [hes] at he
  simp only [List.mem_append] at he
  rcases he with (h | h) | h
  · exact ⟨e, entsOk_find e (by rw [hH]; simp [h]) hok', hc⟩
  · obtain ⟨e', he', h1, h2⟩ := hmid e h hc hrec
    exact ⟨e', h1 ▸ entsOk_find e' (by rw [hH]; simp [he']) hok', h2⟩
  · exact ⟨e, entsOk_find e (by rw [hH]; simp [h]) hok', hc⟩

/-- every in-use header other than the one at `p` is preserved, and `p` holds no record -/
theorem gl_recsOk_except {s : St} {H : Heap} (hr : RecsOk s) {p : Nat}
    (hp : ∀ e ∈ s.h.ents, e.addr = p → isRecord s.segs e = false)
    (hk : ∀ e ∈ s.h.ents, e.cin = true → e.addr ≠ p → ∃ e', findEnt H.ents e.addr = some e' ∧ e'.cin = true) :
    RecsOk { s with h := H } := by
  refine gl_recsOk_of_kept hr ?_
  intro e he hc hrec
  refine hk e he hc ?_
  intro hea
  rw [hp e he hea] at hrec
  cases hrec

/-! ### `TailOk` -/

/-- a segment record lives in an in-use header, so a header with CINUSE clear holds no record -/
theorem gl_record_cin {s : St} (hr : RecsOk s) (hok : entsOk s.h.ents = true) {x : Ent} (hx : x ∈ s.h.ents)
    (h : isRecord s.segs x = true) : x.cin = true := by
  obtain ⟨g, hg, hga⟩ := gl_isRecord_iff.1 h
  obtain ⟨_, e, he, hce⟩ := hr g hg (by omega)
  rw [hga, show x.addr + 16 - 16 = x.addr by omega, entsOk_find x hx hok] at he
  injection he with he
  subst he
  exact hce

theorem gl_not_record_of_free {s : St} (hr : RecsOk s) (hok : entsOk s.h.ents = true) {x : Ent} (hx : x ∈ s.h.ents)
    (hc : x.cin = false) : isRecord s.segs x = false := by
  cases h : isRecord s.segs x with
  | false => rfl
  | true => rw [gl_record_cin hr hok hx h] at hc; cases hc

/-- workhorse: every header of the new table in a non-head segment is a fencepost, a record, or ends no
later than an old header of the same segment that is neither -/
theorem gl_tailOk_of_old {s : St} {H : Heap} (ht : TailOk s)
    (h : ∀ g ∈ s.segs, g.recAt ≠ 0 → ∀ e' ∈ H.ents, inSeg g e' = true →
      e'.size = 8 ∨ isRecord s.segs e' = true ∨
        ∃ e ∈ s.h.ents, inSeg g e = true ∧ e'.addr + e'.size ≤ e.addr + e.size ∧
          (e.size = 8 ∨ isRecord s.segs e = true → e'.addr = e.addr ∧ e'.size = e.size)) :
    TailOk { s with h := H } := by
  intro g hg hne e' he' hge'
  rcases h g hg hne e' he' hge' with h1 | h1 | ⟨e, he, hge, hle, himp⟩
  · exact Or.inl h1
  · exact Or.inr (Or.inl h1)
  · rcases ht g hg hne e he hge with h2 | h2 | h2
    · exact Or.inl (by rw [(himp (Or.inl h2)).2]; exact h2)
    · refine Or.inr (Or.inl ?_)
      have : isRecord s.segs e' = isRecord s.segs e := gl_isRecord_addr (himp (Or.inr h2)).1
      rw [this]; exact h2
    · exact Or.inr (Or.inr (by omega))

/-- **`TailOk` under window replacement.**  The old window `m :: ms` lies in the segment `g`; every new
header lies inside the address range of the old window (`ha`) and ends no later than some old header `e`
of the window; if that `e` is a fencepost or a record, the new header is `e` (same address and size).
(`exhaust`: `nx ⊆ x`, `ny = y`; `split`: `np, nr ⊆ x`, `ny = y`; `unuse`: `fx = x`, `ny = y`; `merge`:
`m` ends with the free `z` — `gl_not_record_of_free` —, `ny = y`.) -/
theorem gl_tailOk_window {s : St} {H : Heap} (ht : TailOk s) (w : WFS s) {pre post : List Ent} {m m' : Ent}
    {ms ms' : List Ent} (hes : s.h.ents = pre ++ (m :: ms) ++ post) (hH : H.ents = pre ++ (m' :: ms') ++ post)
    (hok' : entsOk H.ents = true) {g : Seg} (hg : g ∈ s.segs) (hgm : ∀ e ∈ m :: ms, inSeg g e = true)
    (ha : ∀ e' ∈ m' :: ms', m.addr ≤ e'.addr ∧ e'.addr + e'.size ≤ endE m ms)
    (hin : ∀ e' ∈ m' :: ms', e'.size = 8 ∨ isRecord s.segs e' = true ∨
      ∃ e ∈ m :: ms, e'.addr + e'.size ≤ e.addr + e.size ∧
        (e.size = 8 ∨ isRecord s.segs e = true → e'.addr = e.addr ∧ e'.size = e.size)) :
    TailOk { s with h := H } := by
  have hmid : ∀ e ∈ m :: ms, e ∈ s.h.ents := fun e he => by
    rw [hes]; exact List.mem_append.2 (Or.inl (List.mem_append.2 (Or.inr he)))
  refine gl_tailOk_of_old ht ?_
  intro g' hg' hne e' he' hge'
  have he'pos := entsOk_pos hok' e' he'
  rw [hH] at he'
  by_cases hw : e' ∈ m' :: ms'
  · -- a new header: it lies in `g`
    have hl := lastE_mem m ms
    have hgl := w.struct.in_seg hg (hmid _ hl) (hgm _ hl)
    have hgm0 := inSeg_iff.1 (hgm m List.mem_cons_self)
    obtain ⟨a1, a2⟩ := ha e' hw
    simp only [endE] at a2
    have i1 := inSeg_iff.1 hge'
    have hgg : g = g' := by
      rcases segsDisjoint_pair w.segsDisjoint g hg g' hg' with h | h | h
      · exact h
      · have := entsOk_pos (w.struct.ents) _ (hmid _ hl); omega
      · omega
    subst hgg
    rcases hin e' hw with h | h | ⟨e, he, hle, himp⟩
    · exact Or.inl h
    · exact Or.inr (Or.inl h)
    · exact Or.inr (Or.inr ⟨e, hmid e he, hgm e he, hle, himp⟩)
  · refine Or.inr (Or.inr ⟨e', ?_, hge', Nat.le_refl _, fun _ => ⟨rfl, rfl⟩⟩)
    rw [hes]
    simp only [List.mem_append] at he' ⊢
    rcases he' with (h | h) | h
    · exact Or.inl (Or.inl h)
    · exact absurd h hw
    · exact Or.inr h

/-! ## 2. table-level deltas and the bridges to `User`

DEFINITIONS FIRST (colleagues target these). -/

/-- every in-use header of `s` that is no user chunk (a fencepost or the chunk holding a segment record)
is still an in-use header of the same size in `es'` -/
def NonUserKept (s : St) (es' : List Ent) : Prop :=
  ∀ x ∈ s.h.ents, x.cin = true → (x.size = 8 ∨ isRecord s.segs x = true) →
    ∃ x', findEnt es' x.addr = some x' ∧ x'.size = x.size ∧ x'.cin = true

/-- every fencepost (size-8 header) of `es'` sits at the address of a fencepost of `es` -/
def FencesOld (es es' : List Ent) : Prop :=
  ∀ y' ∈ es', y'.size = 8 → ∃ y ∈ es, y.addr = y'.addr ∧ y.size = 8

/-- the in-use header at `p` became free or was merged away: no new in-use address, `p` is no in-use
address any more, every other in-use header is preserved with its size.  (`cin` is the direction that
is needed; the converse for `a ≠ p` follows from `kept`.  `gl_freeAtTab_of_iff` builds it from the
`↔` form that `unuse_table` returns.) -/
structure FreeAtTab (es es' : List Ent) (p : Nat) : Prop where
  cin : ∀ a, a ∈ cinSet es' → a ∈ cinSet es ∧ a ≠ p
  kept : ∀ e ∈ es, e.cin = true → e.addr ≠ p →
    ∃ e', findEnt es' e.addr = some e' ∧ e'.size = e.size ∧ e'.cin = true

/-- the in-use header at `p` now has size `sz`; no new in-use address; every other in-use header is
preserved with its size -/
structure ResizeAtTab (es es' : List Ent) (p sz : Nat) : Prop where
  cin : ∀ a, a ∈ cinSet es' → a = p ∨ a ∈ cinSet es
  here : ∃ e', findEnt es' p = some e' ∧ e'.cin = true ∧ e'.size = sz
  kept : ∀ e ∈ es, e.cin = true → e.addr ≠ p →
    ∃ e', findEnt es' e.addr = some e' ∧ e'.size = e.size ∧ e'.cin = true

theorem gl_freeAtTab_of_iff {es es' : List Ent} {p : Nat}
    (h1 : ∀ a, a ∈ cinSet es' ↔ a ∈ cinSet es ∧ a ≠ p)
    (h2 : ∀ e ∈ es, e.cin = true → e.addr ≠ p →
      ∃ e', findEnt es' e.addr = some e' ∧ e'.size = e.size ∧ e'.cin = true) : FreeAtTab es es' p :=
  ⟨fun a => (h1 a).1, h2⟩

/-! ### `User` -/

theorem gl_user_def {s : St} {H : Heap} {a z : Nat} :
    User { s with h := H } a z ↔
      ∃ e, findEnt H.ents a = some e ∧ e.cin = true ∧ e.size = z ∧ z ≠ 8 ∧ isRecord s.segs e = false := Iff.rfl

theorem gl_user_iff_mem {s : St} (hok : entsOk s.h.ents = true) {a z : Nat} :
    User s a z ↔ ∃ e ∈ s.h.ents, e.addr = a ∧ e.cin = true ∧ e.size = z ∧ z ≠ 8 ∧ isRecord s.segs e = false := by
  constructor
  · rintro ⟨e, he, h⟩
    exact ⟨e, (findEnt_some he).1, (findEnt_some he).2, h⟩
  · rintro ⟨e, he, ha, h⟩
    exact ⟨e, ha ▸ entsOk_find e he hok, h⟩

theorem gl_user_cin {s : St} {a z : Nat} (h : User s a z) : a ∈ cinSet s.h.ents := by
  obtain ⟨e, he, hc, _⟩ := h
  exact mem_cinSet.2 ⟨e, (findEnt_some he).1, hc, (findEnt_some he).2⟩

theorem gl_user_size {s : St} {a z z' : Nat} (h : User s a z) (h' : User s a z') : z = z' := by
  obtain ⟨e, he, _, hz, _⟩ := h
  obtain ⟨e', he', _, hz', _⟩ := h'
  rw [he] at he'
  injection he' with he'
  subst he'
  omega

/-- whether the header at `a` is a record depends on `a` only -/
theorem gl_user_not_record {s : St} {a z : Nat} (h : User s a z) : ∀ e : Ent, e.addr = a → isRecord s.segs e = false := by
  obtain ⟨e0, he0, _, _, _, hr⟩ := h
  intro e hea
  rw [gl_isRecord_addr (e := e0) (by rw [hea, (findEnt_some he0).2])]
  exact hr

/-- the user chunk at `a` is described by the header found there -/
theorem gl_user_at {s : St} {a : Nat} {e : Ent} (he : findEnt s.h.ents a = some e) (hc : e.cin = true)
    (h8 : e.size ≠ 8) (hr : isRecord s.segs e = false) {z : Nat} : User s a z ↔ z = e.size := by
  constructor
  · rintro ⟨e', he', _, hz, _⟩
    rw [he] at he'
    injection he' with he'
    subst he'
    exact hz.symm
  · intro hz
    exact ⟨e, he, hc, hz.symm, by omega, hr⟩

/-- **frame**, pointwise in the address: if the in-use header at `a` (if any) is preserved with its size
and `a` is not a new in-use address, then "user chunk at `a`" means the same before and after -/
theorem gl_user_frame {s : St} {H : Heap} (hok : entsOk s.h.ents = true) {a : Nat}
    (h1 : a ∈ cinSet H.ents → a ∈ cinSet s.h.ents)
    (h2 : ∀ e ∈ s.h.ents, e.addr = a → e.cin = true →
      ∃ e', findEnt H.ents a = some e' ∧ e'.size = e.size ∧ e'.cin = true) {z : Nat} :
    User { s with h := H } a z ↔ User s a z := by
  constructor
  · intro hu
    have hca := h1 (gl_user_cin hu)
    obtain ⟨e2, he2, hc2, hz2, h8, hr2⟩ := hu
    obtain ⟨e, he, hc, hea⟩ := mem_cinSet.1 hca
    obtain ⟨e', he', hs', _⟩ := h2 e he hea hc
    change findEnt H.ents a = some e2 at he2
    rw [he2] at he'
    injection he' with he'
    subst he'
    refine ⟨e, hea ▸ entsOk_find e he hok, hc, by omega, h8, ?_⟩
    rw [gl_isRecord_addr (e := e2) (by rw [hea, (findEnt_some he2).2])]
    exact hr2
  · rintro ⟨e, he, hc, hz, h8, hr⟩
    obtain ⟨hm, hea⟩ := findEnt_some he
    obtain ⟨e', he', hs', hc'⟩ := h2 e hm hea hc
    refine ⟨e', he', hc', by omega, h8, ?_⟩
    rw [gl_isRecord_addr (e := e) (by rw [hea, (findEnt_some he').2])]
    exact hr

/-! ### the three bridges -/

/-- `AllocFacts` ⟹ `Alloc` -/
theorem gl_alloc_of_allocFacts {s : St} (w : WFS s) (hr : RecsOk s) {H : Heap}
    {nb mem : Nat} (hf : AllocFacts s.h.ents H.ents nb mem) (hnb : 8 < nb) :
    Alloc s { s with h := H } nb mem := by
  obtain ⟨p, hmem, ⟨x, hxm, hxa, hxf, _, e', he', hc', hs1, _⟩, hcin, hkept⟩ := hf
  subst hmem
  have hfx : findEnt s.h.ents p = some x := hxa ▸ entsOk_find x hxm w.ents
  obtain ⟨hxc, _⟩ := isFree_iff.1 hxf
  obtain ⟨hx16, _, _⟩ := shapeOk_free w.shape hxm hxc
  unfold Alloc
  rw [show p + 16 - 16 = p by omega]
  have hnorec : isRecord s.segs e' = false := by
    cases hrec : isRecord s.segs e' with
    | false => rfl
    | true =>
      exfalso
      obtain ⟨g, hg, hga⟩ := gl_isRecord_iff.1 hrec
      obtain ⟨_, e, he, hce⟩ := hr g hg (by omega)
      rw [hga, (findEnt_some he').2, show p + 16 - 16 = p by omega, hfx] at he
      injection he with he
      subst he
      rw [hxc] at hce; cases hce
  refine ⟨by omega, by omega, ?_, e'.size, hs1, ?_⟩
  · rintro z ⟨e, he, hc, _⟩
    rw [hfx] at he
    injection he with he
    subst he
    rw [hxc] at hc; cases hc
  · intro a z
    by_cases hap : a = p
    · subst hap
      have h1 : User { s with h := H } a z ↔ z = e'.size :=
        gl_user_at (s := { s with h := H }) he' hc' (by omega) hnorec
      rw [h1]
      constructor
      · intro h; exact Or.inr ⟨rfl, h⟩
      · rintro (⟨e, he, hc, _⟩ | ⟨_, h⟩)
        · rw [hfx] at he
          injection he with he
          subst he
          rw [hxc] at hc; cases hc
        · exact h
    · have h1 : User { s with h := H } a z ↔ User s a z := by
        refine gl_user_frame w.ents ?_ ?_
        · intro h
          rcases (hcin a).1 h with h | h
          · exact absurd h hap
          · exact h
        · intro e he hea hc
          obtain ⟨e2, he2, hs2, hc2⟩ := hkept e he hc
          exact ⟨e2, hea ▸ he2, hs2, hc2⟩
      rw [h1]
      constructor
      · intro h; exact Or.inl h
      · rintro (h | ⟨h, _⟩)
        · exact h
        · exact absurd h hap

/-- `FreeAtTab` ⟹ `Freed` -/
theorem gl_freed_of_freeAtTab {s : St} {H : Heap} (hok : entsOk s.h.ents = true)
    {p : Nat} (hf : FreeAtTab s.h.ents H.ents p) : Freed s { s with h := H } (p + 16) := by
  intro a z
  rw [show p + 16 - 16 = p by omega]
  by_cases hap : a = p
  · subst hap
    constructor
    · intro hu
      exact absurd rfl ((hf.cin a (gl_user_cin hu)).2)
    · rintro ⟨_, h⟩; exact absurd rfl h
  · have h1 : User { s with h := H } a z ↔ User s a z := by
      refine gl_user_frame hok (fun h => (hf.cin a h).1) ?_
      intro e he hea hc
      obtain ⟨e2, he2, hs2, hc2⟩ := hf.kept e he hc (by omega)
      exact ⟨e2, hea ▸ he2, hs2, hc2⟩
    rw [h1]
    exact ⟨fun h => ⟨h, hap⟩, fun h => h.1⟩

/-- `ResizeAtTab` ⟹ `Resized`; `hrec` e.g. from `gl_user_not_record` -/
theorem gl_resized_of_resizeAtTab {s : St} {H : Heap} (hok : entsOk s.h.ents = true)
    {p sz nb : Nat} (hf : ResizeAtTab s.h.ents H.ents p sz) (hnb : nb ≤ sz) (h8 : sz ≠ 8)
    (hrec : ∀ e : Ent, e.addr = p → isRecord s.segs e = false) : Resized s { s with h := H } p nb := by
  obtain ⟨e', he', hc', hs'⟩ := hf.here
  refine ⟨sz, hnb, ?_⟩
  intro a z
  by_cases hap : a = p
  · subst hap
    have h1 : User { s with h := H } a z ↔ z = e'.size :=
      gl_user_at (s := { s with h := H }) he' hc' (by omega) (hrec e' (findEnt_some he').2)
    rw [h1, hs']
    constructor
    · intro h; exact Or.inr ⟨rfl, h⟩
    · rintro (⟨h, _⟩ | ⟨_, h⟩)
      · exact absurd rfl h
      · exact h
  · have h1 : User { s with h := H } a z ↔ User s a z := by
      refine gl_user_frame hok ?_ ?_
      · intro h
        rcases hf.cin a h with h | h
        · exact absurd h hap
        · exact h
      · intro e he hea hc
        obtain ⟨e2, he2, hs2, hc2⟩ := hf.kept e he hc (by omega)
        exact ⟨e2, hea ▸ he2, hs2, hc2⟩
    rw [h1]
    constructor
    · intro h; exact Or.inl ⟨hap, h⟩
    · rintro (⟨_, h⟩ | ⟨h, _⟩)
      · exact h
      · exact absurd h hap

/-! ### `NonUserKept` / `FencesOld` from the three table-level deltas -/

theorem gl_fence_cin {es : List Ent} (h : shapeOk es = true) {y : Ent} (hy : y ∈ es) (h8 : y.size = 8) :
    y.cin = true ∧ y.pin = true := by
  rcases shapeOk_mem h hy with h1 | h1
  · exact h1.2
  · omega

theorem gl_nonUserKept_of_inusePreserved {s : St} {es' : List Ent} (hk : InusePreserved s.h.ents es') :
    NonUserKept s es' := fun x hx hc _ => hk x hx hc

/-- all in-use headers but the (user) one at `p` are preserved -/
theorem gl_nonUserKept_except {s : St} {es' : List Ent} {p : Nat}
    (hp : ∀ e ∈ s.h.ents, e.addr = p → e.size ≠ 8 ∧ isRecord s.segs e = false)
    (hk : ∀ e ∈ s.h.ents, e.cin = true → e.addr ≠ p →
      ∃ e', findEnt es' e.addr = some e' ∧ e'.size = e.size ∧ e'.cin = true) : NonUserKept s es' := by
  intro x hx hc hnu
  refine hk x hx hc ?_
  intro hxa
  obtain ⟨h1, h2⟩ := hp x hx hxa
  rcases hnu with h | h
  · exact h1 h
  · rw [h2] at h; cases h

/-- what `User s p z` says about the header at `p`, in the form `gl_nonUserKept_except` wants -/
theorem gl_user_except {s : St} (hok : entsOk s.h.ents = true) {p z : Nat} (hu : User s p z) :
    ∀ e ∈ s.h.ents, e.addr = p → e.size ≠ 8 ∧ isRecord s.segs e = false := by
  intro e he hea
  refine ⟨?_, gl_user_not_record hu e hea⟩
  obtain ⟨e0, he0, _, hz, h8, _⟩ := hu
  have := entsOk_find e he hok
  rw [hea, he0] at this
  injection this with this
  subst this
  omega

/-! ## 3. `SInv` from table-level facts about the in-use headers only

`FenceOk` of the new state needs no information about the free headers of the new table: a header that
ends at a fencepost is in use (boundary tags), except across a segment boundary, where only the foot
word after `top` can end a segment without being a fencepost. -/

/-- **predecessor header**: a header that is not the first of its segment is preceded by the header
ending exactly where it starts, in the same segment, and the boundary-tag link between the two holds -/
theorem gl_prev_entry {es : List Ent} {segs : List Seg} {top : Nat} (h : StructOk es segs top)
    {y : Ent} (hy : y ∈ es) {g : Seg} (hg : g ∈ segs) (hgy : inSeg g y = true) (hnb : y.addr ≠ g.base) :
    ∃ x ∈ es, inSeg g x = true ∧ y.addr = x.addr + x.size ∧ linkOk top x y = true := by
  have hys : y ∈ segEnts es g := mem_segEnts.2 ⟨hy, hgy⟩
  obtain ⟨l1, r, hsp⟩ := List.append_of_mem hys
  have ht := h.tiles_of hg
  have htg := h.tags_of hg
  rw [hsp] at ht htg
  rcases List.eq_nil_or_concat l1 with h0 | ⟨L, x, h0⟩
  · subst h0
    exact absurd (tiles_head_addr ht) hnb
  · subst h0
    have hxs : x ∈ segEnts es g := by rw [hsp]; simp
    obtain ⟨hxm, hgx⟩ := mem_segEnts.1 hxs
    have e1 : L.concat x ++ y :: r = L ++ x :: y :: r := by simp
    rw [e1] at ht htg
    obtain ⟨a', ht'⟩ := tiles_drop_prefix L ht
    simp only [tiles, Bool.and_eq_true, decide_eq_true_eq] at ht'
    have hya := tiles_head_addr ht'.2
    have hl := ((tagsOk_split top true L x (y :: r)).1 htg).2
    simp only [tagsFrom, Bool.and_eq_true] at hl
    exact ⟨x, hxm, hgx, by omega, hl.1⟩

theorem gl_link_ff {top : Nat} {a c : Ent} (h : linkOk top a c = true) (hc : c.cin = false) (hp : c.pin = false) :
    (a.cin = false ∧ a.pin = false) ∨ (isFree a = true ∧ a.addr = top) := by
  unfold linkOk at h
  simp only [Bool.and_eq_true, beq_iff_eq] at h
  obtain ⟨h1, h2⟩ := h
  have hac : a.cin = false := by rw [← h1, hp]
  cases hap : a.pin with
  | false => exact Or.inl ⟨hac, rfl⟩
  | true =>
    have hf : isFree a = true := by simp [isFree, hac, hap]
    rw [hf] at h2
    simp only [if_true] at h2
    by_cases ht : a.addr = top
    · exact Or.inr ⟨hf, ht⟩
    · rw [if_neg ht, hc] at h2
      simp at h2

theorem gl_tagsFrom_ff {top : Nat} {r : List Ent} : ∀ {a : Ent}, tagsFrom top a r = true →
    ∀ x ∈ r, x.cin = false → x.pin = false →
      (a.cin = false ∧ a.pin = false) ∨ ∃ t ∈ a :: r, isFree t = true ∧ t.addr = top := by
  induction r with
  | nil => intro a _ x hx; cases hx
  | cons c r' ih =>
    intro a h x hx hxc hxp
    simp only [tagsFrom, Bool.and_eq_true] at h
    have key : c.cin = false → c.pin = false →
        (a.cin = false ∧ a.pin = false) ∨ ∃ t ∈ a :: c :: r', isFree t = true ∧ t.addr = top := by
      intro h1 h2
      rcases gl_link_ff h.1 h1 h2 with h3 | h3
      · exact Or.inl h3
      · exact Or.inr ⟨a, List.mem_cons_self, h3⟩
    rcases List.mem_cons.1 hx with hx | hx
    · subst hx; exact key hxc hxp
    · rcases ih h.2 x hx hxc hxp with h3 | ⟨t, ht, h3⟩
      · exact key h3.1 h3.2
      · exact Or.inr ⟨t, List.mem_cons_of_mem _ ht, h3⟩

/-- a header with both flag bits clear lives in the segment that holds `top` -/
theorem gl_tagsOk_ff {top : Nat} {l : List Ent} (h : tagsOk top true l = true) {x : Ent} (hx : x ∈ l)
    (hxc : x.cin = false) (hxp : x.pin = false) : ∃ t ∈ l, isFree t = true ∧ t.addr = top := by
  cases l with
  | nil => cases hx
  | cons a r =>
    obtain ⟨h1, h2⟩ := (tagsOk_cons_iff top true a r).1 h
    rcases List.mem_cons.1 hx with hx | hx
    · subst hx; rw [hxp] at h1; cases h1
    · rcases gl_tagsFrom_ff h2 x hx hxc hxp with h3 | h3
      · rw [h3.2] at h1; cases h1
      · exact h3

/-- two segments of a disjoint list that share an address are the same segment -/
theorem gl_seg_unique {segs : List Seg} (hd : segsDisjoint segs = true) {g g' : Seg} (hg : g ∈ segs) (hg' : g' ∈ segs)
    {e e' : Ent} (h1 : inSeg g e = true) (h2 : inSeg g' e' = true) (ha : e'.addr = e.addr) : g = g' := by
  rcases segsDisjoint_pair hd g hg g' hg' with h | h | h
  · exact h
  · have := inSeg_iff.1 h1; have := inSeg_iff.1 h2; omega
  · have := inSeg_iff.1 h1; have := inSeg_iff.1 h2; omega

theorem gl_ff_head_seg {s : St} (w : WFS s) {x : Ent} (hx : x ∈ s.h.ents) (hxc : x.cin = false) (hxp : x.pin = false) :
    ∃ g rest, s.segs = g :: rest ∧ inSeg g x = true := by
  obtain ⟨g1, hg1, hgx⟩ := w.struct.seg_of hx
  obtain ⟨t, ht, htf, hta⟩ := gl_tagsOk_ff (w.struct.tags_of hg1) (mem_segEnts.2 ⟨hx, hgx⟩) hxc hxp
  obtain ⟨g, rest, _, xt, _, _, hsegs, _, hxta, _, _, _, _, _, _, _, _, _, hgxt, _⟩ := w.top_parts (w.topsize_ne hg1)
  have hg : g ∈ s.segs := by rw [hsegs]; exact List.mem_cons_self
  have : g = g1 := gl_seg_unique w.segsDisjoint hg hg1 hgxt (mem_segEnts.1 ht).2 (by rw [hta, hxta])
  subst this
  exact ⟨g, rest, hsegs, hgx⟩

/-- **`FenceOk` from facts about in-use headers only** -/
theorem gl_fenceOk_of_kept {s : St} (hi : SInv s) {H : Heap} (w' : WFS { s with h := H })
    (hk : NonUserKept s H.ents) (hfo : FencesOld s.h.ents H.ents) : FenceOk { s with h := H } := by
  have w := hi.wfs
  have hft := (gl_fenceOk_iff_tab w.ents).1 hi.fence
  have hok' : entsOk H.ents = true := w'.ents
  refine gl_fenceOk_of_old hi.fence w.ents hok' hfo ?_
  intro x' hx' y' hy' hy8 ha
  obtain ⟨y, hy, hya, hys⟩ := hfo y' hy' hy8
  obtain ⟨hyc, hyp⟩ := gl_fence_cin w.shape hy hys
  obtain ⟨g2, hg2, hgy⟩ := w.struct.seg_of hy
  have hx'pos : 0 < x'.size := entsOk_pos hok' x' hx'
  by_cases hb : y.addr = g2.base
  · -- the fencepost is the first header of its segment: `x'` is the last header of another segment
    obtain ⟨g1, hg1, hgx'⟩ := w'.struct.seg_of hx'
    have hg1' : g1 ∈ s.segs := hg1
    have i1 := inSeg_iff.1 hgx'
    have i2 := inSeg_iff.1 hgy
    have hdis : g1.base + g1.size ≤ g2.base := by
      rcases segsDisjoint_pair w.segsDisjoint g1 hg1' g2 hg2 with h | h | h
      · subst h; omega
      · exact h
      · omega
    cases hte : isTrailerEnd x' with
    | false =>
      exfalso
      obtain ⟨pre, post, hsp⟩ := List.append_of_mem hx'
      obtain ⟨y2, _, _, hy2a, hgy2, _⟩ := next_entry w'.struct hsp hg1 hgx' hte
      have := inSeg_iff.1 hgy2
      omega
    | true =>
      simp only [isTrailerEnd, Bool.or_eq_true, Bool.and_eq_true, Bool.not_eq_true', decide_eq_true_eq] at hte
      rcases hte with ⟨hxc, hxp⟩ | h8
      · exfalso
        obtain ⟨g, rest, hsegs, hgx2⟩ := gl_ff_head_seg w' hx' hxc hxp
        have hsegs' : s.segs = g :: rest := hsegs
        have hg : g ∈ s.segs := by rw [hsegs']; exact List.mem_cons_self
        have : g = g1 := gl_seg_unique w.segsDisjoint hg hg1' hgx2 hgx' rfl
        subst this
        have hend := (w'.struct.in_seg hg1 hx' hgx').2
        obtain ⟨g', rest', pre, xt, f, post, hsegs2, hes, _, _, _, hfa, hfc, _, hfs, _, htop, _, _, _⟩ :=
          w.top_parts (w.topsize_ne hg)
        rw [hsegs'] at hsegs2
        injection hsegs2 with hgg _
        subst hgg
        have hfm : f ∈ s.h.ents := by rw [hes]; simp
        rcases hft f hfm y hy hys (by omega) with h | h
        · omega
        · obtain ⟨g3, hg3, hga⟩ := gl_isRecord_iff.1 h
          obtain ⟨_, e, he, hce⟩ := hi.recs g3 hg3 (by omega)
          rw [hga, show f.addr + 16 - 16 = f.addr by omega, entsOk_find f hfm w.ents] at he
          injection he with he
          subst he
          rw [hfc] at hce; cases hce
      · exact Or.inl h8
  · -- the fencepost has a predecessor in its segment, already in the old table; it is in use …
    obtain ⟨x, hx, _, hxa, hl⟩ := gl_prev_entry w.struct hy hg2 hgy hb
    have hxc : x.cin = true := by
      unfold linkOk at hl
      simp only [Bool.and_eq_true, beq_iff_eq] at hl
      rw [← hl.1, hyp]
    -- … no user chunk, hence kept
    obtain ⟨x2, hx2, hx2s, _⟩ := hk x hx hxc (hft x hx y hy hys hxa)
    obtain ⟨hx2m, hx2a⟩ := findEnt_some hx2
    have hx2pos : 0 < x2.size := entsOk_pos hok' x2 hx2m
    have hsep := entsOk_sep hok'
    refine Or.inr (Or.inr ⟨x, hx, ?_, ?_⟩)
    · rcases Nat.lt_trichotomy x2.addr x'.addr with h | h | h
      · have := hsep x2 hx2m x' hx' h; omega
      · omega
      · have := hsep x' hx' x2 hx2m h; omega
    · rcases Nat.lt_trichotomy x2.addr x'.addr with h | h | h
      · have := hsep x2 hx2m x' hx' h; omega
      · omega
      · have := hsep x' hx' x2 hx2m h; omega

/-- the headers of a tiled segment cover every address up to 8 bytes before its end -/
theorem gl_tiles_cover {l : List Ent} : ∀ {a e : Nat}, tiles l a e = true → ∀ c, a ≤ c → c + 8 < e →
    ∃ x ∈ l, x.addr ≤ c ∧ c < x.addr + x.size := by
  induction l with
  | nil => intro a e h; simp [tiles] at h
  | cons x r ih =>
    intro a e h c hac hce
    cases r with
    | nil =>
      simp only [tiles, Bool.and_eq_true, Bool.or_eq_true, decide_eq_true_eq] at h
      exact ⟨x, List.mem_cons_self, by omega, by omega⟩
    | cons y r' =>
      simp only [tiles, Bool.and_eq_true, decide_eq_true_eq] at h
      by_cases hc : c < a + x.size
      · exact ⟨x, List.mem_cons_self, by omega, by omega⟩
      · obtain ⟨z, hz, h1, h2⟩ := ih h.2 c (by omega) hce
        exact ⟨z, List.mem_cons_of_mem _ hz, h1, h2⟩

/-- the head segment (the one holding `top`) has no record -/
theorem gl_head_recAt {s : St} (w : WFS s) {g : Seg} {rest : List Seg} (hsegs : s.segs = g :: rest) : g.recAt = 0 := by
  have ht := w.top
  unfold topOk at ht
  simp only [hsegs] at ht
  simp only [Bool.and_eq_true, decide_eq_true_eq] at ht
  exact ht.1.1.2

/-- **`TailOk` from facts about in-use headers only**: a header of the new table reaching into the last
80 bytes of a non-head segment overlaps an old fencepost / record there, which was kept — so it IS that
header — or it is the last header of the segment, i.e. the foot word of the head segment. -/
theorem gl_tailOk_of_kept {s : St} (hi : SInv s) {H : Heap} (w' : WFS { s with h := H })
    (hk : NonUserKept s H.ents) : TailOk { s with h := H } := by
  have w := hi.wfs
  have hok' : entsOk H.ents = true := w'.ents
  intro g hg hne e' he' hge'
  have hg0 : g ∈ s.segs := hg
  by_cases h8 : e'.size = 8
  · exact Or.inl h8
  cases hrec : isRecord s.segs e' with
  | true => exact Or.inr (Or.inl rfl)
  | false =>
  refine Or.inr (Or.inr ?_)
  refine Decidable.byContradiction fun hnot => ?_
  have hpos : 0 < e'.size := entsOk_pos hok' e' he'
  have i1 := inSeg_iff.1 hge'
  have hend := (w'.struct.in_seg hg he' hge').2
  by_cases hc : e'.addr + e'.size - 1 + 8 < g.base + g.size
  · -- covered by an old header, which is a fencepost or a record
    obtain ⟨x, hxs, hx1, hx2⟩ := gl_tiles_cover (w.struct.tiles_of hg0) (e'.addr + e'.size - 1) (by omega) hc
    obtain ⟨hx, hgx⟩ := mem_segEnts.1 hxs
    have hnu : x.size = 8 ∨ isRecord s.segs x = true := by
      rcases hi.tail g hg0 hne x hx hgx with h | h | h
      · exact Or.inl h
      · exact Or.inr h
      · omega
    have hxc : x.cin = true := by
      rcases hnu with h | h
      · exact (gl_fence_cin w.shape hx h).1
      · exact gl_record_cin hi.recs w.ents hx h
    obtain ⟨x2, hx2f, hx2s, _⟩ := hk x hx hxc hnu
    obtain ⟨hx2m, hx2a⟩ := findEnt_some hx2f
    have hsep := entsOk_sep hok'
    have haddr : x2.addr = e'.addr := by
      rcases Nat.lt_trichotomy x2.addr e'.addr with h | h | h
      · have := hsep x2 hx2m e' he' h; omega
      · exact h
      · have := hsep e' he' x2 hx2m h; omega
    have := entsOk_addr_inj hok' hx2m he' haddr
    subst this
    rcases hnu with h | h
    · omega
    · rw [gl_isRecord_addr (e := x) hx2a, h] at hrec; cases hrec
  · -- `e'` ends in the last 8 bytes of the segment: it is its last header
    cases hte : isTrailerEnd e' with
    | false =>
      obtain ⟨pre, post, hsp⟩ := List.append_of_mem he'
      obtain ⟨y2, post', hpost, hy2a, hgy2, _⟩ := next_entry w'.struct hsp hg hge' hte
      have hy2m : y2 ∈ H.ents := by rw [hsp, hpost]; simp
      have := shapeOk_size w'.shape hy2m
      have := (w'.struct.in_seg hg hy2m hgy2).2
      omega
    | true =>
      simp only [isTrailerEnd, Bool.or_eq_true, Bool.and_eq_true, Bool.not_eq_true', decide_eq_true_eq] at hte
      rcases hte with ⟨hxc, hxp⟩ | h
      · obtain ⟨g1, rest, hsegs, hg1⟩ := gl_ff_head_seg w' he' hxc hxp
        have hsegs' : s.segs = g1 :: rest := hsegs
        have hg1m : g1 ∈ s.segs := by rw [hsegs']; exact List.mem_cons_self
        have : g1 = g := gl_seg_unique w.segsDisjoint hg1m hg0 hg1 hge' rfl
        subst this
        exact hne (gl_head_recAt w hsegs')
      · exact h8 h

theorem gl_recsOk_of_nonUserKept {s : St} {H : Heap} (hr : RecsOk s) (hk : NonUserKept s H.ents) :
    RecsOk { s with h := H } := by
  refine gl_recsOk_of_kept hr ?_
  intro e he hc hrec
  obtain ⟨e', he', _, hc'⟩ := hk e he hc (Or.inr hrec)
  exact ⟨e', he', hc'⟩

/-- **the general preservation theorem** for steps that keep the segment list: `WFS` of the new state
(from the branch theorem), the fenceposts / record chunks are kept, no new fencepost -/
theorem gl_sinv_of_kept {s : St} (hi : SInv s) {H : Heap} (w' : WFS { s with h := H })
    (hk : NonUserKept s H.ents) (hfo : FencesOld s.h.ents H.ents) : SInv { s with h := H } :=
  ⟨w', gl_recsOk_of_nonUserKept hi.recs hk, gl_fenceOk_of_kept hi w' hk hfo, gl_tailOk_of_kept hi w' hk,
    fun g hg e he hb h8 => by
      obtain ⟨y, hy, hya, hy8⟩ := hfo e he h8
      exact hi.head g hg y hy (by omega) hy8,
    hi.recin⟩

/-! ### `FencesOld` from the three deltas -/

theorem gl_fencesOld_of_cin {es es' : List Ent} (hok' : entsOk es' = true) (hsh' : shapeOk es' = true)
    (h : ∀ y' ∈ es', y'.cin = true → y'.size = 8 →
      ∃ e ∈ es, e.addr = y'.addr ∧ ∃ e', findEnt es' e.addr = some e' ∧ e'.size = e.size) : FencesOld es es' := by
  intro y' hy' h8
  obtain ⟨e, he, hea, e', he', hs'⟩ := h y' hy' (gl_fence_cin hsh' hy' h8).1 h8
  have := entsOk_find y' hy' hok'
  rw [← hea, he'] at this
  injection this with this
  subst this
  exact ⟨e, he, hea, by omega⟩

theorem gl_fencesOld_alloc {es es' : List Ent} {nb p : Nat} (ha : AllocAt es es' nb p) (hnb : 8 < nb)
    (hok' : entsOk es' = true) (hsh' : shapeOk es' = true) : FencesOld es es' := by
  refine gl_fencesOld_of_cin hok' hsh' ?_
  intro y' hy' hc h8
  obtain ⟨_, _, _, _, _, e', he', _, hs1, _⟩ := ha.victim
  rcases (ha.cin y'.addr).1 (mem_cinSet.2 ⟨y', hy', hc, rfl⟩) with h | h
  · exfalso
    have := entsOk_find y' hy' hok'
    rw [h, he'] at this
    injection this with this
    subst this
    omega
  · obtain ⟨e, he, hce, hea⟩ := mem_cinSet.1 h
    obtain ⟨e2, he2, hs2, _⟩ := ha.kept e he hce
    exact ⟨e, he, hea, e2, he2, hs2⟩

theorem gl_fencesOld_free {es es' : List Ent} {p : Nat} (hf : FreeAtTab es es' p)
    (hok' : entsOk es' = true) (hsh' : shapeOk es' = true) : FencesOld es es' := by
  refine gl_fencesOld_of_cin hok' hsh' ?_
  intro y' hy' hc h8
  obtain ⟨h1, h2⟩ := hf.cin y'.addr (mem_cinSet.2 ⟨y', hy', hc, rfl⟩)
  obtain ⟨e, he, hce, hea⟩ := mem_cinSet.1 h1
  obtain ⟨e2, he2, hs2, _⟩ := hf.kept e he hce (by omega)
  exact ⟨e, he, hea, e2, he2, hs2⟩

theorem gl_fencesOld_resize {es es' : List Ent} {p sz : Nat} (hf : ResizeAtTab es es' p sz) (hsz : sz ≠ 8)
    (hok' : entsOk es' = true) (hsh' : shapeOk es' = true) : FencesOld es es' := by
  refine gl_fencesOld_of_cin hok' hsh' ?_
  intro y' hy' hc h8
  obtain ⟨e', he', _, hs'⟩ := hf.here
  by_cases hyp : y'.addr = p
  · exfalso
    have := entsOk_find y' hy' hok'
    rw [hyp, he'] at this
    injection this with this
    subst this
    omega
  · rcases hf.cin y'.addr (mem_cinSet.2 ⟨y', hy', hc, rfl⟩) with h | h
    · exact absurd h hyp
    · obtain ⟨e, he, hce, hea⟩ := mem_cinSet.1 h
      obtain ⟨e2, he2, hs2, _⟩ := hf.kept e he hce (by omega)
      exact ⟨e, he, hea, e2, he2, hs2⟩

/-! ### the three packaged lifts: `WFS` + table delta ⟹ `SInv` + `User` delta -/

theorem gl_sinv_alloc {s : St} (hi : SInv s) {H : Heap} (w' : WFS { s with h := H }) {nb mem : Nat}
    (hf : AllocFacts s.h.ents H.ents nb mem) (hnb : 8 < nb) :
    SInv { s with h := H } ∧ Alloc s { s with h := H } nb mem := by
  refine ⟨?_, gl_alloc_of_allocFacts hi.wfs hi.recs hf hnb⟩
  obtain ⟨p, _, ha⟩ := hf
  exact gl_sinv_of_kept hi w' (gl_nonUserKept_of_inusePreserved ha.kept) (gl_fencesOld_alloc ha hnb w'.ents w'.shape)

theorem gl_sinv_freeAtTab {s : St} (hi : SInv s) {H : Heap} (w' : WFS { s with h := H }) {p z : Nat}
    (hu : User s p z) (hf : FreeAtTab s.h.ents H.ents p) :
    SInv { s with h := H } ∧ Freed s { s with h := H } (p + 16) :=
  ⟨gl_sinv_of_kept hi w' (gl_nonUserKept_except (gl_user_except hi.wfs.ents hu) hf.kept)
      (gl_fencesOld_free hf w'.ents w'.shape),
    gl_freed_of_freeAtTab hi.wfs.ents hf⟩

theorem gl_sinv_resizeAtTab {s : St} (hi : SInv s) {H : Heap} (w' : WFS { s with h := H }) {p z sz nb : Nat}
    (hu : User s p z) (hf : ResizeAtTab s.h.ents H.ents p sz) (hnb : nb ≤ sz) (hsz : sz ≠ 8) :
    SInv { s with h := H } ∧ Resized s { s with h := H } p nb :=
  ⟨gl_sinv_of_kept hi w' (gl_nonUserKept_except (gl_user_except hi.wfs.ents hu) hf.kept)
      (gl_fencesOld_resize hf hsz w'.ents w'.shape),
    gl_resized_of_resizeAtTab hi.wfs.ents hf hnb hsz (gl_user_not_record hu)⟩

/-! ## 3b. the lifted pilot -/

theorem gl_alloc_mono {s s' : St} {nb nb' mem : Nat} (h : Alloc s s' nb' mem) (hle : nb ≤ nb') : Alloc s s' nb mem := by
  obtain ⟨h1, h2, h3, sz, h4, h5⟩ := h
  exact ⟨h1, h2, h3, sz, by omega, h5⟩

/-- `malloc_dv_top` (branches `dv-split`, `dv-exhaust`, `top-split`) at the `SInv` / `User` level -/
theorem gl_malloc_dv_top_sinv {s : St} (hi : SInv s) {nb : Nat} (hnb16 : nb % 16 = 0) (hnb32 : 32 ≤ nb)
    {h' : Heap} {mem : Nat} (hh : malloc_dv_top s.h nb = .ok (.done h' mem)) :
    SInv { s with h := h' } ∧ Alloc s { s with h := h' } nb mem := by
  obtain ⟨w', hf⟩ := malloc_dv_top_wfs hi.wfs hnb16 hnb32 hh
  exact gl_sinv_alloc hi w' hf (by omega)

theorem gl_malloc_dv_top_sinv' {s : St} (hi : SInv s) {nb : Nat} (hnb : NbOk nb)
    {h' : Heap} {mem : Nat} (hh : malloc_dv_top s.h nb = .ok (.done h' mem)) :
    SInv { s with h := h' } ∧ Alloc s { s with h := h' } nb mem :=
  gl_malloc_dv_top_sinv hi hnb.1 hnb.2.1 hh

/-- the `small-bin` branch of `malloc_nosys` at the `SInv` / `User` level (re-derived from `small_bin_wfs`
because `malloc_nosys_small_bin_wfs` hides the bin index) -/
theorem gl_malloc_nosys_small_bin_sinv {s : St} (hi : SInv s) {size : Nat} (hs : size ≤ MAX_SMALL_REQUEST)
    (hbits : (smallmap s.h >>> small_index (request2size size)) &&& 3 ≠ 0) {h' : Heap} {mem : Nat}
    (hh : malloc_nosys s.h size = .ok (.done h' mem)) :
    SInv { s with h := h' } ∧ Alloc s { s with h := h' } (nbOf size) mem := by
  have hs' := hs
  rw [MAX_SMALL_REQUEST_eq] at hs'
  have hnb32 := request2size_ge_min size (by omega)
  have hnb16 := request2size_aligned size (by omega)
  have hnb240 : request2size size ≤ 240 := by
    rw [request2size_eq size (by omega)]; split <;> omega
  unfold malloc_nosys at hh
  dsimp only at hh
  rw [if_pos hs, if_pos hbits] at hh
  msimp at hh
  obtain ⟨⟨h1, p⟩, e1, h2, e2, hh⟩ := hh
  injection hh with hh1 hh2
  subst hh1; subst hh2
  obtain ⟨w', r2⟩ := small_bin_wfs hi.wfs e1 e2 "small-bin"
  have hb1 : (U32 - 1 - smallmap s.h >>> small_index (request2size size)) &&& 1 ≤ 1 := Nat.and_le_right
  have hidx : small_index (request2size size) = request2size size / 8 := small_index_eq _ (by omega)
  have hge : request2size size ≤
      small_index2size (small_index (request2size size) +
        ((U32 - 1 - smallmap s.h >>> small_index (request2size size)) &&& 1)) := by
    rw [small_index2size_eq _ (by omega), hidx]
    omega
  have hnbof : nbOf size = request2size size := by unfold nbOf; rw [if_pos hs]
  rw [hnbof]
  have hf : AllocFacts s.h.ents (h2.tag "small-bin").ents _ (p + MEM_OFFSET) := ⟨p, by rw [MEM_OFFSET_eq], r2⟩
  obtain ⟨r3, r4⟩ := gl_sinv_alloc hi w' hf (by omega)
  exact ⟨r3, gl_alloc_mono r4 hge⟩

/-! ## 4. `liveOk` says: the live blocks are the user chunks -/

theorem gl_liveChunk_iff {s : St} {b : Block} :
    (liveChunkOk s.h.ents b &&
        !(isRecord s.segs { addr := b.ptr - 16, size := 0, cin := true, pin := true, pfoot := 0 })) = true ↔
      16 ≤ b.ptr ∧ 0 < b.align ∧ b.ptr % b.align = 0 ∧
        ∃ z, User s (b.ptr - 16) z ∧ b.size + 8 ≤ z ∧ 32 ≤ z := by
  unfold liveChunkOk
  simp only [Bool.and_eq_true, decide_eq_true_eq, Bool.not_eq_true']
  constructor
  · rintro ⟨⟨⟨⟨h1, h2⟩, h3⟩, h4⟩, h5⟩
    split at h4
    · rename_i e he
      simp only [Bool.and_eq_true, decide_eq_true_eq] at h4
      refine ⟨h1, h2, h3, e.size, ⟨e, he, h4.1.1, rfl, by omega, ?_⟩, h4.1.2, h4.2⟩
      rw [← h5]
      exact gl_isRecord_addr (findEnt_some he).2
    · cases h4
  · rintro ⟨h1, h2, h3, z, ⟨e, he, hc, hz, h8, hr⟩, h6, h7⟩
    refine ⟨⟨⟨⟨h1, h2⟩, h3⟩, ?_⟩, ?_⟩
    · rw [he]
      simp only [Bool.and_eq_true, decide_eq_true_eq]
      exact ⟨⟨hc, by omega⟩, by omega⟩
    · rw [← hr]
      exact gl_isRecord_addr (findEnt_some he).2.symm

/-- **`liveOk` ↔ the live blocks are exactly the user chunks** -/
theorem gl_liveOk_iff_user {hs : Hist} (hok : entsOk hs.st.h.ents = true) :
    liveOk hs = true ↔
      (hs.live.map (·.ptr)).Nodup ∧
      (∀ b ∈ hs.live, 16 ≤ b.ptr ∧ 0 < b.align ∧ b.ptr % b.align = 0 ∧
        ∃ z, User hs.st (b.ptr - 16) z ∧ b.size + 8 ≤ z ∧ 32 ≤ z) ∧
      (∀ a z, User hs.st a z → ∃ b ∈ hs.live, b.ptr = a + 16) := by
  unfold liveOk
  rw [Bool.and_eq_true, Bool.and_eq_true, nodupB_iff_nodup, List.all_eq_true, List.all_eq_true, and_assoc]
  refine and_congr Iff.rfl (and_congr ?_ ?_)
  · exact forall_congr' fun b => forall_congr' fun _ => gl_liveChunk_iff
  · constructor
    · rintro h a z ⟨e, he, hc, hz, h8, hr⟩
      obtain ⟨hm, hea⟩ := findEnt_some he
      have := h e hm
      simp only [Bool.or_eq_true, Bool.not_eq_true', decide_eq_true_eq, List.any_eq_true] at this
      rcases this with ((h1 | h1) | h1) | ⟨b, hb, hbp⟩
      · rw [hc] at h1; cases h1
      · omega
      · rw [hr] at h1; cases h1
      · exact ⟨b, hb, by omega⟩
    · intro h e he
      simp only [Bool.or_eq_true, Bool.not_eq_true', decide_eq_true_eq, List.any_eq_true]
      cases hc : e.cin with
      | false => exact Or.inl (Or.inl (Or.inl rfl))
      | true =>
        by_cases h8 : e.size = 8
        · exact Or.inl (Or.inl (Or.inr h8))
        · cases hr : isRecord hs.st.segs e with
          | true => exact Or.inl (Or.inr rfl)
          | false =>
            obtain ⟨b, hb, hbp⟩ := h e.addr e.size ⟨e, entsOk_find e he hok, hc, rfl, h8, hr⟩
            exact Or.inr ⟨b, hb, hbp⟩

/-- in the form the task states it -/
theorem gl_liveOk_iff_user' {hs : Hist} (w : WFS hs.st) :
    liveOk hs = true ↔
      (hs.live.map (·.ptr)).Nodup ∧
      (∀ b ∈ hs.live, 16 ≤ b.ptr ∧ 0 < b.align ∧ b.ptr % b.align = 0 ∧
        ∃ z, User hs.st (b.ptr - 16) z ∧ b.size + 8 ≤ z ∧ 32 ≤ z) ∧
      (∀ a z, User hs.st a z → ∃ b ∈ hs.live, b.ptr = a + 16) := gl_liveOk_iff_user w.ents

/-! ## 5. executable checkers for the two extra conjuncts, and non-vacuity -/

def gl_recsOkB (s : St) : Bool :=
  s.segs.all fun g => decide (g.recAt = 0) ||
    (decide (16 ≤ g.recAt) && match findEnt s.h.ents (g.recAt - 16) with
      | some e => e.cin
      | none => false)

def gl_fenceOkB (s : St) : Bool :=
  s.h.ents.all fun x => s.h.ents.all fun y =>
    !(decide (y.size = 8) && decide (y.addr = x.addr + x.size)) || decide (x.size = 8) || isRecord s.segs x

def gl_tailOkB (s : St) : Bool :=
  s.segs.all fun g => decide (g.recAt = 0) || s.h.ents.all fun e =>
    !inSeg g e || decide (e.size = 8) || isRecord s.segs e || decide (e.addr + e.size + 80 ≤ g.base + g.size)

theorem gl_tailOk_of_check {s : St} (h : gl_tailOkB s = true) : TailOk s := by
  intro g hg hne e he hge
  unfold gl_tailOkB at h
  simp only [List.all_eq_true, Bool.or_eq_true, decide_eq_true_eq, Bool.not_eq_true'] at h
  rcases h g hg with h | h
  · exact absurd h hne
  · rcases h e he with ((h | h) | h) | h
    · rw [hge] at h; cases h
    · exact Or.inl h
    · exact Or.inr (Or.inl h)
    · exact Or.inr (Or.inr h)

theorem gl_recsOk_of_check {s : St} (h : gl_recsOkB s = true) : RecsOk s := by
  intro g hg hne
  unfold gl_recsOkB at h
  simp only [List.all_eq_true, Bool.or_eq_true, Bool.and_eq_true, decide_eq_true_eq] at h
  rcases h g hg with h | ⟨h1, h2⟩
  · exact absurd h hne
  · split at h2
    · rename_i e he; exact ⟨h1, e, he, h2⟩
    · cases h2

theorem gl_fenceOk_of_check {s : St} (h : gl_fenceOkB s = true) : FenceOk s := by
  intro pre x y post hes h8 ha
  unfold gl_fenceOkB at h
  simp only [List.all_eq_true, Bool.or_eq_true, decide_eq_true_eq, Bool.not_eq_true',
    Bool.and_eq_false_iff, decide_eq_false_iff_not] at h
  rcases h x (by rw [hes]; simp) y (by rw [hes]; simp) with (h | h) | h
  · rcases h with h | h
    · exact absurd h8 h
    · exact absurd ha h
  · exact Or.inl h
  · exact Or.inr h

def gl_headOkB (s : St) : Bool :=
  s.segs.all fun g => s.h.ents.all fun e => !(decide (e.addr = g.base)) || !(decide (e.size = 8))

theorem gl_headOk_of_check {s : St} (h : gl_headOkB s = true) : HeadOk s := by
  intro g hg e he hb h8
  unfold gl_headOkB at h
  simp only [List.all_eq_true, Bool.or_eq_true, Bool.not_eq_true', decide_eq_false_iff_not] at h
  rcases h g hg e he with h | h
  · exact h hb
  · exact h h8

def gl_recInB (s : St) : Bool :=
  s.segs.all fun g => decide (g.recAt = 0) || (decide (g.base + 16 ≤ g.recAt) && decide (g.recAt < g.base + g.size))

theorem gl_recIn_of_check {s : St} (h : gl_recInB s = true) : RecIn s := by
  intro g hg hne
  unfold gl_recInB at h
  simp only [List.all_eq_true, Bool.or_eq_true, Bool.and_eq_true, decide_eq_true_eq] at h
  rcases h g hg with h | h
  · exact absurd h hne
  · exact h

theorem gl_inv_of_check {hs : Hist} (h1 : wfb hs = true) (h2 : gl_recsOkB hs.st = true)
    (h3 : gl_fenceOkB hs.st = true) (h4 : gl_tailOkB hs.st = true) (h5 : gl_headOkB hs.st = true)
    (h6 : gl_recInB hs.st = true) : Inv hs :=
  ⟨⟨((wf_iff_wfs hs).1 h1).1, gl_recsOk_of_check h2, gl_fenceOk_of_check h3, gl_tailOk_of_check h4,
    gl_headOk_of_check h5, gl_recIn_of_check h6⟩, ((wf_iff_wfs hs).1 h1).2⟩

/-- two segments (the second `mmap` answer is not adjacent to the first segment, so `add_segment` pushed a
segment record and three fenceposts into the old segment), two live blocks, one freed chunk -/
def glOps : List (Op × List OsDir) :=
  [(.malloc 1 100 8, [.m (some 1048576)]), (.malloc 2 100000 8, [.m (some 4194304)]), (.malloc 3 100 8, []),
   (.free 1, [])]

def glState : Hist := match Hist.init.run glOps with
  | .ok (hs, _) => hs
  | .error _ => Hist.init

set_option maxRecDepth 40000 in
/-- the hypotheses of `gl_malloc_dv_top_sinv` are satisfiable on a state that HAS fenceposts and a record
chunk: `Inv glState`, two segments, three size-8 headers, and `malloc_dv_top` takes `dv-split` -/
example : Inv glState ∧ glState.st.segs.length = 2 ∧
    (glState.st.h.ents.filter fun e => e.size = 8).length = 3 ∧
    (glState.st.h.ents.filter fun e => e.cin && isRecord glState.st.segs e).length = 1 ∧
    branchIs glState.st.h 48 "dv-split" = true :=
  ⟨gl_inv_of_check (by decide) (by decide) (by decide) (by decide) (by decide) (by decide), by decide, by decide, by decide, by decide⟩

end TinyVerif.Dl
