/- Helper lemmas for C10 / C11 (model: Model/UnixStr.lean, spec: Model/UnixStrSpec.lean). -/
import TinyVerif.Model.UnixStr
import TinyVerif.Model.UnixStrSpec
set_option linter.unusedSimpArgs false
set_option linter.unusedVariables false
namespace TinyVerif.UnixStr

/-- raw bytes of a well-formed UnixStr: non-empty, last byte NUL, no other NUL -/
def WFU (l : List Nat) : Prop := l ≠ [] ∧ l.getLast? = some 0 ∧ 0 ∉ l.dropLast

/-- the content (everything but the terminator) -/
def content (l : List Nat) : List Nat := l.dropLast

theorem wfu_iff (l : List Nat) : WFU l ↔ ∃ c, l = c ++ [0] ∧ 0 ∉ c := by
  constructor
  · rintro ⟨hne, hlast, hno⟩
    obtain ⟨ys, rfl⟩ := List.getLast?_eq_some_iff.1 hlast
    exact ⟨ys, rfl, by simpa using hno⟩
  · rintro ⟨c, rfl, hc⟩
    refine ⟨by simp, by simp, by simpa using hc⟩

theorem wfu_snoc {c : List Nat} (hc : 0 ∉ c) : WFU (c ++ [0]) := (wfu_iff _).2 ⟨c, rfl, hc⟩

@[simp] theorem content_snoc (c : List Nat) (b : Nat) : content (c ++ [b]) = c := by simp [content]

/-! ## scanNul -/

theorem scanNul_spec (len : Nat) : ∀ (rest : List Nat) (ind : Nat), len = ind + rest.length →
    (scanNul len ind rest = .noNul ∧ 0 ∉ rest) ∨
    (scanNul len ind rest = .nulAtEnd ∧ ∃ pre, rest = pre ++ [0] ∧ 0 ∉ pre) ∨
    (scanNul len ind rest = .nulInterior ∧ ∃ pre post, rest = pre ++ 0 :: post ∧ 0 ∉ pre ∧ post ≠ [])
  | [], ind, h => by simp [scanNul]
  | b :: rest, ind, h => by
    simp only [List.length_cons] at h
    by_cases hb : b = 0
    · subst hb
      have hlen : 1 ≤ len := by omega
      simp only [scanNul, sub, hlen, if_true]
      by_cases hi : ind = len - 1
      · right; left
        have : rest = [] := by
          have : rest.length = 0 := by omega
          exact List.eq_nil_of_length_eq_zero this
        subst this
        exact ⟨by simp [hi], [], by simp, by simp⟩
      · right; right
        refine ⟨by simp [hi], [], rest, by simp, by simp, ?_⟩
        intro hr; subst hr; simp at h; omega
    · have ih := scanNul_spec len rest (ind + 1) (by omega)
      have hb' : ¬ (0 = b) := fun h => hb h.symm
      simp only [scanNul, hb, if_false]
      rcases ih with ⟨h1, h2⟩ | ⟨h1, pre, h2, h3⟩ | ⟨h1, pre, post, h2, h3, h4⟩
      · left; exact ⟨h1, by simp [h2, hb']⟩
      · right; left; exact ⟨h1, b :: pre, by simp [h2], by simp [h3, hb']⟩
      · right; right; exact ⟨h1, b :: pre, post, by simp [h2], by simp [h3, hb'], h4⟩


/-! ## accessors -/

theorem idx_lt {l : List Nat} {i : Nat} (h : i < l.length) : idx l i = .ok l[i] := by
  simp [idx, List.getElem?_eq_getElem h]

theorem rd_lt {l : List Nat} {i : Nat} (h : i < l.length) : rd l i = .ok l[i] := by
  simp [rd, List.getElem?_eq_getElem h]

@[simp] theorem bind_ok {α β : Type} (a : α) (f : α → R β) : (R.ok a).bind f = f a := rfl

theorem sub_le {a b : Nat} (h : b ≤ a) : sub a b = .ok (a - b) := by simp [sub, h]

/-! ## const validator -/

theorem constLoop_eq (s : List Nat) : ∀ i, i ≤ s.length →
    constLoop s i = if 0 ∈ s.take i then .panic else .ok ()
  | 0, _ => by simp [constLoop]
  | i + 1, h => by
    have hi : i < s.length := by omega
    rw [constLoop, idx_lt hi, bind_ok, constLoop_eq s i (by omega), ← List.take_append_getElem hi]
    by_cases hb : s[i] = 0
    · simp only [hb, if_true, List.mem_append, List.mem_singleton, or_true]
    · have : ¬ (0 = s[i]) := fun h => hb h.symm
      simp only [hb, this, if_false, List.mem_append, List.mem_singleton, or_false]

theorem constValidate_snoc (c : List Nat) (b : Nat) :
    constValidate (c ++ [b]) = if b = 0 ∧ 0 ∉ c then .ok () else .panic := by
  have hlen : (c ++ [b]).length = c.length + 1 := by simp
  have hidx : idx (c ++ [b]) c.length = .ok b := by
    rw [idx_lt (by simp)]; simp
  unfold constValidate
  rw [hlen, sub_le (by omega)]
  simp only [bind_ok, Nat.add_sub_cancel, hidx]
  by_cases hb : b = 0
  · subst hb
    rw [constLoop_eq _ _ (by simp)]
    simp
  · simp [hb]

/-! ## ensureNul / from_format -/

theorem ensureNul_nulfree {p : List Nat} (h : 0 ∉ p) : ensureNul p = p ++ [0] := by
  unfold ensureNul
  split
  · rename_i hl
    obtain ⟨ys, rfl⟩ := List.getLast?_eq_some_iff.1 hl
    simp at h
  · rfl

theorem ensureNul_terminated (c : List Nat) : ensureNul (c ++ [0]) = c ++ [0] := by
  simp [ensureNul]

/-! ## buf_strlen / file_unix_name -/

theorem bufStrlenLoop_spec : ∀ (buf : List Nat) (ind : Nat),
    (0 ∉ buf ∧ bufStrlenLoop ind buf = .err .noterm) ∨
    (∃ pre post, buf = pre ++ 0 :: post ∧ 0 ∉ pre ∧ bufStrlenLoop ind buf = .ok (ind + pre.length))
  | [], ind => by simp [bufStrlenLoop]
  | b :: rest, ind => by
    by_cases hb : b = 0
    · subst hb
      right; exact ⟨[], rest, by simp, by simp, by simp [bufStrlenLoop]⟩
    · have hb' : ¬ (0 = b) := fun h => hb h.symm
      rcases bufStrlenLoop_spec rest (ind + 1) with ⟨h1, h2⟩ | ⟨pre, post, h1, h2, h3⟩
      · left; exact ⟨by simp [h1, hb'], by simp [bufStrlenLoop, hb, h2]⟩
      · right
        refine ⟨b :: pre, post, by simp [h1], by simp [h2, hb'], ?_⟩
        simp only [bufStrlenLoop, hb, if_false, h3, List.length_cons]
        congr 1; omega

theorem fileUnixName_spec (buf : List Nat) :
    (0 ∉ buf ∧ fileUnixName buf = .err .noterm) ∨
    (∃ pre post, buf = pre ++ 0 :: post ∧ 0 ∉ pre ∧ fileUnixName buf = .ok (pre ++ [0])) := by
  rcases bufStrlenLoop_spec buf 0 with ⟨h1, h2⟩ | ⟨pre, post, h1, h2, h3⟩
  · left; exact ⟨h1, by simp [fileUnixName, bufStrlen, h2, R.bind]⟩
  · right
    refine ⟨pre, post, h1, h2, ?_⟩
    subst h1
    simp only [fileUnixName, bufStrlen, h3, bind_ok, Nat.zero_add]
    have : pre.length + 1 ≤ (pre ++ 0 :: post).length := by simp
    simp only [this, if_true]
    congr 1
    rw [List.take_append, List.take_of_length_le (by omega)]
    simp


/-! ## buf_find = naiveFind -/

/-- what the inner loop computes, as a function of the two remaining slices -/
def cmpRest : List Nat → List Nat → Inner
  | _, [] => .matched
  | [], _ :: _ => .retNone
  | a :: x, b :: y => if a ≠ b then .noMatch else cmpRest x y

@[simp] theorem cmpRest_nil (x : List Nat) : cmpRest x [] = .matched := by cases x <;> rfl

theorem cmpRest_matched : ∀ (x y : List Nat), cmpRest x y = .matched ↔ y.isPrefixOf x = true
  | x, [] => by simp
  | [], b :: y => by simp [cmpRest]
  | a :: x, b :: y => by
    by_cases hab : a = b
    · subst hab; simp [cmpRest, cmpRest_matched x y]
    · have : ¬ (b = a) := fun h => hab h.symm
      simp [cmpRest, hab, this]

theorem cmpRest_retNone : ∀ (x y : List Nat), cmpRest x y = .retNone → x.length < y.length
  | x, [] => by simp
  | [], b :: y => by simp
  | a :: x, b :: y => by
    by_cases hab : a = b
    · subst hab; simp only [cmpRest, ne_eq, not_true_eq_false, if_false, List.length_cons]
      intro h; have := cmpRest_retNone x y h; omega
    · simp [cmpRest, hab]

theorem innerLoop_eq (h n : List Nat) (i : Nat) : ∀ k j, j + k = n.length →
    innerLoop h n i k j = .ok (cmpRest (h.drop (i + j)) (n.drop j))
  | 0, j, hk => by
    have : n.drop j = [] := List.drop_eq_nil_of_le (by omega)
    simp [innerLoop, this]
  | k + 1, j, hk => by
    have hj : j < n.length := by omega
    rw [innerLoop, List.drop_eq_getElem_cons hj]
    cases hh : h[i + j]? with
    | none =>
      have : h.drop (i + j) = [] := List.drop_eq_nil_of_le (by
        have := List.getElem?_eq_none_iff.1 hh; omega)
      simp only [this, cmpRest]
    | some this =>
      have hij : i + j < h.length := by
        rcases Nat.lt_or_ge (i + j) h.length with hlt | hge
        · exact hlt
        · rw [List.getElem?_eq_none_iff.2 hge] at hh; cases hh
      have hv : h[i + j] = this := by
        rw [List.getElem?_eq_getElem hij] at hh; exact Option.some.inj hh
      rw [List.drop_eq_getElem_cons hij, hv]
      simp only [idx_lt hj, bind_ok, cmpRest]
      by_cases hne : this = n[j]
      · simp only [hne, ne_eq, not_true_eq_false, if_false]
        rw [innerLoop_eq h n i k (j + 1) (by omega)]
        rfl
      · simp [hne]

theorem naiveFind_short (n : List Nat) : ∀ (x : List Nat), x.length < n.length → naiveFind n x = none
  | [], h => by
    cases n with
    | nil => simp at h
    | cons a t => simp [naiveFind]
  | a :: x, h => by
    have hp : n.isPrefixOf (a :: x) = false := by
      cases hq : n.isPrefixOf (a :: x) with
      | false => rfl
      | true =>
        have := (List.isPrefixOf_iff_prefix.1 hq).length_le
        simp at h this; omega
    have := naiveFind_short n x (by simp at h; omega)
    simp [naiveFind, hp, this]

theorem naiveFind_nil_needle (h : List Nat) : naiveFind [] h = some 0 := by
  cases h <;> simp [naiveFind]

theorem outerLoop_eq (h : List Nat) (n0 : Nat) (nt : List Nat) : ∀ k i, i + k = h.length →
    outerLoop h (n0 :: nt) n0 k i = .ok ((naiveFind (n0 :: nt) (h.drop i)).map (· + i))
  | 0, i, hk => by
    have : h.drop i = [] := List.drop_eq_nil_of_le (by omega)
    simp [outerLoop, this, naiveFind]
  | k + 1, i, hk => by
    have hi : i < h.length := by omega
    have ih := outerLoop_eq h n0 nt k (i + 1) (by omega)
    have hrec : (Option.map (· + 1) (naiveFind (n0 :: nt) (h.drop (i + 1)))).map (· + i)
        = (naiveFind (n0 :: nt) (h.drop (i + 1))).map (· + (i + 1)) := by
      cases naiveFind (n0 :: nt) (h.drop (i + 1)) with
      | none => rfl
      | some v => simp; omega
    rw [outerLoop, idx_lt hi, bind_ok, List.drop_eq_getElem_cons hi]
    by_cases hf : h[i] = n0
    · have hin := innerLoop_eq h (n0 :: nt) i (nt.length) 1 (by simp; omega)
      simp only [hf, if_true, List.length_cons, Nat.add_sub_cancel, hin, bind_ok, List.drop_succ_cons, List.drop_zero]
      cases hc : cmpRest (h.drop (i + 1)) nt with
      | matched =>
        have := (cmpRest_matched _ _).1 hc
        simp [naiveFind, this]
      | retNone =>
        have hl := cmpRest_retNone _ _ hc
        have hp : nt.isPrefixOf (h.drop (i + 1)) = false := by
          cases hq : nt.isPrefixOf (h.drop (i + 1)) with
          | false => rfl
          | true => have := (List.isPrefixOf_iff_prefix.1 hq).length_le; omega
        have hs := naiveFind_short (n0 :: nt) (h.drop (i + 1)) (by simp only [List.length_cons]; omega)
        simp [naiveFind, hp, hs]
      | noMatch =>
        have hp : nt.isPrefixOf (h.drop (i + 1)) = false := by
          cases hq : nt.isPrefixOf (h.drop (i + 1)) with
          | false => rfl
          | true => rw [(cmpRest_matched _ _).2 hq] at hc; cases hc
        simp only [ih, naiveFind, List.isPrefixOf, hp, Bool.and_false, Bool.false_eq_true, if_false, hrec]
    · have hf' : (n0 == h[i]) = false := by
        simp; exact fun h' => hf h'.symm
      simp only [hf, if_false, ih, naiveFind, List.isPrefixOf, hf', Bool.false_and, Bool.false_eq_true, hrec]

theorem bufFind_eq (h n : List Nat) : bufFind h n = .ok (naiveFind n h) := by
  cases n with
  | nil => simp [bufFind, naiveFind_nil_needle]
  | cons n0 nt =>
    simp only [bufFind, List.head?_cons]
    rw [outerLoop_eq h n0 nt h.length 0 (by omega)]
    simp only [List.drop_zero, Nat.add_zero]
    cases naiveFind (n0 :: nt) h <;> rfl

theorem findBuf_eq (s n : List Nat) : findBuf s n = .ok (naiveFind n s) := by
  unfold findBuf
  split
  · rw [naiveFind_short n s (by omega)]
  · exact bufFind_eq s n


/-! ## searching the raw bytes = searching the content, for NUL-free needles -/

theorem isPrefixOf_snoc_zero : ∀ (n l : List Nat), 0 ∉ n → n.isPrefixOf (l ++ [0]) = n.isPrefixOf l
  | [], l, _ => by simp
  | a :: t, [], h => by
    have : ¬ (a = 0) := fun e => h (by simp [e])
    simp [List.isPrefixOf, this]
  | a :: t, b :: l, h => by
    have ht : 0 ∉ t := fun e => h (by simp [e])
    simp [List.isPrefixOf, isPrefixOf_snoc_zero t l ht]

theorem naiveFind_content (n : List Nat) (hn : 0 ∉ n) : ∀ (c : List Nat), naiveFind n (c ++ [0]) = naiveFind n c
  | [] => by
    cases n with
    | nil => simp [naiveFind]
    | cons a t =>
      have : ¬ (a = 0) := fun e => hn (by simp [e])
      simp [naiveFind, List.isPrefixOf, this]
  | x :: c => by
    have h1 := isPrefixOf_snoc_zero n (x :: c) hn
    simp only [List.cons_append] at h1 ⊢
    simp only [naiveFind, h1, naiveFind_content n hn c]

theorem find_eq (cs co : List Nat) (hs : 0 ∉ cs) (ho : 0 ∉ co) :
    find (cs ++ [0]) (co ++ [0]) = .ok (naiveFind co cs) := by
  unfold find
  split
  · rename_i hlen
    simp at hlen
    rw [naiveFind_short co cs (by omega)]
  · have : (co ++ [0]).length = co.length + 1 := by simp
    rw [this, sub_le (by omega)]
    simp only [bind_ok, Nat.add_sub_cancel, Nat.le_add_right, if_true]
    rw [List.take_append, List.take_of_length_le (Nat.le_refl _)]
    simp only [Nat.sub_self, List.take_zero, List.append_nil]
    rw [bufFind_eq, naiveFind_content co ho cs]

theorem drop_eq_cons {l : List Nat} {i a : Nat} {r : List Nat} (h : l.drop i = a :: r) :
    ∃ hi : i < l.length, l[i] = a ∧ l.drop (i + 1) = r := by
  have hi : i < l.length := by
    rcases Nat.lt_or_ge i l.length with h' | h'
    · exact h'
    · rw [List.drop_eq_nil_of_le h'] at h; cases h
  refine ⟨hi, ?_⟩
  have h2 : l[i] :: l.drop (i + 1) = a :: r := (List.drop_eq_getElem_cons hi).symm.trans h
  exact ⟨(List.cons.inj h2).1, (List.cons.inj h2).2⟩

/-! ## match_up_to / match_up_to_str = length of the longest common prefix -/

theorem matchLoop_eq : ∀ (cs co : List Nat) (s o : List Nat) (f it : Nat), 0 ∉ cs →
    s.drop it = cs ++ [0] → (∃ t, o.drop it = co ++ 0 :: t) → cs.length < f →
    matchLoop s o f it = .ok (it + (lcp cs co).length)
  | cs, co, s, o, 0, it, _, _, _, hf => by omega
  | [], co, s, o, f + 1, it, hs0, hs, ⟨t, ho⟩, hf => by
    obtain ⟨hit, ha, _⟩ := drop_eq_cons (show s.drop it = 0 :: [] from hs)
    have hio : it < o.length := by
      rcases Nat.lt_or_ge it o.length with h | h
      · exact h
      · rw [List.drop_eq_nil_of_le h] at ho; cases co <;> simp at ho
    rw [matchLoop, rd_lt hit, bind_ok, rd_lt hio, bind_ok, ha]
    cases co <;> simp [lcp]
  | a :: cs, co, s, o, f + 1, it, hs0, hs, ⟨t, ho⟩, hf => by
    obtain ⟨hit, ha, hs'⟩ := drop_eq_cons (show s.drop it = a :: (cs ++ [0]) from hs)
    have ha0 : ¬ (a = 0) := fun e => hs0 (by simp [e])
    have hcs0 : 0 ∉ cs := fun e => hs0 (by simp [e])
    cases co with
    | nil =>
      obtain ⟨hio, hb, _⟩ := drop_eq_cons (show o.drop it = 0 :: t from ho)
      rw [matchLoop, rd_lt hit, bind_ok, rd_lt hio, bind_ok, ha, hb]
      simp [ha0, lcp]
    | cons b co =>
      obtain ⟨hio, hb, ho'⟩ := drop_eq_cons (show o.drop it = b :: (co ++ 0 :: t) from ho)
      rw [matchLoop, rd_lt hit, bind_ok, rd_lt hio, bind_ok, ha, hb]
      by_cases hab : a = b
      · subst hab
        simp only [ne_eq, not_true_eq_false, ha0, or_self, if_false, lcp, if_true, List.length_cons]
        rw [matchLoop_eq cs co s o f (it + 1) hcs0 hs' ⟨t, ho'⟩ (by simp at hf; omega)]
        congr 1; omega
      · simp [hab, lcp]

theorem matchUpTo_eq (cs co : List Nat) (hs : 0 ∉ cs) :
    matchUpTo (cs ++ [0]) (co ++ [0]) = .ok (lcp cs co).length := by
  unfold matchUpTo
  rw [matchLoop_eq cs co (cs ++ [0]) (co ++ [0]) _ 0 hs (by simp) ⟨[], by simp⟩ (by simp only [List.length_append, List.length_cons, List.length_nil]; omega)]
  simp

theorem matchStrLoop_eq : ∀ (cs co : List Nat) (s o : List Nat) (f it : Nat), 0 ∉ cs →
    s.drop it = cs ++ [0] → o.drop it = co → it ≤ o.length → cs.length < f →
    matchStrLoop s o f it = .ok (it + (lcp cs co).length)
  | cs, co, s, o, 0, it, _, _, _, _, hf => by omega
  | cs, [], s, o, f + 1, it, hs0, hs, ho, hle, hf => by
    have : it = o.length := by
      have := congrArg List.length ho
      simp at this; omega
    cases cs <;> simp [matchStrLoop, this, lcp]
  | cs, b :: co, s, o, f + 1, it, hs0, hs, ho, hle, hf => by
    obtain ⟨hio, hb, ho'⟩ := drop_eq_cons ho
    have hne : ¬ (it = o.length) := by omega
    rw [matchStrLoop]
    cases cs with
    | nil =>
      obtain ⟨hit, ha, _⟩ := drop_eq_cons (show s.drop it = 0 :: [] from hs)
      simp only [hne, if_false, rd_lt hit, bind_ok, rd_lt hio, hb, ha]
      simp [lcp]
    | cons a cs =>
      obtain ⟨hit, ha, hs'⟩ := drop_eq_cons (show s.drop it = a :: (cs ++ [0]) from hs)
      have ha0 : ¬ (a = 0) := fun e => hs0 (by simp [e])
      have hcs0 : 0 ∉ cs := fun e => hs0 (by simp [e])
      simp only [hne, if_false, rd_lt hit, bind_ok, rd_lt hio, hb, ha]
      by_cases hab : a = b
      · subst hab
        simp only [ne_eq, not_true_eq_false, ha0, or_self, if_false, lcp, if_true, List.length_cons]
        rw [matchStrLoop_eq cs co s o f (it + 1) hcs0 hs' ho' (by omega) (by simp at hf; omega)]
        congr 1; omega
      · simp [hab, lcp]

theorem matchUpToStr_eq (cs o : List Nat) (hs : 0 ∉ cs) :
    matchUpToStr (cs ++ [0]) o = .ok (lcp cs o).length := by
  unfold matchUpToStr
  rw [matchStrLoop_eq cs o (cs ++ [0]) o _ 0 hs (by simp) (by simp) (by omega) (by simp only [List.length_append, List.length_cons, List.length_nil]; omega)]
  simp


/-! ## ends_with = suffix test -/

theorem endsLoop_eq (s o : List Nat) (ho : 1 ≤ o.length) (hso : o.length ≤ s.length) :
    ∀ f ind, ind < o.length → o.length - ind ≤ f →
    endsLoop s o f ind = .ok ((o.reverse.drop ind).isPrefixOf (s.reverse.drop ind))
  | 0, ind, h1, h2 => by omega
  | f + 1, ind, hi, hf => by
    have hsr : ind < s.reverse.length := by simp; omega
    have hor : ind < o.reverse.length := by simp; omega
    have hsi : s[s.length - 1 - ind]? = some (s.reverse[ind]) := by
      rw [← List.getElem?_reverse (by omega)]; exact List.getElem?_eq_getElem hsr
    have hoi : o[o.length - 1 - ind]? = some (o.reverse[ind]) := by
      rw [← List.getElem?_reverse (by omega)]; exact List.getElem?_eq_getElem hor
    rw [endsLoop, sub_le (by omega), bind_ok, sub_le (by omega), bind_ok, sub_le (by omega), bind_ok,
      sub_le (by omega), bind_ok]
    simp only [hsi, hoi]
    rw [List.drop_eq_getElem_cons hsr, List.drop_eq_getElem_cons hor]
    generalize s.reverse[ind] = a
    generalize o.reverse[ind] = b
    by_cases heq : a = b
    · simp only [heq, ne_eq, not_true_eq_false, if_false, List.isPrefixOf, beq_self_eq_true, Bool.true_and]
      by_cases hz : o.length - 1 - ind = 0
      · have : o.reverse.drop (ind + 1) = [] := List.drop_eq_nil_of_le (by simp; omega)
        simp [hz, this]
      · simp only [hz, if_false]
        exact endsLoop_eq s o ho hso f (ind + 1) (by omega) (by omega)
    · have : (b == a) = false := by
        simp; exact fun h => heq h.symm
      simp [heq, List.isPrefixOf, this]

theorem endsWith_eq (s o : List Nat) (ho : 1 ≤ o.length) : endsWith s o = .ok (isSuffix o s) := by
  unfold endsWith isSuffix
  split
  · rename_i hlen
    cases hq : o.reverse.isPrefixOf s.reverse with
    | false => rfl
    | true => have := (List.isPrefixOf_iff_prefix.1 hq).length_le; simp at this; omega
  · rw [endsLoop_eq s o ho (by omega) _ 0 (by omega) (by omega)]
    simp

theorem isSuffix_iff (o s : List Nat) : isSuffix o s = true ↔ o <:+ s := by
  unfold isSuffix
  rw [List.isPrefixOf_iff_prefix, List.reverse_prefix]


/-! ## splitting at the last separator -/

theorem beforeLastSlash_snoc : ∀ (l : List Nat) (b : Nat),
    beforeLastSlash (l ++ [b]) = if b = 47 then some l else beforeLastSlash l
  | [], b => by by_cases hb : b = 47 <;> simp [beforeLastSlash, hb]
  | a :: l, b => by
    simp only [List.cons_append, beforeLastSlash, beforeLastSlash_snoc l b]
    by_cases hb : b = 47
    · simp [hb]
    · simp only [hb, if_false]

theorem afterLastSlash_snoc : ∀ (l : List Nat) (b : Nat),
    afterLastSlash (l ++ [b]) = if b = 47 then some [] else (afterLastSlash l).map (· ++ [b])
  | [], b => by by_cases hb : b = 47 <;> simp [afterLastSlash, hb]
  | a :: l, b => by
    simp only [List.cons_append, afterLastSlash, afterLastSlash_snoc l b]
    by_cases hb : b = 47
    · simp [hb]
    · simp only [hb, if_false]
      cases afterLastSlash l with
      | some r => simp
      | none => by_cases ha : a = 47 <;> simp [ha]

theorem beforeLastSlash_some : ∀ (c p : List Nat), beforeLastSlash c = some p → ∃ r, c = p ++ 47 :: r ∧ 47 ∉ r
  | [], p, h => by simp [beforeLastSlash] at h
  | b :: rest, p, h => by
    simp only [beforeLastSlash] at h
    cases hr : beforeLastSlash rest with
    | some q =>
      rw [hr] at h
      obtain ⟨r, h1, h2⟩ := beforeLastSlash_some rest q hr
      refine ⟨r, ?_, h2⟩
      have : p = b :: q := by simpa using h.symm
      simp [this, h1]
    | none =>
      rw [hr] at h
      by_cases hb : b = 47
      · simp only [hb, if_true] at h
        have hp : p = [] := by simpa using h.symm
        refine ⟨rest, by simp [hp, hb], ?_⟩
        -- no slash in rest
        have hno : ∀ (l : List Nat), beforeLastSlash l = none → 47 ∉ l := by
          intro l
          induction l with
          | nil => simp
          | cons x xs ih =>
            intro hx
            simp only [beforeLastSlash] at hx
            cases hxs : beforeLastSlash xs with
            | some q => rw [hxs] at hx; cases hx
            | none =>
              rw [hxs] at hx
              by_cases hx47 : x = 47
              · simp [hx47] at hx
              · have := ih hxs
                simp [this]; exact fun e => hx47 e.symm
        exact hno rest hr
      · simp [hb] at h

/-- post-processing of the split in `path_file_name` -/
def fnPost : Option (List Nat) → Option (List Nat)
  | some r => if 1 < r.length then some r else none
  | none => none

theorem fileNameLoop_eq (s : List Nat) : ∀ k, k ≤ s.length →
    fileNameLoop s k = .ok (fnPost ((afterLastSlash (s.take k)).map (· ++ s.drop k)))
  | 0, _ => by simp [fileNameLoop, afterLastSlash, fnPost]
  | k + 1, hk => by
    have hlt : k < s.length := by omega
    rw [fileNameLoop, idx_lt hlt, bind_ok, ← List.take_append_getElem hlt, afterLastSlash_snoc]
    by_cases hb : s[k] = 47
    · have hl : (s.drop (k + 1)).length = s.length - (k + 1) := List.length_drop
      simp only [hb, SLASH, if_true, hk, Option.map_some, List.nil_append, fnPost, hl]
      by_cases h2 : k + 2 < s.length
      · have : 1 < s.length - (k + 1) := by omega
        simp [h2, this]
      · have : ¬ (1 < s.length - (k + 1)) := by omega
        simp [h2, this]
    · simp only [hb, SLASH, if_false]
      rw [fileNameLoop_eq s k (by omega)]
      congr 2
      rw [List.drop_eq_getElem_cons hlt]
      cases afterLastSlash (s.take k) with
      | none => rfl
      | some r => simp

theorem pathFileName_eq (c : List Nat) :
    pathFileName (c ++ [0]) = .ok ((fileNameSpec c).map (· ++ [0])) := by
  unfold pathFileName
  rw [fileNameLoop_eq _ _ (Nat.le_refl _)]
  simp only [List.take_length, List.drop_length, afterLastSlash_snoc, fileNameSpec]
  cases afterLastSlash c with
  | none => simp [fnPost]
  | some r =>
    cases r with
    | nil => simp [fnPost]
    | cons x xs => simp [fnPost]

/-- post-processing of the split in `parent_path`'s loop -/
def pPost : Option (List Nat) → PLoop
  | none => .retNone
  | some p => if p.getLast? = some 47 then .retNone else .exit p.length

theorem parentLoop_eq (s : List Nat) : ∀ n, n < s.length →
    parentLoop s n = pPost (beforeLastSlash (s.take (n + 1)))
  | 0, h => by
    have h0 : s[0]? = some s[0] := List.getElem?_eq_getElem h
    have ht : s.take 1 = [s[0]] := by
      cases s with
      | nil => simp at h
      | cons a t => simp
    rw [parentLoop, h0, ht]
    by_cases hb : s[0] = 47 <;> simp [hb, beforeLastSlash, pPost, SLASH]
  | n + 1, h => by
    have hn : n < s.length := by omega
    have h1 : s[n + 1]? = some s[n + 1] := List.getElem?_eq_getElem h
    rw [parentLoop, h1, ← List.take_append_getElem h, beforeLastSlash_snoc]
    by_cases hb : s[n + 1] = 47
    · have hlast : (s.take (n + 1)).getLast? = s[n]? := by
        rw [List.getLast?_take]
        simp [List.getElem?_eq_getElem hn]
      have hlen : (s.take (n + 1)).length = n + 1 := by simp; omega
      simp only [hb, SLASH, if_true, pPost, hlast, hlen]
    · simp only [hb, SLASH, if_false]
      exact parentLoop_eq s n hn

theorem parentPath_eq (c : List Nat) :
    parentPath (c ++ [0]) = .ok ((parentSpec c).map (· ++ [0])) := by
  unfold parentPath parentSpec
  have hlen : (c ++ [0]).length = c.length + 1 := by simp
  rw [hlen]
  by_cases hc : c.length < 2
  · have : c.length + 1 < 3 := by omega
    simp [this, hc]
  · have h3 : ¬ (c.length + 1 < 3) := by omega
    simp only [h3, hc, if_false]
    rw [sub_le (by omega), bind_ok]
    have hl : c.length + 1 - 2 = c.length - 1 := by omega
    rw [hl, parentLoop_eq _ _ (by simp; omega)]
    have ht : (c ++ [0]).take (c.length - 1 + 1) = c := by
      have : c.length - 1 + 1 = c.length := by omega
      rw [this, List.take_append, List.take_of_length_le (Nat.le_refl _)]; simp
    rw [ht]
    cases hb : beforeLastSlash c with
    | none => simp [pPost]
    | some p =>
      obtain ⟨r, hcr, _⟩ := beforeLastSlash_some c p hb
      simp only [pPost]
      by_cases hd : p.getLast? = some 47
      · simp [hd]
      · simp only [hd, if_false]
        cases p with
        | nil =>
          subst hcr
          simp
        | cons x xs =>
          have hle : (x :: xs).length ≤ c.length + 1 := by
            have := congrArg List.length hcr; simp at this ⊢; omega
          have htk : (c ++ [0]).take (x :: xs).length = x :: xs := by
            rw [hcr]
            simp
          simp only [List.length_cons, Nat.add_eq_zero_iff, Nat.succ_ne_zero, and_false, if_false] at hle ⊢
          simp only [List.length_cons] at htk
          simp [hle, htk]


/-! ## join -/

theorem pathJoin_eq (ca cb : List Nat) :
    pathJoin (ca ++ [0]) (cb ++ [0]) = .ok (joinSpec ca cb ++ [0]) := by
  unfold pathJoin joinSpec
  rcases List.eq_nil_or_concat ca with rfl | ⟨a', x, rfl⟩
  · cases cb <;> simp
  · simp only [List.getLast?_concat, List.dropLast_concat]
    cases cb with
    | nil => simp
    | cons y cb' =>
      have hl : ¬ ((y :: cb' ++ [0]).length = 1) := by simp
      have hrd : rd (y :: cb' ++ [0]) 0 = .ok y := by simp [rd]
      simp only [hl, if_false, hrd, bind_ok, stripTrailingSlash, stripLeadingSlash, List.getLast?_concat,
        List.dropLast_concat, List.head?_cons, SLASH]
      by_cases hx : x = 47 <;> by_cases hy : y = 47 <;> simp [hx, hy]

theorem pathJoinFmt_eq (ca p : List Nat) (hca : 0 ∉ ca) (hp : 0 ∉ p) :
    pathJoinFmt (ca ++ [0]) p = .ok (joinSpec ca p ++ [0]) := by
  unfold pathJoinFmt joinSpec
  simp only [List.dropLast_concat]
  cases p with
  | nil => simp
  | cons y p' =>
    have hy0 : ¬ (0 = y) := fun e => hp (by simp [e])
    have hp'0 : 0 ∉ p' := fun e => hp (by simp [e])
    rcases List.eq_nil_or_concat ca with rfl | ⟨a', x, rfl⟩
    · simp [ensureNul_nulfree hp]
    · have ha'0 : 0 ∉ a' := fun e => hca (by simp [e])
      have hx0 : ¬ (0 = x) := fun e => hca (by simp [e])
      simp only [List.getLast?_concat, List.isEmpty_cons, Bool.false_eq_true, if_false, List.head?_cons,
        stripTrailingSlash, stripLeadingSlash, List.dropLast_concat, SLASH]
      by_cases hx : x = 47 <;> by_cases hy : y = 47
      · subst hx; subst hy
        simp [ensureNul_nulfree, ha'0, hp'0]
      · subst hx
        simp [hy, ensureNul_nulfree, ha'0, hp'0, hy0]
      · subst hy
        simp [hx, ensureNul_nulfree, ha'0, hp'0, hx0]
      · simp [hx, hy, ensureNul_nulfree, ha'0, hp'0, hx0, hy0]

theorem joinSpec_nulfree (a b : List Nat) (ha : 0 ∉ a) (hb : 0 ∉ b) : 0 ∉ joinSpec a b := by
  unfold joinSpec stripTrailingSlash stripLeadingSlash
  have h1 : 0 ∉ a.dropLast := fun e => ha ((List.dropLast_sublist a).subset e)
  have h2 : 0 ∉ b.drop 1 := fun e => hb (List.mem_of_mem_drop e)
  repeat' split
  all_goals simp_all


theorem afterLastSlash_some : ∀ (c r : List Nat), afterLastSlash c = some r → ∃ p, c = p ++ 47 :: r
  | [], r, h => by simp [afterLastSlash] at h
  | b :: rest, r, h => by
    simp only [afterLastSlash] at h
    cases hr : afterLastSlash rest with
    | some q =>
      rw [hr] at h
      obtain ⟨p, hp⟩ := afterLastSlash_some rest q hr
      have : r = q := by simpa using h.symm
      exact ⟨b :: p, by simp [this, hp]⟩
    | none =>
      rw [hr] at h
      by_cases hb : b = 47
      · simp only [hb, if_true] at h
        have : r = rest := by simpa using h.symm
        exact ⟨[], by simp [this, hb]⟩
      · simp [hb] at h

theorem isSuffix_terminated (co cs : List Nat) : isSuffix (co ++ [0]) (cs ++ [0]) = isSuffix co cs := by
  simp [isSuffix, List.isPrefixOf]

/-! ## splits around ONE component of any length (no bound on the component, no bound on the prefix) -/

theorem afterLastSlash_no_slash : ∀ (c : List Nat), 47 ∉ c → afterLastSlash c = none
  | [], _ => rfl
  | b :: rest, h => by
    have hb : b ≠ 47 := fun e => h (by simp [e])
    have hr : 47 ∉ rest := fun e => h (by simp [e])
    simp [afterLastSlash, afterLastSlash_no_slash rest hr, hb]

theorem beforeLastSlash_no_slash : ∀ (c : List Nat), 47 ∉ c → beforeLastSlash c = none
  | [], _ => rfl
  | b :: rest, h => by
    have hb : b ≠ 47 := fun e => h (by simp [e])
    have hr : 47 ∉ rest := fun e => h (by simp [e])
    simp [beforeLastSlash, beforeLastSlash_no_slash rest hr, hb]

theorem afterLastSlash_append (comp : List Nat) (hc : 47 ∉ comp) :
    ∀ (pre : List Nat), afterLastSlash (pre ++ 47 :: comp) = some comp
  | [] => by simp [afterLastSlash, afterLastSlash_no_slash comp hc]
  | b :: pre => by simp [afterLastSlash, afterLastSlash_append comp hc pre]

theorem beforeLastSlash_append (comp : List Nat) (hc : 47 ∉ comp) :
    ∀ (pre : List Nat), beforeLastSlash (pre ++ 47 :: comp) = some pre
  | [] => by simp [beforeLastSlash, beforeLastSlash_no_slash comp hc]
  | b :: pre => by simp [beforeLastSlash, beforeLastSlash_append comp hc pre]

theorem not_mem_replicate {a b : Nat} (n : Nat) (h : a ≠ b) : a ∉ List.replicate n b :=
  fun m => h (List.eq_of_mem_replicate m)

theorem replicate_ne_nil {n : Nat} (a : Nat) (h : 0 < n) : List.replicate n a ≠ [] := by
  intro e
  have := congrArg List.length e
  simp only [List.length_replicate, List.length_nil] at this
  omega

theorem snoc_ne_nil (l : List Nat) (a : Nat) : l ++ [a] ≠ [] := by simp

end TinyVerif.UnixStr
