/- Helper lemmas for C10 / C11 (model: Model/UnixStr.lean, spec: Model/UnixStrSpec.lean). -/
import TinyVerif.Model.UnixStr
import TinyVerif.Model.UnixStrSpec
set_option linter.unusedSimpArgs false
set_option linter.unusedVariables false
namespace TinyVerif.UnixStr

/-- raw bytes of a well-formed UnixStr: non-empty, last byte NUL, no other NUL -/
def WFU (l : List Nat) : Prop := l ≠ [] ∧ l.getLast? = some 0 ∧ 0 ∉ l.dropLast

/-- the content (everything but the terminator) -/
def content (l : List Nat) : List Nat := l.dropLast

theorem wfu_iff (l : List Nat) : WFU l ↔ ∃ c, l = c ++ [0] ∧ 0 ∉ c := by
  constructor
  · rintro ⟨hne, hlast, hno⟩
    obtain ⟨ys, rfl⟩ := List.getLast?_eq_some_iff.1 hlast
    exact ⟨ys, rfl, by simpa using hno⟩
  · rintro ⟨c, rfl, hc⟩
    refine ⟨by simp, by simp, by simpa using hc⟩

theorem wfu_snoc {c : List Nat} (hc : 0 ∉ c) : WFU (c ++ [0]) := (wfu_iff _).2 ⟨c, rfl, hc⟩

@[simp] theorem content_snoc (c : List Nat) (b : Nat) : content (c ++ [b]) = c := by simp [content]

/-! ## scanNul -/

theorem scanNul_spec (len : Nat) : ∀ (rest : List Nat) (ind : Nat), len = ind + rest.length →
    (scanNul len ind rest = .noNul ∧ 0 ∉ rest) ∨
    (scanNul len ind rest = .nulAtEnd ∧ ∃ pre, rest = pre ++ [0] ∧ 0 ∉ pre) ∨
    (scanNul len ind rest = .nulInterior ∧ ∃ pre post, rest = pre ++ 0 :: post ∧ 0 ∉ pre ∧ post ≠ [])
  | [], ind, h => by simp [scanNul]
  | b :: rest, ind, h => by
    simp only [List.length_cons] at h
    by_cases hb : b = 0
    · subst hb
      have hlen : 1 ≤ len := by omega
      simp only [scanNul, sub, hlen, if_true]
      by_cases hi : ind = len - 1
      · right; left
        have : rest = [] := by
          have : rest.length = 0 := by omega
          exact List.eq_nil_of_length_eq_zero this
        subst this
        exact ⟨by simp [hi], [], by simp, by simp⟩
      · right; right
        refine ⟨by simp [hi], [], rest, by simp, by simp, ?_⟩
        intro hr; subst hr; simp at h; omega
    · have ih := scanNul_spec len rest (ind + 1) (by omega)
      have hb' : ¬ (0 = b) := fun h => hb h.symm
      simp only [scanNul, hb, if_false]
      rcases ih with ⟨h1, h2⟩ | ⟨h1, pre, h2, h3⟩ | ⟨h1, pre, post, h2, h3, h4⟩
      · left; exact ⟨h1, by simp [h2, hb']⟩
      · right; left; exact ⟨h1, b :: pre, by simp [h2], by simp [h3, hb']⟩
      · right; right; exact ⟨h1, b :: pre, post, by simp [h2], by simp [h3, hb'], h4⟩


/-! ## accessors -/

theorem idx_lt {l : List Nat} {i : Nat} (h : i < l.length) : idx l i = .ok l[i] := by
  simp [idx, List.getElem?_eq_getElem h]

theorem rd_lt {l : List Nat} {i : Nat} (h : i < l.length) : rd l i = .ok l[i] := by
  simp [rd, List.getElem?_eq_getElem h]

@[simp] theorem bind_ok {α β : Type} (a : α) (f : α → R β) : (R.ok a).bind f = f a := rfl

theorem sub_le {a b : Nat} (h : b ≤ a) : sub a b = .ok (a - b) := by simp [sub, h]

/-! ## const validator -/

theorem constLoop_eq (s : List Nat) : ∀ i, i ≤ s.length →
    constLoop s i = if 0 ∈ s.take i then .panic else .ok ()
  | 0, _ => by simp [constLoop]
  | i + 1, h => by
    have hi : i < s.length := by omega
    rw [constLoop, idx_lt hi, bind_ok, constLoop_eq s i (by omega), ← List.take_append_getElem hi]
    by_cases hb : s[i] = 0
    · simp [hb]
    · have : ¬ (0 = s[i]) := fun h => hb h.symm
      simp [hb, this]

theorem constValidate_snoc (c : List Nat) (b : Nat) :
    constValidate (c ++ [b]) = if b = 0 ∧ 0 ∉ c then .ok () else .panic := by
  have hlen : (c ++ [b]).length = c.length + 1 := by simp
  have hidx : idx (c ++ [b]) c.length = .ok b := by
    rw [idx_lt (by simp)]; simp
  unfold constValidate
  rw [hlen, sub_le (by omega)]
  simp only [bind_ok, Nat.add_sub_cancel, hidx]
  by_cases hb : b = 0
  · subst hb
    rw [constLoop_eq _ _ (by simp)]
    simp
  · simp [hb]

/-! ## ensureNul / from_format -/

theorem ensureNul_nulfree {p : List Nat} (h : 0 ∉ p) : ensureNul p = p ++ [0] := by
  unfold ensureNul
  split
  · rename_i hl
    obtain ⟨ys, rfl⟩ := List.getLast?_eq_some_iff.1 hl
    simp at h
  · rfl

theorem ensureNul_terminated (c : List Nat) : ensureNul (c ++ [0]) = c ++ [0] := by
  simp [ensureNul]

/-! ## buf_strlen / file_unix_name -/

theorem bufStrlenLoop_spec : ∀ (buf : List Nat) (ind : Nat),
    (0 ∉ buf ∧ bufStrlenLoop ind buf = .err .noterm) ∨
    (∃ pre post, buf = pre ++ 0 :: post ∧ 0 ∉ pre ∧ bufStrlenLoop ind buf = .ok (ind + pre.length))
  | [], ind => by simp [bufStrlenLoop]
  | b :: rest, ind => by
    by_cases hb : b = 0
    · subst hb
      right; exact ⟨[], rest, by simp, by simp, by simp [bufStrlenLoop]⟩
    · have hb' : ¬ (0 = b) := fun h => hb h.symm
      rcases bufStrlenLoop_spec rest (ind + 1) with ⟨h1, h2⟩ | ⟨pre, post, h1, h2, h3⟩
      · left; exact ⟨by simp [h1, hb'], by simp [bufStrlenLoop, hb, h2]⟩
      · right
        refine ⟨b :: pre, post, by simp [h1], by simp [h2, hb'], ?_⟩
        simp only [bufStrlenLoop, hb, if_false, h3, List.length_cons]
        congr 1; omega

theorem fileUnixName_spec (buf : List Nat) :
    (0 ∉ buf ∧ fileUnixName buf = .err .noterm) ∨
    (∃ pre post, buf = pre ++ 0 :: post ∧ 0 ∉ pre ∧ fileUnixName buf = .ok (pre ++ [0])) := by
  rcases bufStrlenLoop_spec buf 0 with ⟨h1, h2⟩ | ⟨pre, post, h1, h2, h3⟩
  · left; exact ⟨h1, by simp [fileUnixName, bufStrlen, h2, R.bind]⟩
  · right
    refine ⟨pre, post, h1, h2, ?_⟩
    subst h1
    simp only [fileUnixName, bufStrlen, h3, bind_ok, Nat.zero_add]
    have : pre.length + 1 ≤ (pre ++ 0 :: post).length := by simp; omega
    simp only [this, if_true]
    congr 1
    rw [List.take_append]
    simp

end TinyVerif.UnixStr
