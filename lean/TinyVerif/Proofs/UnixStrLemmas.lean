/- Helper lemmas for C10 / C11 (model: Model/UnixStr.lean, spec: Model/UnixStrSpec.lean). -/
import TinyVerif.Model.UnixStr
import TinyVerif.Model.UnixStrSpec
set_option linter.unusedSimpArgs false
set_option linter.unusedVariables false
namespace TinyVerif.UnixStr

/-- raw bytes of a well-formed UnixStr: non-empty, last byte NUL, no other NUL -/
def WFU (l : List Nat) : Prop := l ≠ [] ∧ l.getLast? = some 0 ∧ 0 ∉ l.dropLast

/-- the content (everything but the terminator) -/
def content (l : List Nat) : List Nat := l.dropLast

theorem wfu_iff (l : List Nat) : WFU l ↔ ∃ c, l = c ++ [0] ∧ 0 ∉ c := by
  constructor
  · rintro ⟨hne, hlast, hno⟩
    obtain ⟨ys, rfl⟩ := List.getLast?_eq_some_iff.1 hlast
    exact ⟨ys, rfl, by simpa using hno⟩
  · rintro ⟨c, rfl, hc⟩
    refine ⟨by simp, by simp, by simpa using hc⟩

theorem wfu_snoc {c : List Nat} (hc : 0 ∉ c) : WFU (c ++ [0]) := (wfu_iff _).2 ⟨c, rfl, hc⟩

@[simp] theorem content_snoc (c : List Nat) (b : Nat) : content (c ++ [b]) = c := by simp [content]

/-! ## scanNul -/

theorem scanNul_spec (len : Nat) : ∀ (rest : List Nat) (ind : Nat), len = ind + rest.length →
    (scanNul len ind rest = .noNul ∧ 0 ∉ rest) ∨
    (scanNul len ind rest = .nulAtEnd ∧ ∃ pre, rest = pre ++ [0] ∧ 0 ∉ pre) ∨
    (scanNul len ind rest = .nulInterior ∧ ∃ pre post, rest = pre ++ 0 :: post ∧ 0 ∉ pre ∧ post ≠ [])
  | [], ind, h => by simp [scanNul]
  | b :: rest, ind, h => by
    simp only [List.length_cons] at h
    by_cases hb : b = 0
    · subst hb
      have hlen : 1 ≤ len := by omega
      simp only [scanNul, sub, hlen, if_true]
      by_cases hi : ind = len - 1
      · right; left
        have : rest = [] := by
          have : rest.length = 0 := by omega
          exact List.eq_nil_of_length_eq_zero this
        subst this
        exact ⟨by simp [hi], [], by simp, by simp⟩
      · right; right
        refine ⟨by simp [hi], [], rest, by simp, by simp, ?_⟩
        intro hr; subst hr; simp at h; omega
    · have ih := scanNul_spec len rest (ind + 1) (by omega)
      have hb' : ¬ (0 = b) := fun h => hb h.symm
      simp only [scanNul, hb, if_false]
      rcases ih with ⟨h1, h2⟩ | ⟨h1, pre, h2, h3⟩ | ⟨h1, pre, post, h2, h3, h4⟩
      · left; exact ⟨h1, by simp [h2, hb']⟩
      · right; left; exact ⟨h1, b :: pre, by simp [h2], by simp [h3, hb']⟩
      · right; right; exact ⟨h1, b :: pre, post, by simp [h2], by simp [h3, hb'], h4⟩

end TinyVerif.UnixStr
