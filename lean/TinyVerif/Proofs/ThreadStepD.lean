/- per-event preservation of the instance invariant (generated layout, proofs by the `inv_event` tactic of ThreadInv) -/
import TinyVerif.Proofs.ThreadInv
set_option maxRecDepth 4000
set_option linter.unusedVariables false
namespace TinyVerif.Thread

theorem inv_tCas (c : Cfg) (hc : c.Good) (x x' : Inst) (ok : Bool) (h : stepI c x (.tCas ok) = some x') (hinv : IInv x) :
    IInv x' := by
  inv_event

theorem inv_tSetTid (c : Cfg) (hc : c.Good) (x x' : Inst) (h : stepI c x .tSetTid = some x') (hinv : IInv x) :
    IInv x' := by
  inv_event

theorem inv_tFreeTsm (c : Cfg) (hc : c.Good) (x x' : Inst) (h : stepI c x .tFreeTsm = some x') (hinv : IInv x) :
    IInv x' := by
  inv_event

theorem inv_tFreeTls (c : Cfg) (hc : c.Good) (x x' : Inst) (h : stepI c x .tFreeTls = some x') (hinv : IInv x) :
    IInv x' := by
  inv_event

theorem inv_tFreeBox (c : Cfg) (hc : c.Good) (x x' : Inst) (h : stepI c x .tFreeBox = some x') (hinv : IInv x) :
    IInv x' := by
  inv_event

theorem inv_tMunmap (c : Cfg) (hc : c.Good) (x x' : Inst) (h : stepI c x .tMunmap = some x') (hinv : IInv x) :
    IInv x' := by
  inv_event

theorem inv_tExit (c : Cfg) (hc : c.Good) (x x' : Inst) (h : stepI c x .tExit = some x') (hinv : IInv x) :
    IInv x' := by
  inv_event

theorem inv_kExit (c : Cfg) (hc : c.Good) (x x' : Inst) (h : stepI c x .kExit = some x') (hinv : IInv x) :
    IInv x' := by
  inv_event

theorem inv_tDropVal (c : Cfg) (hc : c.Good) (x x' : Inst) (h : stepI c x .tDropVal = some x') (hinv : IInv x) :
    IInv x' := by
  inv_event

theorem inv_tDropPanic (c : Cfg) (hc : c.Good) (x x' : Inst) (h : stepI c x .tDropPanic = some x') (hinv : IInv x) :
    IInv x' := by
  inv_event

end TinyVerif.Thread
