import TinyVerif.Proofs.DlIndBase
import TinyVerif.Proofs.DlIndDvTop
/-!
# `small-bin` branch of `malloc_nosys` preserves `WFS`

`take_first_small` (unlink the newest chunk of a small bin) followed by `set_inuse_and_pinuse`
(the *exhaust* table change).  Compared with `dv-exhaust` the only new work is bin bookkeeping:
`joinAll_set_split` (the flattened bins around the bin that changed), `sbinsFrom_set_sub`,
`bins_window'`.
-/
namespace TinyVerif.Dl

theorem take_first_small_ok {h h' : Heap} {idx p : Nat} (e : take_first_small h idx = .ok (h', p)) :
    ∃ rest x, h.sbins[idx]? = some (p :: rest) ∧ h' = setBin h idx rest ∧ findEnt h.ents p = some x ∧
      x.size = small_index2size idx := by
  unfold take_first_small at e
  msimp at e
  obtain ⟨l, hl, e⟩ := e
  unfold getBin at hl
  split at hl
  · rename_i l' hl'
    msimp at hl
    subst hl
    split at e
    · msimp at e
    · rename_i p' rest
      msimp at e
      obtain ⟨x, hx, _, hs, e⟩ := e
      simp only [Prod.mk.injEq] at e
      obtain ⟨e1, e2⟩ := e
      subst e2
      simp only [ne_eq, decide_eq_false_iff_not, Decidable.not_not] at hs
      exact ⟨rest, x, hl', e1.symm, getE_spec hx, hs⟩
  · msimp at hl

theorem small_bin_wfs {s : St} (w : WFS s) {idx p : Nat} {h1 h2 : Heap}
    (e1 : take_first_small s.h idx = .ok (h1, p))
    (e2 : set_inuse_and_pinuse h1 p (small_index2size idx) = .ok h2) (t : String) :
    WFS { s with h := h2.tag t } ∧ AllocAt s.h.ents (h2.tag t).ents (small_index2size idx) p := by
  -- 1. the headers
  obtain ⟨rest, x, hidx, hh1, hfx, hxs⟩ := take_first_small_ok e1
  subst hh1
  obtain ⟨hxm, hxa⟩ := findEnt_some hfx
  have hpb : p ∈ binned s.h :=
    List.mem_append.2 (Or.inl (mem_joinAll (List.mem_of_getElem? hidx) List.mem_cons_self))
  obtain ⟨⟨x', hfx', hxf⟩, hptop, hpdv⟩ := w.binned_free hpb
  rw [hfx] at hfx'
  injection hfx' with hfx'
  subst hfx'
  obtain ⟨pre, y, post, g, fa⟩ := w.freeAt hxm hxf (by rw [hxa]; exact hptop)
  -- 2. the final heap
  have r := set_inuse_and_pinuse_at e2 (pre := pre) (post := post) (x := x) (y := y) fa.hes w.ents hxa hxs fa.ya
  have hi : HeapIs (h2.tag t) (pre ++ [{ x with cin := true, pin := true }, { y with pin := true }] ++ post)
      (s.h.sbins.set idx rest) s.h.tbins s.h.dv s.h.dvsize s.h.top s.h.topsize := by
    rw [r]; exact ⟨rfl, rfl, rfl, rfl, rfl, rfl, rfl⟩
  generalize h2.tag t = H at hi ⊢
  -- 3. the table
  obtain ⟨hst, hal, fs1, fs2⟩ := exhaust_table w fa (nb := small_index2size idx)
    (nx := { x with cin := true, pin := true }) (ny := { y with pin := true })
    rfl rfl rfl rfl rfl rfl fa.yc rfl (by omega)
  rw [hxa] at fs1
  have hok' : entsOk H.ents = true := by rw [hi.ents]; exact hst.ents
  -- 4. bookkeeping: the flattened small bins around bin `idx`
  obtain ⟨A0, B0, hj0, hj1⟩ := joinAll_set_split hidx
  have hfl0 : freeList s.h = ((if s.h.top = 0 then [] else [s.h.top]) ++ ((if s.h.dv = 0 then [] else [s.h.dv]) ++ A0)) ++
      ([p] ++ (rest ++ (B0 ++ joinAll (s.h.tbins.map Tree.members)))) := by
    unfold freeList binned
    rw [hj0]
    simp only [List.append_assoc, List.cons_append, List.nil_append]
  have hfl1 : freeList H = ((if s.h.top = 0 then [] else [s.h.top]) ++ ((if s.h.dv = 0 then [] else [s.h.dv]) ++ A0)) ++
      ([] ++ (rest ++ (B0 ++ joinAll (s.h.tbins.map Tree.members)))) := by
    unfold freeList binned
    rw [hi.top, hi.dv, hi.sbins, hi.tbins, hj1 rest]
    simp only [List.append_assoc, List.nil_append]
  have hnd0 := ((freeListOk_iff s.h).1 w.freeList).1
  rw [hfl0] at hnd0
  -- `p` was listed once
  have hp1 : p ∉ binned H := by
    unfold binned
    rw [hi.sbins, hi.tbins, hj1 rest]
    intro hm
    simp only [List.nodup_append] at hnd0
    obtain ⟨_, ⟨_, _, h4⟩, h5⟩ := hnd0
    simp only [List.mem_append] at hm
    rcases hm with (hm | hm | hm) | hm
    · exact h5 p (List.mem_append.2 (Or.inr (List.mem_append.2 (Or.inr hm)))) p (by simp) rfl
    · exact h4 p (by simp) p (by simp [hm]) rfl
    · exact h4 p (by simp) p (by simp [hm]) rfl
    · exact h4 p (by simp) p (by simp [hm]) rfl
  have hsubB : ∀ a ∈ binned H, a ∈ binned s.h := by
    intro a ha
    unfold binned at ha ⊢
    rw [hi.sbins, hi.tbins, hj1 rest] at ha
    rw [hj0]
    simp only [List.mem_append, List.mem_cons] at ha ⊢
    rcases ha with (ha | ha | ha) | ha
    · exact Or.inl (Or.inl ha)
    · exact Or.inl (Or.inr (Or.inl (Or.inr ha)))
    · exact Or.inl (Or.inr (Or.inr ha))
    · exact Or.inr ha
  have hbins := bins_window' w fa.hes hi.ents hok'
    (by
      have := w.sbins
      simp only [Bool.and_eq_true, decide_eq_true_eq] at this ⊢
      rw [hi.sbins, List.length_set]
      exact ⟨this.1, sbinsFrom_set_sub this.2 hidx (fun a ha => List.mem_cons_of_mem _ ha)⟩)
    (by rw [hi.tbins]; exact w.tbins)
    hsubB
    (fa.free_mid (P := fun e => e.addr = s.h.top ∨ e.addr = s.h.dv ∨ e.addr ∉ binned H)
      (Or.inr (Or.inr (by rw [hxa]; exact hp1))))
  refine ⟨wfs_of_parts w (by rw [hi.ents, hi.top]; exact hst) ?_ hbins.1 hbins.2 ?_ ?_,
    by rw [hi.ents, ← hxa]; exact hal⟩
  · refine freeListOk_replace w fa.hes hi.ents hok'
      (A := (if s.h.top = 0 then [] else [s.h.top]) ++ ((if s.h.dv = 0 then [] else [s.h.dv]) ++ A0))
      (B := rest ++ (B0 ++ joinAll (s.h.tbins.map Tree.members))) ?_ ?_ (by rw [fs2]; simp) (by rw [fs2]; simp)
    · rw [fs1]; exact hfl0
    · rw [fs2]; exact hfl1
  · exact dvOk_window w fa.hes hi.ents hok' hi.dv hi.dvsize
      (fa.free_mid (P := fun e => e.addr ≠ s.h.dv) (by rw [hxa]; exact hpdv))
  · exact topOk_window w fa.hes hi.ents hok' (fun h => by have := fa.hg; rw [h] at this; cases this)
      hi.top hi.topsize fa.top_mid

/-- the `small-bin` branch of `malloc_nosys` (a small request whose exact bin, or the next one, is
non-empty) preserves `WFS`; `idx` is the bin the chunk was taken from -/
theorem malloc_nosys_small_bin_wfs {s : St} (w : WFS s) {size : Nat} (hs : size ≤ MAX_SMALL_REQUEST)
    (hbits : (smallmap s.h >>> small_index (request2size size)) &&& 3 ≠ 0) {h' : Heap} {mem : Nat}
    (hh : malloc_nosys s.h size = .ok (.done h' mem)) :
    WFS { s with h := h' } ∧ ∃ idx, AllocFacts s.h.ents h'.ents (small_index2size idx) mem := by
  unfold malloc_nosys at hh
  dsimp only at hh
  rw [if_pos hs, if_pos hbits] at hh
  msimp at hh
  obtain ⟨⟨h1, p⟩, e1, h2, e2, hh⟩ := hh
  injection hh with hh1 hh2
  subst hh1; subst hh2
  obtain ⟨r1, r2⟩ := small_bin_wfs w e1 e2 "small-bin"
  exact ⟨r1, _, p, by rw [MEM_OFFSET_eq], r2⟩

/-! ### non-vacuity -/

/-- `pilotState` one step earlier: the freed 112-byte chunk sits in small bin 14 -/
def smallState : Hist := match Hist.init.run (pilotOps.take 4) with
  | .ok (hs, _) => hs
  | .error _ => Hist.init

set_option maxRecDepth 40000 in
/-- the hypotheses of `malloc_nosys_small_bin_wfs` hold on `smallState` for a 100-byte request -/
example : WFS smallState.st ∧ (100 : Nat) ≤ MAX_SMALL_REQUEST ∧
    (smallmap smallState.st.h >>> small_index (request2size 100)) &&& 3 ≠ 0 ∧
    (match malloc_nosys smallState.st.h 100 with
      | .ok (.done h' _) => h'.tr.getLast? == some "small-bin"
      | _ => false) = true :=
  ⟨((wf_iff_wfs smallState).1 (by unfold WF; decide)).1, by decide, by decide, by decide⟩

end TinyVerif.Dl
