import TinyVerif.Model.Dlmalloc
import TinyVerif.Proofs.DlPure
/-! Step-level lemmas about `Model/Dlmalloc.lean`: bookkeeping of footprint vs. segment list, OS
calls, behaviour under refusal. -/
namespace TinyVerif.Dl

/-! ### Except plumbing -/

theorem bind_ok {α β : Type} {x : M α} {f : α → M β} {b : β} :
    (x >>= f) = .ok b ↔ ∃ a, x = .ok a ∧ f a = .ok b := by
  cases x with
  | error e => simp [bind, Except.bind]
  | ok a => simp [bind, Except.bind]

theorem pure_ok {α : Type} {a b : α} : (pure a : M α) = .ok b ↔ a = b := by
  simp [pure, Except.pure]

theorem throw_ok {α : Type} {e : String} {b : α} : (throw e : M α) = .ok b ↔ False := by
  simp [throw, throwThe, MonadExceptOf.throw]

theorem failIf_ok {c : Bool} {msg : String} {u : Unit} : failIf c msg = .ok u ↔ c = false := by
  unfold failIf; cases c <;> simp [pure, Except.pure, throw, throwThe, MonadExceptOf.throw]

/-- sum of the segment sizes -/
def segSum : List Seg → Nat
  | [] => 0
  | g :: gs => g.size + segSum gs

/-- bookkeeping relation: footprint and the segment sizes moved by the same amount -/
def FpRel (s s' : St) : Prop := s'.footprint + segSum s.segs = s.footprint + segSum s'.segs

theorem FpRel.refl (s : St) : FpRel s s := rfl
theorem FpRel.trans {a b c : St} (h1 : FpRel a b) (h2 : FpRel b c) : FpRel a c := by
  unfold FpRel at *; omega

theorem FpRel.of_eq {s s' : St} (h1 : s'.footprint = s.footprint) (h2 : s'.segs = s.segs) : FpRel s s' := by
  unfold FpRel; rw [h1, h2]

theorem segSum_replace (segs : List Seg) (old new : Seg) (h : old ∈ segs) :
    segSum (replaceSeg segs old new) + old.size = segSum segs + new.size := by
  induction segs with
  | nil => cases h
  | cons g gs ih =>
    simp only [replaceSeg]
    split
    · rename_i hg; subst hg; simp only [segSum]; omega
    · rename_i hg
      have : old ∈ gs := by
        cases h with
        | head => exact absurd rfl hg
        | tail _ h' => exact h'
      have := ih this
      simp only [segSum]; omega

/-- normalise a hypothesis `(do …) = .ok r` -/
macro "msimp" "at" h:ident : tactic =>
  `(tactic| try simp only [bind_ok, pure_ok, throw_ok, failIf_ok, false_and, and_false, exists_false] at $h:ident)

/-- drop the leading components of a nested `∃ a, x = .ok a ∧ …` until the last conjunct remains -/
macro "mlast" h:ident : tactic => `(tactic| repeat (first
  | (obtain ⟨_, $h:ident⟩ : ∃ _, _ := $h:ident)
  | (obtain ⟨_, $h:ident⟩ : _ ∧ _ := $h:ident)))

theorem init_top_fp {s s' : St} {ptr size : Nat} (h : init_top s ptr size = .ok s') :
    s'.footprint = s.footprint ∧ s'.segs = s.segs ∧ s'.evs = s.evs ∧ s'.osq = s.osq := by
  unfold init_top at h
  dsimp only at h
  msimp at h
  mlast h
  subst h; exact ⟨rfl, rfl, rfl, rfl⟩


/-! ### bytes obtained from / returned to the OS according to the recorded calls -/

def got : List OsEv → Nat
  | [] => 0
  | .mmap len (some _) :: es => len + got es
  | _ :: es => got es

def gave : List OsEv → Nat
  | [] => 0
  | .munmap _ len true :: es => len + gave es
  | .mremap _ old new true :: es => (old - new) + gave es
  | _ :: es => gave es

theorem got_append (a b : List OsEv) : got (a ++ b) = got a + got b := by
  induction a with
  | nil => simp [got]
  | cons e es ih =>
    cases e with
    | mmap len res => cases res <;> simp [got, ih] <;> omega
    | mremap => simp [got, ih]
    | munmap => simp [got, ih]

theorem gave_append (a b : List OsEv) : gave (a ++ b) = gave a + gave b := by
  induction a with
  | nil => simp [gave]
  | cons e es ih =>
    cases e with
    | mmap => simp [gave, ih]
    | mremap _ _ _ ok => cases ok <;> simp [gave, ih] <;> omega
    | munmap _ _ ok => cases ok <;> simp [gave, ih] <;> omega

/-- bookkeeping relation between two states of one run: the footprint moved exactly by what the
segment list gained/lost, and exactly by what the OS calls recorded in between obtained/returned -/
structure Book (s s' : St) : Prop where
  fp : s'.footprint + segSum s.segs = s.footprint + segSum s'.segs
  os : s'.footprint + gave s'.evs + got s.evs = s.footprint + got s'.evs + gave s.evs

theorem Book.refl (s : St) : Book s s := ⟨rfl, by omega⟩

theorem Book.trans {a b c : St} (h1 : Book a b) (h2 : Book b c) : Book a c := by
  obtain ⟨f1, o1⟩ := h1
  obtain ⟨f2, o2⟩ := h2
  exact ⟨by omega, by omega⟩

theorem Book.of_same {s s' : St} (h1 : s'.footprint = s.footprint) (h2 : s'.segs = s.segs)
    (h3 : s'.evs = s.evs) : Book s s' := by
  constructor
  · rw [h1, h2]
  · rw [h1, h3]; omega

theorem popM_spec {s s' : St} {len : Nat} {res : Option Nat} (h : popM s len = .ok (res, s')) :
    ∃ q, s.osq = .m res :: q ∧ s' = { s with osq := q, evs := s.evs ++ [.mmap len res] } := by
  unfold popM at h
  split at h
  · rename_i r q hq
    msimp at h
    simp only [Prod.mk.injEq] at h
    obtain ⟨h1, h2⟩ := h
    subst h1; exact ⟨q, hq, h2.symm⟩
  · msimp at h

theorem popR_spec {s s' : St} {a o n : Nat} {ok : Bool} (h : popR s a o n = .ok (ok, s')) :
    ∃ q, s.osq = .r ok :: q ∧ s' = { s with osq := q, evs := s.evs ++ [.mremap a o n ok] } := by
  unfold popR at h
  split at h
  · rename_i r q hq
    msimp at h
    simp only [Prod.mk.injEq] at h
    obtain ⟨h1, h2⟩ := h
    subst h1; exact ⟨q, hq, h2.symm⟩
  · msimp at h

theorem popU_spec {s s' : St} {a l : Nat} {ok : Bool} (h : popU s a l = .ok (ok, s')) :
    ∃ q, s.osq = .u ok :: q ∧ s' = { s with osq := q, evs := s.evs ++ [.munmap a l ok] } := by
  unfold popU at h
  split at h
  · rename_i r q hq
    msimp at h
    simp only [Prod.mk.injEq] at h
    obtain ⟨h1, h2⟩ := h
    subst h1; exact ⟨q, hq, h2.symm⟩
  · msimp at h

/-- `prepend_alloc` only works on the heap part -/
theorem prepend_alloc_spec {s s' : St} {nb ob size mem : Nat}
    (h : prepend_alloc s nb ob size = .ok (s', mem)) : ∃ h', s' = { s with h := h' } := by
  unfold prepend_alloc at h
  dsimp only at h
  msimp at h
  mlast h
  simp only [Prod.mk.injEq] at h
  exact ⟨_, h.1.symm⟩

theorem add_segment_spec {s s' : St} {tbase tsize : Nat} (h : add_segment s tbase tsize = .ok s') :
    s'.footprint = s.footprint ∧ s'.evs = s.evs ∧ s'.osq = s.osq ∧ segSum s'.segs = segSum s.segs + tsize := by
  unfold add_segment at h
  dsimp only at h
  split at h
  · msimp at h
  · msimp at h
    obtain ⟨_, _, _, _, s1, hs1, h⟩ := h
    have h1 := init_top_fp hs1
    mlast h
    subst h
    refine ⟨h1.1, h1.2.2.1, h1.2.2.2, ?_⟩
    simp only [h1.2.1]
    cases s.segs with
    | nil => simp [segSum]
    | cons g gs => simp [segSum]; omega

theorem tag_fields (s : St) (t : String) :
    (s.tag t).footprint = s.footprint ∧ (s.tag t).segs = s.segs ∧ (s.tag t).evs = s.evs ∧ (s.tag t).osq = s.osq :=
  ⟨rfl, rfl, rfl, rfl⟩

theorem find?_mem {α : Type} {p : α → Bool} {l : List α} {a : α} (h : l.find? p = some a) : a ∈ l := by
  induction l with
  | nil => simp at h
  | cons x xs ih =>
    simp only [List.find?] at h
    split at h
    · injection h with h; subst h; exact List.mem_cons_self
    · exact List.mem_cons_of_mem _ (ih h)

/-- every branch of `sys_alloc_place` adds exactly the new mapping to the segment list -/
theorem sys_alloc_place_spec {s : St} {tbase tsize nb : Nat} {r : Sum St (St × Nat)}
    (h : sys_alloc_place s tbase tsize nb = .ok r) :
    ∃ s', (r = .inl s' ∨ ∃ m, r = .inr (s', m)) ∧
      s'.footprint = s.footprint ∧ s'.evs = s.evs ∧ s'.osq = s.osq ∧ segSum s'.segs = segSum s.segs + tsize := by
  unfold sys_alloc_place at h
  dsimp only at h
  split at h
  · msimp at h
    obtain ⟨_, he, _, _, s1, hs1, h⟩ := h
    have h1 := init_top_fp hs1
    subst h
    refine ⟨_, Or.inl rfl, ?_⟩
    simp only [tag_fields, h1.1, h1.2.1, h1.2.2.1, h1.2.2.2]
    have : s.segs = [] := by
      cases hs : s.segs with
      | nil => rfl
      | cons g gs => rw [hs] at he; simp at he
    simp [segSum, this]
  · split at h
    · rename_i sp hext
      msimp at h
      obtain ⟨s1, hs1, h⟩ := h
      have h1 := init_top_fp hs1
      subst h
      refine ⟨_, Or.inl rfl, ?_⟩
      simp only [tag_fields, h1.1, h1.2.1, h1.2.2.1, h1.2.2.2]
      refine ⟨trivial, trivial, trivial, ?_⟩
      have hmem : sp ∈ s.segs := by
        split at hext
        · rename_i sp' hf
          split at hext
          · injection hext with hext; subst hext; exact find?_mem hf
          · cases hext
        · cases hext
      have := segSum_replace s.segs sp { sp with size := sp.size + tsize } hmem
      simp only at this
      omega
    · split at h
      · rename_i sq hf
        msimp at h
        obtain ⟨⟨s1, m⟩, hp, h⟩ := h
        obtain ⟨h', hh⟩ := prepend_alloc_spec hp
        subst h
        refine ⟨s1, Or.inr ⟨m, rfl⟩, ?_⟩
        subst hh
        refine ⟨rfl, rfl, rfl, ?_⟩
        have := segSum_replace s.segs sq { sq with base := tbase, size := sq.size + tsize } (find?_mem hf)
        simp only at this
        show segSum (replaceSeg s.segs sq _) = _
        omega
      · msimp at h
        obtain ⟨s1, ha, h⟩ := h
        have h1 := add_segment_spec ha
        subst h
        refine ⟨_, Or.inl rfl, ?_⟩
        simp only [tag_fields]
        exact ⟨h1.1, h1.2.1, h1.2.2.1, h1.2.2.2⟩

theorem sys_alloc_book {s s' : St} {nb mem : Nat} (h : sys_alloc s nb = .ok (s', mem)) : Book s s' := by
  unfold sys_alloc at h
  dsimp only at h
  msimp at h
  obtain ⟨⟨res, s1⟩, hp, h⟩ := h
  obtain ⟨q, hq, hs1⟩ := popM_spec hp
  dsimp only at h
  split at h
  · msimp at h
    simp only [Prod.mk.injEq] at h
    obtain ⟨h, _⟩ := h
    subst h; subst hs1
    constructor
    · rfl
    · simp [got_append, gave_append, got, gave]; omega
  · rename_i tbase
    msimp at h
    obtain ⟨r, hr, h⟩ := h
    obtain ⟨s2, hor, hf, he, ho, hsum⟩ := sys_alloc_place_spec hr
    have key : Book s s2 := by
      subst hs1
      constructor
      · simp only at hf hsum ⊢
        rw [hf, hsum]; omega
      · simp only at hf he ⊢
        rw [hf, he]
        simp [got_append, gave_append, got, gave]; omega
    rcases hor with hor | ⟨m, hor⟩
    · subst hor
      dsimp only at h
      split at h
      · msimp at h
        mlast h
        simp only [Prod.mk.injEq] at h
        obtain ⟨h, _⟩ := h
        subst h
        exact key.trans (Book.of_same rfl rfl rfl)
      · msimp at h
        simp only [Prod.mk.injEq] at h
        obtain ⟨h, _⟩ := h
        subst h
        exact key.trans (Book.of_same rfl rfl rfl)
    · subst hor
      dsimp only at h
      msimp at h
      simp only [Prod.mk.injEq] at h
      obtain ⟨h, _⟩ := h
      subst h
      exact key

theorem releaseLoop_spec (rest : List Seg) : ∀ {s s' : St} {rel n rel' n' : Nat} {rest' : List Seg},
    releaseLoop rest s rel n = .ok (rest', s', rel', n') →
    s'.segs = s.segs ∧ s'.footprint + segSum rest = s.footprint + segSum rest' ∧
    s'.footprint + gave s'.evs + got s.evs = s.footprint + got s'.evs + gave s.evs := by
  induction rest with
  | nil =>
    intro s s' rel n rel' n' rest' h
    unfold releaseLoop at h
    msimp at h
    simp only [Prod.mk.injEq] at h
    obtain ⟨h1, h2, _, _⟩ := h
    subst h1; subst h2
    exact ⟨rfl, rfl, by omega⟩
  | cons g rest ih =>
    intro s s' rel n rel' n' rest' h
    unfold releaseLoop at h
    dsimp only at h
    msimp at h
    obtain ⟨e, he, _, _, h⟩ := h
    split at h
    · msimp at h
      obtain ⟨_, _, h1, hh1, ⟨ok, s1⟩, hu, h⟩ := h
      obtain ⟨q, hq, hs1⟩ := popU_spec hu
      dsimp only at h
      split at h
      · rename_i hok
        msimp at h
        obtain ⟨_, hlt, ⟨r1, s2, rl, nn⟩, hrec, h⟩ := h
        have := ih hrec
        simp only [Prod.mk.injEq] at h
        obtain ⟨e1, e2, _, _⟩ := h
        subst e1; subst e2; subst hs1
        simp only [decide_eq_false_iff_not, Nat.not_lt] at hlt
        simp only at this hlt ⊢
        obtain ⟨t1, t2, t3⟩ := this
        refine ⟨t1, ?_, ?_⟩
        · simp only [segSum]; omega
        · subst hok
          simp only [got_append, gave_append, got, gave] at t3 ⊢
          omega
      · rename_i hok
        msimp at h
        obtain ⟨h2, _, ⟨r1, s2, rl, nn⟩, hrec, h⟩ := h
        have := ih hrec
        simp only [Prod.mk.injEq] at h
        obtain ⟨e1, e2, _, _⟩ := h
        subst e1; subst e2; subst hs1
        simp only at this ⊢
        obtain ⟨t1, t2, t3⟩ := this
        refine ⟨t1, ?_, ?_⟩
        · simp only [segSum]; omega
        · simp only [Bool.not_eq_true] at hok
          subst hok
          simp only [got_append, gave_append, got, gave] at t3 ⊢
          omega
    · msimp at h
      obtain ⟨⟨r1, s2, rl, nn⟩, hrec, h⟩ := h
      have := ih hrec
      simp only [Prod.mk.injEq] at h
      obtain ⟨e1, e2, _, _⟩ := h
      subst e1; subst e2
      obtain ⟨t1, t2, t3⟩ := this
      refine ⟨t1, ?_, t3⟩
      simp only [segSum]; omega

theorem release_unused_segments_book {s s' : St} {r : Nat} (h : release_unused_segments s = .ok (s', r)) :
    Book s s' := by
  unfold release_unused_segments at h
  split at h
  · msimp at h
    simp only [Prod.mk.injEq] at h
    obtain ⟨h, _⟩ := h; subst h
    exact Book.of_same rfl rfl rfl
  · rename_i hd rest hsegs
    msimp at h
    obtain ⟨⟨r1, s2, rl, nn⟩, hrec, h⟩ := h
    obtain ⟨t1, t2, t3⟩ := releaseLoop_spec rest hrec
    simp only [Prod.mk.injEq] at h
    obtain ⟨h, _⟩ := h; subst h
    constructor
    · simp only [hsegs, segSum]; omega
    · exact t3

/-- what `trim_release` did: nothing but OS calls; the bytes it reports released are exactly what
those calls returned to the OS -/
theorem trim_release_spec {s s' : St} {sp : Seg} {extra rel : Nat} (h : trim_release s sp extra = .ok (s', rel)) :
    s'.h = s.h ∧ s'.segs = s.segs ∧ s'.footprint = s.footprint ∧
    gave s'.evs = gave s.evs + rel ∧ got s'.evs = got s.evs ∧ (rel ≠ 0 → rel ≤ sp.size) := by
  unfold trim_release at h
  dsimp only at h
  split at h
  · rename_i hc
    simp only [Bool.and_eq_true, decide_eq_true_eq] at hc
    msimp at h
    obtain ⟨⟨ok, s1⟩, hr, h⟩ := h
    obtain ⟨q, hq, hs1⟩ := popR_spec hr
    dsimp only at h
    split at h
    · rename_i hok
      msimp at h
      simp only [Prod.mk.injEq] at h
      obtain ⟨e1, e2⟩ := h
      subst e1; subst e2; subst hs1; subst hok
      refine ⟨rfl, rfl, rfl, ?_, ?_, fun _ => hc.1⟩
      · simp only [gave_append, gave]; omega
      · simp only [got_append, got]; omega
    · rename_i hok
      simp only [Bool.not_eq_true] at hok
      msimp at h
      obtain ⟨⟨ok2, s2⟩, hu, h⟩ := h
      obtain ⟨q2, hq2, hs2⟩ := popU_spec hu
      simp only [Prod.mk.injEq] at h
      obtain ⟨e1, e2⟩ := h
      subst e1; subst e2; subst hs2; subst hs1; subst hok
      cases ok2
      · refine ⟨rfl, rfl, rfl, ?_, ?_, fun hh => absurd rfl hh⟩
        · simp [gave_append, gave]
        · simp [got_append, got]
      · refine ⟨rfl, rfl, rfl, ?_, ?_, fun _ => hc.1⟩
        · simp only [gave_append, gave, if_true]; omega
        · simp [got_append, got]
  · msimp at h
    simp only [Prod.mk.injEq] at h
    obtain ⟨e1, e2⟩ := h
    subst e1; subst e2
    exact ⟨rfl, rfl, rfl, by omega, rfl, fun hh => absurd rfl hh⟩

theorem trim_top_book {s s' : St} {pad rel : Nat} (h : trim_top s pad = .ok (s', rel)) : Book s s' := by
  unfold trim_top at h
  dsimp only at h
  split at h
  · split at h
    · msimp at h
    · rename_i sp hsp
      msimp at h
      obtain ⟨⟨s1, r1⟩, ht, h⟩ := h
      obtain ⟨t1, t2, t3, t4, t5, t6⟩ := trim_release_spec ht
      have hmem : sp ∈ s.segs := find?_mem hsp
      dsimp only at h
      split at h
      · rename_i hne
        msimp at h
        obtain ⟨_, hlt, s2, hi, h⟩ := h
        have i1 := init_top_fp hi
        simp only [Prod.mk.injEq] at h
        obtain ⟨h, _⟩ := h; subst h
        simp only [decide_eq_false_iff_not, Nat.not_lt] at hlt
        have := segSum_replace s1.segs sp { sp with size := sp.size - r1 } (t2 ▸ hmem)
        have hle := t6 hne
        simp only at this
        have f2 : s2.footprint = s1.footprint - r1 := i1.1
        have g2 : s2.segs = replaceSeg s1.segs sp { sp with size := sp.size - r1 } := i1.2.1
        have e2 : s2.evs = s1.evs := i1.2.2.1
        constructor
        · simp only [tag_fields, f2, g2]; rw [t2] at this ⊢; omega
        · simp only [tag_fields, f2, e2]; omega
      · msimp at h
        simp only [Prod.mk.injEq] at h
        obtain ⟨h, h2⟩ := h; subst h
        rename_i hz
        simp only [ne_eq, Decidable.not_not] at hz
        constructor
        · simp only [tag_fields, t2, t3]
        · simp only [tag_fields, t3]; omega
  · msimp at h
    simp only [Prod.mk.injEq] at h
    obtain ⟨h, _⟩ := h; subst h; exact Book.refl _

theorem sys_trim_book {s s' : St} {pad : Nat} {b : Bool} (h : sys_trim s pad = .ok (s', b)) : Book s s' := by
  unfold sys_trim at h
  dsimp only at h
  split at h
  · msimp at h
    obtain ⟨⟨s1, rel⟩, h1, ⟨s2, r2⟩, h2, h⟩ := h
    have b1 := trim_top_book h1
    have b2 := release_unused_segments_book h2
    simp only [Prod.mk.injEq] at h
    obtain ⟨h, _⟩ := h
    subst h
    refine (b1.trans b2).trans ?_
    split
    · exact Book.of_same rfl rfl rfl
    · exact Book.refl _
  · msimp at h
    simp only [Prod.mk.injEq] at h
    obtain ⟨h, _⟩ := h; subst h; exact Book.refl _

theorem free_book {s s' : St} {mem : Nat} (h : free s mem = .ok s') : Book s s' := by
  unfold free at h
  msimp at h
  obtain ⟨⟨h1, t⟩, hf, h⟩ := h
  dsimp only at h
  split at h
  · msimp at h; subst h; exact Book.of_same rfl rfl rfl
  · split at h
    · msimp at h
      obtain ⟨⟨s1, b⟩, ht, h⟩ := h
      subst h
      exact (Book.of_same rfl rfl rfl : Book s { s with h := h1 }).trans (sys_trim_book ht)
    · msimp at h; subst h; exact Book.of_same rfl rfl rfl
  · msimp at h
    obtain ⟨_, _, h⟩ := h
    split at h
    · msimp at h
      obtain ⟨⟨s1, b⟩, ht, h⟩ := h
      subst h
      exact (Book.of_same rfl rfl rfl : Book s (St.tag { s with h := h1, release_checks := s.release_checks - 1 } "release-check")).trans
        (release_unused_segments_book ht)
    · msimp at h; subst h; exact Book.of_same rfl rfl rfl

theorem inner_malloc_book {s s' : St} {size mem : Nat} (h : inner_malloc s size = .ok (s', mem)) : Book s s' := by
  unfold inner_malloc at h
  msimp at h
  obtain ⟨r, hr, h⟩ := h
  split at h
  · msimp at h
    simp only [Prod.mk.injEq] at h
    obtain ⟨h, _⟩ := h; subst h; exact Book.of_same rfl rfl rfl
  · msimp at h
    simp only [Prod.mk.injEq] at h
    obtain ⟨h, _⟩ := h; subst h; exact Book.refl _
  · exact sys_alloc_book h

theorem memalign_book {s s' : St} {al bytes mem : Nat} (h : memalign s al bytes = .ok (s', mem)) : Book s s' := by
  unfold memalign at h
  generalize (if al < MIN_CHUNK_SIZE then MIN_CHUNK_SIZE else al) = al at h
  unfold memalign_body at h
  dsimp only at h
  msimp at h
  obtain ⟨_, _, h⟩ := h
  split at h
  · msimp at h
    simp only [Prod.mk.injEq] at h
    obtain ⟨h, _⟩ := h; subst h; exact Book.refl _
  · msimp at h
    obtain ⟨⟨s1, m1⟩, hm, h⟩ := h
    have b1 := inner_malloc_book hm
    have b0 : Book s s1 := (Book.of_same rfl rfl rfl : Book s (s.tag "memalign")).trans b1
    dsimp only at h
    split at h
    · msimp at h
      simp only [Prod.mk.injEq] at h
      obtain ⟨h, _⟩ := h; subst h; exact b0
    · msimp at h
      obtain ⟨⟨h2, m2⟩, _, h⟩ := h
      simp only [Prod.mk.injEq] at h
      obtain ⟨h, _⟩ := h; subst h
      exact b0.trans (Book.of_same rfl rfl rfl)

theorem malloc_book {s s' : St} {size al mem : Nat} (h : malloc s size al = .ok (s', mem)) : Book s s' := by
  unfold malloc at h
  split at h
  · exact inner_malloc_book h
  · exact memalign_book h

theorem calloc_book {s s' : St} {size al mem : Nat} {z : Bool} (h : calloc s size al = .ok (s', mem, z)) :
    Book s s' := by
  unfold calloc at h
  msimp at h
  obtain ⟨⟨s1, p⟩, hm, h⟩ := h
  have b := malloc_book hm
  dsimp only at h
  split at h
  · msimp at h
    mlast h
    simp only [Prod.mk.injEq] at h
    obtain ⟨h, _⟩ := h; subst h; exact b
  · msimp at h
    simp only [Prod.mk.injEq] at h
    obtain ⟨h, _⟩ := h; subst h; exact b

theorem inner_realloc_book {s s' : St} {oldmem bytes mem : Nat} {c : Option Copy}
    (h : inner_realloc s oldmem bytes = .ok (s', mem, c)) : Book s s' := by
  unfold inner_realloc at h
  split at h
  · msimp at h
    simp only [Prod.mk.injEq] at h
    obtain ⟨h, _⟩ := h; subst h; exact Book.refl _
  · dsimp only at h
    msimp at h
    obtain ⟨_, _, r, hr, h⟩ := h
    split at h
    · msimp at h
      simp only [Prod.mk.injEq] at h
      obtain ⟨h, _⟩ := h; subst h; exact Book.of_same rfl rfl rfl
    · msimp at h
      obtain ⟨⟨s1, p⟩, hm, h⟩ := h
      have b1 : Book s s1 := (Book.of_same rfl rfl rfl : Book s (s.tag "realloc-move")).trans (inner_malloc_book hm)
      dsimp only at h
      split at h
      · msimp at h
        obtain ⟨e, _, _, _, _, _, s2, hf, h⟩ := h
        simp only [Prod.mk.injEq] at h
        obtain ⟨h, _⟩ := h; subst h
        exact b1.trans (free_book hf)
      · msimp at h
        simp only [Prod.mk.injEq] at h
        obtain ⟨h, _⟩ := h; subst h; exact b1

theorem realloc_book {s s' : St} {ptr os oa ns mem : Nat} {c : Option Copy}
    (h : realloc s ptr os oa ns = .ok (s', mem, c)) : Book s s' := by
  unfold realloc at h
  split at h
  · exact inner_realloc_book h
  · msimp at h
    obtain ⟨⟨s1, p⟩, hm, h⟩ := h
    have b1 : Book s s1 := (Book.of_same rfl rfl rfl : Book s (s.tag "realloc-overaligned")).trans (malloc_book hm)
    dsimp only at h
    split at h
    · msimp at h
      obtain ⟨s2, hf, h⟩ := h
      simp only [Prod.mk.injEq] at h
      obtain ⟨h, _⟩ := h; subst h
      exact b1.trans (free_book hf)
    · msimp at h
      simp only [Prod.mk.injEq] at h
      obtain ⟨h, _⟩ := h; subst h; exact b1

/-- the state an operation starts from: the previous state with the op's OS answers installed -/
def Hist.start (hs : Hist) (os : List OsDir) : St :=
  { hs.st with osq := os, evs := [], h := { hs.st.h with tr := [] } }

theorem step_book {hs hs' : Hist} {op : Op} {os : List OsDir} {out : Out}
    (h : hs.step op os = .ok (hs', out)) : Book (hs.start os) hs'.st := by
  unfold Hist.step at h
  dsimp only at h
  split at h
  · msimp at h
    obtain ⟨_, _, ⟨s1, p⟩, hm, _, _, h⟩ := h
    simp only [Prod.mk.injEq] at h
    obtain ⟨h, _⟩ := h; subst h
    exact malloc_book hm
  · msimp at h
    obtain ⟨_, _, ⟨s1, p, z⟩, hm, _, _, h⟩ := h
    simp only [Prod.mk.injEq] at h
    obtain ⟨h, _⟩ := h; subst h
    exact calloc_book hm
  · split at h
    · msimp at h
    · msimp at h
      obtain ⟨⟨s1, p, c⟩, hm, _, _, h⟩ := h
      simp only [Prod.mk.injEq] at h
      obtain ⟨h, _⟩ := h; subst h
      exact realloc_book hm
  · split at h
    · msimp at h
    · msimp at h
      obtain ⟨s1, hm, _, _, h⟩ := h
      simp only [Prod.mk.injEq] at h
      obtain ⟨h, _⟩ := h; subst h
      exact free_book hm

/-- footprint = sum of the segment sizes -/
def FpInv (s : St) : Prop := s.footprint = segSum s.segs

theorem step_fp {hs hs' : Hist} {op : Op} {os : List OsDir} {out : Out}
    (h : hs.step op os = .ok (hs', out)) (hi : FpInv hs.st) : FpInv hs'.st := by
  have b := (step_book h).fp
  unfold FpInv at *
  simp only [Hist.start] at b
  omega

theorem step_os {hs hs' : Hist} {op : Op} {os : List OsDir} {out : Out}
    (h : hs.step op os = .ok (hs', out)) :
    hs'.st.footprint + gave hs'.st.evs = hs.st.footprint + got hs'.st.evs := by
  have b := (step_book h).os
  simp only [Hist.start, got, gave] at b
  omega

theorem run_fp (ops : List (Op × List OsDir)) : ∀ {hs hs' : Hist} {evs : List OsEv},
    hs.run ops = .ok (hs', evs) → FpInv hs.st →
    FpInv hs'.st ∧ hs'.st.footprint + gave evs = hs.st.footprint + got evs := by
  induction ops with
  | nil =>
    intro hs hs' evs h hi
    unfold Hist.run at h
    msimp at h
    simp only [Prod.mk.injEq] at h
    obtain ⟨h1, h2⟩ := h; subst h1; subst h2
    exact ⟨hi, by simp [got, gave]⟩
  | cons x rest ih =>
    intro hs hs' evs h hi
    obtain ⟨op, os⟩ := x
    unfold Hist.run at h
    msimp at h
    obtain ⟨⟨hs1, o1⟩, h1, ⟨hs2, e2⟩, h2, h⟩ := h
    simp only [Prod.mk.injEq] at h
    obtain ⟨e1, e3⟩ := h; subst e1; subst e3
    have i1 := step_fp h1 hi
    have o1' := step_os h1
    obtain ⟨i2, o2⟩ := ih h2 i1
    refine ⟨i2, ?_⟩
    simp only [got_append, gave_append] at o2 ⊢
    omega

/-! ### refusal of memory by the OS -/

/-- some mmap in the list was refused -/
def refused : List OsEv → Bool
  | [] => false
  | .mmap _ none :: _ => true
  | _ :: es => refused es

theorem refused_append (a b : List OsEv) : refused (a ++ b) = (refused a || refused b) := by
  induction a with
  | nil => simp [refused]
  | cons e es ih =>
    cases e with
    | mmap len res => cases res <;> simp [refused, ih]
    | mremap => simp [refused, ih]
    | munmap => simp [refused, ih]

/-- the allocator's own state: everything except the environment queue and the ghost fields -/
def St.core (s : St) : St := { s with osq := [], evs := [], h := { s.h with tr := [] } }

theorem core_tag (s : St) (t : String) : (s.tag t).core = s.core := rfl

theorem releaseLoop_quiet (rest : List Seg) : ∀ {s s' : St} {rel n rel' n' : Nat} {rest' : List Seg},
    releaseLoop rest s rel n = .ok (rest', s', rel', n') → refused s'.evs = refused s.evs := by
  induction rest with
  | nil =>
    intro s s' rel n rel' n' rest' h
    unfold releaseLoop at h
    msimp at h
    simp only [Prod.mk.injEq] at h
    obtain ⟨_, h2, _, _⟩ := h
    subst h2; rfl
  | cons g rest ih =>
    intro s s' rel n rel' n' rest' h
    unfold releaseLoop at h
    dsimp only at h
    msimp at h
    obtain ⟨e, he, _, _, h⟩ := h
    split at h
    · msimp at h
      obtain ⟨_, _, h1, hh1, ⟨ok, s1⟩, hu, h⟩ := h
      obtain ⟨q, hq, hs1⟩ := popU_spec hu
      dsimp only at h
      split at h
      · msimp at h
        obtain ⟨_, hlt, ⟨r1, s2, rl, nn⟩, hrec, h⟩ := h
        have := ih hrec
        simp only [Prod.mk.injEq] at h
        obtain ⟨_, e2, _, _⟩ := h
        subst e2; subst hs1
        simp only [refused_append, refused, Bool.or_false] at this
        exact this
      · msimp at h
        obtain ⟨h2, _, ⟨r1, s2, rl, nn⟩, hrec, h⟩ := h
        have := ih hrec
        simp only [Prod.mk.injEq] at h
        obtain ⟨_, e2, _, _⟩ := h
        subst e2; subst hs1
        simp only [refused_append, refused, Bool.or_false] at this
        exact this
    · msimp at h
      obtain ⟨⟨r1, s2, rl, nn⟩, hrec, h⟩ := h
      have := ih hrec
      simp only [Prod.mk.injEq] at h
      obtain ⟨_, e2, _, _⟩ := h
      subst e2
      exact this

theorem release_quiet {s s' : St} {r : Nat} (h : release_unused_segments s = .ok (s', r)) :
    refused s'.evs = refused s.evs := by
  unfold release_unused_segments at h
  split at h
  · msimp at h
    simp only [Prod.mk.injEq] at h
    obtain ⟨h, _⟩ := h; subst h; rfl
  · msimp at h
    obtain ⟨⟨r1, s2, rl, nn⟩, hrec, h⟩ := h
    have := releaseLoop_quiet _ hrec
    simp only [Prod.mk.injEq] at h
    obtain ⟨h, _⟩ := h; subst h
    exact this

theorem trim_release_quiet {s s' : St} {sp : Seg} {extra rel : Nat} (h : trim_release s sp extra = .ok (s', rel)) :
    refused s'.evs = refused s.evs := by
  unfold trim_release at h
  dsimp only at h
  split at h
  · msimp at h
    obtain ⟨⟨ok, s1⟩, hr, h⟩ := h
    obtain ⟨q, hq, hs1⟩ := popR_spec hr
    dsimp only at h
    split at h
    · msimp at h
      simp only [Prod.mk.injEq] at h
      obtain ⟨e1, _⟩ := h
      subst e1; subst hs1
      simp [refused_append, refused]
    · msimp at h
      obtain ⟨⟨ok2, s2⟩, hu, h⟩ := h
      obtain ⟨q2, hq2, hs2⟩ := popU_spec hu
      simp only [Prod.mk.injEq] at h
      obtain ⟨e1, _⟩ := h
      subst e1; subst hs2; subst hs1
      simp [refused_append, refused]
  · msimp at h
    simp only [Prod.mk.injEq] at h
    obtain ⟨e1, _⟩ := h
    subst e1; rfl

theorem trim_top_quiet {s s' : St} {pad rel : Nat} (h : trim_top s pad = .ok (s', rel)) :
    refused s'.evs = refused s.evs := by
  unfold trim_top at h
  dsimp only at h
  split at h
  · split at h
    · msimp at h
    · msimp at h
      obtain ⟨⟨s1, r1⟩, ht, h⟩ := h
      have q1 := trim_release_quiet ht
      dsimp only at h
      split at h
      · msimp at h
        obtain ⟨_, hlt, s2, hi, h⟩ := h
        have i1 := init_top_fp hi
        simp only [Prod.mk.injEq] at h
        obtain ⟨h, _⟩ := h; subst h
        have e2 : s2.evs = s1.evs := i1.2.2.1
        simp only [tag_fields, e2, q1]
      · msimp at h
        simp only [Prod.mk.injEq] at h
        obtain ⟨h, _⟩ := h; subst h
        simp only [tag_fields, q1]
  · msimp at h
    simp only [Prod.mk.injEq] at h
    obtain ⟨h, _⟩ := h; subst h; rfl

theorem sys_trim_quiet {s s' : St} {pad : Nat} {b : Bool} (h : sys_trim s pad = .ok (s', b)) :
    refused s'.evs = refused s.evs := by
  unfold sys_trim at h
  dsimp only at h
  split at h
  · msimp at h
    obtain ⟨⟨s1, rel⟩, h1, ⟨s2, r2⟩, h2, h⟩ := h
    have b1 := trim_top_quiet h1
    have b2 := release_quiet h2
    simp only [Prod.mk.injEq] at h
    obtain ⟨h, _⟩ := h
    subst h
    split
    · show refused s2.evs = _; rw [b2, b1]
    · rw [b2, b1]
  · msimp at h
    simp only [Prod.mk.injEq] at h
    obtain ⟨h, _⟩ := h; subst h; rfl

theorem free_quiet {s s' : St} {mem : Nat} (h : free s mem = .ok s') : refused s'.evs = refused s.evs := by
  unfold free at h
  msimp at h
  obtain ⟨⟨h1, t⟩, hf, h⟩ := h
  dsimp only at h
  split at h
  · msimp at h; subst h; rfl
  · split at h
    · msimp at h
      obtain ⟨⟨s1, b⟩, ht, h⟩ := h
      subst h
      exact (sys_trim_quiet ht).trans rfl
    · msimp at h; subst h; rfl
  · msimp at h
    obtain ⟨_, _, h⟩ := h
    split at h
    · msimp at h
      obtain ⟨⟨s1, b⟩, ht, h⟩ := h
      subst h
      exact (release_quiet ht).trans rfl
    · msimp at h; subst h; rfl

/-- outcome of an allocating call with respect to refusal: either no mmap was refused during it, or
it returned null and left the allocator exactly as it was -/
def RefusalOk (s s' : St) (mem : Nat) : Prop :=
  refused s'.evs = false ∨ (mem = 0 ∧ s'.core = s.core)

theorem sys_alloc_refusal {s s' : St} {nb mem : Nat} (h0 : refused s.evs = false)
    (h : sys_alloc s nb = .ok (s', mem)) : RefusalOk s s' mem := by
  unfold sys_alloc at h
  dsimp only at h
  msimp at h
  obtain ⟨⟨res, s1⟩, hp, h⟩ := h
  obtain ⟨q, hq, hs1⟩ := popM_spec hp
  dsimp only at h
  split at h
  · msimp at h
    simp only [Prod.mk.injEq] at h
    obtain ⟨h, hm⟩ := h
    subst h; subst hs1
    exact Or.inr ⟨hm.symm, rfl⟩
  · rename_i tbase
    left
    msimp at h
    obtain ⟨r, hr, h⟩ := h
    obtain ⟨s2, hor, hf, he, ho, hsum⟩ := sys_alloc_place_spec hr
    have key : refused s2.evs = false := by
      subst hs1
      simp only at he
      rw [he, refused_append, h0]; rfl
    rcases hor with hor | ⟨m, hor⟩
    · subst hor
      dsimp only at h
      split at h
      · msimp at h
        mlast h
        simp only [Prod.mk.injEq] at h
        obtain ⟨h, _⟩ := h
        subst h
        exact key
      · msimp at h
        simp only [Prod.mk.injEq] at h
        obtain ⟨h, _⟩ := h
        subst h
        exact key
    · subst hor
      dsimp only at h
      msimp at h
      simp only [Prod.mk.injEq] at h
      obtain ⟨h, _⟩ := h
      subst h
      exact key

theorem inner_malloc_refusal {s s' : St} {size mem : Nat} (h0 : refused s.evs = false)
    (h : inner_malloc s size = .ok (s', mem)) : RefusalOk s s' mem := by
  unfold inner_malloc at h
  msimp at h
  obtain ⟨r, hr, h⟩ := h
  split at h
  · msimp at h
    simp only [Prod.mk.injEq] at h
    obtain ⟨h, _⟩ := h; subst h; exact Or.inl h0
  · msimp at h
    simp only [Prod.mk.injEq] at h
    obtain ⟨h, _⟩ := h; subst h; exact Or.inl h0
  · exact sys_alloc_refusal h0 h

theorem memalign_refusal {s s' : St} {al bytes mem : Nat} (h0 : refused s.evs = false)
    (h : memalign s al bytes = .ok (s', mem)) : RefusalOk s s' mem := by
  unfold memalign at h
  generalize (if al < MIN_CHUNK_SIZE then MIN_CHUNK_SIZE else al) = al at h
  unfold memalign_body at h
  dsimp only at h
  msimp at h
  obtain ⟨_, _, h⟩ := h
  split at h
  · msimp at h
    simp only [Prod.mk.injEq] at h
    obtain ⟨h, _⟩ := h; subst h; exact Or.inl h0
  · msimp at h
    obtain ⟨⟨s1, m1⟩, hm, h⟩ := h
    have b1 := inner_malloc_refusal (s := s.tag "memalign") h0 hm
    dsimp only at h
    split at h
    · rename_i hz
      msimp at h
      simp only [Prod.mk.injEq] at h
      obtain ⟨h, hm0⟩ := h; subst h
      rcases b1 with b1 | ⟨_, b1⟩
      · exact Or.inl b1
      · exact Or.inr ⟨hm0.symm, b1⟩
    · rename_i hz
      msimp at h
      obtain ⟨⟨h2, m2⟩, _, h⟩ := h
      simp only [Prod.mk.injEq] at h
      obtain ⟨h, _⟩ := h; subst h
      rcases b1 with b1 | ⟨b1, _⟩
      · exact Or.inl b1
      · exact absurd b1 hz

theorem malloc_refusal {s s' : St} {size al mem : Nat} (h0 : refused s.evs = false)
    (h : malloc s size al = .ok (s', mem)) : RefusalOk s s' mem := by
  unfold malloc at h
  split at h
  · exact inner_malloc_refusal h0 h
  · exact memalign_refusal h0 h

theorem calloc_refusal {s s' : St} {size al mem : Nat} {z : Bool} (h0 : refused s.evs = false)
    (h : calloc s size al = .ok (s', mem, z)) : RefusalOk s s' mem := by
  unfold calloc at h
  msimp at h
  obtain ⟨⟨s1, p⟩, hm, h⟩ := h
  have b := malloc_refusal h0 hm
  dsimp only at h
  split at h
  · rename_i hz
    msimp at h
    mlast h
    simp only [Prod.mk.injEq] at h
    obtain ⟨h, _⟩ := h; subst h
    rcases b with b | ⟨b, _⟩
    · exact Or.inl b
    · exact absurd b hz
  · msimp at h
    simp only [Prod.mk.injEq] at h
    obtain ⟨h, hm0, _⟩ := h; subst h
    rcases b with b | ⟨_, b⟩
    · exact Or.inl b
    · exact Or.inr ⟨hm0.symm, b⟩

theorem inner_realloc_refusal {s s' : St} {oldmem bytes mem : Nat} {c : Option Copy}
    (h0 : refused s.evs = false)
    (h : inner_realloc s oldmem bytes = .ok (s', mem, c)) : RefusalOk s s' mem := by
  unfold inner_realloc at h
  split at h
  · msimp at h
    simp only [Prod.mk.injEq] at h
    obtain ⟨h, _⟩ := h; subst h; exact Or.inl h0
  · dsimp only at h
    msimp at h
    obtain ⟨_, _, r, hr, h⟩ := h
    split at h
    · msimp at h
      simp only [Prod.mk.injEq] at h
      obtain ⟨h, _⟩ := h; subst h; exact Or.inl h0
    · msimp at h
      obtain ⟨⟨s1, p⟩, hm, h⟩ := h
      have b1 := inner_malloc_refusal (s := s.tag "realloc-move") h0 hm
      dsimp only at h
      split at h
      · rename_i hz
        msimp at h
        obtain ⟨e, _, _, _, _, _, s2, hf, h⟩ := h
        simp only [Prod.mk.injEq] at h
        obtain ⟨h, _⟩ := h; subst h
        rcases b1 with b1 | ⟨b1, _⟩
        · left; rw [free_quiet hf]; exact b1
        · exact absurd b1 hz
      · msimp at h
        simp only [Prod.mk.injEq] at h
        obtain ⟨h, hm0, _⟩ := h; subst h
        rcases b1 with b1 | ⟨_, b1⟩
        · exact Or.inl b1
        · exact Or.inr ⟨hm0.symm, b1⟩

theorem realloc_refusal {s s' : St} {ptr os oa ns mem : Nat} {c : Option Copy}
    (h0 : refused s.evs = false)
    (h : realloc s ptr os oa ns = .ok (s', mem, c)) : RefusalOk s s' mem := by
  unfold realloc at h
  split at h
  · exact inner_realloc_refusal h0 h
  · msimp at h
    obtain ⟨⟨s1, p⟩, hm, h⟩ := h
    have b1 := malloc_refusal (s := s.tag "realloc-overaligned") h0 hm
    dsimp only at h
    split at h
    · rename_i hz
      msimp at h
      obtain ⟨s2, hf, h⟩ := h
      simp only [Prod.mk.injEq] at h
      obtain ⟨h, _⟩ := h; subst h
      rcases b1 with b1 | ⟨b1, _⟩
      · left; rw [free_quiet hf]; exact b1
      · exact absurd b1 hz
    · msimp at h
      simp only [Prod.mk.injEq] at h
      obtain ⟨h, hm0, _⟩ := h; subst h
      rcases b1 with b1 | ⟨_, b1⟩
      · exact Or.inl b1
      · exact Or.inr ⟨hm0.symm, b1⟩

theorem step_refusal {hs hs' : Hist} {op : Op} {os : List OsDir} {out : Out}
    (h : hs.step op os = .ok (hs', out)) (hr : refused hs'.st.evs = true) :
    out.ptr = 0 ∧ hs'.st.core = hs.st.core ∧ hs'.live = hs.live := by
  have h0 : refused (hs.start os).evs = false := rfl
  unfold Hist.step at h
  dsimp only at h
  split at h
  · msimp at h
    obtain ⟨_, _, ⟨s1, p⟩, hm, _, _, h⟩ := h
    simp only [Prod.mk.injEq] at h
    obtain ⟨h, ho⟩ := h; subst h; subst ho
    rcases malloc_refusal h0 hm with b | ⟨b1, b2⟩
    · simp only at hr; rw [b] at hr; cases hr
    · subst b1; exact ⟨rfl, b2, by simp⟩
  · msimp at h
    obtain ⟨_, _, ⟨s1, p, z⟩, hm, _, _, h⟩ := h
    simp only [Prod.mk.injEq] at h
    obtain ⟨h, ho⟩ := h; subst h; subst ho
    rcases calloc_refusal h0 hm with b | ⟨b1, b2⟩
    · simp only at hr; rw [b] at hr; cases hr
    · subst b1; exact ⟨rfl, b2, by simp⟩
  · split at h
    · msimp at h
    · msimp at h
      obtain ⟨⟨s1, p, c⟩, hm, _, _, h⟩ := h
      simp only [Prod.mk.injEq] at h
      obtain ⟨h, ho⟩ := h; subst h; subst ho
      rcases realloc_refusal h0 hm with b | ⟨b1, b2⟩
      · simp only at hr; rw [b] at hr; cases hr
      · subst b1; exact ⟨rfl, b2, by simp⟩
  · split at h
    · msimp at h
    · msimp at h
      obtain ⟨s1, hm, _, _, h⟩ := h
      simp only [Prod.mk.injEq] at h
      obtain ⟨h, ho⟩ := h; subst h; subst ho
      have := free_quiet hm
      simp only at hr
      rw [this] at hr
      cases hr

/-! ### reuse: the OS is asked only when neither `dv` nor `top` can hold the padded request -/

/-- the padded request size `inner_malloc` computes -/
def nbOf (size : Nat) : Nat := if size ≤ MAX_SMALL_REQUEST then request2size size else pad_request size

theorem malloc_dv_top_needSys {h : Heap} {nb n : Nat} (hh : malloc_dv_top h nb = .ok (.needSys n)) :
    n = nb ∧ h.dvsize < n ∧ h.topsize ≤ n := by
  unfold malloc_dv_top at hh
  dsimp only at hh
  split at hh
  · split at hh
    · msimp at hh; mlast hh; cases hh
    · msimp at hh; mlast hh; cases hh
  · split at hh
    · msimp at hh; mlast hh; cases hh
    · msimp at hh
      injection hh with hh
      subst hh
      exact ⟨rfl, by omega, by omega⟩

theorem malloc_nosys_needSys {h : Heap} {size n : Nat} (hh : malloc_nosys h size = .ok (.needSys n)) :
    n = nbOf size ∧ h.dvsize < n ∧ h.topsize ≤ n := by
  unfold malloc_nosys at hh
  dsimp only at hh
  split at hh
  · rename_i hs
    have hn : nbOf size = request2size size := by simp [nbOf, hs]
    split at hh
    · msimp at hh; mlast hh; cases hh
    · split at hh
      · split at hh
        · msimp at hh
          obtain ⟨_, _, _, _, hh⟩ := hh
          split at hh
          · msimp at hh; mlast hh; cases hh
          · msimp at hh; mlast hh; cases hh
        · split at hh
          · msimp at hh; mlast hh; cases hh
          · rw [hn]; exact malloc_dv_top_needSys hh
      · rw [hn]; exact malloc_dv_top_needSys hh
  · rename_i hs
    have hn : nbOf size = pad_request size := by simp [nbOf, hs]
    split at hh
    · msimp at hh; cases hh
    · split at hh
      · msimp at hh
        obtain ⟨r, _, hh⟩ := hh
        split at hh
        · msimp at hh; cases hh
        · rw [hn]; exact malloc_dv_top_needSys hh
      · rw [hn]; exact malloc_dv_top_needSys hh

/-- if `dv` or `top` can hold the padded request, `inner_malloc` makes no OS call at all -/
theorem inner_malloc_reuse {s s' : St} {size mem : Nat} (h : inner_malloc s size = .ok (s', mem))
    (hfit : nbOf size ≤ s.h.dvsize ∨ nbOf size < s.h.topsize) : s'.evs = s.evs ∧ s'.osq = s.osq := by
  unfold inner_malloc at h
  msimp at h
  obtain ⟨r, hr, h⟩ := h
  split at h
  · msimp at h
    simp only [Prod.mk.injEq] at h
    obtain ⟨h, _⟩ := h; subst h; exact ⟨rfl, rfl⟩
  · msimp at h
    simp only [Prod.mk.injEq] at h
    obtain ⟨h, _⟩ := h; subst h; exact ⟨rfl, rfl⟩
  · have := malloc_nosys_needSys hr
    omega

end TinyVerif.Dl
