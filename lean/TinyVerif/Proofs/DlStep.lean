import TinyVerif.Model.Dlmalloc
import TinyVerif.Proofs.DlPure
/-! Step-level lemmas about `Model/Dlmalloc.lean`: bookkeeping of footprint vs. segment list, OS
calls, behaviour under refusal. -/
namespace TinyVerif.Dl

/-! ### Except plumbing -/

theorem bind_ok {α β : Type} {x : M α} {f : α → M β} {b : β} :
    (x >>= f) = .ok b ↔ ∃ a, x = .ok a ∧ f a = .ok b := by
  cases x with
  | error e => simp [bind, Except.bind]
  | ok a => simp [bind, Except.bind]

theorem pure_ok {α : Type} {a b : α} : (pure a : M α) = .ok b ↔ a = b := by
  simp [pure, Except.pure]

theorem throw_ok {α : Type} {e : String} {b : α} : (throw e : M α) = .ok b ↔ False := by
  simp [throw, throwThe, MonadExceptOf.throw]

theorem failIf_ok {c : Bool} {msg : String} {u : Unit} : failIf c msg = .ok u ↔ c = false := by
  unfold failIf; cases c <;> simp [pure, Except.pure, throw, throwThe, MonadExceptOf.throw]

/-- sum of the segment sizes -/
def segSum : List Seg → Nat
  | [] => 0
  | g :: gs => g.size + segSum gs

/-- bookkeeping relation: footprint and the segment sizes moved by the same amount -/
def FpRel (s s' : St) : Prop := s'.footprint + segSum s.segs = s.footprint + segSum s'.segs

theorem FpRel.refl (s : St) : FpRel s s := rfl
theorem FpRel.trans {a b c : St} (h1 : FpRel a b) (h2 : FpRel b c) : FpRel a c := by
  unfold FpRel at *; omega

theorem FpRel.of_eq {s s' : St} (h1 : s'.footprint = s.footprint) (h2 : s'.segs = s.segs) : FpRel s s' := by
  unfold FpRel; rw [h1, h2]

theorem segSum_replace (segs : List Seg) (old new : Seg) (h : old ∈ segs) :
    segSum (replaceSeg segs old new) + old.size = segSum segs + new.size := by
  induction segs with
  | nil => cases h
  | cons g gs ih =>
    simp only [replaceSeg]
    split
    · rename_i hg; subst hg; simp only [segSum]; omega
    · rename_i hg
      have : old ∈ gs := by
        cases h with
        | head => exact absurd rfl hg
        | tail _ h' => exact h'
      have := ih this
      simp only [segSum]; omega

/-- normalise a hypothesis `(do …) = .ok r` -/
macro "msimp" "at" h:ident : tactic =>
  `(tactic| simp only [bind_ok, pure_ok, throw_ok, failIf_ok, false_and, and_false, exists_false] at $h:ident)

/-- drop the leading components of a nested `∃ a, x = .ok a ∧ …` until the last conjunct remains -/
macro "mlast" h:ident : tactic => `(tactic| repeat (first
  | (obtain ⟨_, $h:ident⟩ : ∃ _, _ := $h:ident)
  | (obtain ⟨_, $h:ident⟩ : _ ∧ _ := $h:ident)))

theorem init_top_fp {s s' : St} {ptr size : Nat} (h : init_top s ptr size = .ok s') :
    s'.footprint = s.footprint ∧ s'.segs = s.segs ∧ s'.evs = s.evs ∧ s'.osq = s.osq := by
  unfold init_top at h
  dsimp only at h
  msimp at h
  mlast h
  subst h; exact ⟨rfl, rfl, rfl, rfl⟩


/-! ### bytes obtained from / returned to the OS according to the recorded calls -/

def got : List OsEv → Nat
  | [] => 0
  | .mmap len (some _) :: es => len + got es
  | _ :: es => got es

def gave : List OsEv → Nat
  | [] => 0
  | .munmap _ len true :: es => len + gave es
  | .mremap _ old new true :: es => (old - new) + gave es
  | _ :: es => gave es

theorem got_append (a b : List OsEv) : got (a ++ b) = got a + got b := by
  induction a with
  | nil => simp [got]
  | cons e es ih =>
    cases e with
    | mmap len res => cases res <;> simp [got, ih] <;> omega
    | mremap => simp [got, ih]
    | munmap => simp [got, ih]

theorem gave_append (a b : List OsEv) : gave (a ++ b) = gave a + gave b := by
  induction a with
  | nil => simp [gave]
  | cons e es ih =>
    cases e with
    | mmap => simp [gave, ih]
    | mremap _ _ _ ok => cases ok <;> simp [gave, ih] <;> omega
    | munmap _ _ ok => cases ok <;> simp [gave, ih] <;> omega

/-- bookkeeping relation between two states of one run: the footprint moved exactly by what the
segment list gained/lost, and exactly by what the OS calls recorded in between obtained/returned -/
structure Book (s s' : St) : Prop where
  fp : s'.footprint + segSum s.segs = s.footprint + segSum s'.segs
  os : s'.footprint + gave s'.evs + got s.evs = s.footprint + got s'.evs + gave s.evs

theorem Book.refl (s : St) : Book s s := ⟨rfl, by omega⟩

theorem Book.trans {a b c : St} (h1 : Book a b) (h2 : Book b c) : Book a c := by
  obtain ⟨f1, o1⟩ := h1
  obtain ⟨f2, o2⟩ := h2
  exact ⟨by omega, by omega⟩

theorem Book.of_same {s s' : St} (h1 : s'.footprint = s.footprint) (h2 : s'.segs = s.segs)
    (h3 : s'.evs = s.evs) : Book s s' := by
  constructor
  · rw [h1, h2]
  · rw [h1, h3]; omega

theorem popM_spec {s s' : St} {len : Nat} {res : Option Nat} (h : popM s len = .ok (res, s')) :
    ∃ q, s.osq = .m res :: q ∧ s' = { s with osq := q, evs := s.evs ++ [.mmap len res] } := by
  unfold popM at h
  split at h
  · rename_i r q hq
    msimp at h
    simp only [Prod.mk.injEq] at h
    obtain ⟨h1, h2⟩ := h
    subst h1; exact ⟨q, hq, h2.symm⟩
  · msimp at h

theorem popR_spec {s s' : St} {a o n : Nat} {ok : Bool} (h : popR s a o n = .ok (ok, s')) :
    ∃ q, s.osq = .r ok :: q ∧ s' = { s with osq := q, evs := s.evs ++ [.mremap a o n ok] } := by
  unfold popR at h
  split at h
  · rename_i r q hq
    msimp at h
    simp only [Prod.mk.injEq] at h
    obtain ⟨h1, h2⟩ := h
    subst h1; exact ⟨q, hq, h2.symm⟩
  · msimp at h

theorem popU_spec {s s' : St} {a l : Nat} {ok : Bool} (h : popU s a l = .ok (ok, s')) :
    ∃ q, s.osq = .u ok :: q ∧ s' = { s with osq := q, evs := s.evs ++ [.munmap a l ok] } := by
  unfold popU at h
  split at h
  · rename_i r q hq
    msimp at h
    simp only [Prod.mk.injEq] at h
    obtain ⟨h1, h2⟩ := h
    subst h1; exact ⟨q, hq, h2.symm⟩
  · msimp at h

/-- `prepend_alloc` only works on the heap part -/
theorem prepend_alloc_spec {s s' : St} {nb ob size mem : Nat}
    (h : prepend_alloc s nb ob size = .ok (s', mem)) : ∃ h', s' = { s with h := h' } := by
  unfold prepend_alloc at h
  dsimp only at h
  msimp at h
  mlast h
  simp only [Prod.mk.injEq] at h
  exact ⟨_, h.1.symm⟩

theorem add_segment_spec {s s' : St} {tbase tsize : Nat} (h : add_segment s tbase tsize = .ok s') :
    s'.footprint = s.footprint ∧ s'.evs = s.evs ∧ s'.osq = s.osq ∧ segSum s'.segs = segSum s.segs + tsize := by
  unfold add_segment at h
  dsimp only at h
  split at h
  · msimp at h
  · msimp at h
    obtain ⟨_, _, _, _, s1, hs1, h⟩ := h
    have h1 := init_top_fp hs1
    mlast h
    subst h
    refine ⟨h1.1, h1.2.2.1, h1.2.2.2, ?_⟩
    simp only [h1.2.1]
    cases s.segs with
    | nil => simp [segSum]
    | cons g gs => simp [segSum]; omega

end TinyVerif.Dl
