import TinyVerif.Model.Dlmalloc
import TinyVerif.Proofs.DlPure
/-! Step-level lemmas about `Model/Dlmalloc.lean`: bookkeeping of footprint vs. segment list, OS
calls, behaviour under refusal. -/
namespace TinyVerif.Dl

/-! ### Except plumbing -/

theorem bind_ok {α β : Type} {x : M α} {f : α → M β} {b : β} :
    (x >>= f) = .ok b ↔ ∃ a, x = .ok a ∧ f a = .ok b := by
  cases x with
  | error e => simp [bind, Except.bind]
  | ok a => simp [bind, Except.bind]

theorem pure_ok {α : Type} {a b : α} : (pure a : M α) = .ok b ↔ a = b := by
  simp [pure, Except.pure]

theorem throw_ok {α : Type} {e : String} {b : α} : (throw e : M α) = .ok b ↔ False := by
  simp [throw, throwThe, MonadExceptOf.throw]

/-- sum of the segment sizes -/
def segSum : List Seg → Nat
  | [] => 0
  | g :: gs => g.size + segSum gs

/-- bookkeeping relation: footprint and the segment sizes moved by the same amount -/
def FpRel (s s' : St) : Prop := s'.footprint + segSum s.segs = s.footprint + segSum s'.segs

theorem FpRel.refl (s : St) : FpRel s s := rfl
theorem FpRel.trans {a b c : St} (h1 : FpRel a b) (h2 : FpRel b c) : FpRel a c := by
  unfold FpRel at *; omega

theorem FpRel.of_eq {s s' : St} (h1 : s'.footprint = s.footprint) (h2 : s'.segs = s.segs) : FpRel s s' := by
  unfold FpRel; rw [h1, h2]

theorem segSum_replace (segs : List Seg) (old new : Seg) (h : old ∈ segs) :
    segSum (replaceSeg segs old new) + old.size = segSum segs + new.size := by
  induction segs with
  | nil => cases h
  | cons g gs ih =>
    simp only [replaceSeg]
    split
    · rename_i hg; subst hg; simp only [segSum]; omega
    · rename_i hg
      have : old ∈ gs := by
        cases h with
        | head => exact absurd rfl hg
        | tail _ h' => exact h'
      have := ih this
      simp only [segSum]; omega

/-- normalise a hypothesis `(do …) = .ok r` -/
macro "msimp" "at" h:ident : tactic =>
  `(tactic| simp only [bind_ok, pure_ok, throw_ok, false_and, and_false, exists_false, Prod.mk.injEq] at $h:ident)

theorem init_top_fp {s s' : St} {ptr size : Nat} (h : init_top s ptr size = .ok s') :
    s'.footprint = s.footprint ∧ s'.segs = s.segs ∧ s'.evs = s.evs ∧ s'.osq = s.osq := by
  unfold init_top at h
  split at h
  · msimp at h
  · msimp at h
    obtain ⟨_, _, _, _, _, _, h⟩ := h
    subst h; exact ⟨rfl, rfl, rfl, rfl⟩

end TinyVerif.Dl
