import TinyVerif.Proofs.RwStep
set_option maxRecDepth 4000
set_option linter.unusedSimpArgs false
set_option linter.unusedVariables false
namespace TinyVerif.RwLock

/-- reader-queue invariant: whenever a reader is parked on `state`, the readers-waiting bit is still set in the
word, or a thread is about to issue the wake-all (`futex_wake(&state, i32::MAX)`) -/
def RQ (s : St) : Prop :=
  (∃ i, parkedOn (s.ths i) 0 = true) → hasRW s.state = true ∨ ∃ j, (s.ths j).pc = .kWakeR

def rparked (pc : Pc) : Bool := match pc with | .rParked _ => true | _ => false

theorem parkedOn0_eq (t : Th) : parkedOn t 0 = rparked t.pc := by
  unfold parkedOn rparked; cases t.pc <;> simp

theorem init_rq (progs : List (List Txn)) : RQ (init progs) := by
  rintro ⟨i, hi⟩; simp [init, parkedOn] at hi

/-- generic preservation: thread `i` moves to `pc'`, the word becomes `new` -/
theorem rq_upd (s s' : St) (i : Nat) (pc' : Pc)
    (hths : ∀ j, j ≠ i → s'.ths j = s.ths j) (hpc : (s'.ths i).pc = pc')
    (h : RQ s)
    (hbit : hasRW s.state = true → hasRW s'.state = true ∨ pc' = .kWakeR)
    (hpark : rparked pc' = true → hasRW s'.state = true ∨ rparked (s.ths i).pc = true)
    (hk : (s.ths i).pc = .kWakeR → pc' = .kWakeR ∨ hasRW s'.state = true ∨ (∀ j, j ≠ i → rparked (s.ths j).pc = false)) :
    RQ s' := by
  rintro ⟨j, hj⟩
  rw [parkedOn0_eq] at hj
  -- someone was parked before, or `i` itself just parked
  have hprev : (∃ k, parkedOn (s.ths k) 0 = true) ∨ hasRW s'.state = true := by
    by_cases hji : j = i
    · subst hji
      rw [hpc] at hj
      rcases hpark hj with h1 | h1
      · exact Or.inr h1
      · exact Or.inl ⟨j, by rw [parkedOn0_eq]; exact h1⟩
    · rw [hths j hji] at hj
      exact Or.inl ⟨j, by rw [parkedOn0_eq]; exact hj⟩
  rcases hprev with hprev | hnow
  · rcases h hprev with hb | ⟨k, hk'⟩
    · rcases hbit hb with h1 | h1
      · exact Or.inl h1
      · exact Or.inr ⟨i, by rw [hpc]; exact h1⟩
    · by_cases hki : k = i
      · subst hki
        rcases hk hk' with h1 | h1 | h1
        · exact Or.inr ⟨k, by rw [hpc]; exact h1⟩
        · exact Or.inl h1
        · -- nobody else is parked and `k` itself is at kWakeR (not parked): contradiction with `j` parked
          by_cases hjk : j = k
          · subst hjk
            rw [hpc] at hj
            rcases hpark hj with h2 | h2
            · exact Or.inl h2
            · simp [rparked, hk'] at h2
          · exfalso
            have := h1 j hjk
            rw [hths j hjk] at hj
            rw [this] at hj; cases hj
      · exact Or.inr ⟨k, by rw [hths k hki]; exact hk'⟩
  · exact Or.inl hnow


/-- the expected value a reader sleeps on always has the readers-waiting bit -/
def RWf : Pc → Prop
  | .rWaitLoad e => hasRW e = true
  | .rWaitSys e => hasRW e = true
  | .rParked e => hasRW e = true
  | _ => True

structure RQ2 (s : St) : Prop where
  rq : RQ s
  wf : ∀ i, RWf (s.ths i).pc

theorem init_rq2 (progs : List (List Txn)) : RQ2 (init progs) :=
  ⟨init_rq progs, by intro i; simp [init, RWf]⟩

theorem hasRW_orRW (x : Nat) : hasRW (orRW x) = true := by
  unfold orRW
  split
  · assumption
  · rename_i h
    simp only [hasRW, RW, beq_iff_eq, Bool.not_eq_true, beq_eq_false_iff_ne, ne_eq] at *
    omega

theorem rwf_rNext (v : Nat) : RWf (rNext v) := by
  unfold rNext
  repeat' split
  all_goals simp [RWf, hasRW_orRW]

theorem rparked_rNext (v : Nat) : rparked (rNext v) = false := by
  unfold rNext
  repeat' split
  all_goals simp [rparked]

theorem kwake_rNext (v : Nat) : rNext v ≠ .kWakeR := by
  unfold rNext
  repeat' split
  all_goals simp

theorem rq2_upd (s s' : St) (i : Nat) (pc' : Pc)
    (hths : ∀ j, j ≠ i → s'.ths j = s.ths j) (hpc : (s'.ths i).pc = pc')
    (h : RQ2 s) (hwf : RWf pc')
    (hbit : hasRW s.state = true → hasRW s'.state = true ∨ pc' = .kWakeR)
    (hpark : rparked pc' = true → hasRW s'.state = true ∨ rparked (s.ths i).pc = true)
    (hk : (s.ths i).pc = .kWakeR → pc' = .kWakeR ∨ hasRW s'.state = true ∨ (∀ j, j ≠ i → rparked (s.ths j).pc = false)) :
    RQ2 s' := by
  refine ⟨rq_upd s s' i pc' hths hpc h.rq hbit hpark hk, ?_⟩
  intro j
  by_cases hj : j = i
  · subst hj; rw [hpc]; exact hwf
  · rw [hths j hj]; exact h.wf j

/-- pc-only move (word unchanged) of a thread that neither is nor becomes a parked reader and is not the waker -/
theorem rq2_setpc (s : St) (i : Nat) (pc' : Pc) (h : RQ2 s) (hwf : RWf pc')
    (hp : rparked pc' = false) (hk : (s.ths i).pc ≠ .kWakeR) : RQ2 (setPc s i pc') := by
  refine rq2_upd s _ i pc' ?_ ?_ h hwf ?_ ?_ ?_
  · intro j hj; simp [setPc, setTh_ths, hj]
  · simp [setPc]
  · intro hb; left; simpa [setPc] using hb
  · intro hh; rw [hp] at hh; cases hh
  · intro hh; exact absurd hh hk

/-- RMW on the word by a thread that neither is nor becomes a parked reader and is not the waker; the RW bit survives -/
theorem rq2_rmw (s : St) (i : Nat) (acq rel : Bool) (new : Nat) (pc' : Pc) (h : RQ2 s) (hwf : RWf pc')
    (hp : rparked pc' = false) (hk : (s.ths i).pc ≠ .kWakeR)
    (hbit : hasRW s.state = true → hasRW new = true ∨ pc' = .kWakeR) : RQ2 (rmwState s i acq rel new pc') := by
  refine rq2_upd s _ i pc' ?_ ?_ h hwf ?_ ?_ ?_
  · intro j hj; simp [rmwState, setTh_ths, hj]
  · simp [rmwState]
  · intro hb; simpa [rmwState] using hbit hb
  · intro hh; rw [hp] at hh; cases hh
  · intro hh; exact absurd hh hk


/-! arithmetic: which RMWs keep the readers-waiting bit -/

theorem hasRW_add_WL (x : Nat) (h : x % 1073741824 = 0) : hasRW (x + WRITE_LOCKED) = hasRW x := by
  simp only [hasRW, RW, WRITE_LOCKED]
  have : (x + 1073741823) / 1073741824 = x / 1073741824 := by omega
  rw [this]

theorem hasRW_orWW (x : Nat) : hasRW (orWW x) = hasRW x := by
  unfold orWW
  split
  · rfl
  · simp only [hasRW, RW, WW]
    have : (x + 2147483648) / 1073741824 = x / 1073741824 + 2 := by omega
    rw [this]
    have : (x / 1073741824 + 2) % 2 = x / 1073741824 % 2 := by omega
    rw [this]

theorem hasRW_orWL (x : Nat) (o : Bool) (h : x % 1073741824 = 0) : hasRW (orWL x o) = hasRW x := by
  unfold orWL
  simp only [cnt, RW, h, Nat.sub_zero]
  cases o
  · simp only [Bool.false_eq_true, if_false]; exact hasRW_add_WL x h
  · simp only [if_true]; rw [hasRW_orWW]; exact hasRW_add_WL x h

theorem hasRW_sub_one (x : Nat) (h : 1 ≤ x % 1073741824) (hlt : x < 4294967296) : hasRW (wsub x 1) = hasRW x := by
  have : wsub x 1 = x - 1 := by unfold wsub; simp only [TWO32]; omega
  rw [this]
  simp only [hasRW, RW]
  have : (x - 1) / 1073741824 = x / 1073741824 := by omega
  rw [this]

theorem hasRW_sub_WL (x : Nat) (h : x % 1073741824 = 1073741823) (hlt : x < 4294967296) :
    hasRW (wsub x WRITE_LOCKED) = hasRW x := by
  have : wsub x WRITE_LOCKED = x - 1073741823 := by unfold wsub; simp only [TWO32, WRITE_LOCKED]; omega
  rw [this]
  simp only [hasRW, RW]
  have : (x - 1073741823) / 1073741824 = x / 1073741824 := by omega
  rw [this]

theorem not_hasRW_of_lockable (x : Nat) (h : isReadLockable x = true) : hasRW x = false := by
  obtain ⟨_, h2, _⟩ := (readLockable_iff x).mp h
  simp only [hasRW, RW, beq_eq_false_iff_ne, ne_eq]; exact h2


/-- a continuation that is not a parked reader and whose sleep value (if any) carries the RW bit -/
def Quiet (pc : Pc) : Prop := RWf pc ∧ rparked pc = false

theorem quiet_rNext (v : Nat) : Quiet (rNext v) := ⟨rwf_rNext v, rparked_rNext v⟩
theorem quiet_wNext (v : Nat) (o : Bool) : Quiet (wNext v o) := by
  unfold wNext Quiet; repeat' split
  all_goals simp [RWf, rparked]
theorem quiet_wakeEntry (v : Nat) : Quiet (wakeEntry v) := by
  unfold wakeEntry Quiet; repeat' split
  all_goals simp [RWf, rparked]
theorem quiet_wakeAfterA (v : Nat) : Quiet (wakeAfterA v) := by
  unfold wakeAfterA Quiet; repeat' split
  all_goals simp [RWf, rparked]
theorem quiet_ite_wake (b : Prop) [Decidable b] (x : Nat) : Quiet (if b then wakeEntry x else Pc.idle) := by
  split
  · exact quiet_wakeEntry _
  · simp [Quiet, RWf, rparked]
theorem quiet_tNext (w : Bool) (b : Prop) [Decidable b] (o : Nat) : Quiet (if b then Pc.tCas w o else Pc.tryFailed) := by
  split <;> simp [Quiet, RWf, rparked]

macro "quiet_tac" : tactic => `(tactic|
  first
  | exact quiet_rNext _
  | exact quiet_wNext _ _
  | exact quiet_wakeEntry _
  | exact quiet_wakeAfterA _
  | exact quiet_tNext _ _ _
  | (simp [Quiet, RWf, rparked]; done)
  | (split <;> first
      | exact quiet_rNext _
      | exact quiet_wNext _ _
      | (simp_all [Quiet, RWf, rparked]; done)))

variable (c : Cfg) (s s' : St) (i : Nat) (e : Ev) (hi : i < s.n) (hinv : RInv s) (hq : RQ2 s)

include hq in
theorem rq_rLoad  (hpc : (s.ths i).pc = .rLoad) (h : step_rLoad c s i (s.ths i)  e = some s') : RQ2 s' := by
  have hk : (s.ths i).pc ≠ .kWakeR := by rw [hpc]; simp
  unfold step_rLoad at h
  split at h
  · cases h
    exact rq2_setpc s i _ hq (by quiet_tac : Quiet _).1 (by quiet_tac : Quiet _).2 hk
  · simp at h

include hinv hq in
theorem rq_rFastCas (st : Nat) (hpc : (s.ths i).pc = .rFastCas st) (h : step_rFastCas c s i (s.ths i) st e = some s') : RQ2 s' := by
  have hk : (s.ths i).pc ≠ .kWakeR := by rw [hpc]; simp
  have hlt := hinv.lt32
  unfold step_rFastCas at h
  split at h
  · rename_i exp new r
    split at h
    · simp at h
    · rename_i hcond
      simp only [not_or, Decidable.not_not, Bool.not_eq_true', Bool.not_eq_false', Bool.not_eq_false] at hcond
      obtain ⟨he, hn, hcc⟩ := hcond
      have hwf := hinv.pcwf i; rw [hpc] at hwf; simp only [PcWf] at hwf
      cases r with
      | ok =>
        simp only [] at h; cases h
        simp only [casConsistent, beq_iff_eq] at hcc
        subst he hn
        rw [← hcc] at hwf
        refine rq2_rmw s i _ _ _ _ hq (by simp [RWf]) (by simp [rparked]) hk ?_
        intro hb; rw [not_hasRW_of_lockable _ hwf] at hb; cases hb
      | fail o => simp only [] at h; cases h; exact rq2_setpc s i _ hq (by quiet_tac : Quiet _).1 (by quiet_tac : Quiet _).2 hk
      | spur o => simp only [] at h; cases h; exact rq2_setpc s i _ hq (by quiet_tac : Quiet _).1 (by quiet_tac : Quiet _).2 hk
  · simp at h

include hq in
theorem rq_rSpin (n : Nat) (hpc : (s.ths i).pc = .rSpin n) (h : step_rSpin c s i (s.ths i) n e = some s') : RQ2 s' := by
  have hk : (s.ths i).pc ≠ .kWakeR := by rw [hpc]; simp
  unfold step_rSpin at h
  split at h
  · cases h
    exact rq2_setpc s i _ hq (by quiet_tac : Quiet _).1 (by quiet_tac : Quiet _).2 hk
  · simp at h

include hinv hq in
theorem rq_rCas (st : Nat) (hpc : (s.ths i).pc = .rCas st) (h : step_rCas c s i (s.ths i) st e = some s') : RQ2 s' := by
  have hk : (s.ths i).pc ≠ .kWakeR := by rw [hpc]; simp
  have hlt := hinv.lt32
  unfold step_rCas at h
  split at h
  · rename_i exp new r
    split at h
    · simp at h
    · rename_i hcond
      simp only [not_or, Decidable.not_not, Bool.not_eq_true', Bool.not_eq_false', Bool.not_eq_false] at hcond
      obtain ⟨he, hn, hcc⟩ := hcond
      have hwf := hinv.pcwf i; rw [hpc] at hwf; simp only [PcWf] at hwf
      cases r with
      | ok =>
        simp only [] at h; cases h
        simp only [casConsistent, beq_iff_eq] at hcc
        subst he hn
        rw [← hcc] at hwf
        refine rq2_rmw s i _ _ _ _ hq (by simp [RWf]) (by simp [rparked]) hk ?_
        intro hb; rw [not_hasRW_of_lockable _ hwf] at hb; cases hb
      | fail o => simp only [] at h; cases h; exact rq2_setpc s i _ hq (by quiet_tac : Quiet _).1 (by quiet_tac : Quiet _).2 hk
      | spur o => simp only [] at h; cases h; exact rq2_setpc s i _ hq (by quiet_tac : Quiet _).1 (by quiet_tac : Quiet _).2 hk
  · simp at h

include hinv hq in
theorem rq_rSetWait (st : Nat) (hpc : (s.ths i).pc = .rSetWait st) (h : step_rSetWait c s i (s.ths i) st e = some s') : RQ2 s' := by
  have hk : (s.ths i).pc ≠ .kWakeR := by rw [hpc]; simp
  have hlt := hinv.lt32
  unfold step_rSetWait at h
  split at h
  · rename_i exp new r
    split at h
    · simp at h
    · rename_i hcond
      simp only [not_or, Decidable.not_not, Bool.not_eq_true', Bool.not_eq_false', Bool.not_eq_false] at hcond
      obtain ⟨he, hn, hcc⟩ := hcond
      cases r with
      | ok =>
        simp only [] at h; cases h
        simp only [casConsistent, beq_iff_eq] at hcc
        subst he hn
        refine rq2_rmw s i _ _ _ _ hq (by simp [RWf, hasRW_orRW]) (by simp [rparked]) hk ?_
        intro _; left; exact hasRW_orRW _
      | fail o => simp only [] at h; cases h; exact rq2_setpc s i _ hq (by quiet_tac : Quiet _).1 (by quiet_tac : Quiet _).2 hk
      | spur o => simp only [] at h; cases h; exact rq2_setpc s i _ hq (by quiet_tac : Quiet _).1 (by quiet_tac : Quiet _).2 hk
  · simp at h

include hq in
theorem rq_rWaitLoad (ex : Nat) (hpc : (s.ths i).pc = .rWaitLoad ex) (h : step_rWaitLoad c s i (s.ths i) ex e = some s') : RQ2 s' := by
  have hk : (s.ths i).pc ≠ .kWakeR := by rw [hpc]; simp
  have hw := hq.wf i; rw [hpc] at hw; simp only [RWf] at hw
  unfold step_rWaitLoad at h
  split at h
  · cases h
    refine rq2_setpc s i _ hq ?_ ?_ hk <;> (split <;> simp [RWf, rparked, hw])
  · simp at h

include hq in
theorem rq_rWaitSys (ex : Nat) (hpc : (s.ths i).pc = .rWaitSys ex) (h : step_rWaitSys c s i (s.ths i) ex e = some s') : RQ2 s' := by
  have hk : (s.ths i).pc ≠ .kWakeR := by rw [hpc]; simp
  have hw := hq.wf i; rw [hpc] at hw; simp only [RWf] at hw
  unfold step_rWaitSys at h
  split at h
  · split at h
    · simp at h
    · split at h
      · split at h
        · rename_i hst
          cases h
          refine rq2_upd s _ i (.rParked ex) ?_ ?_ hq (by simp [RWf, hw]) ?_ ?_ ?_
          · intro j hj; simp [setPc, setTh_ths, hj]
          · simp [setPc]
          · intro hb; left; simpa [setPc] using hb
          · intro _; left; simp [setPc, hst, hw]
          · intro hh; exact absurd hh hk
        · simp at h
      · split at h
        · simp at h
        · cases h
          exact rq2_setpc s i _ hq (by simp [RWf]) (by simp [rparked]) hk
  · simp at h

include hq in
theorem rq_rParked (ex : Nat) (hpc : (s.ths i).pc = .rParked ex) (h : step_rParked c s i (s.ths i) ex e = some s') : RQ2 s' := by
  have hk : (s.ths i).pc ≠ .kWakeR := by rw [hpc]; simp
  have hw := hq.wf i; rw [hpc] at hw; simp only [RWf] at hw
  unfold step_rParked at h
  split at h
  · cases h
    refine rq2_setpc s i _ hq ?_ ?_ hk <;> (split <;> simp [RWf, rparked, hw])
  · simp at h

include hq in
theorem rq_tLoad (w : Bool) (hpc : (s.ths i).pc = .tLoad w) (h : step_tLoad c s i (s.ths i) w e = some s') : RQ2 s' := by
  have hk : (s.ths i).pc ≠ .kWakeR := by rw [hpc]; simp
  unfold step_tLoad at h
  split at h
  · cases h
    exact rq2_setpc s i _ hq (by quiet_tac : Quiet _).1 (by quiet_tac : Quiet _).2 hk
  · simp at h

include hinv hq in
theorem rq_tCas (w : Bool) (st : Nat) (hpc : (s.ths i).pc = .tCas w st) (h : step_tCas c s i (s.ths i) w st e = some s') : RQ2 s' := by
  have hk : (s.ths i).pc ≠ .kWakeR := by rw [hpc]; simp
  have hwf := hinv.pcwf i; rw [hpc] at hwf; simp only [PcWf] at hwf
  unfold step_tCas at h
  cases w
  all_goals
    simp only [Bool.false_eq_true, if_false, if_true] at h hwf
    split at h
    · rename_i exp new r
      split at h
      · simp at h
      · rename_i hcond
        simp only [not_or, Decidable.not_not, Bool.not_eq_true', Bool.not_eq_false', Bool.not_eq_false] at hcond
        obtain ⟨he, hn, hcc⟩ := hcond
        cases r with
        | ok =>
          simp only [] at h; cases h
          simp only [casConsistent, beq_iff_eq] at hcc
          subst he hn
          rw [← hcc] at hwf
          refine rq2_rmw s i _ _ _ _ hq (by simp [RWf]) (by simp [rparked]) hk ?_
          first
          | (intro hb; rw [not_hasRW_of_lockable _ hwf] at hb; cases hb)
          | (intro hb; left; rw [← hcc, hasRW_add_WL _ ((unlocked_iff _).mp hwf)]; exact hb)
        | fail o => simp only [] at h; cases h; exact rq2_setpc s i _ hq (quiet_tNext _ _ _).1 (quiet_tNext _ _ _).2 hk
        | spur o => simp only [] at h; cases h; exact rq2_setpc s i _ hq (quiet_tNext _ _ _).1 (quiet_tNext _ _ _).2 hk
    · simp at h

include hq in
theorem rq_tryFailed (hpc : (s.ths i).pc = .tryFailed) (h : step_tryFailed c s i (s.ths i) e = some s') : RQ2 s' := by
  have hk : (s.ths i).pc ≠ .kWakeR := by rw [hpc]; simp
  unfold step_tryFailed at h
  split at h
  · cases h
    refine rq2_upd s _ i .idle ?_ ?_ hq (by simp [RWf]) ?_ ?_ ?_
    · intro j hj; simp [setTh_ths, hj]
    · simp
    · intro hb; left; simpa using hb
    · intro hh; simp [rparked] at hh
    · intro hh; exact absurd hh hk
  · simp at h

include hinv hq in
theorem rq_wFastCas  (hpc : (s.ths i).pc = .wFastCas) (h : step_wFastCas c s i (s.ths i)  e = some s') : RQ2 s' := by
  have hk : (s.ths i).pc ≠ .kWakeR := by rw [hpc]; simp
  have hlt := hinv.lt32
  unfold step_wFastCas at h
  split at h
  · rename_i exp new r
    split at h
    · simp at h
    · rename_i hcond
      simp only [not_or, Decidable.not_not, Bool.not_eq_true', Bool.not_eq_false', Bool.not_eq_false] at hcond
      obtain ⟨he, hn, hcc⟩ := hcond
      cases r with
      | ok =>
        simp only [] at h; cases h
        simp only [casConsistent, beq_iff_eq] at hcc
        subst he hn
        refine rq2_rmw s i _ _ _ _ hq (by simp [RWf]) (by simp [rparked]) hk ?_
        intro hb; rw [hcc] at hb; simp [hasRW] at hb
      | fail o => simp only [] at h; cases h; exact rq2_setpc s i _ hq (by quiet_tac : Quiet _).1 (by quiet_tac : Quiet _).2 hk
      | spur o => simp only [] at h; cases h; exact rq2_setpc s i _ hq (by quiet_tac : Quiet _).1 (by quiet_tac : Quiet _).2 hk
  · simp at h

include hq in
theorem rq_wSpin (n : Nat) (oww : Bool) (hpc : (s.ths i).pc = .wSpin n oww) (h : step_wSpin c s i (s.ths i) n oww e = some s') : RQ2 s' := by
  have hk : (s.ths i).pc ≠ .kWakeR := by rw [hpc]; simp
  unfold step_wSpin at h
  split at h
  · cases h
    exact rq2_setpc s i _ hq (by quiet_tac : Quiet _).1 (by quiet_tac : Quiet _).2 hk
  · simp at h

include hinv hq in
theorem rq_wCas (st : Nat) (oww : Bool) (hpc : (s.ths i).pc = .wCas st oww) (h : step_wCas c s i (s.ths i) st oww e = some s') : RQ2 s' := by
  have hk : (s.ths i).pc ≠ .kWakeR := by rw [hpc]; simp
  have hlt := hinv.lt32
  unfold step_wCas at h
  split at h
  · rename_i exp new r
    split at h
    · simp at h
    · rename_i hcond
      simp only [not_or, Decidable.not_not, Bool.not_eq_true', Bool.not_eq_false', Bool.not_eq_false] at hcond
      obtain ⟨he, hn, hcc⟩ := hcond
      have hwf := hinv.pcwf i; rw [hpc] at hwf; simp only [PcWf] at hwf
      cases r with
      | ok =>
        simp only [] at h; cases h
        simp only [casConsistent, beq_iff_eq] at hcc
        subst he hn
        rw [← hcc] at hwf
        refine rq2_rmw s i _ _ _ _ hq (by simp [RWf]) (by simp [rparked]) hk ?_
        intro hb; left; rw [← hcc, hasRW_orWL _ _ ((unlocked_iff _).mp hwf)]; exact hb
      | fail o => simp only [] at h; cases h; exact rq2_setpc s i _ hq (by quiet_tac : Quiet _).1 (by quiet_tac : Quiet _).2 hk
      | spur o => simp only [] at h; cases h; exact rq2_setpc s i _ hq (by quiet_tac : Quiet _).1 (by quiet_tac : Quiet _).2 hk
  · simp at h

include hinv hq in
theorem rq_wSetWait (st : Nat) (oww : Bool) (hpc : (s.ths i).pc = .wSetWait st oww) (h : step_wSetWait c s i (s.ths i) st oww e = some s') : RQ2 s' := by
  have hk : (s.ths i).pc ≠ .kWakeR := by rw [hpc]; simp
  have hlt := hinv.lt32
  unfold step_wSetWait at h
  split at h
  · rename_i exp new r
    split at h
    · simp at h
    · rename_i hcond
      simp only [not_or, Decidable.not_not, Bool.not_eq_true', Bool.not_eq_false', Bool.not_eq_false] at hcond
      obtain ⟨he, hn, hcc⟩ := hcond
      cases r with
      | ok =>
        simp only [] at h; cases h
        simp only [casConsistent, beq_iff_eq] at hcc
        subst he hn
        refine rq2_rmw s i _ _ _ _ hq (by simp [RWf]) (by simp [rparked]) hk ?_
        intro hb; left; rw [← hcc, hasRW_orWW]; exact hb
      | fail o => simp only [] at h; cases h; exact rq2_setpc s i _ hq (by quiet_tac : Quiet _).1 (by quiet_tac : Quiet _).2 hk
      | spur o => simp only [] at h; cases h; exact rq2_setpc s i _ hq (by quiet_tac : Quiet _).1 (by quiet_tac : Quiet _).2 hk
  · simp at h

include hq in
theorem rq_wSeqLoad  (hpc : (s.ths i).pc = .wSeqLoad) (h : step_wSeqLoad c s i (s.ths i)  e = some s') : RQ2 s' := by
  have hk : (s.ths i).pc ≠ .kWakeR := by rw [hpc]; simp
  unfold step_wSeqLoad at h
  split at h
  · cases h
    exact rq2_setpc s i _ hq (by quiet_tac : Quiet _).1 (by quiet_tac : Quiet _).2 hk
  · simp at h

include hq in
theorem rq_wStateLoad (seq : Nat) (hpc : (s.ths i).pc = .wStateLoad seq) (h : step_wStateLoad c s i (s.ths i) seq e = some s') : RQ2 s' := by
  have hk : (s.ths i).pc ≠ .kWakeR := by rw [hpc]; simp
  unfold step_wStateLoad at h
  split at h
  · cases h
    exact rq2_setpc s i _ hq (by quiet_tac : Quiet _).1 (by quiet_tac : Quiet _).2 hk
  · simp at h

include hq in
theorem rq_wWaitLoad (seq : Nat) (hpc : (s.ths i).pc = .wWaitLoad seq) (h : step_wWaitLoad c s i (s.ths i) seq e = some s') : RQ2 s' := by
  have hk : (s.ths i).pc ≠ .kWakeR := by rw [hpc]; simp
  unfold step_wWaitLoad at h
  split at h
  · cases h
    exact rq2_setpc s i _ hq (by quiet_tac : Quiet _).1 (by quiet_tac : Quiet _).2 hk
  · simp at h

include hq in
theorem rq_wWaitSys (seq : Nat) (hpc : (s.ths i).pc = .wWaitSys seq) (h : step_wWaitSys c s i (s.ths i) seq e = some s') : RQ2 s' := by
  have hk : (s.ths i).pc ≠ .kWakeR := by rw [hpc]; simp
  unfold step_wWaitSys at h
  split at h
  · split at h
    · simp at h
    · split at h
      · split at h
        · cases h; exact rq2_setpc s i _ hq (by simp [RWf]) (by simp [rparked]) hk
        · simp at h
      · split at h
        · simp at h
        · cases h; exact rq2_setpc s i _ hq (by simp [RWf]) (by simp [rparked]) hk
  · simp at h

include hq in
theorem rq_wParked (seq : Nat) (hpc : (s.ths i).pc = .wParked seq) (h : step_wParked c s i (s.ths i) seq e = some s') : RQ2 s' := by
  have hk : (s.ths i).pc ≠ .kWakeR := by rw [hpc]; simp
  unfold step_wParked at h
  split at h
  · cases h
    exact rq2_setpc s i _ hq (by quiet_tac : Quiet _).1 (by quiet_tac : Quiet _).2 hk
  · simp at h

include hq in
theorem rq_acquired (w : Bool) (hpc : (s.ths i).pc = .acquired w) (h : step_acquired c s i (s.ths i) w e = some s') : RQ2 s' := by
  have hk : (s.ths i).pc ≠ .kWakeR := by rw [hpc]; simp
  unfold step_acquired at h
  split at h
  · split at h
    · cases h; exact rq2_setpc s i _ hq (by simp [RWf]) (by simp [rparked]) hk
    · simp at h
  · simp at h

include hq in
theorem rq_hold (w : Bool) (k : Nat) (hpc : (s.ths i).pc = .hold w k) (h : step_hold c s i (s.ths i) w k e = some s') : RQ2 s' := by
  have hk : (s.ths i).pc ≠ .kWakeR := by rw [hpc]; simp
  unfold step_hold at h
  split at h
  · cases h
    rename_i k'
    refine rq2_upd s _ i (.hold w k') ?_ ?_ hq (by simp [RWf]) ?_ ?_ ?_
    · intro j hj; simp [setPc, setTh_ths, hj]
    · simp [setPc]
    · intro hb; left; simpa [setPc] using hb
    · intro hh; simp [rparked] at hh
    · intro hh; exact absurd hh hk
  · cases h; exact rq2_setpc s i _ hq (by simp [RWf]) (by simp [rparked]) hk
  · simp at h

include hinv hq in
theorem rq_unlock (w : Bool) (hpc : (s.ths i).pc = .unlock w) (h : step_unlock c s i (s.ths i) w e = some s') : RQ2 s' := by
  have hk : (s.ths i).pc ≠ .kWakeR := by rw [hpc]; simp
  have hlt := hinv.lt32
  unfold step_unlock at h
  split at h
  · rename_i v old
    cases w
    · -- reader
      simp only [Bool.false_eq_true, if_false] at h
      split at h
      · simp at h
      rename_i hcond
      simp only [not_or, Decidable.not_not] at hcond
      obtain ⟨ho, hv⟩ := hcond
      cases h
      subst ho hv
      have hR : holdsR (s.ths i) = true := by simp [holdsR, hpc]
      have hnow : ∀ j, holdsW (s.ths j) = false := by
        intro j
        cases hj : holdsW (s.ths j) with
        | false => rfl
        | true =>
          have h0 := hinv.noRW ⟨j, hj⟩
          have := nR_zero_no_reader s hinv h0 i
          rw [hR] at this; cases this
      have hnwl : cnt s.state ≠ WRITE_LOCKED := by
        intro hh; obtain ⟨j, hj⟩ := hinv.wl.mp hh; rw [hnow j] at hj; cases hj
      have hcntR := hinv.cntR hnwl
      have hge1 : 1 ≤ cnt s.state := by
        have : nR s ≠ 0 := by
          intro h0; have := nR_zero_no_reader s hinv h0 i; rw [hR] at this; cases this
        omega
      obtain ⟨q1, q2⟩ := quiet_ite_wake ((isUnlocked (wsub s.state 1) && hasWW (wsub s.state 1)) = true) (wsub s.state 1)
      have hbitk := hasRW_sub_one s.state (by simpa [cnt, RW] using hge1) (by simpa [TWO32] using hlt)
      generalize hx : wsub s.state 1 = x at *
      generalize hqq : (if (isUnlocked x && hasWW x) = true then wakeEntry x else Pc.idle) = q at *
      refine rq2_upd s _ i q ?_ ?_ hq q1 ?_ ?_ ?_
      · intro j hj; unfold rmwState; simp [setTh_ths, hj]
      · unfold rmwState; simp
      · intro hb; left; unfold rmwState; simp; rw [hbitk]; exact hb
      · intro hh; rw [q2] at hh; cases hh
      · intro hh; exact absurd hh hk
    · -- writer
      simp only [if_true] at h
      split at h
      · simp at h
      rename_i hcond
      simp only [not_or, Decidable.not_not] at hcond
      obtain ⟨ho, hv⟩ := hcond
      cases h
      subst ho hv
      have hWi : holdsW (s.ths i) = true := by simp [holdsW, hpc]
      have hwl : cnt s.state = WRITE_LOCKED := hinv.wl.mpr ⟨i, hWi⟩
      obtain ⟨q1, q2⟩ := quiet_ite_wake ((hasWW (wsub s.state WRITE_LOCKED) || hasRW (wsub s.state WRITE_LOCKED)) = true) (wsub s.state WRITE_LOCKED)
      have hbitk := hasRW_sub_WL s.state (by simpa [cnt, RW, WRITE_LOCKED] using hwl) (by simpa [TWO32] using hlt)
      generalize hx : wsub s.state WRITE_LOCKED = x at *
      generalize hqq : (if (hasWW x || hasRW x) = true then wakeEntry x else Pc.idle) = q at *
      refine rq2_upd s _ i q ?_ ?_ hq q1 ?_ ?_ ?_
      · intro j hj; unfold rmwState; simp [setTh_ths, hj]
      · unfold rmwState; simp
      · intro hb; left; unfold rmwState; simp; rw [hbitk]; exact hb
      · intro hh; rw [q2] at hh; cases hh
      · intro hh; exact absurd hh hk
  · simp at h

include hinv hq in
theorem rq_kCasA (st : Nat) (hpc : (s.ths i).pc = .kCasA st) (h : step_kCasA c s i (s.ths i) st e = some s') : RQ2 s' := by
  have hk : (s.ths i).pc ≠ .kWakeR := by rw [hpc]; simp
  have hlt := hinv.lt32
  unfold step_kCasA at h
  split at h
  · rename_i exp new r
    split at h
    · simp at h
    · rename_i hcond
      simp only [not_or, Decidable.not_not, Bool.not_eq_true', Bool.not_eq_false', Bool.not_eq_false] at hcond
      obtain ⟨he, hn, hcc⟩ := hcond
      have hwf := hinv.pcwf i; rw [hpc] at hwf; simp only [PcWf] at hwf
      cases r with
      | ok =>
        simp only [] at h; cases h
        simp only [casConsistent, beq_iff_eq] at hcc
        subst he hn
        refine rq2_rmw s i _ _ _ _ hq (by simp [RWf]) (by simp [rparked]) hk ?_
        intro hb; rw [hcc, hwf] at hb; simp [hasRW] at hb
      | fail o => simp only [] at h; cases h; exact rq2_setpc s i _ hq (by quiet_tac : Quiet _).1 (by quiet_tac : Quiet _).2 hk
      | spur o => simp only [] at h; cases h; exact rq2_setpc s i _ hq (by quiet_tac : Quiet _).1 (by quiet_tac : Quiet _).2 hk
  · simp at h

include hinv hq in
theorem rq_kCasB (st : Nat) (hpc : (s.ths i).pc = .kCasB st) (h : step_kCasB c s i (s.ths i) st e = some s') : RQ2 s' := by
  have hk : (s.ths i).pc ≠ .kWakeR := by rw [hpc]; simp
  have hlt := hinv.lt32
  unfold step_kCasB at h
  split at h
  · rename_i exp new r
    split at h
    · simp at h
    · rename_i hcond
      simp only [not_or, Decidable.not_not, Bool.not_eq_true', Bool.not_eq_false', Bool.not_eq_false] at hcond
      obtain ⟨he, hn, hcc⟩ := hcond
      cases r with
      | ok =>
        simp only [] at h; cases h
        simp only [casConsistent, beq_iff_eq] at hcc
        subst he hn
        refine rq2_rmw s i _ _ _ _ hq (by simp [RWf]) (by simp [rparked]) hk ?_
        intro _; left; decide
      | fail o => simp only [] at h; cases h; exact rq2_setpc s i _ hq (by quiet_tac : Quiet _).1 (by quiet_tac : Quiet _).2 hk
      | spur o => simp only [] at h; cases h; exact rq2_setpc s i _ hq (by quiet_tac : Quiet _).1 (by quiet_tac : Quiet _).2 hk
  · simp at h

include hinv hq in
theorem rq_kCasC  (hpc : (s.ths i).pc = .kCasC) (h : step_kCasC c s i (s.ths i)  e = some s') : RQ2 s' := by
  have hk : (s.ths i).pc ≠ .kWakeR := by rw [hpc]; simp
  have hlt := hinv.lt32
  unfold step_kCasC at h
  split at h
  · rename_i exp new r
    split at h
    · simp at h
    · rename_i hcond
      simp only [not_or, Decidable.not_not, Bool.not_eq_true', Bool.not_eq_false', Bool.not_eq_false] at hcond
      obtain ⟨he, hn, hcc⟩ := hcond
      cases r with
      | ok =>
        simp only [] at h; cases h
        simp only [casConsistent, beq_iff_eq] at hcc
        subst he hn
        refine rq2_rmw s i _ _ _ _ hq (by simp [RWf]) (by simp [rparked]) hk ?_
        intro _; right; rfl
      | fail o => simp only [] at h; cases h; exact rq2_setpc s i _ hq (by quiet_tac : Quiet _).1 (by quiet_tac : Quiet _).2 hk
      | spur o => simp only [] at h; cases h; exact rq2_setpc s i _ hq (by quiet_tac : Quiet _).1 (by quiet_tac : Quiet _).2 hk
  · simp at h

include hq in
theorem rq_kNotify (fb : Bool) (hpc : (s.ths i).pc = .kNotify fb) (h : step_kNotify c s i (s.ths i) fb e = some s') : RQ2 s' := by
  have hk : (s.ths i).pc ≠ .kWakeR := by rw [hpc]; simp
  unfold step_kNotify at h
  split at h
  · split at h
    · simp at h
    · cases h
      refine rq2_upd s _ i (.kWakeW fb) ?_ ?_ hq (by simp [RWf]) ?_ ?_ ?_
      · intro j hj; simp [setPc, setTh_ths, hj]
      · simp [setPc]
      · intro hb; left; simpa [setPc] using hb
      · intro hh; simp [rparked] at hh
      · intro hh; exact absurd hh hk
  · simp at h


/-! ### the two wake steps -/

theorem wakeOne_state (c : Cfg) (s : St) (j : Nat) : (wakeOne c s j).state = s.state := rfl

theorem wakeAll_state (c : Cfg) (s : St) (l : List Nat) : (wakeAll c s l).state = s.state := by
  induction l generalizing s with
  | nil => rfl
  | cons k rest ih => simp only [wakeAll]; rw [ih]; rfl

theorem rparked_wokenPc (c : Cfg) (p : Pc) : rparked (wokenPc c p) = false := by
  cases p <;> simp [wokenPc, rparked]

theorem wokenPc_kWakeR (c : Cfg) (p : Pc) : wokenPc c p = .kWakeR ↔ p = .kWakeR := by
  cases p <;> simp [wokenPc]

theorem rwf_wokenPc (c : Cfg) (p : Pc) (h : RWf p) : RWf (wokenPc c p) := by
  cases p <;> simp_all [wokenPc, RWf]

/-- waking never parks anybody -/
theorem wakeAll_rparked_mono (c : Cfg) (s : St) (l : List Nat) (j : Nat)
    (h : rparked ((wakeAll c s l).ths j).pc = true) : rparked (s.ths j).pc = true := by
  induction l generalizing s with
  | nil => exact h
  | cons k rest ih =>
    simp only [wakeAll] at h
    have := ih _ h
    unfold wakeOne at this
    by_cases hjk : j = k
    · subst hjk; simp only [setTh_ths_same] at this; rw [rparked_wokenPc] at this; cases this
    · simpa [setTh_ths, hjk] using this

/-- a listed thread is not parked on `state` afterwards -/
theorem wakeAll_clears (c : Cfg) (s : St) (l : List Nat) (j : Nat) (hm : j ∈ l) :
    rparked ((wakeAll c s l).ths j).pc = false := by
  induction l generalizing s with
  | nil => cases hm
  | cons k rest ih =>
    simp only [wakeAll]
    by_cases hjk : j = k
    · subst hjk
      cases hr : rparked ((wakeAll c (wakeOne c s j) rest).ths j).pc with
      | false => rfl
      | true =>
        have := wakeAll_rparked_mono c _ rest j hr
        unfold wakeOne at this
        simp only [setTh_ths_same] at this
        rw [rparked_wokenPc] at this; cases this
    · have hm' : j ∈ rest := by
        cases hm with
        | head => exact absurd rfl hjk
        | tail _ h' => exact h'
      exact ih _ hm'

theorem wakeAll_kWakeR (c : Cfg) (s : St) (l : List Nat) (j : Nat) :
    ((wakeAll c s l).ths j).pc = .kWakeR ↔ (s.ths j).pc = .kWakeR := by
  induction l generalizing s with
  | nil => exact Iff.rfl
  | cons k rest ih =>
    simp only [wakeAll]
    rw [ih]
    unfold wakeOne
    by_cases hjk : j = k
    · subst hjk; simp only [setTh_ths_same]; exact wokenPc_kWakeR c _
    · simp [setTh_ths, hjk]

theorem wakeAll_rwf (c : Cfg) (s : St) (l : List Nat) (h : ∀ j, RWf (s.ths j).pc) : ∀ j, RWf ((wakeAll c s l).ths j).pc := by
  induction l generalizing s with
  | nil => exact h
  | cons k rest ih =>
    simp only [wakeAll]
    apply ih
    intro j
    unfold wakeOne
    by_cases hjk : j = k
    · subst hjk; simp only [setTh_ths_same]; exact rwf_wokenPc c _ (h j)
    · simp [setTh_ths, hjk]; exact h j




theorem parkedList_mem (s : St) (loc j : Nat) : j ∈ parkedList s loc ↔ j < s.n ∧ parkedOn (s.ths j) loc = true := by
  simp [parkedList, List.mem_filter]

/-- moving the waker `i` on after `wakeAll`: generic RQ2 preservation when the word is unchanged -/
theorem rq2_after_wake (c : Cfg) (s : St) (i : Nat) (l : List Nat) (pc' : Pc) (hq : RQ2 s)
    (hwf : RWf pc') (hp : rparked pc' = false)
    (hcases : (s.ths i).pc ≠ .kWakeR ∨ (∀ j, rparked ((wakeAll c s l).ths j).pc = false)) :
    RQ2 (setPc (wakeAll c s l) i pc') := by
  constructor
  · rintro ⟨j, hj⟩
    rw [parkedOn0_eq] at hj
    have hji : j ≠ i := by
      intro h; subst h; simp [setPc, hp] at hj
    have hj' : rparked ((wakeAll c s l).ths j).pc = true := by simpa [setPc, setTh_ths, hji] using hj
    rcases hcases with hk | hall
    · have hjs := wakeAll_rparked_mono c s l j hj'
      rcases hq.rq ⟨j, by rw [parkedOn0_eq]; exact hjs⟩ with hb | ⟨k, hk'⟩
      · left; simpa [setPc, wakeAll_state] using hb
      · right
        have hki : k ≠ i := by intro h; subst h; exact hk hk'
        exact ⟨k, by simp [setPc, setTh_ths, hki]; exact (wakeAll_kWakeR c s l k).mpr hk'⟩
    · rw [hall j] at hj'; cases hj'
  · intro j
    by_cases hji : j = i
    · subst hji; simpa [setPc] using hwf
    · simp [setPc, setTh_ths, hji]; exact wakeAll_rwf c s l hq.wf j

include hi hinv hq in
theorem rq_kWakeW (fb : Bool) (hpc : (s.ths i).pc = .kWakeW fb) (h : step_kWakeW c s i (s.ths i) fb e = some s') : RQ2 s' := by
  have hk : (s.ths i).pc ≠ .kWakeR := by rw [hpc]; simp
  unfold step_kWakeW at h
  split at h
  · rename_i num woken
    split at h
    · simp at h
    · simp only [] at h
      split at h
      · split at h
        · cases h
          exact rq2_setpc s i _ hq (by split <;> simp [RWf]) (by split <;> simp [rparked]) hk
        · simp at h
      · rename_i j
        split at h
        · cases h
          exact rq2_after_wake c s i [j] _ hq (by simp [RWf]) (by simp [rparked]) (Or.inl hk)
        · simp at h
      · simp at h
  · simp at h

include hi hinv hq in
theorem rq_kWakeR (hpc : (s.ths i).pc = .kWakeR) (h : step_kWakeR c s i (s.ths i) e = some s') : RQ2 s' := by
  unfold step_kWakeR at h
  split at h
  · rename_i num woken
    split at h
    · simp at h
    · simp only [] at h
      split at h
      · simp at h
      · rename_i hcond
        cases h
        simp only [not_or, Decidable.not_not, Bool.not_eq_true', Bool.not_eq_false', Bool.not_eq_false] at hcond
        refine rq2_after_wake c s i woken _ hq (by simp [RWf]) (by simp [rparked]) (Or.inr ?_)
        intro j
        cases hr : rparked ((wakeAll c s woken).ths j).pc with
        | false => rfl
        | true =>
          exfalso
          have hjs := wakeAll_rparked_mono c s woken j hr
          have hjn : j < s.n := by
            by_cases hh : j < s.n
            · exact hh
            · have := hinv.outside j (by omega); rw [this] at hjs; simp [rparked] at hjs
          have hmem : j ∈ parkedList s 0 := (parkedList_mem s 0 j).mpr ⟨hjn, by rw [parkedOn0_eq]; exact hjs⟩
          have hall := hcond.2.2
          simp only [List.all_eq_true] at hall
          have hw : j ∈ woken := by simpa using hall j hmem
          rw [wakeAll_clears c s woken j hw] at hr; cases hr
  · simp at h

/-- **every step preserves the reader-queue invariant** (given the safety invariant) -/
theorem step_rq (c : Cfg) (s s' : St) (i : Nat) (e : Ev) (h : step c s i e = some s') (hinv : RInv s) (hq : RQ2 s) : RQ2 s' := by
  unfold step at h
  split at h
  · simp at h
  · rename_i hi
    have hi : i < s.n := by omega
    simp only [] at h
    cases hpc : (s.ths i).pc <;> simp only [hpc] at h
    case idle =>
      have hk : (s.ths i).pc ≠ .kWakeR := by rw [hpc]; simp
      unfold step_idle at h
      split at h
      · rename_i k
        split at h
        · split at h
          · simp at h
          · cases h
            exact rq2_setpc s i _ hq (by cases k <;> simp [RWf]) (by cases k <;> simp [rparked]) hk
        · simp at h
      · simp at h
    case rLoad => exact rq_rLoad c s s' i e hq hpc h
    case rFastCas st => exact rq_rFastCas c s s' i e hinv hq st hpc h
    case rSpin n => exact rq_rSpin c s s' i e hq n hpc h
    case rCas st => exact rq_rCas c s s' i e hinv hq st hpc h
    case rSetWait st => exact rq_rSetWait c s s' i e hinv hq st hpc h
    case rWaitLoad ex => exact rq_rWaitLoad c s s' i e hq ex hpc h
    case rWaitSys ex => exact rq_rWaitSys c s s' i e hq ex hpc h
    case rParked ex => exact rq_rParked c s s' i e hq ex hpc h
    case tLoad w => exact rq_tLoad c s s' i e hq w hpc h
    case tCas w st => exact rq_tCas c s s' i e hinv hq w st hpc h
    case tryFailed => exact rq_tryFailed c s s' i e hq hpc h
    case wFastCas => exact rq_wFastCas c s s' i e hinv hq hpc h
    case wSpin n oww => exact rq_wSpin c s s' i e hq n oww hpc h
    case wCas st oww => exact rq_wCas c s s' i e hinv hq st oww hpc h
    case wSetWait st oww => exact rq_wSetWait c s s' i e hinv hq st oww hpc h
    case wSeqLoad => exact rq_wSeqLoad c s s' i e hq hpc h
    case wStateLoad seq => exact rq_wStateLoad c s s' i e hq seq hpc h
    case wWaitLoad seq => exact rq_wWaitLoad c s s' i e hq seq hpc h
    case wWaitSys seq => exact rq_wWaitSys c s s' i e hq seq hpc h
    case wParked seq => exact rq_wParked c s s' i e hq seq hpc h
    case acquired w => exact rq_acquired c s s' i e hq w hpc h
    case hold w k => exact rq_hold c s s' i e hq w k hpc h
    case unlock w => exact rq_unlock c s s' i e hinv hq w hpc h
    case kCasA st => exact rq_kCasA c s s' i e hinv hq st hpc h
    case kCasB st => exact rq_kCasB c s s' i e hinv hq st hpc h
    case kNotify fb => exact rq_kNotify c s s' i e hq fb hpc h
    case kWakeW fb => exact rq_kWakeW c s s' i e hi hinv hq fb hpc h
    case kCasC => exact rq_kCasC c s s' i e hinv hq hpc h
    case kWakeR => exact rq_kWakeR c s s' i e hi hinv hq hpc h
    case panicked => simp at h

end TinyVerif.RwLock
