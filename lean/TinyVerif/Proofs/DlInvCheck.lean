import TinyVerif.Model.DlmallocWF2
import TinyVerif.Proofs.DlIndGlue
/-! Soundness of the executable invariant check `invB` (`Model/DlmallocWF2.lean`) that the driver runs on
every explored state: it implies the inductive invariant `Inv` of `Proofs/DlIndSpec.lean`. -/
namespace TinyVerif.Dl

theorem recsOkB_eq (s : St) : recsOkB s = gl_recsOkB s := rfl
theorem fenceOkB_eq (s : St) : fenceOkB s = gl_fenceOkB s := rfl
theorem tailOkB_eq (s : St) : tailOkB s = gl_tailOkB s := rfl
theorem headOkB_eq (s : St) : headOkB s = gl_headOkB s := rfl
theorem recInB_eq (s : St) : recInB s = gl_recInB s := rfl

theorem inv_of_invB {hs : Hist} (h : invB hs = true) : Inv hs := by
  unfold invB invParts at h
  rw [List.all_append] at h
  simp only [Bool.and_eq_true, List.all_cons, List.all_nil, Bool.and_true] at h
  obtain ⟨hw, h1, h2, h3, h4, h5⟩ := h
  have hwf : WF hs := hw
  obtain ⟨w, hl⟩ := (wf_iff_wfs hs).1 hwf
  exact ⟨⟨w, gl_recsOk_of_check (recsOkB_eq _ ▸ h1), gl_fenceOk_of_check (fenceOkB_eq _ ▸ h2),
    gl_tailOk_of_check (tailOkB_eq _ ▸ h3), gl_headOk_of_check (headOkB_eq _ ▸ h4),
    gl_recIn_of_check (recInB_eq _ ▸ h5)⟩, hl⟩

theorem invFirstFailure_none {hs : Hist} (h : invFirstFailure hs = none) : Inv hs := by
  apply inv_of_invB
  unfold invFirstFailure at h
  unfold invB
  rw [List.all_eq_true]
  intro p hp
  cases hb : p.2 with
  | true => rfl
  | false =>
    exfalso
    have : (invParts hs).find? (fun p => !p.2) ≠ none := by
      intro hn
      rw [List.find?_eq_none] at hn
      have := hn p hp
      simp [hb] at this
    cases hf : (invParts hs).find? (fun p => !p.2) with
    | none => exact this hf
    | some q => rw [hf] at h; cases h

end TinyVerif.Dl
