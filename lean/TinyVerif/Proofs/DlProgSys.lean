import TinyVerif.Proofs.DlProgSpec
import TinyVerif.Proofs.DlIndAll
/-!
# PROGRESS of the functions that change the segment list / talk to the OS (tag `sp_`)

`sp_sys_alloc_prog : sys_alloc_Prog`; `sp_release_unused_segments_prog`, `sp_sys_trim_prog`: the two
`_Prog` statements of `DlProgSpec.lean` under the extra hypothesis `FpOk` (`footprint` = sum of the segment
sizes), without which `underflow:footprint` is reachable from an `SInv` state.

Method: an equation `(do …) = .error e` is decomposed by `esimp` into one disjunct per failure point
(`bind_err`, `failIf_err`, …), each carrying the `= .ok` equations of the steps before it; the disjunct is
either an `os-desync` or its guard is refuted from the invariant and those equations.
-/
namespace TinyVerif.Dl

/-! ## the error calculus -/

theorem bind_err {α β : Type} {x : M α} {f : α → M β} {e : String} :
    (x >>= f) = .error e ↔ x = .error e ∨ ∃ a, x = .ok a ∧ f a = .error e := by
  cases x with
  | error e' => simp [bind, Except.bind]
  | ok a => simp [bind, Except.bind]

theorem pure_err {α : Type} {a : α} {e : String} : (pure a : M α) = .error e ↔ False := by
  simp [pure, Except.pure]

theorem throw_err {α : Type} {m e : String} : (throw m : M α) = .error e ↔ m = e := by
  simp [throw, throwThe, MonadExceptOf.throw]

theorem failIf_err {c : Bool} {msg e : String} : failIf c msg = .error e ↔ c = true ∧ msg = e := by
  unfold failIf; cases c <;> simp [pure, Except.pure, throw, throwThe, MonadExceptOf.throw]

/-- normalise a hypothesis `(do …) = .error e` -/
macro "esimp" "at" h:ident : tactic =>
  `(tactic| try simp only [bind_err, pure_err, throw_err, failIf_err, bind_ok, pure_ok, throw_ok, failIf_ok,
      false_and, and_false, exists_false, or_false, false_or] at $h:ident)

theorem popM_err {s : St} {len : Nat} {e : String} (h : popM s len = .error e) : IsDesync e := by
  unfold popM at h
  split at h
  · esimp at h
  · esimp at h; exact Or.inl h.symm

theorem popR_err {s : St} {a o n : Nat} {e : String} (h : popR s a o n = .error e) : IsDesync e := by
  unfold popR at h
  split at h
  · esimp at h
  · esimp at h; exact Or.inr (Or.inl h.symm)

theorem popU_err {s : St} {a l : Nat} {e : String} (h : popU s a l = .error e) : IsDesync e := by
  unfold popU at h
  split at h
  · esimp at h
  · esimp at h; exact Or.inr (Or.inr h.symm)

theorem writeHead_err {h : Heap} {a size : Nat} {c p : Bool} {e : String} (he : writeHead h a size c p = .error e) :
    size % 8 ≠ 0 := by
  intro h8
  rw [writeHead_eq h8] at he
  cases he

theorem sp_modEnt_none {f : Ent → Ent} {l : List Ent} {a : Nat} (h : modEnt f l a = none) : ∀ x ∈ l, x.addr ≠ a := by
  induction l with
  | nil => intro x hx; cases hx
  | cons y ys ih =>
    simp only [modEnt] at h
    split at h
    · cases h
    · rename_i hy
      split at h
      · cases h
      · rename_i hn
        intro x hx
        rcases List.mem_cons.1 hx with rfl | hx
        · exact hy
        · exact ih hn x hx

theorem setFoot_err {h : Heap} {a v : Nat} {e : String} (he : setFoot h a v = .error e) : ∀ x ∈ h.ents, x.addr ≠ a := by
  unfold setFoot at he
  split at he
  · esimp at he
  · rename_i hn; exact sp_modEnt_none hn

theorem clearPin_err {h : Heap} {a : Nat} {e : String} (he : clearPin h a = .error e) : ∀ x ∈ h.ents, x.addr ≠ a := by
  unfold clearPin at he
  split at he
  · esimp at he
  · rename_i hn; exact sp_modEnt_none hn

theorem getE_err {h : Heap} {a : Nat} {e : String} (he : getE h a = .error e) : findEnt h.ents a = none := by
  unfold getE at he
  split at he
  · esimp at he
  · rename_i hn; exact hn

theorem getBin_err {h : Heap} {i : Nat} {e : String} (he : getBin h i = .error e) : h.sbins.length ≤ i := by
  unfold getBin at he
  split at he
  · esimp at he
  · rename_i hn; exact List.getElem?_eq_none_iff.1 hn

theorem getTree_err {h : Heap} {i : Nat} {e : String} (he : getTree h i = .error e) : h.tbins.length ≤ i := by
  unfold getTree at he
  split at he
  · esimp at he
  · rename_i hn; exact List.getElem?_eq_none_iff.1 hn

/-- `insert_chunk` of a chunk of at least 32 bytes cannot fail when both bin arrays have their 32 entries -/
theorem insert_chunk_err {h : Heap} {c sz : Nat} {e : String} (he : insert_chunk h c sz = .error e)
    (hs : h.sbins.length = 32) (ht : h.tbins.length = 32) (h32 : 32 ≤ sz) : False := by
  unfold insert_chunk at he
  split at he
  · rename_i hsm
    unfold insert_small_chunk at he
    dsimp only at he
    esimp at he
    rcases he with ⟨h1, _⟩ | ⟨_, _, he⟩
    · rw [MIN_CHUNK_SIZE_eq] at h1; simp only [decide_eq_true_eq] at h1; omega
    · have := getBin_err he
      have := small_index_lt sz ((is_small_iff sz).1 hsm)
      omega
  · unfold insert_large_chunk at he
    dsimp only at he
    esimp at he
    have := getTree_err he
    have := compute_tree_index_lt sz
    omega

/-! ## composite primitives -/

theorem init_top_err {s : St} {ptr size : Nat} {e : String} (he : init_top s ptr size = .error e)
    (h16 : ptr % 16 = 0) (hlt : ptr + 32 ≤ 2 ^ 64) (h8 : size % 8 = 0) : False := by
  unfold init_top at he
  have hoff : align_offset_usize (ptr + MEM_OFFSET) = 0 := by
    rw [MEM_OFFSET_eq, align_offset_usize_eq (ptr + 16) (by omega)]; omega
  rw [hoff] at he
  simp only [Nat.add_zero, Nat.sub_zero, top_foot_size_eq] at he
  esimp at he
  rcases he with ⟨h1, _⟩ | ⟨_, _, he⟩
  · simp at h1
  · rcases he with he | ⟨_, _, he⟩
    · exact writeHead_err he h8
    · exact writeHead_err he (by decide)

/-- `set_size_and_pinuse_of_free_chunk` fails only if no header sits at the end of the chunk -/
theorem ssf_err {h : Heap} {a n : Nat} {e : String} (he : set_size_and_pinuse_of_free_chunk h a n = .error e)
    (hok : entsOk h.ents = true) (hlow : ∀ y ∈ h.ents, y.addr < a → y.addr + y.size ≤ a) (h8 : n % 8 = 0)
    (hn : 0 < n) {y : Ent} (hy : y ∈ h.ents) (hya : y.addr = a + n) : False := by
  unfold set_size_and_pinuse_of_free_chunk at he
  esimp at he
  rcases he with he | ⟨h1, e1, he⟩
  · exact writeHead_err he h8
  · obtain ⟨_, _, t3⟩ := sg_writeHead_tab e1 hok hn hlow
    exact setFoot_err he y ((t3 y).2 (Or.inr ⟨hy, Or.inr (by omega)⟩)) hya

/-- `set_free_with_pinuse p size (p + size)` fails only if no header sits at `p + size` -/
theorem sfp_err {h : Heap} {a n : Nat} {e : String} (he : set_free_with_pinuse h a n (a + n) = .error e)
    (hok : entsOk h.ents = true) (hlow : ∀ y ∈ h.ents, y.addr < a → y.addr + y.size ≤ a) (h8 : n % 8 = 0)
    (hn : 0 < n) {y : Ent} (hy : y ∈ h.ents) (hya : y.addr = a + n) : False := by
  unfold set_free_with_pinuse at he
  esimp at he
  rcases he with he | ⟨h1, e1, he⟩
  · exact clearPin_err he y hy hya
  · obtain ⟨_, c2, c3⟩ := sg_clearPin_tab e1 hok hy hya
    refine ssf_err he c2 ?_ h8 hn (y := { y with pin := false }) ((c3 _).2 (Or.inl rfl)) hya
    intro z hz hlt
    rcases (c3 z).1 hz with h' | ⟨h', _⟩
    · subst h'; simp only at hlt; omega
    · exact hlow z h' hlt

/-- the fencepost loop has enough fuel: it runs at most `(old_end - p) / 8` times (3 or 5 times in `add_segment`,
whose fuel is 64) -/
theorem fences_err : ∀ (fuel : Nat) {h : Heap} {p oe n : Nat} {e : String}, fences fuel h p oe n = .error e →
    oe ≤ p + 8 * fuel + 8 → 1 ≤ fuel → False := by
  intro fuel
  induction fuel with
  | zero => intro h p oe n e _ _ h1; omega
  | succ k ih =>
    intro h p oe n e he hf _
    unfold fences at he
    rw [SIZEOF_USIZE_eq] at he
    dsimp only at he
    esimp at he
    rcases he with he | ⟨h1, _, he⟩
    · exact writeHead_err he (by decide)
    · split at he
      · rename_i hlt
        exact ih he (by omega) (by omega)
      · esimp at he

/-! ## `sys_alloc_place` does not fail -/

theorem sp_sfp_bins {h h' : Heap} {p n nx : Nat} (e : set_free_with_pinuse h p n nx = .ok h') :
    h'.sbins = h.sbins ∧ h'.tbins = h.tbins := by
  unfold set_free_with_pinuse set_size_and_pinuse_of_free_chunk at e
  msimp at e
  obtain ⟨h1, e1, h2, e2, e3⟩ := e
  have k2 := writeHead_keeps e2
  unfold clearPin at e1
  unfold setFoot at e3
  split at e1
  · msimp at e1
    split at e3
    · msimp at e3
      subst e1; subst e3
      exact ⟨k2.2.2.2.2.1, k2.2.2.2.2.2⟩
    · msimp at e3
  · msimp at e1

theorem sp_place_init_err {s : St} (hi : SInv s) {tbase tsize nb : Nat} (hf : SgFresh s tbase tsize)
    (hsz : 96 ≤ tsize) (ht0 : s.h.top = 0) {q0 : List OsDir} {ev0 : List OsEv} {fp0 mf0 : Nat} {e : String}
    (he : sys_alloc_place { s with osq := q0, evs := ev0, footprint := fp0, maxfp := mf0 } tbase tsize nb = .error e) :
    False := by
  obtain ⟨hnil, _⟩ := sg_empty_of_top0 hi.wfs ht0
  obtain ⟨_, hpos, hend, _⟩ := hf.fresh
  unfold sys_alloc_place at he
  dsimp only at he
  rw [if_pos (by exact ht0)] at he
  simp only [top_foot_size_eq] at he
  esimp at he
  rcases he with ⟨h1, _⟩ | ⟨_, _, he⟩
  · rw [hnil] at h1; simp at h1
  · rcases he with ⟨h1, _⟩ | ⟨_, _, he⟩
    · simp only [decide_eq_true_eq] at h1; omega
    · exact init_top_err he (by have := hf.page; omega) (by omega) (by have := hf.gran; omega)

/-- `top`, its size and alignment in a state whose `top` is not null -/
theorem sp_top_facts {s : St} (w : WFS s) (htn : s.h.top ≠ 0) :
    s.h.top % 16 = 0 ∧ s.h.topsize % 16 = 0 ∧ 16 ≤ s.h.topsize ∧ s.h.top + s.h.topsize + 80 ≤ 2 ^ 64 := by
  obtain ⟨gg, hgg⟩ := sg_segs_of_top w htn
  obtain ⟨g0, rest, pre, x, f, post, hsegs, hes, hxa, hxf, hxs, hfa, hfc, hfp, hfs, hgb, hgt, htop0, hgx, hgf⟩ :=
    w.top_parts (w.topsize_ne hgg)
  have hxm : x ∈ s.h.ents := by rw [hes]; simp
  obtain ⟨a, b, c⟩ := shapeOk_free w.shape hxm (isFree_iff.1 hxf).1
  obtain ⟨_, _, d3⟩ := sg_segsOk_cons w.segs hsegs
  have := d3 g0 List.mem_cons_self
  omega

theorem sp_extend_err {s : St} (hi : SInv s) (htn : s.h.top ≠ 0) {tsize : Nat} (hg : tsize % 65536 = 0)
    {S : St} {e : String}
    (he : init_top S s.h.top (s.h.topsize + tsize) = .error e) : False := by
  obtain ⟨a, b, c, d⟩ := sp_top_facts hi.wfs htn
  exact init_top_err he a (by omega) (by omega)

/-- **`add_segment` does not fail**: the head segment holds `top`, nothing underflows, the record address is
aligned, the fencepost loop has fuel left and writes at least two fenceposts, the header writes find the headers
they modify -/
theorem sp_add_segment_err {s : St} (hi : SInv s) (htn : s.h.top ≠ 0) {tbase tsize : Nat} (hf : SgFresh s tbase tsize)
    (hsz : 96 ≤ tsize) {q0 : List OsDir} {ev0 : List OsEv} {fp0 mf0 la0 : Nat} {e : String}
    (he : add_segment { s with osq := q0, evs := ev0, footprint := fp0, maxfp := mf0, least_addr := la0 } tbase tsize = .error e) :
    False := by
  have w := hi.wfs
  obtain ⟨gg, hgg⟩ := sg_segs_of_top w htn
  obtain ⟨g0, rest, pre, x, f, post, hsegs, hes, hxa, hxf, hxs, hfa, hfc, hfp, hfs, hgb, hgt, htop0, hgx, hgf⟩ :=
    w.top_parts (w.topsize_ne hgg)
  have hes' : s.h.ents = pre ++ [x, f] ++ post := by rw [hes]; simp
  have hg0 : g0 ∈ s.segs := by rw [hsegs]; exact List.mem_cons_self
  obtain ⟨d1, d2, d3⟩ := sg_segsOk_cons w.segs hsegs
  have hd0 := d3 g0 List.mem_cons_self
  have hxm : x ∈ s.h.ents := by rw [hes]; simp
  obtain ⟨hxc, hxp⟩ := isFree_iff.1 hxf
  obtain ⟨hx16, hxs16, hxs16'⟩ := shapeOk_free w.shape hxm hxc
  obtain ⟨_, hpos, hlim, hfr⟩ := hf.fresh
  have hfresh := sg_fresh_ents w hfr
  have hpos0 := entsOk_pos w.ents
  unfold add_segment at he
  dsimp only at he
  split at he
  · -- some segment holds `top`
    rename_i hnone
    unfold segment_holding at hnone
    have := List.find?_eq_none.1 hnone g0 hg0
    unfold Seg.holds Seg.top at this
    simp only [Bool.and_eq_true, decide_eq_true_eq] at this
    omega
  · rename_i oldsp hsh
    obtain ⟨hsp, hsph⟩ := sg_segment_holding hsh
    have hspx : inSeg oldsp x = true := by
      unfold Seg.holds Seg.top at hsph
      simp only [Bool.and_eq_true, decide_eq_true_eq] at hsph
      rw [inSeg_iff]; omega
    have : g0 = oldsp := (sg_seg_unique w.segsDisjoint hsp hg0 hspx hgx).symm
    subst this
    unfold Seg.top at he
    rw [sg_addseg_csp (top := s.h.top) (topsize := s.h.topsize) (by omega) (by omega) (by omega) (by omega) (by omega)] at he
    simp only [sg_pad_seg, SIZEOF_USIZE_eq, MALLOC_ALIGNMENT_eq, MEM_OFFSET_eq, top_foot_size_eq] at he
    esimp at he
    rcases he with ⟨h1, _⟩ | ⟨_, _, he⟩
    · simp only [decide_eq_true_eq] at h1; omega
    rcases he with ⟨h1, _⟩ | ⟨_, _, he⟩
    · simp only [decide_eq_true_eq] at h1; omega
    rcases he with he | ⟨s1, hinit, he⟩
    · exact init_top_err he (by have := hf.page; omega) (by omega) (by have := hf.gran; omega)
    rcases he with ⟨h1, _⟩ | ⟨_, _, he⟩
    · simp only [Bool.not_eq_true', ← Bool.not_eq_true, is_aligned_iff] at h1
      split at h1 <;> omega
    unfold set_size_and_pinuse_of_inuse_chunk at he
    rcases he with he | ⟨h1, eR, he⟩
    · exact writeHead_err he (by decide)
    rcases he with he | ⟨⟨h2, nf⟩, eF, he⟩
    · refine fences_err 64 he ?_ (by omega)
      split <;> omega
    -- what the table looks like after the fencepost loop
    have hcsp : ((if s.h.topsize < 32 then s.h.top else s.h.top + s.h.topsize) = s.h.top + s.h.topsize ∧ 32 ≤ s.h.topsize) ∨
        ((if s.h.topsize < 32 then s.h.top else s.h.top + s.h.topsize) = s.h.top ∧ s.h.topsize = 16) := by
      split
      · right; exact ⟨rfl, by omega⟩
      · left; exact ⟨rfl, by omega⟩
    obtain ⟨p1, p2, p3, p4, pfR, p5⟩ := sg_addseg_pre (S := { s with osq := q0, evs := ev0, footprint := fp0, maxfp := mf0, least_addr := la0 })
      w rfl hsegs hes' hxa hxs (by omega) hfa hfs hgb hgt hfr hf.page hlim (by have := hf.gran; omega) hsz hinit hcsp eR eF
    dsimp only at he
    rcases he with ⟨h1, _⟩ | ⟨_, _, he⟩
    · simp only [decide_eq_true_eq] at h1
      rw [p4] at h1
      rcases hcsp with ⟨hc, _⟩ | ⟨hc, _⟩ <;> rw [hc] at h1 <;> omega
    -- `add_segment_oldtop`
    unfold add_segment_oldtop at he
    dsimp only at he
    by_cases hsm : s.h.topsize < 32
    · rw [if_pos hsm, if_neg (by simp)] at he
      esimp at he
    · rw [if_neg hsm, if_pos (by omega), Nat.add_sub_cancel_left] at he
      rw [if_neg hsm] at p5 p4
      esimp at he
      have hlow : ∀ y ∈ h2.ents, y.addr < s.h.top → y.addr + y.size ≤ s.h.top := by
        intro y hy hlt
        have hside := hfr g0 hg0
        rcases (p5 y).1 hy with h | h | h | h | h
        · subst h; simp only at hlt ⊢; omega
        · subst h; simp only at hlt ⊢; omega
        · subst h; simp only at hlt; omega
        · obtain ⟨i, _, hi⟩ := sg_mem_fenceList.1 h
          subst hi; simp only at hlt; omega
        · have := entsOk_sep w.ents y h.1 x hxm (by omega); omega
      rcases he with he | ⟨h3, eS, he⟩
      · exact sfp_err he p3 hlow (by omega) (by omega)
          (y := { addr := s.h.top + s.h.topsize, size := 48, cin := true, pin := true, pfoot := pfR })
          ((p5 _).2 (Or.inr (Or.inr (Or.inl rfl)))) rfl
      · obtain ⟨b1, b2⟩ := sp_sfp_bins eS
        have hl1 := w.sbins
        have hl2 := w.tbins
        simp only [Bool.and_eq_true, decide_eq_true_eq] at hl1 hl2
        refine insert_chunk_err he ?_ ?_ (by omega)
        · show h3.sbins.length = 32; rw [b1, p2]; exact hl1.1
        · show h3.tbins.length = 32; rw [b2, p2]; exact hl2.1

/-- **`prepend_alloc` does not fail** -/
theorem sp_prepend_err {s : St} (hi : SInv s) (htn : s.h.top ≠ 0) {tbase tsize nb : Nat} (hf : SgFresh s tbase tsize)
    (hnb : NbOk nb) (hsz : nb + 96 ≤ tsize) {sq : Seg} (hsq : sq ∈ s.segs) (hsqb : sq.base = tbase + tsize)
    {S : St} (hS : S.h.ents = s.h.ents ∧ S.h.sbins = s.h.sbins ∧ S.h.tbins = s.h.tbins ∧ S.h.dv = s.h.dv ∧
      S.h.dvsize = s.h.dvsize ∧ S.h.top = s.h.top ∧ S.h.topsize = s.h.topsize) {e : String}
    (he : prepend_alloc S tbase sq.base nb = .error e) : False := by
  have w := hi.wfs
  obtain ⟨hS1, hS2, hS3, hS4, hS5, hS6, hS7⟩ := hS
  obtain ⟨_, hpos, hlim, hfr⟩ := hf.fresh
  have hsg := w.segs
  unfold segsOk at hsg
  simp only [Bool.and_eq_true, List.all_eq_true, decide_eq_true_eq, top_foot_size_eq] at hsg
  have hsqz := hsg.2 sq hsq
  have hpos0 := entsOk_pos w.ents
  have hfresh := sg_fresh_ents w hfr
  obtain ⟨eo, T, hsqe, heom, heoa, heop⟩ := sg_first_entry w hsq
  have hl1 := w.sbins
  have hl2 := w.tbins
  simp only [Bool.and_eq_true, decide_eq_true_eq] at hl1 hl2
  have hp1 : align_as_chunk tbase = tbase := align_as_chunk_aligned tbase (by have := hf.page; omega) (by omega)
  have hp2 : align_as_chunk sq.base = sq.base := align_as_chunk_aligned sq.base (by omega) (by omega)
  unfold prepend_alloc at he
  dsimp only at he
  rw [hp1, hp2, MEM_OFFSET_eq, MIN_CHUNK_SIZE_eq] at he
  have hq : sq.base - tbase - nb = tsize - nb := by omega
  simp only [hq] at he
  esimp at he
  rcases he with ⟨h1, _⟩ | ⟨_, _, he⟩
  · simp only [decide_eq_true_eq] at h1; omega
  unfold set_size_and_pinuse_of_inuse_chunk at he
  rcases he with he | ⟨hP, eP, he⟩
  · exact writeHead_err he (by have := hnb.1; omega)
  -- the table after the request chunk `P` was written
  obtain ⟨p1, p2, p3⟩ := sg_writeHead_tab eP (by rw [hS1]; exact w.ents) (by have := hnb.2.1; omega) (by
    intro y hy hlt
    rw [hS1] at hy
    have := hpos0 y hy
    rcases hfresh y hy with h | h <;> omega)
  have hold : ∀ z ∈ s.h.ents, z ∈ hP.ents := by
    intro z hz
    refine (p3 z).2 (Or.inr ⟨by rw [hS1]; exact hz, ?_⟩)
    have := hpos0 z hz
    rcases hfresh z hz with h | h <;> omega
  have hPin : ∀ z ∈ hP.ents, (z.addr = tbase ∧ z.size = nb) ∨ z ∈ s.h.ents := by
    intro z hz
    rcases (p3 z).1 hz with h | ⟨h, _⟩
    · left; subst h; exact ⟨rfl, rfl⟩
    · right; rw [← hS1]; exact h
  have hlowq : ∀ y ∈ hP.ents, y.addr < tbase + nb → y.addr + y.size ≤ tbase + nb := by
    intro y hy hlt
    rcases hPin y hy with h | h
    · omega
    · have := hpos0 y h
      rcases hfresh y h with h' | h' <;> omega
  have hPs : hP.sbins = s.h.sbins := by rw [p1]; exact hS2
  have hPt : hP.tbins = s.h.tbins := by rw [p1]; exact hS3
  have hPdv : hP.dv = s.h.dv := by rw [p1]; exact hS4
  have hPdvs : hP.dvsize = s.h.dvsize := by rw [p1]; exact hS5
  have hPtop : hP.top = s.h.top := by rw [p1]; exact hS6
  have hPtops : hP.topsize = s.h.topsize := by rw [p1]; exact hS7
  have heoP : findEnt hP.ents sq.base = some eo := by rw [← heoa]; exact entsOk_find eo (hold eo heom) p2
  rcases he with he | ⟨eo', heo', he⟩
  · rw [getE_err he] at heoP; cases heoP
  have : eo = eo' := by rw [getE_ok.1 heo'] at heoP; injection heoP with h; exact h.symm
  subst this
  rcases he with ⟨h1, _⟩ | ⟨_, _, he⟩
  · simp only [Bool.not_eq_true', decide_eq_false_iff_not] at h1; omega
  rcases he with ⟨h1, _⟩ | ⟨_, _, he⟩
  · rw [heop] at h1; cases h1
  rcases he with ⟨h1, _⟩ | ⟨_, _, he⟩
  · simp only [decide_eq_true_eq] at h1; omega
  -- the four branches
  have hfree_sz : ∀ z ∈ s.h.ents, isFree z = true → z.size % 16 = 0 :=
    fun z hz hfz => (shapeOk_free w.shape hz (isFree_iff.1 hfz).1).2.1
  have hgran := hf.gran
  have hnb16 := hnb.1
  split at he
  · -- prepend-top
    rename_i htp
    esimp at he
    obtain ⟨a, b, c, d⟩ := sp_top_facts w htn
    exact writeHead_err he (by rw [hPtops]; omega)
  · rename_i hntp
    rw [hPtop] at hntp
    split at he
    · -- prepend-dv
      rename_i hdvp
      rw [hPdv] at hdvp
      esimp at he
      obtain ⟨xd, hxdm, hxda, hxdf, hxds, hd32, hdv0, _⟩ := w.dv_parts (by
        intro h0
        have hd := w.dv
        unfold dvOk at hd
        by_cases hz : s.h.dv = 0
        · omega
        · rw [if_neg hz] at hd
          split at hd
          · simp only [Bool.and_eq_true, decide_eq_true_eq] at hd; omega
          · cases hd)
      obtain ⟨_, y, _, _, hes0, _, _, _, hya, _, _, _⟩ := w.free_parts hxdm hxdf (by omega)
      have hym : y ∈ s.h.ents := by rw [hes0]; simp
      have hds16 := hfree_sz xd hxdm hxdf
      refine ssf_err he (by exact p2) hlowq (by rw [hPdvs]; omega) (by omega) (y := y) (hold y hym) ?_
      rw [hPdvs]; omega
    · rename_i hndvp
      rw [hPdv] at hndvp
      split at he
      · -- prepend-free
        rename_i hninuse
        have hef := sg_not_inuse hninuse
        have hes16 := hfree_sz eo heom hef
        obtain ⟨_, y, _, _, hes0, _, _, _, hya, _, _, _⟩ := w.free_parts heom hef (by omega)
        have hym : y ∈ s.h.ents := by rw [hes0]; simp
        -- the chunk is binned
        have hbinned : sq.base ∈ binned s.h := by
          have := ((freeListOk_iff s.h).1 w.freeList).2.1 eo heom hef
          rw [mem_freeList] at this
          rcases this with h | h | h
          · omega
          · omega
          · rw [← heoa]; exact h
        have hfk : ∀ a ∈ binned s.h, findEnt hP.ents a = findEnt s.h.ents a := by
          intro a ha
          obtain ⟨z, hz, hza⟩ := w.freeList_entry (mem_freeList_of_binned ha)
          rw [← hza, entsOk_find z (hold z hz) p2, entsOk_find z hz w.ents]
        have hsbP : sbinsOk hP = true := sbinsOk_frame (h := s.h) w.sbins hPs
          (fun a ha => hfk a (List.mem_append.2 (Or.inl ha)))
        have htbP : tbinsOk hP = true := tbinsOk_frame (h := s.h) w.tbins hPt
          (fun a ha => hfk a (List.mem_append.2 (Or.inr ha)))
        obtain ⟨hU', eU'⟩ := unlink_chunk_progress hsbP htbP
          (by rw [binned_congr hPs hPt]; exact hbinned) (sizeAt_iff.2 ⟨eo, heoP, rfl⟩)
        esimp at he
        rcases he with he | ⟨hU, eU, he⟩
        · rw [eU'] at he; cases he
        have hUf := unlink_chunk_frame eU
        have hUb := unlink_chunk_binsOk eU hsbP htbP
        have hnx : sq.base + eo.size = tbase + nb + (tsize - nb + eo.size) := by omega
        rw [hnx] at he
        rcases he with he | ⟨hS', eS, he⟩
        · refine sfp_err he (by rw [hUf.ents]; exact p2) (by rw [hUf.ents]; exact hlowq) (by omega) (by omega)
            (y := y) (by rw [hUf.ents]; exact hold y hym) (by omega)
        · obtain ⟨b1, b2⟩ := sp_sfp_bins eS
          unfold sbinsOk tbinsOk at hUb
          simp only [Bool.and_eq_true, decide_eq_true_eq] at hUb
          refine insert_chunk_err he ?_ ?_ (by omega)
          · show hS'.sbins.length = 32; rw [b1]; exact hUb.1.1
          · show hS'.tbins.length = 32; rw [b2]; exact hUb.2.1
      · -- prepend-inuse
        esimp at he
        have hnx : sq.base = tbase + nb + (tsize - nb) := by omega
        rw [hnx] at he
        rcases he with he | ⟨hS', eS, he⟩
        · exact sfp_err he p2 hlowq (by omega) (by omega) (y := eo) (hold eo heom) (by omega)
        · obtain ⟨b1, b2⟩ := sp_sfp_bins eS
          refine insert_chunk_err he ?_ ?_ (by omega)
          · show hS'.sbins.length = 32; rw [b1, hPs]; exact hl1.1
          · show hS'.tbins.length = 32; rw [b2, hPt]; exact hl2.1

/-- **the middle of `sys_alloc` does not fail** -/
theorem sp_place_err {s : St} (hi : SInv s) {tbase tsize nb : Nat} (hf : SgFresh s tbase tsize) (hnb : NbOk nb)
    (hsz : nb + 96 ≤ tsize) {q0 : List OsDir} {ev0 : List OsEv} {fp0 mf0 : Nat} {e : String}
    (he : sys_alloc_place { s with osq := q0, evs := ev0, footprint := fp0, maxfp := mf0 } tbase tsize nb = .error e) :
    False := by
  by_cases ht0 : s.h.top = 0
  · exact sp_place_init_err hi hf (by omega) ht0 he
  · unfold sys_alloc_place at he
    dsimp only at he
    rw [if_neg ht0] at he
    split at he
    · esimp at he
      exact sp_extend_err hi ht0 hf.gran he
    · split at he
      · rename_i sq hfnd
        have hsq : sq ∈ s.segs := find?_mem hfnd
        have hsqb : sq.base = tbase + tsize := by
          have := List.find?_some hfnd
          simpa using this
        esimp at he
        refine sp_prepend_err hi ht0 hf hnb hsz hsq hsqb ?_ he
        exact ⟨rfl, rfl, rfl, rfl, rfl, rfl, rfl⟩
      · esimp at he
        exact sp_add_segment_err hi ht0 hf (by omega) he

/-- **`sys_alloc` fails only by `os-desync:mmap`** -/
theorem sp_sys_alloc_prog : sys_alloc_Prog := by
  intro s hi nb hnb hos e he
  unfold sys_alloc at he
  dsimp only at he
  esimp at he
  rcases he with he | ⟨⟨res, s1⟩, hp, he⟩
  · exact popM_err he
  obtain ⟨q, hq, hs1⟩ := popM_spec hp
  dsimp only at he
  split at he
  · esimp at he
  · rename_i tbase
    obtain ⟨hfresh, hpage⟩ := hos tbase q hq
    obtain ⟨l1, l2, _⟩ := sg_sysLen hnb
    subst hs1
    esimp at he
    rcases he with he | ⟨r, hr, he⟩
    · exact (sp_place_err hi (tsize := sysLen nb) ⟨hfresh, hpage, l1⟩ hnb l2 he).elim
    · have hres : SgPlaceRes s nb r :=
        sg_place_of_prepend sg_prepend_spec hi ⟨_, _, _, _, rfl⟩ (tsize := sysLen nb) ⟨hfresh, hpage, l1⟩ hnb l2 hr
      cases r with
      | inr r => dsimp only at he; esimp at he
      | inl s2 =>
        obtain ⟨r1, _⟩ := hres
        dsimp only at he
        split at he
        · rename_i hlt
          have htn : s2.h.top ≠ 0 := by
            intro h0
            have := sg_empty_of_top0 r1.wfs h0
            have ht := r1.wfs.top
            unfold topOk at ht
            rw [this.1] at ht
            simp only [Bool.and_eq_true, decide_eq_true_eq] at ht
            omega
          obtain ⟨a, b, c, d⟩ := sp_top_facts r1.wfs htn
          unfold set_size_and_pinuse_of_inuse_chunk at he
          esimp at he
          rcases he with he | ⟨_, _, he⟩
          · exact (writeHead_err he (by have := hnb.1; omega)).elim
          · exact (writeHead_err he (by have := hnb.1; omega)).elim
        · esimp at he

/-! ## every non-head segment holds its record (`debug_assert:segment-holds-its-record`) -/

/-- forward along the headers of a segment that does not contain `top`: from an in-use header one reaches a
fencepost -/
theorem sp_fence_after {s : St} (hi : SInv s) {g : Seg} (hg : g ∈ s.segs)
    (hnt : ¬ (g.base ≤ s.h.top ∧ s.h.top < g.base + g.size)) :
    ∀ n (z : Ent), z ∈ s.h.ents → inSeg g z = true → z.cin = true → g.base + g.size - z.addr ≤ n →
      ∃ f ∈ s.h.ents, inSeg g f = true ∧ f.size = 8 := by
  have w := hi.wfs
  intro n
  induction n with
  | zero =>
    intro z hz hgz _ hn
    rw [inSeg_iff] at hgz; omega
  | succ n ih =>
    intro z hz hgz hzc hn
    by_cases h8 : z.size = 8
    · exact ⟨z, hz, hgz, h8⟩
    · have hnt' : isTrailerEnd z = false := by
        simp only [isTrailerEnd, hzc, Bool.not_true, Bool.false_and, Bool.false_or, decide_eq_false_iff_not]
        exact h8
      obtain ⟨pre, post, hes⟩ := List.append_of_mem hz
      obtain ⟨y, post', hp, hya, hgy, hl⟩ := next_entry w.struct hes hg hgz hnt'
      have hym : y ∈ s.h.ents := by rw [hes, hp]; simp
      have hzpos := entsOk_pos w.ents z hz
      by_cases hyc : y.cin = true
      · exact ih y hym hgy hyc (by omega)
      · -- a free chunk other than `top`: the header after it is in use
        have hyp : y.pin = true := by
          simp only [linkOk, Bool.and_eq_true, beq_iff_eq] at hl
          rw [hl.1, hzc]
        have hyf : isFree y = true := by simp [isFree, hyc, hyp]
        have hyt : y.addr ≠ s.h.top := by
          intro h
          rw [inSeg_iff] at hgy; omega
        obtain ⟨_, y2, _, g2, hes2, hg2, hgy2, hgy22, hy2a, hy2c, _, _⟩ := w.free_parts hym hyf hyt
        have : g2 = g := sg_seg_unique w.segsDisjoint hg2 hg hgy2 hgy
        subst this
        have hypos := entsOk_pos w.ents y hym
        exact ih y2 (by rw [hes2]; simp) hgy22 hy2c (by omega)

/-- backward from a fencepost one reaches the record chunk of the segment -/
theorem sp_record_before {s : St} (hi : SInv s) {g : Seg} (hg : g ∈ s.segs) :
    ∀ n (f : Ent), f ∈ s.h.ents → inSeg g f = true → f.size = 8 → f.addr ≤ n →
      ∃ r ∈ s.h.ents, inSeg g r = true ∧ isRecord s.segs r = true := by
  have w := hi.wfs
  have hft := (sg_fenceOk_iff_tab w.ents).1 hi.fence
  intro n
  induction n with
  | zero =>
    intro f hf _ _ hn
    have := w.addr_pos hf; omega
  | succ n ih =>
    intro f hf hgf h8 hn
    have hnb : f.addr ≠ g.base := fun h => hi.head g hg f hf h h8
    obtain ⟨x, hx, hgx, hfa, _⟩ := gl_prev_entry w.struct hf hg hgf hnb
    have hxpos := entsOk_pos w.ents x hx
    rcases hft x hx f hf h8 hfa with h | h
    · exact ih x hx hgx h (by omega)
    · exact ⟨x, hx, hgx, h⟩

/-- **a segment that does not contain `top` holds its own record** -/
theorem sp_nonhead_holds {s : St} (hi : SInv s) {g : Seg} (hg : g ∈ s.segs)
    (hnt : ¬ (g.base ≤ s.h.top ∧ s.h.top < g.base + g.size)) : g.holds g.recAt = true := by
  have w := hi.wfs
  obtain ⟨e, T, _, hem, hea, hep⟩ := sg_first_entry w hg
  have hsg := w.segs
  unfold segsOk at hsg
  simp only [Bool.and_eq_true, List.all_eq_true, decide_eq_true_eq, top_foot_size_eq] at hsg
  have hgz := hsg.2 g hg
  have hge : inSeg g e = true := by rw [inSeg_iff]; omega
  -- an in-use header of the segment
  have hcin : ∃ z ∈ s.h.ents, inSeg g z = true ∧ z.cin = true := by
    by_cases hc : e.cin = true
    · exact ⟨e, hem, hge, hc⟩
    · have hf : isFree e = true := by simp [isFree, hc, hep]
      obtain ⟨_, y, _, g2, hes2, hg2, hge2, hgy2, _, hyc, _, _⟩ := w.free_parts hem hf (by omega)
      have : g2 = g := sg_seg_unique w.segsDisjoint hg2 hg hge2 hge
      subst this
      exact ⟨y, by rw [hes2]; simp, hgy2, hyc⟩
  obtain ⟨z, hz, hgz', hzc⟩ := hcin
  obtain ⟨f, hf, hgf, h8⟩ := sp_fence_after hi hg hnt _ z hz hgz' hzc (Nat.le_refl _)
  obtain ⟨r, hr, hgr, hrec⟩ := sp_record_before hi hg _ f hf hgf h8 (Nat.le_refl _)
  obtain ⟨g', hg', hga⟩ := sg_isRecord_iff.1 hrec
  have hri := hi.recin g' hg' (by omega)
  have : g' = g := sg_seg_unique w.segsDisjoint hg' hg (by rw [inSeg_iff]; omega) hgr
  subst this
  unfold Seg.holds Seg.top
  simp only [Bool.and_eq_true, decide_eq_true_eq]
  omega

/-! ## `releaseLoop`, `release_unused_segments`, `trim_top`, `sys_trim`

`underflow:footprint` is not excluded by `SInv` (which reads `footprint` only while there is no segment): the
bookkeeping invariant `FpOk` is needed in addition. -/

/-- the footprint is the sum of the segment sizes (inductive: `step_book` / `step_fp` of `Proofs/DlStep.lean`) -/

theorem sp_segSum_eq (l : List Seg) : segSum l = (l.map (·.size)).sum := by
  induction l with
  | nil => rfl
  | cons g gs ih => simp [segSum, ih]

theorem sp_segSum_append (a b : List Seg) : segSum (a ++ b) = segSum a + segSum b := by
  induction a with
  | nil => simp [segSum]
  | cons g gs ih => simp only [List.cons_append, segSum, ih]; omega

/-- a free first chunk that is neither `top` nor `dv` and has at least 256 bytes sits in a tree bin -/
theorem sp_in_tbins {s : St} (w : WFS s) {e : Ent} (he : e ∈ s.h.ents) (hf : isFree e = true)
    (ht : e.addr ≠ s.h.top) (hd : e.addr ≠ s.h.dv) (h256 : 256 ≤ e.size) :
    e.addr ∈ joinAll (s.h.tbins.map Tree.members) := by
  have := ((freeListOk_iff s.h).1 w.freeList).2.1 e he hf
  rw [mem_freeList] at this
  rcases this with h | h | h
  · exact absurd h.2 ht
  · exact absurd h.2 hd
  · unfold binned at h
    rcases List.mem_append.1 h with h | h
    · have := sbins_size_lt (h := s.h) w.sbins h (sizeAt_iff.2 ⟨e, entsOk_find e he w.ents, rfl⟩)
      omega
    · exact h

theorem sp_releaseLoop (rest : List Seg) : ∀ {s : St} {pref : List Seg} {rel n : Nat},
    pref ≠ [] → SInv { s with segs := pref ++ rest } → segSum (pref ++ rest) ≤ s.footprint →
    Prog (releaseLoop rest s rel n) := by
  induction rest with
  | nil =>
    intro s pref rel n _ _ _ e he
    unfold releaseLoop at he
    esimp at he
  | cons g rest ih =>
    intro s pref rel n hpref hi hfp e he
    have w := hi.wfs
    have happ : (pref ++ [g]) ++ rest = pref ++ g :: rest := by simp
    have hpref' : pref ++ [g] ≠ [] := by simp
    have hgm : g ∈ pref ++ g :: rest := by simp
    have hsg := w.segs
    unfold segsOk at hsg
    simp only [Bool.and_eq_true, List.all_eq_true, decide_eq_true_eq, top_foot_size_eq] at hsg
    have hgsz := hsg.2 g hgm
    have hp : align_as_chunk g.base = g.base := align_as_chunk_aligned g.base (by omega) (by omega)
    obtain ⟨e0, T, _, he0m, he0a, he0p⟩ := sg_first_entry (s := { s with segs := pref ++ g :: rest }) w hgm
    have hfe0 : findEnt s.h.ents g.base = some e0 := by rw [← he0a]; exact entsOk_find e0 he0m w.ents
    -- `top` lies in the head segment, not in `g`
    have hnt : ¬ (g.base ≤ s.h.top ∧ s.h.top < g.base + g.size) := by
      obtain ⟨g0, pref', hpc⟩ : ∃ g0 pref', pref = g0 :: pref' := by
        cases pref with
        | nil => exact absurd rfl hpref
        | cons a l => exact ⟨a, l, rfl⟩
      subst hpc
      obtain ⟨g0', rest0, _, xt, _, _, hsegs0, _, hxta, _, _, _, _, _, _, hgb, hgt, _, _, _⟩ :=
        w.top_parts (w.topsize_ne hgm)
      have hg0eq : g0' = g0 := by
        change (g0 :: pref') ++ g :: rest = g0' :: rest0 at hsegs0
        simp only [List.cons_append, List.cons.injEq] at hsegs0
        exact hsegs0.1.symm
      subst hg0eq
      have := sg_disjoint_of_split (pref := g0' :: pref') (rest := rest) (g := g) w.segsDisjoint g0' (by simp)
      have hts := w.topsize_ne hgm
      change s.h.topsize ≠ 0 at hts
      change g0'.base ≤ s.h.top at hgb
      change s.h.top + s.h.topsize + 80 = _ at hgt
      omega
    have hsum : segSum (pref ++ g :: rest) = segSum (pref ++ rest) + g.size := by
      rw [sp_segSum_append, sp_segSum_append]; simp only [segSum]; omega
    unfold releaseLoop at he
    dsimp only at he
    rw [hp] at he
    esimp at he
    rcases he with he | ⟨e1, he1, he⟩
    · rw [getE_err he] at hfe0; cases hfe0
    have : e0 = e1 := by rw [getE_ok.1 he1] at hfe0; injection hfe0 with h; exact h.symm
    subst this
    rcases he with ⟨h1, _⟩ | ⟨_, _, he⟩
    · simp only [decide_eq_true_eq, top_foot_size_eq] at h1; omega
    split at he
    · rename_i hc
      simp only [Bool.and_eq_true, decide_eq_true_eq, ge_iff_le, top_foot_size_eq] at hc
      obtain ⟨hc1, hc2⟩ := hc
      have hfree := sg_not_inuse hc1
      esimp at he
      rcases he with ⟨h1, _⟩ | ⟨_, hholds, he⟩
      · have := sp_nonhead_holds hi hgm hnt
        rw [this] at h1; cases h1
      simp only [Bool.not_eq_false'] at hholds
      have hrec : g.recAt ≠ 0 := by
        unfold Seg.holds at hholds
        simp only [Bool.and_eq_true, decide_eq_true_eq] at hholds
        omega
      rcases he with he | ⟨h1, hh1, he⟩
      · -- the first chunk can be taken off the free lists
        split at he
        · esimp at he
        · rename_i hndv
          have hin := sp_in_tbins (s := { s with segs := pref ++ g :: rest }) w he0m hfree
            (by rw [he0a]; intro h; change g.base = s.h.top at h; exact hnt ⟨by omega, by omega⟩) (by rw [he0a]; exact hndv) (by omega)
          rw [he0a] at hin
          obtain ⟨h', e'⟩ := unlink_large_chunk_progress (h := s.h) w.tbins hin
          rw [e'] at he; cases he
      obtain ⟨u1, u2, u3, u4, u5, u6, u7⟩ :=
        sg_release_unlink (V := { s with segs := pref ++ g :: rest }) hi (p := g.base) hh1 (by omega)
      rcases he with he | ⟨⟨ok, s1⟩, hu, he⟩
      · exact popU_err he
      obtain ⟨q, hq, hs1⟩ := popU_spec hu
      subst hs1
      dsimp only at he
      split at he
      · esimp at he
        rcases he with ⟨h1', _⟩ | ⟨_, _, he⟩
        · simp only [decide_eq_true_eq] at h1'
          change s.footprint < g.size at h1'
          omega
        · refine ih (pref := pref) hpref ?_ ?_ e he
          · have key := fun V' a b c d e f g' h i =>
              (sg_release_seg (V := { s with segs := pref ++ g :: rest }) (V' := V') hi rfl hpref hrec hfe0 hfree
                (by omega) u1 u2 u4 u5 u6 u7 a b c d e f g' h i).1
            exact key _ (by show (dropEnts h1 g.base g.top).ents = _; unfold dropEnts; rw [u1]) rfl rfl rfl rfl u2 u3
              rfl rfl
          · show segSum (pref ++ rest) ≤ s.footprint - g.size
            omega
      · esimp at he
        rcases he with he | ⟨h2, hins, he⟩
        · -- re-inserting the chunk into its tree bin
          unfold insert_large_chunk at he
          dsimp only at he
          esimp at he
          have := getTree_err he
          have := compute_tree_index_lt e0.size
          unfold tbinsOk at u6
          simp only [Bool.and_eq_true, decide_eq_true_eq] at u6
          have hl := u6.1
          omega
        · have f := insert_large_chunk_frame hins
          have he2 : h2.ents = s.h.ents := by rw [f.1.ents, u1]
          refine ih (pref := pref ++ [g]) hpref' ?_ ?_ e he
          · refine sg_sinv_bins (V := { s with segs := pref ++ g :: rest }) hi (by simp) he2 happ ?_ ?_ rfl ?_ ?_ ?_ ?_
            · show h2.top = s.h.top; rw [f.1.top, u2]
            · show h2.topsize = s.h.topsize; rw [f.1.topsize, u3]
            · refine sg_freeListOk_perm (h := s.h) (h' := h2.tag "segment-unmap-refused") he2 ?_ w.freeList
              exact (insert_large_chunk_freeList hins).trans u4.symm
            · show sbinsOk h2 = true
              rw [insert_large_chunk_sbinsOk hins]; exact u5
            · show tbinsOk h2 = true
              refine insert_large_chunk_tbinsOk hins (by omega) (by rw [u1]; exact sg_entsLt w) ?_ u6
              rw [u1, sizeAt_iff]; exact ⟨e0, hfe0, rfl⟩
            · show dvOk h2 = true
              unfold dvOk at u7 ⊢
              rw [f.1.dv, f.1.dvsize, f.1.ents]; exact u7
          · rw [happ]; exact hfp
    · esimp at he
      refine ih (pref := pref ++ [g]) hpref' ?_ ?_ e he
      · rw [happ]; exact hi
      · rw [happ]; exact hfp

/-- **`release_unused_segments` fails only by `os-desync:munmap`** -/
theorem sp_release_unused_segments_prog : release_unused_segments_Prog := by
  intro s hi hfp e he
  unfold release_unused_segments at he
  split at he
  · esimp at he
  · rename_i hd rest hsegs
    esimp at he
    refine sp_releaseLoop rest (pref := [hd]) (by simp)
      (sg_sinv_same hi ⟨rfl, rfl, rfl, rfl, rfl, rfl, rfl⟩ (by simp [hsegs]) rfl (fun _ => rfl)) ?_ e he
    unfold FpOk at hfp
    rw [hfp, hsegs, sp_segSum_eq]
    simp

theorem sp_fp_of_book {s s' : St} (hfp : FpOk s) (hb : Book s s') : FpOk s' := by
  unfold FpOk at *
  have := hb.fp
  rw [sp_segSum_eq, sp_segSum_eq] at this
  omega

theorem sp_size_le_fp {s : St} (hfp : FpOk s) {g : Seg} (hg : g ∈ s.segs) : g.size ≤ s.footprint := by
  unfold FpOk at hfp
  rw [hfp, ← sp_segSum_eq]
  obtain ⟨a, b, hab⟩ := List.append_of_mem hg
  rw [hab, sp_segSum_append]
  simp only [segSum]; omega

theorem trim_release_err {s : St} {sp : Seg} {extra : Nat} {e : String} (he : trim_release s sp extra = .error e) :
    IsDesync e := by
  unfold trim_release at he
  dsimp only at he
  split at he
  · esimp at he
    rcases he with he | ⟨⟨ok, s1⟩, _, he⟩
    · exact popR_err he
    · dsimp only at he
      split at he
      · esimp at he
      · esimp at he
        exact popU_err he
  · esimp at he

/-- **`trim_top` fails only by `os-desync:mremap/munmap`** -/
theorem sp_trim_top_prog {s : St} (hi : SInv s) (hfp : FpOk s) {pad : Nat} : Prog (trim_top s pad) := by
  intro e he
  have w := hi.wfs
  unfold trim_top at he
  dsimp only at he
  split at he
  · rename_i hgt0
    have htn : s.h.top ≠ 0 := by
      intro h0
      have hh := sg_empty_of_top0 w h0
      have ht := w.top
      unfold topOk at ht
      rw [hh.1] at ht
      simp only [Bool.and_eq_true, decide_eq_true_eq] at ht
      omega
    obtain ⟨gg, hgg⟩ := sg_segs_of_top w htn
    obtain ⟨g0, rest, _, _, _, _, hsegs, _, _, _, _, _, _, _, _, hgb, hgt, _, _, _⟩ := w.top_parts (w.topsize_ne hgg)
    have hg0 : g0 ∈ s.segs := by rw [hsegs]; exact List.mem_cons_self
    split at he
    · rename_i hnone
      unfold segment_holding at hnone
      have := List.find?_eq_none.1 hnone g0 hg0
      unfold Seg.holds Seg.top at this
      simp only [Bool.and_eq_true, decide_eq_true_eq] at this
      have := w.topsize_ne hgg
      omega
    · rename_i sp hsh
      obtain ⟨hsp, _⟩ := sg_segment_holding hsh
      esimp at he
      rcases he with he | ⟨⟨s1, r1⟩, ht, he⟩
      · exact trim_release_err he
      obtain ⟨⟨q1, ev1, hs1⟩, hrel⟩ := sg_trim_release_eq ht
      obtain ⟨_, _, _, _, _, hle⟩ := trim_release_spec ht
      subst hs1
      dsimp only at he
      split at he
      · rename_i hne
        have hr1 : r1 = ((s.h.topsize - pad + DEFAULT_GRANULARITY - 1) / DEFAULT_GRANULARITY - 1) * DEFAULT_GRANULARITY := by
          rcases hrel with h1 | h1
          · exact h1
          · exact absurd h1 hne
        obtain ⟨x1, x2⟩ := sg_trim_extra hgt0
        rw [← hr1] at x1 x2
        esimp at he
        rcases he with ⟨h1, _⟩ | ⟨_, _, he⟩
        · simp only [decide_eq_true_eq] at h1
          have := hle hne
          have := sp_size_le_fp hfp hsp
          change s.footprint < r1 at h1
          omega
        · obtain ⟨a, b, c, d⟩ := sp_top_facts w htn
          refine (init_top_err he ?_ ?_ ?_).elim
          · exact a
          · show s.h.top + 32 ≤ _; omega
          · show (s.h.topsize - r1) % 8 = 0; omega
      · esimp at he
  · esimp at he

/-- **`sys_trim` fails only by `os-desync:mremap/munmap`** -/
theorem sp_sys_trim_prog : sys_trim_Prog := by
  intro s hi hfp pad e he
  unfold sys_trim at he
  dsimp only at he
  split at he
  · esimp at he
    rcases he with he | ⟨⟨s1, r1⟩, h1, he⟩
    · exact sp_trim_top_prog hi hfp e he
    · exact sp_release_unused_segments_prog (sg_trim_top hi h1).1 (sp_fp_of_book hfp (trim_top_book h1)) e he
  · esimp at he

/-! ## why `FpOk` is needed, and non-vacuity -/

def spErrIs {α : Type} (x : M α) (m : String) : Bool :=
  match x with
  | .error e => e == m
  | .ok _ => false

theorem sp_errIs {α : Type} {x : M α} {m : String} (h : spErrIs x m = true) : x = .error m := by
  unfold spErrIs at h
  split at h
  · rw [beq_iff_eq.1 h]
  · cases h

def spIsOk {α : Type} (x : M α) : Bool :=
  match x with
  | .error _ => false
  | .ok _ => true

theorem sp_isOk {α : Type} {x : M α} (h : spIsOk x = true) : Total x := by
  unfold spIsOk at h
  split at h
  · cases h
  · rename_i r; exact ⟨r, rfl⟩

/-- the reachable two-segment state of `sgOpsTwo` with the footprint counter zeroed: still `SInv` (which reads
`footprint` only while there is no segment) -/
def spBadFp : St := { sgStart sgOpsTwo [.u true] with footprint := 0 }

set_option maxRecDepth 100000 in
/-- **`SInv` alone does not exclude `underflow:footprint`**: the kernel-checked reason for the extra hypothesis
`FpOk` of `release_unused_segments_Prog` / `sys_trim_Prog` -/
theorem sp_fpOk_needed : SInv spBadFp ∧ ¬ FpOk spBadFp ∧
    release_unused_segments spBadFp = .error "underflow:footprint" := by
  refine ⟨sg_sinv_same (sg_start_sinv (ops := sgOpsTwo) (by decide) [.u true]) ⟨rfl, rfl, rfl, rfl, rfl, rfl, rfl⟩ rfl rfl
    (fun h => by revert h; decide), by unfold FpOk; decide, sp_errIs (by decide)⟩

set_option maxRecDepth 100000 in
/-- the hypotheses of the progress theorems hold on reachable states (`FpOk` included) and there the calls
succeed; a wrong kind of OS answer is the one way to fail -/
example :
    FpOk (sgStart sgOpsTwo [.u true]) ∧ SInv (sgStart sgOpsTwo [.u true]) ∧
    Total (release_unused_segments (sgStart sgOpsTwo [.u true])) ∧
    release_unused_segments (sgStart sgOpsTwo [.r true]) = .error "os-desync:munmap" ∧
    sys_alloc (sgStart [] []) 112 = .error "os-desync:mmap" :=
  ⟨by unfold FpOk; decide, sg_start_sinv (by decide) _, sp_isOk (by decide), sp_errIs (by decide), sp_errIs (by decide)⟩

end TinyVerif.Dl
