import TinyVerif.Proofs.DlWF
/-!
The tree-bin layer of the inductiveness proof of `wfb` (`Model/DlmallocWF.lean`): the pure trie
functions of `Model/Dlmalloc.lean` (`Tree.insert`, `Tree.takeLeaf`, `Tree.unlinkRoot`, `Tree.remove`)

* keep the members as a multiset (`List.Perm`, proved through `List.count`),
* preserve the trie invariant `trieOk` and the distinctness of the node sizes.

The bin-level statements about the heap wrappers are in `Proofs/DlIndTreeBins.lean`.
-/
namespace TinyVerif.Dl

open List

/-! ### `nodupB` is `List.Nodup` -/

theorem nodupB_iff (l : List Nat) : nodupB l = true ↔ l.Nodup := by
  induction l with
  | nil => simp [nodupB]
  | cons a as ih =>
    simp only [nodupB, Bool.and_eq_true, Bool.not_eq_true', List.nodup_cons, ih]
    constructor
    · rintro ⟨h1, h2⟩
      refine ⟨fun hm => ?_, h2⟩
      rw [List.contains_iff_mem.2 hm] at h1; cases h1
    · rintro ⟨h1, h2⟩
      refine ⟨?_, h2⟩
      cases hc : as.contains a with
      | false => rfl
      | true => exact absurd (List.contains_iff_mem.1 hc) h1

theorem nodupB_perm {l l' : List Nat} (p : l ~ l') : nodupB l = nodupB l' := by
  have := p.nodup_iff
  rw [← nodupB_iff, ← nodupB_iff] at this
  cases h1 : nodupB l <;> cases h2 : nodupB l' <;> simp_all

/-- a list all of whose multiplicities are bounded by those of a duplicate-free list -/
theorem nodup_of_count_le {l l' : List Nat} (h : ∀ v, count v l' ≤ count v l) (hn : l.Nodup) : l'.Nodup := by
  rw [List.nodup_iff_count] at *
  intro a; exact Nat.le_trans (h a) (hn a)

/-! ### members as multisets: the pure tree functions -/

theorem count_members_node (v a s : Nat) (ring : List Nat) (l r : Tree) :
    count v (Tree.node a s ring l r).members
      = count v [a] + count v ring + count v l.members + count v r.members := by
  simp only [Tree.members, List.count_cons, List.count_append, List.count_nil]
  omega

theorem insert_count (t : Tree) : ∀ (k c sz v : Nat),
    count v (t.insert k c sz).members = count v [c] + count v t.members := by
  induction t with
  | nil => intro k c sz v; simp [Tree.insert, Tree.members]
  | node a s ring l r ihl ihr =>
    intro k c sz v
    simp only [Tree.insert]
    split
    · simp only [count_members_node, List.count_append]; omega
    · split
      · simp only [count_members_node, ihl]; omega
      · simp only [count_members_node, ihr]; omega

/-- `Tree.insert` adds exactly the chunk `c` -/
theorem insert_members_perm (t : Tree) (k c sz : Nat) : (t.insert k c sz).members ~ c :: t.members := by
  rw [List.perm_iff_count]; intro v
  rw [insert_count, List.count_cons (l := t.members)]
  simp only [List.count_cons, List.count_nil]; omega

theorem takeLeaf_none (t : Tree) : t.takeLeaf = none ↔ t = Tree.nil := by
  cases t with
  | nil => simp [Tree.takeLeaf]
  | node a s ring l r =>
    simp only [Tree.takeLeaf, reduceCtorEq, iff_false]
    split
    · simp
    · split <;> simp

theorem takeLeaf_count (t : Tree) : ∀ (xa xs : Nat) (xr : List Nat) (t' : Tree),
    t.takeLeaf = some (xa, xs, xr, t') →
    ∀ v, count v t.members = count v [xa] + count v xr + count v t'.members := by
  induction t with
  | nil => intro xa xs xr t' h; simp [Tree.takeLeaf] at h
  | node a s ring l r ihl ihr =>
    intro xa xs xr t' h v
    simp only [Tree.takeLeaf] at h
    split at h
    · rename_i ya ys yr r' hr
      simp only [Option.some.injEq, Prod.mk.injEq] at h
      obtain ⟨rfl, rfl, rfl, rfl⟩ := h
      simp only [count_members_node, ihr _ _ _ _ hr v]; omega
    · split at h
      · rename_i ya ys yr l' hl
        simp only [Option.some.injEq, Prod.mk.injEq] at h
        obtain ⟨rfl, rfl, rfl, rfl⟩ := h
        simp only [count_members_node, ihl _ _ _ _ hl v]; omega
      · rename_i _ hr _ hl
        simp only [Option.some.injEq, Prod.mk.injEq] at h
        obtain ⟨rfl, rfl, rfl, rfl⟩ := h
        rw [(takeLeaf_none l).1 hl, (takeLeaf_none r).1 hr]
        simp only [Tree.members, List.append_nil, List.count_cons, List.count_nil]; omega

/-- the leaf taken out by `takeLeaf` (with its ring) and the rest make up the tree -/
theorem takeLeaf_members_perm {t t' : Tree} {xa xs : Nat} {xr : List Nat}
    (h : t.takeLeaf = some (xa, xs, xr, t')) : t.members ~ xa :: (xr ++ t'.members) := by
  rw [List.perm_iff_count]; intro v
  rw [takeLeaf_count t _ _ _ _ h v]
  simp only [List.count_cons, List.count_append, List.count_nil]; omega

theorem unlinkRoot_count (a s : Nat) (ring : List Nat) (l r : Tree) (v : Nat) :
    count v (Tree.node a s ring l r).members = count v [a] + count v (Tree.unlinkRoot s ring l r).members := by
  unfold Tree.unlinkRoot
  split
  · simp only [count_members_node, List.count_cons, List.count_nil]; omega
  · split
    · rename_i xa xs xr r' hr
      simp only [count_members_node, takeLeaf_count r _ _ _ _ hr v, List.count_nil]; omega
    · split
      · rename_i xa xs xr l' hl
        simp only [count_members_node, takeLeaf_count l _ _ _ _ hl v, List.count_nil]; omega
      · rename_i _ hr _ hl
        rw [(takeLeaf_none l).1 hl, (takeLeaf_none r).1 hr]
        simp only [Tree.members, List.append_nil, List.count_cons, List.count_nil]; omega

/-- `unlinkRoot` removes exactly the root chunk -/
theorem unlinkRoot_members_perm (a s : Nat) (ring : List Nat) (l r : Tree) :
    (Tree.node a s ring l r).members ~ a :: (Tree.unlinkRoot s ring l r).members := by
  rw [List.perm_iff_count]; intro v
  rw [unlinkRoot_count]
  simp only [List.count_cons, List.count_nil]; omega

theorem count_erase_add {x : Nat} {l : List Nat} (h : x ∈ l) (v : Nat) :
    count v l = count v [x] + count v (l.erase x) := by
  have := (List.perm_iff_count.1 (List.perm_cons_erase h)) v
  rw [this]; simp only [List.count_cons, List.count_nil]; omega

theorem remove_count (t : Tree) : ∀ (x : Nat) (t' : Tree), t.remove x = some t' →
    ∀ v, count v t.members = count v [x] + count v t'.members := by
  induction t with
  | nil => intro x t' h; simp [Tree.remove] at h
  | node a s ring l r ihl ihr =>
    intro x t' h v
    simp only [Tree.remove] at h
    split at h
    · rename_i hax
      simp only [Option.some.injEq] at h
      subst h; subst hax
      exact unlinkRoot_count a s ring l r v
    · split at h
      · rename_i hc
        simp only [Option.some.injEq] at h
        subst h
        simp only [count_members_node, count_erase_add (List.contains_iff_mem.1 hc) v]; omega
      · split at h
        · rename_i l' hl
          simp only [Option.some.injEq] at h
          subst h
          simp only [count_members_node, ihl _ _ hl v]; omega
        · split at h
          · rename_i r' hr
            simp only [Option.some.injEq] at h
            subst h
            simp only [count_members_node, ihr _ _ hr v]; omega
          · cases h

/-- `Tree.remove` removes exactly the chunk `x` -/
theorem remove_members_perm {t t' : Tree} {x : Nat} (h : t.remove x = some t') :
    t.members ~ x :: t'.members := by
  rw [List.perm_iff_count]; intro v
  rw [remove_count t x t' h v]
  simp only [List.count_cons, List.count_nil]; omega

/-- `Tree.remove` fails exactly on chunks that are not in the tree -/
theorem remove_none_iff (t : Tree) (x : Nat) : t.remove x = none ↔ x ∉ t.members := by
  induction t with
  | nil => simp [Tree.remove, Tree.members]
  | node a s ring l r ihl ihr =>
    simp only [Tree.remove, Tree.members, List.mem_cons, List.mem_append, not_or]
    split
    · rename_i hax; simp [hax]
    · rename_i hax
      split
      · rename_i hc; simp [List.contains_iff_mem.1 hc]
      · rename_i hc
        have hnr : x ∉ ring := fun hm => hc (List.contains_iff_mem.2 hm)
        split
        · rename_i l' hl
          have : ¬ x ∉ l.members := fun hn => by rw [← ihl] at hn; rw [hn] at hl; cases hl
          simp [this]
        · rename_i hl
          have hnl := ihl.1 hl
          split
          · rename_i r' hr
            have : ¬ x ∉ r.members := fun hn => by rw [← ihr] at hn; rw [hn] at hr; cases hr
            simp [this]
          · rename_i hr
            have hnr' := ihr.1 hr
            simp only [true_iff]
            exact ⟨fun h => hax h.symm, hnr, hnl, hnr'⟩

theorem remove_isSome_of_mem {t : Tree} {x : Nat} (h : x ∈ t.members) : ∃ t', t.remove x = some t' := by
  cases hr : t.remove x with
  | some t' => exact ⟨t', rfl⟩
  | none => exact absurd h ((remove_none_iff t x).1 hr)


/-! ### key bits -/

abbrev skey (idx sz : Nat) : Nat := (sz <<< leftshift_for_tree_index idx) % U64

theorem bit_test (x n : Nat) : decide ((x >>> n) &&& 1 = 1) = x.testBit n := by
  rw [Nat.testBit_eq_decide_div_mod_eq, Nat.and_one_is_mod, Nat.shiftRight_eq_div_pow]

theorem bit_test0 (x n : Nat) : ((x >>> n) &&& 1 = 0) ↔ x.testBit n = false := by
  rw [Nat.testBit_eq_decide_div_mod_eq, Nat.and_one_is_mod, Nat.shiftRight_eq_div_pow]
  have := Nat.mod_lt (x / 2 ^ n) (show 0 < 2 by decide)
  simp only [decide_eq_false_iff_not]; omega

theorem descend_bit (S p : Nat) (hp : p ≤ 63) : ((S <<< p) % U64).testBit 63 = S.testBit (63 - p) := by
  rw [show U64 = 2 ^ 64 from rfl, Nat.testBit_mod_two_pow, Nat.testBit_shiftLeft]
  simp [hp]

theorem key_step (S p : Nat) : (((S <<< p) % U64) <<< 1) % U64 = (S <<< (p + 1)) % U64 := by
  rw [Nat.shiftLeft_eq, Nat.shiftLeft_eq, Nat.shiftLeft_eq, Nat.pow_one, Nat.pow_succ, ← Nat.mul_assoc]
  generalize S * 2 ^ p = x
  simp only [U64]; omega

theorem shift_inj {idx s1 s2 : Nat} (h1 : compute_tree_index s1 = idx) (h2 : compute_tree_index s2 = idx)
    (a1 : 256 ≤ s1) (a2 : 256 ≤ s2) (b1 : s1 < U64) (b2 : s2 < U64)
    (he : skey idx s1 = skey idx s2) : s1 = s2 := by
  by_cases h31 : idx = 31
  · subst h31
    simp only [skey, leftshift_31, Nat.shiftLeft_zero] at he
    rw [Nat.mod_eq_of_lt b1, Nat.mod_eq_of_lt b2] at he
    exact he
  · have hlt : idx < 31 := by
      have := compute_tree_index_lt s1
      omega
    have c1 : s1 < 2 ^ 24 := by
      apply Nat.lt_of_not_le; intro h
      rw [compute_tree_index_big s1 h] at h1; omega
    have c2 : s2 < 2 ^ 24 := by
      apply Nat.lt_of_not_le; intro h
      rw [compute_tree_index_big s2 h] at h2; omega
    have k1 := tree_index_bracket s1 a1 c1
    have k2 := tree_index_bracket s2 a2 c2
    rw [h1, min_size_for_tree_index_eq _ (by omega), min_size_for_tree_index_eq _ (by omega)] at k1
    rw [h2, min_size_for_tree_index_eq _ (by omega), min_size_for_tree_index_eq _ (by omega)] at k2
    simp only [skey, leftshift_eq idx hlt, Nat.shiftLeft_eq, U64] at he
    clear h1 h2 h31 b1 b2 c1 c2 a1 a2
    have hc : idx = 0 ∨ idx = 1 ∨ idx = 2 ∨ idx = 3 ∨ idx = 4 ∨ idx = 5 ∨ idx = 6 ∨ idx = 7 ∨ idx = 8 ∨ idx = 9 ∨ idx = 10 ∨ idx = 11 ∨ idx = 12 ∨ idx = 13 ∨ idx = 14 ∨ idx = 15 ∨ idx = 16 ∨ idx = 17 ∨ idx = 18 ∨ idx = 19 ∨ idx = 20 ∨ idx = 21 ∨ idx = 22 ∨ idx = 23 ∨ idx = 24 ∨ idx = 25 ∨ idx = 26 ∨ idx = 27 ∨ idx = 28 ∨ idx = 29 ∨ idx = 30 := by omega
    rcases hc with rfl | rfl | rfl | rfl | rfl | rfl | rfl | rfl | rfl | rfl | rfl | rfl | rfl | rfl | rfl | rfl | rfl | rfl | rfl | rfl | rfl | rfl | rfl | rfl | rfl | rfl | rfl | rfl | rfl | rfl | rfl <;>
      (simp only [Nat.reducePow, Nat.reduceAdd, Nat.reduceMul, Nat.reduceDiv, Nat.reduceMod, Nat.reduceSub] at *; omega)

/-! ### `pathOk` -/

theorem pathOk_append (sb : Nat) (p q : List Bool) : ∀ j,
    pathOk sb j (p ++ q) = (pathOk sb j p && pathOk sb (j + p.length) q) := by
  induction p with
  | nil => intro j; simp [pathOk]
  | cons b bs ih =>
    intro j
    simp only [List.cons_append, pathOk, ih, List.length_cons, Bool.and_assoc]
    rw [show j + 1 + bs.length = j + (bs.length + 1) by omega]

theorem pathOk_prefix {sb j : Nat} {p q : List Bool} (h : pathOk sb j (p ++ q) = true) : pathOk sb j p = true := by
  rw [pathOk_append, Bool.and_eq_true] at h; exact h.1

/-- `pathOk` of a path extended by one step, in terms of `testBit` -/
theorem pathOk_snoc (sb : Nat) (p : List Bool) (b : Bool) :
    pathOk sb 0 (p ++ [b]) = (pathOk sb 0 p && (sb.testBit (63 - p.length) == b)) := by
  rw [pathOk_append]
  simp only [pathOk, Nat.zero_add, Bool.and_true, bit_test]

theorem pathOk_agree {S1 S2 : Nat} (path : List Bool) : ∀ j, pathOk S1 j path = true → pathOk S2 j path = true →
    ∀ i, j ≤ i → i < j + path.length → S1.testBit (63 - i) = S2.testBit (63 - i) := by
  induction path with
  | nil => intro j _ _ i h1 h2; simp at h2; omega
  | cons b bs ih =>
    intro j p1 p2 i h1 h2
    simp only [pathOk, Bool.and_eq_true, bit_test, beq_iff_eq] at p1 p2
    by_cases hij : i = j
    · subst hij; rw [p1.1, p2.1]
    · exact ih (j + 1) p1.2 p2.2 i (by omega) (by simp only [List.length_cons] at h2; omega)

/-- two 64-bit keys that follow the same path of 64 or more steps are equal -/
theorem path_inj {S1 S2 : Nat} {path : List Bool} (p1 : pathOk S1 0 path = true) (p2 : pathOk S2 0 path = true)
    (hl : 64 ≤ path.length) (b1 : S1 < U64) (b2 : S2 < U64) : S1 = S2 := by
  apply Nat.eq_of_testBit_eq
  intro n
  by_cases hn : n < 64
  · have := pathOk_agree path 0 p1 p2 (63 - n) (by omega) (by omega)
    rwa [show 63 - (63 - n) = n by omega] at this
  · have hp : (2 : Nat) ^ 64 ≤ 2 ^ n := Nat.pow_le_pow_right (by decide) (by omega)
    rw [Nat.testBit_lt_two_pow (Nat.lt_of_lt_of_le b1 hp), Nat.testBit_lt_two_pow (Nat.lt_of_lt_of_le b2 hp)]

/-! ### the trie invariant, node by node -/

/-- the part of `trieOk` that concerns one node -/
def nodeOk (es : List Ent) (idx a s : Nat) (ring : List Nat) (path : List Bool) : Prop :=
  sizeAt es a s = true ∧ (∀ x ∈ ring, sizeAt es x s = true) ∧ compute_tree_index s = idx ∧ 256 ≤ s ∧
    pathOk (skey idx s) 0 path = true

theorem trieOk_node (es : List Ent) (idx a s : Nat) (ring : List Nat) (l r : Tree) (path : List Bool) :
    trieOk es idx (.node a s ring l r) path = true ↔
      nodeOk es idx a s ring path ∧ trieOk es idx l (path ++ [false]) = true ∧
        trieOk es idx r (path ++ [true]) = true := by
  simp only [trieOk, nodeOk, Bool.and_eq_true, List.all_eq_true, decide_eq_true_eq, and_assoc]

theorem trieOk_nil (es : List Ent) (idx : Nat) (path : List Bool) : trieOk es idx .nil path = true := rfl

theorem nodeOk_prefix {es : List Ent} {idx a s : Nat} {ring : List Nat} {p q : List Bool}
    (h : nodeOk es idx a s ring (p ++ q)) : nodeOk es idx a s ring p :=
  ⟨h.1, h.2.1, h.2.2.1, h.2.2.2.1, pathOk_prefix h.2.2.2.2⟩

/-- every node size of a trie follows the path of the trie's root … -/
theorem trieOk_size_path {es : List Ent} {idx : Nat} (t : Tree) : ∀ (path : List Bool),
    trieOk es idx t path = true → ∀ s ∈ t.nodeSizes, pathOk (skey idx s) 0 path = true := by
  induction t with
  | nil => intro path _ s hs; simp [Tree.nodeSizes] at hs
  | node a s0 ring l r ihl ihr =>
    intro path h s hs
    rw [trieOk_node] at h
    simp only [Tree.nodeSizes, List.mem_cons, List.mem_append] at hs
    rcases hs with rfl | hs | hs
    · exact h.1.2.2.2.2
    · exact pathOk_prefix (ihl _ h.2.1 s hs)
    · exact pathOk_prefix (ihr _ h.2.2 s hs)

/-- … and is the size of a header (so it inherits every bound on header sizes) -/
theorem trieOk_size_at {es : List Ent} {idx : Nat} (t : Tree) : ∀ (path : List Bool),
    trieOk es idx t path = true → ∀ s ∈ t.nodeSizes,
      ∃ a, a ∈ t.members ∧ sizeAt es a s = true ∧ compute_tree_index s = idx ∧ 256 ≤ s := by
  induction t with
  | nil => intro path _ s hs; simp [Tree.nodeSizes] at hs
  | node a s0 ring l r ihl ihr =>
    intro path h s hs
    rw [trieOk_node] at h
    simp only [Tree.nodeSizes, List.mem_cons, List.mem_append] at hs
    rcases hs with rfl | hs | hs
    · exact ⟨a, by simp [Tree.members], h.1.1, h.1.2.2.1, h.1.2.2.2.1⟩
    · obtain ⟨x, hx, h3⟩ := ihl _ h.2.1 s hs
      exact ⟨x, by simp [Tree.members, hx], h3⟩
    · obtain ⟨x, hx, h3⟩ := ihr _ h.2.2 s hs
      exact ⟨x, by simp [Tree.members, hx], h3⟩

/-- all members of a well-formed trie have a header, of the size of their node -/
theorem trieOk_member_sized {es : List Ent} {idx : Nat} (t : Tree) : ∀ (path : List Bool),
    trieOk es idx t path = true → ∀ x ∈ t.members,
      ∃ s, s ∈ t.nodeSizes ∧ sizeAt es x s = true ∧ compute_tree_index s = idx ∧ 256 ≤ s := by
  induction t with
  | nil => intro path _ x hx; simp [Tree.members] at hx
  | node a s0 ring l r ihl ihr =>
    intro path h x hx
    rw [trieOk_node] at h
    simp only [Tree.members, List.mem_cons, List.mem_append] at hx
    rcases hx with rfl | hx | hx | hx
    · exact ⟨s0, by simp [Tree.nodeSizes], h.1.1, h.1.2.2.1, h.1.2.2.2.1⟩
    · exact ⟨s0, by simp [Tree.nodeSizes], h.1.2.1 x hx, h.1.2.2.1, h.1.2.2.2.1⟩
    · obtain ⟨s, hs, h3⟩ := ihl _ h.2.1 x hx
      exact ⟨s, by simp [Tree.nodeSizes, hs], h3⟩
    · obtain ⟨s, hs, h3⟩ := ihr _ h.2.2 x hx
      exact ⟨s, by simp [Tree.nodeSizes, hs], h3⟩

/-- frame: `trieOk` only reads the headers of the trie's members -/
theorem trieOk_frame {es es' : List Ent} {idx : Nat} (t : Tree) : ∀ (path : List Bool),
    trieOk es idx t path = true → (∀ a ∈ t.members, findEnt es' a = findEnt es a) →
    trieOk es' idx t path = true := by
  induction t with
  | nil => intro path _ _; rfl
  | node a s ring l r ihl ihr =>
    intro path h hf
    rw [trieOk_node] at h ⊢
    have hsz : ∀ x ∈ (Tree.node a s ring l r).members, ∀ v, sizeAt es x v = true → sizeAt es' x v = true := by
      intro x hx v hv; unfold sizeAt at hv ⊢; rw [hf x hx]; exact hv
    refine ⟨⟨hsz a (by simp [Tree.members]) s h.1.1, fun x hx => hsz x (by simp [Tree.members, hx]) s (h.1.2.1 x hx),
      h.1.2.2⟩, ihl _ h.2.1 fun x hx => hf x (by simp [Tree.members, hx]),
      ihr _ h.2.2 fun x hx => hf x (by simp [Tree.members, hx])⟩

/-! ### `Tree.insert` -/

/-- One step of the descent of `insert_large_chunk`.  At a node of another size `s` that follows the
same path as `sz`, the path is shorter than 64 (two distinct sizes of one bin differ in one of the 64
key bits — this is where the bound `< 2^64` on the sizes is needed, for bin 31), so bit 63 of the
running key `k` is the next path bit of `sz`, and the shifted key is the running key one level down. -/
theorem descent_step {idx s sz k : Nat} {path : List Bool}
    (hs : pathOk (skey idx s) 0 path = true) (hz : pathOk (skey idx sz) 0 path = true)
    (hne : s ≠ sz) (i1 : compute_tree_index s = idx) (i2 : compute_tree_index sz = idx)
    (a1 : 256 ≤ s) (a2 : 256 ≤ sz) (b1 : s < U64) (b2 : sz < U64)
    (hk : k = (skey idx sz <<< path.length) % U64) :
    pathOk (skey idx sz) 0 (path ++ [k.testBit 63]) = true ∧
      (k <<< 1) % U64 = (skey idx sz <<< (path ++ [k.testBit 63]).length) % U64 := by
  have hp : path.length ≤ 63 := by
    apply Nat.le_of_not_lt; intro hlt
    have := path_inj hs hz (by omega) (Nat.mod_lt _ (by decide)) (Nat.mod_lt _ (by decide))
    exact hne (shift_inj i1 i2 a1 a2 b1 b2 this)
  constructor
  · rw [pathOk_snoc, hz, hk, descend_bit _ _ hp]; simp
  · rw [hk, key_step, List.length_append, List.length_singleton]

theorem trieOk_insert {es : List Ent} {idx c sz : Nat} (hc : sizeAt es c sz = true)
    (hidx : compute_tree_index sz = idx) (h256 : 256 ≤ sz) (hsz : sz < U64) (t : Tree) :
    ∀ (path : List Bool) (k : Nat), trieOk es idx t path = true → (∀ s ∈ t.nodeSizes, s < U64) →
      pathOk (skey idx sz) 0 path = true → k = (skey idx sz <<< path.length) % U64 →
      trieOk es idx (t.insert k c sz) path = true := by
  induction t with
  | nil =>
    intro path k _ _ hp _
    simp only [Tree.insert]
    rw [trieOk_node]
    exact ⟨⟨hc, by simp, hidx, h256, hp⟩, rfl, rfl⟩
  | node a s ring l r ihl ihr =>
    intro path k h hb hp hk
    rw [trieOk_node] at h
    obtain ⟨⟨n1, n2, n3, n4, n5⟩, hl, hr⟩ := h
    simp only [Tree.insert]
    split
    · rename_i hss; subst hss
      rw [trieOk_node]
      refine ⟨⟨n1, ?_, n3, n4, n5⟩, hl, hr⟩
      intro x hx
      rcases List.mem_append.1 hx with hx | hx
      · exact n2 x hx
      · simp only [List.mem_singleton] at hx; subst hx; exact hc
    · rename_i hne
      have hbs : s < U64 := hb s (by simp [Tree.nodeSizes])
      obtain ⟨d1, d2⟩ := descent_step n5 hp hne n3 hidx n4 h256 hbs hsz hk
      split
      · rename_i hbit
        rw [show SIZEOF_USIZE * 8 - 1 = 63 from rfl, bit_test0] at hbit
        rw [hbit] at d1 d2
        rw [trieOk_node]
        exact ⟨⟨n1, n2, n3, n4, n5⟩,
          ihl _ _ hl (fun v hv => hb v (by simp [Tree.nodeSizes, hv])) d1 d2, hr⟩
      · rename_i hbit
        rw [show SIZEOF_USIZE * 8 - 1 = 63 from rfl, bit_test0, Bool.not_eq_false] at hbit
        rw [hbit] at d1 d2
        rw [trieOk_node]
        exact ⟨⟨n1, n2, n3, n4, n5⟩, hl,
          ihr _ _ hr (fun v hv => hb v (by simp [Tree.nodeSizes, hv])) d1 d2⟩

theorem count_nodeSizes_node (v a s : Nat) (ring : List Nat) (l r : Tree) :
    count v (Tree.node a s ring l r).nodeSizes = count v [s] + count v l.nodeSizes + count v r.nodeSizes := by
  simp only [Tree.nodeSizes, List.count_cons, List.count_append, List.count_nil]
  omega

/-- `insert` either finds a node of size `sz` (and the node sizes stay as they are) or creates one — and
then no node of the trie had that size: on the search path there was none, and off the search path
every node's key differs from `sz`'s in the bit at which the search left it. -/
theorem insert_nodeSizes {es : List Ent} {idx c sz : Nat}
    (hidx : compute_tree_index sz = idx) (h256 : 256 ≤ sz) (hsz : sz < U64) (t : Tree) :
    ∀ (path : List Bool) (k : Nat), trieOk es idx t path = true → (∀ s ∈ t.nodeSizes, s < U64) →
      pathOk (skey idx sz) 0 path = true → k = (skey idx sz <<< path.length) % U64 →
      (t.insert k c sz).nodeSizes = t.nodeSizes ∨
      (sz ∉ t.nodeSizes ∧ ∀ v, count v (t.insert k c sz).nodeSizes = count v [sz] + count v t.nodeSizes) := by
  induction t with
  | nil =>
    intro path k _ _ _ _
    right
    simp [Tree.insert, Tree.nodeSizes]
  | node a s ring l r ihl ihr =>
    intro path k h hb hp hk
    rw [trieOk_node] at h
    obtain ⟨⟨n1, n2, n3, n4, n5⟩, hl, hr⟩ := h
    simp only [Tree.insert]
    split
    · left; rfl
    · rename_i hne
      have hbs : s < U64 := hb s (by simp [Tree.nodeSizes])
      obtain ⟨d1, d2⟩ := descent_step n5 hp hne n3 hidx n4 h256 hbs hsz hk
      split
      · rename_i hbit
        rw [show SIZEOF_USIZE * 8 - 1 = 63 from rfl, bit_test0] at hbit
        rw [hbit] at d1 d2
        rcases ihl _ _ hl (fun v hv => hb v (by simp [Tree.nodeSizes, hv])) d1 d2 with he | ⟨hn, hcnt⟩
        · left; simp only [Tree.nodeSizes, he]
        · right
          refine ⟨?_, fun v => by simp only [count_nodeSizes_node, hcnt v]; omega⟩
          simp only [Tree.nodeSizes, List.mem_cons, List.mem_append, not_or]
          refine ⟨fun h => hne h.symm, hn, fun hm => ?_⟩
          have := trieOk_size_path r _ hr sz hm
          rw [pathOk_snoc, Bool.and_eq_true] at this d1
          have e1 := this.2; have e2 := d1.2
          simp only [beq_iff_eq] at e1 e2
          rw [e1] at e2; cases e2
      · rename_i hbit
        rw [show SIZEOF_USIZE * 8 - 1 = 63 from rfl, bit_test0, Bool.not_eq_false] at hbit
        rw [hbit] at d1 d2
        rcases ihr _ _ hr (fun v hv => hb v (by simp [Tree.nodeSizes, hv])) d1 d2 with he | ⟨hn, hcnt⟩
        · left; simp only [Tree.nodeSizes, he]
        · right
          refine ⟨?_, fun v => by simp only [count_nodeSizes_node, hcnt v]; omega⟩
          simp only [Tree.nodeSizes, List.mem_cons, List.mem_append, not_or]
          refine ⟨fun h => hne h.symm, fun hm => ?_, hn⟩
          have := trieOk_size_path l _ hl sz hm
          rw [pathOk_snoc, Bool.and_eq_true] at this d1
          have e1 := this.2; have e2 := d1.2
          simp only [beq_iff_eq] at e1 e2
          rw [e1] at e2; cases e2

theorem nodup_insert {es : List Ent} {idx c sz : Nat}
    (hidx : compute_tree_index sz = idx) (h256 : 256 ≤ sz) (hsz : sz < U64) (t : Tree)
    (path : List Bool) (k : Nat) (h : trieOk es idx t path = true) (hb : ∀ s ∈ t.nodeSizes, s < U64)
    (hp : pathOk (skey idx sz) 0 path = true) (hk : k = (skey idx sz <<< path.length) % U64)
    (hn : nodupB t.nodeSizes = true) : nodupB (t.insert k c sz).nodeSizes = true := by
  rcases insert_nodeSizes (c := c) hidx h256 hsz t path k h hb hp hk with he | ⟨hnm, hcnt⟩
  · rw [he]; exact hn
  · rw [nodupB_iff] at hn ⊢
    rw [List.nodup_iff_count] at hn ⊢
    intro v
    rw [hcnt v]
    by_cases hv : v = sz
    · subst hv
      have := List.count_eq_zero.2 hnm
      simp only [List.count_cons, List.count_nil, beq_self_eq_true, if_true]; omega
    · have := hn v
      have hv' : (sz == v) = false := by simp; exact fun h => hv h.symm
      simp only [List.count_cons, List.count_nil, hv']; simpa using this


/-! ### `Tree.takeLeaf`, `Tree.unlinkRoot`, `Tree.remove` -/

/-- the leaf taken by `takeLeaf` lies below the root of the tree it is taken from, so its key follows
the root's path; what remains is still a trie -/
theorem trieOk_takeLeaf {es : List Ent} {idx : Nat} (t : Tree) : ∀ (path : List Bool) (xa xs : Nat)
    (xr : List Nat) (t' : Tree), trieOk es idx t path = true → t.takeLeaf = some (xa, xs, xr, t') →
    nodeOk es idx xa xs xr path ∧ trieOk es idx t' path = true := by
  induction t with
  | nil => intro path xa xs xr t' _ h; simp [Tree.takeLeaf] at h
  | node a s ring l r ihl ihr =>
    intro path xa xs xr t' h ht
    rw [trieOk_node] at h
    obtain ⟨hn, hl, hr⟩ := h
    simp only [Tree.takeLeaf] at ht
    split at ht
    · rename_i ya ys yr r' hr'
      simp only [Option.some.injEq, Prod.mk.injEq] at ht
      obtain ⟨rfl, rfl, rfl, rfl⟩ := ht
      obtain ⟨g1, g2⟩ := ihr _ _ _ _ _ hr hr'
      exact ⟨nodeOk_prefix g1, (trieOk_node ..).2 ⟨hn, hl, g2⟩⟩
    · split at ht
      · rename_i ya ys yr l' hl'
        simp only [Option.some.injEq, Prod.mk.injEq] at ht
        obtain ⟨rfl, rfl, rfl, rfl⟩ := ht
        obtain ⟨g1, g2⟩ := ihl _ _ _ _ _ hl hl'
        exact ⟨nodeOk_prefix g1, (trieOk_node ..).2 ⟨hn, g2, hr⟩⟩
      · simp only [Option.some.injEq, Prod.mk.injEq] at ht
        obtain ⟨rfl, rfl, rfl, rfl⟩ := ht
        exact ⟨hn, rfl⟩

theorem takeLeaf_nodeSizes (t : Tree) : ∀ (xa xs : Nat) (xr : List Nat) (t' : Tree),
    t.takeLeaf = some (xa, xs, xr, t') →
    ∀ v, count v t.nodeSizes = count v [xs] + count v t'.nodeSizes := by
  induction t with
  | nil => intro xa xs xr t' h; simp [Tree.takeLeaf] at h
  | node a s ring l r ihl ihr =>
    intro xa xs xr t' h v
    simp only [Tree.takeLeaf] at h
    split at h
    · rename_i ya ys yr r' hr
      simp only [Option.some.injEq, Prod.mk.injEq] at h
      obtain ⟨rfl, rfl, rfl, rfl⟩ := h
      simp only [count_nodeSizes_node, ihr _ _ _ _ hr v]; omega
    · split at h
      · rename_i ya ys yr l' hl
        simp only [Option.some.injEq, Prod.mk.injEq] at h
        obtain ⟨rfl, rfl, rfl, rfl⟩ := h
        simp only [count_nodeSizes_node, ihl _ _ _ _ hl v]; omega
      · rename_i _ hr _ hl
        simp only [Option.some.injEq, Prod.mk.injEq] at h
        obtain ⟨rfl, rfl, rfl, rfl⟩ := h
        rw [(takeLeaf_none l).1 hl, (takeLeaf_none r).1 hr]
        simp only [Tree.nodeSizes, List.append_nil, List.count_cons, List.count_nil]; omega

theorem trieOk_unlinkRoot {es : List Ent} {idx a s : Nat} {ring : List Nat} {l r : Tree} {path : List Bool}
    (h : trieOk es idx (.node a s ring l r) path = true) :
    trieOk es idx (Tree.unlinkRoot s ring l r) path = true := by
  rw [trieOk_node] at h
  obtain ⟨⟨n1, n2, n3, n4, n5⟩, hl, hr⟩ := h
  unfold Tree.unlinkRoot
  split
  · rename_i n rest
    rw [trieOk_node]
    exact ⟨⟨n2 n (by simp), fun x hx => n2 x (by simp [hx]), n3, n4, n5⟩, hl, hr⟩
  · split
    · rename_i xa xs xr r' hr'
      obtain ⟨g1, g2⟩ := trieOk_takeLeaf r _ _ _ _ _ hr hr'
      exact (trieOk_node ..).2 ⟨nodeOk_prefix g1, hl, g2⟩
    · split
      · rename_i xa xs xr l' hl'
        obtain ⟨g1, g2⟩ := trieOk_takeLeaf l _ _ _ _ _ hl hl'
        exact (trieOk_node ..).2 ⟨nodeOk_prefix g1, g2, hr⟩
      · rfl

theorem unlinkRoot_nodeSizes (a s : Nat) (ring : List Nat) (l r : Tree) (v : Nat) :
    count v (Tree.unlinkRoot s ring l r).nodeSizes ≤ count v (Tree.node a s ring l r).nodeSizes := by
  unfold Tree.unlinkRoot
  split
  · simp only [count_nodeSizes_node]; omega
  · split
    · rename_i xa xs xr r' hr
      simp only [count_nodeSizes_node, takeLeaf_nodeSizes r _ _ _ _ hr v]; omega
    · split
      · rename_i xa xs xr l' hl
        simp only [count_nodeSizes_node, takeLeaf_nodeSizes l _ _ _ _ hl v]; omega
      · simp [Tree.nodeSizes]

/-- `Tree.remove` preserves the trie invariant -/
theorem trieOk_remove {es : List Ent} {idx : Nat} (t : Tree) : ∀ (path : List Bool) (x : Nat) (t' : Tree),
    trieOk es idx t path = true → t.remove x = some t' → trieOk es idx t' path = true := by
  induction t with
  | nil => intro path x t' _ h; simp [Tree.remove] at h
  | node a s ring l r ihl ihr =>
    intro path x t' h ht
    simp only [Tree.remove] at ht
    split at ht
    · simp only [Option.some.injEq] at ht
      subst ht
      exact trieOk_unlinkRoot h
    · rw [trieOk_node] at h
      obtain ⟨⟨n1, n2, n3, n4, n5⟩, hl, hr⟩ := h
      split at ht
      · simp only [Option.some.injEq] at ht
        subst ht
        exact (trieOk_node ..).2 ⟨⟨n1, fun y hy => n2 y (List.mem_of_mem_erase hy), n3, n4, n5⟩, hl, hr⟩
      · split at ht
        · rename_i l' hl'
          simp only [Option.some.injEq] at ht
          subst ht
          exact (trieOk_node ..).2 ⟨⟨n1, n2, n3, n4, n5⟩, ihl _ _ _ hl hl', hr⟩
        · split at ht
          · rename_i r' hr'
            simp only [Option.some.injEq] at ht
            subst ht
            exact (trieOk_node ..).2 ⟨⟨n1, n2, n3, n4, n5⟩, hl, ihr _ _ _ hr hr'⟩
          · cases ht

/-- `Tree.remove` only ever drops a node size -/
theorem remove_nodeSizes (t : Tree) : ∀ (x : Nat) (t' : Tree), t.remove x = some t' →
    ∀ v, count v t'.nodeSizes ≤ count v t.nodeSizes := by
  induction t with
  | nil => intro x t' h; simp [Tree.remove] at h
  | node a s ring l r ihl ihr =>
    intro x t' ht v
    simp only [Tree.remove] at ht
    split at ht
    · simp only [Option.some.injEq] at ht
      subst ht
      exact unlinkRoot_nodeSizes a s ring l r v
    · split at ht
      · simp only [Option.some.injEq] at ht
        subst ht
        simp only [count_nodeSizes_node]; omega
      · split at ht
        · rename_i l' hl'
          simp only [Option.some.injEq] at ht
          subst ht
          have := ihl _ _ hl' v
          simp only [count_nodeSizes_node]; omega
        · split at ht
          · rename_i r' hr'
            simp only [Option.some.injEq] at ht
            subst ht
            have := ihr _ _ hr' v
            simp only [count_nodeSizes_node]; omega
          · cases ht

theorem nodup_remove {t t' : Tree} {x : Nat} (h : t.remove x = some t') (hn : nodupB t.nodeSizes = true) :
    nodupB t'.nodeSizes = true := by
  rw [nodupB_iff] at hn ⊢
  exact nodup_of_count_le (remove_nodeSizes t x t' h) hn

/-- the node sizes after a removal are node sizes before it -/
theorem remove_nodeSizes_mem {t t' : Tree} {x : Nat} (h : t.remove x = some t') {s : Nat}
    (hs : s ∈ t'.nodeSizes) : s ∈ t.nodeSizes := by
  have h1 := List.count_pos_iff.2 hs
  have h2 := remove_nodeSizes t x t' h s
  exact List.count_pos_iff.1 (by omega)

end TinyVerif.Dl
