import TinyVerif.Proofs.DlProgSpec
import TinyVerif.Proofs.DlIndAll
/-!
# Progress for `malloc_nosys`: from `SInv s`, `malloc_nosys s.h size` raises no error outcome

Every guard of the ten outcomes is discharged from the invariant:

* header writes need `size % 8 = 0` (`writeHead`) — sizes are multiples of 16 by `shapeOk` and the padding of
  the request; `set_foot` needs the header at the end of the free remainder, which is the in-use header after the
  victim (`WFS.free_parts`) and survives the two header writes before it (`mp_findEnt_putEnt_ge`);
* `take_first_small` / `getTree` indices come out of the bitmap tricks: `mp_tz_lsb` (lowest set bit of a
  non-zero u32 map is the index of a set bit `< 32`), `mp_exact_bin` (`idx + (!smallbits & 1)` is a non-empty
  bin when `smallbits & 3 ≠ 0`), `mp_next_bin` (the `leftbits` computation yields a non-empty bin above `idx`);
  bit set ⇒ bin non-empty ⇒ first chunk has a header of the bin's size (`sbinsOk`) / root is a node (`tbinsOk`);
* the tree searches return a chunk whose header size is `rsize + size` (`mp_lmBest_fit`, `mp_tlDescend_fit`,
  `mp_tl_search_fit`: strengthening of `lmBest_mem` / `tlDescend_mem` / `tl_search_mem` by the size fact from
  `trieOk`), so `getE` finds it, the size assertion holds and `unlink_large_chunk` finds it in its bin;
* `replace_dv`'s `is_small(dvsize)` assertion: it is only reached when `nb > dvsize` with `nb ≤ 240`.
-/
namespace TinyVerif.Dl

open List

/-! ## plumbing -/

theorem mp_bind_ok {α β : Type} {x : M α} {f : α → M β} {a : α} (hx : x = .ok a) (hf : Total (f a)) :
    Total (x >>= f) := by
  rw [hx]; exact hf

theorem mp_failIf_total {c : Bool} {msg : String} (h : c = false) : failIf c msg = .ok () := by
  subst h; rfl

/-- the fields the header primitives do not touch -/
structure mp_EFrame (h h' : Heap) : Prop where
  sbins : h'.sbins = h.sbins
  tbins : h'.tbins = h.tbins
  dv : h'.dv = h.dv
  dvsize : h'.dvsize = h.dvsize

theorem mp_EFrame.trans {a b c : Heap} (h1 : mp_EFrame a b) (h2 : mp_EFrame b c) : mp_EFrame a c :=
  ⟨h2.sbins.trans h1.sbins, h2.tbins.trans h1.tbins, h2.dv.trans h1.dv, h2.dvsize.trans h1.dvsize⟩

/-! ## the header primitives do not fail -/

theorem mp_findEnt_dropWhile {P : Ent → Bool} {a : Nat} : ∀ {l : List Ent}, (∀ y ∈ l, P y = true → y.addr ≠ a) →
    findEnt (l.dropWhile P) a = findEnt l a := by
  intro l
  induction l with
  | nil => intro _; rfl
  | cons x xs ih =>
    intro h
    rw [List.dropWhile_cons]
    split
    · rename_i hp
      rw [ih (fun y hy => h y (List.mem_cons_of_mem _ hy)), findEnt_cons_ne (h x List.mem_cons_self hp)]
    · rfl

/-- writing a header does not disturb the headers at or after its end -/
theorem mp_findEnt_putEnt_ge {e : Ent} {a : Nat} (h1 : e.addr + e.size ≤ a) (h2 : a ≠ e.addr) :
    ∀ es : List Ent, findEnt (putEnt es e) a = findEnt es a := by
  intro es
  induction es with
  | nil => simp only [putEnt, findEnt]; rw [if_neg (fun h => h2 h.symm)]
  | cons x xs ih =>
    simp only [putEnt]
    split
    · simp only [findEnt]; rw [ih]
    · rw [findEnt_cons_ne (fun h => h2 h.symm)]
      apply mp_findEnt_dropWhile
      intro y _ hp hy
      simp only [Bool.or_eq_true, decide_eq_true_eq] at hp
      omega

theorem mp_writeHead_total {h : Heap} {a sz : Nat} (c p : Bool) (h8 : sz % 8 = 0) :
    ∃ h', writeHead h a sz c p = .ok h' ∧ mp_EFrame h h' ∧
      ∀ b, a + sz ≤ b → b ≠ a → findEnt h'.ents b = findEnt h.ents b :=
  ⟨_, writeHead_eq h8, ⟨rfl, rfl, rfl, rfl⟩, fun _ hb1 hb2 => mp_findEnt_putEnt_ge hb1 hb2 _⟩

theorem mp_modEnt_isSome {f : Ent → Ent} {a : Nat} : ∀ {l : List Ent} {e : Ent}, findEnt l a = some e →
    ∃ es, modEnt f l a = some es := by
  intro l
  induction l with
  | nil => intro e h; simp [findEnt] at h
  | cons x xs ih =>
    intro e h
    simp only [findEnt] at h
    simp only [modEnt]
    split at h
    · rename_i hx; rw [if_pos hx]; exact ⟨_, rfl⟩
    · rename_i hx
      rw [if_neg hx]
      obtain ⟨es, hes⟩ := ih h
      rw [hes]; exact ⟨_, rfl⟩

theorem mp_setFoot_total {h : Heap} {a v : Nat} {e : Ent} (he : findEnt h.ents a = some e) :
    ∃ h', setFoot h a v = .ok h' ∧ mp_EFrame h h' := by
  obtain ⟨es, hes⟩ := mp_modEnt_isSome (f := fun e => { e with pfoot := v }) he
  refine ⟨{ h with ents := es }, ?_, ⟨rfl, rfl, rfl, rfl⟩⟩
  unfold setFoot
  rw [hes]; rfl

theorem mp_orPin_frame (h : Heap) (a : Nat) : mp_EFrame h (orPin h a) := by
  unfold orPin
  split <;> exact ⟨rfl, rfl, rfl, rfl⟩

theorem mp_set_inuse_and_pinuse_total {h : Heap} {a sz : Nat} (h8 : sz % 8 = 0) :
    ∃ h', set_inuse_and_pinuse h a sz = .ok h' ∧ mp_EFrame h h' := by
  obtain ⟨h1, e1, f1, _⟩ := mp_writeHead_total (h := h) (a := a) true true h8
  refine ⟨orPin h1 (a + sz), ?_, f1.trans (mp_orPin_frame _ _)⟩
  unfold set_inuse_and_pinuse
  rw [e1]; rfl

theorem mp_inuse_chunk_total {h : Heap} {a sz : Nat} (h8 : sz % 8 = 0) :
    ∃ h', set_size_and_pinuse_of_inuse_chunk h a sz = .ok h' ∧ mp_EFrame h h' ∧
      ∀ b, a + sz ≤ b → b ≠ a → findEnt h'.ents b = findEnt h.ents b :=
  mp_writeHead_total true true h8

/-- the header of a free remainder can be written when the header after it exists -/
theorem mp_free_chunk_total {h : Heap} {a sz : Nat} {y : Ent} (h8 : sz % 8 = 0) (hpos : 0 < sz)
    (hy : findEnt h.ents (a + sz) = some y) :
    ∃ h', set_size_and_pinuse_of_free_chunk h a sz = .ok h' ∧ mp_EFrame h h' := by
  obtain ⟨h1, e1, f1, k1⟩ := mp_writeHead_total (h := h) (a := a) false true h8
  have hy1 : findEnt h1.ents (a + sz) = some y := by rw [k1 _ (Nat.le_refl _) (by omega)]; exact hy
  obtain ⟨h2, e2, f2⟩ := mp_setFoot_total (v := sz) hy1
  refine ⟨h2, ?_, f1.trans f2⟩
  unfold set_size_and_pinuse_of_free_chunk
  rw [e1]; exact e2

/-! ## `replace_dv`, `insert_chunk` -/

theorem mp_getBin_total {h : Heap} {i : Nat} (hl : h.sbins.length = 32) (hi : i < 32) :
    ∃ l, getBin h i = .ok l ∧ h.sbins[i]? = some l := by
  have : i < h.sbins.length := by omega
  exact ⟨h.sbins[i], getBin_ok.2 (List.getElem?_eq_getElem this), List.getElem?_eq_getElem this⟩

theorem mp_getTree_total {h : Heap} {i : Nat} (hl : h.tbins.length = 32) (hi : i < 32) :
    ∃ t, getTree h i = .ok t ∧ h.tbins[i]? = some t := by
  have : i < h.tbins.length := by omega
  exact ⟨h.tbins[i], getTree_ok.2 (List.getElem?_eq_getElem this), List.getElem?_eq_getElem this⟩

theorem mp_insert_small_total {h : Heap} {c sz : Nat} (hl : h.sbins.length = 32) (h32 : 32 ≤ sz) (hlt : sz < 256) :
    Total (insert_small_chunk h c sz) := by
  obtain ⟨l, hl1, _⟩ := mp_getBin_total hl (small_index_lt sz hlt)
  unfold insert_small_chunk
  dsimp only
  refine mp_bind_ok (mp_failIf_total (by rw [MIN_CHUNK_SIZE_eq]; simp; omega)) ?_
  exact mp_bind_ok hl1 (total_pure _)

theorem mp_insert_large_total {h : Heap} {c sz : Nat} (hl : h.tbins.length = 32) :
    Total (insert_large_chunk h c sz) := by
  obtain ⟨t, ht, _⟩ := mp_getTree_total hl (compute_tree_index_lt sz)
  unfold insert_large_chunk
  dsimp only
  exact mp_bind_ok ht (total_pure _)

theorem mp_insert_chunk_total {h : Heap} {c sz : Nat} (hs : h.sbins.length = 32) (ht : h.tbins.length = 32)
    (h32 : 32 ≤ sz) : Total (insert_chunk h c sz) := by
  unfold insert_chunk
  split
  · rename_i hsm
    exact mp_insert_small_total hs h32 ((is_small_iff sz).1 hsm)
  · exact mp_insert_large_total ht

theorem mp_replace_dv_total {h : Heap} {c sz : Nat} (hl : h.sbins.length = 32) (hsm : h.dvsize < 256)
    (hd : h.dvsize ≠ 0 → 32 ≤ h.dvsize) : Total (replace_dv h c sz) := by
  unfold replace_dv
  dsimp only
  refine mp_bind_ok (mp_failIf_total (by rw [(is_small_iff _).2 hsm]; rfl)) ?_
  split
  · rename_i hne
    obtain ⟨h1, e1⟩ := mp_insert_small_total (c := h.dv) hl (hd hne) hsm
    exact mp_bind_ok e1 (total_pure _)
  · exact mp_bind_ok rfl (total_pure _)

/-! ## the `dv` / `top` tail -/

/-- what `dvOk` + `shapeOk` + the boundary tags say about `dv` -/
theorem mp_dv_facts {s : St} (w : WFS s) (hne : s.h.dvsize ≠ 0) :
    s.h.dvsize % 16 = 0 ∧ 32 ≤ s.h.dvsize ∧ ∃ y, findEnt s.h.ents (s.h.dv + s.h.dvsize) = some y := by
  obtain ⟨x, hxm, hxa, hxf, hxs, hd32, hdv0, hdvtop⟩ := w.dv_parts hne
  obtain ⟨_, h16, _⟩ := shapeOk_free w.shape hxm (isFree_iff.1 hxf).1
  obtain ⟨pre, y, post, g, hes, _, _, _, hya, _⟩ := w.free_parts hxm hxf (by rw [hxa]; exact hdvtop)
  have hym : y ∈ s.h.ents := by rw [hes]; simp
  refine ⟨by omega, hd32, y, ?_⟩
  rw [← hxa, ← hxs, ← hya]
  exact entsOk_find y hym w.ents

theorem mp_malloc_dv_top_total {s : St} (w : WFS s) {nb : Nat} (hnb16 : nb % 16 = 0) (hnb32 : 32 ≤ nb) :
    Total (malloc_dv_top s.h nb) := by
  unfold malloc_dv_top
  dsimp only
  split
  · rename_i hle
    obtain ⟨hd16, hd32, y, hy⟩ := mp_dv_facts w (by omega)
    split
    · rename_i hge
      rw [MIN_CHUNK_SIZE_eq] at hge
      obtain ⟨h1, e1, _⟩ := mp_free_chunk_total
        (h := { s.h with dv := s.h.dv + nb, dvsize := s.h.dvsize - nb }) (a := s.h.dv + nb) (sz := s.h.dvsize - nb)
        (y := y) (by omega) (by omega)
        (by rw [show s.h.dv + nb + (s.h.dvsize - nb) = s.h.dv + s.h.dvsize by omega]; exact hy)
      obtain ⟨h2, e2, _⟩ := mp_inuse_chunk_total (h := h1) (a := s.h.dv) (sz := nb) (by omega)
      exact mp_bind_ok e1 (mp_bind_ok e2 (total_pure _))
    · obtain ⟨h1, e1, _⟩ := mp_set_inuse_and_pinuse_total
        (h := { s.h with dvsize := 0, dv := 0 }) (a := s.h.dv) (sz := s.h.dvsize) (by omega)
      exact mp_bind_ok e1 (total_pure _)
  · split
    · rename_i hlt
      obtain ⟨g, rest, pre, x, f, post, _, hes, hxa, hxf, hxs, _⟩ := w.top_parts (by omega)
      obtain ⟨_, h16, _⟩ := shapeOk_free w.shape (show x ∈ s.h.ents by rw [hes]; simp) (isFree_iff.1 hxf).1
      obtain ⟨h1, e1, _⟩ := mp_writeHead_total
        (h := { s.h with topsize := s.h.topsize - nb, top := s.h.top + nb }) (a := s.h.top + nb)
        (sz := s.h.topsize - nb) false true (by omega)
      obtain ⟨h2, e2, _⟩ := mp_inuse_chunk_total (h := h1) (a := s.h.top) (sz := nb) (by omega)
      exact mp_bind_ok e1 (mp_bind_ok e2 (total_pure _))
    · exact total_pure _

/-! ## bitmap tricks -/

/-- the lowest set bit of a non-zero u32 map, as computed by `trailing_zeros(least_bit(x))`, is the index of
a set bit below 32 -/
theorem mp_tz_lsb {x : Nat} (h0 : x ≠ 0) (h : x < 2 ^ 32) :
    ∃ k, k < 32 ∧ trailing_zeros32 (least_bit x) = k ∧ x.testBit k = true := by
  obtain ⟨k, hk, hl, hb, _⟩ := least_bit_testBit x h0 h
  exact ⟨k, hk, by rw [hl, trailing_zeros32_pow k hk], hb⟩

/-- `idx += !smallbits & 1` after `smallbits & 3 != 0`: the bin chosen is non-empty -/
theorem mp_exact_bin {x idx : Nat} (hx : x < 2 ^ 32) (hb : (x >>> idx) &&& 3 ≠ 0) :
    x.testBit (idx + ((U32 - 1 - (x >>> idx)) &&& 1)) = true := by
  have hsb : x >>> idx < 2 ^ 32 := Nat.lt_of_le_of_lt (Nat.shiftRight_le _ _) hx
  have h1 := shift_and_one x idx
  rw [Nat.and_one_is_mod] at h1 ⊢
  simp only [U32]
  by_cases ht : x.testBit idx = true
  · rw [ht, if_pos rfl] at h1
    rw [show (4294967296 - 1 - x >>> idx) % 2 = 0 by omega]
    exact ht
  · rw [if_neg ht] at h1
    rw [show (4294967296 - 1 - x >>> idx) % 2 = 1 by omega]
    rcases (shift_and_three x idx).1 hb with h | h
    · exact absurd h ht
    · exact h

/-- the `leftbits` computation of the `small-next` branch: some bin above `idx` is non-empty, and the index
computed is that of a non-empty bin above `idx` -/
theorem mp_next_bin {x idx : Nat} (hx : x < 2 ^ 32) (hidx : idx < 32) (h3 : ¬ (x >>> idx) &&& 3 ≠ 0)
    (hne : x >>> idx ≠ 0) :
    ∃ k, idx < k ∧ k < 32 ∧
      trailing_zeros32 (least_bit ((((x >>> idx) <<< idx) % U32) &&& left_bits ((1 <<< idx) % U32))) = k ∧
      x.testBit k = true := by
  have h1 : (1 <<< idx) % U32 = 2 ^ idx := by
    rw [Nat.one_shiftLeft]
    exact Nat.mod_eq_of_lt (Nat.pow_lt_pow_right (by decide) hidx)
  rw [h1]
  have hU : U32 = 2 ^ 32 := rfl
  have key : ∀ k, ((((x >>> idx) <<< idx) % U32) &&& left_bits (2 ^ idx)).testBit k =
      (decide (idx < k) && decide (k < 32) && x.testBit k) := by
    intro k
    rw [Nat.testBit_and, hU, Nat.testBit_mod_two_pow, Nat.testBit_shiftLeft, Nat.testBit_shiftRight,
      left_bits_pow_testBit idx k hidx]
    by_cases h : idx < k
    · have : idx + (k - idx) = k := by omega
      rw [this]
      have h' : k ≥ idx := by omega
      simp [h, h']
      intro a _; exact a
    · simp [h]
  have hnot : ¬ (x.testBit idx = true ∨ x.testBit (idx + 1) = true) := fun h => h3 ((shift_and_three x idx).2 h)
  obtain ⟨j, hj⟩ := (ne_zero_iff_testBit _).1 hne
  rw [Nat.testBit_shiftRight] at hj
  have hj32 : idx + j < 32 := by
    apply Nat.lt_of_not_le
    intro hge
    have : x.testBit (idx + j) = false :=
      Nat.testBit_lt_two_pow (Nat.lt_of_lt_of_le hx (Nat.pow_le_pow_right (by decide) hge))
    rw [this] at hj; cases hj
  have hj2 : idx < idx + j := by
    rcases Nat.lt_or_ge 1 j with h | h
    · omega
    · exfalso
      have : j = 0 ∨ j = 1 := by omega
      rcases this with rfl | rfl
      · exact hnot (Or.inl hj)
      · exact hnot (Or.inr hj)
  have hL0 : (((x >>> idx) <<< idx) % U32) &&& left_bits (2 ^ idx) ≠ 0 :=
    (ne_zero_iff_testBit _).2 ⟨idx + j, by rw [key]; simp [hj2, hj32, hj]⟩
  have hLlt : (((x >>> idx) <<< idx) % U32) &&& left_bits (2 ^ idx) < 2 ^ 32 :=
    Nat.lt_of_le_of_lt Nat.and_le_left (Nat.mod_lt _ (by decide))
  obtain ⟨k, hk, htz, hbit⟩ := mp_tz_lsb hL0 hLlt
  rw [key] at hbit
  simp only [Bool.and_eq_true, decide_eq_true_eq] at hbit
  exact ⟨k, hbit.1.1, hk, htz, hbit.2⟩

/-! ## a non-empty small bin: `take_first_small` succeeds -/

theorem mp_sbins_len {s : St} (w : WFS s) : s.h.sbins.length = 32 := by
  have := w.sbins
  simp only [Bool.and_eq_true, decide_eq_true_eq] at this
  exact this.1

theorem mp_tbins_len {s : St} (w : WFS s) : s.h.tbins.length = 32 := by
  have := w.tbins
  simp only [Bool.and_eq_true, decide_eq_true_eq] at this
  exact this.1

theorem mp_take_first_small_total {s : St} (w : WFS s) {i : Nat} (hb : (smallmap s.h).testBit i = true) :
    i < 32 ∧ Total (take_first_small s.h i) := by
  obtain ⟨l, hget, hl⟩ := (smallmap_testBit s.h i).1 hb
  have hi : i < 32 := by
    have := (List.getElem?_eq_some_iff.1 hget).1
    rw [mp_sbins_len w] at this; exact this
  refine ⟨hi, ?_⟩
  have hs := w.sbins
  simp only [Bool.and_eq_true, decide_eq_true_eq] at hs
  have g := sbinsFrom_get _ 0 _ l hs.2 hget
  rw [Nat.zero_add] at g
  cases l with
  | nil => exact absurd rfl hl
  | cons p rest =>
    obtain ⟨e, he, hes⟩ := sizeAt_iff.1 (g p List.mem_cons_self).1
    unfold take_first_small
    refine mp_bind_ok (getBin_ok.2 hget) ?_
    dsimp only
    refine mp_bind_ok (getE_ok.2 he) ?_
    refine mp_bind_ok (mp_failIf_total ?_) (total_pure _)
    rw [decide_eq_false_iff_not, small_index2size_eq i (by omega), hes]
    exact fun h => h rfl

/-! ## the victim after unlinking, and the two tails -/

/-- what the tails need to know about the heap `h1` after the victim `p` (header size `sz`) was unlinked -/
structure mp_Victim (s : St) (h1 : Heap) (p sz : Nat) : Prop where
  ents : h1.ents = s.h.ents
  dv : h1.dv = s.h.dv
  dvsize : h1.dvsize = s.h.dvsize
  sblen : h1.sbins.length = 32
  tblen : h1.tbins.length = 32
  sz16 : sz % 16 = 0
  next : ∃ y, findEnt s.h.ents (p + sz) = some y

theorem mp_victim_of_unlinked {s : St} (w : WFS s) {h1 : Heap} {p : Nat} (u : mn_Unlinked s.h h1 p) {x0 : Ent}
    (hx0 : findEnt s.h.ents p = some x0) : mp_Victim s h1 p x0.size := by
  obtain ⟨pre, post, x, y, g, fa, hxa, _, _, _⟩ := mn_freeAt w u
  have hxm : x ∈ s.h.ents := by rw [fa.hes]; simp
  have hym : y ∈ s.h.ents := by rw [fa.hes]; simp
  have hxx : x0 = x := by
    have := entsOk_find x hxm w.ents
    rw [hxa, hx0] at this
    injection this
  subst hxx
  obtain ⟨_, h16, _⟩ := shapeOk_free w.shape hxm (isFree_iff.1 fa.free).1
  have hs := u.sb
  have ht := u.tb
  unfold sbinsOk at hs
  unfold tbinsOk at ht
  simp only [Bool.and_eq_true, decide_eq_true_eq] at hs ht
  refine ⟨u.frame.ents, u.frame.dv, u.frame.dvsize, hs.1, ht.1, h16, y, ?_⟩
  rw [← hxa, ← fa.ya]
  exact entsOk_find y hym w.ents

theorem mp_exhaust_tail {s : St} {h1 : Heap} {p sz : Nat} (v : mp_Victim s h1 p sz) :
    ∃ h2, set_inuse_and_pinuse h1 p sz = .ok h2 := by
  obtain ⟨h2, e2, _⟩ := mp_set_inuse_and_pinuse_total (h := h1) (a := p) (sz := sz) (by have := v.sz16; omega)
  exact ⟨h2, e2⟩

theorem mp_split_tail {s : St} {h1 : Heap} {p sz nb rs : Nat} (v : mp_Victim s h1 p sz) (hnb16 : nb % 16 = 0)
    (hnb : 0 < nb) (hrs : 0 < rs) (hsum : nb + rs = sz) :
    ∃ h2 h3, set_size_and_pinuse_of_inuse_chunk h1 p nb = .ok h2 ∧
      set_size_and_pinuse_of_free_chunk h2 (p + nb) rs = .ok h3 ∧ mp_EFrame h1 h3 := by
  have := v.sz16
  obtain ⟨y, hy⟩ := v.next
  obtain ⟨h2, e2, f2, k2⟩ := mp_inuse_chunk_total (h := h1) (a := p) (sz := nb) (by omega)
  have hy2 : findEnt h2.ents (p + nb + rs) = some y := by
    rw [k2 _ (by omega) (by omega), v.ents, show p + nb + rs = p + sz by omega]; exact hy
  obtain ⟨h3, e3, f3⟩ := mp_free_chunk_total (h := h2) (a := p + nb) (sz := rs) (by omega) hrs hy2
  exact ⟨h2, h3, e2, e3, f2.trans f3⟩

/-! ## the tree searches return a chunk whose header size is `rsize + size` -/

/-- every node of the tree carries the size found in the header of its chunk -/
def mp_szOk (es : List Ent) : Tree → Prop
  | .nil => True
  | .node a s _ l r => sizeAt es a s = true ∧ mp_szOk es l ∧ mp_szOk es r

theorem mp_szOk_of_trieOk {es : List Ent} {idx : Nat} (t : Tree) : ∀ (path : List Bool),
    trieOk es idx t path = true → mp_szOk es t := by
  induction t with
  | nil => intro _ _; trivial
  | node a s ring l r ihl ihr =>
    intro path h
    rw [trieOk_node] at h
    exact ⟨h.1.1, ihl _ h.2.1, ihr _ h.2.2⟩

theorem mp_bin_szOk {s : St} (w : WFS s) {i : Nat} {t : Tree} (hget : s.h.tbins[i]? = some t) :
    mp_szOk s.h.ents t ∧ trieOk s.h.ents i t [] = true := by
  have ht := w.tbins
  simp only [Bool.and_eq_true, decide_eq_true_eq] at ht
  obtain ⟨g1, _⟩ := tbinsFrom_get _ 0 _ t ht.2 hget
  rw [Nat.zero_add] at g1
  exact ⟨mp_szOk_of_trieOk t [] g1, g1⟩

/-- the search state `(v, rsize)`: if a chunk was chosen, its header size is `rsize + size` -/
def mp_Fit (es : List Ent) (size : Nat) (v : Option Nat) (rs : Nat) : Prop :=
  ∀ a, v = some a → sizeAt es a (rs + size) = true

theorem mp_fit_none (es : List Ent) (size rs : Nat) : mp_Fit es size none rs := fun _ h => by cases h

theorem mp_fit_step {es : List Ent} {size ad s rs : Nat} {v : Option Nat} {hit : Bool}
    (hh : hit = true → s ≥ size) (hs : sizeAt es ad s = true) (hf : mp_Fit es size v rs) :
    mp_Fit es size (if hit = true then some ad else v) (if hit = true then s - size else rs) := by
  intro a ha
  by_cases h : hit = true
  · rw [if_pos h] at ha ⊢
    injection ha with ha
    subst ha
    have := hh h
    rw [show s - size + size = s by omega]; exact hs
  · rw [if_neg h] at ha ⊢
    exact hf a ha

theorem mp_hit_ge {s size rs : Nat} : (decide (s ≥ size) && decide (s - size < rs)) = true → s ≥ size := by
  intro h
  simp only [Bool.and_eq_true, decide_eq_true_eq] at h
  exact h.1

theorem mp_lmBest_fit {es : List Ent} (t : Tree) : ∀ (size : Nat) (v : Option Nat) (rs : Nat),
    mp_szOk es t → mp_Fit es size v rs → mp_Fit es size (t.lmBest size v rs).1 (t.lmBest size v rs).2 := by
  induction t with
  | nil => intro size v rs _ hf; simp only [Tree.lmBest]; exact hf
  | node ad s ring l r ihl ihr =>
    intro size v rs hsz hf
    have hstep := mp_fit_step (hit := decide (s ≥ size) && decide (s - size < rs)) mp_hit_ge hsz.1 hf
    cases l with
    | nil =>
      simp only [Tree.lmBest]
      exact ihr _ _ _ hsz.2.2 hstep
    | node la ls lring ll lr =>
      simp only [Tree.lmBest] at ihl ⊢
      exact ihl _ _ _ hsz.2.1 hstep

theorem mp_lmBest_some (t : Tree) : ∀ (size : Nat) (v : Option Nat) (rs : Nat),
    v ≠ none → (t.lmBest size v rs).1 ≠ none := by
  induction t with
  | nil => intro size v rs hv; simp only [Tree.lmBest]; exact hv
  | node ad s ring l r ihl ihr =>
    intro size v rs hv
    have hstep : (if (decide (s ≥ size) && decide (s - size < rs)) = true then some ad else v) ≠ none := by
      split
      · exact fun h => by cases h
      · exact hv
    cases l with
    | nil =>
      simp only [Tree.lmBest]
      exact ihr _ _ _ hstep
    | node la ls lring ll lr =>
      simp only [Tree.lmBest] at ihl ⊢
      exact ihl _ _ _ hstep

theorem mp_tlDescend_fit {es : List Ent} (t : Tree) (size sb : Nat) (v : Option Nat) (rs : Nat) (rst : Tree) :
    mp_szOk es t → mp_szOk es rst → mp_Fit es size v rs →
    mp_Fit es size (t.tlDescend size sb v rs rst).1 (t.tlDescend size sb v rs rst).2.1 ∧
      mp_szOk es (t.tlDescend size sb v rs rst).2.2 := by
  fun_induction Tree.tlDescend t size sb v rs rst with
  | case1 => intro _ h2 h3; exact ⟨h3, h2⟩
  | case2 ad s ring l r size sb v rs rst hit v' rs' hz =>
    intro h1 _ h3
    exact ⟨mp_fit_step mp_hit_ge h1.1 h3, h1⟩
  | case3 ad s ring r size sb v rs rst hit v' rs' hz hb rst' =>
    intro h1 h2 h3
    refine ⟨mp_fit_step mp_hit_ge h1.1 h3, ?_⟩
    cases r with
    | nil => exact h2
    | node ra rs2 rring rl rr => exact h1.2.2
  | case4 ad s ring r size sb v rs rst hit v' rs' hz hb rst' la ls lring ll lr ih =>
    intro h1 h2 h3
    refine ih h1.2.1 ?_ (mp_fit_step mp_hit_ge h1.1 h3)
    cases r with
    | nil => exact h2
    | node ra rs2 rring rl rr => exact h1.2.2
  | case5 ad s ring l size sb v rs rst hit v' rs' hz hb =>
    intro h1 h2 h3
    exact ⟨mp_fit_step mp_hit_ge h1.1 h3, h2⟩
  | case6 ad s ring l size sb v rs rst hit v' rs' hz hb ra rs2 rring rl rr ih =>
    intro h1 h2 h3
    exact ih h1.2.2 h2 (mp_fit_step mp_hit_ge h1.1 h3)

/-- the search of `tmalloc_large` does not fail, and what it returns fits -/
theorem mp_tl_search_total {s : St} (w : WFS s) (size : Nat) :
    ∃ v rsize, tl_search s.h size = .ok (v, rsize) ∧ mp_Fit s.h.ents size v rsize := by
  obtain ⟨root, hroot, hget⟩ := mp_getTree_total (mp_tbins_len w) (compute_tree_index_lt size)
  have hrsz := (mp_bin_szOk w hget).1
  -- the descent
  have hd : mp_Fit s.h.ents size (tlStart root size (compute_tree_index size) (U64 - 1 - size + 1)).1
      (tlStart root size (compute_tree_index size) (U64 - 1 - size + 1)).2.1 ∧
      mp_szOk s.h.ents (tlStart root size (compute_tree_index size) (U64 - 1 - size + 1)).2.2 := by
    unfold tlStart
    cases root with
    | nil => exact ⟨mp_fit_none _ _ _, trivial⟩
    | node ra rs rring rl rr =>
      exact mp_tlDescend_fit _ _ _ _ _ _ hrsz trivial (mp_fit_none _ _ _)
  generalize hdeq : tlStart root size (compute_tree_index size) (U64 - 1 - size + 1) = d at hd
  obtain ⟨v1, rs1, t1⟩ := d
  -- the next non-empty bin
  have hn : ∃ t2, tlNext s.h (compute_tree_index size) t1 v1 = .ok t2 ∧ mp_szOk s.h.ents t2 := by
    unfold tlNext
    split
    · dsimp only
      split
      · rename_i hne
        have hlt : left_bits ((1 <<< compute_tree_index size) % U32) &&& treemap s.h < 2 ^ 32 :=
          Nat.lt_of_le_of_lt Nat.and_le_right (treemap_lt s.h (mp_tbins_len w))
        obtain ⟨k, hk, htz, _⟩ := mp_tz_lsb hne hlt
        obtain ⟨t2, ht2, hget2⟩ := mp_getTree_total (mp_tbins_len w) hk
        rw [htz]
        exact ⟨t2, ht2, (mp_bin_szOk w hget2).1⟩
      · exact ⟨Tree.nil, rfl, trivial⟩
    · exact ⟨t1, rfl, hd.2⟩
  obtain ⟨t2, ht2, hsz2⟩ := hn
  refine ⟨(t2.lmBest size v1 rs1).1, (t2.lmBest size v1 rs1).2, ?_, mp_lmBest_fit t2 _ _ _ hsz2 hd.1⟩
  unfold tl_search
  dsimp only
  rw [hroot]
  simp only [bind, Except.bind]
  rw [hdeq]
  dsimp only
  rw [ht2]
  rfl

/-! ## `tmalloc_small`, `tmalloc_large` -/

theorem mp_dv_small {s : St} (w : WFS s) : s.h.dvsize ≠ 0 → 32 ≤ s.h.dvsize :=
  fun hne => (mp_dv_facts w hne).2.1

/-- `tmalloc_small` is only called with a small request larger than `dv` and a non-empty tree map -/
theorem mp_tmalloc_small_total {s : St} (w : WFS s) {nb : Nat} (hnb16 : nb % 16 = 0) (hnb32 : 32 ≤ nb)
    (hnb240 : nb ≤ 240) (hdv : s.h.dvsize < nb) (htm : treemap s.h ≠ 0) : Total (tmalloc_small s.h nb) := by
  obtain ⟨k, hk, htz, hbit⟩ := mp_tz_lsb htm (treemap_lt s.h (mp_tbins_len w))
  obtain ⟨t, hget, htne⟩ := (treemap_testBit s.h k).1 hbit
  obtain ⟨hszt, htrie⟩ := mp_bin_szOk w hget
  unfold tmalloc_small
  dsimp only
  rw [htz]
  refine mp_bind_ok (getTree_ok.2 hget) ?_
  cases t with
  | nil => exact absurd rfl htne
  | node a sz ring l r =>
    dsimp only
    rw [trieOk_node] at htrie
    obtain ⟨⟨hsa, _, _, h256, _⟩, _, _⟩ := htrie
    refine mp_bind_ok (mp_failIf_total (by rw [decide_eq_false_iff_not]; omega)) ?_
    -- the best fit
    have hfit0 : mp_Fit s.h.ents nb (some a) (sz - nb) := by
      intro a' ha'
      injection ha' with ha'
      subst ha'
      rw [show sz - nb + nb = sz by omega]; exact hsa
    generalize hres : Tree.lmBest _ nb (some a) (sz - nb) = res
    have hfacts : mp_Fit s.h.ents nb res.1 res.2 ∧ res.1 ≠ none ∧
        ∀ vc, res.1 = some vc → vc ∈ (Tree.node a sz ring l r).members := by
      rw [← hres]
      cases l with
      | nil =>
        refine ⟨mp_lmBest_fit r _ _ _ hszt.2.2 hfit0, mp_lmBest_some r _ _ _ (fun h => by cases h), ?_⟩
        intro vc hvc
        rcases lmBest_mem r nb (some a) (sz - nb) vc hvc with h1 | h1
        · injection h1 with h1; subst h1; exact mem_self _ _ _ _ _
        · exact mem_right _ _ _ _ h1
      | node la ls lring ll lr =>
        refine ⟨mp_lmBest_fit (Tree.node la ls lring ll lr) _ _ _ hszt.2.1 hfit0,
          mp_lmBest_some (Tree.node la ls lring ll lr) _ _ _ (fun h => by cases h), ?_⟩
        intro vc hvc
        rcases lmBest_mem (Tree.node la ls lring ll lr) nb (some a) (sz - nb) vc hvc with h1 | h1
        · injection h1 with h1; subst h1; exact mem_self _ _ _ _ _
        · exact mem_left _ _ _ _ h1
    clear hres
    obtain ⟨v, rsize⟩ := res
    obtain ⟨hfit, hsome, hmem⟩ := hfacts
    dsimp only at hfit hsome hmem ⊢
    cases v with
    | none => exact absurd rfl hsome
    | some vc =>
      dsimp only
      obtain ⟨e, he, hes⟩ := sizeAt_iff.1 (hfit vc rfl)
      refine mp_bind_ok (getE_ok.2 he) ?_
      refine mp_bind_ok (mp_failIf_total (by rw [decide_eq_false_iff_not]; exact fun h => h hes)) ?_
      obtain ⟨h1, e1⟩ := unlink_large_chunk_progress w.tbins
        (mem_joinAll_map_iff.2 ⟨k, _, hget, hmem vc rfl⟩)
      refine mp_bind_ok e1 ?_
      have vic := mp_victim_of_unlinked w (mn_unlinked_large w e1) he
      rw [hes] at vic
      split
      · obtain ⟨h2, e2⟩ := mp_exhaust_tail vic
        exact mp_bind_ok e2 (total_pure _)
      · rename_i hge
        rw [MIN_CHUNK_SIZE_eq] at hge
        obtain ⟨h2, h3, e2, e3, f3⟩ := mp_split_tail vic (nb := nb) (rs := rsize) hnb16 (by omega) (by omega)
          (by omega)
        refine mp_bind_ok e2 (mp_bind_ok e3 ?_)
        obtain ⟨h4, e4⟩ := mp_replace_dv_total (h := h3) (c := vc + nb) (sz := rsize)
          (by rw [f3.sbins]; exact vic.sblen) (by rw [f3.dvsize, vic.dvsize]; omega)
          (by rw [f3.dvsize, vic.dvsize]; exact mp_dv_small w)
        exact mp_bind_ok e4 (total_pure _)

theorem mp_tmalloc_large_total {s : St} (w : WFS s) {nb : Nat} (hnb16 : nb % 16 = 0) (hnb256 : 256 ≤ nb) :
    Total (tmalloc_large s.h nb) := by
  obtain ⟨v, rsize, hs, hfit⟩ := mp_tl_search_total w nb
  unfold tmalloc_large
  refine mp_bind_ok hs ?_
  dsimp only
  cases v with
  | none => exact total_pure _
  | some vc =>
    dsimp only
    split
    · exact total_pure _
    · have hsz := hfit vc rfl
      obtain ⟨e, he, hes⟩ := sizeAt_iff.1 hsz
      refine mp_bind_ok (getE_ok.2 he) ?_
      refine mp_bind_ok (mp_failIf_total (by rw [decide_eq_false_iff_not]; exact fun h => h hes)) ?_
      have hmem : vc ∈ joinAll (s.h.tbins.map Tree.members) := by
        have hb : vc ∈ binned s.h := tl_search_mem hs rfl
        unfold binned at hb
        rcases List.mem_append.1 hb with hm | hm
        · have := sbins_size_lt w.sbins hm hsz
          omega
        · exact hm
      obtain ⟨h1, e1⟩ := unlink_large_chunk_progress w.tbins hmem
      refine mp_bind_ok e1 ?_
      have vic := mp_victim_of_unlinked w (mn_unlinked_large w e1) he
      rw [hes] at vic
      split
      · obtain ⟨h2, e2⟩ := mp_exhaust_tail vic
        exact mp_bind_ok e2 (total_pure _)
      · rename_i hge
        rw [MIN_CHUNK_SIZE_eq] at hge
        obtain ⟨h2, h3, e2, e3, f3⟩ := mp_split_tail vic (nb := nb) (rs := rsize) hnb16 (by omega) (by omega)
          (by omega)
        refine mp_bind_ok e2 (mp_bind_ok e3 ?_)
        obtain ⟨h4, e4⟩ := mp_insert_chunk_total (h := h3) (c := vc + nb) (sz := rsize)
          (by rw [f3.sbins]; exact vic.sblen) (by rw [f3.tbins]; exact vic.tblen) (by omega)
        exact mp_bind_ok e4 (total_pure _)

/-! ## the whole -/

/-- **`malloc_nosys` raises no error outcome from a state satisfying the invariant** (only `WFS` is used) -/
theorem mp_malloc_nosys_total {s : St} (w : WFS s) (size : Nat) : Total (malloc_nosys s.h size) := by
  have hsm := smallmap_lt s.h (mp_sbins_len w)
  unfold malloc_nosys
  dsimp only
  split
  · rename_i hs
    rw [MAX_SMALL_REQUEST_eq] at hs
    have hnb32 := request2size_ge_min size (by omega)
    have hnb16 := request2size_aligned size (by omega)
    have hnb240 : request2size size ≤ 240 := by
      rw [request2size_eq size (by omega)]; split <;> omega
    have hidx : small_index (request2size size) = request2size size / 8 := small_index_eq _ (by omega)
    generalize request2size size = nb at *
    split
    · -- `small-bin`
      rename_i hbits
      obtain ⟨hi, ⟨h1, p⟩, e1⟩ := mp_take_first_small_total w (mp_exact_bin hsm hbits)
      refine mp_bind_ok e1 ?_
      dsimp only
      obtain ⟨h2, e2, _⟩ := mp_set_inuse_and_pinuse_total (h := h1) (a := p)
        (sz := small_index2size (small_index nb + ((U32 - 1 - smallmap s.h >>> small_index nb) &&& 1)))
        (by rw [small_index2size_eq _ (by omega)]; omega)
      exact mp_bind_ok e2 (total_pure _)
    · rename_i hbits
      split
      · rename_i hdv
        split
        · -- the next non-empty small bin
          rename_i hne
          obtain ⟨k, hk1, hk2, htz, hbit⟩ := mp_next_bin hsm (by omega : small_index nb < 32) hbits hne
          rw [htz]
          obtain ⟨_, ⟨h1, p⟩, e1⟩ := mp_take_first_small_total w hbit
          refine mp_bind_ok e1 ?_
          dsimp only
          have hk8 := small_index2size_eq k (by omega)
          refine mp_bind_ok (mp_failIf_total (by rw [decide_eq_false_iff_not]; omega)) ?_
          obtain ⟨rest, x, _, _, hfx, hxs⟩ := take_first_small_ok e1
          have vic := mp_victim_of_unlinked w (mn_unlinked_small w e1) hfx
          rw [hxs] at vic
          split
          · obtain ⟨h2, e2⟩ := mp_exhaust_tail vic
            exact mp_bind_ok e2 (total_pure _)
          · rename_i hge
            rw [MIN_CHUNK_SIZE_eq] at hge
            obtain ⟨h2, h3, e2, e3, f3⟩ := mp_split_tail vic (nb := nb) (rs := small_index2size k - nb) hnb16
              (by omega) (by omega) (by omega)
            refine mp_bind_ok e2 (mp_bind_ok e3 ?_)
            obtain ⟨h4, e4⟩ := mp_replace_dv_total (h := h3) (c := p + nb) (sz := small_index2size k - nb)
              (by rw [f3.sbins]; exact vic.sblen) (by rw [f3.dvsize, vic.dvsize]; omega)
              (by rw [f3.dvsize, vic.dvsize]; exact mp_dv_small w)
            exact mp_bind_ok e4 (total_pure _)
        · split
          · rename_i htm
            obtain ⟨⟨h1, m1⟩, e1⟩ := mp_tmalloc_small_total w hnb16 hnb32 hnb240 (by omega) htm
            exact mp_bind_ok e1 (total_pure _)
          · exact mp_malloc_dv_top_total w hnb16 hnb32
      · exact mp_malloc_dv_top_total w hnb16 hnb32
  · rename_i hs
    rw [MAX_SMALL_REQUEST_eq] at hs
    split
    · exact total_pure _
    · rename_i hmax
      have hlt := MAX_REQUEST_lt
      rw [MAX_REQUEST_eq] at hmax
      have hsz : size + 24 ≤ 2 ^ 64 := by omega
      have hnb16 := pad_request_aligned size hsz
      have hnb256 : 256 ≤ pad_request size := by
        rw [pad_request_eq size hsz]; omega
      split
      · obtain ⟨r, hr⟩ := mp_tmalloc_large_total w hnb16 hnb256
        refine mp_bind_ok hr ?_
        cases r with
        | none => exact mp_malloc_dv_top_total w hnb16 (by omega)
        | some hm => exact total_pure _
      · exact mp_malloc_dv_top_total w hnb16 (by omega)

theorem mp_malloc_nosys_prog : malloc_nosys_Prog := fun hi => mp_malloc_nosys_total hi.wfs _

/-! ## non-vacuity: the hypothesis holds on reachable two-segment states (`Proofs/DlIndMalloc2.lean`) -/

set_option maxRecDepth 40000 in
example : SInv (mn_stateOf mn_ops4).st ∧ Total (malloc_nosys (mn_stateOf mn_ops4).st.h 500) ∧
    Total (malloc_nosys (mn_stateOf mn_ops3).st.h 8) :=
  have i4 : Inv (mn_stateOf mn_ops4) := gl_inv_of_check (by decide) (by decide) (by decide) (by decide) (by decide) (by decide)
  have i3 : Inv (mn_stateOf mn_ops3) := gl_inv_of_check (by decide) (by decide) (by decide) (by decide) (by decide) (by decide)
  ⟨i4.1, mp_malloc_nosys_prog i4.1, mp_malloc_nosys_prog i3.1⟩

end TinyVerif.Dl
